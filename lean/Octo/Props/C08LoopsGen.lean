import Octo.Proofs.Loops
import Octo.Gen.LoopsGen
/-!
# C08 for the loops as they are in the source

`Octo.LoopsGen.*` are the control-flow sites of the long-lived loops, extracted from the Rust sources on every run by
`bin/translate_loops.py` under the classification rules in the header of `Octo/Gen/LoopsGen.lean`.  For each loop that serves
every flow the obligation `…_isolated` is re-decided against the current code; `…_alive` is then the instance of the generic
theorem (`Octo.Loops.runIters_serving_of_isolated`: all paths, all adversaries, any number of iterations).  Loops that are NOT
isolated under the rules (today: `startup_udp`) get an exact characterisation of the residual sites (`…_residual`) and the conditional statement.
The loops that serve one association get the weaker statement that fits them (`…_assocOk`, `…_datagram_faults_continue`).
-/
namespace Octo.LoopsGen
open Octo.Loops

/-- the loops found in the target functions: a loop that appears or disappears changes this list -/
theorem c08_generated_service_loops :
    serviceLoops.map (·.name) = ["startup_tcp_1", "startup_tcp_2", "startup_quic", "startup_udp", "transfer_tcp", "transfer_udp"] := by
  decide
theorem c08_generated_assoc_loops : assocLoops.map (·.name) = ["relay", "new_binding"] := by decide
theorem c08_generated_callees : callees.map (·.name) = ["callee_create"] := by decide

/-- a kind and operation name per site: what a residual is compared by (stable under renamed locals and added log lines) -/
def key (s : Site) : SiteKind × String := (s.kind, s.op)

/-! ## server: accept loop of `startup_tcp`, plain / websocket arm -/

/-- no site of the accept loop's own task is under one peer's control -/
theorem c08_generated_startup_tcp_1_isolated : startup_tcp_1.isolated = true := by decide
/-- after any finite sequence of adversarial iterations the listener is still accepting -/
theorem c08_generated_startup_tcp_1_alive (its : List Iter) : runIters startup_tcp_1 .serving its = .serving :=
  runIters_serving_of_isolated _ c08_generated_startup_tcp_1_isolated its

/-! ## server: accept loop of `startup_tcp`, TLS arm (the handshake runs in the connection's own task) -/

theorem c08_generated_startup_tcp_2_isolated : startup_tcp_2.isolated = true := by decide
theorem c08_generated_startup_tcp_2_alive (its : List Iter) : runIters startup_tcp_2 .serving its = .serving :=
  runIters_serving_of_isolated _ c08_generated_startup_tcp_2_isolated its
/-- the TLS handshake is there, and it is in the spawned task -/
theorem c08_generated_startup_tcp_2_handshake_in_task :
    (startup_tcp_2.sites.filter (fun s => s.kind == .await_ && s.perFlow)).all (·.inSpawn) = true
    ∧ (startup_tcp_2.sites.filter (fun s => s.kind == .await_ && s.perFlow)).length ≥ 1 := by decide

/-! ## server: `startup_quic` -/

theorem c08_generated_startup_quic_isolated : startup_quic.isolated = true := by decide
theorem c08_generated_startup_quic_alive (its : List Iter) : runIters startup_quic .serving its = .serving :=
  runIters_serving_of_isolated _ c08_generated_startup_quic_isolated its

/-! ## client: accept loop of `transfer_tcp` -/

theorem c08_generated_transfer_tcp_isolated : transfer_tcp.isolated = true := by decide
theorem c08_generated_transfer_tcp_alive (its : List Iter) : runIters transfer_tcp .serving its = .serving :=
  runIters_serving_of_isolated _ c08_generated_transfer_tcp_isolated its

/-! ## server: `startup_udp` — NOT isolated under the rules: one residual site -/

/-- the only site of the loop's own task that waits for something flow-dependent is the creation of an association
    (`UdpAssociateContext::create(key, .., client_addr, tx.clone()).await`) -/
theorem c08_generated_startup_udp_residual : (nonIsolatedSites startup_udp).map key = [(.await_, "create")] := by decide
/-- every failure of it is consumed in the loop (the only thing the adversary could do there is make it wait) -/
theorem c08_generated_startup_udp_residual_handled : (nonIsolatedSites startup_udp).all (·.handled) = true := by decide
/-- as long as that await completes, the loop is still relaying after any finite sequence of adversarial iterations -/
theorem c08_generated_startup_udp_alive_unless (its : List Iter) (h : ∀ it ∈ its, it.quietAt startup_udp) :
    runIters startup_udp .serving its = .serving :=
  runIters_serving_of_quiet _ its h
/-- what the residual site waits for: the body of `UdpAssociateContext::create` awaits, in the caller's task, one thing only -
    `UdpSocket::bind(..)` of a local socket - and that await mentions none of the function's parameters (nothing of the
    flow); the association's relay runs in a task of its own -/
theorem c08_generated_startup_udp_residual_callee :
    (callee_create.level.filter (fun s => s.kind == .await_)).map (fun s => (s.op, s.perFlow)) = [("bind", false)]
    ∧ (callee_create.sites.filter (fun s => s.kind == .await_ && s.inSpawn)).map (·.op) = ["relay"] := by decide
/-- handing a datagram to an association does not wait (`try_send` is not awaited): no `.await` on `try_send` in the loop -/
theorem c08_generated_startup_udp_handover_never_waits :
    (startup_udp.level.filter (fun s => s.kind == .await_ && s.op == "try_send")) = [] := by decide

/-! ## client: `transfer_udp` (since 9c60c4d: a binding is opened and written to by futures of their own) -/

theorem c08_generated_transfer_udp_isolated : transfer_udp.isolated = true := by decide
/-- after any finite sequence of adversarial iterations the client's udp relay is still serving every binding -/
theorem c08_generated_transfer_udp_alive (its : List Iter) : runIters transfer_udp .serving its = .serving :=
  runIters_serving_of_isolated _ c08_generated_transfer_udp_isolated its
/-- opening an outbound (`new_out`, `new_binding`) and writing to one (`send` on its sink) are still there, and every one of them
    is in a future pushed into one of the loop's own future sets (polled by the arms `opening.next()` / `writers.next()`) -/
theorem c08_generated_transfer_udp_binding_work_in_pushed_futures :
    (transfer_udp.sites.filter (fun s => s.kind == .await_ && !s.service && s.perFlow)).map (fun s => (s.op, s.inPushedFuture)) =
      [("new_out", true), ("new_binding", true), ("send", true)] := by decide
/-- handing a datagram to a binding does not wait: no await on `try_send` / `send` of a queue at loop level -/
theorem c08_generated_transfer_udp_handover_never_waits :
    (transfer_udp.level.filter (fun s => s.kind == .await_ && !s.service)) = [] := by decide

/-! ## the loops that serve one association -/

/-- `UdpAssociateContext::relay`: every `break` is caused by the close / failure of the association's own channel or socket,
    or by its own packet counter; there is no `?` / `unwrap` on flow data -/
theorem c08_generated_relay_assocOk : relay.assocOk = true := by decide
/-- the causes of its `break`s, and the three datagram-level faults that `continue` -/
theorem c08_generated_relay_jumps :
    (relay.level.filter (fun s => s.kind == .break_)).map (·.cause) = [.localState, .svcError, .svcClosed]
    ∧ (relay.level.filter (fun s => s.kind == .continue_)).map (·.cause) = [.flowData, .flowData, .flowData] := by decide
/-- a datagram-level fault (DNS failure, replayed / stale id, failed send) never ends the association -/
theorem c08_generated_relay_datagram_faults_continue (path : Nat → Bool) (oracle : Nat → Choice)
    (h : datagramLevel relay.level oracle) : iterationAssoc relay path oracle ≠ .ended :=
  iterationAssoc_not_ended _ c08_generated_relay_assocOk path oracle h

/-- the relay task of `new_binding` (server → client of one binding) -/
theorem c08_generated_new_binding_assocOk : new_binding.assocOk = true := by decide
theorem c08_generated_new_binding_jumps :
    (new_binding.level.filter (fun s => s.kind == .break_)).map (·.cause) = [.svcClosed, .svcError] := by decide
theorem c08_generated_new_binding_datagram_faults_continue (path : Nat → Bool) (oracle : Nat → Choice)
    (h : datagramLevel new_binding.level oracle) : iterationAssoc new_binding path oracle ≠ .ended :=
  iterationAssoc_not_ended _ c08_generated_new_binding_assocOk path oracle h

/-! the hypotheses are satisfiable: the adversary that always answers `fail` (never `take`) is datagram-level, and the one
    that always passes is quiet -/
example : datagramLevel relay.level (fun _ => .fail) := by intro i _ _ _; simp
example : datagramLevel new_binding.level (fun _ => .fail) := by intro i _ _ _; simp
example : (⟨fun _ => true, fun _ => .pass⟩ : Iter).quietAt startup_udp := by intro k _ _; rfl

/-! the conditional statements are not vacuous the other way either: at a residual site the adversary CAN stop the loop -/

/-- an association whose creation does not complete holds up `startup_udp` -/
theorem c08_generated_startup_udp_stall_blocks :
    ∃ k, iteration startup_udp (fun _ => true) (fun i => if i = k then .stall else .pass) = .stuck := by
  refine ⟨(startup_udp.level.findIdx (fun s => s.violates)), ?_⟩
  decide

/-! the shapes of the code before the repairs violate the same statements (`Octo.Proofs.Loops`) -/
example : oldTlsInline.isolated = false ∧ iteration oldTlsInline (fun _ => true) (fun _ => .stall) = .stuck :=
  ⟨oldTlsInline_not_isolated, oldTlsInline_stuck⟩
example : oldPeerAddrQuestion.isolated = false ∧ iteration oldPeerAddrQuestion (fun _ => true) (fun _ => .fail) = .ended :=
  ⟨oldPeerAddrQuestion_not_isolated, oldPeerAddrQuestion_ended⟩
example : oldAssocSendAwait.isolated = false := oldAssocSendAwait_not_isolated
example : oldWhileLetAccept.isolated = false := oldWhileLetAccept_not_isolated
example : oldReplayBreak.assocOk = false := oldReplayBreak_not_assocOk
example : oldClientBindingInline.isolated = false
    ∧ iteration oldClientBindingInline (fun _ => true) (fun k => if k = 5 then .stall else .pass) = .stuck :=
  ⟨oldClientBindingInline_not_isolated, oldClientBindingInline_stuck⟩

end Octo.LoopsGen
