import Octo.Proofs.VmessBody
/-!
# C04 (VMess AEAD body codec): any segmentation, never stalls — all option combinations
Property theorems only; the lemmas are in `Octo/Proofs/VmessBody.lean`.
-/
namespace Octo.Vmess
open Octo.Fr

/-! ### 5. C04 for the VMess body: any segmentation, never stalls -/

/-- **one write, any segmentation**: cutting the wire bytes of a write into any consecutive pieces
(`pieces.flatten = wire`) and feeding them one read at a time yields exactly the payload, no error,
an empty buffer, and a decoder that is waiting for more input (nothing decodable is left behind). -/
theorem c04_vmess_body_segmented (C : Crypto) (hC : C.Lawful) (e d : Body) (hs : Body.Sync e d) (src pad : Bytes)
    (hp : PadEnough e src.length pad)
    (pieces : List Bytes) (hcut : pieces.flatten = (Body.encodePayload C (src.length + 1) e src pad).1) :
    let r := pieces.foldl (feed (Body.unit C)) (run (Body.unit C) d [])
    r.out = src ∧ r.failed = false ∧ r.buf = [] ∧ Body.unit C r.st r.buf = .need ∧
      Body.Sync (Body.encodePayload C (src.length + 1) e src pad).2 r.st := by
  have G := body_unit_good C
  intro r
  obtain ⟨d', hs', hrun⟩ := body_payload_roundtrip C hC e d hs src pad hp
  have hr : r = run (Body.unit C) d (Body.encodePayload C (src.length + 1) e src pad).1 := by
    have := feed_pieces (Body.unit C) G pieces d []
    simp only [List.nil_append, hcut] at this
    exact this
  have hq := run_quiescent _ G _ d _ (Nat.lt_succ_self _) (by rw [hrun])
  rw [← hr] at hq hrun
  rw [hrun] at hq ⊢
  exact ⟨rfl, rfl, rfl, hq, hs'⟩

/-- **several writes, any segmentation** (the segmentation need not respect write boundaries) -/
theorem c04_vmess_body_all_segmented (C : Crypto) (hC : C.Lawful) (e d : Body) (hs : Body.Sync e d)
    (ws : List (Bytes × Bytes)) (hp : ∀ w ∈ ws, PadEnough e w.1.length w.2)
    (pieces : List Bytes) (hcut : pieces.flatten = (Body.encodeAll C e ws).1) :
    let r := pieces.foldl (feed (Body.unit C)) (run (Body.unit C) d [])
    r.out = (ws.map Prod.fst).flatten ∧ r.failed = false ∧ r.buf = [] ∧ Body.unit C r.st r.buf = .need ∧
      Body.Sync (Body.encodeAll C e ws).2 r.st := by
  have G := body_unit_good C
  intro r
  obtain ⟨d', hs', hrun⟩ := body_all_roundtrip C hC ws e d hs hp
  have hr : r = run (Body.unit C) d (Body.encodeAll C e ws).1 := by
    have := feed_pieces (Body.unit C) G pieces d []
    simp only [List.nil_append, hcut] at this
    exact this
  have hq := run_quiescent _ G _ d _ (Nat.lt_succ_self _) (by rw [hrun])
  rw [← hr] at hq hrun
  rw [hrun] at hq ⊢
  exact ⟨rfl, rfl, rfl, hq, hs'⟩

/-- one write of the client / server codec (`encodePayloadP`, driver fuel), any segmentation -/
theorem c04_vmess_bodyP_segmented (C : Crypto) (hC : C.Lawful) (e d : Body) (hs : Body.Sync e d) (src : Bytes)
    (pads : List Bytes) (hp : Body.PadsOk C (src.length + 1) e src pads)
    (pieces : List Bytes) (hcut : pieces.flatten = (Body.encodePayloadP C (src.length + 1) e src pads).1) :
    let r := pieces.foldl (feed (Body.unit C)) (run (Body.unit C) d [])
    r.out = src ∧ r.failed = false ∧ r.buf = [] ∧ Body.unit C r.st r.buf = .need ∧
      Body.Sync (Body.encodePayloadP C (src.length + 1) e src pads).2 r.st := by
  have G := body_unit_good C
  intro r
  obtain ⟨d', hs', hrun⟩ := body_payloadP_roundtrip_fuel C hC _ e d src pads hs (Nat.lt_succ_self _) hp
  have hr : r = run (Body.unit C) d (Body.encodePayloadP C (src.length + 1) e src pads).1 := by
    have := feed_pieces (Body.unit C) G pieces d []
    simp only [List.nil_append, hcut] at this
    exact this
  have hq := run_quiescent _ G _ d _ (Nat.lt_succ_self _) (by rw [hrun])
  rw [← hr] at hq hrun
  rw [hrun] at hq ⊢
  exact ⟨rfl, rfl, rfl, hq, hs'⟩

/-! ### 7. non-vacuity: concrete synchronised pairs and concrete round trips with the toy crypto -/

section Examples

/-- a concrete codec state for each option combination -/
def exBody (k : SizeKind) (gp : Bool) (sec : Security) : Body :=
  { sec := sec, key := [1, 2, 3], iv := [9, 9, 9, 9, 4, 5, 6, 7, 8, 9, 10, 11, 12, 13, 14, 15], size := k,
    sizeKey := [7, 7], sizeIv := List.replicate 16 (3 : UInt8), globalPadding := gp, shakeSeed := [0, 5, 1, 2, 0, 3] }

def exPad : Bytes := List.replicate 63 (0xAA : UInt8)

example : ∃ C : Crypto, C.Lawful := ⟨Crypto.toy, Crypto.toy_lawful⟩

-- a synchronised pair for each of the three size kinds (and both padding flags / ciphers)
example : Body.Sync (exBody .plain false .aes128gcm) (exBody .plain false .aes128gcm) := by decide
example : Body.Sync (exBody .auth true .chacha20) (exBody .auth true .chacha20) := by decide
example : Body.Sync (exBody .shake true .aes128gcm) (exBody .shake true .aes128gcm) := by decide
example : Body.Sync ({ exBody .shake true .aes128gcm with st := .body 3 40 }) (exBody .shake true .aes128gcm) := by decide

-- the padding hypothesis holds for a three-byte write with one 63-byte padding source
example (k : SizeKind) (gp : Bool) (sec : Security) : PadEnough (exBody k gp sec) 3 exPad := by
  intro _; decide
example : PadEnough (exBody .shake true .aes128gcm) [10, 20, 30].length exPad := by decide

-- the theorems instantiated: every hypothesis is discharged
example (k : SizeKind) (gp : Bool) (sec : Security) (pieces : List Bytes)
    (hcut : pieces.flatten = (Body.encodePayload Crypto.toy 4 (exBody k gp sec) [10, 20, 30] exPad).1) :
    (pieces.foldl (feed (Body.unit Crypto.toy)) (run (Body.unit Crypto.toy) (exBody k gp sec) [])).out = [10, 20, 30] :=
  (c04_vmess_body_segmented Crypto.toy Crypto.toy_lawful (exBody k gp sec) (exBody k gp sec) rfl [10, 20, 30] exPad
    (by intro _; decide) pieces hcut).1

-- concrete evaluations: the wire (size ‖ ciphertext ‖ tag ‖ 5 padding bytes) and the round trip,
-- whole and cut into three reads, for the three size kinds
example : (Body.encodePayload Crypto.toy 4 (exBody .shake true .aes128gcm) [10, 20, 30] exPad).1 =
    [1, 26, 11, 23, 16, 19, 36, 53, 70, 87, 104, 121, 138, 155, 172, 189, 206, 223, 240, 1, 18, 170, 170, 170, 170, 170] := by
  decide
example : (run (Body.unit Crypto.toy) (exBody .plain false .aes128gcm)
    (Body.encodePayload Crypto.toy 4 (exBody .plain false .aes128gcm) [10, 20, 30] []).1).out = [10, 20, 30] := by decide
example : (run (Body.unit Crypto.toy) (exBody .auth true .chacha20)
    (Body.encodePayload Crypto.toy 4 (exBody .auth true .chacha20) [10, 20, 30] exPad).1).out = [10, 20, 30] := by decide
example : (run (Body.unit Crypto.toy) (exBody .shake true .aes128gcm)
    (Body.encodePayload Crypto.toy 4 (exBody .shake true .aes128gcm) [10, 20, 30] exPad).1).out = [10, 20, 30] := by decide
example :
    let w := (Body.encodePayload Crypto.toy 4 (exBody .shake true .aes128gcm) [10, 20, 30] exPad).1
    let r := [w.take 1, (w.drop 1).take 7, w.drop 8].foldl (feed (Body.unit Crypto.toy))
      (run (Body.unit Crypto.toy) (exBody .shake true .aes128gcm) [])
    r.out = [10, 20, 30] ∧ r.failed = false ∧ r.buf = [] := by decide

-- two writes and one datagram
example : (run (Body.unit Crypto.toy) (exBody .auth true .aes128gcm)
    (Body.encodeAll Crypto.toy (exBody .auth true .aes128gcm) [([1, 2], exPad), ([3, 4, 5], exPad)]).1).out = [1, 2, 3, 4, 5] := by
  decide
example : ((exBody .shake true .chacha20).encodePacket Crypto.toy [7, 8, 9] exPad).isSome = true := by decide
example : ((exBody .shake true .chacha20).encodePacket Crypto.toy (List.replicate 1968 (0 : UInt8)) exPad).isSome = false := by
  rw [Bool.eq_false_iff, Ne, Body.encodePacket_isSome, List.length_replicate]; decide

/-- the padding hypothesis is needed: with global padding and an empty padding source the chunk
comes out 5 bytes short and the decoder waits (no output, the bytes stay in the buffer) -/
example :
    let r := run (Body.unit Crypto.toy) (exBody .shake true .aes128gcm)
      (Body.encodePayload Crypto.toy 4 (exBody .shake true .aes128gcm) [10, 20, 30] []).1
    r.out = [] ∧ r.failed = false ∧ r.buf.length = 19 := by decide

end Examples

end Octo.Vmess
