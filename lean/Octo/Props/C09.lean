import Octo.Model.Interleave
import Octo.Props.C10
/-!
# C09 — concurrent flows are independent of one another (logic core)

Shared state: the replay cache (a `Mutex<LruCache>`), the UDP cipher cache (a `Mutex<LruCache>` of
`Arc`'d ciphers), the session / binding tables (each owned by one task, fed through channels).
Each critical section is one atomic step; theorems quantify over **all** schedules.
What this cannot show: data races inside a step that the code wrongly treats as atomic — the
former `unsafe` cipher cache handed out `&mut` into a static from every task; it is now behind a
mutex, and the concurrent runs (many threads through the real codecs) plus the sanitizer-free
design are the evidence for that part.
-/
namespace Octo.Interleave
open Octo.SaltCache

/-- the replay cache holds `salt` (live at `now`) -/
def Holds (ttl now : Nat) (c : Cache) (salt : Bytes) : Prop := (expire ttl now c).any (fun e => e.key = salt) = true

theorem holds_after_get (ttl now : Nat) (c : Cache) (salt : Bytes) (h : Holds ttl now c salt) :
    Holds ttl now (SaltCache.get ttl now c salt).2 salt ∧ (SaltCache.get ttl now c salt).1 = true := by
  unfold Holds at h
  unfold SaltCache.get
  simp only [h, if_true]
  refine ⟨?_, trivial⟩
  unfold Holds expire
  simp [live, List.filter_append]

theorem holds_after_insert (ttl cap now : Nat) (c : Cache) (salt : Bytes) :
    Holds ttl now (SaltCache.insert ttl cap now c salt).2 salt := by
  unfold SaltCache.insert Holds expire
  simp only []
  split <;> simp [live, List.filter_append]

theorem insert_dup_of_holds (ttl cap now : Nat) (c : Cache) (salt : Bytes) (h : Holds ttl now c salt) :
    (SaltCache.insert ttl cap now c salt).1 = true := by
  unfold Holds at h
  unfold SaltCache.insert
  simp [h]

theorem get_not_holds (ttl now : Nat) (c : Cache) (salt : Bytes) (h : ¬ Holds ttl now c salt) :
    (SaltCache.get ttl now c salt).1 = false ∧ ¬ Holds ttl now (SaltCache.get ttl now c salt).2 salt := by
  unfold Holds at h
  unfold SaltCache.get
  simp only [h, Bool.false_eq_true, if_false]
  refine ⟨trivial, ?_⟩
  unfold Holds
  rw [expire_expire]
  exact h

/-- invariant: the salt is in the cache iff some copy has been accepted, and at most one has -/
structure Inv (ttl now : Nat) (salt : Bytes) (w : World) : Prop where
  le_one : accepted w ≤ 1
  holds_of_acc : accepted w = 1 → Holds ttl now w.cache salt
  acc_of_holds : Holds ttl now w.cache salt → accepted w = 1

theorem accepted_set (pcs : List Pc) (i : Nat) (old new : Pc) (hi : pcs[i]? = some old) (ho : old ≠ .accepted) :
    ((pcs.set i new).filter (· = .accepted)).length = (pcs.filter (· = .accepted)).length + (if new = .accepted then 1 else 0) := by
  induction pcs generalizing i with
  | nil => simp at hi
  | cons x r ih =>
    cases i with
    | zero =>
      simp only [List.getElem?_cons_zero, Option.some.injEq] at hi
      subst hi
      simp only [List.set_cons_zero, List.filter_cons]
      by_cases hn : new = .accepted <;> simp [hn, ho]
    | succ j =>
      simp only [List.getElem?_cons_succ] at hi
      simp only [List.set_cons_succ, List.filter_cons]
      have := ih j hi
      by_cases hx : x = .accepted <;> simp [hx, this] <;> omega

/-- **C09/C10 (concurrent copies)**: however the atomic steps of any number of concurrent copies of
one request interleave (all within the cache lifetime), at most one copy is accepted -/
theorem c09_same_request_accepted_once (ttl cap now : Nat) (salt : Bytes) (n : Nat) (sched : List Nat) :
    accepted (run ttl cap now salt ⟨[], List.replicate n .start⟩ sched) ≤ 1 := by
  have h0 : Inv ttl now salt ⟨[], List.replicate n .start⟩ := by
    have hz : accepted ⟨[], List.replicate n .start⟩ = 0 := by
      simp [accepted, List.filter_eq_nil_iff]
    exact ⟨by omega, fun h => by omega, fun h => by simp [Holds, expire] at h⟩
  suffices ∀ (s : List Nat) (w : World), Inv ttl now salt w → Inv ttl now salt (run ttl cap now salt w s) from (this sched _ h0).le_one
  intro s
  induction s with
  | nil => intro w h; exact h
  | cons i s ih =>
    intro w h
    apply ih
    unfold step
    cases hp : w.pcs[i]? with
    | none => simpa using h
    | some pc =>
      cases pc with
      | accepted => simpa using h
      | rejected => simpa using h
      | start =>
        simp only []
        by_cases hh : Holds ttl now w.cache salt
        · obtain ⟨h1, h2⟩ := holds_after_get ttl now w.cache salt hh
          have ha := accepted_set w.pcs i .start .rejected hp (by decide)
          simp only [h2, if_true]
          have hacc : accepted ⟨(SaltCache.get ttl now w.cache salt).2, w.pcs.set i .rejected⟩ = accepted w := by
            simp only [accepted]; rw [ha]; simp
          exact ⟨by rw [hacc]; exact h.le_one, fun _ => h1, fun _ => by rw [hacc]; exact h.acc_of_holds hh⟩
        · obtain ⟨h1, h2⟩ := get_not_holds ttl now w.cache salt hh
          have ha := accepted_set w.pcs i .start .checked hp (by decide)
          simp only [h1, Bool.false_eq_true, if_false]
          have hacc : accepted ⟨(SaltCache.get ttl now w.cache salt).2, w.pcs.set i .checked⟩ = accepted w := by
            simp only [accepted]; rw [ha]; simp
          have hz : accepted w ≠ 1 := fun e => hh (h.holds_of_acc e)
          exact ⟨by rw [hacc]; exact h.le_one, fun e => absurd (by rw [← hacc]; exact e) hz, fun e => absurd e h2⟩
      | checked =>
        simp only []
        by_cases hh : Holds ttl now w.cache salt
        · have hd := insert_dup_of_holds ttl cap now w.cache salt hh
          have ha := accepted_set w.pcs i .checked .rejected hp (by decide)
          simp only [hd, if_true]
          have hacc : accepted ⟨(SaltCache.insert ttl cap now w.cache salt).2, w.pcs.set i .rejected⟩ = accepted w := by
            simp only [accepted]; rw [ha]; simp
          exact ⟨by rw [hacc]; exact h.le_one, fun _ => holds_after_insert ttl cap now w.cache salt,
            fun _ => by rw [hacc]; exact h.acc_of_holds hh⟩
        · have hnd : (SaltCache.insert ttl cap now w.cache salt).1 = false := by
            unfold Holds at hh; unfold SaltCache.insert; simp [hh]
          have ha := accepted_set w.pcs i .checked .accepted hp (by decide)
          simp only [hnd, Bool.false_eq_true, if_false]
          have hz : accepted w = 0 := by
            have := h.le_one
            have : accepted w ≠ 1 := fun e => hh (h.holds_of_acc e)
            omega
          have hacc : accepted ⟨(SaltCache.insert ttl cap now w.cache salt).2, w.pcs.set i .accepted⟩ = 1 := by
            simp only [accepted]; rw [ha]; simp only [if_true]; simp only [accepted] at hz; omega
          exact ⟨by omega, fun _ => holds_after_insert ttl cap now w.cache salt, fun _ => hacc⟩

/-- **cipher cache**: under any sequence of get-or-insert calls by any tasks, every call returns the
cipher a solo run would compute for its key — a flow never receives another flow's cipher -/
theorem c09_cipher_cache_pure {κ ν : Type} [DecidableEq κ] (mk : κ → ν) (cache : List (κ × ν)) (k : κ)
    (hinv : ∀ e ∈ cache, e.2 = mk e.1) :
    (getOrInsert mk cache k).1 = mk k ∧ ∀ e ∈ (getOrInsert mk cache k).2, e.2 = mk e.1 := by
  unfold getOrInsert
  split
  · rename_i e he
    have hm := List.mem_of_find?_eq_some he
    have hk := List.find?_some he
    simp only [decide_eq_true_eq] at hk
    exact ⟨by rw [hinv e hm, hk], hinv⟩
  · refine ⟨rfl, ?_⟩
    intro e he
    simp only [List.mem_cons] at he
    rcases he with rfl | he
    · rfl
    · exact hinv e he

/-- **replay cache, different requests**: a presentation of one salt does not change what the cache
says about another salt (no capacity pressure) — flows with distinct salts decide independently -/
theorem c09_distinct_salts_independent (ttl cap now : Nat) (c : Cache) (s1 s2 : Bytes) (hne : s1 ≠ s2)
    (hcalm : (expire ttl now c).length < cap) :
    Holds ttl now (SaltCache.insert ttl cap now c s2).2 s1 ↔ Holds ttl now c s1 := by
  unfold SaltCache.insert Holds
  simp only []
  split
  · simp only [expire, List.filter_append, List.filter_filter, List.any_append, List.any_filter]
    simp [live, hne, Ne.symm hne]
    constructor
    · rintro ⟨e, he, hk⟩; exact ⟨e, he, hk.1.1, hk.2⟩
    · rintro ⟨e, he, hk⟩; exact ⟨e, he, ⟨hk.1, by rw [hk.2]; exact hne, hk.1⟩, hk.2⟩
  · rw [if_neg (by omega)]
    simp only [expire, List.filter_append, List.filter_filter, List.any_append, List.any_filter]
    simp [live, Ne.symm hne]

end Octo.Interleave
