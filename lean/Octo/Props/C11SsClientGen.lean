import Octo.Proofs.SsClientGen
import Octo.Proofs.Toy
import Octo.Props.C11
import Octo.Props.C02Udp
import Octo.Props.C12Udp
/-!
  Property theorems for the code GENERATED from the module `udp` of `octo-squirrel-client/src/client/shadowsocks.rs`
  (`Octo.SsClientGen`, written by `bin/translate_ssclient.py` on every run): the client's per-binding datagram codec
  `DatagramPacketCodec` - replies (`decode`: own session, replay window, server session id; C11 / C02) and requests (`encode`:
  the packet id; C12).  Statements only; the proofs are in `Octo/Proofs/SsClientGen.lean` and
  `Octo/Proofs/SsClientGenInner.lean`.

  The generated `decode` calls the generated `Octo.SsUdpGen.SessionCodec.decode` and the generated
  `Octo.PWGen.PacketWindowFilter.validate_packet_id`; theorems that do not mention the hand model hold for ANY externals `X`,
  `Y`.  Where the hand model is mentioned, the inner decoder is either a hypothesis (`c11_ssclient_decode_refines_model`) or
  discharged (`.._aes`: AES kinds of Shadowsocks 2022 under the model instantiation `XM E` of the externals).
-/
namespace Octo.Props.C11SsClientGen
open Octo Octo.PWGen Octo.SsUdpGen Octo.AddrGen Octo.SsClientGen

/-! ## replies: one call -/

/-- **C11 / C02 (the code as a table)**: `DatagramPacketCodec::decode`, for every codec state, every buffer, every externals
and both overflow profiles, is `Ok(None)` on an empty buffer and otherwise `decodeSpec` of the inner call's result: inner
panic → panic; inner `Err` → `Err`, nothing changed; inner `Ok(None)` → `Ok(None)`; a reply under a legacy cipher → delivered,
nothing changed; under a 2022 cipher: another client session id → `Ok(None)`, NOTHING changed (the window is not consulted);
own session → the window is consulted with limit `u64::MAX`: refused → `Ok(None)` with only the window updated, accepted →
delivered, window updated and ONLY `server_session_id` copied -/
theorem c11_ssclient_decode_table (ov : Bool) {T : ExtTypes} (X : Ext T) (Y : ClientExt T) (N : Usize) (g : DatagramPacketCodec T)
    (b : Cursor) :
    DatagramPacketCodec.decode ov X Y N g b =
      if b = [] then PWGen.Res.ok (g, b, RResult.ok none) else decodeSpec ov g (SessionCodec.decode ov X N g.codec b) :=
  decode_unfold ov X Y N g b

/-- **C02 / C11: a reply of another session changes nothing** (2022 ciphers): `Ok(None)`, and the codec afterwards is the
codec before - replay window, session ids, all of it -/
theorem c02_ssclient_foreign_session_changes_nothing (ov : Bool) {T : ExtTypes} (X : Ext T) (Y : ClientExt T) (N : Usize)
    (g : DatagramPacketCodec T) (b src' p : Cursor) (a : Address) (s : Session)
    (hin : SessionCodec.decode ov X N g.codec b = PWGen.Res.ok (src', RResult.ok (some (p, a, s))))
    (h22 : is22 g.codec.cipher.kind = true) (hne : s.client_session_id ≠ g.session.client_session_id) :
    DatagramPacketCodec.decode ov X Y N g b = PWGen.Res.ok (g, src', RResult.ok none) :=
  decode_foreign ov X Y N g b src' p a s hin h22 hne

/-- **C11: a reply of the own session - the window decides, and a refused one is `Ok(None)`, not `Err`**; an accepted one is
delivered and only the server session id is copied into the codec's session -/
theorem c11_ssclient_own_session_window_decides (ov : Bool) {T : ExtTypes} (X : Ext T) (Y : ClientExt T) (N : Usize)
    (g : DatagramPacketCodec T) (b src' p : Cursor) (a : Address) (s : Session) (flt : PacketWindowFilter) (fresh : Bool)
    (hin : SessionCodec.decode ov X N g.codec b = PWGen.Res.ok (src', RResult.ok (some (p, a, s))))
    (h22 : is22 g.codec.cipher.kind = true) (heq : s.client_session_id = g.session.client_session_id)
    (hv : g.filter.validate_packet_id ov s.packet_id U64.MAX = PWGen.Res.ok (flt, fresh)) :
    DatagramPacketCodec.decode ov X Y N g b =
      if fresh then
        PWGen.Res.ok ({ g with filter := flt, session := { g.session with server_session_id := s.server_session_id } }, src',
          RResult.ok (some (p, a)))
      else PWGen.Res.ok ({ g with filter := flt }, src', RResult.ok none) :=
  decode_own ov X Y N g b src' p a s flt fresh hin h22 heq hv

/-- **legacy ciphers: no ids, no window** -/
theorem c11_ssclient_legacy_no_window (ov : Bool) {T : ExtTypes} (X : Ext T) (Y : ClientExt T) (N : Usize)
    (g : DatagramPacketCodec T) (b src' p : Cursor) (a : Address) (s : Session)
    (hin : SessionCodec.decode ov X N g.codec b = PWGen.Res.ok (src', RResult.ok (some (p, a, s))))
    (h22 : is22 g.codec.cipher.kind = false) :
    DatagramPacketCodec.decode ov X Y N g b = PWGen.Res.ok (g, src', RResult.ok (some (p, a))) :=
  decode_legacy ov X Y N g b src' p a s hin h22

/-- **C11: the wrapper has no `Err` of its own** - `Err` comes only from the inner decoder, and then nothing changed -/
theorem c11_ssclient_refused_is_not_err (ov : Bool) {T : ExtTypes} (X : Ext T) (Y : ClientExt T) (N : Usize)
    (g g' : DatagramPacketCodec T) (b src' : Cursor)
    (h : DatagramPacketCodec.decode ov X Y N g b = PWGen.Res.ok (g', src', RResult.err)) :
    b ≠ [] ∧ SessionCodec.decode ov X N g.codec b = PWGen.Res.ok (src', RResult.err) ∧ g' = g :=
  decode_err_only_inner ov X Y N g g' b src' h

/-- **C02: the client session id (and packet id, user, inner codec) of the binding is never overwritten by a reply** -/
theorem c02_ssclient_only_server_session_id_written (ov : Bool) {T : ExtTypes} (X : Ext T) (Y : ClientExt T) (N : Usize)
    (g g' : DatagramPacketCodec T) (b src' : Cursor) (r : RResult (Option (Cursor × Address)))
    (h : DatagramPacketCodec.decode ov X Y N g b = PWGen.Res.ok (g', src', r)) :
    g'.codec = g.codec ∧ g'.session.client_session_id = g.session.client_session_id ∧
      g'.session.packet_id = g.session.packet_id ∧ g'.session.user = g.session.user :=
  decode_frame ov X Y N g g' b src' r h

/-- **C07-style: no panic of its own** on every window state reachable from `PacketWindowFilter::new` -/
theorem c11_ssclient_no_panic_of_its_own (ov : Bool) {T : ExtTypes} (X : Ext T) (Y : ClientExt T) (N : Usize)
    (g : DatagramPacketCodec T) (f : PW.Filter) (hf : Rep g.filter f) (b : Cursor)
    (h : DatagramPacketCodec.decode ov X Y N g b = PWGen.Res.panic) :
    b ≠ [] ∧ SessionCodec.decode ov X N g.codec b = PWGen.Res.panic :=
  decode_panic_only_inner ov X Y N g f hf b h

/-! ## replies: the hand model -/

/-- **C11 / C02 (refinement, relative)**: one `decode` call = `SsUdp.ClientCodec.decode` (`DecAgrees`: same outcome, new state
= the model's new state, whole datagram consumed, a panic only where the model panics), for any externals, given that the
inner generated decoder reads as the model's `SsUdp.decode .. .client` on this datagram -/
theorem c11_ssclient_decode_refines_model (ov : Bool) {T : ExtTypes} (X : Ext T) (Y : ClientExt T) (N : Usize)
    (g : DatagramPacketCodec T) (f : PW.Filter) (C : Crypto) (ctx : Ss.Ctx) (now : Nat) (b : Cursor) (k : Ss.Kind)
    (hk : toKind g.codec.cipher.kind = some k) (hctx : ctx.kind = k) (hf : Rep g.filter f) (hb : b.length < 2 ^ 64)
    (hinner : b ≠ [] → embed (AEADCipherCodec.decode ov X N g.codec.cipher g.codec.context b) = SsUdp.decode C ctx .client now b) :
    DecAgrees g f (DatagramPacketCodec.decode ov X Y N g b) (SsUdp.ClientCodec.decode C ctx (toCC g f) now b) :=
  decode_eq_model ov X Y N g f C ctx now b k hk hctx hf hb hinner

/-- the side conditions of the discharged form: what is assumed of the cryptography, the clock and the sizes -/
structure Side (E : MEnv) (b : List UInt8) : Prop where
  open_len : ∀ a key n ad ct p, E.C.openB a key n ad ct = some p → ct.length = p.length + 16
  aes_len : ∀ key x, (E.C.aesDec key x).length = 16
  now : E.now < 2 ^ 64
  len : b.length < 2 ^ 64

/-- the side conditions are satisfiable (toy cryptography, any datagram of a possible length) -/
example (b : List UInt8) (hb : b.length < 2 ^ 64) : Side { C := Crypto.toy, now := 1010, trace := false } b :=
  ⟨Crypto.toy_lawful.open_len, Crypto.toy_lawful.aes_dec_len, by decide, hb⟩

/-- **the inner decoder, client direction, AES kinds = the model** (what discharges `hinner` above) -/
theorem c02_ssclient_inner_decode_refines_aes (ov : Bool) (E : MEnv) (N : Usize) (codec : AEADCipherCodec) (c : Context MT)
    (b : List UInt8) (k : Ss.Kind) (hk : toKind codec.kind = some k) (hx : SsUdp.xAlg k = none) (h22 : k.is2022 = true)
    (hm : c.stream_type = Mode.Client) (S : Side E b) :
    embed (AEADCipherCodec.decode ov (XM E) N codec c b) = SsUdp.decode E.C (toCtx k c) .client E.now b :=
  decode_client_dir_aes_eq ov E N codec c b k hk hx h22 hm S.len S.now S.open_len S.aes_len

/-- **C11 / C02 (refinement, discharged)**: AES kinds of Shadowsocks 2022, a codec in client mode, externals = the hand model's
`Crypto`: one `decode` call = `SsUdp.ClientCodec.decode`, every state, every datagram, both profiles -/
theorem c11_ssclient_decode_refines_model_aes (ov : Bool) (E : MEnv) (Y : ClientExt MT) (N : Usize) (g : DatagramPacketCodec MT)
    (f : PW.Filter) (b : Cursor) (k : Ss.Kind)
    (hk : toKind g.codec.cipher.kind = some k) (hx : SsUdp.xAlg k = none) (h22 : k.is2022 = true)
    (hm : g.codec.context.stream_type = Mode.Client) (hf : Rep g.filter f) (S : Side E b) :
    DecAgrees g f (DatagramPacketCodec.decode ov (XM E) Y N g b)
      (SsUdp.ClientCodec.decode E.C (toCtx k g.codec.context) (toCC g f) E.now b) :=
  decode_eq_model_aes ov E Y N g f b k hk hx h22 hm hf S.len S.now S.open_len S.aes_len

/-! ## replies: histories -/

/-- **C11 (histories)**: over ANY history of datagrams the generated codec (2022 cipher, window representing `f`) delivers
exactly `flagsSpec`: the window model fed with the packet ids of the own session's replies only -/
theorem c11_ssclient_history (ov : Bool) {T : ExtTypes} (X : Ext T) (Y : ClientExt T) (N : Usize) (bs : List Cursor)
    (g : DatagramPacketCodec T) (f : PW.Filter) (hf : Rep g.filter f) (h22 : is22 g.codec.cipher.kind = true) :
    runDecode ov X Y N g bs = flagsSpec g.session.client_session_id f (bs.map (seen ov X N g.codec)) :=
  runDecode_eq ov X Y N bs g f hf h22

/-- **C11 (histories, set specification)**: from a fresh window, the replies that are delivered are exactly those of the own
session whose packet id is below `2^64 - 1`, was not delivered before and is at most 8128 behind every id delivered so far
(`PW.runSpec`, lifted through `c11_refines` and the generated-window refinement `gen_validate_refines`) -/
theorem c11_ssclient_history_set_spec (ov : Bool) {T : ExtTypes} (X : Ext T) (Y : ClientExt T) (N : Usize)
    (g : DatagramPacketCodec T) (bs : List Cursor) (hf : Rep g.filter PW.Filter.new) (h22 : is22 g.codec.cipher.kind = true)
    (hnp : ∀ b ∈ bs, seen ov X N g.codec b ≠ Seen.panic) :
    ownFlags g.session.client_session_id (bs.map (seen ov X N g.codec)) (runDecode ov X Y N g bs) =
      PW.runSpec (2 ^ 64 - 1) [] (ownIds g.session.client_session_id (bs.map (seen ov X N g.codec))) :=
  history_set_spec ov X Y N g bs hf h22 hnp

/-- **C02 / C11 (histories)**: nothing that is not a reply of the own session is ever delivered -/
theorem c02_ssclient_history_nothing_foreign (ov : Bool) {T : ExtTypes} (X : Ext T) (Y : ClientExt T) (N : Usize)
    (g : DatagramPacketCodec T) (f : PW.Filter) (bs : List Cursor) (hf : Rep g.filter f) (h22 : is22 g.codec.cipher.kind = true)
    (i : Nat) (b : Cursor) (hi : bs[i]? = some b) (hno : isOwn g.session.client_session_id (seen ov X N g.codec b) = false) :
    (runDecode ov X Y N g bs)[i]? ≠ some true :=
  history_nothing_foreign ov X Y N g f bs hf h22 i b hi hno

/-! ## requests -/

/-- **C12 (the code as a table)**: `DatagramPacketCodec::encode` for every state, item, externals, both profiles -/
theorem c12_ssclient_encode_table (ov : Bool) {T : ExtTypes} (X : Ext T) (Y : ClientExt T) (N : Usize) (g : DatagramPacketCodec T)
    (item : Cursor × Address) (dst : Cursor) :
    DatagramPacketCodec.encode ov X Y N g item dst =
      match U64.checked_add g.session.packet_id 1 with
      | none => PWGen.Res.ok (g, dst, RResult.err)
      | some pid =>
        match Y.SessionCodec_encode g.codec (item.1, item.2, { g.session with packet_id := pid }) dst with
        | .panic => .panic
        | .ok (dst', r) => .ok ({ g with session := { g.session with packet_id := pid } }, dst', r) :=
  encode_unfold ov X Y N g item dst

/-- **C12: the session ends rather than wrap** - at `u64::MAX` the answer is `Err`, nothing changed, the encoder not called -/
theorem c12_ssclient_ends_rather_than_wrap (ov : Bool) {T : ExtTypes} (X : Ext T) (Y : ClientExt T) (N : Usize)
    (g : DatagramPacketCodec T) (item : Cursor × Address) (dst : Cursor) (h : g.session.packet_id = U64.MAX) :
    DatagramPacketCodec.encode ov X Y N g item dst = PWGen.Res.ok (g, dst, RResult.err) :=
  encode_exhausted ov X Y N g item dst h

/-- **C12: ids strictly increase (by one, as naturals), the id that goes on the wire is the new one, and the client session
id / server session id / window / inner codec are untouched** -/
theorem c12_ssclient_ids_strictly_increase (ov : Bool) {T : ExtTypes} (X : Ext T) (Y : ClientExt T) (N : Usize)
    (g g' : DatagramPacketCodec T) (item : Cursor × Address) (dst dst' : Cursor) (r : RResult Unit)
    (h : DatagramPacketCodec.encode ov X Y N g item dst = PWGen.Res.ok (g', dst', r)) :
    ((g' = g ∧ r = RResult.err ∧ dst' = dst ∧ g.session.packet_id = U64.MAX) ∨
      (g'.session.packet_id.toNat = g.session.packet_id.toNat + 1 ∧
        Y.SessionCodec_encode g.codec (item.1, item.2, g'.session) dst = PWGen.Res.ok (dst', r))) ∧
    g'.session.client_session_id = g.session.client_session_id ∧ g'.session.server_session_id = g.session.server_session_id ∧
    g'.filter = g.filter ∧ g'.codec = g.codec :=
  encode_ids ov X Y N g g' item dst dst' r h

/-- **C12 / C07: `encode` never panics by itself** (both profiles) -/
theorem c12_ssclient_encode_no_panic_of_its_own (ov : Bool) {T : ExtTypes} (X : Ext T) (Y : ClientExt T) (N : Usize)
    (g : DatagramPacketCodec T) (item : Cursor × Address) (dst : Cursor)
    (h : DatagramPacketCodec.encode ov X Y N g item dst = PWGen.Res.panic) :
    g.session.packet_id.toNat + 1 < 2 ^ 64 ∧
      Y.SessionCodec_encode g.codec (item.1, item.2, { g.session with packet_id := g.session.packet_id + 1 }) dst = PWGen.Res.panic :=
  encode_panic_only_inner ov X Y N g item dst h

/-- **C12 (refinement)**: one `encode` call = `SsUdp.ClientCodec.encode`, the inner encoder being the model's (`YM`: a stated
external - `SessionCodec::encode` is not translated): never a panic, `Err` exactly where the model says `Err`, the model's
bytes appended to `dst`, the model's new state.  (Hence `c12_udp_client_*` of `Octo/Props/C12Udp.lean` hold of the code.) -/
theorem c12_ssclient_encode_refines_model (ov : Bool) {T : ExtTypes} (X : Ext T) (N : Usize) (g : DatagramPacketCodec T)
    (f : PW.Filter) (C : Crypto) (ctx : Ss.Ctx) (r : SsUdp.Rand) (item : Cursor × Address) (dst : Cursor) :
    ∃ g' dst' rr, DatagramPacketCodec.encode ov X (YM C ctx r) N g item dst = PWGen.Res.ok (g', dst', rr) ∧
      g'.filter = g.filter ∧ g'.codec = g.codec ∧
      (SsUdp.ClientCodec.encode C ctx (toCC g f) (toAddr item.2) item.1 r).2 = toCC g' f ∧
      ((SsUdp.ClientCodec.encode C ctx (toCC g f) (toAddr item.2) item.1 r).1 = .err ∧ rr = RResult.err ∧ dst' = dst ∨
        ∃ w, (SsUdp.ClientCodec.encode C ctx (toCC g f) (toAddr item.2) item.1 r).1 = .ok w ∧ rr = RResult.ok () ∧ dst' = dst ++ w) :=
  encode_eq_model ov X N g f C ctx r item dst

/-! ## the free functions -/

/-- `new_key`: the binding is keyed by the sender alone; `to_outbound_send`: the datagram unchanged, to the proxy;
`to_inbound_recv`: the datagram unchanged, back to the sender (pure, no panic, both profiles) -/
theorem c02_ssclient_free_functions (ov : Bool) {SA : Type} (item : Cursor × Address) (src proxy peer : SA) (a : Address) :
    new_key ov src a = PWGen.Res.ok src ∧ to_outbound_send ov item proxy = PWGen.Res.ok (item, proxy) ∧
      to_inbound_recv ov (item, peer) a src = PWGen.Res.ok (item, src) :=
  ⟨rfl, rfl, rfl⟩

/-! ## non-vacuity: bob's client of `Octo/Props/C02Udp.lean` (toy cryptography), as a generated codec state -/

namespace Demo
open SsUdp.Demo

def E : MEnv := { C := Crypto.toy, now := 1010, trace := false }
/-- the fresh window, as the generated `PacketWindowFilter::new` builds it -/
def w0 : PacketWindowFilter := ⟨0, Array.replicate 128 0⟩
/-- bob's binding: own client session 7, two packets sent so far, nothing received -/
def g0 : DatagramPacketCodec MT :=
  ⟨⟨⟨Mode.Client, none, kB, [kS]⟩, ⟨CipherKind.Aead2022Blake3Aes128Gcm⟩⟩, ⟨7, 0, 2, none⟩, w0⟩
/-- a reply of the server for bob's session 7, packet id 3 / for a session 8 that is not this binding's -/
def replyOwn : Bytes := SsUdp.encode Crypto.toy srvM .server ⟨7, 11, 3, some bob⟩ target payload rnd
def replyForeign : Bytes := SsUdp.encode Crypto.toy srvM .server ⟨8, 11, 3, some bob⟩ target payload rnd

theorem w0_rep : Rep w0 PW.Filter.new := by
  obtain ⟨g, h1, h2⟩ := new_rep true
  have : g = w0 := by
    have : PacketWindowFilter.new true = PWGen.Res.ok w0 := by decide +kernel
    rw [this] at h1; exact (PWGen.Res.ok.inj h1).symm
  rw [← this]; exact h2

example : toKind g0.codec.cipher.kind = some .b3aes128 ∧ SsUdp.xAlg .b3aes128 = none ∧ Ss.Kind.is2022 .b3aes128 = true ∧
    g0.codec.context.stream_type = Mode.Client ∧ is22 g0.codec.cipher.kind = true ∧ Rep g0.filter PW.Filter.new :=
  ⟨rfl, rfl, rfl, rfl, rfl, w0_rep⟩

/-- the generated state reads as the model state of `C02Udp.Demo` -/
example : toCtx .b3aes128 g0.codec.context = cliB ∧ toCC g0 PW.Filter.new = codec := ⟨rfl, rfl⟩

theorem model_own : SsUdp.decode Crypto.toy cliB .client 1010 replyOwn = .ok (payload, target, ⟨7, 11, 3, none⟩) :=
  SsUdp.c02_ss_udp_2022_aes_server_to_client_roundtrip Crypto.toy Crypto.toy_lawful cliB srvM (by decide) rfl _
    (Or.inr ⟨bob, rfl, rfl⟩) (by decide) (by decide) (by decide) target (by decide) payload rnd 1010 (by decide)

theorem model_foreign : SsUdp.decode Crypto.toy cliB .client 1010 replyForeign = .ok (payload, target, ⟨8, 11, 3, none⟩) :=
  SsUdp.c02_ss_udp_2022_aes_server_to_client_roundtrip Crypto.toy Crypto.toy_lawful cliB srvM (by decide) rfl _
    (Or.inr ⟨bob, rfl, rfl⟩) (by decide) (by decide) (by decide) target (by decide) payload rnd 1010 (by decide)

theorem len_own : replyOwn.length < 2 ^ 64 := by decide
theorem len_foreign : replyForeign.length < 2 ^ 64 := by decide

theorem side (b : Bytes) (hb : b.length < 2 ^ 64) : Side E b :=
  ⟨Crypto.toy_lawful.open_len, Crypto.toy_lawful.aes_dec_len, by decide, hb⟩

/-- what the generated inner decoder hands out for a reply the model decodes to session `s'` -/
theorem inner_reply (b : Bytes) (hb : b.length < 2 ^ 64) (hne : b ≠ []) (s' : SsUdp.Session)
    (hm : SsUdp.decode Crypto.toy cliB .client 1010 b = .ok (payload, target, s')) :
    ∃ a s, SessionCodec.decode true (XM E) 16 g0.codec b = PWGen.Res.ok ([], RResult.ok (some (payload, a, s))) ∧
      toAddr a = target ∧ toSession s = s' := by
  have hi := c02_ssclient_inner_decode_refines_aes true E 16 g0.codec.cipher g0.codec.context b .b3aes128 rfl rfl rfl rfl (side b hb)
  have hm' : SsUdp.decode E.C (toCtx .b3aes128 g0.codec.context) .client E.now b = .ok (payload, target, s') := hm
  rw [hm'] at hi
  obtain ⟨src', a, s, hr, ha, hs⟩ := inner_of_model _ _ _ _ hi
  refine ⟨a, s, ?_, ha, hs⟩
  rw [session_decode_unfold true (XM E) 16 g0.codec b hb hne, hr]

/-- the hypotheses of `c02_ssclient_foreign_session_changes_nothing` are satisfiable: the server's reply for session 8 arrives
at the binding of session 7 - and its conclusion for this instance -/
example (Y : ClientExt MT) : ∃ a s,
    SessionCodec.decode true (XM E) 16 g0.codec replyForeign = PWGen.Res.ok ([], RResult.ok (some (payload, a, s))) ∧
    is22 g0.codec.cipher.kind = true ∧ s.client_session_id ≠ g0.session.client_session_id ∧
    DatagramPacketCodec.decode true (XM E) Y 16 g0 replyForeign = PWGen.Res.ok (g0, [], RResult.ok none) := by
  obtain ⟨a, s, h, _, hs⟩ := inner_reply replyForeign len_foreign (by decide) _ model_foreign
  have hne : s.client_session_id ≠ g0.session.client_session_id := by
    intro e
    have : (toSession s).clientSessionId = 7 := by rw [toSession, e]; rfl
    rw [hs] at this; exact absurd this (by decide)
  exact ⟨a, s, h, rfl, hne, c02_ssclient_foreign_session_changes_nothing true (XM E) Y 16 g0 _ _ _ a s h rfl hne⟩

set_option maxRecDepth 8000 in
/-- `c11_ssclient_decode_refines_model_aes` on the own session's reply: the generated codec delivers it, copies the server
session id 11, keeps client session id 7 and packet id 2, and its window represents the model's window after id 3 -/
example (Y : ClientExt MT) :
    DecAgrees g0 PW.Filter.new (DatagramPacketCodec.decode true (XM E) Y 16 g0 replyOwn)
      (.ok (some (payload, target)), { session := ⟨7, 11, 2, none⟩, filter := (codec.filter.validate 3 (2 ^ 64 - 1)).1 }) := by
  have h := c11_ssclient_decode_refines_model_aes true E Y 16 g0 PW.Filter.new replyOwn .b3aes128 rfl rfl rfl rfl w0_rep
    (side replyOwn len_own)
  have hm : SsUdp.ClientCodec.decode E.C (toCtx .b3aes128 g0.codec.context) (toCC g0 PW.Filter.new) E.now replyOwn =
      (.ok (some (payload, target)), { session := ⟨7, 11, 2, none⟩, filter := (codec.filter.validate 3 (2 ^ 64 - 1)).1 }) :=
    (SsUdp.c02_client_codec_roundtrip Crypto.toy Crypto.toy_lawful cliB srvM (some bob) (by decide) codec (by decide) target
      (by decide) payload rnd 1010 (by decide) (by decide)).2 ⟨7, 11, 3, some bob⟩ rfl rfl (by decide) codec_fresh
  rw [hm] at h; exact h

theorem seen_own : seen true (XM E) 16 g0.codec replyOwn = Seen.reply 7 3 := by
  obtain ⟨a, s, h, _, hs⟩ := inner_reply replyOwn len_own (by decide) _ model_own
  have h1 : s.client_session_id = 7 := UInt64.toNat_inj.mp (by have := congrArg SsUdp.Session.clientSessionId hs; exact this)
  have h2 : s.packet_id = 3 := UInt64.toNat_inj.mp (by have := congrArg SsUdp.Session.packetId hs; exact this)
  have hne : replyOwn ≠ [] := by decide
  simp only [seen, hne, if_false, h, h1, h2]

theorem seen_foreign : seen true (XM E) 16 g0.codec replyForeign = Seen.reply 8 3 := by
  obtain ⟨a, s, h, _, hs⟩ := inner_reply replyForeign len_foreign (by decide) _ model_foreign
  have h1 : s.client_session_id = 8 := UInt64.toNat_inj.mp (by have := congrArg SsUdp.Session.clientSessionId hs; exact this)
  have h2 : s.packet_id = 3 := UInt64.toNat_inj.mp (by have := congrArg SsUdp.Session.packetId hs; exact this)
  have hne : replyForeign ≠ [] := by decide
  simp only [seen, hne, if_false, h, h1, h2]

/-- a history at bob's binding: a reply of session 8, the own reply, the own reply again (a duplicate), an empty datagram:
only the second is delivered; the hypotheses of the history theorems hold for it (no inner panic) -/
example (Y : ClientExt MT) :
    runDecode true (XM E) Y 16 g0 [replyForeign, replyOwn, replyOwn, []] = [false, true, false, false] ∧
    (∀ b ∈ [replyForeign, replyOwn, replyOwn, []], seen true (XM E) 16 g0.codec b ≠ Seen.panic) := by
  constructor
  · rw [c11_ssclient_history true (XM E) Y 16 _ g0 PW.Filter.new w0_rep rfl]
    simp only [List.map_cons, List.map_nil, seen_own, seen_foreign]
    have : seen true (XM E) 16 g0.codec [] = Seen.nothing := rfl
    rw [this]
    decide +kernel
  · intro b hb
    simp only [List.mem_cons, List.mem_nil_iff, or_false] at hb
    rcases hb with rfl | rfl | rfl | rfl
    · rw [seen_foreign]; decide
    · rw [seen_own]; decide
    · rw [seen_own]; decide
    · decide

/-- requests: the id space of bob's binding ends at `u64::MAX`; below it the id is stepped -/
example (Y : ClientExt MT) (item : Cursor × Address) (dst : Cursor) :
    DatagramPacketCodec.encode true (XM E) Y 16 { g0 with session := ⟨7, 0, U64.MAX, none⟩ } item dst =
      PWGen.Res.ok ({ g0 with session := ⟨7, 0, U64.MAX, none⟩ }, dst, RResult.err) :=
  c12_ssclient_ends_rather_than_wrap true (XM E) Y 16 _ item dst rfl

example : ∃ g' dst' rr, DatagramPacketCodec.encode true (XM E) (YM Crypto.toy cliB rnd) 16 g0 (payload, ofAddr target) [] =
    PWGen.Res.ok (g', dst', rr) ∧ g'.session.packet_id = 3 ∧ rr = RResult.ok () := by
  refine ⟨_, _, _, encode_step true (XM E) _ 16 g0 _ [] (by decide), rfl, rfl⟩

end Demo

end Octo.Props.C11SsClientGen
