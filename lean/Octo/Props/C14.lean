import Octo.Model.Addr
import Octo.Proofs.Bytes
/-!
# C14 — addresses survive encoding exactly or are refused

`Addr.Accepted` is the admission predicate of the client's local handshake (domain names of
1..=255 bytes, any socket address); `Socks5Addr.*` / `VmessAddr.*` model the two wire encodings.
-/
namespace Octo

/-- **SOCKS5-style form**: every accepted address, followed by *any* trailing payload, decodes to
the identical address and leaves exactly the trailing payload unread. -/
theorem c14_socks5_roundtrip (a : Addr) (tail : Bytes) (h : a.Accepted) :
    Socks5Addr.decode (Socks5Addr.encode a ++ tail) = .ok (a, tail) := by
  cases a with
  | domain host p =>
    obtain ⟨_, h2, h3⟩ := h
    simp only [Socks5Addr.encode, Socks5Addr.decode, List.cons_append, List.nil_append,
      Buf.getU8_cons, Res.bind_ok, List.append_assoc]
    have hl : (u8 host.length).toNat = host.length := u8_toNat_lt _ (by omega)
    simp [hl, Buf.take_append, Buf.getU16_be16 p tail h3]
    omega
  | v4 ip p =>
    obtain ⟨h1, h2⟩ := h
    simp only [Socks5Addr.encode, Socks5Addr.decode, List.cons_append, List.nil_append,
      Buf.getU8_cons, Res.bind_ok, List.append_assoc]
    simp [Buf.take_append' 4 ip _ h1, Buf.getU16_be16 p tail h2]
    omega
  | v6 ip p =>
    obtain ⟨h1, h2⟩ := h
    simp only [Socks5Addr.encode, Socks5Addr.decode, List.cons_append, List.nil_append,
      Buf.getU8_cons, Res.bind_ok, List.append_assoc]
    simp [Buf.take_append' 16 ip _ h1, Buf.getU16_be16 p tail h2]
    omega

/-- the advertised length is the encoded length (used to size buffers and to find the end of the
Trojan header) -/
theorem c14_socks5_length (a : Addr) (h : a.WF) : Socks5Addr.length a = (Socks5Addr.encode a).length := by
  cases a with
  | domain host p => simp [Socks5Addr.length, Socks5Addr.encode]; omega
  | v4 ip p => simp [Socks5Addr.length, Socks5Addr.encode, h.1]
  | v6 ip p => simp [Socks5Addr.length, Socks5Addr.encode, h.1]

/-- `try_decode_at` (used by the Trojan server to find the end of the header) reports exactly the
encoded length of an accepted address placed at any offset -/
theorem c14_socks5_try_decode_at (a : Addr) (pre tail : Bytes) (h : a.Accepted) :
    Socks5Addr.tryDecodeAt (pre ++ Socks5Addr.encode a ++ tail) pre.length = .ok (Socks5Addr.encode a).length := by
  cases a with
  | domain host p =>
    obtain ⟨_, h2, _⟩ := h
    have hl : (u8 host.length).toNat = host.length := u8_toNat_lt _ (by omega)
    simp [Socks5Addr.tryDecodeAt, Socks5Addr.encode, hl]; omega
  | v4 ip p => simp [Socks5Addr.tryDecodeAt, Socks5Addr.encode, h.1]
  | v6 ip p => simp [Socks5Addr.tryDecodeAt, Socks5Addr.encode, h.1]

/-- **VMess-style form**: same statement; a domain name must additionally be valid UTF-8 because the
reader builds the `String` with `String::from_utf8`. -/
theorem c14_vmess_roundtrip (utf8Ok : Bytes → Bool) (a : Addr) (tail : Bytes) (h : a.Accepted)
    (hu : ∀ host p, a = .domain host p → utf8Ok host = true) :
    ∃ w, VmessAddr.write a = .ok w ∧ VmessAddr.read utf8Ok (w ++ tail) = .ok (a, tail) := by
  cases a with
  | domain host p =>
    obtain ⟨h1, h2, h3⟩ := h
    have hl : (u8 host.length).toNat = host.length := u8_toNat_lt _ (by omega)
    refine ⟨be16 p ++ [2, u8 host.length] ++ host, by simp [VmessAddr.write, Nat.ne_of_gt h1], ?_⟩
    simp only [VmessAddr.read, List.append_assoc, Buf.getU16_be16 p _ h3, Res.bind_ok,
      List.cons_append, List.nil_append, Buf.getU8_cons]
    simp [hl, Buf.take_append, hu host p rfl]
  | v4 ip p =>
    obtain ⟨h1, h2⟩ := h
    refine ⟨be16 p ++ [1] ++ ip, rfl, ?_⟩
    simp only [VmessAddr.read, List.append_assoc, Buf.getU16_be16 p _ h2, Res.bind_ok,
      List.cons_append, List.nil_append, Buf.getU8_cons]
    simp [Buf.take_append' 4 ip _ h1]
  | v6 ip p =>
    obtain ⟨h1, h2⟩ := h
    refine ⟨be16 p ++ [3] ++ ip, rfl, ?_⟩
    simp only [VmessAddr.read, List.append_assoc, Buf.getU16_be16 p _ h2, Res.bind_ok,
      List.cons_append, List.nil_append, Buf.getU8_cons]
    simp [Buf.take_append' 16 ip _ h1]

/-- the SOCKS5-form decoder never panics, whatever bytes it is given (C07 for this parser) -/
theorem c14_socks5_decode_total (b : Bytes) : Socks5Addr.decode b ≠ .panic := by
  unfold Socks5Addr.decode
  cases b with
  | nil => simp
  | cons t b =>
    simp only [Buf.take, Buf.getU16, Buf.getBE, Buf.getU8, bind, Res.bind, pure]
    grind

/-- Why the admission guard is needed: the encoders alone do **not** round-trip an over-long name
(the length byte is truncated mod 256) — a 256-byte name decodes as an *empty* name whose "port" and
everything after it are taken from the name's own bytes. -/
theorem c14_unguarded_encoder_truncates :
    ∃ a : Addr, a.WF ∧ ¬ a.Accepted ∧
      Socks5Addr.decode (Socks5Addr.encode a) ≠ .ok (a, []) := by
  refine ⟨.domain (List.replicate 256 (97 : UInt8)) 80, by decide +kernel, by decide +kernel, by decide +kernel⟩

/-- and the VMess writer panics on the empty name, which only the guard keeps away from it -/
theorem c14_unguarded_vmess_empty_panics : VmessAddr.write (.domain [] 80) = .panic := rfl

/-! non-vacuity: accepted addresses of every kind exist -/
example : (Addr.domain [119, 51, 46, 111, 114, 103] 443).Accepted := by decide
example : (Addr.v4 [192, 168, 1, 1] 8080).Accepted := by decide
example : (Addr.v6 (List.replicate 16 (1 : UInt8)) 443).Accepted := by decide
example : (Addr.domain (List.replicate 255 (120 : UInt8)) 65535).Accepted := by decide +kernel

end Octo
