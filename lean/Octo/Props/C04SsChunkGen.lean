import Octo.Proofs.SsChunkGen
import Octo.Props.C04
import Octo.Props.C05
import Octo.Props.C12
/-!
# C04 / C05 / C07 / C12 for the code itself: the Shadowsocks AEAD chunk layer `octo-squirrel/src/codec/shadowsocks.rs`

translated statement by statement on every run (`translate_sschunk.py` → `Octo/Gen/SsChunkGen.lean`: `struct Authenticator`,
`struct ChunkEncoder`, `enum DecodeState`, `struct ChunkDecoder` and all their methods, plus
`CipherMethod::encrypt_in_place_detached` of `codec/aead.rs`; exact `usize` arithmetic in both overflow profiles, cursor reads
and `split_*` / `copy_from_slice` panic as in `bytes` / `core`, the nonce generator is the generated `Octo.NonceGen`, the
`unsafe` sequence of `encode_chunk` is one trusted idiom, `loop` / `while` are cut off by an explicit `fuel`).  The AEAD itself
is an assumed external — the record `CipherMethod` — and every theorem below is about its instantiation `aeadOf C alg key`
from the hand model's `Crypto` interface: `ofAuth C a`, `ofEnc C limit a`, `ofDec C d` are the generated `Authenticator` /
`ChunkEncoder` / `ChunkDecoder` values for the model values `a : Ss.Auth`, `d : Ss.ChunkDec`.

Property theorems only; the equivalences are proved in `Octo/Proofs/SsChunkGen.lean`.

`ov` is the overflow profile (`true`: overflow checks on, debug; `false`: release).  Hypotheses that recur:
`a.nonce.length = 12` (the Rust type `[u8; 12]`, which a list does not carry), `src.length < 2 ^ 64` (`remaining()` is a
`usize`), `SealLen C` / `OpenLen C` (the length laws of `Crypto.Lawful`: the tag has 16 bytes), `fuel > src.length` (the
cut-off of the translated loops is then never reached).
-/
namespace Octo.SsChunkGen
open Octo Octo.PWGen Octo.AddrGen Octo.Ss Octo.Fr

/-! ## (a) the equivalences -/

/-- **`Authenticator::seal` = `Auth.sealB`**: one generator step, then the AEAD; the buffer becomes the sealed message -/
theorem c04_generated_ss_seal_eq (ov : Bool) (C : Crypto) (a : Auth) (p : Bytes) (hn : a.nonce.length = 12) :
    Authenticator.seal ov (ofAuth C a) p = PWGen.Res.ok (ofAuth C (a.sealB C p).2, (a.sealB C p).1, RResult.ok ()) :=
  seal_eval ov C a p hn

/-- **`Authenticator::open` = `Auth.openB`**: the generator steps once whether or not the open succeeds; `Err` exactly on `none` -/
theorem c04_generated_ss_open_eq (ov : Bool) (C : Crypto) (a : Auth) (c : Bytes) (hn : a.nonce.length = 12) :
    Authenticator.«open» ov (ofAuth C a) c = PWGen.Res.ok (ofAuth C (a.openB C c).2,
      (match (a.openB C c).1 with | some p => p | none => c),
      (match (a.openB C c).1 with | some _ => RResult.ok () | none => RResult.err)) :=
  open_eval ov C a c hn

/-- the nonce hypothesis holds for a fresh authenticator and is kept by every operation -/
example (alg : Alg) (key : Bytes) : (Auth.new alg key).nonce.length = 12 := rfl
example (C : Crypto) (a : Auth) (p : Bytes) (h : a.nonce.length = 12) : (a.sealB C p).2.nonce.length = 12 := sealB_nonce_len C a p h

/-- `Authenticator::new` starts the generator at `Nonce.incInit` (all ones: the first nonce used is 0) -/
theorem c12_generated_ss_new (ov : Bool) (C : Crypto) (alg : Alg) (key : Bytes) :
    Authenticator.new ov (aeadOf C alg key) = PWGen.Res.ok (ofAuth C ⟨alg, key, Nonce.incInit⟩) :=
  auth_new ov C alg key

/-- **`encrypt_in_place_detached`** (codec/aead.rs) on `plaintext ‖ 16 bytes for the tag`: the slice becomes `C.sealB .. plaintext` -/
theorem c04_generated_ss_detached_eq (ov : Bool) (C : Crypto) (hS : SealLen C) (alg : Alg) (key n ad p t : Bytes) (ht : t.length = 16)
    (hl : (p ++ t).length < 2 ^ 64) :
    CipherMethod.encrypt_in_place_detached ov (aeadOf C alg key) n ad (p ++ t) = PWGen.Res.ok (C.sealB alg key n ad p, RResult.ok ()) :=
  detached_eval ov C hS alg key n ad p t ht hl

example : SealLen Crypto.toy ∧ OpenLen Crypto.toy := ⟨SealLen.of_lawful Crypto.toy_lawful, OpenLen.of_lawful Crypto.toy_lawful⟩

/-- **C07, the `len - tag_size` of `encrypt_in_place_detached`**: a slice shorter than the tag makes the function panic in both
profiles (checked subtraction, resp. `split_at_mut` beyond the end after the wrap).  `Authenticator::encode_size` is its only
caller and `encode_chunk` hands it `2 + tag_size` bytes, so no network input reaches this (`c07_generated_ss_encode_never_panics`). -/
theorem c07_generated_ss_detached_short_panics (ov : Bool) (C : Crypto) (alg : Alg) (key n ad x : Bytes) (h : x.length < 16) :
    CipherMethod.encrypt_in_place_detached ov (aeadOf C alg key) n ad x = PWGen.Res.panic :=
  detached_short_panics ov C alg key n ad x h

/-- **`encode_chunk` = `encChunk`** (the trusted idiom included): sealed 2-byte length, then sealed payload, appended to `dst`;
the `len` bytes are taken off `src`; never `Err`, never a panic -/
theorem c04_generated_ss_encode_chunk_eq (ov : Bool) (C : Crypto) (hS : SealLen C) (pl : Usize) (a : Auth) (src dst : Bytes) (len : Usize)
    (hn : a.nonce.length = 12) (hlen : len.toNat ≤ src.length) :
    ChunkEncoder.encode_chunk ov (ofEnc C pl a) src len dst
      = PWGen.Res.ok (ofEnc C pl (encChunk C a (src.take len.toNat)).2, src.drop len.toNat,
          dst ++ (encChunk C a (src.take len.toNat)).1, RResult.ok ()) :=
  encode_chunk_eval ov C hS pl a src dst len hn hlen

/-- **`encode_payload` = `encPayload`**, for every payload limit above 34 = `tag_size + size_bytes` (the guard under which
`payload_limit - tag_size - size_bytes` neither underflows nor is 0), every source that fits a `usize`, both profiles: the bytes
appended to `dst` and the authenticator afterwards are the model's; never `Err`, never a panic, and the cut-off is not reached. -/
theorem c04_generated_ss_encode_payload_eq (ov : Bool) (C : Crypto) (hS : SealLen C) (pl : Usize) (hpl : 34 < pl.toNat) (a : Auth)
    (src dst : Bytes) (hn : a.nonce.length = 12) (hsrc : src.length < 2 ^ 64) (fuel : Nat) (hf : src.length < fuel) :
    ChunkEncoder.encode_payload ov fuel (ofEnc C pl a) src dst
      = PWGen.Res.ok (some (ofEnc C pl (encPayload C a pl.toNat src).2, dst ++ (encPayload C a pl.toNat src).1, RResult.ok ())) :=
  encode_payload_eq ov C hS pl hpl a src dst hn hsrc fuel hf

/-- the guard holds for the limit every encoder is created with (`aead::new_encoder`: 0x3FFF + 34, `aead_2022::new_encoder`: 0xFFFF) -/
example (k : Kind) : 34 < (UInt64.ofNat k.payloadLimit).toNat ∧ (UInt64.ofNat k.payloadLimit).toNat = k.payloadLimit := by
  cases k <;> decide

/-- **where the model and the code differ (1)**: with `payload_limit < 34` the subtraction underflows — a build with overflow
checks panics, the hand model (subtracting in `Nat`) encodes nothing.  No configuration reaches this: the limits are constants. -/
theorem c04_generated_ss_encode_payload_underflow (C : Crypto) (pl : Usize) (hpl : pl.toNat < 34) (a : Auth) (src dst : Bytes) (fuel : Nat) :
    ChunkEncoder.encode_payload true fuel (ofEnc C pl a) src dst = PWGen.Res.panic ∧ encPayload C a pl.toNat src = ([], a) :=
  ⟨encode_payload_underflow_debug C pl hpl a src dst fuel, encPayload_small_limit C a pl.toNat (by omega) src⟩

/-- … and a release build wraps: the limit becomes a number near 2^64 and the whole source, however long, is sealed as ONE chunk
whose 16-bit length field holds `len mod 65536`; the hand model encodes nothing -/
theorem c04_generated_ss_encode_payload_underflow_release (C : Crypto) (hS : SealLen C) (pl : Usize) (hpl : pl.toNat < 34) (a : Auth)
    (x : UInt8) (r dst : Bytes) (hn : a.nonce.length = 12) (hsrc : (x :: r).length < 2 ^ 64 - 34) (fuel : Nat)
    (hf : (x :: r).length < fuel) :
    ChunkEncoder.encode_payload false fuel (ofEnc C pl a) (x :: r) dst
      = PWGen.Res.ok (some (ofEnc C pl (encChunk C a (x :: r)).2, dst ++ (encChunk C a (x :: r)).1, RResult.ok ())) ∧
    encPayload C a pl.toNat (x :: r) = ([], a) :=
  ⟨encode_payload_underflow_release C hS pl hpl a x r dst hn hsrc fuel hf, encPayload_small_limit C a pl.toNat (by omega) (x :: r)⟩

/-- **where the model and the code differ (2)**: with `payload_limit = 34` the limit is 0 and the Rust loop never ends on a
non-empty source (it appends empty chunks for ever) — the translated function is cut off for *every* `fuel`; the hand model
encodes nothing. -/
theorem c04_generated_ss_encode_payload_limit_zero (ov : Bool) (C : Crypto) (hS : SealLen C) (a : Auth) (x : UInt8) (r dst : Bytes)
    (hn : a.nonce.length = 12) (fuel : Nat) :
    ChunkEncoder.encode_payload ov fuel (ofEnc C 34 a) (x :: r) dst = PWGen.Res.ok none ∧ encPayload C a 34 (x :: r) = ([], a) :=
  ⟨encode_payload_limit_zero ov C hS a x r dst hn fuel, encPayload_small_limit C a 34 (by omega) (x :: r)⟩

/-- **`encode_packet` = `Auth.sealB`** (one datagram: the whole source, sealed, is appended) -/
theorem c04_generated_ss_encode_packet_eq (ov : Bool) (C : Crypto) (pl : Usize) (a : Auth) (src dst : Bytes) (hn : a.nonce.length = 12) :
    ChunkEncoder.encode_packet ov (ofEnc C pl a) src dst
      = PWGen.Res.ok (ofEnc C pl (a.sealB C src).2, dst ++ (a.sealB C src).1, RResult.ok ()) :=
  encode_packet_eval ov C pl a src dst hn

/-- **`decode_packet` = `Auth.openB`** of everything buffered: the buffer is emptied, `Err` exactly when the open fails, the
generator has stepped once either way, the `DecodeState` is untouched -/
theorem c04_generated_ss_decode_packet_eq (ov : Bool) (C : Crypto) (d : ChunkDec) (src : Bytes) (hn : d.auth.nonce.length = 12) :
    ChunkDecoder.decode_packet ov (ofDec C d) src
      = PWGen.Res.ok (ofDec C ⟨(d.auth.openB C src).2, d.st⟩, [],
          (match (d.auth.openB C src).1 with | some p => RResult.ok p | none => RResult.err)) :=
  decode_packet_eval ov C d src hn

/-- **`decode_payload` = the model's repeated `chunkUnit`** (`Fr.run (chunkUnit C)`): for every representable decoder state other
than the unreachable `Payload(0)`, every buffer that fits a `usize`, both profiles — the same plaintext is appended to `dst`, the
same bytes remain in `src`, the decoder ends in the same state (nonce and `DecodeState`), the call returns `Err` exactly when the
run failed, i.e. when an open failed, and then state and nonce are those after the failing open (`Fr.Step.fail` carries them);
no panic; the cut-off `fuel` is not reached. -/
theorem c04_generated_ss_decode_payload_eq (ov : Bool) (C : Crypto) (hO : OpenLen C) (d : ChunkDec) (src dst : Bytes) (hd : WFDec d)
    (hp : PosDec d) (hsrc : src.length < 2 ^ 64) (fuel : Nat) (hf : src.length < fuel) :
    ChunkDecoder.decode_payload ov fuel (ofDec C d) src dst
      = PWGen.Res.ok (some (ofDec C (run (chunkUnit C) d src).st, (run (chunkUnit C) d src).buf,
          dst ++ (run (chunkUnit C) d src).out,
          if (run (chunkUnit C) d src).failed then RResult.err else RResult.ok ())) :=
  decode_payload_eq ov C hO d src dst hd hp hsrc fuel hf

/-- the hypotheses on the state hold for the decoder `ChunkDecoder::new` builds, and for every state a run leaves behind -/
example (alg : Alg) (key : Bytes) : WFDec ⟨Auth.new alg key, .length⟩ ∧ PosDec ⟨Auth.new alg key, .length⟩ :=
  ⟨⟨rfl, fun n h => by cases h⟩, fun n h => by cases h⟩
theorem c04_generated_ss_states_stay_representable (C : Crypto) (hO : OpenLen C) (d : ChunkDec) (b : Bytes) (hd : WFDec d)
    (hp : PosDec d) : WFDec (run (chunkUnit C) d b).st ∧ PosDec (run (chunkUnit C) d b).st :=
  ⟨(drain_inv C hO _ d b hd hp).1, (drain_inv C hO _ d b hd hp).2.1⟩

/-- the cut-off is not part of the statement: one answer for every `fuel` above the buffer length -/
theorem c04_generated_ss_decode_payload_fuel_free (ov : Bool) (C : Crypto) (hO : OpenLen C) (d : ChunkDec) (src dst : Bytes)
    (hd : WFDec d) (hp : PosDec d) (hsrc : src.length < 2 ^ 64) :
    ∃ r, ∀ fuel, src.length < fuel → ChunkDecoder.decode_payload ov fuel (ofDec C d) src dst = PWGen.Res.ok (some r) :=
  decode_payload_fuel_free ov C hO d src dst hd hp hsrc

/-- the same without the restriction on the state (every representable state, `Payload(0)` included) and for *every* cut-off:
the generated function returns what iterating the model's `chunkUnit` step (`decStep`) at most `fuel` times returns -/
theorem c04_generated_ss_decode_payload_loop (ov : Bool) (C : Crypto) (hO : OpenLen C) (d : ChunkDec) (src dst : Bytes) (hd : WFDec d)
    (hsrc : src.length < 2 ^ 64) (fuel : Nat) :
    ChunkDecoder.decode_payload ov fuel (ofDec C d) src dst = PWGen.Res.ok (loopModel (decStep C) fuel (d, src, dst)) :=
  decode_payload_loop ov C hO d src dst hd hsrc fuel

/-- `ChunkDecoder::new` puts the decoder into `Length` -/
theorem c04_generated_ss_decoder_new (ov : Bool) (C : Crypto) (a : Auth) :
    ChunkDecoder.new ov (ofAuth C a) = PWGen.Res.ok (ofDec C ⟨a, .length⟩) := rfl

/-! ## (b) C07 — no network input makes the chunk layer panic -/

/-- **C07, generated `decode_payload`: never panics** — every representable decoder state (`Payload(0)` included), every buffer
content of a length a `BytesMut` can have, both overflow profiles, every cut-off: each `split_to`, the `get_u16` behind the
opened length, `size as usize + tag_size`, `2 + tag_size` are covered by the guards the Rust has. -/
theorem c07_generated_ss_decode_payload_never_panics (ov : Bool) (C : Crypto) (hO : OpenLen C) (d : ChunkDec) (src dst : Bytes)
    (hd : WFDec d) (hsrc : src.length < 2 ^ 64) (fuel : Nat) :
    ChunkDecoder.decode_payload ov fuel (ofDec C d) src dst ≠ PWGen.Res.panic :=
  decode_payload_no_panic ov C hO d src dst hd hsrc fuel

/-- **C07, generated `decode_packet`: never panics** (no length hypothesis at all) -/
theorem c07_generated_ss_decode_packet_never_panics (ov : Bool) (C : Crypto) (d : ChunkDec) (src : Bytes) (hn : d.auth.nonce.length = 12) :
    ChunkDecoder.decode_packet ov (ofDec C d) src ≠ PWGen.Res.panic := by
  rw [decode_packet_eval ov C d src hn]; simp

/-- **C07, generated encoders: never panic, never fail** under the guard on the limit -/
theorem c07_generated_ss_encode_never_panics (ov : Bool) (C : Crypto) (hS : SealLen C) (pl : Usize) (hpl : 34 < pl.toNat) (a : Auth)
    (src dst : Bytes) (hn : a.nonce.length = 12) (hsrc : src.length < 2 ^ 64) :
    (∃ e w, ChunkEncoder.encode_payload ov (src.length + 1) (ofEnc C pl a) src dst = PWGen.Res.ok (some (e, w, RResult.ok ()))) ∧
    (∃ e w, ChunkEncoder.encode_packet ov (ofEnc C pl a) src dst = PWGen.Res.ok (e, w, RResult.ok ())) :=
  ⟨⟨_, _, encode_payload_eq ov C hS pl hpl a src dst hn hsrc _ (by omega)⟩, ⟨_, _, encode_packet_eval ov C pl a src dst hn⟩⟩

/-! ## (c) C12 — nonces consumed per chunk -/

/-- **C12, encoder**: the generated `encode_chunk` steps the generator exactly twice — the authenticator it leaves behind holds
`incStep (incStep nonce)`, the two seals used `incStep nonce` and `incStep (incStep nonce)` (`Auth.sealB`), key and algorithm
are unchanged -/
theorem c12_generated_ss_encode_chunk_two_nonces (ov : Bool) (C : Crypto) (hS : SealLen C) (pl : Usize) (a : Auth) (src dst : Bytes)
    (len : Usize) (hn : a.nonce.length = 12) (hlen : len.toNat ≤ src.length) :
    ∃ e s w, ChunkEncoder.encode_chunk ov (ofEnc C pl a) src len dst = PWGen.Res.ok (e, s, w, RResult.ok ()) ∧
      e = ofEnc C pl ⟨a.alg, a.key, Nonce.incStep (Nonce.incStep a.nonce)⟩ :=
  ⟨_, _, _, encode_chunk_eval ov C hS pl a src dst len hn hlen, rfl⟩

/-- over a whole payload: two steps per chunk -/
theorem c12_generated_ss_encode_payload_nonces (ov : Bool) (C : Crypto) (hS : SealLen C) (pl : Usize) (hpl : 34 < pl.toNat) (a : Auth)
    (src dst : Bytes) (hn : a.nonce.length = 12) (hsrc : src.length < 2 ^ 64) :
    ∃ e w, ChunkEncoder.encode_payload ov (src.length + 1) (ofEnc C pl a) src dst = PWGen.Res.ok (some (e, w, RResult.ok ())) ∧
      e = ofEnc C pl (encPayload C a pl.toNat src).2 ∧
      (encPayload C a pl.toNat src).2.nonce
        = Nat.repeat Nonce.incStep (2 * (splitChunks (chunkLimit pl.toNat) src).length) a.nonce :=
  ⟨_, _, encode_payload_eq ov C hS pl hpl a src dst hn hsrc _ (by omega), rfl, encChunks_nonce C _ a⟩

/-- **C12, decoder**: every iteration of the loop that opens something (whether it succeeds or fails) steps the nonce exactly
once, waiting steps nothing; a whole chunk is two iterations and ends on the encoder's authenticator: two nonces per chunk -/
theorem c12_generated_ss_decode_one_nonce_per_open (C : Crypto) (d d' : ChunkDec) (b : Bytes) (n : Nat) :
    (∀ o, chunkUnit C d b = .take d' n o → d'.auth.nonce = Nonce.incStep d.auth.nonce) ∧
    (chunkUnit C d b = .fail d' n → d'.auth.nonce = Nonce.incStep d.auth.nonce) :=
  ⟨fun o h => chunkUnit_nonce_take C d d' b n o h, fun h => chunkUnit_nonce_fail C d d' b n h⟩

theorem c12_generated_ss_decode_chunk_two_nonces (ov : Bool) (C : Crypto) (hC : C.Lawful) (a : Auth) (p dst : Bytes)
    (hn : a.nonce.length = 12) (hp : p.length < 65536) (fuel : Nat) (hf : (encChunk C a p).1.length < fuel)
    (hlen : (encChunk C a p).1.length < 2 ^ 64) :
    ChunkDecoder.decode_payload ov fuel (ofDec C ⟨a, .length⟩) (encChunk C a p).1 dst
      = PWGen.Res.ok (some (ofDec C ⟨⟨a.alg, a.key, Nonce.incStep (Nonce.incStep a.nonce)⟩, .length⟩, [], dst ++ p, RResult.ok ())) := by
  have h := decode_payload_eq ov C (OpenLen.of_lawful hC) ⟨a, .length⟩ (encChunk C a p).1 dst ⟨hn, fun n h => by cases h⟩
    (fun n h => by cases h) hlen fuel hf
  have hr := chunks_roundtrip C hC [p] (by simpa using hp) a
  simp only [encChunks, List.append_nil, List.flatten_cons, List.flatten_nil] at hr
  rw [h, hr]
  rfl

/-- the nonces are those of `c12_ss_stream_nonces_distinct`: an authenticator that has done `c` operations seals with the
specification's nonce `c` (`c03_ss_nonce_sequence`), so the generated encoder's `2·i`-th and `2·i+1`-th operations use the
little-endian counters `2·i`, `2·i+1` — distinct below 2^96 -/
theorem c12_generated_ss_chunk_nonces (ov : Bool) (C : Crypto) (hS : SealLen C) (pl : Usize) (a : Auth) (c : Nat) (ha : a.At c)
    (src dst : Bytes) (len : Usize) (hlen : len.toNat ≤ src.length) :
    ∃ e s, ChunkEncoder.encode_chunk ov (ofEnc C pl a) src len dst = PWGen.Res.ok (e, s,
      dst ++ (C.sealB a.alg a.key (Spec.leNonce c) [] (be16 len.toNat) ++
        C.sealB a.alg a.key (Spec.leNonce (c + 1)) [] (src.take len.toNat)), RResult.ok ()) := by
  have hn : a.nonce.length = 12 := by
    rw [ha]
    clear ha
    induction c with
    | zero => rfl
    | succ c ih => simp only [Nat.repeat]; exact incStep_len ih
  have h := encode_chunk_eval ov C hS pl a src dst len hn hlen
  have h1 := c03_ss_nonce_sequence C a c ha (be16 (src.take len.toNat).length)
  have h2 := c03_ss_nonce_sequence C (a.sealB C (be16 (src.take len.toNat).length)).2 (c + 1) h1.2.1 (src.take len.toNat)
  have htk : (src.take len.toNat).length = len.toNat := by rw [List.length_take]; omega
  rw [htk] at h1 h2
  rw [h]
  refine ⟨ofEnc C pl (encChunk C a (src.take len.toNat)).2, src.drop len.toNat, ?_⟩
  simp only [encChunk, htk]
  rw [h1.1, h2.1, h1.2.2.1, h1.2.2.2]

example : ∃ a : Auth, a.At 0 := ⟨Auth.new .aes128gcm [], rfl⟩

/-! ## (d) C04 / C05 — the generated decoder across reads, for every segmentation

`genFeed ov` hands one more read to the generated `decode_payload` (buffer ‖ piece, `dst` empty, cut-off = length + 1) and
accumulates what it released — what `AEADCipherCodec::decode` under `FramedRead` does with the chunk layer.  `embedOut C` is the
generated counterpart of a model run. -/

/-- **lock step**: for every list of reads whose total length fits a `usize`, folding the generated decoder over the reads
gives the generated counterpart of folding the model (`Fr.feed (chunkUnit C)`) over them: same released plaintext, same
buffer, same state, ended alike -/
theorem c04_generated_ss_feed_eq_model (ov : Bool) (C : Crypto) (hO : OpenLen C) (a : Auth) (hn : a.nonce.length = 12)
    (pieces : List Bytes) (hlen : pieces.flatten.length < 2 ^ 64) :
    pieces.foldl (genFeed ov) ⟨ofDec C ⟨a, .length⟩, [], [], false⟩
      = embedOut C (pieces.foldl (feed (chunkUnit C)) (run (chunkUnit C) ⟨a, .length⟩ [])) := by
  have h0 : run (chunkUnit C) ⟨a, .length⟩ [] = ⟨⟨a, .length⟩, [], [], false⟩ := run_need _ _ _ (by simp [chunkUnit])
  rw [h0]
  exact genFeed_fold ov C hO pieces ⟨⟨a, .length⟩, [], [], false⟩ ⟨hn, fun n h => by cases h⟩ (fun n h => by cases h)
    (by simpa using hlen)

/-- **C04, chunk layer, generated decoder, any segmentation**: the wire the (model = generated, `encode_payload_eq`) encoder
writes for a payload, cut into any consecutive pieces and fed read by read to the generated `decode_payload`, gives back exactly
the payload, no failure, an empty buffer, and a decoder that is quiescent — the next call on what is buffered returns `Ok(())`
without consuming or releasing anything: it never stalls -/
theorem c04_generated_ss_chunks_segmented (ov : Bool) (C : Crypto) (hC : C.Lawful) (a : Auth) (hn : a.nonce.length = 12) (k : Kind)
    (p : Bytes) (pieces : List Bytes) (hcut : pieces.flatten = (encPayload C a k.payloadLimit p).1)
    (hlen : (encPayload C a k.payloadLimit p).1.length < 2 ^ 64) :
    let r := pieces.foldl (genFeed ov) ⟨ofDec C ⟨a, .length⟩, [], [], false⟩
    r.out = p ∧ r.failed = false ∧ r.buf = [] ∧
      ∀ fuel dst, 0 < fuel → ChunkDecoder.decode_payload ov fuel r.st r.buf dst = PWGen.Res.ok (some (r.st, [], dst, RResult.ok ())) := by
  intro r
  have hO := OpenLen.of_lawful hC
  have he : r = _ := c04_generated_ss_feed_eq_model ov C hO a hn pieces (by rw [hcut]; exact hlen)
  obtain ⟨m1, m2, m3, m4⟩ := c04_ss_chunks_segmented C hC a k p pieces hcut
  have hm := c04_generated_ss_states_stay_representable C hO ⟨a, .length⟩ pieces.flatten ⟨hn, fun n h => by cases h⟩ (fun n h => by cases h)
  have hfold := feed_pieces (chunkUnit C) (chunkUnit_good C hC) pieces ⟨a, .length⟩ []
  rw [List.nil_append] at hfold
  rw [he]
  refine ⟨m1, m2, m3, ?_⟩
  intro fuel dst hf
  simp only [embedOut]
  rw [m3]
  rw [hfold] at m4 ⊢
  rw [hfold] at m3
  have h := decode_payload_eq ov C hO _ [] dst hm.1 hm.2 (by decide) fuel hf
  rw [m3] at m4
  rw [run_need _ _ _ m4] at h
  simpa using h

/-- **C05, chunk layer, generated decoder, any segmentation**: whatever byte string arrives, in whatever pieces — if it contains no
forgery (`NoForgery`: integrity of ciphertexts relative to the received bytes) the generated decoder releases exactly the payloads
of the first `k` honest chunks for some `k`: a prefix of what the sender wrote, nothing after the first tampered byte -/
theorem c05_generated_ss_chunks_prefix_segmented (ov : Bool) (C : Crypto) (hC : C.Lawful) (ps : List Bytes)
    (hps : ∀ p ∈ ps, p.length < 65536) (a : Auth) (c : Nat) (ha : AuthAt a c) (hn : a.nonce.length = 12) (pieces : List Bytes)
    (hlen : pieces.flatten.length < 2 ^ 64)
    (hnf : NoForgery C a.alg a.key c (honestBlocks C a.alg a.key c ps) pieces.flatten) :
    ∃ k, k ≤ ps.length ∧ (pieces.foldl (genFeed ov) ⟨ofDec C ⟨a, .length⟩, [], [], false⟩).out = (ps.take k).flatten := by
  rw [c04_generated_ss_feed_eq_model ov C (OpenLen.of_lawful hC) a hn pieces hlen]
  exact c05_chunks_prefix_segmented C hC ps hps a c ha pieces hnf

/-- **C05, one call**: after the first open that fails the generated `decode_payload` returns `Err`, has released only what was
authenticated before, and `AEADCipherCodec::decode` (which propagates the `Err`) ends the stream — in one call: what the
generated code appended to `dst` is the model's output, which is a prefix of the honest payloads -/
theorem c05_generated_ss_chunks_prefix (ov : Bool) (C : Crypto) (hC : C.Lawful) (ps : List Bytes) (hps : ∀ p ∈ ps, p.length < 65536)
    (a : Auth) (c : Nat) (ha : AuthAt a c) (hn : a.nonce.length = 12) (s dst : Bytes) (hlen : s.length < 2 ^ 64)
    (hnf : NoForgery C a.alg a.key c (honestBlocks C a.alg a.key c ps) s) :
    ∃ k st buf res, k ≤ ps.length ∧
      ChunkDecoder.decode_payload ov (s.length + 1) (ofDec C ⟨a, .length⟩) s dst = PWGen.Res.ok (some (st, buf, dst ++ (ps.take k).flatten, res)) := by
  obtain ⟨k, hk, ho, -⟩ := c05_chunks_prefix C hC ps hps a c s ha hnf
  have h := decode_payload_eq ov C (OpenLen.of_lawful hC) ⟨a, .length⟩ s dst ⟨hn, fun n h => by cases h⟩ (fun n h => by cases h) hlen
    (s.length + 1) (by omega)
  rw [ho] at h
  exact ⟨k, _, _, _, hk, h⟩

/-- **round trip, generated encoder → generated decoder**: what `encode_payload` appends for a payload, handed to
`decode_payload` of a decoder whose authenticator is in the encoder's starting state, comes back as that payload; buffer empty,
`Ok`, and encoder and decoder authenticators end equal -/
theorem c04_generated_ss_roundtrip (ov : Bool) (C : Crypto) (hC : C.Lawful) (k : Kind) (a : Auth) (hn : a.nonce.length = 12) (p : Bytes)
    (hp : p.length < 2 ^ 64) (hw : (encPayload C a k.payloadLimit p).1.length < 2 ^ 64) :
    ∃ e w, ChunkEncoder.encode_payload ov (p.length + 1) (ofEnc C (UInt64.ofNat k.payloadLimit) a) p [] = PWGen.Res.ok (some (e, w, RResult.ok ())) ∧
      e.auth = ofAuth C (encPayload C a k.payloadLimit p).2 ∧
      ChunkDecoder.decode_payload ov (w.length + 1) (ofDec C ⟨a, .length⟩) w []
        = PWGen.Res.ok (some (ofDec C ⟨(encPayload C a k.payloadLimit p).2, .length⟩, [], p, RResult.ok ())) := by
  have hk : 34 < (UInt64.ofNat k.payloadLimit).toNat ∧ (UInt64.ofNat k.payloadLimit).toNat = k.payloadLimit := by cases k <;> decide
  have he := encode_payload_eq ov C (SealLen.of_lawful hC) (UInt64.ofNat k.payloadLimit) hk.1 a p [] hn hp (p.length + 1) (by omega)
  rw [hk.2, List.nil_append] at he
  refine ⟨_, _, he, rfl, ?_⟩
  have hd := decode_payload_eq ov C (OpenLen.of_lawful hC) ⟨a, .length⟩ (encPayload C a k.payloadLimit p).1 [] ⟨hn, fun n h => by cases h⟩
    (fun n h => by cases h) hw ((encPayload C a k.payloadLimit p).1.length + 1) (by omega)
  rw [payload_roundtrip C hC a _ (payloadLimit_good k) p] at hd
  simpa using hd

/-! ## non-vacuity: the hypotheses hold for concrete instances, and the generated code, evaluated, agrees -/
section examples

def exA : Auth := Auth.new .aes128gcm (List.replicate 16 7)

example : Crypto.toy.Lawful := Crypto.toy_lawful
example : exA.nonce.length = 12 := rfl
example : WFDec ⟨exA, .length⟩ ∧ PosDec ⟨exA, .length⟩ := ⟨⟨rfl, fun n h => by cases h⟩, fun n h => by cases h⟩
example : (34 : Nat) < (16417 : Usize).toNat := by decide

/-- what the generated `encode_payload` appends, evaluated (debug profile, toy cipher): the model's bytes -/
example :
    (match ChunkEncoder.encode_payload true 4 (ofEnc Crypto.toy 16417 exA) [1, 2, 3] [9] with
     | .ok (some (_, w, RResult.ok ())) => some w
     | _ => none) = some ([9] ++ (encPayload Crypto.toy exA 16417 [1, 2, 3]).1) := by decide +kernel

/-- the generated decoder, evaluated (release profile) on that wire cut after 20 bytes: first read releases nothing and keeps
2 bytes (the sealed length is consumed), the second releases the payload -/
example :
    let wire := (encPayload Crypto.toy exA 16417 [1, 2, 3]).1
    let r := [wire.take 20, wire.drop 20].foldl (genFeed false) ⟨ofDec Crypto.toy ⟨exA, .length⟩, [], [], false⟩
    (r.out, r.buf, r.failed) = ([1, 2, 3], [], false) := by decide +kernel

/-- a flipped bit in the payload block, evaluated: `Err`, nothing released, the 18 + 19 bytes consumed -/
example :
    let wire := (encPayload Crypto.toy exA 16417 [1, 2, 3]).1
    let bad := wire.take 19 ++ [(wire.getD 19 0) ^^^ 1] ++ wire.drop 20
    (match ChunkDecoder.decode_payload true 100 (ofDec Crypto.toy ⟨exA, .length⟩) bad [] with
     | .ok (some (_, buf, out, res)) => some (buf, out, decide (res = RResult.err))
     | _ => none) = some ([], [], true) := by decide +kernel

/-- was the translated loop cut off? -/
def cutOff {α : Type} : PWGen.Res (Option α) → Bool
  | .ok none => true
  | _ => false

/-- the cut-off, evaluated: with `fuel = 1` the loop is cut off after the length step (`none`), with `fuel = 3` it is not -/
example :
    let wire := (encPayload Crypto.toy exA 16417 [1, 2, 3]).1
    (cutOff (ChunkDecoder.decode_payload true 1 (ofDec Crypto.toy ⟨exA, .length⟩) wire []),
     cutOff (ChunkDecoder.decode_payload true 3 (ofDec Crypto.toy ⟨exA, .length⟩) wire [])) = (true, false) := by decide +kernel

end examples

end Octo.SsChunkGen
