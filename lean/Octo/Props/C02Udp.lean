import Octo.Proofs.SsUdpRound
import Octo.Props.C02
import Octo.Props.C12
/-!
# C02 — UDP relay preserves each datagram, its addresses and its owner: Shadowsocks-2022 datagrams

Every arm of `SsUdp.encode` / `SsUdp.decode` (XChaCha kinds, AES kinds with and without a user table,
both directions), ownership read off the decoder, the client's per-binding codec, and "whole or not
at all".  `RandOk r now`: the timestamp fits 8 bytes and is within `Consts.ssMaxTimeDiff` of the
decoder's clock, the padding length fits 2 bytes.  `Paired C cc sc owner`: the client context `cc`
and the server context `sc` are configured for each other (see `Octo/Proofs/SsUdpRound.lean`).
-/
namespace Octo.SsUdp
open Octo.Ss

/-! ### 1. XChaCha kinds, both directions -/

/-- **XChaCha kinds**: a request decodes at the server, and a reply decodes at the client, to exactly
the payload, the address, the session ids and the packet id that were encoded -/
theorem c02_ss_udp_2022_chacha_roundtrip (C : Crypto) (hC : C.Lawful) (cc sc : Ctx)
    (hkind : sc.kind = .b3chacha8 ∨ sc.kind = .b3chacha20) (hck : cc.kind = sc.kind) (hkey : cc.key = sc.key)
    (s : Session) (hcsid : s.clientSessionId < 2 ^ 64) (hssid : s.serverSessionId < 2 ^ 64) (hpid : s.packetId < 2 ^ 64)
    (addr : Addr) (ha : addr.Accepted) (item : Bytes) (r : Rand) (now : Nat) (hr : RandOk r now)
    (hn : r.nonce.length = 24) :
    decode C sc .server now (encode C cc .client s addr item r) =
        .ok (item, addr, ⟨s.clientSessionId, 0, s.packetId, none⟩) ∧
      decode C cc .client now (encode C sc .server s addr item r) =
        .ok (item, addr, ⟨s.clientSessionId, s.serverSessionId, s.packetId, none⟩) := by
  have hx : (xAlg sc.kind).isSome = true := by rcases hkind with h | h <;> simp [h, xAlg]
  exact ⟨request_chacha C hC cc sc hck hx (by rw [hkey]) s hcsid hpid addr ha item r now hr hn,
    reply_chacha C hC cc sc hck hx (by rw [hkey]) s hcsid hssid hpid addr ha item r now hr hn⟩

/-! ### 2. AES kinds, reply direction -/

/-- **AES kinds, server → client**: the reply for a session without user is sealed under the server
key, the reply for a session of user `u` under `u.key`; the client holding that key decodes exactly
the payload, the address and the ids -/
theorem c02_ss_udp_2022_aes_server_to_client_roundtrip (C : Crypto) (hC : C.Lawful) (cc sc : Ctx)
    (hkind : sc.kind = .b3aes128 ∨ sc.kind = .b3aes256) (hck : cc.kind = sc.kind) (s : Session)
    (hkey : (s.user = none ∧ cc.key = sc.key) ∨ (∃ u, s.user = some u ∧ cc.key = u.key))
    (hcsid : s.clientSessionId < 2 ^ 64) (hssid : s.serverSessionId < 2 ^ 64) (hpid : s.packetId < 2 ^ 64)
    (addr : Addr) (ha : addr.Accepted) (item : Bytes) (r : Rand) (now : Nat) (hr : RandOk r now) :
    decode C cc .client now (encode C sc .server s addr item r) =
      .ok (item, addr, ⟨s.clientSessionId, s.serverSessionId, s.packetId, none⟩) := by
  have hs : sc.kind.supportEih = true := by rcases hkind with h | h <;> simp [h, Kind.supportEih]
  refine reply_aes C hC cc sc hck hs s ?_ hcsid hssid hpid addr ha item r now hr
  rcases hkey with ⟨h1, h2⟩ | ⟨u, h1, h2⟩ <;> simp [replyKey, h1, h2]

/-! ### 3. AES kinds, request with an identity header -/

/-- **AES kinds, multi-user request**: the client holds the server key as its identity key and the
key of user `u`; the server (key = that identity key, `u` selected by the identity hash) decodes the
same payload, address and ids **and attributes the datagram to `u`** -/
theorem c02_ss_udp_2022_eih_roundtrip (C : Crypto) (hC : C.Lawful) (cc sc : Ctx)
    (hkind : sc.kind = .b3aes128 ∨ sc.kind = .b3aes256) (hck : cc.kind = sc.kind)
    (ipsk userKey : Bytes) (hik : cc.identityKeys = [ipsk]) (hckey : cc.key = userKey) (hskey : sc.key = ipsk)
    (u : User) (hfind : findUser sc.users ((C.blake3Hash userKey).take 16) = some u) (huk : u.key = userKey)
    (s : Session) (hsid : s.clientSessionId < 2 ^ 64) (hpid : s.packetId < 2 ^ 64)
    (addr : Addr) (ha : addr.Accepted) (item : Bytes) (r : Rand) (now : Nat) (hr : RandOk r now) :
    decode C sc .server now (encode C cc .client s addr item r) =
      .ok (item, addr, ⟨s.clientSessionId, 0, s.packetId, some u⟩) := by
  have hs : sc.kind.supportEih = true := by rcases hkind with h | h <;> simp [h, Kind.supportEih]
  subst hckey hskey
  exact request_eih C hC cc sc hck hs hik u hfind huk s hsid hpid addr ha item r now hr

/-- the same with the table condition spelled out: `u` is registered, carries the identity hash of
its key, and no other registered user carries that hash -/
theorem c02_ss_udp_2022_eih_roundtrip' (C : Crypto) (hC : C.Lawful) (cc sc : Ctx)
    (hkind : sc.kind = .b3aes128 ∨ sc.kind = .b3aes256) (hck : cc.kind = sc.kind)
    (ipsk userKey : Bytes) (hik : cc.identityKeys = [ipsk]) (hckey : cc.key = userKey) (hskey : sc.key = ipsk)
    (u : User) (hmem : u ∈ sc.users) (huk : u.key = userKey) (hhash : u.hash = (C.blake3Hash userKey).take 16)
    (huniq : ∀ v ∈ sc.users, v.hash = (C.blake3Hash userKey).take 16 → v = u)
    (s : Session) (hsid : s.clientSessionId < 2 ^ 64) (hpid : s.packetId < 2 ^ 64)
    (addr : Addr) (ha : addr.Accepted) (item : Bytes) (r : Rand) (now : Nat) (hr : RandOk r now) :
    decode C sc .server now (encode C cc .client s addr item r) =
      .ok (item, addr, ⟨s.clientSessionId, 0, s.packetId, some u⟩) :=
  c02_ss_udp_2022_eih_roundtrip C hC cc sc hkind hck ipsk userKey hik hckey hskey u
    (findUser_unique _ _ u hmem hhash huniq) huk s hsid hpid addr ha item r now hr

/-! ### 4. ownership -/

/-- **Owner of a decoded request** (no assumption on `C`, any datagram `b`): when the server works
with a user table, whatever it decodes it attributes to a *registered* user `u`, namely the one whose
identity hash the identity header decrypts to, and the body was opened under the session sub-key of
**`u.key`** (and of no other key); without a user table no user is attributed -/
theorem c02_ss_udp_owner (C : Crypto) (ctx : Ctx) (hk : ctx.kind.is2022 = true) (now : Nat) (b p : Bytes) (a : Addr)
    (s : Session) (hd : decode C ctx .server now b = .ok (p, a, s)) :
    (requireEih ctx .server →
      ∃ u ∈ ctx.users, s.user = some u ∧
        u.hash = xorBytes (C.aesDec ctx.key ((b.drop 16).take 16)) (C.aesDec ctx.key (b.take 16)) ∧
        s.clientSessionId = rdBE ((C.aesDec ctx.key (b.take 16)).take 8) ∧
        ∃ body, C.openB ctx.kind.alg (aesSessionKey C ctx.kind u.key s.clientSessionId)
          ((C.aesDec ctx.key (b.take 16)).drop 4) [] (b.drop 32) = some body ∧
          bodyParse .server now s.clientSessionId s.packetId body (some u) = .ok (p, a, s)) ∧
    (¬ requireEih ctx .server → s.user = none) := by
  rw [decode_2022 C ctx hk] at hd
  split at hd
  · cases hd
  split at hd
  · cases hd
  rename_i sid pid body user hop
  have hs := bodyParse_server_session now sid pid body user p a s hd
  constructor
  · intro hreq
    have hx := (kind_eih _ hreq.2.1).1
    unfold opened at hop
    simp only [hx, hreq, if_true] at hop
    split at hop
    · cases hop
    · rename_i u hf
      obtain ⟨hmem, hhash⟩ := findUser_some _ _ _ hf
      cases ho : C.openB ctx.kind.alg (aesSessionKey C ctx.kind u.key (rdBE ((C.aesDec ctx.key (b.take 16)).take 8)))
          ((C.aesDec ctx.key (b.take 16)).drop 4) [] ((b.drop 16).drop 16) with
      | none => rw [ho] at hop; cases hop
      | some body' =>
        rw [ho] at hop
        simp only [Option.map_some, Option.some.injEq, Prod.mk.injEq] at hop
        obtain ⟨h1, h2, h3, h4⟩ := hop
        subst h1 h2 h3 h4
        refine ⟨u, hmem, by rw [hs], hhash, by rw [hs], body', ?_, ?_⟩
        · rw [hs]; simpa only [List.drop_drop] using ho
        · rw [hs]; rw [hs] at hd; exact hd
  · intro hne
    unfold opened at hop
    cases hx : xAlg ctx.kind with
    | none =>
      simp only [hx, hne, if_false] at hop
      cases ho : C.openB ctx.kind.alg (aesSessionKey C ctx.kind ctx.key (rdBE ((C.aesDec ctx.key (b.take 16)).take 8)))
          ((C.aesDec ctx.key (b.take 16)).drop 4) [] (b.drop 16) with
      | none => rw [ho] at hop; cases hop
      | some body' =>
        rw [ho] at hop
        simp only [Option.map_some, Option.some.injEq, Prod.mk.injEq] at hop
        rw [hs, ← hop.2.2.2]
    | some xa =>
      simp only [hx] at hop
      cases ho : C.openB xa (ctx.key.take 32) (b.take 24) [] (b.drop 24) with
      | none => rw [ho] at hop; cases hop
      | some body' =>
        rw [ho] at hop
        simp only [Option.map_some, Option.some.injEq, Prod.mk.injEq] at hop
        rw [hs, ← hop.2.2.2]

/-- **Key of a reply**: the reply for a session attributed to `u` is the AES block of the ids under
`u.key` followed by the body sealed under the session sub-key of `u.key` — never another user's key,
never the server key -/
theorem c02_ss_udp_reply_key (C : Crypto) (ctx : Ctx) (hkind : ctx.kind = .b3aes128 ∨ ctx.kind = .b3aes256)
    (s : Session) (u : User) (hu : s.user = some u) (addr : Addr) (item : Bytes) (r : Rand) :
    encode C ctx .server s addr item r =
      C.aesEnc u.key (be64 s.serverSessionId ++ be64 s.packetId) ++
        C.sealB ctx.kind.alg (aesSessionKey C ctx.kind u.key s.serverSessionId)
          ((be64 s.serverSessionId ++ be64 s.packetId).drop 4) [] (replyBody s addr item r) := by
  have hs : ctx.kind.supportEih = true := by rcases hkind with h | h <;> simp [h, Kind.supportEih]
  rw [encode_reply_aes C ctx hs]
  simp only [replyKey, hu]

/-- **No mix-up**: the reply to a decoded request (the association keeps the decoded session and
fills in its own server session id and packet id) is sealed under the key of the very user whose key
opened the request -/
theorem c02_ss_udp_reply_goes_to_owner (C : Crypto) (ctx : Ctx) (hkind : ctx.kind = .b3aes128 ∨ ctx.kind = .b3aes256)
    (hus : ctx.users ≠ []) (now : Nat) (b p : Bytes) (a : Addr) (s : Session)
    (hd : decode C ctx .server now b = .ok (p, a, s)) (ssid pid : Nat) (addr : Addr) (item : Bytes) (r : Rand) :
    ∃ u ∈ ctx.users, s.user = some u ∧
      (∃ body, C.openB ctx.kind.alg (aesSessionKey C ctx.kind u.key s.clientSessionId)
          ((C.aesDec ctx.key (b.take 16)).drop 4) [] (b.drop 32) = some body) ∧
      encode C ctx .server { s with serverSessionId := ssid, packetId := pid } addr item r =
        C.aesEnc u.key (be64 ssid ++ be64 pid) ++
          C.sealB ctx.kind.alg (aesSessionKey C ctx.kind u.key ssid) ((be64 ssid ++ be64 pid).drop 4) []
            (replyBody s addr item r) := by
  have hs : ctx.kind.supportEih = true := by rcases hkind with h | h <;> simp [h, Kind.supportEih]
  have hreq : requireEih ctx .server := ⟨rfl, hs, List.length_pos_iff.mpr hus⟩
  obtain ⟨u, hmem, hu, _, _, body, ho, _⟩ := (c02_ss_udp_owner C ctx (kind_eih _ hs).2.1 now b p a s hd).1 hreq
  refine ⟨u, hmem, hu, ⟨body, ho⟩, ?_⟩
  rw [c02_ss_udp_reply_key C ctx hkind ⟨s.clientSessionId, ssid, pid, s.user⟩ u hu]
  rfl

/-! ### 5. through the client's per-binding codec -/

/-- a datagram some 2022 decoder accepted is not empty -/
theorem decode_ok_nonempty (C : Crypto) (ctx : Ctx) (hk : ctx.kind.is2022 = true) (mode : Mode) (now : Nat) (b : Bytes)
    (x : Bytes × Addr × Session) (h : decode C ctx mode now b = .ok x) : b.isEmpty = false := by
  cases b with
  | nil => rw [decode_nil C ctx hk] at h; cases h
  | cons _ _ => rfl

/-- **The client's per-binding codec, both ways**, for every supported pairing of contexts.
Request: `ClientCodec.encode` steps the packet id by exactly one (`nextPacketId` of C12: strictly
increasing, never wrapping), keeps the session ids and the window, and the server decodes exactly
the payload and the address, under the client's session id and the new packet id, attributed to
the pairing's owner.  Reply: a reply of the server for this client session with a packet id the
window accepts is delivered with exactly the server's payload and address; the codec learns the
server session id and records the packet id. -/
theorem c02_client_codec_roundtrip (C : Crypto) (hC : C.Lawful) (cc sc : Ctx) (owner : Option User)
    (hp : Paired C cc sc owner) (k : ClientCodec) (hsid : k.session.clientSessionId < 2 ^ 64)
    (addr : Addr) (ha : addr.Accepted) (item : Bytes) (r : Rand) (now : Nat) (hr : RandOk r now)
    (hn : NonceOk sc.kind r) :
    (k.session.packetId + 1 < 2 ^ 64 →
      ∃ w k', ClientCodec.encode C cc k addr item r = (.ok w, k') ∧
        k'.session = { k.session with packetId := k.session.packetId + 1 } ∧ k'.filter = k.filter ∧
        nextPacketId k.session.packetId = some k'.session.packetId ∧
        decode C sc .server now w =
          .ok (item, addr, ⟨k.session.clientSessionId, 0, k.session.packetId + 1, owner⟩)) ∧
    (∀ s : Session, s.user = owner → s.clientSessionId = k.session.clientSessionId → s.serverSessionId < 2 ^ 64 →
      (k.filter.validate s.packetId (2 ^ 64 - 1)).2 = true →
      ClientCodec.decode C cc k now (encode C sc .server s addr item r) =
        (.ok (some (item, addr)),
          { session := { k.session with serverSessionId := s.serverSessionId },
            filter := (k.filter.validate s.packetId (2 ^ 64 - 1)).1 })) := by
  constructor
  · intro hroom
    refine ⟨encode C cc .client { k.session with packetId := k.session.packetId + 1 } addr item r,
      { k with session := { k.session with packetId := k.session.packetId + 1 } }, ?_, rfl, rfl, ?_, ?_⟩
    · unfold ClientCodec.encode
      rw [if_neg (by omega)]
    · simp only [nextPacketId, hroom, if_true]
    · exact request_paired C hC cc sc owner hp { k.session with packetId := k.session.packetId + 1 } hsid hroom addr ha
        item r now hr hn
  · intro s hown hmine hssid hfresh
    have hpid : s.packetId < 2 ^ 64 := by
      unfold PW.Filter.validate at hfresh
      by_cases hge : s.packetId ≥ 2 ^ 64 - 1
      · rw [if_pos hge] at hfresh; cases hfresh
      · omega
    have hd := reply_paired C hC cc sc owner hp s hown (by rw [hmine]; exact hsid) hssid hpid addr ha item r now hr hn
    have h22 : cc.kind.is2022 = true := by rw [hp.1]; exact hp.2.1
    have hne := decode_ok_nonempty C cc h22 .client now _ _ hd
    unfold ClientCodec.decode
    rw [hne, hd]
    simp only [Bool.false_eq_true, if_false, h22, not_true_eq_false, hmine, ne_eq, hfresh]

/-- legacy ciphers through the per-binding codec: no ids on the wire, the reply is delivered as decoded
and the codec is unchanged -/
theorem c02_client_codec_legacy (C : Crypto) (hC : C.Lawful) (ctx : Ctx) (hk : ctx.kind.is2022 = false)
    (k : ClientCodec) (m : Mode) (s : Session) (addr : Addr) (ha : addr.Accepted) (item : Bytes) (r : Rand)
    (hs : r.salt.length = ctx.kind.n) (now : Nat) :
    ClientCodec.decode C ctx k now (encode C ctx m s addr item r) = (.ok (some (item, addr)), k) := by
  have hd := c02_ss_udp_legacy_roundtrip C hC ctx hk m .client s addr ha item r hs now
  have hne : (encode C ctx m s addr item r).isEmpty = false := by
    have hn : 0 < ctx.kind.n := by cases hkk : ctx.kind <;> simp [Kind.n]
    have hl : 0 < (encode C ctx m s addr item r).length := by
      simp only [encode, hk, Bool.false_eq_true, not_false_eq_true, if_true, List.length_append]; omega
    cases he : encode C ctx m s addr item r with
    | nil => rw [he] at hl; cases hl
    | cons _ _ => rfl
  unfold ClientCodec.decode
  rw [hne, hd]
  simp [hk]

/-- the codec refuses to encode rather than let the packet id wrap (C12) -/
theorem c02_client_codec_exhausted (C : Crypto) (ctx : Ctx) (k : ClientCodec) (addr : Addr) (item : Bytes) (r : Rand)
    (h : k.session.packetId + 1 ≥ 2 ^ 64) : ClientCodec.encode C ctx k addr item r = (.err, k) := by
  unfold ClientCodec.encode
  rw [if_pos h]

/-- the server's `SessionCodec` hands the decoded request on, whole -/
theorem c02_session_decode_request (C : Crypto) (hC : C.Lawful) (cc sc : Ctx) (owner : Option User)
    (hp : Paired C cc sc owner) (s : Session) (hsid : s.clientSessionId < 2 ^ 64) (hpid : s.packetId < 2 ^ 64)
    (addr : Addr) (ha : addr.Accepted) (item : Bytes) (r : Rand) (now : Nat) (hr : RandOk r now)
    (hn : NonceOk sc.kind r) :
    sessionDecode C sc .server now (encode C cc .client s addr item r) =
      .ok (some (item, addr, ⟨s.clientSessionId, 0, s.packetId, owner⟩)) := by
  have hd := request_paired C hC cc sc owner hp s hsid hpid addr ha item r now hr hn
  unfold sessionDecode
  rw [decode_ok_nonempty C sc hp.2.1 .server now _ _ hd, hd]
  rfl

/-! ### 6. whole or not at all -/

/-- **Whole or not at all**: whatever a decoder returns for an honestly encoded datagram is the whole
payload and the address that were encoded — never a proper part, never another address — with the
ids and the owner that were encoded (both directions, every supported pairing) -/
theorem c02_ss_udp_whole_or_nothing (C : Crypto) (hC : C.Lawful) (cc sc : Ctx) (owner : Option User)
    (hp : Paired C cc sc owner) (s : Session)
    (hcsid : s.clientSessionId < 2 ^ 64) (hssid : s.serverSessionId < 2 ^ 64) (hpid : s.packetId < 2 ^ 64)
    (addr : Addr) (ha : addr.Accepted) (item : Bytes) (r : Rand) (now : Nat) (hr : RandOk r now)
    (hn : NonceOk sc.kind r) (p' : Bytes) (a' : Addr) (s' : Session) :
    (decode C sc .server now (encode C cc .client s addr item r) = .ok (p', a', s') →
      p' = item ∧ a' = addr ∧ s' = ⟨s.clientSessionId, 0, s.packetId, owner⟩) ∧
    (s.user = owner → decode C cc .client now (encode C sc .server s addr item r) = .ok (p', a', s') →
      p' = item ∧ a' = addr ∧ s' = ⟨s.clientSessionId, s.serverSessionId, s.packetId, none⟩) := by
  constructor
  · intro h
    rw [request_paired C hC cc sc owner hp s hcsid hpid addr ha item r now hr hn] at h
    simp only [Res.ok.injEq, Prod.mk.injEq] at h
    exact ⟨h.1.symm, h.2.1.symm, h.2.2.symm⟩
  · intro hown h
    rw [reply_paired C hC cc sc owner hp s hown hcsid hssid hpid addr ha item r now hr hn] at h
    simp only [Res.ok.injEq, Prod.mk.injEq] at h
    exact ⟨h.1.symm, h.2.1.symm, h.2.2.symm⟩

/-! ### 7. non-vacuity: concrete instances with the toy crypto -/

namespace Demo

def kA : Bytes := List.replicate 16 1
def kB : Bytes := List.replicate 16 2
def kS : Bytes := List.replicate 16 9
def alice : User := ⟨"alice", kA, (Crypto.toy.blake3Hash kA).take 16⟩
def bob : User := ⟨"bob", kB, (Crypto.toy.blake3Hash kB).take 16⟩
/-- multi-user AES server (two users) and bob's client -/
def srvM : Ctx := { kind := .b3aes128, key := kS, users := [alice, bob] }
def cliB : Ctx := { kind := .b3aes128, key := kB, identityKeys := [kS] }
/-- single-user AES pair -/
def aes1 : Ctx := { kind := .b3aes256, key := List.replicate 32 5 }
/-- XChaCha pair -/
def xch : Ctx := { kind := .b3chacha20, key := List.replicate 32 6 }
def target : Addr := .domain [101, 120, 46, 111, 114, 103] 443
def payload : Bytes := [10, 20, 30, 40]
def rnd : Rand := { nonce := List.replicate 24 3, padding := [0, 0, 0], now := 1000 }
def sess : Session := ⟨7, 11, 3, none⟩

example : Crypto.toy.Lawful := Crypto.toy_lawful
example : Paired Crypto.toy xch xch none := by decide
example : Paired Crypto.toy aes1 aes1 none := by decide
example : Paired Crypto.toy cliB srvM (some bob) := by decide
example : ¬ Paired Crypto.toy cliB srvM (some alice) := by decide
example : RandOk rnd 1010 ∧ NonceOk xch.kind rnd ∧ target.Accepted := by decide

/-- 1: XChaCha, both directions -/
example :
    decode Crypto.toy xch .server 1010 (encode Crypto.toy xch .client sess target payload rnd) =
        .ok (payload, target, ⟨7, 0, 3, none⟩) ∧
      decode Crypto.toy xch .client 1010 (encode Crypto.toy xch .server sess target payload rnd) =
        .ok (payload, target, ⟨7, 11, 3, none⟩) :=
  c02_ss_udp_2022_chacha_roundtrip Crypto.toy Crypto.toy_lawful xch xch (by decide) rfl rfl sess (by decide) (by decide)
    (by decide) target (by decide) payload rnd 1010 (by decide) (by decide)

/-- 2: AES reply, single user, and to bob's client for bob's session -/
example : decode Crypto.toy aes1 .client 1010 (encode Crypto.toy aes1 .server sess target payload rnd) =
    .ok (payload, target, ⟨7, 11, 3, none⟩) :=
  c02_ss_udp_2022_aes_server_to_client_roundtrip Crypto.toy Crypto.toy_lawful aes1 aes1 (by decide) rfl sess
    (Or.inl ⟨rfl, rfl⟩) (by decide) (by decide) (by decide) target (by decide) payload rnd 1010 (by decide)

example : decode Crypto.toy cliB .client 1010 (encode Crypto.toy srvM .server { sess with user := some bob } target payload rnd) =
    .ok (payload, target, ⟨7, 11, 3, none⟩) :=
  c02_ss_udp_2022_aes_server_to_client_roundtrip Crypto.toy Crypto.toy_lawful cliB srvM (by decide) rfl _
    (Or.inr ⟨bob, rfl, rfl⟩) (by decide) (by decide) (by decide) target (by decide) payload rnd 1010 (by decide)

/-- 3: bob's request at the two-user server is attributed to bob (the second entry of the table) -/
example : decode Crypto.toy srvM .server 1010 (encode Crypto.toy cliB .client sess target payload rnd) =
    .ok (payload, target, ⟨7, 0, 3, some bob⟩) :=
  c02_ss_udp_2022_eih_roundtrip Crypto.toy Crypto.toy_lawful cliB srvM (by decide) rfl kS kB rfl rfl rfl bob (by decide) rfl
    sess (by decide) (by decide) target (by decide) payload rnd 1010 (by decide)

example : decode Crypto.toy srvM .server 1010 (encode Crypto.toy cliB .client sess target payload rnd) =
    .ok (payload, target, ⟨7, 0, 3, some bob⟩) :=
  c02_ss_udp_2022_eih_roundtrip' Crypto.toy Crypto.toy_lawful cliB srvM (by decide) rfl kS kB rfl rfl rfl bob (by decide) rfl
    rfl (by decide) sess (by decide) (by decide) target (by decide) payload rnd 1010 (by decide)

/-- 4: the hypotheses of the ownership theorems hold for that datagram: it is bob's, opened under bob's key,
and the reply is sealed under bob's key -/
example : requireEih srvM .server := by decide
example : ∃ u ∈ srvM.users, (⟨7, 0, 3, some bob⟩ : Session).user = some u ∧ u.key = kB := by
  obtain ⟨u, hm, hu, _⟩ := (c02_ss_udp_owner Crypto.toy srvM rfl 1010
    (encode Crypto.toy cliB .client sess target payload rnd) payload target ⟨7, 0, 3, some bob⟩
    (c02_ss_udp_2022_eih_roundtrip Crypto.toy Crypto.toy_lawful cliB srvM (by decide) rfl kS kB rfl rfl rfl bob (by decide) rfl
      sess (by decide) (by decide) target (by decide) payload rnd 1010 (by decide))).1 (by decide)
  have hub : u = bob := by simpa using hu.symm
  exact ⟨u, hm, hu, by rw [hub]; rfl⟩
example : ∃ u ∈ srvM.users, u = bob ∧
    encode Crypto.toy srvM .server ⟨7, 11, 5, some u⟩ target payload rnd =
      Crypto.toy.aesEnc kB (be64 11 ++ be64 5) ++
        Crypto.toy.sealB srvM.kind.alg (aesSessionKey Crypto.toy srvM.kind kB 11) ((be64 11 ++ be64 5).drop 4) []
          (replyBody ⟨7, 0, 3, some bob⟩ target payload rnd) := by
  obtain ⟨u, hm, hu, _, he⟩ := c02_ss_udp_reply_goes_to_owner Crypto.toy srvM (by decide) (by decide) 1010
    (encode Crypto.toy cliB .client sess target payload rnd) payload target ⟨7, 0, 3, some bob⟩
    (c02_ss_udp_2022_eih_roundtrip Crypto.toy Crypto.toy_lawful cliB srvM (by decide) rfl kS kB rfl rfl rfl bob (by decide) rfl
      sess (by decide) (by decide) target (by decide) payload rnd 1010 (by decide)) 11 5 target payload rnd
  have hub : u = bob := by simpa using hu.symm
  subst hub
  exact ⟨bob, hm, rfl, he⟩

/-- 5: the per-binding codec: room for a next packet id, a reply of this session with a fresh id -/
def codec : ClientCodec := { session := ⟨7, 0, 2, none⟩ }
example : codec.session.packetId + 1 < 2 ^ 64 := by decide
theorem codec_fresh : (codec.filter.validate 3 (2 ^ 64 - 1)).2 = true := by
  set_option maxRecDepth 100000 in decide

example : ClientCodec.decode Crypto.toy cliB codec 1010
      (encode Crypto.toy srvM .server ⟨7, 11, 3, some bob⟩ target payload rnd) =
    (.ok (some (payload, target)),
      { session := ⟨7, 11, 2, none⟩, filter := (codec.filter.validate 3 (2 ^ 64 - 1)).1 }) :=
  (c02_client_codec_roundtrip Crypto.toy Crypto.toy_lawful cliB srvM (some bob) (by decide) codec (by decide) target
    (by decide) payload rnd 1010 (by decide) (by decide)).2 ⟨7, 11, 3, some bob⟩ rfl rfl (by decide) codec_fresh

end Demo

/-! ### the hypotheses cannot be dropped -/

namespace Demo

/-- padding of 65536 bytes that starts with an encoded address: the length field wraps to 0 and the
server delivers **another target and another payload** (general statement: `request_padding_overflow`) -/
example :
    decode Crypto.toy aes1 .server 1010 (encode Crypto.toy aes1 .client sess target payload
        { rnd with padding := Socks5Addr.encode (.v4 [9, 9, 9, 9] 53) ++ List.replicate 65529 0 }) =
      .ok (List.replicate 65529 0 ++ Socks5Addr.encode target ++ payload, .v4 [9, 9, 9, 9] 53, ⟨7, 0, 3, none⟩) :=
  request_padding_overflow Crypto.toy Crypto.toy_lawful aes1 aes1 none (by decide) sess (by decide) (by decide) target
    payload _ 1010 (by decide) (by decide) (by decide) [] (List.replicate 65529 0) (.v4 [9, 9, 9, 9] 53) (by decide) rfl
    (by decide) 1 (by rw [List.length_append, List.length_replicate]; rfl)

/-- a timestamp that does not fit 8 bytes is written truncated: the receiver, with the very same clock,
sees 0 and refuses -/
example : decode Crypto.toy aes1 .server (2 ^ 64)
    (encode Crypto.toy aes1 .client sess target payload { rnd with now := 2 ^ 64 }) = .err := by
  set_option maxRecDepth 100000 in decide

/-- a 23-byte nonce: the receiver cuts the datagram at 24 and cannot open it -/
example : decode Crypto.toy xch .server 1010
    (encode Crypto.toy xch .client sess target payload { rnd with nonce := List.replicate 23 3 }) = .err := by
  set_option maxRecDepth 100000 in decide

/-- a session id beyond 8 bytes comes out reduced modulo 2^64: another session -/
example : decode Crypto.toy aes1 .server 1010
    (encode Crypto.toy aes1 .client ⟨2 ^ 64 + 7, 0, 3, none⟩ target payload rnd) =
      .ok (payload, target, ⟨7, 0, 3, none⟩) := by
  set_option maxRecDepth 100000 in decide

/-- a domain name of 256 bytes (not `Accepted`): the length byte wraps to 0, the server reads an empty
name, a wrong port and the name as payload -/
example : decode Crypto.toy aes1 .server 1010
    (encode Crypto.toy aes1 .client sess (.domain (List.replicate 256 97) 80) [1] rnd) =
      .ok (List.replicate 254 97 ++ [0, 80, 1], .domain [] 24929, ⟨7, 0, 3, none⟩) := by
  set_option maxRecDepth 1000000 in decide

end Demo

end Octo.SsUdp
