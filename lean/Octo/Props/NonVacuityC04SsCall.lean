import Octo.Props.C04SsCall
/-!
# Non-vacuity of `C04SsCall.lean`
`c04_ss_legacy_client_framed`, `c04_ss_legacy_server_framed`, `c04_ss_legacy_server_framed_chunks` are instantiated
in the file itself; `c04_ws_message_is_a_read` has no hypotheses.  The remaining four, on the file's `Demo` data.
-/
namespace Octo.Ss
open Octo.Fr

theorem respPieces_flat : (Demo.respPieces.take 2 ++ Demo.respPieces.drop 2).flatten = (encodeAll Crypto.toy Demo.ctx Demo.ss {} Demo.respWrites).1 := by
  decide +kernel

/-- after the first two of the three reads -/
example :
    let F := feedAll (clientCall Crypto.toy Demo.ctx Demo.env) (cliInit Demo.cs) (Demo.respPieces.take 2)
    let R := run (unit Crypto.toy Demo.ctx Demo.env) ⟨none, Demo.cs⟩ (Demo.respPieces.take 2).flatten
    R.failed = false ∧ evClean F.2 = true ∧ F.1 = ⟨R.st, R.buf, false⟩ ∧ evData F.2 = Ev.bytes R.out ∧
      clientCall Crypto.toy Demo.ctx Demo.env F.1.st F.1.buf = ⟨F.1.st, F.1.buf, .more⟩ :=
  c04_ss_legacy_client_never_stalls Crypto.toy Crypto.toy_lawful Demo.ctx rfl Demo.ss Demo.cs Demo.env rfl (by decide)
    Demo.respWrites (Demo.respPieces.take 2) (Demo.respPieces.drop 2) respPieces_flat

/-- the hypothesis is an honest stream cut short (no failure so far) -/
example := c04_ss_legacy_client_single Crypto.toy Crypto.toy_lawful Demo.ctx rfl Demo.cs Demo.env (Demo.respPieces.take 2)
  (by decide +kernel)

theorem demo_req : LegacyReq Crypto.toy Demo.ctx Demo.env Demo.ss Demo.ad [7, 8, 9, 10] Demo.req :=
  legacyReq_encodeAll Crypto.toy Crypto.toy_lawful Demo.ctx rfl Demo.cs Demo.ss Demo.env Demo.ad rfl rfl (by decide)
    ([7, 8, 9], {}) [([], {}), ([10], {})]

example :=
  c04_ss_legacy_server_never_stalls Crypto.toy Crypto.toy_lawful Demo.ctx rfl Demo.ss Demo.env Demo.ad (by decide) rfl
    [7, 8, 9, 10] Demo.req demo_req (Demo.reqPieces.take 1) (Demo.reqPieces.drop 1) (by decide +kernel)

example :=
  c04_ss_legacy_server_single Crypto.toy Crypto.toy_lawful Demo.ctx rfl Demo.ss Demo.env Demo.ad (by decide) rfl
    [7, 8, 9, 10] Demo.req demo_req Demo.reqPieces (by decide +kernel)

end Octo.Ss
