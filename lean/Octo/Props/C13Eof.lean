import Octo.Props.C13Socks5
import Octo.Props.C13Http
/-!
# C13 / C07 / C15 — the application closes inside its local handshake

`Hs.socks5AtEof` / `Hs.httpAtEof` are the outcome of the local handshake when the stream ends after the bytes
received so far (the Rust: `FramedRead` yields `None` or a left-over error at end of stream; before the repair
`e9ec3ff` the `None` was `unwrap`ped — a panic of the handshake task, found by the early-close generator).

* `c13_eof_always_decides` — for *all* bytes: at end of stream the handshake has ended (never `.wait`).
* `c13_socks5_eof_tunnel_only_if_decided`, `c13_http_eof_tunnel_only_if_decided` — for *all* bytes: a tunnel at end
  of stream is exactly the tunnel the bytes received had already decided; an incomplete handshake opens none.
* `c13_socks5_eof_inside_request_refused` — a well-formed CONNECT cut anywhere strictly inside, then closed: refused,
  and the only thing ever answered is the method selection (none if the cut is inside the greeting).
-/
namespace Octo
open Octo.Hs

theorem c13_eof_always_decides (greeting request b : Bytes) (bound : Addr) :
    socks5AtEof greeting request bound ≠ .wait ∧ httpAtEof b ≠ .wait := by
  constructor
  · unfold socks5AtEof
    cases h : socks5Handshake greeting request bound <;> simp
    cases Socks5.decodeInitialRequest greeting <;> simp
  · unfold httpAtEof
    cases h : httpHandshake b <;> simp

theorem c13_socks5_eof_tunnel_only_if_decided (greeting request : Bytes) (bound a : Addr) (n : Nat) (r : Bytes)
    (h : socks5AtEof greeting request bound = .tunnel a n r) :
    socks5Handshake greeting request bound = .tunnel a n r := by
  unfold socks5AtEof at h
  cases h' : socks5Handshake greeting request bound <;> rw [h'] at h <;> simp at h ⊢
  · exact h
  · cases hd : Socks5.decodeInitialRequest greeting <;> rw [hd] at h <;> simp at h

theorem c13_http_eof_tunnel_only_if_decided (b : Bytes) (a : Addr) (n : Nat) (r : Bytes)
    (h : httpAtEof b = .tunnel a n r) : httpHandshake b = .tunnel a n r := by
  unfold httpAtEof at h
  cases h' : httpHandshake b <;> rw [h'] at h <;> simp at h ⊢
  exact h

/-- with `c13_socks5_tunnel_is_admitted`: also at end of stream a tunnel only goes to an admitted address -/
theorem c13_socks5_eof_tunnel_is_admitted (greeting request : Bytes) (bound a : Addr) (n : Nat) (r : Bytes)
    (h : socks5AtEof greeting request bound = .tunnel a n r) : a.Accepted :=
  c13_socks5_tunnel_is_admitted greeting request bound a n r (c13_socks5_eof_tunnel_only_if_decided _ _ _ _ _ _ h)

/-- an undecided handshake that is closed is refused, having answered at most the method selection -/
theorem c13_socks5_eof_undecided_refused (greeting request : Bytes) (bound : Addr)
    (h : socks5Handshake greeting request bound = .wait) :
    socks5AtEof greeting request bound = .refused [] ∨
      socks5AtEof greeting request bound = .refused (Socks5.encodeInitialResponse 0) := by
  unfold socks5AtEof; rw [h]; simp
  cases Socks5.decodeInitialRequest greeting <;> simp

theorem c13_http_eof_undecided_refused (b : Bytes) (h : httpHandshake b = .wait) : httpAtEof b = .refused [] := by
  unfold httpAtEof; rw [h]

-- non-vacuity: a greeting alone, then the close — refused after the method selection; half a greeting — nothing said
example : socks5AtEof [5, 1, 0] [] (.v4 [0, 0, 0, 0] 0) = .refused [5, 0] := by decide
example : socks5AtEof [5, 2, 0] [] (.v4 [0, 0, 0, 0] 0) = .refused [] := by decide
example : socks5AtEof [5, 1, 0] [5, 1, 0, 1, 127, 0, 0] (.v4 [0, 0, 0, 0] 0) = .refused [5, 0] := by decide
example : socks5Handshake [5, 1, 0] [5, 1, 0, 1, 127, 0, 0] (.v4 [0, 0, 0, 0] 0) = .wait := by decide

end Octo
