import Octo.Props.C03
import Octo.Model.SsUdp
import Octo.Proofs.Toy
/-!
# C03 — more `Model = Spec` ties

The builders of `Octo/Spec/Wire.lean` that no theorem of `C03.lean` mentions — `Spec.legacyStream`,
`Spec.responseFixed`, `Spec.vmessChunkAuthLen` — and the Shadowsocks datagram layout (for which the Spec file
has no builder: the layout is written out in the statements).

Argument conventions, Spec ↔ model:
* `Spec.legacyStream C cipher password salt chunks` takes the *password* and the list of *chunk plaintexts*; the
  model takes the derived key in `ctx.key` and a list of writes.  Translation: `ctx.key` is
  `Ss.opensslBytesToKey` of the password (what `ctxOfConfig` does), the chunk list is `streamChunks`: every write
  cut by `Ss.splitChunks` at the sender limit, the first write prefixed with the target address.
* `Spec.stream2022 … psks withEih salt fixedPlain varPlain chunks` takes the header plaintexts; the model builds
  them.  Translation: `fixedPlain = Spec.responseFixed 1 now requestSalt len`, `varPlain` = the first `len` bytes
  of the first write, `len = min |write| 0xffff`, `psks = [key]` with `key` = the user's key under a user table.
* `Spec.vmessChunkAuthLen C dataKey dataIv lenKey lenIv count payload` takes the *raw* length key (it derives
  `KDF16(lenKey, "auth_len")` itself) and one count for both AEAD operations; the model's `Body` holds the derived
  key in `sizeKey` and two counters that move together.
-/
namespace Octo
open Octo.Ss

/-! ### Shadowsocks legacy stream -/

theorem spec_chunkStream_append (C : Crypto) (alg : Alg) (key : Bytes) (xs ys : List Bytes) : ∀ (c : Nat),
    Spec.chunkStream C alg key c (xs ++ ys) =
      Spec.chunkStream C alg key c xs ++ Spec.chunkStream C alg key (c + 2 * xs.length) ys := by
  induction xs with
  | nil => intro c; simp [Spec.chunkStream]
  | cons x xs ih =>
    intro c
    simp only [List.cons_append, Spec.chunkStream, ih (c + 2), List.append_assoc, List.length_cons]
    have : c + 2 + 2 * xs.length = c + 2 * (xs.length + 1) := by omega
    rw [this]

/-- the chunk plaintexts of a sequence of writes: each write cut at the sender limit of the cipher kind -/
def streamChunks (k : Kind) (writes : List Bytes) : List Bytes :=
  writes.flatMap (splitChunks (chunkLimit k.payloadLimit))

/-- **every write after the first** (any kind, either direction) continues the chunk stream where the
previous write left the nonce counter -/
theorem encodeAll_later_eq_spec (C : Crypto) (ctx : Ctx) (s : Sess) : ∀ (ws : List (Bytes × EncRand)) (a : Auth) (c : Nat),
    a.At c → (Ss.encodeAll C ctx s ⟨some a⟩ ws).1 = Spec.chunkStream C a.alg a.key c (streamChunks ctx.kind (ws.map (·.1))) := by
  intro ws
  induction ws with
  | nil => intro a c _; rfl
  | cons w ws ih =>
    intro a c h
    obtain ⟨w, r⟩ := w
    obtain ⟨s1, h1, k1, k2⟩ := c03_ss_chunks_eq_spec C (splitChunks (chunkLimit ctx.kind.payloadLimit) w) a c h
    simp only [Ss.encodeAll, Ss.encode, Ss.encPayload, List.map_cons, streamChunks, List.flatMap_cons]
    rw [spec_chunkStream_append, ih _ _ h1, s1, k1, k2]
    rfl

theorem kind_n_keyLen (k : Kind) : k.n = k.alg.keyLen := by cases k <;> rfl
theorem kind_legacy_no_eih (k : Kind) (h : k.is2022 = false) : k.supportEih = false := by cases k <;> simp_all [Kind.is2022, Kind.supportEih]
theorem kind_n_cases (k : Kind) : k.n = 16 ∨ k.n = 32 := by cases k <;> simp [Kind.n]

/-- what the first write of a session carries in front of the application bytes: the target address
(client), nothing (server) -/
def firstPrefix (s : Sess) : Bytes :=
  match s.mode with
  | .client => (match s.address with | some ad => Socks5Addr.encode ad | none => [])
  | .server => []

/-- the first write of a legacy session: salt, then the chunks of (prefix ‖ application bytes) -/
theorem encode_legacy_first (C : Crypto) (ctx : Ctx) (hk : ctx.kind.is2022 = false) (s : Sess) (first : Bytes) (r : EncRand) :
    Ss.encode C ctx s {} first r =
      (s.salt ++ (encPayload C (newAuth C ctx.kind ctx.key s.salt) ctx.kind.payloadLimit (firstPrefix s ++ first)).1,
        ⟨some (encPayload C (newAuth C ctx.kind ctx.key s.salt) ctx.kind.payloadLimit (firstPrefix s ++ first)).2⟩) := by
  have hne := kind_legacy_no_eih _ hk
  unfold Ss.encode firstPrefix
  cases s.mode <;> simp [hk, hne] <;> exact ⟨rfl, rfl⟩

/-- **Shadowsocks AEAD (SIP004) stream**: everything a legacy session writes — first write and all later ones,
either direction — is `Spec.legacyStream` of the configured password, the session's salt, and the chunk
plaintexts `streamChunks` (writes cut at 0x3FFF; the client's first one starts with the target address) -/
theorem c03_ss_legacy_stream_eq_spec (C : Crypto) (hC : C.Lawful) (ctx : Ctx) (hk : ctx.kind.is2022 = false)
    (password : Bytes) (hkey : ctx.key = Ss.opensslBytesToKey C ctx.kind.n password)
    (s : Sess) (hsalt : s.salt.length = ctx.kind.n) (first : Bytes) (r0 : EncRand) (later : List (Bytes × EncRand)) :
    (Ss.encodeAll C ctx s {} ((first, r0) :: later)).1 =
      Spec.legacyStream C (specCipher ctx.kind) password s.salt
        (streamChunks ctx.kind ((firstPrefix s ++ first) :: later.map (·.1))) := by
  have h0 := newAuth_at_zero C ctx.kind ctx.key s.salt
  have hkl := kind_n_keyLen ctx.kind
  have hkeyEq : (newAuth C ctx.kind ctx.key s.salt).key =
      C.hkdfSha1 s.salt (Spec.evpBytesToKey C ctx.kind.alg.keyLen password) (Spec.ascii "ss-subkey") ctx.kind.alg.keyLen := by
    simp only [newAuth, hk, Bool.false_eq_true, if_false, Auth.new]
    rw [List.take_of_length_le (by rw [hC.hkdf_len]; omega), hkey, c03_ss_evp_key C hC _ (kind_n_cases _), hsalt, hkl]
    rfl
  have halg : (newAuth C ctx.kind ctx.key s.salt).alg = ctx.kind.alg := by simp [newAuth, hk, Auth.new]
  obtain ⟨s1, h1, k1, k2⟩ := c03_ss_chunks_eq_spec C
    (splitChunks (chunkLimit ctx.kind.payloadLimit) (firstPrefix s ++ first)) _ 0 h0
  simp only [Ss.encodeAll, encode_legacy_first C ctx hk, Ss.encPayload,
    Spec.legacyStream, specCipher, streamChunks, List.flatMap_cons]
  rw [spec_chunkStream_append, encodeAll_later_eq_spec C ctx s later _ _ h1, s1, k1, k2, hkeyEq, halg]
  simp only [Nat.zero_add, List.append_assoc, streamChunks]

/-- the client's form, with the address spelled out -/
theorem c03_ss_legacy_client_stream_eq_spec (C : Crypto) (hC : C.Lawful) (ctx : Ctx) (hk : ctx.kind.is2022 = false)
    (password : Bytes) (hkey : ctx.key = Ss.opensslBytesToKey C ctx.kind.n password)
    (s : Sess) (hm : s.mode = .client) (ad : Addr) (ha : s.address = some ad) (hsalt : s.salt.length = ctx.kind.n)
    (first : Bytes) (r0 : EncRand) (later : List (Bytes × EncRand)) :
    (Ss.encodeAll C ctx s {} ((first, r0) :: later)).1 =
      Spec.legacyStream C (specCipher ctx.kind) password s.salt
        (streamChunks ctx.kind ((Socks5Addr.encode ad ++ first) :: later.map (·.1))) := by
  rw [c03_ss_legacy_stream_eq_spec C hC ctx hk password hkey s hsalt first r0 later]
  simp [firstPrefix, hm, ha]

/-! ### Shadowsocks 2022 response -/

/-- the key a server seals its response under: the key of the user the request was attributed to, else the
server key -/
def responseKey (ctx : Ctx) (s : Sess) : Bytes :=
  match s.user with
  | some u => u.key
  | none => ctx.key

/-- the first write of a 2022 server session, as the model builds it -/
theorem encode_2022_response_first (C : Crypto) (ctx : Ctx) (hk : ctx.kind.is2022 = true) (s : Sess) (hm : s.mode = .server)
    (item : Bytes) (r : EncRand) :
    Ss.encode C ctx s {} item r =
      (s.salt ++ (newHeader C (newAuth C ctx.kind (responseKey ctx s) s.salt) item .server s.requestSalt r.now).1 ++
        (encPayload C (newHeader C (newAuth C ctx.kind (responseKey ctx s) s.salt) item .server s.requestSalt r.now).2.2
          ctx.kind.payloadLimit
          (newHeader C (newAuth C ctx.kind (responseKey ctx s) s.salt) item .server s.requestSalt r.now).2.1).1,
       ⟨some (encPayload C (newHeader C (newAuth C ctx.kind (responseKey ctx s) s.salt) item .server s.requestSalt r.now).2.2
          ctx.kind.payloadLimit
          (newHeader C (newAuth C ctx.kind (responseKey ctx s) s.salt) item .server s.requestSalt r.now).2.1).2⟩) := by
  unfold Ss.encode responseKey
  cases hu : s.user <;> simp [hk, hm]

/-- **Shadowsocks 2022 response, whole stream**: everything a server session writes is SIP022's
`salt ‖ AEAD(type 1 ‖ time ‖ request salt ‖ length) ‖ AEAD(first length bytes) ‖ chunks` — no identity headers,
session subkey from (the user's) key and the server's own salt, nonces 0, 1, 2, … -/
theorem c03_ss2022_response_stream_eq_spec (C : Crypto) (ctx : Ctx) (hk : ctx.kind.is2022 = true) (s : Sess)
    (hm : s.mode = .server) (rs : Bytes) (hr : s.requestSalt = some rs) (first : Bytes) (r : EncRand)
    (later : List (Bytes × EncRand)) :
    (Ss.encodeAll C ctx s {} ((first, r) :: later)).1 =
      Spec.stream2022 C (specCipher ctx.kind) [responseKey ctx s] false s.salt
        (Spec.responseFixed 1 r.now rs (min first.length 0xffff))
        (first.take (min first.length 0xffff))
        (streamChunks ctx.kind (first.drop (min first.length 0xffff) :: later.map (·.1))) := by
  have h0 := newAuth_at_zero C ctx.kind (responseKey ctx s) s.salt
  obtain ⟨s1, a1, k1, k2⟩ := c03_ss_nonce_sequence C (newAuth C ctx.kind (responseKey ctx s) s.salt) 0 h0
    ([Mode.server.toU8] ++ be64 r.now ++ rs ++ be16 (min first.length 0xffff))
  obtain ⟨s2, a2, k3, k4⟩ := c03_ss_nonce_sequence C _ 1 a1 (first.take (min first.length 0xffff))
  obtain ⟨s3, a3, k5, k6⟩ := c03_ss_chunks_eq_spec C (splitChunks (chunkLimit ctx.kind.payloadLimit)
      (first.drop (min first.length 0xffff))) _ 2 a2
  have hkey : (newAuth C ctx.kind (responseKey ctx s) s.salt).key =
      Spec.sessionSubkey C (specCipher ctx.kind) (responseKey ctx s) s.salt := by
    simp [newAuth, hk, Auth.new, Spec.sessionSubkey, specCipher, sessionSubkeyCtx, Spec.ascii]
  have halg : (newAuth C ctx.kind (responseKey ctx s) s.salt).alg = ctx.kind.alg := by simp [newAuth, hk, Auth.new]
  simp only [Ss.encodeAll, encode_2022_response_first C ctx hk s hm, hr, newHeader, Option.getD, Ss.encPayload,
    Spec.stream2022, Spec.responseFixed, streamChunks, List.flatMap_cons, List.getLast?_singleton, Bool.false_eq_true, if_false,
    List.append_nil]
  rw [spec_chunkStream_append, encodeAll_later_eq_spec C ctx s later _ _ a3, s1, s2, s3, k1, k2, k3, k4, k5, k6, k3, k4, k1, k2,
    hkey, halg]
  simp [specCipher, List.append_assoc, u8, Mode.toU8, streamChunks]

/-- **Shadowsocks 2022 response, first write** = salt ‖ sealed `Spec.responseFixed` ‖ sealed variable part ‖ chunks -/
theorem c03_ss2022_response_eq_spec (C : Crypto) (ctx : Ctx) (hk : ctx.kind.is2022 = true) (s : Sess)
    (hm : s.mode = .server) (rs : Bytes) (hr : s.requestSalt = some rs) (item : Bytes) (r : EncRand) :
    (Ss.encode C ctx s {} item r).1 =
      Spec.stream2022 C (specCipher ctx.kind) [responseKey ctx s] false s.salt
        (Spec.responseFixed 1 r.now rs (min item.length 0xffff))
        (item.take (min item.length 0xffff))
        (splitChunks (chunkLimit ctx.kind.payloadLimit) (item.drop (min item.length 0xffff))) := by
  have h := c03_ss2022_response_stream_eq_spec C ctx hk s hm rs hr item r []
  simp only [Ss.encodeAll, List.append_nil, List.map_nil, streamChunks, List.flatMap_cons, List.flatMap_nil] at h
  exact h

/-! ### VMess body chunk -/

theorem be16_mod65536 (n : Nat) : be16 (n % 65536) = be16 n := by
  have h1 : n % 65536 / 256 % 256 = n / 256 % 256 := by omega
  have h2 : n % 65536 % 256 = n % 256 := by omega
  simp only [be16, u8, h1, h2]

/-- **VMess body chunk, authenticated length, no padding** (options ChunkStream | AuthenticatedLength,
AES-128-GCM): for a body codec whose two counters stand at the same value — as they do from `Body.new` on —
`encode_chunk` emits exactly `Spec.vmessChunkAuthLen` of the first `n` source bytes, `n` = the sender limit
2048 − 16 − 18; the rest of the source is returned, both counters step once.
(`lenKey` = the raw key of which the codec holds `KDF16(lenKey, "auth_len")`.) -/
theorem c03_vmess_body_chunk_eq_spec (C : Crypto) (b : Vmess.Body) (lenKey : Bytes)
    (hsize : b.size = .auth) (hpad : b.globalPadding = false) (hsec : b.sec = .aes128gcm)
    (hcount : b.sizeCount = b.count)
    (hsk : b.sizeKey = (Spec.vmessKdf C lenKey [Spec.ascii "auth_len"]).take 16) (src pad : Bytes) :
    b.encodeChunk C src pad =
      (Spec.vmessChunkAuthLen C b.key b.iv lenKey b.sizeIv b.count
          (src.take (min src.length (Consts.vmessPayloadLimit - 34))),
        src.drop (min src.length (Consts.vmessPayloadLimit - 34)),
        { b with count := b.count + 1, sizeCount := b.sizeCount + 1 }) := by
  have hn : min src.length (Consts.vmessPayloadLimit - 16 - 18 - 0) = min src.length (Consts.vmessPayloadLimit - 34) := by
    simp [Consts.vmessPayloadLimit]
  have hlen : (src.take (min src.length (Consts.vmessPayloadLimit - 34))).length =
      min src.length (Consts.vmessPayloadLimit - 34) := by
    rw [List.length_take]; omega
  simp only [Vmess.Body.encodeChunk, Vmess.Body.nextPadding, hpad, Bool.false_eq_true, if_false, Vmess.Body.sizeBytes, hsize,
    if_true, Vmess.Body.encodeSize, hn, Spec.vmessChunkAuthLen, Nonce.counting, be16_mod65536, hsec, Vmess.Security.alg,
    hsk, hcount, hlen, List.take_zero, List.append_nil, Nat.add_zero, Nat.add_sub_cancel]

/-- the same for the codec `Body.new` creates (first chunk: count 0): option mask with AuthenticatedLength and
without GlobalPadding, security AES-128-GCM; data key = first 16 bytes of the direction's key, length key and
length IV = the *request* key and IV -/
theorem c03_vmess_body_first_chunk_eq_spec (C : Crypto) (hC : C.Lawful) (mask : Nat)
    (hauth : Vmess.hasOpt mask Vmess.optAuthLen = true) (hnopad : Vmess.hasOpt mask Vmess.optGlobalPadding = false)
    (key iv : Bytes) (s : Vmess.Session) (src pad : Bytes) :
    ((Vmess.Body.new C mask .aes128gcm key iv s).encodeChunk C src pad).1 =
      Spec.vmessChunkAuthLen C (key.take 16) iv s.reqKey s.reqIv 0
        (src.take (min src.length (Consts.vmessPayloadLimit - 34))) := by
  rw [c03_vmess_body_chunk_eq_spec C (Vmess.Body.new C mask .aes128gcm key iv s) s.reqKey
    (by simp [Vmess.Body.new, hauth]) (by simp [Vmess.Body.new, hnopad]) rfl rfl
    (by simp [Vmess.Body.new, Vmess.cipherKey, vmess_kdf16 C hC, Vmess.saltAuthLen, Vmess.str, Spec.ascii, List.take_take])]
  rfl

/-- the counters stay together: after any chunk of such a codec the hypotheses of
`c03_vmess_body_chunk_eq_spec` hold again, with the count one higher -/
theorem vmess_body_chunk_invariant (C : Crypto) (b : Vmess.Body) (lenKey : Bytes)
    (hsize : b.size = .auth) (hpad : b.globalPadding = false) (hsec : b.sec = .aes128gcm)
    (hcount : b.sizeCount = b.count)
    (hsk : b.sizeKey = (Spec.vmessKdf C lenKey [Spec.ascii "auth_len"]).take 16) (src pad : Bytes) :
    let b' := (b.encodeChunk C src pad).2.2
    b'.size = .auth ∧ b'.globalPadding = false ∧ b'.sec = .aes128gcm ∧ b'.sizeCount = b'.count ∧
      b'.sizeKey = (Spec.vmessKdf C lenKey [Spec.ascii "auth_len"]).take 16 ∧ b'.count = b.count + 1 ∧
      b'.key = b.key ∧ b'.iv = b.iv ∧ b'.sizeIv = b.sizeIv := by
  rw [c03_vmess_body_chunk_eq_spec C b lenKey hsize hpad hsec hcount hsk]
  simp only [hsize, hpad, hsec, hcount, hsk, and_self]

/-! ### Shadowsocks datagrams: the byte layout -/

/-- SIP022 UDP identity headers, transcribed from the document: with `psks` = iPSKs followed by the user PSK,
header i = AES-ECB(iPSK_i, BLAKE3(PSK_{i+1})[0..16] XOR (session id ‖ packet id)) -/
def Spec.udpIdentityHeaders (C : Crypto) (sidPid : Bytes) : List Bytes → Bytes
  | a :: b :: rest => C.aesEnc a (xorBytes ((C.blake3Hash b).take 16) sidPid) ++ Spec.udpIdentityHeaders C sidPid (b :: rest)
  | _ => []

theorem ssudp_withEih_eq_spec (C : Crypto) (key sidPid : Bytes) : ∀ (iks : List Bytes),
    SsUdp.withEih C key sidPid iks = Spec.udpIdentityHeaders C sidPid (iks ++ [key]) := by
  intro iks
  induction iks with
  | nil => rfl
  | cons a rest ih =>
    cases rest with
    | nil => simp [SsUdp.withEih, Spec.udpIdentityHeaders]
    | cons b rest =>
      simp only [SsUdp.withEih, List.cons_append, Spec.udpIdentityHeaders]
      rw [ih]
      rfl

/-- **legacy datagram** (SIP004), either direction: `salt ‖ AEAD(HKDF-SHA1 subkey of the salt, nonce 0, address ‖ payload)` -/
theorem c03_ss_udp_layout_legacy (C : Crypto) (ctx : Ctx) (hk : ctx.kind.is2022 = false) (mode : Mode) (s : SsUdp.Session)
    (addr : Addr) (item : Bytes) (r : SsUdp.Rand) :
    SsUdp.encode C ctx mode s addr item r =
      r.salt ++ C.sealB ctx.kind.alg
        ((C.hkdfSha1 r.salt ctx.key (Spec.ascii "ss-subkey") r.salt.length).take ctx.kind.alg.keyLen)
        (Spec.leNonce 0) [] (Socks5Addr.encode addr ++ item) := by
  obtain ⟨s1, _, _, _⟩ := c03_ss_nonce_sequence C (newAuth C ctx.kind ctx.key r.salt) 0 (newAuth_at_zero C _ _ _)
    (Socks5Addr.encode addr ++ item)
  unfold SsUdp.encode
  simp only [hk, Bool.false_eq_true, not_false_eq_true, if_true, s1]
  simp [newAuth, hk, Auth.new, ssSubkeyInfo, Spec.ascii]

/-- **AES-2022 request datagram**: `AES(header key, sid ‖ pid) ‖ identity headers ‖
AEAD(session subkey(key, sid), nonce = (sid ‖ pid)[4..16], 0 ‖ time ‖ padding length ‖ padding ‖ address ‖ payload)`;
header key = the first iPSK if there is one, else the key -/
theorem c03_ss_udp_layout_aes_request (C : Crypto) (ctx : Ctx) (hk : ctx.kind = .b3aes128 ∨ ctx.kind = .b3aes256)
    (s : SsUdp.Session) (addr : Addr) (item : Bytes) (r : SsUdp.Rand) :
    SsUdp.encode C ctx .client s addr item r =
      C.aesEnc ((ctx.identityKeys ++ [ctx.key]).headD []) (be64 s.clientSessionId ++ be64 s.packetId) ++
      Spec.udpIdentityHeaders C (be64 s.clientSessionId ++ be64 s.packetId) (ctx.identityKeys ++ [ctx.key]) ++
      C.sealB ctx.kind.alg
        (Spec.sessionSubkey C (specCipher ctx.kind) ctx.key (be64 s.clientSessionId))
        ((be64 s.clientSessionId ++ be64 s.packetId).drop 4) []
        ([(0 : UInt8)] ++ be64 r.now ++ be16 r.padding.length ++ r.padding ++ Socks5Addr.encode addr ++ item) := by
  have h22 : ctx.kind.is2022 = true := by rcases hk with h | h <;> rw [h] <;> rfl
  have hx : SsUdp.xAlg ctx.kind = none := by rcases hk with h | h <;> rw [h] <;> rfl
  have he : ctx.kind.supportEih = true := by rcases hk with h | h <;> rw [h] <;> rfl
  unfold SsUdp.encode
  simp only [h22, not_true_eq_false, if_false, hx, he, true_and, ssudp_withEih_eq_spec]
  cases hik : ctx.identityKeys with
  | nil => simp [Spec.udpIdentityHeaders, SsUdp.aesSessionKey, Spec.sessionSubkey, specCipher, sessionSubkeyCtx, Spec.ascii, Mode.toU8]
  | cons ik rest =>
    simp [SsUdp.aesSessionKey, Spec.sessionSubkey, specCipher, sessionSubkeyCtx, Spec.ascii, Mode.toU8]

/-- **AES-2022 response datagram**: `AES(key, server sid ‖ pid) ‖
AEAD(session subkey(key, server sid), nonce = (sid ‖ pid)[4..16],
1 ‖ time ‖ client sid ‖ padding length ‖ padding ‖ address ‖ payload)`; key = the session's user's key, else the server key -/
theorem c03_ss_udp_layout_aes_response (C : Crypto) (ctx : Ctx) (hk : ctx.kind = .b3aes128 ∨ ctx.kind = .b3aes256)
    (s : SsUdp.Session) (addr : Addr) (item : Bytes) (r : SsUdp.Rand) :
    SsUdp.encode C ctx .server s addr item r =
      C.aesEnc ((s.user.map (·.key)).getD ctx.key) (be64 s.serverSessionId ++ be64 s.packetId) ++
      C.sealB ctx.kind.alg
        (Spec.sessionSubkey C (specCipher ctx.kind) ((s.user.map (·.key)).getD ctx.key) (be64 s.serverSessionId))
        ((be64 s.serverSessionId ++ be64 s.packetId).drop 4) []
        ([(1 : UInt8)] ++ be64 r.now ++ be64 s.clientSessionId ++ be16 r.padding.length ++ r.padding ++
          Socks5Addr.encode addr ++ item) := by
  have h22 : ctx.kind.is2022 = true := by rcases hk with h | h <;> rw [h] <;> rfl
  have hx : SsUdp.xAlg ctx.kind = none := by rcases hk with h | h <;> rw [h] <;> rfl
  unfold SsUdp.encode
  simp only [h22, not_true_eq_false, if_false, hx]
  cases s.user <;>
    simp [SsUdp.aesSessionKey, Spec.sessionSubkey, specCipher, sessionSubkeyCtx, Spec.ascii, Mode.toU8]

/-- the XChaCha variant of a 2022 ChaCha kind -/
def xchachaOf (k : Kind) : Alg := if k = .b3chacha8 then .xchacha8 else .xchacha20

/-- **XChaCha-2022 datagram**, both directions: `nonce(24) ‖ AEAD(key[..32], nonce, sid ‖ pid ‖ body)` with the same
bodies as the AES kinds; no separate header, no identity headers, the key itself (no session subkey) -/
theorem c03_ss_udp_layout_xchacha (C : Crypto) (ctx : Ctx) (hk : ctx.kind = .b3chacha8 ∨ ctx.kind = .b3chacha20)
    (s : SsUdp.Session) (addr : Addr) (item : Bytes) (r : SsUdp.Rand) :
    SsUdp.encode C ctx .client s addr item r =
      r.nonce ++ C.sealB (xchachaOf ctx.kind) (ctx.key.take 32) r.nonce []
        (be64 s.clientSessionId ++ be64 s.packetId ++
          ([(0 : UInt8)] ++ be64 r.now ++ be16 r.padding.length ++ r.padding ++ Socks5Addr.encode addr ++ item)) ∧
    SsUdp.encode C ctx .server s addr item r =
      r.nonce ++ C.sealB (xchachaOf ctx.kind) (ctx.key.take 32) r.nonce []
        (be64 s.serverSessionId ++ be64 s.packetId ++
          ([(1 : UInt8)] ++ be64 r.now ++ be64 s.clientSessionId ++ be16 r.padding.length ++ r.padding ++
            Socks5Addr.encode addr ++ item)) := by
  rcases hk with h | h <;> simp [SsUdp.encode, h, Kind.is2022, SsUdp.xAlg, xchachaOf, Mode.toU8]

/-- **the datagram layout, all three families in one statement** -/
theorem c03_ss_udp_layout (C : Crypto) (ctx : Ctx) (s : SsUdp.Session) (addr : Addr) (item : Bytes) (r : SsUdp.Rand) :
    (ctx.kind.is2022 = false → ∀ mode, SsUdp.encode C ctx mode s addr item r =
      r.salt ++ C.sealB ctx.kind.alg
        ((C.hkdfSha1 r.salt ctx.key (Spec.ascii "ss-subkey") r.salt.length).take ctx.kind.alg.keyLen)
        (Spec.leNonce 0) [] (Socks5Addr.encode addr ++ item)) ∧
    (ctx.kind = .b3aes128 ∨ ctx.kind = .b3aes256 →
      SsUdp.encode C ctx .client s addr item r =
        C.aesEnc ((ctx.identityKeys ++ [ctx.key]).headD []) (be64 s.clientSessionId ++ be64 s.packetId) ++
        Spec.udpIdentityHeaders C (be64 s.clientSessionId ++ be64 s.packetId) (ctx.identityKeys ++ [ctx.key]) ++
        C.sealB ctx.kind.alg (Spec.sessionSubkey C (specCipher ctx.kind) ctx.key (be64 s.clientSessionId))
          ((be64 s.clientSessionId ++ be64 s.packetId).drop 4) []
          ([(0 : UInt8)] ++ be64 r.now ++ be16 r.padding.length ++ r.padding ++ Socks5Addr.encode addr ++ item) ∧
      SsUdp.encode C ctx .server s addr item r =
        C.aesEnc ((s.user.map (·.key)).getD ctx.key) (be64 s.serverSessionId ++ be64 s.packetId) ++
        C.sealB ctx.kind.alg
          (Spec.sessionSubkey C (specCipher ctx.kind) ((s.user.map (·.key)).getD ctx.key) (be64 s.serverSessionId))
          ((be64 s.serverSessionId ++ be64 s.packetId).drop 4) []
          ([(1 : UInt8)] ++ be64 r.now ++ be64 s.clientSessionId ++ be16 r.padding.length ++ r.padding ++
            Socks5Addr.encode addr ++ item)) ∧
    (ctx.kind = .b3chacha8 ∨ ctx.kind = .b3chacha20 →
      SsUdp.encode C ctx .client s addr item r =
        r.nonce ++ C.sealB (xchachaOf ctx.kind) (ctx.key.take 32) r.nonce []
          (be64 s.clientSessionId ++ be64 s.packetId ++
            ([(0 : UInt8)] ++ be64 r.now ++ be16 r.padding.length ++ r.padding ++ Socks5Addr.encode addr ++ item)) ∧
      SsUdp.encode C ctx .server s addr item r =
        r.nonce ++ C.sealB (xchachaOf ctx.kind) (ctx.key.take 32) r.nonce []
          (be64 s.serverSessionId ++ be64 s.packetId ++
            ([(1 : UInt8)] ++ be64 r.now ++ be64 s.clientSessionId ++ be16 r.padding.length ++ r.padding ++
              Socks5Addr.encode addr ++ item))) :=
  ⟨fun hk mode => c03_ss_udp_layout_legacy C ctx hk mode s addr item r,
   fun hk => ⟨c03_ss_udp_layout_aes_request C ctx hk s addr item r, c03_ss_udp_layout_aes_response C ctx hk s addr item r⟩,
   fun hk => c03_ss_udp_layout_xchacha C ctx hk s addr item r⟩

/-- the three families are all there is -/
theorem kind_families (k : Kind) :
    k.is2022 = false ∨ (k = .b3aes128 ∨ k = .b3aes256) ∨ (k = .b3chacha8 ∨ k = .b3chacha20) := by
  cases k <;> simp [Kind.is2022]

/-! ### non-vacuity (toy crypto) -/

namespace C03MoreDemo

def pw : Bytes := [112, 119]
def legacyCtx : Ctx := { kind := .aes128, key := Ss.opensslBytesToKey Crypto.toy 16 pw }
def ad : Addr := .domain [119, 51, 46, 111, 114, 103] 443
def cliSess : Sess := ⟨.client, List.replicate 16 7, none, none, some ad⟩
def srvSessL : Sess := ⟨.server, List.replicate 16 8, none, none, none⟩

/-- hypotheses of `c03_ss_legacy_stream_eq_spec`: a legacy kind, key derived from the password, a 16-byte salt -/
example : legacyCtx.kind.is2022 = false ∧ legacyCtx.key = Ss.opensslBytesToKey Crypto.toy legacyCtx.kind.n pw ∧
    cliSess.salt.length = legacyCtx.kind.n := ⟨rfl, rfl, rfl⟩
example : (Ss.encodeAll Crypto.toy legacyCtx cliSess {} [([1, 2, 3], {}), ([], {}), ([4, 5], {})]).1 =
    Spec.legacyStream Crypto.toy (specCipher .aes128) pw (List.replicate 16 7)
      (streamChunks .aes128 [Socks5Addr.encode ad ++ [1, 2, 3], [], [4, 5]]) :=
  c03_ss_legacy_client_stream_eq_spec Crypto.toy Crypto.toy_lawful legacyCtx rfl pw rfl cliSess rfl ad rfl rfl [1, 2, 3] {}
    [([], {}), ([4, 5], {})]
example := c03_ss_legacy_stream_eq_spec Crypto.toy Crypto.toy_lawful legacyCtx rfl pw rfl srvSessL rfl [9, 9] {} [([1], {})]
/-- the chunk list is not degenerate: an empty write contributes no chunk -/
example : streamChunks .aes128 [[1, 2], [], [3]] = [[1, 2], [3]] := by
  simp [streamChunks, splitChunks, chunkLimit, Kind.payloadLimit, Kind.is2022, Consts.ssLegacyPayloadLimit]

def ctx22 : Ctx := ⟨.b3aes256, List.replicate 32 1, [], [⟨"u", List.replicate 32 3, []⟩]⟩
def srvSess : Sess := ⟨.server, List.replicate 32 9, some (List.replicate 32 7), some ⟨"u", List.replicate 32 3, []⟩, none⟩

/-- hypotheses of `c03_ss2022_response_eq_spec`: a 2022 kind, a server session that has seen a request salt -/
example : (Ss.encode Crypto.toy ctx22 srvSess {} [1, 2, 3] ⟨[], 1000⟩).1 =
    Spec.stream2022 Crypto.toy (specCipher .b3aes256) [List.replicate 32 3] false (List.replicate 32 9)
      (Spec.responseFixed 1 1000 (List.replicate 32 7) 3) [1, 2, 3] (splitChunks (chunkLimit Kind.b3aes256.payloadLimit) []) :=
  c03_ss2022_response_eq_spec Crypto.toy ctx22 rfl srvSess rfl (List.replicate 32 7) rfl [1, 2, 3] ⟨[], 1000⟩
example := c03_ss2022_response_stream_eq_spec Crypto.toy ctx22 rfl srvSess rfl (List.replicate 32 7) rfl [1, 2, 3] ⟨[], 1000⟩
  [([4], {}), ([5, 6], {})]

def vmSession : Vmess.Session := ⟨List.replicate 16 1, List.replicate 16 2, 0x5a⟩
/-- hypotheses of `c03_vmess_body_first_chunk_eq_spec`: mask 17 = ChunkStream | AuthenticatedLength -/
example : Vmess.hasOpt 17 Vmess.optAuthLen = true ∧ Vmess.hasOpt 17 Vmess.optGlobalPadding = false := by decide
example : ((Vmess.Body.new Crypto.toy 17 .aes128gcm (List.replicate 16 4) (List.replicate 16 5) vmSession).encodeChunk
      Crypto.toy [1, 2, 3] []).1 =
    Spec.vmessChunkAuthLen Crypto.toy (List.replicate 16 4) (List.replicate 16 5) (List.replicate 16 2) (List.replicate 16 1) 0
      [1, 2, 3] :=
  c03_vmess_body_first_chunk_eq_spec Crypto.toy Crypto.toy_lawful 17 (by decide) (by decide) _ _ vmSession [1, 2, 3] []

/-- `c03_ss_udp_layout`: each family's hypothesis is met by a kind -/
example : Kind.aes256.is2022 = false := rfl
def udpAes : Ctx := { kind := .b3aes128, key := List.replicate 16 2, identityKeys := [List.replicate 16 9] }
def udpX : Ctx := { kind := .b3chacha8, key := List.replicate 32 6 }
example := (c03_ss_udp_layout Crypto.toy udpAes ⟨7, 11, 3, none⟩ ad [1, 2] { padding := [0, 0], now := 1000 }).2.1 (Or.inl rfl)
example := (c03_ss_udp_layout Crypto.toy udpX ⟨7, 11, 3, none⟩ ad [1, 2] { nonce := List.replicate 24 3, now := 1000 }).2.2
  (Or.inl rfl)
example := (c03_ss_udp_layout Crypto.toy legacyCtx {} ad [1, 2] { salt := List.replicate 16 4 }).1 rfl

end C03MoreDemo

end Octo
