import Octo.Proofs.Flows
import Octo.Gen.FlowsGen
/-!
# C15 for the relay skeletons as they are in the source

`Octo.FlowsGen.*` are the skeletons of the per-flow relay functions (sites, `forward` pumps with their adaptor chains and result
arms, the join, terminal arms), extracted from the Rust sources on every run by `bin/translate_flows.py` under the reading
rules in the header of `Octo/Gen/FlowsGen.lean`.  Each obligation below is re-decided against the current code; the
corollaries are instances of the generic theorems of `Octo.Proofs.Flows` (all scripts, all pump states, all delays).
-/
namespace Octo.FlowsGen
open Octo.Flows

/-- the functions read, and which of them pump -/
theorem c15_generated_flows :
    flows.map (·.name) = ["relay_to", "relay_tcp_bidirectional", "relay_udp_bidirectional", "relay_bidirectional", "tcp_relay",
      "tcp_accept_websocket_then_replay", "quic_relay", "try_transfer_tcp", "relay_tcp"] := by decide
theorem c15_generated_pumps :
    (flows.filter (fun f => !f.pumps.isEmpty)).map (fun f => (f.name, f.pumps.length, f.joined.length)) =
      [("relay_bidirectional", 2, 2), ("relay_tcp", 2, 2)] := by decide

/-! ## (a) server `relay_bidirectional`: the errors of both sources are dropped in front of `forward` -/

/-- both pumps' sources pass through an adaptor that skips `Err` items -/
theorem c15_generated_relay_bidirectional_errorsDropped : relay_bidirectional.errorsDropped = true := by decide
/-- the chains, by kind (target → client: drop, convert, wrap; client → target: drop, convert fallibly) -/
theorem c15_generated_relay_bidirectional_chains :
    relay_bidirectional.pumps.map (·.chain) = [[.dropErr, .mapInfallible, .wrapOk], [.dropErr, .mapFallible]] := by decide
/-- hence: however either source ends - cleanly or by an error, after any number of items - its `forward` flushes and closes
    its sink having handed over everything the source decoded (items that convert) -/
theorem c15_generated_relay_bidirectional_delivers (p : Pump) (hp : p ∈ relay_bidirectional.pumps) (s : Script)
    (hc : s.all Item.converts = true) : forward (applyChain p.chain s) = ⟨payloads s, true⟩ := by
  have h1 : p.errorsDropped = true :=
    (List.all_eq_true.mp c15_generated_relay_bidirectional_errorsDropped) p hp
  have h2 : lossless p.chain = true := by
    have : relay_bidirectional.pumps.all (fun p => lossless p.chain) = true := by decide
    exact (List.all_eq_true.mp this) p hp
  exact p.delivers_of_errorsDropped h1 h2 s hc
/-- target → client makes no errors of its own behind the drop: no proviso at all -/
theorem c15_generated_relay_bidirectional_p_s_c_flushes (s : Script) :
    ∀ p ∈ relay_bidirectional.pumps.filter (·.noNewErrors), (forward (applyChain p.chain s)).flushedClosed = true := by
  intro p hp
  exact p.flushes_of_noNewErrors (by simpa using (List.mem_filter.mp hp).2) s
/-- RESIDUAL: client → target converts fallibly BEHIND the drop (`map(InboundIn::try_into)`): an item that does not convert
    (a message of the wrong kind, a datagram whose name did not resolve) is an `Err` item for `forward` -/
theorem c15_generated_relay_bidirectional_conversion_residual :
    relay_bidirectional.pumps.map (·.noNewErrors) = [true, false] := by decide
/-- .. and what it does: the items before it are handed over, the sink is neither flushed nor closed by `forward` -/
example : forward (applyChain [.dropErr, .mapFallible] [.ok 1 true, .srcErr, .ok 2 false, .ok 3 true]) = ⟨[1], false⟩ := by decide
/-- `relay_udp_bidirectional` hands its inbound stream on behind a `then(..)` that keeps `Err` items as they are -/
theorem c15_generated_relay_udp_handover :
    relay_udp_bidirectional.handOvers.map (fun h => (h.callee, h.position, h.chain)) =
      [("relay_bidirectional", 1, [.thenPassErr])] := by decide
/-- .. in front of `relay_bidirectional`'s chains the errors are still dropped (`errFree_prefix`) -/
theorem c15_generated_relay_udp_errorsDropped (p : Pump) (hp : p ∈ relay_bidirectional.pumps) :
    ∀ h ∈ relay_udp_bidirectional.handOvers, errFree false false (h.chain ++ p.chain) = true := by
  intro h hh
  have hpre : h.chain.all (· != .other) = true := by
    have : relay_udp_bidirectional.handOvers.all (fun h => h.chain.all (· != .other)) = true := by decide
    exact (List.all_eq_true.mp this) h hh
  exact errFree_prefix false h.chain p.chain false hpre
    ((List.all_eq_true.mp c15_generated_relay_bidirectional_errorsDropped) p hp)

/-! ## (a) client `relay_tcp`: dropped as on the server (since the repair `ae1cf33`; before it both sources were forwarded as they are) -/

/-- both pumps of the client drop the errors of their source in front of `forward` -/
theorem c15_generated_relay_tcp_errorsDropped : relay_tcp.pumps.all (·.errorsDropped) = true := by decide
/-- and neither makes errors of its own behind the drop (`map(Ok)` only): every ending of either source - clean, by a reset,
    by an undecodable frame - hands over everything decoded before it and flushes and closes the sink; no proviso -/
theorem c15_generated_relay_tcp_delivers (p : Pump) (hp : p ∈ relay_tcp.pumps) (s : Script) :
    (forward (applyChain p.chain s)).flushedClosed = true := by
  have h : relay_tcp.pumps.all (·.noNewErrors) = true := by decide
  exact p.flushes_of_noNewErrors ((List.all_eq_true.mp h) p hp) s
/-- the code before the repair, kept as refuted old code: no adaptor in front of `forward`, and an error of the source made
    `forward` return with what had been decoded before it handed to the sink but neither flushed nor closed (observed on the
    real client: an answer of 1000 bytes followed by a reset of the link - the application received none of it) -/
example (pre post : Script) (hpre : pre.all Item.isOk = true) :
    forward (applyChain [] (pre ++ .srcErr :: post)) = ⟨payloads pre, false⟩ := by
  simp [applyChain, forward_of_err pre .srcErr post hpre rfl]

/-! ## (b) the end of either pump ends the flow -/

/-- both arms of both pumps produce `Err(relay::Result::..)` and the two futures are the arguments of `try_join!` -/
theorem c15_generated_relay_bidirectional_eitherEndsBoth : relay_bidirectional.eitherEndsBoth = true := by decide
theorem c15_generated_relay_tcp_eitherEndsBoth : relay_tcp.eitherEndsBoth = true := by decide
/-- hence as soon as one direction has ended - cleanly or not - `try_join!` has returned, whatever the other direction does
    (and with it the function: both futures with all four halves are dropped) -/
theorem c15_generated_relay_bidirectional_torn_down (states : List PumpState) (hl : states.length = 2)
    (hs : states.any (· != .running) = true) : relay_bidirectional.joinDone states = true :=
  relay_bidirectional.joinDone_of_eitherEndsBoth c15_generated_relay_bidirectional_eitherEndsBoth states (by rw [hl]; decide) hs
theorem c15_generated_relay_tcp_torn_down (states : List PumpState) (hl : states.length = 2)
    (hs : states.any (· != .running) = true) : relay_tcp.joinDone states = true :=
  relay_tcp.joinDone_of_eitherEndsBoth c15_generated_relay_tcp_eitherEndsBoth states (by rw [hl]; decide) hs
/-- the join is the last thing either function does -/
theorem c15_generated_join_is_last :
    [relay_bidirectional, relay_tcp].all (fun f => (f.sites.getLast?.map (fun s => (s.kind, s.depth))) == some (.join_, 0)) = true := by
  decide
example : ([.endedClean, .running] : List PumpState).any (· != .running) = true := by decide

/-! ## (c) a flow that cannot start ends at once -/

/-- connect failed, name not resolved, bind failed, first message not a connect, decode error, end of stream: none of these
    arms of `relay_to` contains an await or a loop, and nothing is awaited behind the fork -/
theorem c15_generated_relay_to_promptFailure : relay_to.promptFailure = true := by decide
/-- the arms meant (by the operation they are a branch of) -/
theorem c15_generated_relay_to_terminal_arms :
    relay_to.terminalArms.length = 6 ∧
    (relay_to.sites.filter (fun s => s.kind == .await_)).map (·.op) =
      ["next", "resolve", "connect", "relay_tcp_bidirectional", "bind", "relay_udp_bidirectional"] := by decide
/-- a failed websocket handshake likewise -/
theorem c15_generated_accept_websocket_promptFailure :
    tcp_accept_websocket_then_replay.promptFailure = true ∧ tcp_accept_websocket_then_replay.terminalArms.length = 1 := by decide
/-- no flow function has a terminal arm that waits -/
theorem c15_generated_all_promptFailure : flows.all Flow.promptFailure = true := by decide
/-- hence from every such arm the function has returned - and dropped the inbound connection it owns - without waiting for
    anything, whatever the peer does -/
theorem c15_generated_terminal_arms_return_at_once (f : Flow) (hf : f ∈ flows) (a : TerminalArm) (ha : a ∈ f.terminalArms)
    (delay : Nat → Nat) : a.elapsed delay = 0 := by
  have h1 : f.promptFailure = true := (List.all_eq_true.mp c15_generated_all_promptFailure) f hf
  exact a.elapsed_zero_of_prompt ((List.all_eq_true.mp h1) a ha) delay
/-- the client: a flow whose outbound cannot be opened leaves `try_transfer_tcp` through a `?` placed directly on the opening
    await (nothing in between): five openings, five `?`, no terminal arm, no loop -/
theorem c15_generated_try_transfer_tcp_failures :
    try_transfer_tcp.terminalArms = [] ∧
    (try_transfer_tcp.sites.filter (fun s => s.kind == .loop_)) = [] ∧
    (try_transfer_tcp.sites.filter (fun s => s.kind == .question && !s.awaitFree)).map (·.op) =
      ["new_plain_outbound", "new_quic_outbound", "new_ws_outbound", "new_tls_outbound", "new_wss_outbound"] := by decide

/-! ## (d) quic: the stream is finished and its delivery waited for on every path after the relay -/

theorem c15_generated_quic_relay_closeAfterRelay : closeAfterRelay quic_relay = true := by decide
/-- after `relay_to(..).await` the function reaches `inbound.close().await` unless an await-free `?` in between fails -/
theorem c15_generated_quic_relay_close_reached (fails : Nat → Bool)
    (hf : ∀ i (s : FSite), s ∈ afterRelay quic_relay → s.kind = .question → s.awaitFree = true → fails i = false) :
    reachesClose fails 0 (afterRelay quic_relay) = true :=
  closeReached quic_relay c15_generated_quic_relay_closeAfterRelay fails hf
/-- what lies in between: one `?`, on the re-union of the two halves (no await in it) -/
theorem c15_generated_quic_relay_between :
    ((afterRelay quic_relay).takeWhile (fun s => !s.isClose)).map (fun s => (s.kind, s.op, s.awaitFree)) =
      [(.question, "map_err", true)] := by decide
example : ∀ (i : Nat) (s : FSite), s ∈ afterRelay quic_relay → s.kind = .question → s.awaitFree = true →
    (fun (_ : Nat) => false) i = false := fun _ _ _ _ _ => rfl
/-- the plain / websocket entry points end with the relay: the halves they own are dropped when it returns -/
theorem c15_generated_tcp_entry_points_end_with_relay :
    (tcp_relay.sites.getLast?.map (·.op)) = some "relay_to" ∧
    (tcp_accept_websocket_then_replay.sites.getLast?.map (·.op)) = some "relay_to" := by decide

/-! ## the shapes that violate the statements (the seeded edits, as chains / arms) -/

/-- 'an error on the client's stream is passed on instead of dropped': the drop replaced by a pass-through -/
example : errFree false false [.thenPassErr, .mapFallible] = false
    ∧ (forward (applyChain [.thenPassErr, .mapFallible] [.ok 1 true, .ok 2 true, .srcErr])).flushedClosed = false := by decide
/-- 'clean end returns Ok': the other direction is still running and the join has not returned -/
example : joinReturns .tryJoin [some false, none] = false := by decide
/-- 'read and discard what the client is still sending, 200 ms per message, no overall bound' -/
example : (⟨0, "connect", "Err(e)", 1, 1, 0, ""⟩ : TerminalArm).prompt = false := by decide
example : ∃ delay, (⟨0, "connect", "Err(e)", 1, 1, 0, ""⟩ : TerminalArm).elapsed delay > 1000000 :=
  TerminalArm.elapsed_unbounded _ (by decide) _

end Octo.FlowsGen
