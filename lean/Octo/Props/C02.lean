import Octo.Model.SsUdp
import Octo.Model.Vmess
import Octo.Model.Trojan
import Octo.Model.Socks5
import Octo.Props.C14
/-!
# C02 — UDP relay preserves each datagram, its addresses and its owner (codec level)
-/
namespace Octo

/-! ### SOCKS5 UDP encapsulation (local side) -/

/-- a reply encoded for the local application decodes to the same payload and address, whole -/
theorem c02_socks5_udp_roundtrip (p : Bytes) (a : Addr) (h : a.Accepted) :
    Socks5.udpDecode (Socks5.udpEncode p a) = ⟨(), [], .ok ⟨.udp, p, some a⟩⟩ := by
  have hne : (Socks5.udpEncode p a).isEmpty = false := by simp [Socks5.udpEncode]
  have hlen : ¬ (Socks5.udpEncode p a).length < 5 := by
    cases a <;> simp [Socks5.udpEncode, Socks5Addr.encode] <;> omega
  unfold Socks5.udpDecode
  rw [hne]
  simp only [Bool.false_eq_true, if_false, hlen]
  have h2 : (Socks5.udpEncode p a)[2]?.getD 0 = 0 := by simp [Socks5.udpEncode]
  have hd : (Socks5.udpEncode p a).drop 3 = Socks5Addr.encode a ++ p := by simp [Socks5.udpEncode]
  simp [h2, hd, c14_socks5_roundtrip a p h]

/-! ### Trojan datagram frames inside the byte stream -/

/-- one frame followed by anything decodes to exactly that datagram and leaves exactly the rest:
datagram boundaries are kept inside the stream (no merge, no split, no truncation) -/
theorem c02_trojan_frame_roundtrip (a : Addr) (p tail : Bytes) (ha : a.Accepted) (hp : p.length < 65536) :
    Trojan.decodePacket (Trojan.packet a p ++ tail) = .ok (a, p, tail) := by
  have hal := c14_socks5_try_decode_at a [] (be16 (p.length % 65536) ++ Trojan.crlf ++ p ++ tail) ha
  simp only [List.nil_append, List.length_nil] at hal
  have henc : Trojan.packet a p ++ tail = Socks5Addr.encode a ++ (be16 (p.length % 65536) ++ Trojan.crlf ++ p ++ tail) := by
    simp [Trojan.packet, List.append_assoc]
  have hlen2 : 2 ≤ (Socks5Addr.encode a).length := by cases a <;> simp [Socks5Addr.encode] <;> omega
  unfold Trojan.decodePacket
  rw [henc]
  rw [if_neg (by simp only [List.length_append]; omega)]
  rw [hal]
  simp only []
  have hmod : p.length % 65536 = p.length := Nat.mod_eq_of_lt hp
  rw [if_neg (by simp [Trojan.crlf]; omega)]
  have hdrop : (Socks5Addr.encode a ++ (be16 (p.length % 65536) ++ Trojan.crlf ++ p ++ tail)).drop (Socks5Addr.encode a).length =
      be16 (p.length % 65536) ++ Trojan.crlf ++ p ++ tail := List.drop_left
  rw [hdrop]
  have hlenv : rdBE ((be16 (p.length % 65536) ++ Trojan.crlf ++ p ++ tail).take 2) = p.length := by
    simp only [List.append_assoc, be16, List.cons_append, List.nil_append, List.take_succ_cons, List.take_zero]
    have := rdBE_be16 (p.length % 65536) (by omega)
    simp only [be16] at this
    rw [this, hmod]
  rw [hlenv]
  rw [if_neg (by simp [Trojan.crlf]; omega)]
  rw [c14_socks5_roundtrip a _ ha]
  have e4 : (be16 (p.length % 65536) ++ Trojan.crlf).length = 4 := by simp [Trojan.crlf]
  have hd4 : (be16 (p.length % 65536) ++ Trojan.crlf ++ p ++ tail).drop 4 = p ++ tail := by
    rw [List.append_assoc, List.append_assoc]
    rw [← List.append_assoc (be16 _) Trojan.crlf]
    exact List.drop_left' e4
  have hd5 : (be16 (p.length % 65536) ++ Trojan.crlf ++ p ++ tail).drop (4 + p.length) = tail := by
    rw [← List.drop_drop, hd4]; exact List.drop_left
  simp only [hd4, hd5, List.take_left']

/-- any number of frames: they come out one by one, in order -/
theorem c02_trojan_frames_sequence (a : Addr) (p : Bytes) (rest : List (Addr × Bytes)) (tail : Bytes)
    (ha : a.Accepted) (hp : p.length < 65536) :
    Trojan.decodePacket (Trojan.packet a p ++ ((rest.map fun x => Trojan.packet x.1 x.2).flatten ++ tail)) =
      .ok (a, p, (rest.map fun x => Trojan.packet x.1 x.2).flatten ++ tail) :=
  c02_trojan_frame_roundtrip a p _ ha hp

/-! ### VMess: one chunk per datagram, whole or not at all -/

/-- `encode_packet` either refuses or seals the *entire* datagram into its single chunk -/
theorem c02_vmess_no_truncation (C : Crypto) (b : Vmess.Body) (src pad : Bytes) (w : Bytes) (b' : Vmess.Body)
    (h : b.encodePacket C src pad = some (w, b')) :
    (b.encodeChunk C src pad).2.1 = [] := by
  unfold Vmess.Body.encodePacket at h
  simp only [] at h
  by_cases hle : src.length > Consts.vmessPayloadLimit - 16 - b.sizeBytes - (if b.globalPadding then 63 else 0)
  · rw [if_pos hle] at h; cases h
  · unfold Vmess.Body.encodeChunk
    simp only []
    have hsb : (b.nextPadding C).2.sizeBytes = b.sizeBytes := by
      unfold Vmess.Body.nextPadding Vmess.Body.sizeBytes; split <;> rfl
    simp only [List.drop_eq_nil_iff]
    rw [hsb]
    unfold Vmess.Body.nextPadding
    cases hg : b.globalPadding
    · simp only [hg, Bool.false_eq_true, if_false] at hle ⊢; omega
    · simp only [hg, if_true] at hle ⊢
      have : Vmess.shakeU16 C b.shakeSeed b.shakePos % 64 < 64 := Nat.mod_lt _ (by omega)
      omega

/-! ### Shadowsocks UDP: the client's per-binding codec and ownership -/

/-- a refused server packet (duplicate, stale or over the limit) is *dropped*: the decoder answers
"nothing", not an error, and the session (ids, keys) is untouched — the binding lives on -/
theorem c02_refused_reply_is_dropped (C : Crypto) (ctx : Ss.Ctx) (hk : ctx.kind.is2022 = true) (cc : SsUdp.ClientCodec)
    (now : Nat) (b : Bytes) (hb : b.isEmpty = false) (p : Bytes) (a : Addr) (s : SsUdp.Session)
    (hd : SsUdp.decode C ctx .client now b = .ok (p, a, s))
    (hsess : s.clientSessionId = cc.session.clientSessionId)
    (href : (cc.filter.validate s.packetId (2 ^ 64 - 1)).2 = false) :
    (SsUdp.ClientCodec.decode C ctx cc now b).1 = .ok none ∧
      (SsUdp.ClientCodec.decode C ctx cc now b).2.session = cc.session := by
  unfold SsUdp.ClientCodec.decode
  simp [hb, hd, hk, hsess, href]

/-- a packet of another client session is dropped without touching the window -/
theorem c02_foreign_session_dropped (C : Crypto) (ctx : Ss.Ctx) (hk : ctx.kind.is2022 = true) (cc : SsUdp.ClientCodec)
    (now : Nat) (b : Bytes) (hb : b.isEmpty = false) (p : Bytes) (a : Addr) (s : SsUdp.Session)
    (hd : SsUdp.decode C ctx .client now b = .ok (p, a, s))
    (hsess : s.clientSessionId ≠ cc.session.clientSessionId) :
    SsUdp.ClientCodec.decode C ctx cc now b = (.ok none, cc) := by
  unfold SsUdp.ClientCodec.decode
  simp [hb, hd, hk, hsess]

/-- a delivered reply was accepted by the window: with C11 (`c11_at_most_once`) no packet id of a
session is ever delivered twice to the application -/
theorem c02_delivered_was_fresh (C : Crypto) (ctx : Ss.Ctx) (hk : ctx.kind.is2022 = true) (cc : SsUdp.ClientCodec)
    (now : Nat) (b : Bytes) (out : Bytes × Addr)
    (h : (SsUdp.ClientCodec.decode C ctx cc now b).1 = .ok (some out)) :
    ∃ p a s, SsUdp.decode C ctx .client now b = .ok (p, a, s) ∧ out = (p, a) ∧
      s.clientSessionId = cc.session.clientSessionId ∧ (cc.filter.validate s.packetId (2 ^ 64 - 1)).2 = true := by
  unfold SsUdp.ClientCodec.decode at h
  split at h
  · simp at h
  · split at h
    · rename_i p a s hd
      simp only [hk, not_true_eq_false, if_false] at h
      split at h
      · simp at h
      · rename_i hs
        split at h
        · simp at h
        · rename_i hf
          simp only [Res.ok.injEq, Option.some.injEq] at h
          exact ⟨p, a, s, hd, h.symm, by simpa using hs, by simpa using hf⟩
    · simp at h
    · simp at h

end Octo

namespace Octo
open Octo.Ss

/-- **Shadowsocks UDP, legacy ciphers**: what any party encodes for (address, payload) the other
decodes to exactly that address and payload — one datagram in, the same datagram out -/
theorem c02_ss_udp_legacy_roundtrip (C : Crypto) (hC : C.Lawful) (ctx : Ctx) (hk : ctx.kind.is2022 = false)
    (m1 m2 : Mode) (s : SsUdp.Session) (addr : Addr) (ha : addr.Accepted) (item : Bytes) (r : SsUdp.Rand)
    (hs : r.salt.length = ctx.kind.n) (now : Nat) :
    SsUdp.decode C ctx m2 now (SsUdp.encode C ctx m1 s addr item r) = .ok (item, addr, {}) := by
  unfold SsUdp.encode SsUdp.decode
  simp only [hk, Bool.false_eq_true, not_false_eq_true, if_true]
  rw [if_neg (by simp only [List.length_append]; omega)]
  have h1 : (r.salt ++ ((newAuth C ctx.kind ctx.key r.salt).sealB C (Socks5Addr.encode addr ++ item)).1).take ctx.kind.n = r.salt := by
    rw [← hs, List.take_left]
  have h2 : (r.salt ++ ((newAuth C ctx.kind ctx.key r.salt).sealB C (Socks5Addr.encode addr ++ item)).1).drop ctx.kind.n =
      ((newAuth C ctx.kind ctx.key r.salt).sealB C (Socks5Addr.encode addr ++ item)).1 := by
    rw [← hs, List.drop_left]
  rw [h1, h2]
  simp only [Auth.openB, Auth.sealB, hC.open_seal]
  rw [c14_socks5_roundtrip addr item ha]

/-- **Shadowsocks 2022 UDP (AES variants, single user)**: a client packet decodes at the server to
exactly the same payload and target, attributed to the client's session id and packet id -/
theorem c02_ss_udp_2022_aes_roundtrip (C : Crypto) (hC : C.Lawful) (ctx : Ctx)
    (hkind : ctx.kind = .b3aes128 ∨ ctx.kind = .b3aes256) (hik : ctx.identityKeys = []) (hu : ctx.users = [])
    (s : SsUdp.Session) (hsid : s.clientSessionId < 2 ^ 64) (hpid : s.packetId < 2 ^ 64)
    (addr : Addr) (ha : addr.Accepted) (item : Bytes) (r : SsUdp.Rand) (hpad : r.padding.length < 65536)
    (now : Nat) (hts : absDiff now r.now ≤ Consts.ssMaxTimeDiff) (hnow : r.now < 2 ^ 64) :
    SsUdp.decode C ctx .server now (SsUdp.encode C ctx .client s addr item r) =
      .ok (item, addr, ⟨s.clientSessionId, 0, s.packetId, none⟩) := by
  have hk : ctx.kind.is2022 = true := by rcases hkind with h | h <;> simp [h, Kind.is2022]
  have hx : SsUdp.xAlg ctx.kind = none := by rcases hkind with h | h <;> simp [h, SsUdp.xAlg]
  have hsidpid : (be64 s.clientSessionId ++ be64 s.packetId).length = 16 := by simp
  -- the encoded packet
  have henc : SsUdp.encode C ctx .client s addr item r =
      C.aesEnc ctx.key (be64 s.clientSessionId ++ be64 s.packetId) ++
        C.sealB ctx.kind.alg (SsUdp.aesSessionKey C ctx.kind ctx.key s.clientSessionId) ((be64 s.clientSessionId ++ be64 s.packetId).drop 4) []
          ([Mode.client.toU8] ++ be64 r.now ++ be16 r.padding.length ++ r.padding ++ Socks5Addr.encode addr ++ item) := by
    simp [SsUdp.encode, hk, hx, hik]
  rw [henc]
  generalize hbody : [Mode.client.toU8] ++ be64 r.now ++ be16 r.padding.length ++ r.padding ++ Socks5Addr.encode addr ++ item = body
  have hbl : 11 ≤ body.length := by rw [← hbody]; simp; omega
  have hal : (C.aesEnc ctx.key (be64 s.clientSessionId ++ be64 s.packetId)).length = 16 := hC.aes_enc_len _ _
  unfold SsUdp.decode
  simp only [hk, not_true_eq_false, if_false, hx, SsUdp.nonceLen, Option.isSome_none, Bool.false_eq_true, hu, List.length_nil,
    Nat.lt_irrefl, decide_false, and_false, if_true, true_and]
  rw [if_neg (by simp only [List.length_append, hal, hC.seal_len]; omega)]
  have ht : (C.aesEnc ctx.key (be64 s.clientSessionId ++ be64 s.packetId) ++ C.sealB ctx.kind.alg
      (SsUdp.aesSessionKey C ctx.kind ctx.key s.clientSessionId) ((be64 s.clientSessionId ++ be64 s.packetId).drop 4) [] body).take 16 =
      C.aesEnc ctx.key (be64 s.clientSessionId ++ be64 s.packetId) := List.take_left' hal
  have hd : (C.aesEnc ctx.key (be64 s.clientSessionId ++ be64 s.packetId) ++ C.sealB ctx.kind.alg
      (SsUdp.aesSessionKey C ctx.kind ctx.key s.clientSessionId) ((be64 s.clientSessionId ++ be64 s.packetId).drop 4) [] body).drop 16 =
      C.sealB ctx.kind.alg (SsUdp.aesSessionKey C ctx.kind ctx.key s.clientSessionId) ((be64 s.clientSessionId ++ be64 s.packetId).drop 4) [] body :=
    List.drop_left' hal
  rw [ht, hd, hC.aes_dec_enc _ _ hsidpid]
  have hsid' : rdBE ((be64 s.clientSessionId ++ be64 s.packetId).take 8) = s.clientSessionId := by
    rw [List.take_left' (be64_length _)]; exact rdBE_be64 _ (by simpa using hsid)
  have hpid' : rdBE ((be64 s.clientSessionId ++ be64 s.packetId).drop 8) = s.packetId := by
    rw [List.drop_left' (be64_length _)]; exact rdBE_be64 _ (by simpa using hpid)
  simp only [hsid', hpid', hC.open_seal, Option.map_some]
  -- fields of the body
  subst hbody
  simp only [Mode.toU8, Mode.expectU8, List.cons_append, List.nil_append, List.headD_cons, ne_eq, not_true_eq_false, if_false,
    List.drop_succ_cons, List.drop_zero]
  have hts' : rdBE ((be64 r.now ++ (be16 r.padding.length ++ (r.padding ++ (Socks5Addr.encode addr ++ item)))).take 8) = r.now := by
    rw [List.take_left' (be64_length _)]; exact rdBE_be64 _ (by simpa using hnow)
  simp only [List.append_assoc] at hts' ⊢
  rw [hts']
  rw [if_neg (by omega)]
  have hd8 : (be64 r.now ++ (be16 r.padding.length ++ (r.padding ++ (Socks5Addr.encode addr ++ item)))).drop 8 =
      be16 r.padding.length ++ (r.padding ++ (Socks5Addr.encode addr ++ item)) := List.drop_left' (be64_length _)
  have hmode : ¬ (Mode.server = Mode.client) := by decide
  simp only [hmode, if_false]
  -- `p.drop 9` of the original = after type byte and timestamp
  show (let p := (be64 r.now ++ (be16 r.padding.length ++ (r.padding ++ (Socks5Addr.encode addr ++ item)))).drop 8
        let pl := rdBE (p.take 2)
        if p.length < 2 + pl then Res.err else
        match Socks5Addr.decode (p.drop (2 + pl)) with
        | .ok (addr', rest) => Res.ok (rest, addr', (⟨s.clientSessionId, 0, s.packetId, none⟩ : SsUdp.Session))
        | .panic => .panic
        | _ => .err) = _
  rw [hd8]
  simp only []
  have hpl : rdBE ((be16 r.padding.length ++ (r.padding ++ (Socks5Addr.encode addr ++ item))).take 2) = r.padding.length := by
    rw [List.take_left' (be16_length _)]; exact rdBE_be16 _ hpad
  rw [hpl]
  rw [if_neg (by simp only [List.length_append, be16_length]; omega)]
  have hdp : (be16 r.padding.length ++ (r.padding ++ (Socks5Addr.encode addr ++ item))).drop (2 + r.padding.length) =
      Socks5Addr.encode addr ++ item := by
    rw [← List.drop_drop, List.drop_left' (be16_length _), List.drop_left]
  rw [hdp, c14_socks5_roundtrip addr item ha]

end Octo
