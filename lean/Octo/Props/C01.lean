import Octo.Model.Pump
import Octo.Props.C04
import Octo.Props.C13
import Octo.Model.Trojan
import Octo.Proofs.Chain
/-!
# C01 — the TCP relay is byte-transparent end to end (logic core)

Three layers, each proved for all inputs: the local handshake yields exactly the requested target
(C13), codec ∘ framing is the identity on the payload and carries the target (C04 and below), the
pumps deliver every item exactly once, in order, and flush before end-of-stream (here).
TCP/TLS/QUIC/WebSocket libraries, the kernel and the tokio scheduler are not modelled; the
in-process end-to-end runs of `bin/check C01` exercise them on real loopback sockets.
-/
namespace Octo.Pump

/-- delivered items always are a prefix of the items the source hands over before it ends -/
def Dir.Good (d : Dir) (orig : List Bytes) : Prop := ∃ t, d.delivered ++ t = orig

theorem Dir.step_good (d : Dir) (orig : List Bytes) (h : d.delivered ++ itemsBeforeEnd d.script = orig) :
    d.step.Good orig ∧ (d.step.returned = false → d.step.delivered ++ itemsBeforeEnd d.step.script = orig) := by
  unfold Dir.step
  split
  · rename_i hr; exact ⟨⟨_, h⟩, fun h' => by simp [hr] at h'⟩
  · split
    · exact ⟨⟨_, h⟩, fun _ => h⟩
    · rename_i b r hs
      simp only [hs, itemsBeforeEnd] at h
      exact ⟨⟨itemsBeforeEnd r, by simp [← h]⟩, fun _ => by simp [← h]⟩
    · rename_i r hs
      simp only [hs, itemsBeforeEnd, List.append_nil] at h
      exact ⟨⟨[], by simp [h]⟩, fun h' => by simp at h'⟩
    · rename_i r hs
      simp only [hs, itemsBeforeEnd, List.append_nil] at h
      exact ⟨⟨[], by simp [h]⟩, fun h' => by simp at h'⟩

/-- the flow invariant: each direction has delivered a prefix of its source's items; while a
direction has not returned, delivered ++ still-to-come is exactly the source's items; a closed sink
means everything was delivered first (flush before end-of-stream) -/
structure Inv (f : Flow) (upOrig downOrig : List Bytes) : Prop where
  up_good : f.up.Good upOrig
  down_good : f.down.Good downOrig
  up_live : f.up.returned = false → f.up.delivered ++ itemsBeforeEnd f.up.script = upOrig
  down_live : f.down.returned = false → f.down.delivered ++ itemsBeforeEnd f.down.script = downOrig
  up_closed : f.up.sinkClosed = true → f.up.delivered = upOrig
  down_closed : f.down.sinkClosed = true → f.down.delivered = downOrig

theorem Dir.step_closed (d : Dir) (orig : List Bytes) (hl : d.returned = false → d.delivered ++ itemsBeforeEnd d.script = orig)
    (hc : d.sinkClosed = true → d.delivered = orig) : d.step.sinkClosed = true → d.step.delivered = orig := by
  unfold Dir.step
  split
  · exact hc
  · rename_i hr
    have hl' := hl (by simpa using hr)
    split
    · exact hc
    · rename_i b r hs
      simp only
      intro h
      have := hc h
      rw [hs, this] at hl'
      simp [itemsBeforeEnd] at hl'
    · rename_i r hs
      intro _
      simp only [hs, itemsBeforeEnd, List.append_nil] at hl'
      exact hl'
    · simp only; exact hc

theorem Dir.step_stays (d : Dir) (orig : List Bytes) (hg : d.Good orig)
    (hl : d.returned = false → d.delivered ++ itemsBeforeEnd d.script = orig) :
    d.step.Good orig ∧ (d.step.returned = false → d.step.delivered ++ itemsBeforeEnd d.step.script = orig) := by
  by_cases hr : d.returned = false
  · exact Dir.step_good d orig (hl hr)
  · have : d.step = d := by unfold Dir.step; simp [hr]
    rw [this]; exact ⟨hg, hl⟩

theorem step_inv (f : Flow) (u d : List Bytes) (h : Inv f u d) (p : Pick) : Inv (f.step p) u d := by
  unfold Flow.step
  split
  · exact h
  · cases p with
    | up =>
      have h1 := Dir.step_stays f.up u h.up_good h.up_live
      have h2 := Dir.step_closed f.up u h.up_live h.up_closed
      simp only []
      split <;> exact ⟨h1.1, h.down_good, h1.2, h.down_live, h2, h.down_closed⟩
    | down =>
      have h1 := Dir.step_stays f.down d h.down_good h.down_live
      have h2 := Dir.step_closed f.down d h.down_live h.down_closed
      simp only []
      split <;> exact ⟨h.up_good, h1.1, h.up_live, h1.2, h.up_closed, h2⟩

/-- **C01 (pumps), every schedule**: starting a flow with source scripts `up`/`down`, at every point
of every schedule each direction has delivered a prefix of what its source handed over (exactly
once, in order, unmodified), and an endpoint observes end-of-stream only after it has been given
*everything* the other side sent before closing — in particular: when the target closes after
answering, the application receives the complete answer followed by end-of-stream. -/
theorem c01_pumps (up down : List Src) (sched : List Pick) :
    let f := (Flow.mk ⟨up, [], false, false⟩ ⟨down, [], false, false⟩ false).run sched
    (∃ t, f.up.delivered ++ t = itemsBeforeEnd up) ∧ (∃ t, f.down.delivered ++ t = itemsBeforeEnd down) ∧
      (f.down.sinkClosed = true → f.down.delivered = itemsBeforeEnd down) ∧
      (f.up.sinkClosed = true → f.up.delivered = itemsBeforeEnd up) := by
  have h0 : Inv (Flow.mk ⟨up, [], false, false⟩ ⟨down, [], false, false⟩ false) (itemsBeforeEnd up) (itemsBeforeEnd down) :=
    ⟨⟨itemsBeforeEnd up, by simp⟩, ⟨itemsBeforeEnd down, by simp⟩, fun _ => by simp, fun _ => by simp,
      fun h => by simp at h, fun h => by simp at h⟩
  have hrun : ∀ (s : List Pick) (f : Flow), Inv f (itemsBeforeEnd up) (itemsBeforeEnd down) →
      Inv (f.run s) (itemsBeforeEnd up) (itemsBeforeEnd down) := by
    intro s
    induction s with
    | nil => intro f h; exact h
    | cons p s ih => intro f h; exact ih _ (step_inv f _ _ h p)
  have h := hrun sched _ h0
  intro f
  exact ⟨h.up_good, h.down_good, h.down_closed, h.up_closed⟩

/-- the answer is not cut short by scheduling: if the target's side ends (`eof`) the `down` pump,
once polled enough, has delivered every item and closed the application's side -/
theorem c01_target_close_delivers_all (items_ : List Bytes) :
    let d : Dir := ⟨items_.map Src.item ++ [.eof], [], false, false⟩
    (Nat.repeat Dir.step (items_.length + 1) d).delivered = items_ ∧
      (Nat.repeat Dir.step (items_.length + 1) d).sinkClosed = true := by
  suffices ∀ (pre : List Bytes) (n : Nat) (rest : List Bytes), rest.length = n →
      (Nat.repeat Dir.step (n + 1) ⟨rest.map Src.item ++ [.eof], pre, false, false⟩).delivered = pre ++ rest ∧
      (Nat.repeat Dir.step (n + 1) ⟨rest.map Src.item ++ [.eof], pre, false, false⟩).sinkClosed = true by
    simpa using this [] items_.length items_ rfl
  intro pre n
  induction n generalizing pre with
  | zero => intro rest h; have : rest = [] := List.length_eq_zero_iff.mp h; subst this; simp [Nat.repeat, Dir.step]
  | succ n ih =>
    intro rest h
    cases rest with
    | nil => simp at h
    | cons x r =>
      have hstep : ∀ (m : Nat) (d : Dir), Nat.repeat Dir.step (m + 1) d = Nat.repeat Dir.step m d.step := by
        intro m; induction m with
        | zero => intro d; rfl
        | succ m ihm => intro d; simp only [Nat.repeat] at ihm ⊢; rw [ihm]
      rw [hstep]
      have : (Dir.mk ((x :: r).map Src.item ++ [.eof]) pre false false).step = ⟨r.map Src.item ++ [.eof], pre ++ [x], false, false⟩ := by
        simp [Dir.step]
      rw [this]
      have := ih (pre ++ [x]) r (by simpa using h)
      simpa [List.append_assoc] using this

end Octo.Pump

namespace Octo.System
open Octo.Pump

/-- **C01 end to end, both hops, every schedule.**  The application writes `us` and keeps its side
open; the target answers `ans` and closes.  The client's two pumps, the server's two pumps and the
link between the hops are polled in *any* order, any number of times (`sched`).  Then at every
point what the application has received is a prefix of the answer (exactly once, in order,
unmodified), and the application observes end-of-stream (its sink closed, or the client's flow torn
down) only after it has received the **complete** answer. -/
theorem c01_chain_answer_complete (us ans : List Bytes) (sched : List Act) :
    let c := (answerScenario us ans).runActs sched
    (∃ t, c.client.down.delivered ++ t = ans) ∧
      ((c.client.down.sinkClosed = true ∨ c.client.tornDown = true) → c.client.down.delivered = ans) := by
  have h := runActs_inv ans sched _ (answerScenario_inv us ans)
  intro c
  refine ⟨h.cd_good, ?_⟩
  rintro (hc | ht)
  · exact h.cd_done hc
  · exact h.cd_done (h.ctd ht)

/-- not vacuous: a fair schedule does reach the end, with the whole answer delivered -/
example :
    let c := (answerScenario [[1, 2], [3]] [[7], [8, 9]]).runActs
      [.cUp, .link, .sUp, .sDown, .link, .cDown, .cUp, .link, .sUp, .sDown, .link, .cDown, .sDown, .link, .cDown, .cDown]
    c.client.down.sinkClosed = true ∧ c.client.tornDown = true ∧ c.client.down.delivered = [[7], [8, 9]] ∧
      c.server.up.delivered = [[1, 2], [3]] := by decide

end Octo.System

namespace Octo

/-- **codec layer, Trojan**: the server, given the client's first bytes for (target, first write) in
one read, yields exactly that target and that payload (`ConnectTcp`) -/
theorem c01_trojan_first_read (C : Crypto) (hC : C.Lawful) (pw : Bytes) (addr : Addr) (ha : addr.Accepted) (w : Bytes) :
    Trojan.serverDecode C pw .header (Trojan.clientEncodeTcp C pw addr {} w).1 =
      ⟨.tcp, [], .ok ⟨.connect, w, some addr⟩⟩ := by
  have hk : (Trojan.keyHex C pw).length = 56 := by
    simp [Trojan.keyHex, hexBytes_length, hC.sha224_len]
  have henc : (Trojan.clientEncodeTcp C pw addr {} w).1 =
      Trojan.keyHex C pw ++ ([13, 10, 1] ++ (Socks5Addr.encode addr ++ ([13, 10] ++ w))) := by
    simp [Trojan.clientEncodeTcp, Trojan.header, Trojan.crlf, u8, List.append_assoc]
  rw [henc]
  generalize hkk : Trojan.keyHex C pw = key at hk
  have hal : 2 ≤ (Socks5Addr.encode addr).length := by cases addr <;> simp [Socks5Addr.encode] <;> omega
  have htry := c14_socks5_try_decode_at addr (key ++ [13, 10, 1]) ([13, 10] ++ w) ha
  have hpre : (key ++ [13, 10, 1]).length = 59 := by simp [hk]
  rw [hpre] at htry
  have hshape : key ++ ([13, 10, 1] ++ (Socks5Addr.encode addr ++ ([13, 10] ++ w))) =
      key ++ [13, 10, 1] ++ Socks5Addr.encode addr ++ ([13, 10] ++ w) := by simp [List.append_assoc]
  unfold Trojan.serverDecode
  rw [if_neg (by simp)]
  simp only []
  rw [if_neg (by simp [hk]; omega), hshape, htry]
  simp only []
  rw [if_neg (by simp [hk]; omega)]
  have h56 : (key ++ [13, 10, 1] ++ Socks5Addr.encode addr ++ ([13, 10] ++ w)).getD 56 0 = 13 := by
    simp [List.getD_eq_getElem?_getD, List.getElem?_append, hk]
  have h58 : (key ++ [13, 10, 1] ++ Socks5Addr.encode addr ++ ([13, 10] ++ w)).getD 58 0 = 1 := by
    simp [List.getD_eq_getElem?_getD, List.getElem?_append, hk]
  have ht56 : (key ++ [13, 10, 1] ++ Socks5Addr.encode addr ++ ([13, 10] ++ w)).take 56 = key := by
    rw [List.append_assoc, List.append_assoc]; exact List.take_left' hk
  have hd59 : (key ++ [13, 10, 1] ++ Socks5Addr.encode addr ++ ([13, 10] ++ w)).drop 59 = Socks5Addr.encode addr ++ ([13, 10] ++ w) := by
    rw [List.append_assoc]; exact List.drop_left' hpre
  rw [h56, ht56, h58, hd59]
  simp [hkk, c14_socks5_roundtrip addr _ ha]

end Octo
