import Octo.Props.C16
/-!
# Non-vacuity of `c16_bad_key_rejected`
`String.splitOn` is defined by well-founded recursion and does not reduce in the kernel, so the
hypothesis `∃ part ∈ password.splitOn ":", …` cannot be discharged by `decide`; the split is computed
here by conditional rewriting with the unfolding equations of `String.splitOnAux`.
-/
namespace Octo.NonVacuity.C16Split
open Octo

open String in
theorem aux_end (s sep : String) (b i j : Pos.Raw) (r : List String) (h : i.atEnd s = true) :
    splitOnAux s sep b i j r = ((b.extract s i) :: r).reverse := by
  rw [splitOnAux]; simp [h]
open String in
theorem aux_ne (s sep : String) (b i j : Pos.Raw) (r : List String) (h1 : i.atEnd s = false)
    (h2 : (i.get s == j.get sep) = false) :
    splitOnAux s sep b i j r = splitOnAux s sep b ((i.unoffsetBy j).next s) 0 r := by
  rw [splitOnAux]; simp [h1, h2]
open String in
theorem aux_sep (s sep : String) (b i j : Pos.Raw) (r : List String) (h1 : i.atEnd s = false)
    (h2 : (i.get s == j.get sep) = true) (h3 : (j.next sep).atEnd sep = true) :
    splitOnAux s sep b i j r =
      splitOnAux s sep (i.next s) (i.next s) 0 (b.extract s ((i.next s).unoffsetBy (j.next sep)) :: r) := by
  rw [splitOnAux]; simp [h1, h2, h3]

theorem split_pw : "AAAAAAAAAAAAAAAAAAAAAA==:bad".splitOn ":" = ["AAAAAAAAAAAAAAAAAAAAAA==", "bad"] := by
  simp only [String.splitOn, show (":" == "") = false by decide, Bool.false_eq_true, if_false]
  simp (disch := decide +kernel) only [aux_end, aux_ne, aux_sep]
  decide

/-- a 2022 password whose first part is a good 16-byte key and whose second part is not base64 of 16 bytes -/
example : Ss.passwordToKeys 16 "AAAAAAAAAAAAAAAAAAAAAA==:bad" = none :=
  Config.c16_bad_key_rejected 16 "AAAAAAAAAAAAAAAAAAAAAA==:bad"
    ⟨"bad", by rw [split_pw]; decide, by decide +kernel⟩

end Octo.NonVacuity.C16Split
