import Octo.Proofs.Ss2022Stream
/-!
# C04 (Shadowsocks 2022): whole-stream round trip and segmentation independence with the first-read exemption
Property theorems only; the lemmas are in `Octo/Proofs/Ss2022Stream.lean`.
-/
namespace Octo.Ss
open Octo.Fr

/-! # C04 for Shadowsocks 2022 — the property theorems

`Delivered C ctx env o salt payload sess` is the verdict on a decoder result `o`: exactly `payload` came out, in
order; no failure; nothing is left in the buffer; the decoder's session is `sess`; the event stream is
one `accepted salt` followed by the payload bytes; and the decoder is quiescent (`unit … = need`: every
complete frame has been delivered, nothing decodable waits for further input).
-/

def Delivered (C : Crypto) (ctx : Ctx) (env : DecEnv) (o : Out Dec Ev) (salt payload : Bytes) (sess : Sess) : Prop :=
  Ev.bytes o.out = payload ∧ o.failed = false ∧ o.buf = [] ∧ o.st.sess = sess ∧
    o.out = .accepted salt :: payload.map .byte ∧ o.out.count (.accepted salt) = 1 ∧
    unit C ctx env o.st o.buf = .need

/-- **Request (client → server), pre-shared-key mode, whole stream.**  Hypotheses beyond the task's:
`cs.requestSalt = none` (a request carries no echoed salt), `r.now < 2^64` (the timestamp field),
and the fit condition `hpad`: address ‖ padding length ‖ padding must lie within the first 0xffff
bytes, i.e. inside the variable-length header (`pad_fits`: implied by the sender's own padding bound). -/
theorem c04_ss2022_request_stream (C : Crypto) (hC : C.Lawful) (ctx : Ctx) (hk : ctx.kind.is2022 = true)
    (hu : ctx.users = []) (hik : ctx.identityKeys = []) (cs ds : Sess) (env : DecEnv) (ad : Addr)
    (hm : cs.mode = .client) (ha : cs.address = some ad) (hs : cs.salt.length = ctx.kind.n)
    (hcu : cs.user = none) (hrs : cs.requestSalt = none) (hdm : ds.mode = .server) (hda : ds.address = none)
    (w : Bytes) (r : EncRand) (ws : List (Bytes × EncRand)) (had : ad.Accepted)
    (hpad : (Socks5Addr.encode ad).length + 2 + r.padding.length ≤ 0xffff)
    (hnow : r.now < 18446744073709551616) (htime : absDiff env.now r.now ≤ Consts.ssMaxTimeDiff)
    (hseen : env.saltSeen cs.salt = false) :
    Delivered C ctx env (run (unit C ctx env) ⟨none, ds⟩ (encodeAll C ctx cs {} ((w, r) :: ws)).1)
      cs.salt (w :: ws.map Prod.fst).flatten { ds with requestSalt := some cs.salt, address := some ad } := by
  obtain ⟨a', _, h⟩ := request_psk C hC ctx hk hu hik cs ds env ad hm ha hs hcu hrs hdm hda w r ws hpad hnow htime hseen had
  exact delivered C ctx env _ a' _ _ _ h

/-- non-vacuity: a concrete request with three later writes (one of them empty) -/
example : Delivered Crypto.toy Demo22.ctx Demo22.env
    (run (unit Crypto.toy Demo22.ctx Demo22.env) ⟨none, Demo22.ds⟩ Demo22.wire)
    Demo22.cs.salt [1, 2, 3, 4, 5, 6] { Demo22.ds with requestSalt := some Demo22.cs.salt, address := some Demo22.ad } :=
  c04_ss2022_request_stream Crypto.toy Crypto.toy_lawful Demo22.ctx rfl rfl rfl Demo22.cs Demo22.ds Demo22.env Demo22.ad
    rfl rfl rfl rfl rfl rfl rfl [1, 2, 3] Demo22.r Demo22.ws (by decide) (by decide) (by decide) (by decide) rfl

/-- **Response (server → client), whole stream.** -/
theorem c04_ss2022_response_stream (C : Crypto) (hC : C.Lawful) (ctx : Ctx) (hk : ctx.kind.is2022 = true)
    (ss ds : Sess) (env : DecEnv) (reqSalt : Bytes)
    (hm : ss.mode = .server) (hs : ss.salt.length = ctx.kind.n) (hrs : ss.requestSalt = some reqSalt)
    (hsu : ss.user = none) (hdm : ds.mode = .client) (hdsalt : ds.salt = reqSalt) (hrl : reqSalt.length = ctx.kind.n)
    (w : Bytes) (r : EncRand) (ws : List (Bytes × EncRand))
    (hnow : r.now < 18446744073709551616) (htime : absDiff env.now r.now ≤ Consts.ssMaxTimeDiff)
    (hseen : env.saltSeen ss.salt = false) :
    Delivered C ctx env (run (unit C ctx env) ⟨none, ds⟩ (encodeAll C ctx ss {} ((w, r) :: ws)).1)
      ss.salt (w :: ws.map Prod.fst).flatten { ds with requestSalt := some reqSalt } := by
  obtain ⟨a', _, h⟩ := response_psk C hC ctx hk ss ds env reqSalt hm hs hrs hsu hdm hdsalt hrl w r ws hnow htime hseen
  exact delivered C ctx env _ a' _ _ _ h

example : Delivered Crypto.toy Demo22.ctx Demo22.env
    (run (unit Crypto.toy Demo22.ctx Demo22.env) ⟨none, Demo22.cds⟩ Demo22.rwire)
    Demo22.ss.salt [8, 9, 4, 5, 6] { Demo22.cds with requestSalt := some Demo22.cs.salt } :=
  c04_ss2022_response_stream Crypto.toy Crypto.toy_lawful Demo22.ctx rfl Demo22.ss Demo22.cds Demo22.env Demo22.cs.salt
    rfl rfl rfl rfl rfl rfl rfl [8, 9] Demo22.r Demo22.ws (by decide) (by decide) rfl

/-- **Request, any segmentation whose first read holds salt ‖ fixed-length header** (`n + 27` bytes):
the result is the whole-stream result, and the decoder ends quiescent. -/
theorem c04_ss2022_request_segmented (C : Crypto) (hC : C.Lawful) (ctx : Ctx) (hk : ctx.kind.is2022 = true)
    (hu : ctx.users = []) (hik : ctx.identityKeys = []) (cs ds : Sess) (env : DecEnv) (ad : Addr)
    (hm : cs.mode = .client) (ha : cs.address = some ad) (hs : cs.salt.length = ctx.kind.n)
    (hcu : cs.user = none) (hrs : cs.requestSalt = none) (hdm : ds.mode = .server) (hda : ds.address = none)
    (w : Bytes) (r : EncRand) (ws : List (Bytes × EncRand)) (had : ad.Accepted)
    (hpad : (Socks5Addr.encode ad).length + 2 + r.padding.length ≤ 0xffff)
    (hnow : r.now < 18446744073709551616) (htime : absDiff env.now r.now ≤ Consts.ssMaxTimeDiff)
    (hseen : env.saltSeen cs.salt = false)
    (p0 : Bytes) (ps : List Bytes) (hcut : (p0 :: ps).flatten = (encodeAll C ctx cs {} ((w, r) :: ws)).1)
    (hp0 : ctx.kind.n + 27 ≤ p0.length) :
    (p0 :: ps).foldl (feed (unit C ctx env)) (run (unit C ctx env) ⟨none, ds⟩ []) =
        run (unit C ctx env) ⟨none, ds⟩ (encodeAll C ctx cs {} ((w, r) :: ws)).1 ∧
    Delivered C ctx env ((p0 :: ps).foldl (feed (unit C ctx env)) (run (unit C ctx env) ⟨none, ds⟩ []))
      cs.salt (w :: ws.map Prod.fst).flatten { ds with requestSalt := some cs.salt, address := some ad } := by
  have hseg := segmented_eq_whole C hC ctx env hk ds p0 ps (by rw [hdrLen_request_psk ctx ds hu hdm]; exact hp0)
  rw [hcut] at hseg
  rw [hseg]
  exact ⟨rfl, c04_ss2022_request_stream C hC ctx hk hu hik cs ds env ad hm ha hs hcu hrs hdm hda w r ws had hpad hnow htime hseen⟩

/-- non-vacuity: first read = exactly salt ‖ fixed-length header (43 bytes), then 1 byte, an empty
read, and the rest -/
example : Delivered Crypto.toy Demo22.ctx Demo22.env
    ([Demo22.wire.take 43, (Demo22.wire.drop 43).take 1, [], Demo22.wire.drop 44].foldl
      (feed (unit Crypto.toy Demo22.ctx Demo22.env)) (run (unit Crypto.toy Demo22.ctx Demo22.env) ⟨none, Demo22.ds⟩ []))
    Demo22.cs.salt [1, 2, 3, 4, 5, 6] { Demo22.ds with requestSalt := some Demo22.cs.salt, address := some Demo22.ad } :=
  (c04_ss2022_request_segmented Crypto.toy Crypto.toy_lawful Demo22.ctx rfl rfl rfl Demo22.cs Demo22.ds Demo22.env Demo22.ad
    rfl rfl rfl rfl rfl rfl rfl [1, 2, 3] Demo22.r Demo22.ws (by decide) (by decide) (by decide) (by decide) rfl
    (Demo22.wire.take 43) [(Demo22.wire.drop 43).take 1, [], Demo22.wire.drop 44]
    (by
      show _ = Demo22.wire
      simp only [List.flatten_cons, List.flatten_nil, List.append_nil, List.nil_append]
      rw [show Demo22.wire.drop 44 = (Demo22.wire.drop 43).drop 1 by rw [List.drop_drop],
        List.take_append_drop, List.take_append_drop])
    (by decide +kernel)).2

/-- **Response, any segmentation whose first read holds salt ‖ fixed-length header** (`n + (n + 27)` bytes:
the response's fixed-length header echoes the request salt). -/
theorem c04_ss2022_response_segmented (C : Crypto) (hC : C.Lawful) (ctx : Ctx) (hk : ctx.kind.is2022 = true)
    (ss ds : Sess) (env : DecEnv) (reqSalt : Bytes)
    (hm : ss.mode = .server) (hs : ss.salt.length = ctx.kind.n) (hrs : ss.requestSalt = some reqSalt)
    (hsu : ss.user = none) (hdm : ds.mode = .client) (hdsalt : ds.salt = reqSalt) (hrl : reqSalt.length = ctx.kind.n)
    (w : Bytes) (r : EncRand) (ws : List (Bytes × EncRand))
    (hnow : r.now < 18446744073709551616) (htime : absDiff env.now r.now ≤ Consts.ssMaxTimeDiff)
    (hseen : env.saltSeen ss.salt = false)
    (p0 : Bytes) (ps : List Bytes) (hcut : (p0 :: ps).flatten = (encodeAll C ctx ss {} ((w, r) :: ws)).1)
    (hp0 : ctx.kind.n + (ctx.kind.n + 27) ≤ p0.length) :
    (p0 :: ps).foldl (feed (unit C ctx env)) (run (unit C ctx env) ⟨none, ds⟩ []) =
        run (unit C ctx env) ⟨none, ds⟩ (encodeAll C ctx ss {} ((w, r) :: ws)).1 ∧
    Delivered C ctx env ((p0 :: ps).foldl (feed (unit C ctx env)) (run (unit C ctx env) ⟨none, ds⟩ []))
      ss.salt (w :: ws.map Prod.fst).flatten { ds with requestSalt := some reqSalt } := by
  have hseg := segmented_eq_whole C hC ctx env hk ds p0 ps (by rw [hdrLen_response ctx ds hdm]; exact hp0)
  rw [hcut] at hseg
  rw [hseg]
  exact ⟨rfl, c04_ss2022_response_stream C hC ctx hk ss ds env reqSalt hm hs hrs hsu hdm hdsalt hrl w r ws hnow htime hseen⟩

example : Delivered Crypto.toy Demo22.ctx Demo22.env
    ([Demo22.rwire.take 59, Demo22.rwire.drop 59].foldl
      (feed (unit Crypto.toy Demo22.ctx Demo22.env)) (run (unit Crypto.toy Demo22.ctx Demo22.env) ⟨none, Demo22.cds⟩ []))
    Demo22.ss.salt [8, 9, 4, 5, 6] { Demo22.cds with requestSalt := some Demo22.cs.salt } :=
  (c04_ss2022_response_segmented Crypto.toy Crypto.toy_lawful Demo22.ctx rfl Demo22.ss Demo22.cds Demo22.env Demo22.cs.salt
    rfl rfl rfl rfl rfl rfl rfl [8, 9] Demo22.r Demo22.ws (by decide) (by decide) rfl
    (Demo22.rwire.take 59) [Demo22.rwire.drop 59]
    (by
      show _ = Demo22.rwire
      simp only [List.flatten_cons, List.flatten_nil, List.append_nil]
      rw [List.take_append_drop])
    (by decide +kernel)).2

/-- **Identity-header (multi-user) request, whole stream**: client context `cctx` (its key = a
registered user's key, one identity key `ipsk`), server context `sctx` (its key = `ipsk`, the user is
found by the hash the identity header carries).  The server's session records the user. -/
theorem c04_ss2022_request_eih_stream (C : Crypto) (hC : C.Lawful) (cctx sctx : Ctx) (hkind : cctx.kind = sctx.kind)
    (hse : sctx.kind.supportEih = true) (ipsk : Bytes) (hcik : cctx.identityKeys = [ipsk]) (hskey : sctx.key = ipsk)
    (u : User) (hukey : u.key = cctx.key)
    (hfind : findUser sctx.users ((C.blake3Hash cctx.key).take 16) = some u)
    (cs ds : Sess) (env : DecEnv) (ad : Addr)
    (hm : cs.mode = .client) (ha : cs.address = some ad) (hs : cs.salt.length = sctx.kind.n)
    (hcu : cs.user = none) (hrs : cs.requestSalt = none) (hdm : ds.mode = .server) (hda : ds.address = none)
    (w : Bytes) (r : EncRand) (ws : List (Bytes × EncRand)) (had : ad.Accepted)
    (hpad : (Socks5Addr.encode ad).length + 2 + r.padding.length ≤ 0xffff)
    (hnow : r.now < 18446744073709551616) (htime : absDiff env.now r.now ≤ Consts.ssMaxTimeDiff)
    (hseen : env.saltSeen cs.salt = false) :
    Delivered C sctx env (run (unit C sctx env) ⟨none, ds⟩ (encodeAll C cctx cs {} ((w, r) :: ws)).1)
      cs.salt (w :: ws.map Prod.fst).flatten
      { ds with requestSalt := some cs.salt, user := some u, address := some ad } := by
  obtain ⟨_, a', _, h⟩ := request_eih C hC cctx sctx hkind hse ipsk hcik hskey u hukey hfind cs ds env ad hm ha hs hcu hrs
    hdm hda w r ws hpad hnow htime hseen had
  exact delivered C sctx env _ a' _ _ _ h

/-- non-vacuity: two registered users, the second one connects -/
example : Delivered Crypto.toy Demo22.sctx Demo22.env
    (run (unit Crypto.toy Demo22.sctx Demo22.env) ⟨none, Demo22.ds⟩ Demo22.ewire)
    Demo22.cs.salt [1, 2, 3, 4, 5, 6]
    { Demo22.ds with requestSalt := some Demo22.cs.salt, user := some Demo22.user, address := some Demo22.ad } :=
  c04_ss2022_request_eih_stream Crypto.toy Crypto.toy_lawful Demo22.cctx Demo22.sctx rfl rfl Demo22.ipsk rfl rfl Demo22.user rfl
    (by decide +kernel) Demo22.cs Demo22.ds Demo22.env Demo22.ad rfl rfl rfl rfl rfl rfl rfl [1, 2, 3] Demo22.r Demo22.ws
    (by decide) (by decide) (by decide) (by decide) rfl

/-- **Identity-header request, any segmentation whose first read holds salt ‖ identity header ‖
fixed-length header** (`n + 43` bytes). -/
theorem c04_ss2022_request_eih_segmented (C : Crypto) (hC : C.Lawful) (cctx sctx : Ctx) (hkind : cctx.kind = sctx.kind)
    (hse : sctx.kind.supportEih = true) (ipsk : Bytes) (hcik : cctx.identityKeys = [ipsk]) (hskey : sctx.key = ipsk)
    (u : User) (hukey : u.key = cctx.key)
    (hfind : findUser sctx.users ((C.blake3Hash cctx.key).take 16) = some u)
    (cs ds : Sess) (env : DecEnv) (ad : Addr)
    (hm : cs.mode = .client) (ha : cs.address = some ad) (hs : cs.salt.length = sctx.kind.n)
    (hcu : cs.user = none) (hrs : cs.requestSalt = none) (hdm : ds.mode = .server) (hda : ds.address = none)
    (w : Bytes) (r : EncRand) (ws : List (Bytes × EncRand)) (had : ad.Accepted)
    (hpad : (Socks5Addr.encode ad).length + 2 + r.padding.length ≤ 0xffff)
    (hnow : r.now < 18446744073709551616) (htime : absDiff env.now r.now ≤ Consts.ssMaxTimeDiff)
    (hseen : env.saltSeen cs.salt = false)
    (p0 : Bytes) (ps : List Bytes) (hcut : (p0 :: ps).flatten = (encodeAll C cctx cs {} ((w, r) :: ws)).1)
    (hp0 : sctx.kind.n + 43 ≤ p0.length) :
    (p0 :: ps).foldl (feed (unit C sctx env)) (run (unit C sctx env) ⟨none, ds⟩ []) =
        run (unit C sctx env) ⟨none, ds⟩ (encodeAll C cctx cs {} ((w, r) :: ws)).1 ∧
    Delivered C sctx env ((p0 :: ps).foldl (feed (unit C sctx env)) (run (unit C sctx env) ⟨none, ds⟩ []))
      cs.salt (w :: ws.map Prod.fst).flatten
      { ds with requestSalt := some cs.salt, user := some u, address := some ad } := by
  have hreq := (request_eih C hC cctx sctx hkind hse ipsk hcik hskey u hukey hfind cs ds env ad hm ha hs hcu hrs
    hdm hda w r ws hpad hnow htime hseen had).1
  have hseg := segmented_eq_whole C hC sctx env (kind_eih_2022 _ hse) ds p0 ps
    (by rw [hdrLen_request_eih sctx ds hreq hdm]; exact hp0)
  rw [hcut] at hseg
  rw [hseg]
  exact ⟨rfl, c04_ss2022_request_eih_stream C hC cctx sctx hkind hse ipsk hcik hskey u hukey hfind cs ds env ad hm ha hs
    hcu hrs hdm hda w r ws had hpad hnow htime hseen⟩

example : Delivered Crypto.toy Demo22.sctx Demo22.env
    ([Demo22.ewire.take 60, Demo22.ewire.drop 60].foldl
      (feed (unit Crypto.toy Demo22.sctx Demo22.env)) (run (unit Crypto.toy Demo22.sctx Demo22.env) ⟨none, Demo22.ds⟩ []))
    Demo22.cs.salt [1, 2, 3, 4, 5, 6]
    { Demo22.ds with requestSalt := some Demo22.cs.salt, user := some Demo22.user, address := some Demo22.ad } :=
  (c04_ss2022_request_eih_segmented Crypto.toy Crypto.toy_lawful Demo22.cctx Demo22.sctx rfl rfl Demo22.ipsk rfl rfl Demo22.user rfl
    (by decide +kernel) Demo22.cs Demo22.ds Demo22.env Demo22.ad rfl rfl rfl rfl rfl rfl rfl [1, 2, 3] Demo22.r Demo22.ws
    (by decide) (by decide) (by decide) (by decide) rfl
    (Demo22.ewire.take 60) [Demo22.ewire.drop 60]
    (by
      show _ = Demo22.ewire
      simp only [List.flatten_cons, List.flatten_nil, List.append_nil]
      rw [List.take_append_drop])
    (by decide +kernel)).2

/-- **Response to an identified user, whole stream and segmented**: the server's session carries the
user found by the request (`ss.user = some u`) and seals under that user's key, which is the
client's context key. -/
theorem c04_ss2022_response_eih_stream (C : Crypto) (hC : C.Lawful) (sctx cctx : Ctx) (hkind : sctx.kind = cctx.kind)
    (hk : cctx.kind.is2022 = true) (ss ds : Sess) (env : DecEnv) (reqSalt : Bytes) (u : User)
    (hm : ss.mode = .server) (hs : ss.salt.length = cctx.kind.n) (hrs : ss.requestSalt = some reqSalt)
    (hsu : ss.user = some u) (hukey : u.key = cctx.key)
    (hdm : ds.mode = .client) (hdsalt : ds.salt = reqSalt) (hrl : reqSalt.length = cctx.kind.n)
    (w : Bytes) (r : EncRand) (ws : List (Bytes × EncRand))
    (hnow : r.now < 18446744073709551616) (htime : absDiff env.now r.now ≤ Consts.ssMaxTimeDiff)
    (hseen : env.saltSeen ss.salt = false) :
    Delivered C cctx env (run (unit C cctx env) ⟨none, ds⟩ (encodeAll C sctx ss {} ((w, r) :: ws)).1)
      ss.salt (w :: ws.map Prod.fst).flatten { ds with requestSalt := some reqSalt } := by
  have hk' : sctx.kind.is2022 = true := by rw [hkind]; exact hk
  obtain ⟨a', _, h⟩ := response_core C hC sctx cctx hkind hk ss ds env reqSalt hm hs hrs hdm hdsalt hrl
    (by simp [encKey, hsu, hk', hukey]) w r ws hnow htime hseen
  exact delivered C cctx env _ a' _ _ _ h

example : Delivered Crypto.toy Demo22.cctx Demo22.env
    (run (unit Crypto.toy Demo22.cctx Demo22.env) ⟨none, Demo22.cds⟩ Demo22.uwire)
    Demo22.uss.salt [8, 9, 4, 5, 6] { Demo22.cds with requestSalt := some Demo22.cs.salt } :=
  c04_ss2022_response_eih_stream Crypto.toy Crypto.toy_lawful Demo22.sctx Demo22.cctx rfl rfl Demo22.uss Demo22.cds Demo22.env
    Demo22.cs.salt Demo22.user rfl rfl rfl rfl rfl rfl rfl rfl [8, 9] Demo22.r Demo22.ws (by decide) (by decide) rfl


theorem c04_ss2022_response_eih_segmented (C : Crypto) (hC : C.Lawful) (sctx cctx : Ctx) (hkind : sctx.kind = cctx.kind)
    (hk : cctx.kind.is2022 = true) (ss ds : Sess) (env : DecEnv) (reqSalt : Bytes) (u : User)
    (hm : ss.mode = .server) (hs : ss.salt.length = cctx.kind.n) (hrs : ss.requestSalt = some reqSalt)
    (hsu : ss.user = some u) (hukey : u.key = cctx.key)
    (hdm : ds.mode = .client) (hdsalt : ds.salt = reqSalt) (hrl : reqSalt.length = cctx.kind.n)
    (w : Bytes) (r : EncRand) (ws : List (Bytes × EncRand))
    (hnow : r.now < 18446744073709551616) (htime : absDiff env.now r.now ≤ Consts.ssMaxTimeDiff)
    (hseen : env.saltSeen ss.salt = false)
    (p0 : Bytes) (ps : List Bytes) (hcut : (p0 :: ps).flatten = (encodeAll C sctx ss {} ((w, r) :: ws)).1)
    (hp0 : cctx.kind.n + (cctx.kind.n + 27) ≤ p0.length) :
    (p0 :: ps).foldl (feed (unit C cctx env)) (run (unit C cctx env) ⟨none, ds⟩ []) =
        run (unit C cctx env) ⟨none, ds⟩ (encodeAll C sctx ss {} ((w, r) :: ws)).1 ∧
    Delivered C cctx env ((p0 :: ps).foldl (feed (unit C cctx env)) (run (unit C cctx env) ⟨none, ds⟩ []))
      ss.salt (w :: ws.map Prod.fst).flatten { ds with requestSalt := some reqSalt } := by
  have hseg := segmented_eq_whole C hC cctx env hk ds p0 ps (by rw [hdrLen_response cctx ds hdm]; exact hp0)
  rw [hcut] at hseg
  rw [hseg]
  exact ⟨rfl, c04_ss2022_response_eih_stream C hC sctx cctx hkind hk ss ds env reqSalt u hm hs hrs hsu hukey hdm hdsalt hrl
    w r ws hnow htime hseen⟩

example : Delivered Crypto.toy Demo22.cctx Demo22.env
    ([Demo22.uwire.take 59, Demo22.uwire.drop 59].foldl
      (feed (unit Crypto.toy Demo22.cctx Demo22.env)) (run (unit Crypto.toy Demo22.cctx Demo22.env) ⟨none, Demo22.cds⟩ []))
    Demo22.uss.salt [8, 9, 4, 5, 6] { Demo22.cds with requestSalt := some Demo22.cs.salt } :=
  (c04_ss2022_response_eih_segmented Crypto.toy Crypto.toy_lawful Demo22.sctx Demo22.cctx rfl rfl Demo22.uss Demo22.cds Demo22.env
    Demo22.cs.salt Demo22.user rfl rfl rfl rfl rfl rfl rfl rfl [8, 9] Demo22.r Demo22.ws (by decide) (by decide) rfl
    (Demo22.uwire.take 59) [Demo22.uwire.drop 59]
    (by
      show _ = Demo22.uwire
      simp only [List.flatten_cons, List.flatten_nil, List.append_nil]
      rw [List.take_append_drop])
    (by decide +kernel)).2

/-! ### the extra hypotheses are needed (concrete refusals, toy crypto) -/

/-- the exemption is real: the same honest request, cut one byte short of the fixed-length header in
the first read, is refused -/
example : ([Demo22.wire.take 42, Demo22.wire.drop 42].foldl
      (feed (unit Crypto.toy Demo22.ctx Demo22.env)) (run (unit Crypto.toy Demo22.ctx Demo22.env) ⟨none, Demo22.ds⟩ [])).failed = true := by
  decide +kernel

/-- `cs.requestSalt = none` is needed: a client session that already carries a request salt writes a
longer fixed-length header, which the server refuses -/
example : (run (unit Crypto.toy Demo22.ctx Demo22.env) ⟨none, Demo22.ds⟩
    (encodeAll Crypto.toy Demo22.ctx { Demo22.cs with requestSalt := some [1] } {} (([1, 2, 3], Demo22.r) :: Demo22.ws)).1).failed = true := by
  decide +kernel

/-- the fit condition is needed — see `request_pad_overflow_fails` (every lawful `C`); a concrete
instance of its hypotheses: a 7-byte address and 65527 bytes of padding -/
example : (0xffff : Nat) < (Socks5Addr.encode Demo22.ad).length + 2 + (List.replicate 65527 (0 : UInt8)).length ∧
    (List.replicate 65527 (0 : UInt8)).length < 65536 := by
  rw [List.length_replicate]; decide

end Octo.Ss
