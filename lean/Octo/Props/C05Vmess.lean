import Octo.Proofs.VmessTamper
import Octo.Proofs.ToyStrong
/-!
# C05 (VMess AEAD body codec): tampered ciphertext is never delivered

The cryptographic assumption is a **hypothesis**, `VmNoForgery C e ps s` (`Octo/Proofs/VmessTamper.lean`):
the received bytes `s` contain no forgery — no contiguous block of `s` opens under the payload key and
the i-th payload nonce `Nonce.counting e.iv (e.count + i) 12` except the i-th payload ciphertext the
honest sender sealed (to the i-th plaintext `ps[i]`), and, with the authenticated-length option, none
opens under the size key and the i-th size nonce except the sender's i-th sealed size.  It is relative
to `s` because the same statement about *all* byte strings contradicts `Lawful`
(`payloadNoForgery_global_inconsistent`).  Counting nonces wrap after 65536 chunks; the hypothesis is
meant for (and in general only satisfiable in) sessions of fewer than 65536 chunks per direction.

What is proved is the codec's part, for every option combination (size kind plain / authenticated /
SHAKE-masked, global padding on / off, both ciphers), every such `s` and every segmentation:

* the bytes released are `(ps.take k).flatten` for some `k` — a prefix of what the sender wrote;
  this needs only the payload half of the hypothesis and no law of the cipher
  (`c05_vmess_body_released_prefix`): with the plain and the masked length the size field and the
  padding are not authenticated, an attacker can change them, but a chunk is released only if the
  block cut out accordingly opens under the next payload nonce;
* moreover the bytes consumed for those `k` chunks are exactly what the honest sender writes for them
  with *some* padding bytes of the right lengths (`c05_vmess_body_prefix`): for **all three** size
  kinds the size field of a released chunk is the sender's (a different value cuts out a block of
  another length, which is not the sender's ciphertext); only the padding bytes themselves are free;
* nothing is released after the first failure (`c05_vmess_nothing_after_failure`).
-/
namespace Octo.Vmess
open Octo.Fr

/-- **C05, VMess body, released bytes** (no law of the cipher, payload integrity only): for a
receiver synchronised with the sender, honest chunk plaintexts `ps` and *any* received bytes `s`
without a forged payload block, what the decoder releases is the first `k` chunks, whole -/
theorem c05_vmess_body_released_prefix (C : Crypto) (e d : Body) (hs : Body.Sync e d) (ps : List Bytes) (s : Bytes)
    (hnf : PayloadNoForgeryOn (· <:+: s) C e ps) :
    ∃ k, k ≤ ps.length ∧ (run (Body.unit C) d s).out = (ps.take k).flatten := by
  have hd : d = { e with st := .padding } := hs
  subst hd
  refine vm_prefix_out C ps _ s rfl ?_
  intro i x pt hi hx ho
  rw [Body.payloadBlocks_st]
  exact hnf i x pt hi hx ho

/-- **C05, VMess body**: released = the first `k` honest chunks, and the bytes consumed for them =
the honest sender's bytes for those chunks (with some padding bytes of the codec's padding lengths),
which `s` starts with: everything released lies before the first tampered (non-padding) byte.
`ChunksFit`: each plaintext is what one chunk carries (true of the chunks of any write: `Body.cut_fits`). -/
theorem c05_vmess_body_prefix (C : Crypto) (hC : C.Lawful) (e d : Body) (hs : Body.Sync e d) (ps : List Bytes)
    (hfit : e.ChunksFit C ps) (s : Bytes) (hnf : VmNoForgery C e ps s) :
    ∃ k pads, k ≤ ps.length ∧ pads.length = k ∧ e.PadsExact C pads ∧
      (run (Body.unit C) d s).out = (ps.take k).flatten ∧
      (e.encodeChunks C (ps.take k) pads).1 <+: s := by
  have hnf' : VmNoForgery C d ps s := VmNoForgeryOn.of_sync hs hnf
  have hd : d = { e with st := .padding } := hs
  subst hd
  obtain ⟨k, pads, hk, hl, hpe, hout, hpre⟩ := vm_prefix C hC ps _ s rfl hnf' ((Body.chunksFit_st C ps e _).mpr hfit)
  exact ⟨k, pads, hk, hl, (Body.padsExact_st C pads e _).mp hpe, hout, by rw [← Body.encodeChunks_st]; exact hpre⟩

/-- **C05, VMess body, any segmentation**: the same when the bytes arrive in any pieces -/
theorem c05_vmess_body_prefix_segmented (C : Crypto) (hC : C.Lawful) (e d : Body) (hs : Body.Sync e d) (ps : List Bytes)
    (hfit : e.ChunksFit C ps) (pieces : List Bytes) (hnf : VmNoForgery C e ps pieces.flatten) :
    ∃ k pads, k ≤ ps.length ∧ pads.length = k ∧ e.PadsExact C pads ∧
      (pieces.foldl (feed (Body.unit C)) (run (Body.unit C) d [])).out = (ps.take k).flatten ∧
      (e.encodeChunks C (ps.take k) pads).1 <+: pieces.flatten := by
  have := feed_pieces (Body.unit C) (body_unit_good C) pieces d []
  rw [this, List.nil_append]
  exact c05_vmess_body_prefix C hC e d hs ps hfit pieces.flatten hnf

/-- the released-bytes statement through any segmentation (no law of the cipher) -/
theorem c05_vmess_body_released_prefix_segmented (C : Crypto) (e d : Body) (hs : Body.Sync e d) (ps : List Bytes)
    (pieces : List Bytes) (hnf : PayloadNoForgeryOn (· <:+: pieces.flatten) C e ps) :
    ∃ k, k ≤ ps.length ∧ (pieces.foldl (feed (Body.unit C)) (run (Body.unit C) d [])).out = (ps.take k).flatten := by
  have := feed_pieces (Body.unit C) (body_unit_good C) pieces d []
  rw [this, List.nil_append]
  exact c05_vmess_body_released_prefix C e d hs ps pieces.flatten hnf

/-- **nothing after a failure**: once the VMess body stream has failed (a size or a payload block did
not open, or a size was impossible), whatever arrives afterwards — tampered or honest — releases nothing -/
theorem c05_vmess_nothing_after_failure (C : Crypto) (r : Out Body UInt8) (hf : r.failed = true) (more : List Bytes) :
    (more.foldl (feed (Body.unit C)) r).out = r.out ∧ (more.foldl (feed (Body.unit C)) r).failed = true :=
  ⟨(feed_failed _ more r hf).2.1, (feed_failed _ more r hf).1⟩

/-- C05 up to the failure, nothing after it: if the pieces received so far contain no forgery and the
stream failed on them, then for *any* further pieces (no hypothesis about them) the total released is
still a prefix of the sender's chunks -/
theorem c05_vmess_prefix_then_failure (C : Crypto) (e d : Body) (hs : Body.Sync e d) (ps : List Bytes)
    (pieces more : List Bytes) (hnf : PayloadNoForgeryOn (· <:+: pieces.flatten) C e ps)
    (hf : (pieces.foldl (feed (Body.unit C)) (run (Body.unit C) d [])).failed = true) :
    ∃ k, k ≤ ps.length ∧
      ((pieces ++ more).foldl (feed (Body.unit C)) (run (Body.unit C) d [])).out = (ps.take k).flatten := by
  obtain ⟨k, hk, hout⟩ := c05_vmess_body_released_prefix_segmented C e d hs ps pieces hnf
  refine ⟨k, hk, ?_⟩
  rw [List.foldl_append, (c05_vmess_nothing_after_failure C _ hf more).1, hout]

/-- **one write** (`encodePayloadP`, the form the client and server codecs use; `Body.encodePayload` is
the same with the padding source cut in slices): the honest chunks are `Body.cut` of the source, the
wire is the chunk-list sender on them (`Body.encodePayloadP_eq_chunks`), and whatever bytes `s` arrive
instead of that wire, what is released is a prefix of `src` -/
theorem c05_vmess_payload_prefix (C : Crypto) (hC : C.Lawful) (e d : Body) (hs : Body.Sync e d) (src : Bytes) (s : Bytes)
    (hnf : VmNoForgery C e (Body.cut C (src.length + 1) e src) s) :
    ∃ k pads, pads.length = k ∧ e.PadsExact C pads ∧
      (run (Body.unit C) d s).out = ((Body.cut C (src.length + 1) e src).take k).flatten ∧
      (run (Body.unit C) d s).out <+: src ∧
      (e.encodeChunks C ((Body.cut C (src.length + 1) e src).take k) pads).1 <+: s := by
  obtain ⟨k, pads, _, hl, hpe, hout, hpre⟩ :=
    c05_vmess_body_prefix C hC e d hs _ (Body.cut_fits C _ e src) s hnf
  refine ⟨k, pads, hl, hpe, hout, ?_, hpre⟩
  rw [hout]
  have hfl := Body.cut_flatten C (src.length + 1) e src (Nat.lt_succ_self _)
  conv => rhs; rw [← hfl, ← List.take_append_drop k (Body.cut C (src.length + 1) e src), List.flatten_append]
  exact List.prefix_append _ _

/-! ### non-vacuity: the hypotheses are jointly satisfiable with `Lawful`, on tampered streams

`Crypto.toyS` (lawful; `Octo/Proofs/ToyStrong.lean`), two chunks, the three size kinds; the relative
hypothesis is evaluated by `vmNoForgeryCheck` (every contiguous block of the received bytes against
every reachable payload / size nonce). -/
namespace C05Ex

def exE (k : SizeKind) (gp : Bool) (sec : Security) : Body :=
  { sec := sec, key := [1, 2, 3], iv := [9, 9, 9, 9, 4, 5, 6, 7, 8, 9, 10, 11, 12, 13, 14, 15], size := k,
    sizeKey := [7, 7], sizeIv := List.replicate 16 (3 : UInt8), globalPadding := gp, shakeSeed := [0, 5, 1, 2, 0, 3] }

def exPs : List Bytes := [[10, 20, 30], [40]]
def exPads : List Bytes := [List.replicate 63 (0xAA : UInt8), List.replicate 63 (0xBB : UInt8)]

/-- flip the lowest bit of byte `i` -/
def flipBit (i : Nat) (s : Bytes) : Bytes := s.set i (s.getD i 0 ^^^ 1)

/-- the honest wire of the two chunks -/
def exWire (k : SizeKind) (gp : Bool) : Bytes := ((exE k gp .aes128gcm).encodeChunks Crypto.toyS exPs exPads).1

example (k : SizeKind) (gp : Bool) : Body.Sync (exE k gp .aes128gcm) (exE k gp .aes128gcm) := rfl
example : (exE .shake true .aes128gcm).ChunksFit Crypto.toyS exPs := by decide
-- the chunk-list sender on the cut of a source is the codec's own encoder
example : Body.encodePayloadP Crypto.toyS 5 (exE .shake true .aes128gcm) [10, 20, 30, 40] exPads =
    (exE .shake true .aes128gcm).encodeChunks Crypto.toyS (Body.cut Crypto.toyS 5 (exE .shake true .aes128gcm) [10, 20, 30, 40]) exPads :=
  Body.encodePayloadP_eq_chunks _ _ _ _ _

/-! (A) SHAKE-masked length + global padding (48 bytes: 2+19+5 and 2+17+3).  One bit of the second
chunk's size field — which is *not* authenticated — is flipped: the hypothesis holds, the theorem
applies, and exactly the first chunk is released. -/
theorem exA_noForgery : VmNoForgery Crypto.toyS (exE .shake true .aes128gcm) exPs (flipBit 27 (exWire .shake true)) :=
  vmNoForgery_of_check _ _ _ _ (by decide +kernel)

example : ∃ k pads, k ≤ 2 ∧ pads.length = k ∧ (exE .shake true .aes128gcm).PadsExact Crypto.toyS pads ∧
    (run (Body.unit Crypto.toyS) (exE .shake true .aes128gcm) (flipBit 27 (exWire .shake true))).out = (exPs.take k).flatten ∧
    ((exE .shake true .aes128gcm).encodeChunks Crypto.toyS (exPs.take k) pads).1 <+: flipBit 27 (exWire .shake true) :=
  c05_vmess_body_prefix Crypto.toyS Crypto.toyS_lawful _ _ rfl exPs (by decide) _ exA_noForgery

-- (the altered size is one byte longer than the rest of the stream: the decoder waits for a byte the
-- sender never wrote, and fails when any byte arrives)
example : (run (Body.unit Crypto.toyS) (exE .shake true .aes128gcm) (flipBit 27 (exWire .shake true))).out = [10, 20, 30] ∧
    (run (Body.unit Crypto.toyS) (exE .shake true .aes128gcm) (flipBit 27 (exWire .shake true) ++ [0])).out = [10, 20, 30] ∧
    (run (Body.unit Crypto.toyS) (exE .shake true .aes128gcm) (flipBit 27 (exWire .shake true) ++ [0])).failed = true := by
  decide +kernel

/-! (B) same stream, a *padding* byte of the first chunk flipped: padding is not authenticated, both
chunks are released (k = 2) — and the consumed bytes are still an honest encoding of the two chunks,
with other padding bytes -/
theorem exB_noForgery : VmNoForgery Crypto.toyS (exE .shake true .aes128gcm) exPs (flipBit 22 (exWire .shake true)) :=
  vmNoForgery_of_check _ _ _ _ (by decide +kernel)

example : (run (Body.unit Crypto.toyS) (exE .shake true .aes128gcm) (flipBit 22 (exWire .shake true))).out = [10, 20, 30, 40] := by
  decide +kernel

/-! (C) plain length, no padding (40 bytes): the two chunks swapped (reordered) — nothing is released -/
def exSwapped : Bytes := (exWire .plain false).drop 21 ++ (exWire .plain false).take 21

theorem exC_noForgery : VmNoForgery Crypto.toyS (exE .plain false .aes128gcm) exPs exSwapped :=
  vmNoForgery_of_check _ _ _ _ (by decide +kernel)

example : ∃ k, k ≤ 2 ∧ (run (Body.unit Crypto.toyS) (exE .plain false .aes128gcm) exSwapped).out = (exPs.take k).flatten :=
  c05_vmess_body_released_prefix Crypto.toyS _ _ rfl exPs _ exC_noForgery.1

example : (run (Body.unit Crypto.toyS) (exE .plain false .aes128gcm) exSwapped).out = [] ∧
    (run (Body.unit Crypto.toyS) (exE .plain false .aes128gcm) exSwapped).failed = true := by decide +kernel

/-! (D) authenticated length (sealed size blocks under the size key), chunks `[10]`, `[40]`: the
attacker delivers the first chunk, then the second chunk's size block with one bit flipped, and cuts
the rest (53 of 70 bytes): both halves of the hypothesis hold; the first chunk is released -/
def exPsD : List Bytes := [[10], [40]]
def exTamperedD : Bytes :=
  (flipBit 36 ((exE .auth false .aes128gcm).encodeChunks Crypto.toyS exPsD []).1).take 53

theorem exD_noForgery : VmNoForgery Crypto.toyS (exE .auth false .aes128gcm) exPsD exTamperedD :=
  vmNoForgery_of_check _ _ _ _ (by decide +kernel)

example : ∃ k pads, k ≤ 2 ∧ pads.length = k ∧ (exE .auth false .aes128gcm).PadsExact Crypto.toyS pads ∧
    (run (Body.unit Crypto.toyS) (exE .auth false .aes128gcm) exTamperedD).out = (exPsD.take k).flatten ∧
    ((exE .auth false .aes128gcm).encodeChunks Crypto.toyS (exPsD.take k) pads).1 <+: exTamperedD :=
  c05_vmess_body_prefix Crypto.toyS Crypto.toyS_lawful _ _ rfl exPsD (by decide) _ exD_noForgery

example : (run (Body.unit Crypto.toyS) (exE .auth false .aes128gcm) exTamperedD).out = [10] ∧
    (run (Body.unit Crypto.toyS) (exE .auth false .aes128gcm) exTamperedD).failed = true := by decide +kernel

-- after that failure nothing more is released, whatever follows (here: the honest rest of the stream)
example (more : List Bytes) :
    (more.foldl (feed (Body.unit Crypto.toyS)) (run (Body.unit Crypto.toyS) (exE .auth false .aes128gcm) exTamperedD)).out = [10] := by
  have h : (run (Body.unit Crypto.toyS) (exE .auth false .aes128gcm) exTamperedD).out = [10] ∧
      (run (Body.unit Crypto.toyS) (exE .auth false .aes128gcm) exTamperedD).failed = true := by decide +kernel
  rw [(c05_vmess_nothing_after_failure Crypto.toyS _ h.2 more).1, h.1]

end C05Ex

end Octo.Vmess
