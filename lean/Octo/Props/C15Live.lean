import Octo.Proofs.PumpLive
/-!
# C01 / C15 — from safety to progress: the relay pumps under fair schedules

`Octo/Props/C01.lean` and `Octo/Props/C15.lean` prove *safety* for every schedule (what was
delivered is a prefix of what the source handed over; a sink is closed only after everything in
front of the end was delivered; a torn-down flow stays torn down).  Those statements are satisfied
by a relay that delivers nothing.  Here: *progress* under fair schedules, for a single flow with
arbitrary scripts in both directions.

A finite schedule is **fair** for scripts `up` / `down` when each future is polled at least once per
source event of its script (`Fair`).  (`Fair'`, one more poll per direction, is the variant "once per
remaining event plus once"; it implies `Fair`, so every theorem below holds for it too.)

The state of the model after a schedule is determined by the polls that take effect: the schedule
up to and including the poll at which one of the two futures returns (`effective`, specified by
`effective_prefix`, `effective_live`, `effective_full_or_torn` in `Octo/Proofs/PumpLive.lean`).

What is **lost** when a flow is torn down: `try_join!` returns as soon as either `forward` future
returns and drops the other one.  Items of the *other* direction that its future had not yet been
polled for are never delivered — this is the design of `relay_tcp` / `relay_bidirectional`, and the
theorems say exactly which: the other direction has delivered the first `n` items in front of its
end, `n` = the number of its polls before the tear-down, the rest `(itemsBeforeEnd s).drop n` is
lost.  Nothing that a direction *was* polled for is lost, duplicated or reordered.
-/
namespace Octo.Pump

/-- **fairness** of a finite schedule for the two source scripts of a fresh flow: each future is
polled at least once per event of its source script -/
def Fair (up down : List Src) (sched : List Pick) : Prop :=
  up.length ≤ sched.count .up ∧ down.length ≤ sched.count .down

instance (up down : List Src) (sched : List Pick) : Decidable (Fair up down sched) := by
  unfold Fair; infer_instance

/-- the variant "once per remaining source event plus once" -/
def Fair' (up down : List Src) (sched : List Pick) : Prop :=
  up.length + 1 ≤ sched.count .up ∧ down.length + 1 ≤ sched.count .down

instance (up down : List Src) (sched : List Pick) : Decidable (Fair' up down sched) := by
  unfold Fair'; infer_instance

theorem Fair'.fair {up down : List Src} {sched : List Pick} (h : Fair' up down sched) : Fair up down sched :=
  ⟨by have := h.1; omega, by have := h.2; omega⟩

/-- fairness for a flow value (its remaining scripts) -/
def Flow.FairFor (f : Flow) (sched : List Pick) : Prop := Fair f.up.script f.down.script sched

/-- under a fair schedule, a flow one of whose scripts has an end is torn down -/
theorem fair_torn (up down : List Src) (sched : List Pick) (hfair : Fair up down sched)
    (hend : hasEnd up = true ∨ hasEnd down = true) :
    (rets up ((effective up down sched).count .up) || rets down ((effective up down sched).count .down)) = true := by
  rcases effective_full_or_torn up down sched with h | h
  · rw [h]
    rcases hend with he | he
    · simp [rets_of_fair up _ he hfair.1]
    · simp [rets_of_fair down _ he hfair.2]
  · exact h

/-- **C15, progress (1)**: a fair schedule drains and releases every flow that ends.

If either script contains an `eof` or a `fail`, then after every fair schedule the flow is torn
down and holds nothing, and the schedule splits as `pre ++ p :: post` where `p` is *the* poll at
which the model tears the flow down (not torn down after `pre`, the final state is the state after
`pre ++ [p]`; `post` does nothing).  Then

* each direction has delivered exactly the items it was polled for: the first
  `(pre ++ [p]).count dir` items in front of its first end — nothing else is ever delivered;
* the direction `p` that ended first has delivered **every** item in front of its first
  `eof`/`fail`, and its sink is closed iff that end is an `eof` (so: closed, after all of them);
* the other direction has not returned and its sink is not closed: of its items, exactly those it
  had been polled for before the tear-down are delivered, the remaining
  `(itemsBeforeEnd other).drop (pre.count other)` are dropped with the future (`try_join!`). -/
theorem c15_fair_schedule_drains (up down : List Src) (sched : List Pick)
    (hfair : Fair up down sched) (hend : hasEnd up = true ∨ hasEnd down = true) :
    let f := (Flow.fresh up down).run sched
    f.tornDown = true ∧ f.resources = 0 ∧
    ∃ pre p post, sched = pre ++ p :: post ∧
      ((Flow.fresh up down).run pre).tornDown = false ∧
      f = (Flow.fresh up down).run (pre ++ [p]) ∧
      f.up.delivered = (itemsBeforeEnd up).take ((pre ++ [p]).count .up) ∧
      f.down.delivered = (itemsBeforeEnd down).take ((pre ++ [p]).count .down) ∧
      (p = .up →
        f.up.returned = true ∧ f.up.delivered = itemsBeforeEnd up ∧
        f.up.sinkClosed = (firstEnd up == some .eof) ∧
        f.down.returned = false ∧ f.down.sinkClosed = false ∧
        f.down.delivered = (itemsBeforeEnd down).take (pre.count .down)) ∧
      (p = .down →
        f.down.returned = true ∧ f.down.delivered = itemsBeforeEnd down ∧
        f.down.sinkClosed = (firstEnd down == some .eof) ∧
        f.up.returned = false ∧ f.up.sinkClosed = false ∧
        f.up.delivered = (itemsBeforeEnd up).take (pre.count .up)) := by
  intro f
  have htorn := fair_torn up down sched hfair hend
  have hf : f = ⟨Dir.poll ((effective up down sched).count .up) (Dir.fresh up),
      Dir.poll ((effective up down sched).count .down) (Dir.fresh down), true⟩ := by
    show (Flow.fresh up down).run sched = _
    rw [run_fresh, htorn]
  have ht : f.tornDown = true := by rw [hf]
  refine ⟨ht, by simp [Flow.resources, ht], ?_⟩
  -- the effective prefix is not empty
  rcases List.eq_nil_or_concat (effective up down sched) with hnil | ⟨pre, p, hcat⟩
  · rw [hnil] at htorn; simp at htorn
  rw [List.concat_eq_append] at hcat
  obtain ⟨post, hpost⟩ := effective_prefix up down sched
  have hlive := effective_live up down sched pre [p] hcat.symm (by simp)
  refine ⟨pre, p, post, by rw [← hpost, hcat]; simp, ?_, ?_, ?_, ?_, ?_, ?_⟩
  · -- not torn down after `pre`
    rw [run_tornDown]
    obtain ⟨post', hpost'⟩ := effective_prefix up down pre
    have := effective_live up down sched (effective up down pre) (post' ++ [p])
      (by rw [← List.append_assoc, hpost', hcat]) (by simp)
    simp [this.1, this.2]
  · show (Flow.fresh up down).run sched = _
    rw [← hcat, run_effective]
  · rw [hf, ← hcat]; exact Dir.poll_delivered up _
  · rw [hf, ← hcat]; exact Dir.poll_delivered down _
  · intro hp
    subst hp
    have hcd : (effective up down sched).count .down = pre.count .down := by rw [hcat]; simp
    have hru : rets up ((effective up down sched).count .up) = true := by
      rw [hcd, hlive.2] at htorn; simpa using htorn
    have hlen := rets_len up _ hru
    rw [hf]
    refine ⟨?_, ?_, ?_, ?_, ?_, ?_⟩
    · simp only [Dir.poll_rets, hru]
    · simp only [Dir.poll_delivered]; exact List.take_of_length_le (by omega)
    · simp only [Dir.poll_sinkClosed]; exact closes_of_rets up _ hru
    · simp only [Dir.poll_rets, hcd, hlive.2]
    · simp only [Dir.poll_sinkClosed, hcd]
      cases hc : closes down (pre.count .down) with
      | false => rfl
      | true => rw [closes_le_rets down _ hc] at hlive; exact absurd hlive.2 (by simp)
    · simp only [Dir.poll_delivered, hcd]
  · intro hp
    subst hp
    have hcu : (effective up down sched).count .up = pre.count .up := by rw [hcat]; simp
    have hrd : rets down ((effective up down sched).count .down) = true := by
      rw [hcu, hlive.1] at htorn; simpa using htorn
    have hlen := rets_len down _ hrd
    rw [hf]
    refine ⟨?_, ?_, ?_, ?_, ?_, ?_⟩
    · simp only [Dir.poll_rets, hrd]
    · simp only [Dir.poll_delivered]; exact List.take_of_length_le (by omega)
    · simp only [Dir.poll_sinkClosed]; exact closes_of_rets down _ hrd
    · simp only [Dir.poll_rets, hcu, hlive.1]
    · simp only [Dir.poll_sinkClosed, hcu]
      cases hc : closes up (pre.count .up) with
      | false => rfl
      | true => rw [closes_le_rets up _ hc] at hlive; exact absurd hlive.1 (by simp)
    · simp only [Dir.poll_delivered, hcu]

/-- what is lost at a tear-down, spelled out: delivered ++ (the items not yet polled for) is
everything the source hands over before its end — for *every* schedule -/
theorem c15_lost_is_unpolled (up down : List Src) (sched : List Pick) :
    let f := (Flow.fresh up down).run sched
    let eff := effective up down sched
    f.up.delivered ++ (itemsBeforeEnd up).drop (eff.count .up) = itemsBeforeEnd up ∧
    f.down.delivered ++ (itemsBeforeEnd down).drop (eff.count .down) = itemsBeforeEnd down ∧
    f.up.delivered.length = min (eff.count .up) (itemsBeforeEnd up).length ∧
    f.down.delivered.length = min (eff.count .down) (itemsBeforeEnd down).length := by
  intro f eff
  have hf : f = _ := run_fresh up down sched
  rw [hf]
  simp only [Dir.poll_delivered, List.length_take]
  exact ⟨List.take_append_drop _ _, List.take_append_drop _ _, rfl, rfl⟩

/-- not vacuous, and the loss is real: `up` ends after two items, `down` has three items; a fair
schedule that polls `down` only once before `up` has ended delivers both `up` items, closes the up
sink, and delivers only the first `down` item -/
example :
    let up : List Src := [.item [1], .item [2, 3], .eof]
    let down : List Src := [.item [7], .item [8], .item [9]]
    let sched : List Pick := [.up, .down, .up, .up, .down, .down, .down]
    Fair up down sched ∧ Fair' up down (sched ++ [.up]) ∧ (hasEnd up = true ∨ hasEnd down = true) ∧
      ((Flow.fresh up down).run sched).tornDown = true ∧
      ((Flow.fresh up down).run sched).up.delivered = [[1], [2, 3]] ∧
      ((Flow.fresh up down).run sched).up.sinkClosed = true ∧
      ((Flow.fresh up down).run sched).down.delivered = [[7]] ∧
      effective up down sched = [.up, .down, .up, .up] := by decide

/-- the theorem applied: `down` fails first (after one item), `up` loses its second and third item -/
example :
    let up : List Src := [.item [1], .item [2], .item [3]]
    let down : List Src := [.item [7], .fail, .item [9]]
    let sched : List Pick := [.up, .down, .down, .up, .up, .down]
    Fair up down sched ∧ (Src.eof ∈ down ∨ Src.fail ∈ down) ∧
      ((Flow.fresh up down).run sched).tornDown = true ∧
      ((Flow.fresh up down).run sched).down.delivered = [[7]] ∧
      ((Flow.fresh up down).run sched).down.sinkClosed = false ∧
      ((Flow.fresh up down).run sched).up.delivered = [[1]] := by decide

example := c15_fair_schedule_drains [.item [1], .item [2], .item [3]] [.item [7], .fail, .item [9]]
  [.up, .down, .down, .up, .up, .down] (by decide) (Or.inr ((hasEnd_iff _).mpr (by decide)))

/-- **C15, progress (2)**: if neither script contains an `eof` or `fail`, no schedule tears the flow
down (it keeps its four halves, no sink is closed); after any schedule each direction has
delivered exactly as many items as it was polled for, in order; and under a fair schedule every
item of both scripts is delivered, in order. -/
theorem c15_no_end_no_teardown (up down : List Src) (hu : hasEnd up = false) (hd : hasEnd down = false)
    (sched : List Pick) :
    let f := (Flow.fresh up down).run sched
    f.tornDown = false ∧ f.resources = 4 ∧ f.up.sinkClosed = false ∧ f.down.sinkClosed = false ∧
    f.up.delivered = (items up).take (sched.count .up) ∧
    f.down.delivered = (items down).take (sched.count .down) ∧
    (Fair up down sched → f.up.delivered = items up ∧ f.down.delivered = items down) := by
  intro f
  have hru : ∀ k, rets up k = false := fun k => rets_false_of_noEnd up k hu
  have hrd : ∀ k, rets down k = false := fun k => rets_false_of_noEnd down k hd
  have hcu : ∀ k, closes up k = false := fun k => closes_false_of_noEnd up k hu
  have hcd : ∀ k, closes down k = false := fun k => closes_false_of_noEnd down k hd
  have heff : effective up down sched = sched := by
    rcases effective_full_or_torn up down sched with h | h
    · exact h
    · simp [hru, hrd] at h
  have hf : f = ⟨Dir.poll (sched.count .up) (Dir.fresh up), Dir.poll (sched.count .down) (Dir.fresh down), false⟩ := by
    show (Flow.fresh up down).run sched = _
    rw [run_fresh, heff, hru, hrd]; rfl
  have hdu : f.up.delivered = (items up).take (sched.count .up) := by
    rw [hf, ← itemsBeforeEnd_of_noEnd up hu]; exact Dir.poll_delivered up _
  have hdd : f.down.delivered = (items down).take (sched.count .down) := by
    rw [hf, ← itemsBeforeEnd_of_noEnd down hd]; exact Dir.poll_delivered down _
  refine ⟨by rw [hf], by rw [hf]; rfl, ?_, ?_, hdu, hdd, ?_⟩
  · rw [hf]; simp only [Dir.poll_sinkClosed, hcu]
  · rw [hf]; simp only [Dir.poll_sinkClosed, hcd]
  · intro hfair
    rw [hdu, hdd]
    have h1 := itemsBeforeEnd_length_le up
    have h2 := itemsBeforeEnd_length_le down
    rw [itemsBeforeEnd_of_noEnd up hu] at h1
    rw [itemsBeforeEnd_of_noEnd down hd] at h2
    exact ⟨List.take_of_length_le (by have := hfair.1; omega), List.take_of_length_le (by have := hfair.2; omega)⟩

/-- not vacuous -/
example :
    let up : List Src := [.item [1], .item [2, 3]]
    let down : List Src := [.item [7], .item [8], .item [9]]
    let sched : List Pick := [.down, .up, .down, .down, .up]
    hasEnd up = false ∧ hasEnd down = false ∧ Fair up down sched ∧
      ((Flow.fresh up down).run sched).up.delivered = [[1], [2, 3]] ∧
      ((Flow.fresh up down).run sched).down.delivered = [[7], [8], [9]] ∧
      ((Flow.fresh up down).run sched).tornDown = false := by decide

/-- **C01, transparency with progress (3)**: the application writes `its` and closes; the other
direction never ends.  Under *every* fair schedule the target side receives exactly `its` and then
end-of-stream (the up sink is closed), whatever the down direction did meanwhile; the flow is then
torn down, and the down direction has delivered the first items of its script, as many as it was
polled for before.  (`rest`: whatever the script holds after the `eof` is never looked at.) -/
theorem c01_fair_transparency (its : List Bytes) (rest down : List Src) (hd : hasEnd down = false)
    (sched : List Pick) (hfair : Fair (its.map Src.item ++ .eof :: rest) down sched) :
    let f := (Flow.fresh (its.map Src.item ++ .eof :: rest) down).run sched
    f.up.delivered = its ∧ f.up.sinkClosed = true ∧ f.up.returned = true ∧ f.tornDown = true ∧
    f.down.sinkClosed = false ∧
    f.down.delivered = (items down).take ((effective (its.map Src.item ++ .eof :: rest) down sched).count .down) := by
  intro f
  have hue : hasEnd (its.map Src.item ++ .eof :: rest) = true := by simp [hasEnd, Src.isEnd]
  have htorn := fair_torn _ down sched hfair (Or.inl hue)
  have hrd : ∀ k, rets down k = false := fun k => rets_false_of_noEnd down k hd
  have hcd : ∀ k, closes down k = false := fun k => closes_false_of_noEnd down k hd
  have hf : f = _ := run_fresh (its.map Src.item ++ .eof :: rest) down sched
  rw [htorn] at hf
  rw [hrd, Bool.or_false] at htorn
  have hlen := rets_len _ _ htorn
  have hibe := itemsBeforeEnd_shape its .eof rfl rest
  rw [hf]
  refine ⟨?_, ?_, ?_, rfl, ?_, ?_⟩
  · simp only [Dir.poll_delivered]
    rw [List.take_of_length_le (by omega), hibe]
  · simp only [Dir.poll_sinkClosed]
    rw [closes_of_rets _ _ htorn, firstEnd_shape its .eof rfl rest]; rfl
  · simp only [Dir.poll_rets, htorn]
  · simp only [Dir.poll_sinkClosed, hcd]
  · simp only [Dir.poll_delivered, itemsBeforeEnd_of_noEnd down hd]

/-- not vacuous -/
example :
    let its : List Bytes := [[1], [2, 3]]
    let down : List Src := [.item [7], .item [8], .item [9]]
    let sched : List Pick := [.down, .up, .down, .up, .up, .down]
    hasEnd down = false ∧ Fair (its.map Src.item ++ .eof :: []) down sched ∧
      ((Flow.fresh (its.map Src.item ++ .eof :: []) down).run sched).up.delivered = its ∧
      ((Flow.fresh (its.map Src.item ++ .eof :: []) down).run sched).down.delivered = [[7], [8]] := by decide

end Octo.Pump
