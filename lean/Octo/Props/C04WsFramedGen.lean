import Octo.Proofs.WsFramedGen
/-!
# C04 / C05 / C07 / C15 for the code generated from `octo-squirrel/src/codec.rs` (`WebSocketFramed`, `QuicStream`)

`Octo.WsFramedGen` (`Octo/Gen/WsFramedGen.lean`) is written by `bin/translate_wsframed.py` from the Rust source on every
check.  The inner `WebSocketStream`, the codec and the `quinn` stream are assumed externals (records `Ext` / `QExt`); the
theorems hold for EVERY value of them, under the hypotheses spelled out.  One `poll_next` call is `WebSocketFramed.poll_next X
ov fuel w`; `Drives X ov toItem w evs` = polling again and again from state `w` over the script `w.stream` of inner poll
results shows the caller exactly the events `evs`.  Property theorems only; the proofs are in `Octo/Proofs/WsFramedGen.lean`.
-/
namespace Octo.WsFramedGen
open Octo Octo.PWGen Octo.AddrGen

variable {WS C E D : Type}

/-! ## C04: the generated `poll_next` is the hand model; it never stalls -/

/-- **Equivalence with the hand model.**  Over ANY script of inner poll results (data / control messages, `Pending`,
transport errors, the end), for any codec state and any kept bytes, the events the caller of the generated `poll_next`
sees are exactly the events of the hand model (`wsMsg` per data message = the `FramedRead` loop `frLoop`; `wsEof` at the
end).  Hypotheses: the decoder is quiet on an empty buffer and never grows the buffer (`DecOk`), everything delivered fits
`isize::MAX` (else `BytesMut::with_capacity` panics), and the model's own fuel suffices (no `spin`). -/
theorem c04_ws_generated_poll_next_eq_model (X : Ext (List Inner) C E D) (hX : X.stream_poll_next = scriptPoll)
    (hD : DecOk X.codec_decode) (ov : Bool) (toItem : D → Item) (script : List Inner) (c : C) (b : Bytes)
    (hlen : b.length + scriptBytes script < 2 ^ 63)
    (hspin : FrEv.spin ∉ wsScript (callOf X.codec_decode toItem) ⟨c, b, false⟩ script) :
    Drives X ov toItem (mk script c (nb b) false false) (wsScript (callOf X.codec_decode toItem) ⟨c, b, false⟩ script) :=
  drives_script X hX hD ov toItem script c b hlen hspin

/-- … and those are the ONLY events it can show (polling is a function of the state). -/
theorem c04_ws_generated_events_unique (X : Ext (List Inner) C E D) (ov : Bool) (toItem : D → Item)
    (w : WebSocketFramed (List Inner) C E D) (e1 e2 : List FrEv)
    (d1 : Drives X ov toItem w e1) (d2 : Drives X ov toItem w e2) : e1 = e2 := d1.unique d2

/-- **Every `…_framed` theorem transfers.**  When the inner stream delivers the pieces `ps` as binary messages, the
generated adapter shows exactly the events of `FramedRead` (`frFeed`) reading the same pieces one by one. -/
theorem c04_ws_generated_messages_are_reads (X : Ext (List Inner) C E D) (hX : X.stream_poll_next = scriptPoll)
    (hD : DecOk X.codec_decode) (ov : Bool) (toItem : D → Item) (ps : List Bytes) (c : C) (b : Bytes)
    (hlen : b.length + ps.flatten.length < 2 ^ 63)
    (hspin : FrEv.spin ∉ feedAllEv (callOf X.codec_decode toItem) ⟨c, b, false⟩ ps) :
    Drives X ov toItem (mk (ps.map dataMsg) c (nb b) false false) (feedAllEv (callOf X.codec_decode toItem) ⟨c, b, false⟩ ps) := by
  rw [← wsScript_binary]
  exact drives_script X hX hD ov toItem _ c b (by rw [scriptBytes_binary]; exact hlen) (by rw [wsScript_binary]; exact hspin)

/-- **The loop's fuel suffices.**  Over a script, one round more than the inner stream has answers left is enough: the
call never reports "still running" (`none`), and more fuel changes nothing - in every state. -/
theorem c04_ws_generated_fuel_suffices (X : Ext (List Inner) C E D) (hX : X.stream_poll_next = scriptPoll) (ov : Bool)
    (w : WebSocketFramed (List Inner) C E D) (k : Nat) :
    WebSocketFramed.poll_next X ov (w.stream.length + 1 + k) w = WebSocketFramed.poll_next X ov (w.stream.length + 1) w ∧
      WebSocketFramed.poll_next X ov (w.stream.length + 1) w ≠ .ok none := poll_next_fuel X hX ov w k

/-- **Never stalls: the 2nd, 3rd … frame of one message.**  With bytes left over from the previous message (`readable`), a
poll asks the decoder about them FIRST and does not touch the transport (`s` comes back as it went in, whatever
`X.stream_poll_next` is); when that yields an item and bytes are still left, `readable` stays armed - so all k frames of
one message come out in k consecutive polls, the transport is polled only after the decoder said "not yet". -/
theorem c04_ws_generated_leftover_first (X : Ext WS C E D) (ov : Bool) (n : Nat) (s : WS) (c c' : C) (b b' : Cursor) (d : D)
    (h : X.codec_decode c b = .ok (c', b', .ok (some d))) :
    WebSocketFramed.poll_next X ov (n + 1) (mk s c (some b) false true) =
      .ok (some (mk s c' (nb b') false (nb b').isSome, .Ready (some (.ok d)))) := by
  rw [poll_readable, h]; rfl

/-- the first frame of a message, same re-arming: one poll that finds a data message decodes `kept ++ payload` and, on an
item, keeps what is left with `readable` armed -/
theorem c04_ws_generated_message_item_arms (X : Ext (List Inner) C E D) (hX : X.stream_poll_next = scriptPoll) (ov : Bool)
    (m : Message) (hm : isData m = true) (r : List Inner) (c c' : C) (b' : Cursor) (d : D)
    (h : X.codec_decode c m.payload = .ok (c', b', .ok (some d))) :
    WebSocketFramed.poll_next X ov (r.length + 2) (mk (.Ready (some (.ok m)) :: r) c none false false) =
      .ok (some (mk r c' (nb b') false (nb b').isSome, .Ready (some (.ok d)))) := by
  have := poll_script X hX ov (.Ready (some (.ok m))) r c none
  simp only [hm, if_true, h, afterDecode] at this
  exact this

/-- control messages (close / ping / pong) are invisible: the poll goes on to the next answer of the inner stream -/
theorem c04_ws_generated_control_skipped (X : Ext (List Inner) C E D) (hX : X.stream_poll_next = scriptPoll) (ov : Bool)
    (m : Message) (hm : isData m = false) (r : List Inner) (c : C) (ob : Option Cursor) :
    WebSocketFramed.poll_next X ov (r.length + 2) (mk (.Ready (some (.ok m)) :: r) c ob false false) =
      WebSocketFramed.poll_next X ov (r.length + 1) (mk r c ob false false) := by
  have := poll_script X hX ov (.Ready (some (.ok m))) r c ob
  simp only [hm, Bool.false_eq_true, if_false] at this
  exact this

/-! ## C05 / C15: a decoder error is yielded once, then the stream has ended; the end of the transport ends it -/

/-- **Sticky error.**  A decoder `Err` on left-over bytes is returned once with `errored` set … -/
theorem c05_ws_generated_decoder_error_latches (X : Ext WS C E D) (ov : Bool) (n : Nat) (s : WS) (c c' : C) (b b' : Cursor)
    (h : X.codec_decode c b = .ok (c', b', .err)) :
    WebSocketFramed.poll_next X ov (n + 1) (mk s c (some b) false true) =
      .ok (some (mk s c' (nb b') true false, .Ready (some .err))) := by
  rw [poll_readable, h]; rfl

/-- … likewise on a freshly received message … -/
theorem c05_ws_generated_message_error_latches (X : Ext (List Inner) C E D) (hX : X.stream_poll_next = scriptPoll) (ov : Bool)
    (m : Message) (hm : isData m = true) (r : List Inner) (c c' : C) (b' : Cursor)
    (h : X.codec_decode c m.payload = .ok (c', b', .err)) :
    WebSocketFramed.poll_next X ov (r.length + 2) (mk (.Ready (some (.ok m)) :: r) c none false false) =
      .ok (some (mk r c' (nb b') true false, .Ready (some .err))) := by
  have := poll_script X hX ov (.Ready (some (.ok m))) r c none
  simp only [hm, if_true, h, afterDecode] at this
  exact this

/-- … and from then on EVERY poll answers `None` (the stream has ended) without touching the transport, the decoder or
the state - no error a second time, no further item. -/
theorem c05_ws_generated_after_error_ended_for_good (X : Ext WS C E D) (ov : Bool) (n : Nat) (s : WS) (c : C)
    (ob : Option Cursor) (r : Bool) :
    WebSocketFramed.poll_next X ov (n + 1) (mk s c ob true r) = .ok (some (mk s c ob true r, .Ready none)) :=
  poll_errored X ov n s c ob r

/-- **The end of the transport ends the stream** - also inside a frame (`ob` holds its beginning): `None`, no error, the
bytes stay where they are (the hand model's `wsEof`; NOT `decode_eof`: no "bytes remaining" error). -/
theorem c15_ws_generated_transport_end_ends (X : Ext WS C E D) (ov : Bool) (n : Nat) (s : WS) (c : C) (ob : Option Cursor)
    (h : (X.stream_poll_next s).2 = .Ready none) :
    WebSocketFramed.poll_next X ov (n + 1) (mk s c ob false false) =
      .ok (some (mk (X.stream_poll_next s).1 c ob false false, .Ready none)) := by
  rw [poll_transport, h]

/-- `Pending` is answered only when the inner stream said `Pending` in this very call (so its waker is registered) -/
theorem c04_ws_generated_pending_from_transport (X : Ext WS C E D) (ov : Bool) (n : Nat) (s : WS) (c : C) (ob : Option Cursor)
    (h : (X.stream_poll_next s).2 = .Pending) :
    WebSocketFramed.poll_next X ov (n + 1) (mk s c ob false false) =
      .ok (some (mk (X.stream_poll_next s).1 c ob false false, .Pending)) := by
  rw [poll_transport, h]

/-! ## differences (code vs. the task's description / the hand model), each with its guard -/

/-- **A transport error is handed on but NOT latched** (unlike a decoder error): `errored` stays `false`, the next poll
asks the inner stream again - whether the stream ends is left to `WebSocketStream`. -/
theorem c05_ws_generated_transport_error_not_latched (X : Ext WS C E D) (ov : Bool) (n : Nat) (s : WS) (c : C)
    (ob : Option Cursor) (h : (X.stream_poll_next s).2 = .Ready (some .err)) :
    WebSocketFramed.poll_next X ov (n + 1) (mk s c ob false false) =
      .ok (some (mk (X.stream_poll_next s).1 c ob false false, .Ready (some .err))) := by
  rw [poll_transport, h]

/-- a codec in the style of `BytesCodec`: everything buffered is one item -/
def bytesDec : Unit → Cursor → PWGen.Res (Unit × Cursor × RResult (Option Cursor)) :=
  fun c b => if b = [] then .ok (c, [], .ok none) else .ok (c, [], .ok (some b))

/-- a decoder that produces an item out of nothing (violates `DecOk.quiet`) -/
def eagerDec : Unit → Cursor → PWGen.Res (Unit × Cursor × RResult (Option Cursor)) :=
  fun c _ => .ok (c, [], .ok (some []))

/-- example externals over a script (everything but the decoder is inert) -/
def exX (dec : Unit → Cursor → PWGen.Res (Unit × Cursor × RResult (Option Cursor))) : Ext (List Inner) Unit Cursor Cursor where
  stream_poll_next := scriptPoll
  stream_poll_ready := fun s => (s, .Ready (.ok ()))
  stream_start_send := fun s _ => (s, .ok ())
  stream_poll_flush := fun s => (s, .Ready (.ok ()))
  stream_poll_close := fun s => (s, .Ready (.ok ()))
  codec_decode := dec
  codec_encode := fun c i b => .ok (c, b ++ i, .ok ())

def exItem (d : Cursor) : Item := ⟨.data, d, none⟩

theorem bytesDec_ok : DecOk bytesDec where
  quiet := by intro c; simp [bytesDec]
  shrink := by
    intro c b c' b' r h
    simp only [bytesDec] at h
    split at h <;> (cases h; simp)

/-- items keep coming after a transport error: `[error, binary [7]]` shows the error and then the item -/
theorem c05_ws_generated_items_after_transport_error (ov : Bool) :
    Drives (exX bytesDec) ov exItem (mk [.Ready (some .err), dataMsg [7]] () none false false)
      [.err, .item (exItem [7])] := by
  have h := drives_script (exX bytesDec) rfl bytesDec_ok ov exItem [.Ready (some .err), dataMsg [7]] () [] (by decide) (by decide)
  exact h

/-- **The guard `DecOk.quiet` is needed.**  The code keeps an empty buffer as `None` and does not ask the decoder about
it; the hand model (`frLoop`, like `FramedRead`) asks again.  For a decoder that makes an item out of nothing the two
differ: the code shows one item and waits, the model keeps producing until its fuel runs out. -/
theorem c04_ws_generated_differs_without_quiet (ov : Bool) :
    Drives (exX eagerDec) ov exItem (mk [dataMsg [1]] () none false false) [.item (exItem [])] ∧
      wsScript (callOf eagerDec exItem) ⟨(), [], false⟩ [dataMsg [1]] =
        [.item (exItem []), .item (exItem []), .item (exItem []), .spin] := by
  refine ⟨?_, by decide⟩
  refine Drives.item _ (mk [] () none false false) [] _ ?_ (Drives.idle _ _ (poll_script_nil (exX eagerDec) rfl ov () none) rfl)
  have := poll_script (exX eagerDec) rfl ov (dataMsg [1]) [] () none
  simpa [dataMsg, isData, Message.binary, Message.is_binary, exX, eagerDec, afterDecode, nb] using this

/-- after the end of the transport the code's own flag is NOT set (the model's `wsEof` sets `ended`): it relies on the
caller not polling a finished stream / on the inner stream being fused -/
theorem c15_ws_generated_transport_end_sets_no_flag (X : Ext WS C E D) (ov : Bool) (n : Nat) (s : WS) (c : C) (ob : Option Cursor)
    (h : (X.stream_poll_next s).2 = .Ready none) :
    ∃ w', WebSocketFramed.poll_next X ov (n + 1) (mk s c ob false false) = .ok (some (w', .Ready none)) ∧ w'.errored = false :=
  ⟨_, c15_ws_generated_transport_end_ends X ov n s c ob h, rfl⟩

/-! ## C07: no panic of its own -/

/-- the exact panic condition of one poll of a waiting state: the decoder's own panic, or - with bytes kept - the join
`buffer.len() + msg_payload.len()` / `BytesMut::with_capacity` failing (`joinOk`); nothing else -/
theorem c07_ws_generated_poll_panics_only (X : Ext WS C E D) (ov : Bool) (n : Nat) (s : WS) (c : C) (b : Cursor) (m : Message)
    (hp : (X.stream_poll_next s).2 = .Ready (some (.ok m))) (hm : isData m = true) (hj : joinOk ov b m.payload = true) :
    WebSocketFramed.poll_next X ov (n + 1) (mk s c (some b) false false) =
      afterDecode (X.stream_poll_next s).1 (X.codec_decode c (b ++ m.payload)) (WebSocketFramed.poll_next X ov n) := by
  rw [poll_transport, hp]; simp only [hm, if_true, hj]

/-- `joinOk` holds whenever the bytes fit `isize::MAX` -/
theorem c07_ws_generated_join_ok (ov : Bool) (b p : Cursor) (h : b.length + p.length < 2 ^ 63) : joinOk ov b p = true :=
  joinOk_of_lt ov b p h

/-- **No panic.**  If the decoder never panics, no sequence of inner events makes the adapter panic (same guards as the
equivalence). -/
theorem c07_ws_generated_never_panics (X : Ext (List Inner) C E D) (hX : X.stream_poll_next = scriptPoll)
    (hD : DecOk X.codec_decode) (hdec : ∀ c b, X.codec_decode c b ≠ .panic) (ov : Bool) (toItem : D → Item)
    (script : List Inner) (c : C) (b : Bytes) (hlen : b.length + scriptBytes script < 2 ^ 63)
    (hspin : FrEv.spin ∉ wsScript (callOf X.codec_decode toItem) ⟨c, b, false⟩ script)
    (evs : List FrEv) (d : Drives X ov toItem (mk script c (nb b) false false) evs) : FrEv.panic ∉ evs := by
  rw [d.unique (drives_script X hX hD ov toItem script c b hlen hspin)]
  exact wsScript_no_panic X.codec_decode toItem hdec script _

/-! ## `new`, the `Sink` half -/

/-- `new`: nothing buffered, not errored, not readable -/
theorem c04_ws_generated_new (X : Ext WS C E D) (ov : Bool) (s : WS) (c : C) :
    WebSocketFramed.new X ov s c = .ok (mk s c none false false) := new_eq X ov s c

/-- **One binary message per encoded item**: `start_send` encodes into a fresh buffer and sends exactly that buffer as one
binary message; an encoder error sends nothing; the decode side is untouched. -/
theorem c02_ws_generated_start_send (X : Ext WS C E D) (ov : Bool) (w : WebSocketFramed WS C E D) (item : E) :
    WebSocketFramed.start_send X ov w item =
      (match X.codec_encode w.codec item [] with
       | .panic => .panic
       | .ok (c', _, .err) => .ok ({ w with codec := c' }, .err)
       | .ok (c', dst, .ok ()) =>
         .ok ({ w with codec := c', stream := (X.stream_start_send w.stream (Message.binary dst)).1 },
              (X.stream_start_send w.stream (Message.binary dst)).2)) := start_send_eq X ov w item

/-- `poll_ready` / `poll_flush` / `poll_close` are the inner sink's -/
theorem c15_ws_generated_sink_polls (X : Ext WS C E D) (ov : Bool) (w : WebSocketFramed WS C E D) :
    WebSocketFramed.poll_ready X ov w = .ok ({ w with stream := (X.stream_poll_ready w.stream).1 }, (X.stream_poll_ready w.stream).2) ∧
    WebSocketFramed.poll_flush X ov w = .ok ({ w with stream := (X.stream_poll_flush w.stream).1 }, (X.stream_poll_flush w.stream).2) ∧
    WebSocketFramed.poll_close X ov w = .ok ({ w with stream := (X.stream_poll_close w.stream).1 }, (X.stream_poll_close w.stream).2) :=
  ⟨poll_ready_eq X ov w, poll_flush_eq X ov w, poll_close_eq X ov w⟩

/-! ## C15: `QuicStream::poll_shutdown` -/

variable {Snd Rcv Fut V : Type}

/-- **Finish, then wait for delivery.**  First call: `finish()` (result ignored), the `stopped()` future of the finished
stream is stored and polled; the answer is `Pending` exactly while that future is pending. -/
theorem c15_quic_generated_shutdown_first (X : QExt Snd Fut V) (ov : Bool) (snd : Snd) (rcv : Rcv) :
    QuicStream.poll_shutdown X ov (⟨snd, rcv, none⟩ : QuicStream Snd Rcv Fut) =
      .ok (⟨(X.send_finish snd).1, rcv, some (X.delivered_poll (X.send_stopped (X.send_finish snd).1)).1⟩,
        match (X.delivered_poll (X.send_stopped (X.send_finish snd).1)).2 with
        | .Pending => .Pending
        | .Ready .err => .Ready .err
        | .Ready (.ok _) => .Ready (.ok ())) := poll_shutdown_first X ov snd rcv

/-- later calls poll the SAME stored future and do not finish again; shutdown completes only when it is ready -/
theorem c15_quic_generated_shutdown_again (X : QExt Snd Fut V) (ov : Bool) (snd : Snd) (rcv : Rcv) (f : Fut) :
    QuicStream.poll_shutdown X ov (⟨snd, rcv, some f⟩ : QuicStream Snd Rcv Fut) =
      .ok (⟨snd, rcv, some (X.delivered_poll f).1⟩,
        match (X.delivered_poll f).2 with
        | .Pending => .Pending
        | .Ready .err => .Ready .err
        | .Ready (.ok _) => .Ready (.ok ())) := poll_shutdown_again X ov snd rcv f

/-! ## non-vacuity: the hypotheses are satisfiable -/

example : (exX bytesDec).stream_poll_next = scriptPoll := rfl
example : DecOk (exX bytesDec).codec_decode := bytesDec_ok
example : ∀ c b, (exX bytesDec).codec_decode c b ≠ .panic := by intro c b; simp only [exX, bytesDec]; split <;> simp
/-- two frames in one message then the end: both come out, then `ended` (length and no-spin hypotheses hold) -/
example : ([1, 2] : Bytes).length + scriptBytes [dataMsg [3], .Ready none] < 2 ^ 63 ∧
    FrEv.spin ∉ wsScript (callOf bytesDec exItem) ⟨(), [1, 2], false⟩ [dataMsg [3], .Ready none] ∧
    wsScript (callOf bytesDec exItem) ⟨(), [1, 2], false⟩ [dataMsg [3], .Ready none] = [.item (exItem [1, 2, 3]), .ended] := by
  decide
example : isData (Message.binary [1]) = true ∧ isData ⟨.Text, []⟩ = true ∧ isData ⟨.Ping, []⟩ = false ∧
    isData ⟨.Close, []⟩ = false ∧ isData ⟨.Pong, []⟩ = false := by decide
example : bytesDec () [5] = .ok ((), [], .ok (some [5])) := rfl
example : bytesDec () [] = .ok ((), [], .ok none) := rfl
example : joinOk true [1] [2] = true := by decide
example : ∃ (X : QExt Unit Nat Unit), (X.delivered_poll 0).2 = .Pending :=
  ⟨⟨fun s => (s, .ok ()), fun _ => 0, fun f => (f + 1, .Pending)⟩, rfl⟩

end Octo.WsFramedGen
