import Octo.Props.C09
/-!
# C09 — concurrent copies of one request: exactly one is accepted, and which one

`c09_same_request_accepted_once` (`C09.lean`) says *at most one* of any number of concurrent copies of a
request is accepted.  Here the other half, for every schedule and every starting cache that does not hold
the salt:

* `c09_same_request_exactly_one` — as soon as some copy has run both of its critical sections
  (`check_nonce`, then `set_nonce`), exactly one copy is accepted; `c09_same_request_none_before` — before
  that, none is (no copy is accepted on the strength of `check_nonce` alone);
* `c09_first_presenter_wins` — the accepted copy is the one whose `set_nonce` (its second critical section)
  runs first; everybody else ends up refused or still undecided.  It is **not** the copy whose
  `check_nonce` runs first: in the schedule `[0, 1, 1, 0]` copy 0 checks first and copy 1 is accepted
  (example below);
* `c09_replayed_request_none_accepted` — if the cache already holds the salt, no copy is accepted;
* `c09_solo_copy_is_present` — one copy alone does what the sequential decision `SaltCache.present` does
  (with an acceptable timestamp: the interleaving model starts where the timestamp has been checked), so
  the winner's result is the solo result, and every other copy gets the result of a solo run made after it.

The timestamp does not occur in `Interleave.step`: all copies carry the same (acceptable) timestamp and the
window check touches no shared state.
-/
namespace Octo.Interleave
open Octo.SaltCache

/-! ### whose `set_nonce` runs first -/

/-- scan a schedule: the first copy (index below `n`) to take its *second* step; `seen` = the copies that
have taken their first -/
def firstInsert (n : Nat) : List Nat → List Nat → Option Nat
  | _, [] => none
  | seen, i :: s =>
    if i < n then (if i ∈ seen then some i else firstInsert n (i :: seen) s) else firstInsert n seen s

/-- 1 if `i` has taken its first step already -/
def ind (seen : List Nat) (i : Nat) : Nat := if i ∈ seen then 1 else 0

theorem ind_cons_self (seen : List Nat) (i : Nat) : ind (i :: seen) i = 1 := by simp [ind]
theorem ind_cons_ne (seen : List Nat) (i j : Nat) (h : i ≠ j) : ind (j :: seen) i = ind seen i := by
  simp [ind, h]
theorem ind_le (seen : List Nat) (i : Nat) : ind seen i ≤ 1 := by unfold ind; split <;> omega
theorem ind_pos (seen : List Nat) (i : Nat) (h : i ∈ seen) : ind seen i = 1 := by simp [ind, h]
theorem ind_zero (seen : List Nat) (i : Nat) (h : i ∉ seen) : ind seen i = 0 := by simp [ind, h]

theorem count_cons_self' (i : Nat) (l : List Nat) : (i :: l).count i = l.count i + 1 := by simp
theorem count_cons_ne' (i j : Nat) (l : List Nat) (h : j ≠ i) : (j :: l).count i = l.count i := by
  rw [List.count_cons]; simp [h]

/-- **what `firstInsert` computes**: `k` is the answer exactly when the schedule reads `pre ++ k :: post`,
`k` has taken one step in `pre`, and no copy has taken two in `pre` -/
theorem firstInsert_spec (n : Nat) (s : List Nat) : ∀ (seen : List Nat) (k : Nat),
    firstInsert n seen s = some k ↔
      ∃ pre post, s = pre ++ k :: post ∧ k < n ∧ pre.count k + ind seen k = 1 ∧
        ∀ i, i < n → pre.count i + ind seen i ≤ 1 := by
  induction s with
  | nil =>
    intro seen k
    simp only [firstInsert, reduceCtorEq, false_iff]
    rintro ⟨pre, post, h, _⟩
    cases pre <;> simp at h
  | cons j s ih =>
    intro seen k
    unfold firstInsert
    by_cases hj : j < n
    · rw [if_pos hj]
      by_cases hs : j ∈ seen
      · rw [if_pos hs]
        constructor
        · intro h
          simp only [Option.some.injEq] at h
          subst h
          exact ⟨[], s, rfl, hj, by simp [ind_pos _ _ hs], fun i _ => by simp only [List.count_nil]; have := ind_le seen i; omega⟩
        · rintro ⟨pre, post, h, _, _, hall⟩
          cases pre with
          | nil => simp only [List.nil_append, List.cons.injEq] at h; rw [h.1]
          | cons x pre' =>
            simp only [List.cons_append, List.cons.injEq] at h
            have := hall j hj
            rw [← h.1, count_cons_self', ind_pos _ _ hs] at this
            omega
      · rw [if_neg hs, ih (j :: seen) k]
        constructor
        · rintro ⟨pre, post, h, hk, hc, hall⟩
          refine ⟨j :: pre, post, by rw [h]; rfl, hk, ?_, ?_⟩
          · by_cases e : k = j
            · subst e; rw [ind_cons_self] at hc; rw [count_cons_self', ind_zero _ _ hs]; omega
            · rw [ind_cons_ne _ _ _ e] at hc; rw [count_cons_ne' _ _ _ (Ne.symm e)]; exact hc
          · intro i hi
            have := hall i hi
            by_cases e : i = j
            · subst e; rw [ind_cons_self] at this; rw [count_cons_self', ind_zero _ _ hs]; omega
            · rw [ind_cons_ne _ _ _ e] at this; rw [count_cons_ne' _ _ _ (Ne.symm e)]; exact this
        · rintro ⟨pre, post, h, hk, hc, hall⟩
          cases pre with
          | nil =>
            simp only [List.nil_append, List.cons.injEq] at h
            rw [← h.1, ind_zero _ _ hs] at hc
            simp at hc
          | cons x pre' =>
            simp only [List.cons_append, List.cons.injEq] at h
            obtain ⟨hx, hs'⟩ := h
            subst hx
            refine ⟨pre', post, hs', hk, ?_, ?_⟩
            · by_cases e : k = j
              · subst e; rw [count_cons_self', ind_zero _ _ hs] at hc; rw [ind_cons_self]; omega
              · rw [count_cons_ne' _ _ _ (Ne.symm e)] at hc; rw [ind_cons_ne _ _ _ e]; exact hc
            · intro i hi
              have := hall i hi
              by_cases e : i = j
              · subst e; rw [count_cons_self', ind_zero _ _ hs] at this; rw [ind_cons_self]; omega
              · rw [count_cons_ne' _ _ _ (Ne.symm e)] at this; rw [ind_cons_ne _ _ _ e]; exact this
    · rw [if_neg hj, ih seen k]
      constructor
      · rintro ⟨pre, post, h, hk, hc, hall⟩
        refine ⟨j :: pre, post, by rw [h]; rfl, hk, ?_, ?_⟩
        · rw [count_cons_ne' _ _ _ (by omega)]; exact hc
        · intro i hi; rw [count_cons_ne' _ _ _ (by omega)]; exact hall i hi
      · rintro ⟨pre, post, h, hk, hc, hall⟩
        cases pre with
        | nil => simp only [List.nil_append, List.cons.injEq] at h; omega
        | cons x pre' =>
          simp only [List.cons_append, List.cons.injEq] at h
          obtain ⟨hx, hs'⟩ := h
          subst hx
          refine ⟨pre', post, hs', hk, ?_, ?_⟩
          · rw [count_cons_ne' _ _ _ (by omega)] at hc; exact hc
          · intro i hi; have := hall i hi; rw [count_cons_ne' _ _ _ (by omega)] at this; exact this

/-- some copy takes two steps ⇒ there is a first one to do so -/
theorem firstInsert_isSome (n : Nat) (s : List Nat) : ∀ (seen : List Nat),
    (∃ i, i < n ∧ 2 ≤ s.count i + ind seen i) → (firstInsert n seen s).isSome = true := by
  induction s with
  | nil =>
    rintro seen ⟨i, _, h⟩
    have := ind_le seen i
    simp only [List.count_nil] at h
    omega
  | cons j s ih =>
    rintro seen ⟨i, hi, h⟩
    unfold firstInsert
    by_cases hj : j < n
    · rw [if_pos hj]
      by_cases hs : j ∈ seen
      · rw [if_pos hs]; rfl
      · rw [if_neg hs]
        apply ih
        refine ⟨i, hi, ?_⟩
        by_cases e : i = j
        · subst e; rw [count_cons_self', ind_zero _ _ hs] at h; rw [ind_cons_self]; omega
        · rw [count_cons_ne' _ _ _ (Ne.symm e)] at h; rw [ind_cons_ne _ _ _ e]; exact h
    · rw [if_neg hj]
      apply ih
      exact ⟨i, hi, by rw [count_cons_ne' _ _ _ (by omega)] at h; exact h⟩

/-- no copy takes two steps ⇒ there is none -/
theorem firstInsert_none (n : Nat) (s : List Nat) (seen : List Nat)
    (h : ∀ i, i < n → s.count i + ind seen i ≤ 1) : firstInsert n seen s = none := by
  cases hf : firstInsert n seen s with
  | none => rfl
  | some k =>
    obtain ⟨pre, post, hs, hk, hc, _⟩ := (firstInsert_spec n s seen k).mp hf
    have := h k hk
    rw [hs, List.count_append, count_cons_self'] at this
    omega

/-! ### the two phases of a run -/

/-- before any `set_nonce`: the salt is not held, every copy is at `start` or — having run `check_nonce` — at `checked` -/
structure Before (ttl now : Nat) (salt : Bytes) (n : Nat) (seen : List Nat) (w : World) : Prop where
  fresh : ¬ Holds ttl now w.cache salt
  len : w.pcs.length = n
  pcs : ∀ i, i < n → w.pcs[i]? = some (if i ∈ seen then .checked else .start)

/-- after copy `k`'s `set_nonce`: the salt is held, `k` is accepted and nobody else is -/
structure After (ttl now : Nat) (salt : Bytes) (k : Nat) (w : World) : Prop where
  holds : Holds ttl now w.cache salt
  win : w.pcs[k]? = some .accepted
  others : ∀ i, i ≠ k → w.pcs[i]? ≠ some .accepted

theorem run_cons (ttl cap now : Nat) (salt : Bytes) (w : World) (j : Nat) (s : List Nat) :
    run ttl cap now salt w (j :: s) = run ttl cap now salt (step ttl cap now salt w j) s := rfl

theorem step_of_none (ttl cap now : Nat) (salt : Bytes) (w : World) (j : Nat) (h : w.pcs[j]? = none) :
    step ttl cap now salt w j = w := by
  unfold step; rw [h]

theorem step_start (ttl cap now : Nat) (salt : Bytes) (w : World) (j : Nat) (h : w.pcs[j]? = some .start) :
    step ttl cap now salt w j =
      { cache := (SaltCache.get ttl now w.cache salt).2,
        pcs := w.pcs.set j (if (SaltCache.get ttl now w.cache salt).1 then .rejected else .checked) } := by
  unfold step; rw [h]

theorem step_checked (ttl cap now : Nat) (salt : Bytes) (w : World) (j : Nat) (h : w.pcs[j]? = some .checked) :
    step ttl cap now salt w j =
      { cache := (SaltCache.insert ttl cap now w.cache salt).2,
        pcs := w.pcs.set j (if (SaltCache.insert ttl cap now w.cache salt).1 then .rejected else .accepted) } := by
  unfold step; rw [h]

theorem step_done (ttl cap now : Nat) (salt : Bytes) (w : World) (j : Nat)
    (h : w.pcs[j]? = some .accepted ∨ w.pcs[j]? = some .rejected) : step ttl cap now salt w j = w := by
  unfold step; rcases h with h | h <;> rw [h]

theorem insert_fresh (ttl cap now : Nat) (c : Cache) (salt : Bytes) (h : ¬ Holds ttl now c salt) :
    (SaltCache.insert ttl cap now c salt).1 = false := by
  unfold Holds at h; unfold SaltCache.insert; simp [h]

/-- the salt once held, a step keeps `k` the only accepted copy -/
theorem after_step (ttl cap now : Nat) (salt : Bytes) (k : Nat) (w : World) (h : After ttl now salt k w) (j : Nat) :
    After ttl now salt k (step ttl cap now salt w j) := by
  cases hp : w.pcs[j]? with
  | none => rw [step_of_none _ _ _ _ _ _ hp]; exact h
  | some pc =>
    have hjk : pc ≠ .accepted → j ≠ k := by
      intro hne e; subst e; rw [h.win] at hp; cases hp; exact hne rfl
    cases pc with
    | accepted => rw [step_done _ _ _ _ _ _ (Or.inl hp)]; exact h
    | rejected => rw [step_done _ _ _ _ _ _ (Or.inr hp)]; exact h
    | start =>
      obtain ⟨h1, h2⟩ := holds_after_get ttl now w.cache salt h.holds
      rw [step_start _ _ _ _ _ _ hp, h2]
      have hne := hjk (by decide)
      refine ⟨h1, ?_, ?_⟩
      · simp only [if_true, List.getElem?_set, hne, if_false]; exact h.win
      · intro i hi
        simp only [if_true, List.getElem?_set]
        by_cases e : j = i
        · rw [if_pos e]; split <;> simp
        · rw [if_neg e]; exact h.others i hi
    | checked =>
      have hd := insert_dup_of_holds ttl cap now w.cache salt h.holds
      rw [step_checked _ _ _ _ _ _ hp, hd]
      have hne := hjk (by decide)
      refine ⟨holds_after_insert ttl cap now w.cache salt, ?_, ?_⟩
      · simp only [if_true, List.getElem?_set, hne, if_false]; exact h.win
      · intro i hi
        simp only [if_true, List.getElem?_set]
        by_cases e : j = i
        · rw [if_pos e]; split <;> simp
        · rw [if_neg e]; exact h.others i hi

theorem after_run (ttl cap now : Nat) (salt : Bytes) (k : Nat) (s : List Nat) : ∀ (w : World),
    After ttl now salt k w → After ttl now salt k (run ttl cap now salt w s) := by
  induction s with
  | nil => intro w h; exact h
  | cons j s ih => intro w h; rw [run_cons]; exact ih _ (after_step ttl cap now salt k w h j)

/-- the whole run, from a state in which nobody has run `set_nonce` yet -/
theorem before_run (ttl cap now : Nat) (salt : Bytes) (n : Nat) (s : List Nat) : ∀ (seen : List Nat) (w : World),
    Before ttl now salt n seen w →
      match firstInsert n seen s with
      | some k => After ttl now salt k (run ttl cap now salt w s)
      | none => ∃ seen', Before ttl now salt n seen' (run ttl cap now salt w s) := by
  induction s with
  | nil => intro seen w h; exact ⟨seen, h⟩
  | cons j s ih =>
    intro seen w h
    rw [run_cons]
    unfold firstInsert
    by_cases hj : j < n
    · rw [if_pos hj]
      have hpj := h.pcs j hj
      by_cases hs : j ∈ seen
      · -- `j` runs `set_nonce` on a cache that does not hold the salt: accepted
        rw [if_pos hs]
        rw [if_pos hs] at hpj
        simp only []
        apply after_run
        rw [step_checked _ _ _ _ _ _ hpj, insert_fresh ttl cap now w.cache salt h.fresh]
        refine ⟨holds_after_insert ttl cap now w.cache salt, ?_, ?_⟩
        · simp only [Bool.false_eq_true, if_false, List.getElem?_set, if_true, h.len, hj]
        · intro i hi
          simp only [Bool.false_eq_true, if_false, List.getElem?_set, Ne.symm hi]
          by_cases hin : i < n
          · rw [h.pcs i hin]; split <;> simp
          · rw [List.getElem?_eq_none (by rw [h.len]; omega)]; simp
      · -- `j` runs `check_nonce`: not seen, on its way
        rw [if_neg hs]
        rw [if_neg hs] at hpj
        obtain ⟨h1, h2⟩ := get_not_holds ttl now w.cache salt h.fresh
        apply ih (j :: seen)
        rw [step_start _ _ _ _ _ _ hpj, h1]
        refine ⟨h2, by simp only [List.length_set]; exact h.len, ?_⟩
        intro i hi
        simp only [Bool.false_eq_true, if_false, List.getElem?_set, List.mem_cons]
        by_cases e : j = i
        · subst e; simp [h.len, hj]
        · rw [if_neg e, h.pcs i hi]
          have : ¬ i = j := fun x => e x.symm
          simp only [this, false_or]
    · rw [if_neg hj]
      apply ih seen
      rw [step_of_none _ _ _ _ _ _ (List.getElem?_eq_none (by rw [h.len]; omega))]
      exact h

/-! ### counting -/

theorem accepted_le_one_of_others (pcs : List Pc) : ∀ (k : Nat), (∀ i, i ≠ k → pcs[i]? ≠ some .accepted) →
    (pcs.filter (· = .accepted)).length ≤ 1 := by
  induction pcs with
  | nil => intro k _; simp
  | cons x r ih =>
    intro k h
    cases k with
    | zero =>
      have hr : r.filter (· = .accepted) = [] := by
        rw [List.filter_eq_nil_iff]
        intro a ha
        obtain ⟨i, hi, rfl⟩ := List.getElem_of_mem ha
        have := h (i + 1) (by omega)
        simp only [List.getElem?_cons_succ, List.getElem?_eq_getElem hi, ne_eq, Option.some.injEq] at this
        simpa using this
      rw [List.filter_cons]
      split <;> simp [hr]
    | succ k' =>
      have hx : x ≠ .accepted := by
        have := h 0 (by omega)
        simpa using this
      rw [List.filter_cons, if_neg (by simpa using hx)]
      apply ih k'
      intro i hi
      have := h (i + 1) (by omega)
      simpa using this

theorem accepted_pos_of_win (pcs : List Pc) (k : Nat) (h : pcs[k]? = some .accepted) :
    1 ≤ (pcs.filter (· = .accepted)).length := by
  have hm : Pc.accepted ∈ pcs.filter (· = .accepted) := by
    rw [List.mem_filter]
    exact ⟨List.mem_of_getElem? h, by simp⟩
  exact List.length_pos_of_mem hm

theorem accepted_of_after (ttl now : Nat) (salt : Bytes) (k : Nat) (w : World) (h : After ttl now salt k w) :
    accepted w = 1 := by
  have h1 := accepted_le_one_of_others w.pcs k h.others
  have h2 := accepted_pos_of_win w.pcs k h.win
  unfold accepted; omega

theorem accepted_of_before (ttl now : Nat) (salt : Bytes) (n : Nat) (seen : List Nat) (w : World)
    (h : Before ttl now salt n seen w) : accepted w = 0 := by
  unfold accepted
  rw [List.length_eq_zero_iff, List.filter_eq_nil_iff]
  intro a ha
  obtain ⟨i, hi, rfl⟩ := List.getElem_of_mem ha
  have := h.pcs i (by rw [← h.len]; exact hi)
  rw [List.getElem?_eq_getElem hi] at this
  simp only [Option.some.injEq] at this
  rw [this]
  split <;> simp

theorem before_init (ttl now : Nat) (salt : Bytes) (n : Nat) (c : Cache) (hfresh : ¬ Holds ttl now c salt) :
    Before ttl now salt n [] ⟨c, List.replicate n .start⟩ :=
  ⟨hfresh, by simp, fun i hi => by simp [hi]⟩

/-! ### the theorems -/

/-- **the first to run `set_nonce` wins**: with the salt not in the cache before, if `k` is the first copy whose
second critical section runs (`firstInsert_spec`: the schedule is `pre ++ k :: post`, `k` has run `check_nonce` in
`pre`, nobody has run both in `pre`), then — whatever follows — `k` is accepted and no other copy is -/
theorem c09_first_presenter_wins (ttl cap now : Nat) (salt : Bytes) (c : Cache) (hfresh : ¬ Holds ttl now c salt)
    (n : Nat) (sched : List Nat) (k : Nat) (hk : firstInsert n [] sched = some k) :
    (run ttl cap now salt ⟨c, List.replicate n .start⟩ sched).pcs[k]? = some .accepted ∧
    (∀ i, i ≠ k → (run ttl cap now salt ⟨c, List.replicate n .start⟩ sched).pcs[i]? ≠ some .accepted) ∧
    Holds ttl now (run ttl cap now salt ⟨c, List.replicate n .start⟩ sched).cache salt := by
  have := before_run ttl cap now salt n sched [] _ (before_init ttl now salt n c hfresh)
  rw [hk] at this
  exact ⟨this.win, this.others, this.holds⟩

/-- the same, with the position spelled out instead of `firstInsert` -/
theorem c09_first_presenter_wins' (ttl cap now : Nat) (salt : Bytes) (c : Cache) (hfresh : ¬ Holds ttl now c salt)
    (n : Nat) (pre post : List Nat) (k : Nat) (hk : k < n) (hpre : pre.count k = 1)
    (hnone : ∀ i, i < n → pre.count i ≤ 1) :
    (run ttl cap now salt ⟨c, List.replicate n .start⟩ (pre ++ k :: post)).pcs[k]? = some .accepted ∧
    ∀ i, i ≠ k → (run ttl cap now salt ⟨c, List.replicate n .start⟩ (pre ++ k :: post)).pcs[i]? ≠ some .accepted := by
  have hf : firstInsert n [] (pre ++ k :: post) = some k :=
    (firstInsert_spec n _ [] k).mpr ⟨pre, post, rfl, hk, by simp [ind, hpre], fun i hi => by simpa [ind] using hnone i hi⟩
  have := c09_first_presenter_wins ttl cap now salt c hfresh n _ k hf
  exact ⟨this.1, this.2.1⟩

/-- **exactly one**: the salt not in the cache before, some copy has run both its critical sections ⇒ exactly
one copy is accepted, for every schedule (indices `≥ n` in a schedule name no copy and do nothing) -/
theorem c09_same_request_exactly_one (ttl cap now : Nat) (salt : Bytes) (c : Cache) (hfresh : ¬ Holds ttl now c salt)
    (n : Nat) (sched : List Nat) (hdone : ∃ i, i < n ∧ 2 ≤ sched.count i) :
    accepted (run ttl cap now salt ⟨c, List.replicate n .start⟩ sched) = 1 := by
  obtain ⟨i, hi, h2⟩ := hdone
  have hs := firstInsert_isSome n sched [] ⟨i, hi, by simp only [ind, List.not_mem_nil, if_false]; omega⟩
  obtain ⟨k, hk⟩ := Option.isSome_iff_exists.mp hs
  have := before_run ttl cap now salt n sched [] _ (before_init ttl now salt n c hfresh)
  rw [hk] at this
  exact accepted_of_after ttl now salt k _ this

/-- before any copy has run both its critical sections none is accepted -/
theorem c09_same_request_none_before (ttl cap now : Nat) (salt : Bytes) (c : Cache) (hfresh : ¬ Holds ttl now c salt)
    (n : Nat) (sched : List Nat) (hnone : ∀ i, i < n → sched.count i ≤ 1) :
    accepted (run ttl cap now salt ⟨c, List.replicate n .start⟩ sched) = 0 := by
  have hf := firstInsert_none n sched [] (fun i hi => by simpa [ind] using hnone i hi)
  have := before_run ttl cap now salt n sched [] _ (before_init ttl now salt n c hfresh)
  rw [hf] at this
  obtain ⟨seen', h⟩ := this
  exact accepted_of_before ttl now salt n seen' _ h

/-- both halves in one: the number of accepted copies is 1 or 0 according to whether some copy has completed -/
theorem c09_same_request_count (ttl cap now : Nat) (salt : Bytes) (c : Cache) (hfresh : ¬ Holds ttl now c salt)
    (n : Nat) (sched : List Nat) :
    accepted (run ttl cap now salt ⟨c, List.replicate n .start⟩ sched) =
      if ∃ i, i < n ∧ 2 ≤ sched.count i then 1 else 0 := by
  split
  · rename_i h; exact c09_same_request_exactly_one ttl cap now salt c hfresh n sched h
  · rename_i h
    apply c09_same_request_none_before ttl cap now salt c hfresh n sched
    intro i hi
    apply Nat.le_of_not_gt
    intro h2
    exact h ⟨i, hi, h2⟩

/-- a replay: the cache holds the salt already ⇒ no copy is accepted, under any schedule -/
theorem c09_replayed_request_none_accepted (ttl cap now : Nat) (salt : Bytes) (c : Cache) (hheld : Holds ttl now c salt)
    (n : Nat) (sched : List Nat) :
    accepted (run ttl cap now salt ⟨c, List.replicate n .start⟩ sched) = 0 := by
  -- invariant: held, and every copy is at `start` or `rejected`
  suffices ∀ (s : List Nat) (w : World), (Holds ttl now w.cache salt ∧ ∀ p ∈ w.pcs, p = .start ∨ p = .rejected) →
      (Holds ttl now (run ttl cap now salt w s).cache salt ∧
        ∀ p ∈ (run ttl cap now salt w s).pcs, p = .start ∨ p = .rejected) by
    have h := (this sched ⟨c, List.replicate n .start⟩ ⟨hheld, fun p hp => Or.inl (List.eq_of_mem_replicate hp)⟩).2
    unfold accepted
    rw [List.length_eq_zero_iff, List.filter_eq_nil_iff]
    intro a ha
    rcases h a ha with e | e <;> simp [e]
  intro s
  induction s with
  | nil => intro w h; exact h
  | cons j s ih =>
    intro w h
    rw [run_cons]
    apply ih
    cases hp : w.pcs[j]? with
    | none => rw [step_of_none _ _ _ _ _ _ hp]; exact h
    | some pc =>
      have hm := List.mem_of_getElem? hp
      cases pc with
      | accepted => rcases h.2 _ hm with e | e <;> cases e
      | checked => rcases h.2 _ hm with e | e <;> cases e
      | rejected => rw [step_done _ _ _ _ _ _ (Or.inr hp)]; exact h
      | start =>
        obtain ⟨h1, h2⟩ := holds_after_get ttl now w.cache salt h.1
        rw [step_start _ _ _ _ _ _ hp, h2]
        refine ⟨h1, ?_⟩
        intro p hp'
        simp only [if_true] at hp'
        rcases List.mem_or_eq_of_mem_set hp' with hq | hq
        · exact h.2 p hq
        · exact Or.inr hq

/-- **one copy alone is the sequential decision**: a single copy run to completion (both critical sections, at one
time `now`, timestamp within the window) leaves the cache `SaltCache.present` leaves and is accepted exactly when
`present` accepts -/
theorem c09_solo_copy_is_present (maxDiff ttl cap now : Nat) (salt : Bytes) (ts : Nat) (c : Cache)
    (hts : absDiff (now / 1000) ts ≤ maxDiff) :
    (run ttl cap now salt ⟨c, [.start]⟩ [0, 0]).cache = (present maxDiff ttl cap c now salt ts).2 ∧
    (run ttl cap now salt ⟨c, [.start]⟩ [0, 0]).pcs =
      [if (present maxDiff ttl cap c now salt ts).1 then .accepted else .rejected] := by
  have hw : ¬ absDiff (now / 1000) ts > maxDiff := by omega
  have e1 : step ttl cap now salt ⟨c, [.start]⟩ 0 =
      { cache := (SaltCache.get ttl now c salt).2,
        pcs := [if (SaltCache.get ttl now c salt).1 then .rejected else .checked] } := by
    rw [step_start _ _ _ _ _ _ rfl]; rfl
  have e2 : run ttl cap now salt ⟨c, [.start]⟩ [0, 0] =
      step ttl cap now salt (step ttl cap now salt ⟨c, [.start]⟩ 0) 0 := rfl
  rw [e2, e1]
  unfold present
  cases hg : (SaltCache.get ttl now c salt).1 with
  | true =>
    simp only [if_true]
    rw [step_done _ _ _ _ _ _ (Or.inr rfl)]
    simp
  | false =>
    simp only [Bool.false_eq_true, if_false, hw]
    rw [step_checked _ _ _ _ _ _ rfl]
    simp only [List.set_cons_zero, true_and]
    cases (SaltCache.insert ttl cap now (SaltCache.get ttl now c salt).2 salt).1 <;> simp

/-! ### non-vacuity -/

instance (ttl now : Nat) (c : Cache) (salt : Bytes) : Decidable (Holds ttl now c salt) := by
  unfold Holds; exact inferInstance

namespace Demo

def salt : Bytes := [1, 2, 3]
/-- a cache with other salts in it, one of them expired -/
def c0 : Cache := [⟨[9], 0⟩, ⟨[8], 59000⟩]

example : ¬ Holds 60000 61000 c0 salt := by decide
example : ¬ Holds 60000 61000 [] salt := by decide

/-- copy 0 checks first, copy 1 inserts first: copy 1 is the one accepted -/
example : firstInsert 3 [] [0, 1, 1, 0, 2, 2] = some 1 := by decide
example : (run 60000 1000 61000 salt ⟨c0, List.replicate 3 .start⟩ [0, 1, 1, 0, 2, 2]).pcs =
    [.rejected, .accepted, .rejected] := by decide
example : (run 60000 1000 61000 salt ⟨c0, List.replicate 3 .start⟩ [0, 1, 1, 0, 2, 2]).pcs[1]? = some .accepted :=
  (c09_first_presenter_wins 60000 1000 61000 salt c0 (by decide) 3 [0, 1, 1, 0, 2, 2] 1 (by decide)).1
example : (run 60000 1000 61000 salt ⟨c0, List.replicate 3 .start⟩ ([0, 1] ++ 1 :: [0, 2, 2])).pcs[1]? = some .accepted :=
  (c09_first_presenter_wins' 60000 1000 61000 salt c0 (by decide) 3 [0, 1] [0, 2, 2] 1 (by decide) (by decide)
    (by decide)).1

/-- hypotheses of `c09_same_request_exactly_one`: copy 1 has run twice -/
example : ∃ i, i < 3 ∧ 2 ≤ [0, 1, 1, 0, 2, 2].count i := ⟨1, by decide, by decide⟩
example : accepted (run 60000 1000 61000 salt ⟨c0, List.replicate 3 .start⟩ [0, 1, 1, 0, 2, 2]) = 1 :=
  c09_same_request_exactly_one 60000 1000 61000 salt c0 (by decide) 3 _ ⟨1, by decide, by decide⟩
/-- all three have checked, nobody has inserted: nobody accepted yet -/
example : accepted (run 60000 1000 61000 salt ⟨c0, List.replicate 3 .start⟩ [2, 0, 1]) = 0 :=
  c09_same_request_none_before 60000 1000 61000 salt c0 (by decide) 3 _ (by decide)

/-- a replay -/
example : Holds 60000 61000 [⟨salt, 60000⟩] salt := by decide
example : accepted (run 60000 1000 61000 salt ⟨[⟨salt, 60000⟩], List.replicate 3 .start⟩ [0, 1, 1, 0, 2, 2]) = 0 :=
  c09_replayed_request_none_accepted 60000 1000 61000 salt _ (by decide) 3 _

/-- solo = `present` (timestamp 50 at clock 61 s, window 30) -/
example : absDiff (61000 / 1000) 50 ≤ 30 := by decide
example : (run 60000 1000 61000 salt ⟨c0, [.start]⟩ [0, 0]).pcs = [.accepted] ∧
    (present 30 60000 1000 c0 61000 salt 50).1 = true := by decide

end Demo

end Octo.Interleave
