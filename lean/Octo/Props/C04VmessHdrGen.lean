import Octo.Proofs.VmessHdrGen
/-!
# C04 / C07 / C10 / C06 for the VMess connection-level codecs **as translated from the Rust source**

`Octo.VmessHdrGen` (`Octo/Gen/VmessHdrGen.lean`) is written by `bin/translate_vmesshdr.py` from `server/vmess.rs`,
`client/vmess.rs`, `protocol/vmess/aead/{auth_id,encrypt}.rs`, `protocol/vmess/header.rs` on every check (calling the generated
`Octo.VmessAddrGen` and `Octo.VmessBodyGen` functions).  Property theorems only; the lemmas are in `Octo/Proofs/VmessHdrGen.lean`.
Everything is stated for every value of the assumed externals `X` that satisfies `HExtOk X C`, both overflow profiles `ov`,
every generated client value `g` whose session stands for the model's (`CRel`), every buffer below 2^64 bytes.
-/
namespace Octo.VmessHdrGen
open Octo Octo.PWGen Octo.AddrGen Octo.Vmess
open Octo.VmessBodyGen (DynSession ServerSession ClientSession AEADBodyCodec)

variable {CM XR W GCM : Type} {X : Ext CM XR W GCM} {C : Crypto}

/-! ### the hypotheses are satisfiable -/
/-- for every `Crypto` with 32-bit checksums there are externals with `HExtOk` — in particular for the toy instance -/
example (C : Crypto) (h1 : ∀ b, C.crc32 b < 2 ^ 32) (h2 : ∀ b, C.fnv1a32 b < 2 ^ 32) : HExtOk (hextOf C) C := hextOf_ok C h1 h2
example : ∃ C : Crypto, C.Lawful := ⟨Crypto.toy, Crypto.toy_lawful⟩
/-- every model session has a generated client value standing for it, with no body decoder yet -/
example (C : Crypto) (s : Session) (hdr : RequestHeader) : CRel (C := C) (clientOf C s hdr) s ∧ (clientOf C s hdr).body_decoder = none :=
  ⟨crel_clientOf C s hdr, rfl⟩
/-- every buffer falls into one of the six cases of `ClientHdr` -/
example (C : Crypto) (s : Session) (buf : Bytes) : Nonempty (ClientHdr C s buf) := ⟨ClientHdr.classify C s buf⟩

/-! ### the client's response header (priority 1) -/

/-- **C04 / C10 / C07 — the generated `ClientAEADCodec::decode` refuses exactly as the model's `Client.decode`**: in each of
the five cases in which the response header is not accepted (fewer than 18 bytes; sealed length not authentic under the
session's response keys; sealed header incomplete; sealed header not authentic; opened header EMPTY or first byte ≠ the
session's response byte) the generated call does not panic, returns `Ok(None)` / `Err` as the model does (`embedU`), leaves
exactly the model's buffer, leaves the codec value unchanged — no body decoder is installed, so nothing is ever released — and
the model's `Client.decode` leaves the model client unchanged with the same buffer and outcome -/
theorem c04_gen_client_header_refusal (A : HExtOk X C) (hC : C.Lawful) (ov : Bool) (g : ClientAEADCodec CM XR) (c : Client)
    (s : Session) (buf : Bytes) (hr : CRel (C := C) g s) (hd : g.body_decoder = none) (hc : c.session = some s) (hcd : c.dec = none)
    (hne : buf ≠ []) (hl : buf.length < 2 ^ 64) (k : ClientHdr C s buf) (rest : Bytes) (r : Octo.Res Unit)
    (hk : k.refusal = some (rest, r)) :
    ClientAEADCodec.Decoder_decode X ov g buf = PWGen.Res.ok (g, rest, embedU r) ∧
      Client.decode C c buf = ⟨c, rest, match r with | .more => .more | _ => .err⟩ :=
  ⟨gen_client_refusal A hC ov g s buf hr hd hne hl k rest r hk, model_client_refusal c s buf hc hcd hne k rest r hk⟩

/-- **C04 — nothing is consumed until the sealed response header is complete**: with fewer than 18 bytes, or with the 18-byte
sealed length authentic but fewer than `length + 16` bytes behind it, the generated call returns `Ok(None)` and the buffer is
untouched (the 18 bytes were peeked through the cursor, not consumed), for every segmentation of the stream -/
theorem c04_gen_client_header_incomplete (A : HExtOk X C) (hC : C.Lawful) (ov : Bool) (g : ClientAEADCodec CM XR) (s : Session)
    (buf : Bytes) (hr : CRel (C := C) g s) (hd : g.body_decoder = none) (hne : buf ≠ []) (hl : buf.length < 2 ^ 64)
    (h : buf.length < 18 ∨ ∃ lb, C.openB .aes128gcm (respLk C s) (respLi C s) [] (buf.take 18) = some lb ∧
      buf.length - 18 < rdBE lb + 16) :
    ClientAEADCodec.Decoder_decode X ov g buf = PWGen.Res.ok (g, buf, RResult.ok none) := by
  rcases h with h | ⟨lb, ho, hm⟩
  · exact gen_client_refusal A hC ov g s buf hr hd hne hl (.short h) buf .more rfl
  · by_cases h18 : buf.length < 18
    · exact gen_client_refusal A hC ov g s buf hr hd hne hl (.short h18) buf .more rfl
    · exact gen_client_refusal A hC ov g s buf hr hd hne hl (.more (by omega) lb ho hm) buf .more rfl

/-- **C10 — the response is bound to the request**: a complete response header that opens under the session's keys but is
empty, or whose first byte is not the session's response byte, is refused with `Err`; no body decoder is installed (the codec
value is unchanged), the sealed header is consumed.  An empty header is refused, not indexed (no panic) -/
theorem c10_gen_client_wrong_response_byte (A : HExtOk X C) (hC : C.Lawful) (ov : Bool) (g : ClientAEADCodec CM XR) (s : Session)
    (buf : Bytes) (hr : CRel (C := C) g s) (hd : g.body_decoder = none) (hne : buf ≠ []) (hl : buf.length < 2 ^ 64)
    (h : 18 ≤ buf.length) (lb hb : Bytes) (ho : C.openB .aes128gcm (respLk C s) (respLi C s) [] (buf.take 18) = some lb)
    (hm : ¬ buf.length - 18 < rdBE lb + 16)
    (hh : C.openB .aes128gcm (respHk C s) (respHi C s) [] ((buf.drop 18).take (rdBE lb + 16)) = some hb)
    (hw : hb = [] ∨ hb.head? ≠ some s.respHeader) :
    ClientAEADCodec.Decoder_decode X ov g buf = PWGen.Res.ok (g, buf.drop (18 + rdBE lb + 16), RResult.err) := by
  have hw' : hb.head? ≠ some s.respHeader := by
    rcases hw with rfl | hw
    · simp
    · exact hw
  exact gen_client_refusal A hC ov g s buf hr hd hne hl (.wrongByte h lb ho hm hb hh hw') _ .err rfl

/-- **C10 — wrong keys release nothing**: a response whose sealed length or sealed header does not open under the keys derived
from THIS session's response key / IV is refused with `Err`, nothing released, no decoder installed -/
theorem c10_gen_client_wrong_keys (A : HExtOk X C) (hC : C.Lawful) (ov : Bool) (g : ClientAEADCodec CM XR) (s : Session)
    (buf : Bytes) (hr : CRel (C := C) g s) (hd : g.body_decoder = none) (hne : buf ≠ []) (hl : buf.length < 2 ^ 64)
    (h : 18 ≤ buf.length) (ho : C.openB .aes128gcm (respLk C s) (respLi C s) [] (buf.take 18) = none) :
    ClientAEADCodec.Decoder_decode X ov g buf = PWGen.Res.ok (g, buf, RResult.err) :=
  gen_client_refusal A hC ov g s buf hr hd hne hl (.badLen h ho) buf .err rfl

/-- **C04 / C01 — an accepted response header**: the generated call consumes exactly the sealed header (18 + length + 16
bytes, as the model's `Client.decode`), installs the body decoder that `AEADBodyCodec::new_decoder` returns and continues with
`decode` on the rest (the body codec: `Octo.VmessBodyGen`, `c04_gen_decode_payload_eq`); if `new_decoder` fails it is `Err` -/
theorem c04_gen_client_header_accept (A : HExtOk X C) (hC : C.Lawful) (ov : Bool) (g : ClientAEADCodec CM XR) (s : Session)
    (buf : Bytes) (hr : CRel (C := C) g s) (hd : g.body_decoder = none) (hne : buf ≠ []) (hl : buf.length < 2 ^ 64)
    (h : 18 ≤ buf.length) (lb hb : Bytes) (ho : C.openB .aes128gcm (respLk C s) (respLi C s) [] (buf.take 18) = some lb)
    (hm : ¬ buf.length - 18 < rdBE lb + 16)
    (hh : C.openB .aes128gcm (respHk C s) (respHi C s) [] ((buf.drop 18).take (rdBE lb + 16)) = some hb)
    (hw : hb.head? = some s.respHeader) :
    ∃ s' r, X.new_decoder g.header (.ClientSession g.session) = (.ClientSession s', r) ∧
      ClientAEADCodec.Decoder_decode X ov g buf =
        match r with
        | RResult.err => PWGen.Res.ok ({ g with session := s' }, buf.drop (18 + rdBE lb + 16), RResult.err)
        | RResult.ok d => ClientAEADCodec.Decoder_decode X ov { g with session := s', body_decoder := some d } (buf.drop (18 + rdBE lb + 16)) :=
  gen_client_accept A hC ov g s buf hr hd hne hl h lb ho hm hb hh hw

/-- **C07 — the header phase of the generated client never panics**: for every non-empty buffer below 2^64 bytes the first call
either is one of the five refusals (a value, not a panic) or is the continuation of the accepted case -/
theorem c07_gen_client_header_no_panic (A : HExtOk X C) (hC : C.Lawful) (ov : Bool) (g : ClientAEADCodec CM XR) (s : Session)
    (buf : Bytes) (hr : CRel (C := C) g s) (hd : g.body_decoder = none) (hne : buf ≠ []) (hl : buf.length < 2 ^ 64)
    (rest : Bytes) (r : Octo.Res Unit) (hk : (ClientHdr.classify C s buf).refusal = some (rest, r)) :
    ClientAEADCodec.Decoder_decode X ov g buf ≠ PWGen.Res.panic := by
  rw [gen_client_refusal A hC ov g s buf hr hd hne hl _ rest r hk]; simp

/-- later calls are exactly one call of the body codec's generated `decode_payload` on the client's session (TCP) -/
theorem c04_gen_client_later_call (ov : Bool) (g : ClientAEADCodec CM XR) (d : AEADBodyCodec CM XR) (buf : Bytes)
    (hd : g.body_decoder = some d) (hne : buf ≠ []) (hcmd : g.header.command = .TCP) :
    ClientAEADCodec.Decoder_decode X ov g buf =
      match Octo.VmessBodyGen.AEADBodyCodec.decode_payload X.body ov d buf (.ClientSession g.session) with
      | .panic => .panic
      | .ok (d', src', .ClientSession s', r) => .ok ({ g with body_decoder := some d', session := s' }, src', r)
      | .ok (_, _, .ServerSession _, _) => .panic :=
  gen_client_some ov g d buf hd hne hcmd
/-- a client value with an installed body decoder exists whenever a body codec value does -/
example (d : AEADBodyCodec Unit Unit) (hdr : RequestHeader) (ss : ClientSession) :
    (⟨hdr, ss, none, some d⟩ : ClientAEADCodec Unit Unit).body_decoder = some d := rfl

/-! ### the server's credential gate (priority 2, first step) -/

/-- **C04 — fewer than 16 bytes**: `Ok(None)`, nothing consumed, no panic (also on the empty buffer), the clock is not read -/
theorem c04_gen_server_short (ov : Bool) (g : ServerAeadCodec CM XR) (w : W) (buf : Bytes) (hs : g.decode_state = .Init)
    (hl : buf.length < 2 ^ 64) (h : buf.length < 16) :
    ServerAeadCodec.Decoder_decode X ov g w buf = PWGen.Res.ok (g, w, buf, RResult.ok none) :=
  gen_server_short ov g w buf hs hl h

/-- **C06 — the generated server relays only behind the credential gate**: when `auth_id::matching` finds no configured key
for the first 16 bytes, the call is `Err`, nothing is consumed, the state stays `Init`, nothing is connected or relayed -/
theorem c06_gen_server_gate (ov : Bool) (g : ServerAeadCodec CM XR) (w w' : W) (buf : Bytes) (hs : g.decode_state = .Init)
    (hl : buf.length < 2 ^ 64) (h : 16 ≤ buf.length)
    (hmatch : AuthId.matching X ov w (buf.take 16) g.keys = PWGen.Res.ok (w', RResult.ok none)) :
    ServerAeadCodec.Decoder_decode X ov g w buf = PWGen.Res.ok (g, w', buf, RResult.err) :=
  gen_server_gate ov g w buf hs hl h w' hmatch

/-- **C06 — absent credentials are not accepted**: with an empty user table every auth id (the all-zero one included) is refused -/
theorem c06_gen_server_no_users (ov : Bool) (g : ServerAeadCodec CM XR) (w : W) (buf : Bytes) (hs : g.decode_state = .Init)
    (hk : g.keys = []) (hl : buf.length < 2 ^ 64) (h : 16 ≤ buf.length) :
    ServerAeadCodec.Decoder_decode X ov g w buf = PWGen.Res.ok (g, w, buf, RResult.err) :=
  gen_server_gate ov g w buf hs hl h w (by rw [hk]; exact matching_nil ov w _)
example : ∃ g : ServerAeadCodec Unit Unit, g.decode_state = .Init ∧ g.keys = [] := ⟨⟨[], .Init, .Init⟩, rfl, rfl⟩


/-! ### where the code and the model differ: the i64 edge of the time window -/

/-- **C10 — difference between `auth_id::matching` as written and the model's `authIdMatch`**: the code's window test
`(t - now).abs() <= 120` is computed in i64.  For a timestamp exactly 2^63 seconds before the clock value (instance: clock 5) the
release profile accepts (`i64::MIN.abs()` wraps), the debug profile panics (`absOk` fails although the subtraction is fine), the
model refuses.  Reaching it needs an auth id with a valid CRC under a configured user's key.  Inside `-2^63 < t - now` they agree. -/
theorem c10_gen_window_wrap_difference :
    windowRelease ⟨0x8000000000000005⟩ (I64.ofNat 5) = true ∧
    I64.absOk (I64.sub ⟨0x8000000000000005⟩ (I64.ofNat 5)) = false ∧
    I64.subOk ⟨0x8000000000000005⟩ (I64.ofNat 5) = true ∧
    ¬ (((⟨0x8000000000000005⟩ : I64).toInt - (I64.ofNat 5).toInt).natAbs ≤ Consts.vmessAuthWindow) :=
  window_wrap_difference

end Octo.VmessHdrGen
