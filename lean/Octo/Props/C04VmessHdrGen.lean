import Octo.Proofs.VmessHdrGen
import Octo.Props.C03
/-!
# C04 / C07 / C10 / C06 for the VMess connection-level codecs **as translated from the Rust source**

`Octo.VmessHdrGen` (`Octo/Gen/VmessHdrGen.lean`) is written by `bin/translate_vmesshdr.py` from `server/vmess.rs`,
`client/vmess.rs`, `protocol/vmess/aead/{auth_id,encrypt}.rs`, `protocol/vmess/header.rs` on every check (calling the generated
`Octo.VmessAddrGen` and `Octo.VmessBodyGen` functions).  Property theorems only; the lemmas are in `Octo/Proofs/VmessHdrGen.lean`.
Everything is stated for every value of the assumed externals `X` that satisfies `HExtOk X C`, both overflow profiles `ov`,
every generated client value `g` whose session stands for the model's (`CRel`), every buffer below 2^64 bytes.
-/
namespace Octo.VmessHdrGen
open Octo Octo.PWGen Octo.AddrGen Octo.Vmess
open Octo.VmessBodyGen (DynSession ServerSession ClientSession AEADBodyCodec)

variable {CM XR W GCM : Type} {X : Ext CM XR W GCM} {C : Crypto}

/-! ### the hypotheses are satisfiable -/
/-- for every `Crypto` with 32-bit checksums there are externals with `HExtOk` — in particular for the toy instance -/
example (C : Crypto) (h1 : ∀ b, C.crc32 b < 2 ^ 32) (h2 : ∀ b, C.fnv1a32 b < 2 ^ 32) : HExtOk (hextOf C) C := hextOf_ok C h1 h2
example : ∃ C : Crypto, C.Lawful := ⟨Crypto.toy, Crypto.toy_lawful⟩
/-- every model session has a generated client value standing for it, with no body decoder yet -/
example (C : Crypto) (s : Session) (hdr : RequestHeader) : CRel (C := C) (clientOf C s hdr) s ∧ (clientOf C s hdr).body_decoder = none :=
  ⟨crel_clientOf C s hdr, rfl⟩
/-- every buffer falls into one of the six cases of `ClientHdr` -/
example (C : Crypto) (s : Session) (buf : Bytes) : Nonempty (ClientHdr C s buf) := ⟨ClientHdr.classify C s buf⟩

/-! ### the client's response header (priority 1) -/

/-- **C04 / C10 / C07 — the generated `ClientAEADCodec::decode` refuses exactly as the model's `Client.decode`**: in each of
the five cases in which the response header is not accepted (fewer than 18 bytes; sealed length not authentic under the
session's response keys; sealed header incomplete; sealed header not authentic; opened header EMPTY or first byte ≠ the
session's response byte) the generated call does not panic, returns `Ok(None)` / `Err` as the model does (`embedU`), leaves
exactly the model's buffer, leaves the codec value unchanged — no body decoder is installed, so nothing is ever released — and
the model's `Client.decode` leaves the model client unchanged with the same buffer and outcome -/
theorem c04_gen_client_header_refusal (A : HExtOk X C) (hC : C.Lawful) (ov : Bool) (g : ClientAEADCodec CM XR) (c : Client)
    (s : Session) (buf : Bytes) (hr : CRel (C := C) g s) (hd : g.body_decoder = none) (hc : c.session = some s) (hcd : c.dec = none)
    (hne : buf ≠ []) (hl : buf.length < 2 ^ 64) (k : ClientHdr C s buf) (rest : Bytes) (r : Octo.Res Unit)
    (hk : k.refusal = some (rest, r)) :
    ClientAEADCodec.Decoder_decode X ov g buf = PWGen.Res.ok (g, rest, embedU r) ∧
      Client.decode C c buf = ⟨c, rest, match r with | .more => .more | _ => .err⟩ :=
  ⟨gen_client_refusal A hC ov g s buf hr hd hne hl k rest r hk, model_client_refusal c s buf hc hcd hne k rest r hk⟩

/-- **C04 — nothing is consumed until the sealed response header is complete**: with fewer than 18 bytes, or with the 18-byte
sealed length authentic but fewer than `length + 16` bytes behind it, the generated call returns `Ok(None)` and the buffer is
untouched (the 18 bytes were peeked through the cursor, not consumed), for every segmentation of the stream -/
theorem c04_gen_client_header_incomplete (A : HExtOk X C) (hC : C.Lawful) (ov : Bool) (g : ClientAEADCodec CM XR) (s : Session)
    (buf : Bytes) (hr : CRel (C := C) g s) (hd : g.body_decoder = none) (hne : buf ≠ []) (hl : buf.length < 2 ^ 64)
    (h : buf.length < 18 ∨ ∃ lb, C.openB .aes128gcm (respLk C s) (respLi C s) [] (buf.take 18) = some lb ∧
      buf.length - 18 < rdBE lb + 16) :
    ClientAEADCodec.Decoder_decode X ov g buf = PWGen.Res.ok (g, buf, RResult.ok none) := by
  rcases h with h | ⟨lb, ho, hm⟩
  · exact gen_client_refusal A hC ov g s buf hr hd hne hl (.short h) buf .more rfl
  · by_cases h18 : buf.length < 18
    · exact gen_client_refusal A hC ov g s buf hr hd hne hl (.short h18) buf .more rfl
    · exact gen_client_refusal A hC ov g s buf hr hd hne hl (.more (by omega) lb ho hm) buf .more rfl

/-- **C10 — the response is bound to the request**: a complete response header that opens under the session's keys but is
empty, or whose first byte is not the session's response byte, is refused with `Err`; no body decoder is installed (the codec
value is unchanged), the sealed header is consumed.  An empty header is refused, not indexed (no panic) -/
theorem c10_gen_client_wrong_response_byte (A : HExtOk X C) (hC : C.Lawful) (ov : Bool) (g : ClientAEADCodec CM XR) (s : Session)
    (buf : Bytes) (hr : CRel (C := C) g s) (hd : g.body_decoder = none) (hne : buf ≠ []) (hl : buf.length < 2 ^ 64)
    (h : 18 ≤ buf.length) (lb hb : Bytes) (ho : C.openB .aes128gcm (respLk C s) (respLi C s) [] (buf.take 18) = some lb)
    (hm : ¬ buf.length - 18 < rdBE lb + 16)
    (hh : C.openB .aes128gcm (respHk C s) (respHi C s) [] ((buf.drop 18).take (rdBE lb + 16)) = some hb)
    (hw : hb = [] ∨ hb.head? ≠ some s.respHeader) :
    ClientAEADCodec.Decoder_decode X ov g buf = PWGen.Res.ok (g, buf.drop (18 + rdBE lb + 16), RResult.err) := by
  have hw' : hb.head? ≠ some s.respHeader := by
    rcases hw with rfl | hw
    · simp
    · exact hw
  exact gen_client_refusal A hC ov g s buf hr hd hne hl (.wrongByte h lb ho hm hb hh hw') _ .err rfl

/-- **C10 — wrong keys release nothing**: a response whose sealed length or sealed header does not open under the keys derived
from THIS session's response key / IV is refused with `Err`, nothing released, no decoder installed -/
theorem c10_gen_client_wrong_keys (A : HExtOk X C) (hC : C.Lawful) (ov : Bool) (g : ClientAEADCodec CM XR) (s : Session)
    (buf : Bytes) (hr : CRel (C := C) g s) (hd : g.body_decoder = none) (hne : buf ≠ []) (hl : buf.length < 2 ^ 64)
    (h : 18 ≤ buf.length) (ho : C.openB .aes128gcm (respLk C s) (respLi C s) [] (buf.take 18) = none) :
    ClientAEADCodec.Decoder_decode X ov g buf = PWGen.Res.ok (g, buf, RResult.err) :=
  gen_client_refusal A hC ov g s buf hr hd hne hl (.badLen h ho) buf .err rfl

/-- **C04 / C01 — an accepted response header**: the generated call consumes exactly the sealed header (18 + length + 16
bytes, as the model's `Client.decode`), installs the body decoder that `AEADBodyCodec::new_decoder` returns and continues with
`decode` on the rest (the body codec: `Octo.VmessBodyGen`, `c04_gen_decode_payload_eq`); if `new_decoder` fails it is `Err` -/
theorem c04_gen_client_header_accept (A : HExtOk X C) (hC : C.Lawful) (ov : Bool) (g : ClientAEADCodec CM XR) (s : Session)
    (buf : Bytes) (hr : CRel (C := C) g s) (hd : g.body_decoder = none) (hne : buf ≠ []) (hl : buf.length < 2 ^ 64)
    (h : 18 ≤ buf.length) (lb hb : Bytes) (ho : C.openB .aes128gcm (respLk C s) (respLi C s) [] (buf.take 18) = some lb)
    (hm : ¬ buf.length - 18 < rdBE lb + 16)
    (hh : C.openB .aes128gcm (respHk C s) (respHi C s) [] ((buf.drop 18).take (rdBE lb + 16)) = some hb)
    (hw : hb.head? = some s.respHeader) :
    ∃ s' r, X.new_decoder g.header (.ClientSession g.session) = (.ClientSession s', r) ∧
      ClientAEADCodec.Decoder_decode X ov g buf =
        match r with
        | RResult.err => PWGen.Res.ok ({ g with session := s' }, buf.drop (18 + rdBE lb + 16), RResult.err)
        | RResult.ok d => ClientAEADCodec.Decoder_decode X ov { g with session := s', body_decoder := some d } (buf.drop (18 + rdBE lb + 16)) :=
  gen_client_accept A hC ov g s buf hr hd hne hl h lb ho hm hb hh hw

/-- **C07 — the header phase of the generated client never panics**: for every non-empty buffer below 2^64 bytes the first call
either is one of the five refusals (a value, not a panic) or is the continuation of the accepted case -/
theorem c07_gen_client_header_no_panic (A : HExtOk X C) (hC : C.Lawful) (ov : Bool) (g : ClientAEADCodec CM XR) (s : Session)
    (buf : Bytes) (hr : CRel (C := C) g s) (hd : g.body_decoder = none) (hne : buf ≠ []) (hl : buf.length < 2 ^ 64)
    (rest : Bytes) (r : Octo.Res Unit) (hk : (ClientHdr.classify C s buf).refusal = some (rest, r)) :
    ClientAEADCodec.Decoder_decode X ov g buf ≠ PWGen.Res.panic := by
  rw [gen_client_refusal A hC ov g s buf hr hd hne hl _ rest r hk]; simp

/-- later calls are exactly one call of the body codec's generated `decode_payload` on the client's session (TCP) -/
theorem c04_gen_client_later_call (ov : Bool) (g : ClientAEADCodec CM XR) (d : AEADBodyCodec CM XR) (buf : Bytes)
    (hd : g.body_decoder = some d) (hne : buf ≠ []) (hcmd : g.header.command = .TCP) :
    ClientAEADCodec.Decoder_decode X ov g buf =
      match Octo.VmessBodyGen.AEADBodyCodec.decode_payload X.body ov d buf (.ClientSession g.session) with
      | .panic => .panic
      | .ok (d', src', .ClientSession s', r) => .ok ({ g with body_decoder := some d', session := s' }, src', r)
      | .ok (_, _, .ServerSession _, _) => .panic :=
  gen_client_some ov g d buf hd hne hcmd
/-- a client value with an installed body decoder exists whenever a body codec value does -/
example (d : AEADBodyCodec Unit Unit) (hdr : RequestHeader) (ss : ClientSession) :
    (⟨hdr, ss, none, some d⟩ : ClientAEADCodec Unit Unit).body_decoder = some d := rfl

/-! ### the server's credential gate (priority 2, first step) -/

/-- **C04 — fewer than 16 bytes**: `Ok(None)`, nothing consumed, no panic (also on the empty buffer), the clock is not read -/
theorem c04_gen_server_short (ov : Bool) (g : ServerAeadCodec CM XR) (w : W) (buf : Bytes) (hs : g.decode_state = .Init)
    (hl : buf.length < 2 ^ 64) (h : buf.length < 16) :
    ServerAeadCodec.Decoder_decode X ov g w buf = PWGen.Res.ok (g, w, buf, RResult.ok none) :=
  gen_server_short ov g w buf hs hl h

/-- **C06 — the generated server relays only behind the credential gate**: when `auth_id::matching` finds no configured key
for the first 16 bytes, the call is `Err`, nothing is consumed, the state stays `Init`, nothing is connected or relayed -/
theorem c06_gen_server_gate (ov : Bool) (g : ServerAeadCodec CM XR) (w w' : W) (buf : Bytes) (hs : g.decode_state = .Init)
    (hl : buf.length < 2 ^ 64) (h : 16 ≤ buf.length)
    (hmatch : AuthId.matching X ov w (buf.take 16) g.keys = PWGen.Res.ok (w', RResult.ok none)) :
    ServerAeadCodec.Decoder_decode X ov g w buf = PWGen.Res.ok (g, w', buf, RResult.err) :=
  gen_server_gate ov g w buf hs hl h w' hmatch

/-- **C06 — absent credentials are not accepted**: with an empty user table every auth id (the all-zero one included) is refused -/
theorem c06_gen_server_no_users (ov : Bool) (g : ServerAeadCodec CM XR) (w : W) (buf : Bytes) (hs : g.decode_state = .Init)
    (hk : g.keys = []) (hl : buf.length < 2 ^ 64) (h : 16 ≤ buf.length) :
    ServerAeadCodec.Decoder_decode X ov g w buf = PWGen.Res.ok (g, w, buf, RResult.err) :=
  gen_server_gate ov g w buf hs hl h w (by rw [hk]; exact matching_nil ov w _)
example : ∃ g : ServerAeadCodec Unit Unit, g.decode_state = .Init ∧ g.keys = [] := ⟨⟨[], .Init, .Init⟩, rfl, rfl⟩


/-! ### the server side (added): `matching`, `open_header`, the header parse, `decode_header`, the `Ready` state -/
section serverProps
open Octo.VmessBodyGen (RelN SessD)

/-- the i64 guard is satisfiable: trivially for an empty table, and for every table whenever every CRC-valid timestamp is not 2^63 s old -/
example (C : Crypto) (a : Bytes) (now : Nat) : MatchGuard C a [] now := fun _ h => by cases h

/-- **C06 / C10 — `auth_id::matching` is the model's `authIdMatch`**: every user table, every 16-byte auth id, both profiles, inside
`-2^63 < t - now` (`MatchGuard`; outside: `c10_gen_window_wrap_difference`): no panic, `Ok` of the FIRST configured key under which
the token decrypts (AES-128 under KDF16(key, "AES Auth ID Encryption")) to a valid CRC-32 AND a timestamp with `|t − now| ≤ 120`
(both sides); keys that are not in the table are never tried; the clock still shows the same time afterwards -/
theorem c10_gen_matching_is_model (A : HExtOk X C) (hC : C.Lawful) (ov : Bool) (authId : Bytes) (ha : authId.length = 16)
    (keys : List Bytes) (w : W) (hg : MatchGuard C authId keys (A.nowOf w)) :
    ∃ w', AuthId.matching X ov w authId keys = PWGen.Res.ok (w', RResult.ok (authIdMatch C authId keys (A.nowOf w))) ∧
      A.nowOf w' = A.nowOf w :=
  matching_eq A hC ov authId ha keys w hg

/-- **C04 / C07 — `encrypt::open_header` is the model's `openHeader`**: never a panic, nothing consumed until the whole sealed header
is buffered (any segmentation), `Err` untouched when not authentic, exactly the sealed header consumed otherwise -/
theorem c04_gen_open_header_is_model (A : HExtOk X C) (hC : C.Lawful) (ov : Bool) (key src : Bytes) (hl : src.length < 2 ^ 64) :
    Encrypt.open_header X ov key src = embedOpen src (openHeader C key src) :=
  open_header_eq A hC ov key src hl

/-- **C06 / C10 / C04 / C07 — the header phase of the generated `ServerAeadCodec::decode` is the model's `Server.decode`** (see
`gen_server_init` for the case list): relays only behind `authIdMatch` over the CONFIGURED keys with the time window, waits without
consuming until the sealed header is complete, refuses (never panics on) every authentic-but-malformed header, and hands exactly the
model's parsed fields to `serverFinish` -/
theorem c06_gen_server_header_phase (A : HExtOk X C) (hC : C.Lawful) (ov : Bool) (g : ServerAeadCodec CM XR) (w : W) (buf : Bytes)
    (hs : g.decode_state = .Init) (hl : buf.length < 2 ^ 64) (h16 : 16 ≤ buf.length)
    (hguard : MatchGuard C (buf.take 16) g.keys (A.nowOf w)) :
    ∃ w', A.nowOf w' = A.nowOf w ∧
      match authIdMatch C (buf.take 16) g.keys (A.nowOf w) with
      | none => ServerAeadCodec.Decoder_decode X ov g w buf = PWGen.Res.ok (g, w', buf, RResult.err)
      | some key =>
        match openHeader C key buf with
        | .more => ServerAeadCodec.Decoder_decode X ov g w buf = PWGen.Res.ok (g, w', buf, RResult.ok none)
        | .err => ServerAeadCodec.Decoder_decode X ov g w buf = PWGen.Res.ok (g, w', buf, RResult.err)
        | .panic => False
        | .ok (h, n) =>
          match parseRequest C X.utf8_ok h with
          | .ok (s, mask, sec, cmd, addr) =>
            ∃ x, Octo.VmessAddrGen.toAddr x = addr ∧ s = ⟨(h.drop 1).take 16, (h.drop 17).take 16, h.getD 33 0⟩ ∧
              mask = (h.getD 34 0).toNat ∧ (hdrOf h x key).command = cmdG cmd ∧
              ServerAeadCodec.Decoder_decode X ov g w buf =
                serverFinish X ov g w' (buf.drop n) (hdrOf h x key) (X.server_session_new s.reqIv s.reqKey s.respHeader)
          | .panic => False
          | _ => ServerAeadCodec.Decoder_decode X ov g w buf = PWGen.Res.ok (g, w', buf.drop n, RResult.err) :=
  gen_server_init A hC ov g w buf hs hl h16 hguard

/-- **C04 — the TCP arm of `decode_header` emits `ConnectTcp` at once**: with the header complete the result is
`ConnectTcp(first body bytes, address)` = the model's run of body units; `Err` only if a buffered chunk fails; no panic -/
theorem c04_gen_server_connect_at_once (B : Octo.VmessBodyGen.ExtOk X.body C) (hC : C.Lawful) (ov : Bool) (hdr : RequestHeader)
    (d : AEADBodyCodec CM XR) (b : Body) (src : Bytes) (sess : ServerSession) (hc : hdr.command = .TCP)
    (h : RelN B d b) (hs : SessD (.ServerSession sess) b) (h64 : src.length < 2 ^ 64) :
    ∃ d' sess', ServerAeadCodec.decode_header X ov src hdr sess d =
        PWGen.Res.ok ((Fr.run (Body.unit C) b src).buf, hdr, sess', d',
          if (Fr.run (Body.unit C) b src).failed then RResult.err
          else RResult.ok (some (InboundIn.ConnectTcp (Fr.run (Body.unit C) b src).out hdr.address))) ∧
      RelN B d' (Fr.run (Body.unit C) b src).st ∧ SessD (.ServerSession sess') (Fr.run (Body.unit C) b src).st :=
  gen_decode_header_tcp B hC ov hdr d b src sess hc h hs h64

/-- … in particular **with NO body chunk buffered** (the header ends the read): `ConnectTcp(empty, address)`, not `Ok(None)` -/
theorem c04_gen_server_connect_without_body (B : Octo.VmessBodyGen.ExtOk X.body C) (hC : C.Lawful) (ov : Bool) (hdr : RequestHeader)
    (d : AEADBodyCodec CM XR) (b : Body) (sess : ServerSession) (hc : hdr.command = .TCP) (hp : b.st = .padding)
    (h : RelN B d b) (hs : SessD (.ServerSession sess) b) :
    ∃ d' sess', ServerAeadCodec.decode_header X ov [] hdr sess d =
        PWGen.Res.ok ([], hdr, sess', d', RResult.ok (some (InboundIn.ConnectTcp [] hdr.address))) := by
  obtain ⟨d', sess', he, _, _⟩ := gen_decode_header_tcp (X := X) B hC ov hdr d b [] sess hc h hs (by decide)
  rw [Octo.VmessBodyGen.run_nil C b hp] at he
  exact ⟨d', sess', he⟩

/-- **C02 / C04 — the UDP arm of `decode_header`**: `RelayUdp` only with a complete datagram chunk, `Ok(None)` otherwise -/
theorem c04_gen_server_udp_header (B : Octo.VmessBodyGen.ExtOk X.body C) (hC : C.Lawful) (ov : Bool) (hdr : RequestHeader)
    (d : AEADBodyCodec CM XR) (b : Body) (src : Bytes) (sess : ServerSession) (hc : hdr.command = .UDP)
    (h : RelN B d b) (hs : SessD (.ServerSession sess) b) (h64 : src.length < 2 ^ 64) :
    ∃ d' sess', ServerAeadCodec.decode_header X ov src hdr sess d =
        PWGen.Res.ok ((bodyDrainPacket C 3 b src).2.1, hdr, sess', d',
          match (bodyDrainPacket C 3 b src).2.2 with
          | .ok o => RResult.ok (some (InboundIn.RelayUdp o hdr.address))
          | .more => RResult.ok none
          | _ => RResult.err) ∧
      RelN B d' (bodyDrainPacket C 3 b src).1 ∧ SessD (.ServerSession sess') (bodyDrainPacket C 3 b src).1 :=
  gen_decode_header_udp B hC ov hdr d b src sess hc h hs h64

/-- **C04 — the `Ready` state**: an empty buffer is `Ok(None)` with the state untouched; otherwise one `decode_body` = the model's
`bodyDecode` (TCP: `RelayTcp` of what the run released; UDP: one datagram), same buffer, related new state, no panic -/
theorem c04_gen_server_ready (B : Octo.VmessBodyGen.ExtOk X.body C) (hC : C.Lawful) (ov : Bool) (g : ServerAeadCodec CM XR) (w : W)
    (hdr : RequestHeader) (sess : ServerSession) (d : AEADBodyCodec CM XR) (b : Body) (src : Bytes) (cmd : Cmd)
    (hst : g.decode_state = .Ready hdr sess d) (hc : hdr.command = cmdG cmd)
    (h : RelN B d b) (hs : SessD (.ServerSession sess) b) (h64 : src.length < 2 ^ 64) :
    if src = [] then ServerAeadCodec.Decoder_decode X ov g w src = PWGen.Res.ok (g, w, src, RResult.ok none)
    else ∃ d' sess' res, ServerAeadCodec.Decoder_decode X ov g w src =
        PWGen.Res.ok ({ g with decode_state := .Ready hdr sess' d' }, w, (bodyDecode C cmd b src).2.1, res) ∧
      (match (bodyDecode C cmd b src).2.2 with
        | .ok o => res = RResult.ok (some (if cmd = .tcp then InboundIn.RelayTcp o else InboundIn.RelayUdp o hdr.address))
        | .more => res = RResult.ok none
        | _ => res = RResult.err) ∧
      RelN B d' (bodyDecode C cmd b src).1 ∧ SessD (.ServerSession sess') (bodyDecode C cmd b src).1 :=
  gen_server_ready B hC ov g w hdr sess d b src cmd hst hc h hs h64
/-- the body-codec hypotheses are those of `Octo/Props/C04VmessBodyGen.lean` (examples there: `extOf_ok`, `rel_genOf`, `sessD_sessOf`) -/
example (C : Crypto) : Octo.VmessBodyGen.ExtOk (hextOf C).body C := Octo.VmessBodyGen.extOf_ok C

/-- **C07 — the body codec cannot change the implementor behind `&mut dyn Session`**: whatever `decode_payload` / `decode_packet`
return, the session is of the kind it was given — the `Flow.as_server` / `Flow.as_client` projections of the generated callers never
panic (proved from the generated code of `Octo.VmessBodyGen` with a partial-correctness loop rule, for ARBITRARY externals) -/
theorem c07_gen_body_keeps_implementor {RNG : Type} (Bx : Octo.VmessBodyGen.Ext CM XR RNG) (ov : Bool) (g : AEADBodyCodec CM XR)
    (src : Bytes) (s : DynSession) (r : AEADBodyCodec CM XR × Bytes × DynSession × RResult (Option Bytes)) :
    (Octo.VmessBodyGen.AEADBodyCodec.decode_payload Bx ov g src s = PWGen.Res.ok r → kind r.2.2.1 = kind s) ∧
    (Octo.VmessBodyGen.AEADBodyCodec.decode_packet Bx ov g src s = PWGen.Res.ok r → kind r.2.2.1 = kind s) :=
  ⟨decode_payload_kind Bx ov g src s r, decode_packet_kind Bx ov g src s r⟩

end serverProps

/-! ### round 3: the closed server theorem; `ServerAeadCodec::encode` (response header) -/
section round3
open Octo.VmessBodyGen (RelN SessD)

/-- the assumption about the two untranslated constructors is satisfiable (externals whose `new_decoder` builds the codec value of
`Body.new`), and so is the one about the encoder's externals -/
example (C : Crypto) : NewDecOk (hextOf2 C) C (Octo.VmessBodyGen.extOf_ok C) := newDecOk_hextOf2 C
example (C : Crypto) (h1 : ∀ b, C.crc32 b < 2 ^ 32) (h2 : ∀ b, C.fnv1a32 b < 2 ^ 32) : EncExtOk (hextOf C) C (hextOf_ok C h1 h2) :=
  encExtOk_hextOf C h1 h2
/-- related states exist: a fresh generated server and a fresh model server over the same key table -/
example (B : Octo.VmessBodyGen.ExtOk X.body C) (keys : List Bytes) :
    SRel B (⟨keys, .Init, .Init⟩ : ServerAeadCodec CM XR) ⟨keys, none⟩ := ⟨rfl, trivial⟩

/-- **`optsOf m` ↔ `knownMask m`** and the cipher choice: what `from_mask` / `SecurityType::from` + `AEADBodyCodec::new` make of the two
wire bytes is what the model makes of them (checked for all 256 values of each byte by kernel evaluation) -/
theorem c04_gen_option_mask_is_model (m b : UInt8) :
    maskOfOpts (optsOf m) = knownMask m.toNat ∧ secM (secOf (b &&& 15)) = Security.ofByte (b.toNat % 16) :=
  ⟨opts_mask m, sec_model b⟩

/-- **C04 / C06 / C07 / C10 / C02 — THE CLOSED THEOREM: the generated `ServerAeadCodec::decode` is the model's `Server.decode`, for every
call**: every related pair of states (`SRel`: `Init`, or `Ready` with related body codec), every buffer below 2^64 bytes, both overflow
profiles, inside the i64 guard of the time window (needed only in `Init` with ≥ 16 bytes): no panic, the model's buffer is left, the
model's outcome is returned (`Ok(None)` / `Err` / the same `ConnectTcp` / `RelayTcp` / `RelayUdp` with the same bytes and address), the
new states are related again (so the statement iterates over any segmentation of the stream), the clock shows the same time.
Assumptions: `HExtOk`, VmessBodyGen's `ExtOk`, `NewDecOk` (the two untranslated constructors build the model's `Body.new`), `C.Lawful`.
With it every theorem about `Server.decode` (`Octo/Props/C04VmessStream.lean`, `C06.lean`, `C07.lean`, `C10.lean`) transfers. -/
theorem c04_gen_server_decode_is_model (A : HExtOk X C) (B : Octo.VmessBodyGen.ExtOk X.body C) (N : NewDecOk X C B) (hC : C.Lawful)
    (ov : Bool) (g : ServerAeadCodec CM XR) (sv : Server) (w : W) (buf : Bytes) (hrel : SRel B g sv) (hl : buf.length < 2 ^ 64)
    (hguard : sv.ready = none → 16 ≤ buf.length → MatchGuard C (buf.take 16) sv.keys (A.nowOf w)) :
    ∃ g' w' res, ServerAeadCodec.Decoder_decode X ov g w buf =
        PWGen.Res.ok (g', w', (Server.decode C X.utf8_ok (A.nowOf w) sv buf).buf, res) ∧
      resOf res = (Server.decode C X.utf8_ok (A.nowOf w) sv buf).res ∧
      SRel B g' (Server.decode C X.utf8_ok (A.nowOf w) sv buf).st ∧ A.nowOf w' = A.nowOf w :=
  gen_server_decode_eq A B N hC ov g sv w buf hrel hl hguard

/-- the response header of the generated code is the specification's (`Spec.vmessResponseHeader`) -/
theorem c03_gen_resp_header_is_spec (hC : C.Lawful) (sess : ServerSession) (opt : UInt8) :
    respHeaderM C sess opt = Spec.vmessResponseHeader C sess.response_body_key sess.response_body_iv [sess.response_header, opt, 0, 0] := by
  simp only [respHeaderM, Spec.vmessResponseHeader, vmess_kdf16 C hC, vmess_kdf12 C hC,
    Vmess.saltRespLenKey, Vmess.saltRespLenIv, Vmess.saltRespKey, Vmess.saltRespIv, Vmess.str, Spec.ascii]
  rfl

/-- **C03 (`c03_vmess_response_header` for the code) — `ServerAeadCodec::encode`, first item**: what is written first is the
specification's response header `AEAD(len = 4) ‖ AEAD(V ‖ Opt ‖ 0 ‖ 0)` under the keys derived from the session's RESPONSE key / IV,
its first byte `V` being the session's response byte (the one the client checks: `c10_gen_client_wrong_response_byte`); the item then
goes through the generated body encoder (`Octo.VmessBodyGen`) behind it, and the encoder is kept (so the header is not written again) -/
theorem c03_gen_vmess_response_header (A : HExtOk X C) (E : EncExtOk X C A) (hC : C.Lawful) (ov : Bool) (g : ServerAeadCodec CM XR) (w : W)
    (hdr : RequestHeader) (sess : ServerSession) (d : AEADBodyCodec CM XR) (item : OutboundIn) (dst : Bytes)
    (hst : g.decode_state = .Ready hdr sess d) (hes : g.encode_state = .Init) :
    ∃ sess' r, X.new_encoder hdr (.ServerSession sess) = (.ServerSession sess', r) ∧
      ServerAeadCodec.Encoder_OutboundIn_encode X ov g w item dst =
        match r with
        | RResult.err => PWGen.Res.ok ({ g with decode_state := .Ready hdr sess' d }, w,
            dst ++ Spec.vmessResponseHeader C sess.response_body_key sess.response_body_iv [sess.response_header, maskByte hdr.option, 0, 0],
            RResult.err)
        | RResult.ok enc =>
          match ServerAeadCodec.encode X ov w (bytesOf item)
              (dst ++ Spec.vmessResponseHeader C sess.response_body_key sess.response_body_iv [sess.response_header, maskByte hdr.option, 0, 0])
              hdr sess' enc with
          | .ok (w', dst', sess'', enc', res) =>
            PWGen.Res.ok ({ g with decode_state := .Ready hdr sess'' d, encode_state := .Ready enc' }, w', dst', res)
          | .panic => PWGen.Res.panic := by
  obtain ⟨sess', r, h1, h2⟩ := gen_server_encode_first A E ov g w hdr sess d item dst hst hes
  exact ⟨sess', r, h1, by rw [h2, c03_gen_resp_header_is_spec hC]; cases r <;> rfl⟩
example : ∃ g : ServerAeadCodec Unit Unit, g.encode_state = .Init := ⟨⟨[], .Init, .Init⟩, rfl⟩

/-- **the response header is written once**: with the encoder installed, `encode` writes NO header — the item goes straight through
the body encoder; before the request has been decoded (`Init`) `encode` refuses and writes nothing -/
theorem c03_gen_vmess_response_header_once (ov : Bool) (g : ServerAeadCodec CM XR) (w : W)
    (hdr : RequestHeader) (sess : ServerSession) (d enc : AEADBodyCodec CM XR) (item : OutboundIn) (dst : Bytes) :
    (g.decode_state = .Ready hdr sess d → g.encode_state = .Ready enc →
      ServerAeadCodec.Encoder_OutboundIn_encode X ov g w item dst =
        match ServerAeadCodec.encode X ov w (bytesOf item) dst hdr sess enc with
        | .ok (w', dst', sess'', enc', res) =>
          PWGen.Res.ok ({ g with decode_state := .Ready hdr sess'' d, encode_state := .Ready enc' }, w', dst', res)
        | .panic => PWGen.Res.panic) ∧
    (g.decode_state = .Init → ServerAeadCodec.Encoder_OutboundIn_encode X ov g w item dst = PWGen.Res.ok (g, w, dst, RResult.err)) :=
  ⟨fun h1 h2 => gen_server_encode_later ov g w hdr sess d enc item dst h1 h2, fun h => gen_server_encode_not_ready ov g w item dst h⟩

/-- **C02 / C03 — which body encoder an item takes**: TCP items go through `encode_payload` (any length, chunked), UDP items through
`encode_packet` (exactly one chunk) — of the generated body codec, on the server's session -/
theorem c03_gen_server_encode_item (ov : Bool) (w : W) (item dst : Bytes) (hdr : RequestHeader) (sess : ServerSession)
    (enc : AEADBodyCodec CM XR) :
    ServerAeadCodec.encode X ov w item dst hdr sess enc =
      match (match hdr.command with
        | .TCP => Octo.VmessBodyGen.AEADBodyCodec.encode_payload X.body ov enc w item dst (.ServerSession sess)
        | .UDP => Octo.VmessBodyGen.AEADBodyCodec.encode_packet X.body ov enc w item dst (.ServerSession sess)) with
      | .ok (enc', w', dst', .ServerSession s', r) => PWGen.Res.ok (w', dst', s', enc', r)
      | .ok (_, _, _, .ClientSession _, _) => PWGen.Res.panic
      | .panic => PWGen.Res.panic :=
  gen_server_encode_item ov w item dst hdr sess enc

end round3

/-! ### where the code and the model differ: the i64 edge of the time window -/

/-- **C10 — difference between `auth_id::matching` as written and the model's `authIdMatch`**: the code's window test
`(t - now).abs() <= 120` is computed in i64.  For a timestamp exactly 2^63 seconds before the clock value (instance: clock 5) the
release profile accepts (`i64::MIN.abs()` wraps), the debug profile panics (`absOk` fails although the subtraction is fine), the
model refuses.  Reaching it needs an auth id with a valid CRC under a configured user's key.  Inside `-2^63 < t - now` they agree. -/
theorem c10_gen_window_wrap_difference :
    windowRelease ⟨0x8000000000000005⟩ (I64.ofNat 5) = true ∧
    I64.absOk (I64.sub ⟨0x8000000000000005⟩ (I64.ofNat 5)) = false ∧
    I64.subOk ⟨0x8000000000000005⟩ (I64.ofNat 5) = true ∧
    ¬ (((⟨0x8000000000000005⟩ : I64).toInt - (I64.ofNat 5).toInt).natAbs ≤ Consts.vmessAuthWindow) :=
  window_wrap_difference

end Octo.VmessHdrGen
