import Octo.Model.Handshake
import Octo.Proofs.Handshake
import Octo.Props.C14
/-!
# C13 — local SOCKS5 and HTTP handshakes yield exactly the requested target

`Hs.recognizeHttp` models `recognize_http`, `Hs.httpHandshake` / `Hs.socks5Handshake` the whole
`get_request_addr` as a function of the bytes received so far (the peek loops of the code make the
decision a function of those bytes, not of their segmentation — validated over real loopback
sockets with scripted segmentation).  The authority-extraction theorems over the target grammar are
in `Octo/Proofs/Handshake.lean` and re-exported at the end of this file.
-/
namespace Octo.Hs

theorem findByte_append_of_some (c : UInt8) (a t : Bytes) (i : Nat) (h : findByte c a = some i) :
    findByte c (a ++ t) = some i := by
  induction a generalizing i with
  | nil => simp [findByte] at h
  | cons x r ih =>
    simp only [List.cons_append, findByte] at h ⊢
    by_cases hx : x = c
    · simp only [hx, if_true] at h ⊢; exact h
    · simp only [hx, if_false] at h ⊢
      cases hr : findByte c r with
      | none => simp [hr] at h
      | some j => simp [hr] at h; simp [ih j hr, h]

theorem findByte_lt (c : UInt8) (a : Bytes) (i : Nat) (h : findByte c a = some i) : i < a.length := by
  induction a generalizing i with
  | nil => simp [findByte] at h
  | cons x r ih =>
    simp only [findByte] at h
    split at h
    · cases h; simp
    · cases hr : findByte c r with
      | none => simp [hr] at h
      | some j => simp [hr] at h; have := ih j hr; simp; omega

/-- once the request line (method SP target SP) has arrived, more bytes do not change what is read
from it: the decision does not depend on how the request was segmented -/
theorem requestLine_stable (b t : Bytes) (m p : Bytes) (h : requestLine b = some (m, p)) :
    requestLine (b ++ t) = some (m, p) := by
  unfold requestLine at h ⊢
  cases h1 : findByte (ch ' ') b with
  | none => simp [h1] at h
  | some i =>
    have hi := findByte_lt _ _ _ h1
    simp only [h1] at h
    rw [findByte_append_of_some _ _ _ _ h1]
    simp only
    cases h2 : findByte (ch ' ') (b.drop (i + 1)) with
    | none => simp [h2] at h
    | some j =>
      have hj := findByte_lt _ _ _ h2
      simp only [h2, Option.some.injEq, Prod.mk.injEq] at h
      have hd : (b ++ t).drop (i + 1) = b.drop (i + 1) ++ t := List.drop_append_of_le_length (by omega)
      rw [hd, findByte_append_of_some _ _ _ _ h2]
      simp only [Option.some.injEq, Prod.mk.injEq]
      simp only [List.length_drop] at hj
      refine ⟨?_, ?_⟩
      · rw [List.take_append_of_le_length (by omega)]; exact h.1
      · rw [List.take_append_of_le_length (by simp only [List.length_drop]; omega)]; exact h.2

theorem admitHost_some (h : Bytes) (p : Nat) (a : Addr) (ha : admitHost h p = some a) :
    a = .domain h p ∧ 0 < h.length ∧ h.length ≤ 255 := by
  unfold admitHost at ha
  split at ha
  · cases ha
  · cases ha; exact ⟨rfl, by omega, by omega⟩

/-- **a plain HTTP request is forwarded untouched**: nothing is consumed, nothing is answered -/
theorem c13_plain_http_untouched (b : Bytes) (a : Addr) (n : Nat) (r : Bytes) (m p h : Bytes) (port : Nat)
    (hl : requestLine (b.take 1024) = some (m, p)) (hr : recognizeHttp m p = some (.http h port))
    (ht : httpHandshake b = .tunnel a n r) : n = 0 ∧ r = [] ∧ a = .domain h port := by
  unfold httpHandshake at ht
  simp only [hl, hr] at ht
  cases ha : admitHost h port with
  | none => simp [ha] at ht
  | some a' =>
    simp only [ha, Outcome.tunnel.injEq] at ht
    exact ⟨ht.2.1.symm, ht.2.2.symm, by rw [← ht.1]; exact (admitHost_some h port a' ha).1⟩

/-- **nothing unrepresentable is tunnelled**: whatever the bytes, a tunnel is opened only towards an
address the outbound protocols can carry (C14's admission predicate) -/
theorem c13_http_tunnel_is_admitted (b : Bytes) (a : Addr) (n : Nat) (r : Bytes)
    (ht : httpHandshake b = .tunnel a n r) : ∃ h p, a = .domain h p ∧ 0 < h.length ∧ h.length ≤ 255 := by
  unfold httpHandshake at ht
  simp only [] at ht
  cases hl : requestLine (b.take 1024) with
  | none => simp only [hl] at ht; split at ht <;> cases ht
  | some mp =>
    obtain ⟨m, p⟩ := mp
    simp only [hl] at ht
    cases hr : recognizeHttp m p with
    | none => simp [hr] at ht
    | some px =>
      cases px with
      | http h port =>
        simp only [hr] at ht
        cases ha : admitHost h port with
        | none => simp [ha] at ht
        | some a' =>
          simp only [ha, Outcome.tunnel.injEq] at ht
          exact ⟨h, port, by rw [← ht.1]; exact (admitHost_some h port a' ha).1, (admitHost_some h port a' ha).2⟩
      | https h port =>
        simp only [hr] at ht
        cases ha : admitHost h port with
        | none => simp [ha] at ht
        | some a' =>
          simp only [ha] at ht
          cases hb : findBlankLine (b.take 8192) with
          | none => simp only [hb] at ht; split at ht <;> cases ht
          | some k =>
            simp only [hb, Outcome.tunnel.injEq] at ht
            exact ⟨h, port, by rw [← ht.1]; exact (admitHost_some h port a' ha).1, (admitHost_some h port a' ha).2⟩

/-- **a CONNECT request is consumed exactly**: up to and including its first blank line, and
answered with the 200 line -/
theorem c13_connect_consumed_exactly (b : Bytes) (a : Addr) (n : Nat) (r : Bytes) (m p h : Bytes) (port : Nat)
    (hl : requestLine (b.take 1024) = some (m, p)) (hr : recognizeHttp m p = some (.https h port))
    (ht : httpHandshake b = .tunnel a n r) :
    findBlankLine (b.take 8192) = some n ∧ r = connectReply := by
  unfold httpHandshake at ht
  simp only [hl, hr] at ht
  cases ha : admitHost h port with
  | none => simp [ha] at ht
  | some a' =>
    simp only [ha] at ht
    cases hb : findBlankLine (b.take 8192) with
    | none => simp only [hb] at ht; split at ht <;> cases ht
    | some k =>
      simp only [hb, Outcome.tunnel.injEq] at ht
      exact ⟨by rw [ht.2.1], ht.2.2.symm⟩

/-- **SOCKS5 CONNECT**: for a greeting offering any list of known methods and a CONNECT request
for any admitted address (IPv4, IPv6 or domain), the handshake tunnels to exactly that address,
answers `05 00` then `05 00 00 <bound address>`, and consumes exactly the two messages -/
theorem c13_socks5_connect (methods : Bytes) (hm : methods.all Socks5.authMethodOk = true) (hml : methods.length < 256)
    (a : Addr) (ha : a.Accepted) (bound : Addr) :
    socks5Handshake (Socks5.encodeInitialRequest methods) (Socks5.encodeCommandRequest 1 a) bound =
      .tunnel a ((Socks5.encodeInitialRequest methods).length + (Socks5.encodeCommandRequest 1 a).length)
        (Socks5.encodeInitialResponse 0 ++ Socks5.encodeCommandResponse 0 bound) := by
  have hg : Socks5.decodeInitialRequest (Socks5.encodeInitialRequest methods) = .ok (methods, []) := by
    unfold Socks5.decodeInitialRequest Socks5.encodeInitialRequest
    have hl : (u8 methods.length).toNat = methods.length := u8_toNat_lt _ hml
    simp only [List.cons_append, List.nil_append, List.getD_cons_succ, List.getD_cons_zero, hl, List.length_cons]
    rw [if_neg (by omega)]
    have hd : (5 :: u8 methods.length :: methods).drop (2 + methods.length) = [] := by
      rw [List.drop_eq_nil_iff]; simp; omega
    have ht : ((5 :: u8 methods.length :: methods).drop 2).take methods.length = methods := by simp
    simp [hd, ht, hm]
  have henc : Socks5.encodeCommandRequest 1 a = [5, 1, 0] ++ Socks5Addr.encode a := by simp [Socks5.encodeCommandRequest, u8]
  have hat := c14_socks5_try_decode_at a [5, 1, 0] [] ha
  simp only [List.append_nil] at hat
  have hdec := c14_socks5_roundtrip a [] ha
  simp only [List.append_nil] at hdec
  have hq : Socks5.decodeCommandRequest (Socks5.encodeCommandRequest 1 a) = .ok (1, a, []) := by
    rw [henc]
    unfold Socks5.decodeCommandRequest
    have hlen : 2 ≤ (Socks5Addr.encode a).length := by cases a <;> simp [Socks5Addr.encode] <;> omega
    rw [if_neg (by simp; omega)]
    have : ([5, 1, 0] ++ Socks5Addr.encode a : Bytes) = [5, 1, 0] ++ Socks5Addr.encode a ++ [] := by simp
    have hat' : Socks5Addr.tryDecodeAt ([5, 1, 0] ++ Socks5Addr.encode a) 3 = .ok (Socks5Addr.encode a).length := by
      simpa using hat
    rw [hat']
    simp only []
    rw [if_neg (by simp; omega)]
    simp [hdec]
  unfold socks5Handshake
  rw [hg, hq]
  simp only [ne_eq, not_true_eq_false, if_false]
  cases a with
  | domain h p =>
    obtain ⟨h1, h2, _⟩ := ha
    simp [admitHost, Nat.ne_of_gt h1, Nat.not_lt.mpr h2]
  | v4 ip p => simp
  | v6 ip p => simp

/-- BIND and UDP ASSOCIATE (or any other command) never open a tunnel -/
theorem c13_socks5_only_connect (greeting request : Bytes) (bound a : Addr) (n : Nat) (r : Bytes)
    (h : socks5Handshake greeting request bound = .tunnel a n r) :
    ∃ a' rest, Socks5.decodeCommandRequest request = .ok (1, a', rest) := by
  unfold socks5Handshake at h
  split at h
  · cases h
  · split at h
    · cases h
    · rename_i cmd a' rest hq
      simp only [] at h
      split at h
      · cases h
      · rename_i hc
        have : cmd = 1 := Classical.not_not.mp hc
        subst this
        exact ⟨a', rest, hq⟩
    · cases h
  · cases h

/-! ### authority extraction over the target grammar (proved in `Octo/Proofs/Handshake.lean`) -/

/-- **absolute-form targets**: for every well-formed `scheme "://" host [":" port] path ["?" query]`
— reg-name / IPv4 / bracketed IPv6 host, path and query free to contain ':' '/' and the query also
'?' and "://" — and every method but CONNECT, the tunnel target is exactly the authority's host
and port (80 when absent) -/
theorem c13_http_authority (t : Target) (h : t.WF) (method : Bytes) (hm : method ≠ str "CONNECT") :
    recognizeHttp method t.render =
      some (.http t.authHost (match t.port with | some p => (parseU16 p).getD 0 | none => 80)) :=
  recognizeHttp_absolute t h method hm

/-- **CONNECT**: `host:port` gives exactly that host and port -/
theorem c13_connect_authority (host p : Bytes) (v : Nat) (hhost : ∀ b ∈ host, b ≠ ch '/' ∧ b ≠ ch '?')
    (hp : parseU16 p = some v) (hd : ∀ b ∈ p, isDigit b = true) :
    recognizeHttp (str "CONNECT") (host ++ ch ':' :: p) = some (.https host v) :=
  recognizeHttp_connect host p v hhost hp hd

/-- **refusals**: an origin-form target (even one containing "://" further on), a present but
non-numeric or out-of-range port, CONNECT without a port: no tunnel -/
theorem c13_origin_form_refused (method path : Bytes) (hm : method ≠ str "CONNECT")
    (h : (beforeQuery path).head? = some (ch '/')) : recognizeHttp method path = none :=
  recognizeHttp_origin_form_refused method path hm h

theorem c13_bad_port_refused (t : Target) (h : t.Shape) (p : Bytes) (hp : t.port = some p)
    (hbad : parseU16 p = none) (method : Bytes) (hm : method ≠ str "CONNECT") :
    recognizeHttp method t.render = none :=
  recognizeHttp_bad_port_refused t h p hp hbad method hm

theorem c13_connect_without_port_refused (a : Bytes) (ha : ∀ b ∈ a, b ≠ ch ':' ∧ b ≠ ch '/' ∧ b ≠ ch '?') :
    recognizeHttp (str "CONNECT") a = none :=
  recognizeHttp_connect_no_port_refused a ha

end Octo.Hs
