import Octo.Model.Config
import Octo.Props.C03
/-!
# C16 — configuration names select exactly the documented behaviour

The domains are finite: every statement is decided over the *whole* table (`decide`), on the
tables extracted from the source today.
-/
namespace Octo.Config

/-- every documented cipher name is accepted, and selects the documented family (2022? identity
headers?) — on the serde table and predicate sets extracted from `codec/aead.rs` -/
theorem c16_cipher_names_source :
    readmeCiphers.all (fun (n, (_, _, is22, eih)) =>
      match cipherOf n with
      | some ci => ci.is2022 == is22 && ci.eih == eih
      | none => false) = true := by decide

/-- and nothing else is a cipher name: the source table has exactly the documented names -/
theorem c16_cipher_names_exact : Consts.cipherNames.map (·.1) = readmeCiphers.map (·.1) := by decide

/-- the codec models select exactly the documented algorithm, key size and family for each name -/
theorem c16_cipher_names_model :
    readmeCiphers.all (fun (n, info) => modelCipher n == some info) = true := by decide

/-- an undocumented cipher name selects nothing (startup error, no fallback) -/
theorem c16_unknown_cipher_rejected (s : String) (k : Ss.Kind) (h : Ss.Kind.ofName s = some k) :
    s ∈ readmeCiphers.map (·.1) := by
  unfold Ss.Kind.ofName at h
  split at h <;> first | (cases h; simp [readmeCiphers]) | (cases h)

/-- every documented mode opens exactly the documented sockets (`tcp_and_udp` ⇒ TCP and UDP,
`tcp_and_quic` ⇒ TCP and QUIC, …) — on the `matches!` sets extracted from `config.rs` -/
theorem c16_modes : readmeModes.all (fun (n, l) => listenersOf n == some l) = true := by decide

theorem c16_mode_names_exact : Consts.modeNames.map (·.1) = readmeModes.map (·.1) := by decide

theorem c16_protocol_names_exact : Consts.protocolNames.map (·.1) = readmeProtocols := by decide

/-- **key paths**: on UDP a cipher takes the same credential, derived the same way, as on TCP —
in particular a legacy cipher takes an ordinary password on both -/
theorem c16_key_paths (C : Crypto) (cipher password : String) (users : List (String × String)) :
    Ss.udpCtxOfConfig C cipher password users = Ss.ctxOfConfig C cipher password users := rfl

/-- a legacy cipher's key is OpenSSL's EVP_BytesToKey of the password, for either key size -/
theorem c16_legacy_key (C : Crypto) (hC : C.Lawful) (cipher password : String) (ctx : Ss.Ctx)
    (h : Ss.ctxOfConfig C cipher password [] = some ctx) (hl : ctx.kind.is2022 = false) :
    ctx.key = Spec.evpBytesToKey C ctx.kind.n password.toUTF8.toList := by
  unfold Ss.ctxOfConfig at h
  split at h
  · cases h
  · rename_i k hk
    simp only [List.map_nil, List.all_nil, not_true_eq_false, if_false, List.filterMap_nil] at h
    split at h
    · rename_i h22
      split at h
      · cases h
      · cases h; simp [h22] at hl
    · cases h
      simp only
      exact c03_ss_evp_key C hC k.n (by cases k <;> simp [Ss.Kind.n]) _

/-- **a key of the wrong length stops startup**: for a 2022 cipher, if any ':'-separated part of the
password is not valid base64 of exactly N bytes, no context is built (error, no padding, no panic) -/
theorem c16_bad_key (n : Nat) (s : String) (k : Bytes) (h : Ss.decodeKey n s = some k) : k.length = n := by
  unfold Ss.decodeKey at h
  split at h
  · cases h
  · split at h
    · cases h
    · cases h; rename_i hh; exact Classical.not_not.mp hh

theorem c16_bad_key_rejected (n : Nat) (password : String)
    (h : ∃ part ∈ password.splitOn ":", Ss.decodeKey n part = none) : Ss.passwordToKeys n password = none := by
  obtain ⟨part, hm, hd⟩ := h
  unfold Ss.passwordToKeys
  simp only []
  rw [if_neg]
  intro hall
  rw [List.all_eq_true] at hall
  have := hall (Ss.decodeKey n part) (List.mem_map.mpr ⟨part, hm, rfl⟩)
  rw [hd] at this
  simp at this

end Octo.Config
