import Octo.Proofs.SsTcpGen
import Octo.Proofs.SsTcpGenEih
import Octo.Proofs.SsTcpGenEnc
import Octo.Proofs.SsTcpGenStream
import Octo.Proofs.Toy
import Octo.Proofs.Ss2022Stream
import Octo.Props.C10
/-!
  C04 / C07 / C10 for the code GENERATED from `octo-squirrel/src/codec/shadowsocks/tcp.rs` by `bin/translate_sstcp.py`
  (`Octo/Gen/SsTcpGen.lean`): the statements of `Octo/Props/C04Ss2022.lean`, `C07.lean`, `C10.lean` about the hand model's
  `cipherDecode` / `init2022` hold for what the Rust says today, through the equivalence of `Octo/Proofs/SsTcpGen.lean`.

  The externals of the generated code (`Ext`) are instantiated by the hand model's functions (`XM E`: `Auth.openB`, the BLAKE3
  session key, `SaltCache.get/insert` at time `E.nowMs`, the clock `E.now`).  Scope of the equivalence: Shadowsocks 2022,
  server side, pre-shared key (no identity header), first call of a connection (`decoder = None`), plus the shape of every
  later call for arbitrary externals.  Common hypotheses (all satisfiable, see the `example`s):
    `toKind context.kind = some k`, `k.is2022`        the configured cipher is a 2022 cipher
    `N.toNat = k.n`, `salt.length = N.toNat`           the const generic is the cipher's key length (what the types say in Rust)
    `src.length < 2^64`, `E.now < 2^64`                what a `usize` / `u64` carries and a Lean `Nat` does not
    `hopen`                                            AEAD open returns a plaintext 16 bytes shorter than its input
-/
namespace Octo.SsTcpGen
open Octo Octo.PWGen Octo.AddrGen

/-- the common hypotheses of the first-call theorems -/
structure FirstCall (E : MEnv) (k : Ss.Kind) (N : Usize) (codec : AEADCipherCodec MT) (context : Context MT) (session : Session)
    (src : List UInt8) : Prop where
  hk : toKind context.kind = some k
  h22 : k.is2022 = true
  hN : N.toNat = k.n
  hsalt : session.identity.salt.length = N.toNat
  hm : session.mode = .Server
  hreq : (k.supportEih && decide ((context.user_manager.getD []).length > 0)) = false
  hself : codec.decoder = none
  hb : src.length < 2 ^ 64
  hnow : E.now < 2 ^ 64
  hopen : ∀ a key n ad c p, E.C.openB a key n ad c = some p → c.length = p.length + 16

/-! a concrete instance (the toy crypto of `Octo/Model/Crypto.lean`), used to show the hypotheses are satisfiable -/
def demoE : MEnv := ⟨Crypto.toy, 1000, 1000000, 61000, 102400, false, 0, []⟩
def demoCtx : Context MT := ⟨List.replicate 16 1, [], .Aead2022Blake3Aes128Gcm, none, []⟩
def demoSess : Session := ⟨.Server, ⟨List.replicate 16 2, none, none⟩, none⟩
def demoSelf : AEADCipherCodec MT := ⟨none, none⟩
theorem demo_first (src : List UInt8) (h : src.length < 2 ^ 64) : FirstCall demoE .b3aes128 16 demoSelf demoCtx demoSess src :=
  ⟨rfl, rfl, rfl, rfl, rfl, rfl, rfl, h, by decide, fun a key n ad c p hp => Crypto.toy_lawful.open_len a key n ad c p hp⟩

/-- **C04/C07 (generated code = model, one call)**: the first `decode` call of a server-side 2022 connection, as the Rust
source says it today, returns (never panics, terminates) and agrees with the model's `cipherDecode`: same returned bytes /
`Ok(None)` / `Err`, same remaining buffer, same decoder state, the model's session whenever bytes are handed out; the static
part of the context is untouched. -/
theorem c04_sstcp_decode_is_model (ov : Bool) (E : MEnv) (k : Ss.Kind) (N : Usize) (self : AEADCipherCodec MT)
    (context : Context MT) (session : Session) (src : List UInt8) (H : FirstCall E k N self context session src) :
    ∃ out, AEADCipherCodec.decode ov (XM E) N self context session src = PWGen.Res.ok out ∧
      AgreeCall E k self context session src out :=
  decode_2022_server_psk ov E k N self context session src H.hk H.h22 H.hN H.hsalt H.hm H.hreq H.hself H.hb H.hnow H.hopen

example : ∃ out, AEADCipherCodec.decode true (XM demoE) 16 demoSelf demoCtx demoSess (List.replicate 50 7) = PWGen.Res.ok out ∧
    AgreeCall demoE .b3aes128 demoSelf demoCtx demoSess (List.replicate 50 7) out :=
  c04_sstcp_decode_is_model true demoE .b3aes128 16 demoSelf demoCtx demoSess _ (demo_first _ (by decide))

/-- **C07 (generated code)**: no input buffer makes the first call panic, in either overflow profile -/
theorem c07_sstcp_decode_never_panics (ov : Bool) (E : MEnv) (k : Ss.Kind) (N : Usize) (self : AEADCipherCodec MT)
    (context : Context MT) (session : Session) (src : List UInt8) (H : FirstCall E k N self context session src) :
    AEADCipherCodec.decode ov (XM E) N self context session src ≠ PWGen.Res.panic := by
  obtain ⟨out, h, _⟩ := c04_sstcp_decode_is_model ov E k N self context session src H
  rw [h]; intro x; cases x

example : AEADCipherCodec.decode false (XM demoE) 16 demoSelf demoCtx demoSess [1, 2, 3] ≠ PWGen.Res.panic :=
  c07_sstcp_decode_never_panics false demoE .b3aes128 16 demoSelf demoCtx demoSess _ (demo_first _ (by decide))

/-- **C04/C07 (the header parser itself)**: `init_aead_2022_payload_decoder`, called with at least the salt buffered, agrees
with the model's `init2022` step — including the cache operations: `check_nonce` runs iff the fixed header is complete (and
before anything is opened), `set_nonce` runs iff the whole variable header is present — also when opening it then fails
(the step consumed bytes), i.e. BEFORE it is opened. -/
theorem c04_sstcp_init2022_is_model (ov : Bool) (E : MEnv) (k : Ss.Kind) (N : Usize) (self : AEADCipherCodec MT)
    (context : Context MT) (session : Session) (src : List UInt8) (H : FirstCall E k N self context session src)
    (hn : k.n ≤ src.length) :
    ∃ out, AEADCipherCodec.init_aead_2022_payload_decoder ov (XM E) N self context session src = PWGen.Res.ok out ∧
      Agree E k self context session src out :=
  init2022_server_psk ov E k N self context session src H.hk H.h22 H.hN H.hm H.hreq H.hself H.hb hn H.hnow H.hopen

example : ∃ out, AEADCipherCodec.init_aead_2022_payload_decoder true (XM demoE) 16 demoSelf demoCtx demoSess (List.replicate 50 7) =
    PWGen.Res.ok out ∧ Agree demoE .b3aes128 demoSelf demoCtx demoSess (List.replicate 50 7) out :=
  c04_sstcp_init2022_is_model true demoE .b3aes128 16 demoSelf demoCtx demoSess _ (demo_first _ (by decide)) (by decide)

/-- **C04 (first-read exemption, generated code)**: the salt is there but fewer than `N + 27` bytes (salt ‖ fixed header):
the call fails (`Err`), consumes nothing and leaves the decoder unset — it does not wait. -/
theorem c04_sstcp_first_read_exemption (ov : Bool) (E : MEnv) (k : Ss.Kind) (N : Usize) (self : AEADCipherCodec MT)
    (context : Context MT) (session : Session) (src : List UInt8) (H : FirstCall E k N self context session src)
    (h1 : k.n ≤ src.length) (h2 : src.length < k.n + 27) (hne : src ≠ []) :
    ∃ out, AEADCipherCodec.decode ov (XM E) N self context session src = PWGen.Res.ok out ∧
      out.2.2.2.2 = RResult.err ∧ out.2.2.2.1 = src ∧ out.1.decoder = none := by
  obtain ⟨out, h, ha⟩ := c04_sstcp_decode_is_model ov E k N self context session src H
  refine ⟨out, h, ?_⟩
  obtain ⟨hv, _, _, _⟩ := ha
  have hmm : (toSess session).mode = .server := by simp [toSess, H.hm, toMode]
  have hR : Ss.requireEih (toCtx k context) (toSess session) = false := by
    simp only [Ss.requireEih, hmm, decide_true, Bool.true_and]
    show (k.supportEih && decide (((context.user_manager.getD []).map toUser).length > 0)) = false
    rw [List.length_map]; exact H.hreq
  have he : src.isEmpty = false := by cases src <;> simp_all
  have hM := init2022_header_short E.C (toCtx k context) (envOf E context.nonce_cache) ⟨none, toSess session⟩ src h1
    (by simp only [hR, hmm]; simpa [toCtx] using h2)
  rw [cipherDecode_2022 _ _ _ _ _ H.h22, he, hM] at hv
  simp only [Bool.false_eq_true, if_false, stepView, List.drop_zero, Prod.mk.injEq] at hv
  obtain ⟨h1', h2', h3'⟩ := hv
  refine ⟨?_, h2', ?_⟩
  · cases hr : out.2.2.2.2 with
    | err => rfl
    | ok o => rw [hr] at h3'; cases o <;> simp [absRes] at h3'
  · have := congrArg Ss.Dec.chunk h1'
    simpa using this

example : ∃ out, AEADCipherCodec.decode true (XM demoE) 16 demoSelf demoCtx demoSess (List.replicate 20 7) = PWGen.Res.ok out ∧
    out.2.2.2.2 = RResult.err ∧ out.2.2.2.1 = List.replicate 20 7 ∧ out.1.decoder = none :=
  c04_sstcp_first_read_exemption true demoE .b3aes128 16 demoSelf demoCtx demoSess _ (demo_first _ (by decide))
    (by decide) (by decide) (by decide)

/-- **C10 (replay, generated code)**: a request whose salt the cache still holds is refused (`Err`), nothing is consumed, no
decoder is installed. -/
theorem c10_sstcp_replayed_salt_refused (ov : Bool) (E : MEnv) (k : Ss.Kind) (N : Usize) (self : AEADCipherCodec MT)
    (context : Context MT) (session : Session) (src : List UInt8) (H : FirstCall E k N self context session src)
    (h2 : k.n + 27 ≤ src.length)
    (hseen : (SaltCache.get E.ttl E.nowMs context.nonce_cache (src.take k.n)).1 = true) :
    ∃ out, AEADCipherCodec.decode ov (XM E) N self context session src = PWGen.Res.ok out ∧
      out.2.2.2.2 = RResult.err ∧ out.2.2.2.1 = src ∧ out.1.decoder = none := by
  obtain ⟨out, h, ha⟩ := c04_sstcp_decode_is_model ov E k N self context session src H
  refine ⟨out, h, ?_⟩
  obtain ⟨hv, _, _, _⟩ := ha
  have hmm : (toSess session).mode = .server := by simp [toSess, H.hm, toMode]
  have hR : Ss.requireEih (toCtx k context) (toSess session) = false := by
    simp only [Ss.requireEih, hmm, decide_true, Bool.true_and]
    show (k.supportEih && decide (((context.user_manager.getD []).map toUser).length > 0)) = false
    rw [List.length_map]; exact H.hreq
  have hkn : 16 ≤ k.n := by cases k <;> simp [Ss.Kind.n]
  have he : src.isEmpty = false := by cases src <;> simp_all <;> omega
  have hM := init2022_replayed E.C (toCtx k context) (envOf E context.nonce_cache) ⟨none, toSess session⟩ src
    (by simp only [hR, hmm]; simp [toCtx]; exact h2) hseen
  rw [cipherDecode_2022 _ _ _ _ _ H.h22, he, hM] at hv
  simp only [Bool.false_eq_true, if_false, stepView, List.drop_zero, Prod.mk.injEq] at hv
  obtain ⟨h1', h2', h3'⟩ := hv
  refine ⟨?_, h2', ?_⟩
  · cases hr : out.2.2.2.2 with
    | err => rfl
    | ok o => rw [hr] at h3'; cases o <;> simp [absRes] at h3'
  · have := congrArg Ss.Dec.chunk h1'
    simpa using this

/-- a context whose cache still holds the salt `7,7,..` -/
def demoCtxSeen : Context MT := { demoCtx with nonce_cache := [⟨List.replicate 16 7, 1000000⟩] }

example : ∃ out, AEADCipherCodec.decode true (XM demoE) 16 demoSelf demoCtxSeen demoSess (List.replicate 50 7) = PWGen.Res.ok out ∧
    out.2.2.2.2 = RResult.err ∧ out.2.2.2.1 = List.replicate 50 7 ∧ out.1.decoder = none :=
  c10_sstcp_replayed_salt_refused true demoE .b3aes128 16 demoSelf demoCtxSeen demoSess _
    ⟨rfl, rfl, rfl, rfl, rfl, rfl, rfl, by decide, by decide, fun a key n ad c p hp => Crypto.toy_lawful.open_len a key n ad c p hp⟩
    (by decide) (by decide)

/-- **C10 (acceptance only as the model accepts)**: whenever the generated `decode` hands out bytes on a first call, the
model's `init2022` accepted (`take`) — so `c10_ss2022_accept_conditions` (expected stream type, timestamp within the window
read from the source, echoed salt) and `c10_no_replay` apply to the code. -/
theorem c10_sstcp_accepts_only_as_model (ov : Bool) (E : MEnv) (k : Ss.Kind) (N : Usize) (self : AEADCipherCodec MT)
    (context : Context MT) (session : Session) (src : List UInt8) (H : FirstCall E k N self context session src)
    (out : AEADCipherCodec MT × Context MT × Session × Cursor × RResult (Option Cursor)) (via : Cursor)
    (h : AEADCipherCodec.decode ov (XM E) N self context session src = PWGen.Res.ok out)
    (hv : out.2.2.2.2 = RResult.ok (some via)) :
    ∃ d' n, Ss.cipherDecode E.C (toCtx k context) (envOf E context.nonce_cache) ⟨none, toSess session⟩ src =
      (d', src.drop n, .ok (Ss.Ev.accepted (src.take k.n) :: via.map Ss.Ev.byte)) ∧ toSess out.2.2.1 = d'.sess := by
  obtain ⟨out', h', ha⟩ := c04_sstcp_decode_is_model ov E k N self context session src H
  rw [h] at h'
  cases h'
  obtain ⟨hview, hsess, _, _⟩ := ha
  have hs := hsess via hv
  rw [hv] at hview
  simp only [absRes] at hview
  have hc := cipherDecode_2022 E.C (toCtx k context) (envOf E context.nonce_cache) (toSess session) src H.h22
  by_cases he : src.isEmpty = true
  · rw [hc, if_pos he] at hview; simp at hview
  · rw [if_neg he] at hc
    cases hst : Ss.init2022 E.C (toCtx k context) (envOf E context.nonce_cache) ⟨none, toSess session⟩ src with
    | need => rw [hc, hst] at hview; simp [stepView] at hview
    | fail d n => rw [hc, hst] at hview; simp [stepView] at hview
    | take d n o =>
      rw [hc, hst] at hview hs ⊢
      simp only [stepView, Prod.mk.injEq] at hview hs ⊢
      exact ⟨d, n, ⟨rfl, rfl, by rw [← hview.2.2]⟩, hs⟩

/-- the model accepts the request `Demo22.wire` of `Octo/Proofs/Ss2022Stream.lean` (toy crypto) -/
theorem demo_wire_ok : (Ss.cipherDecode demoE.C (toCtx .b3aes128 demoCtx) (envOf demoE demoCtx.nonce_cache)
    ⟨none, toSess demoSess⟩ Ss.Demo22.wire).2.2.isOk = true := by decide +kernel

example : ∃ out via, AEADCipherCodec.decode true (XM demoE) 16 demoSelf demoCtx demoSess Ss.Demo22.wire = PWGen.Res.ok out ∧
    out.2.2.2.2 = RResult.ok (some via) := by
  obtain ⟨out, h, ha⟩ := c04_sstcp_decode_is_model true demoE .b3aes128 16 demoSelf demoCtx demoSess Ss.Demo22.wire
    (demo_first _ (by decide +kernel))
  obtain ⟨hv, _, _, _⟩ := ha
  have hk := demo_wire_ok
  rw [← hv] at hk
  cases hr : out.2.2.2.2 with
  | err => rw [hr] at hk; simp [absRes, Res.isOk] at hk
  | ok o =>
    cases o with
    | none => rw [hr] at hk; simp [absRes, Res.isOk] at hk
    | some via => exact ⟨out, via, h, hr⟩
/-- **the window constant**: the timestamp tolerance in the generated `validate_timestamp` is the constant read from
`aead_2022.rs` and equals the one `bin/extract_consts.py` reads for the model (`c10_ttl_covers_window` is about it) -/
theorem c10_sstcp_window_constant : SERVER_STREAM_TIMESTAMP_MAX_DIFF.toNat = Consts.ssMaxTimeDiff := window_eq

/-- **C10 (stale timestamp, generated code)**: `validate_timestamp` refuses exactly the timestamps further than the window
from the clock -/
theorem c10_sstcp_validate_timestamp (ov : Bool) (E : MEnv) (ts : UInt64) (hnow : E.now < 2 ^ 64) :
    validate_timestamp ov (XM E) ts =
      PWGen.Res.ok (if Ss.absDiff E.now ts.toNat > Consts.ssMaxTimeDiff then RResult.err else RResult.ok ()) :=
  validate_timestamp_eval ov E ts hnow

example : validate_timestamp true (XM demoE) 1031 = PWGen.Res.ok RResult.err := by
  rw [c10_sstcp_validate_timestamp true demoE 1031 (by decide)]; decide

/-- **C09/C10 (one atomic lock)**: a salt `check_nonce` did not find is not found by the `set_nonce` that follows on the
same cache state, so the second `bail!("detected repeated nonce salt")` is dead code unless another connection inserted the
salt between the two locks -/
theorem c10_sstcp_set_after_check (ttl cap now : Nat) (c : SaltCache.Cache) (k : Bytes)
    (h : (SaltCache.get ttl now c k).1 = false) :
    (SaltCache.insert ttl cap now (SaltCache.get ttl now c k).2 k).1 = false := insert_after_get ttl cap now c k h

/-- **later calls (any externals)**: with a decoder installed `decode` is one `decode_payload` of the external chunk layer;
it does not recurse and has no panic of its own -/
theorem c07_sstcp_later_call (ov : Bool) {T : ExtTypes} (X : Ext T) (N : Usize) (self : AEADCipherCodec T) (context : Context T)
    (session : Session) (src : List UInt8) (d d' : ChunkDecoder T) (src' dst : Cursor) (r : RResult Unit)
    (hd : self.decoder = some d) (hne : src ≠ [])
    (hx : X.ChunkDecoder_decode_payload d src [] = PWGen.Res.ok (d', src', dst, r)) :
    AEADCipherCodec.decode ov X N self context session src =
      PWGen.Res.ok ({ self with decoder := some d' }, context, session, src',
        match r with
        | .err => RResult.err
        | .ok () => if dst.isEmpty then RResult.ok none else RResult.ok (some dst)) :=
  decode_some ov X N self context session src d d' src' dst r hd hne hx

example : AEADCipherCodec.decode true (XM demoE) 16 ⟨none, some ⟨Ss.Auth.new .aes128gcm [], .Length⟩⟩ demoCtx demoSess [1] =
    PWGen.Res.ok (⟨none, some ⟨Ss.Auth.new .aes128gcm [], .Length⟩⟩, demoCtx, demoSess, [1], RResult.ok none) :=
  c07_sstcp_later_call true (XM demoE) 16 _ demoCtx demoSess [1] ⟨Ss.Auth.new .aes128gcm [], .Length⟩ ⟨Ss.Auth.new .aes128gcm [], .Length⟩ [1] [] (.ok ()) rfl (by decide) rfl


/-! ## client mode (the response) -/

/-- the common hypotheses of the client-side first-call theorems -/
structure FirstCallClient (E : MEnv) (k : Ss.Kind) (N : Usize) (codec : AEADCipherCodec MT) (context : Context MT)
    (session : Session) (src : List UInt8) : Prop where
  hk : toKind context.kind = some k
  h22 : k.is2022 = true
  hN : N.toNat = k.n
  hsalt : session.identity.salt.length = N.toNat
  hm : session.mode = .Client
  hself : codec.decoder = none
  hb : src.length < 2 ^ 64
  hnow : E.now < 2 ^ 64
  hopen : ∀ a key n ad c p, E.C.openB a key n ad c = some p → c.length = p.length + 16

/-- the client session of `Demo22` (own salt `7,7,..`), as the generated `Session` -/
def demoCliSess : Session := ⟨.Client, ⟨List.replicate 16 7, none, none⟩, none⟩
theorem demo_first_client (src : List UInt8) (h : src.length < 2 ^ 64) :
    FirstCallClient demoE .b3aes128 16 demoSelf demoCtx demoCliSess src :=
  ⟨rfl, rfl, rfl, rfl, rfl, rfl, h, by decide, fun a key n ad c p hp => Crypto.toy_lawful.open_len a key n ad c p hp⟩

/-- **C04/C07/C10 (generated code = model, client)**: the first `decode` call on a response — salt, replay check, fixed header,
stream type `expect_u8`, timestamp, the echoed request salt compared with this connection's salt, variable header — returns
(never panics) and agrees with the model's `cipherDecode`. -/
theorem c04_sstcp_client_decode_is_model (ov : Bool) (E : MEnv) (k : Ss.Kind) (N : Usize) (self : AEADCipherCodec MT)
    (context : Context MT) (session : Session) (src : List UInt8) (H : FirstCallClient E k N self context session src) :
    ∃ out, AEADCipherCodec.decode ov (XM E) N self context session src = PWGen.Res.ok out ∧
      AgreeCall E k self context session src out :=
  decode_2022_client ov E k N self context session src H.hk H.h22 H.hN H.hsalt H.hm H.hself H.hb H.hnow H.hopen

example : ∃ out, AEADCipherCodec.decode true (XM demoE) 16 demoSelf demoCtx demoCliSess Ss.Demo22.rwire = PWGen.Res.ok out ∧
    AgreeCall demoE .b3aes128 demoSelf demoCtx demoCliSess Ss.Demo22.rwire out :=
  c04_sstcp_client_decode_is_model true demoE .b3aes128 16 demoSelf demoCtx demoCliSess _ (demo_first_client _ (by decide +kernel))

/-- **C07 (client)**: no response makes the first call panic -/
theorem c07_sstcp_client_decode_never_panics (ov : Bool) (E : MEnv) (k : Ss.Kind) (N : Usize) (self : AEADCipherCodec MT)
    (context : Context MT) (session : Session) (src : List UInt8) (H : FirstCallClient E k N self context session src) :
    AEADCipherCodec.decode ov (XM E) N self context session src ≠ PWGen.Res.panic := by
  obtain ⟨out, h, _⟩ := c04_sstcp_client_decode_is_model ov E k N self context session src H
  rw [h]; intro x; cases x

example : AEADCipherCodec.decode false (XM demoE) 16 demoSelf demoCtx demoCliSess [1, 2, 3] ≠ PWGen.Res.panic :=
  c07_sstcp_client_decode_never_panics false demoE .b3aes128 16 demoSelf demoCtx demoCliSess _ (demo_first_client _ (by decide))

/-- **C10 (what an accepted first flight satisfies, generated code, either mode)**: whenever a `decode` call that agrees with
the model hands out bytes, the fixed header the model opened (`hh`) carries the expected stream type (`Mode::expect_u8`: 0 at a
server, 1 at a client), a timestamp within the window of the clock, and — on a client — an echoed request salt equal to this
connection's own salt. -/
theorem c10_sstcp_accept_conditions (E : MEnv) (k : Ss.Kind) (self : AEADCipherCodec MT) (context : Context MT)
    (session : Session) (src : List UInt8) (h22 : k.is2022 = true)
    (out : AEADCipherCodec MT × Context MT × Session × Cursor × RResult (Option Cursor)) (via : Cursor)
    (ha : AgreeCall E k self context session src out) (hv : out.2.2.2.2 = RResult.ok (some via)) :
    ∃ hh : Bytes, hh.headD 0 = (toMode session.mode).expectU8 ∧
      Ss.absDiff E.now (rdBE ((hh.drop 1).take 8)) ≤ Consts.ssMaxTimeDiff ∧
      (session.mode = .Client → (hh.drop 9).take k.n = session.identity.salt) := by
  obtain ⟨hview, _, _, _⟩ := ha
  rw [hv] at hview
  simp only [absRes] at hview
  have hc := cipherDecode_2022 E.C (toCtx k context) (envOf E context.nonce_cache) (toSess session) src h22
  by_cases he : src.isEmpty = true
  · rw [hc, if_pos he] at hview; simp at hview
  · rw [if_neg he] at hc
    cases hst : Ss.init2022 E.C (toCtx k context) (envOf E context.nonce_cache) ⟨none, toSess session⟩ src with
    | need => rw [hc, hst] at hview; simp [stepView] at hview
    | fail d n => rw [hc, hst] at hview; simp [stepView] at hview
    | take d n o =>
      obtain ⟨dd, s1, hl, salt, a, hh, ht, hm1, hs1⟩ := init2022_take_tail _ _ _ _ _ _ _ _ hst
      obtain ⟨c1, c2, c3⟩ := c10_ss2022_accept_conditions _ _ _ _ _ _ _ _ _ _ _ _ _ _ ht
      refine ⟨hh, ?_, c2, ?_⟩
      · rw [c1, hm1]; rfl
      · intro hcl
        have hmc : s1.mode = .client := by rw [hm1]; simp [toSess, hcl, toMode]
        have := c3 hmc
        rw [hs1] at this
        simpa [toSess, hcl, toMode, toCtx] using this

/-- on the client: a response is delivered only if it echoes this connection's salt and is fresh -/
example : ∃ out via, AEADCipherCodec.decode true (XM demoE) 16 demoSelf demoCtx demoCliSess Ss.Demo22.rwire = PWGen.Res.ok out ∧
    out.2.2.2.2 = RResult.ok (some via) := by
  obtain ⟨out, h, ha⟩ := c04_sstcp_client_decode_is_model true demoE .b3aes128 16 demoSelf demoCtx demoCliSess Ss.Demo22.rwire
    (demo_first_client _ (by decide +kernel))
  obtain ⟨hv, _, _, _⟩ := ha
  have hk : (Ss.cipherDecode demoE.C (toCtx .b3aes128 demoCtx) (envOf demoE demoCtx.nonce_cache)
      ⟨none, toSess demoCliSess⟩ Ss.Demo22.rwire).2.2.isOk = true := by decide +kernel
  rw [← hv] at hk
  cases hr : out.2.2.2.2 with
  | err => rw [hr] at hk; simp [absRes, Res.isOk] at hk
  | ok o =>
    cases o with
    | none => rw [hr] at hk; simp [absRes, Res.isOk] at hk
    | some via => exact ⟨out, via, h, hr⟩



/-! ## server mode WITH identity header (registered users) -/

/-- the common hypotheses of the identity-header first-call theorems: an AES 2022 cipher and a non-empty user table `m` -/
structure FirstCallEih (E : MEnv) (k : Ss.Kind) (N : Usize) (codec : AEADCipherCodec MT) (context : Context MT)
    (session : Session) (src : List UInt8) (m : List ServerUser) : Prop where
  hk : toKind context.kind = some k
  h22 : k.is2022 = true
  hN : N.toNat = k.n
  hsalt : session.identity.salt.length = N.toNat
  hm : session.mode = .Server
  hse : k.supportEih = true
  hum : context.user_manager = some m
  hm0 : 0 < m.length
  hm64 : m.length < 2 ^ 64
  hself : codec.decoder = none
  hb : src.length < 2 ^ 64
  hnow : E.now < 2 ^ 64
  hopen : ∀ a key n ad c p, E.C.openB a key n ad c = some p → c.length = p.length + 16

/-- the multi-user server of `Demo22` (identity key `2,2,..`, users "other" and "u") as the generated `Context` -/
def demoUsers : List ServerUser :=
  [⟨⟨[111]⟩, List.replicate 16 4, (Crypto.toy.blake3Hash (List.replicate 16 4)).take 16⟩,
   ⟨⟨[117]⟩, List.replicate 16 3, (Crypto.toy.blake3Hash (List.replicate 16 3)).take 16⟩]
def demoCtxEih : Context MT := ⟨List.replicate 16 2, [], .Aead2022Blake3Aes128Gcm, some demoUsers, []⟩
theorem demo_first_eih (src : List UInt8) (h : src.length < 2 ^ 64) :
    FirstCallEih demoE .b3aes128 16 demoSelf demoCtxEih demoSess src demoUsers :=
  ⟨rfl, rfl, rfl, rfl, rfl, rfl, rfl, by decide, by decide, rfl, h, by decide,
    fun a key n ad c p hp => Crypto.toy_lawful.open_len a key n ad c p hp⟩

/-- **C04/C06/C07 (generated code = model, identity header)**: with registered users the first `decode` call requires the
16-byte identity header, decrypts it under the identity subkey, looks the user up by the decrypted hash
(`new_decoder_with_eih` = the model's `init2022Key` / `findUser`), opens the request under THAT user's key and records the
user in the session — exactly as the model's `cipherDecode`; an unknown identity is `Err`. -/
theorem c04_sstcp_eih_decode_is_model (ov : Bool) (E : MEnv) (k : Ss.Kind) (N : Usize) (self : AEADCipherCodec MT)
    (context : Context MT) (session : Session) (src : List UInt8) (m : List ServerUser)
    (H : FirstCallEih E k N self context session src m) :
    ∃ out, AEADCipherCodec.decode ov (XM E) N self context session src = PWGen.Res.ok out ∧
      AgreeCall E k self context session src out :=
  decode_2022_server_eih ov E k N self context session src m H.hk H.h22 H.hN H.hsalt H.hm H.hse H.hum H.hm0 H.hm64 H.hself
    H.hb H.hnow H.hopen

example : ∃ out, AEADCipherCodec.decode true (XM demoE) 16 demoSelf demoCtxEih demoSess Ss.Demo22.ewire = PWGen.Res.ok out ∧
    AgreeCall demoE .b3aes128 demoSelf demoCtxEih demoSess Ss.Demo22.ewire out :=
  c04_sstcp_eih_decode_is_model true demoE .b3aes128 16 demoSelf demoCtxEih demoSess _ demoUsers (demo_first_eih _ (by decide +kernel))

/-- **C06 (users stay separated, generated code)**: whenever such a call hands out bytes, the session's user afterwards is a
registered user, namely the one the model's `findUser` selects for the decrypted identity header -/
theorem c06_sstcp_eih_user (ov : Bool) (E : MEnv) (k : Ss.Kind) (N : Usize) (self : AEADCipherCodec MT)
    (context : Context MT) (session : Session) (src : List UInt8) (m : List ServerUser)
    (H : FirstCallEih E k N self context session src m)
    (out : AEADCipherCodec MT × Context MT × Session × Cursor × RResult (Option Cursor)) (via : Cursor)
    (h : AEADCipherCodec.decode ov (XM E) N self context session src = PWGen.Res.ok out)
    (hv : out.2.2.2.2 = RResult.ok (some via)) :
    ∃ (u : Ss.User) (hdr : Bytes), Ss.findUser (m.map toUser) (E.C.aesDec ((E.C.blake3Derive Ss.identitySubkeyCtx
        (context.key ++ src.take k.n)).take k.alg.keyLen) (hdr.take 16)) = some u ∧
      out.2.2.1.identity.user.map toUser = some u := by
  obtain ⟨out', h', ha⟩ := c04_sstcp_eih_decode_is_model ov E k N self context session src m H
  rw [h] at h'
  cases h'
  obtain ⟨hview, hsess, _, _⟩ := ha
  have hs := hsess via hv
  rw [hv] at hview
  simp only [absRes] at hview
  have hc := cipherDecode_2022 E.C (toCtx k context) (envOf E context.nonce_cache) (toSess session) src H.h22
  have hmm : (toSess session).mode = .server := by simp [toSess, H.hm, toMode]
  have hR : Ss.requireEih (toCtx k context) (toSess session) = true := by
    simp only [Ss.requireEih, hmm, decide_true, Bool.true_and]
    show (k.supportEih && decide (((context.user_manager.getD []).map toUser).length > 0)) = true
    rw [List.length_map, H.hse, H.hum]; simpa using H.hm0
  by_cases he : src.isEmpty = true
  · rw [hc, if_pos he] at hview; simp at hview
  · rw [if_neg he] at hc
    cases hst : Ss.init2022 E.C (toCtx k context) (envOf E context.nonce_cache) ⟨none, toSess session⟩ src with
    | need => rw [hc, hst] at hview; simp [stepView] at hview
    | fail d n => rw [hc, hst] at hview; simp [stepView] at hview
    | take d n o =>
      obtain ⟨u, hdr, hu, hdu⟩ := init2022_take_user _ _ _ _ _ _ _ _ hR hst
      rw [hc, hst] at hs
      refine ⟨u, hdr, ?_, ?_⟩
      · simpa [toCtx, H.hum] using hu
      · have := congrArg Ss.Sess.user hs
        simp only [stepView] at this
        rw [hdu] at this
        simpa [toSess] using this


/-! ## the encoder (`encode`, `init_payload_encoder`, `handle_payload_header`, `with_identity`) -/

/-- what the encoder theorems assume: a known cipher, a client session has its target address (the source `unwrap`s it),
the item fits a `usize`, the padding the externals deliver is a `u16` long and available -/
structure FirstWrite (E : MEnv) (k : Ss.Kind) (codec : AEADCipherCodec MT) (context : Context MT) (session : Session)
    (item : Bytes) : Prop where
  hk : toKind context.kind = some k
  hself : codec.encoder = none
  haddr : session.mode = .Client → ∃ ad, session.address = some ad
  hitem : item.length < 2 ^ 64
  hpl : E.padLen < 65536
  hpd : E.padLen ≤ E.padding.length

/-- a client session with a target, and an environment whose randomness yields 3 padding bytes -/
def demoEncE : MEnv := ⟨Crypto.toy, 990, 990000, 61000, 102400, false, 3, [5, 6, 7]⟩
def demoEncSess : Session := ⟨.Client, ⟨List.replicate 16 7, none, none⟩, some (.Socket (.V4 ⟨⟨0x0a000001⟩, 443⟩))⟩
theorem demo_first_write (item : Bytes) (h : item.length < 2 ^ 64) : FirstWrite demoEncE .b3aes128 demoSelf demoCtx demoEncSess item :=
  ⟨rfl, rfl, fun _ => ⟨_, rfl⟩, h, by decide, by decide⟩

/-- **C03/C06 (generated encoder = model, first write)**: the first `encode` of a connection, as the Rust says it today, never
panics, terminates (one recursion into itself with the encoder installed) and appends to `dst` exactly the model's `Ss.encode`:
own salt ‖ identity headers (client, AES-2022 ciphers: `with_eih` over the whole key chain) ‖ then for 2022 the two headers of
`new_header` over [client: address ‖ padding length ‖ padding ‖] payload and the rest in chunks, for legacy [address ‖] payload in
chunks; sealed under the session user's key when the session has a user (2022), else the context key. -/
theorem c03_sstcp_encode_first_is_model (ov : Bool) (E : MEnv) (k : Ss.Kind) (N : Usize) (self : AEADCipherCodec MT)
    (context : Context MT) (session : Session) (item dst : Bytes) (H : FirstWrite E k self context session item) :
    AEADCipherCodec.encode ov (XM E) N self context session item dst =
      PWGen.Res.ok ({ self with encoder := ((Ss.encode E.C (toCtx k context) (toSess session) ⟨none⟩ item (encRand E item)).2.auth.map
          (fun a => (⟨UInt64.ofNat k.payloadLimit, a⟩ : ChunkEncoder MT))) }, context,
        dst ++ (Ss.encode E.C (toCtx k context) (toSess session) ⟨none⟩ item (encRand E item)).1, RResult.ok ()) :=
  encode_first_is_model ov E k N self context session item dst H.hk H.hself H.haddr H.hitem H.hpl H.hpd

/-- the generated encoder reproduces the first write of `Demo22` (empty payload would be padded; here `[1,2,3]`) -/
example : ∃ c, AEADCipherCodec.encode true (XM demoEncE) 16 demoSelf demoCtx demoEncSess [1, 2, 3] [] =
    PWGen.Res.ok (c, demoCtx, (Ss.encode Crypto.toy Ss.Demo22.ctx Ss.Demo22.cs {} [1, 2, 3] ⟨[], 990⟩).1, RResult.ok ()) :=
  ⟨_, by rw [c03_sstcp_encode_first_is_model true demoEncE .b3aes128 16 demoSelf demoCtx demoEncSess [1, 2, 3] []
    (demo_first_write _ (by decide))]; rfl⟩

/-- **C03 (padding only for 2022, after the address)**: the plaintext the first write seals -/
theorem c03_sstcp_first_plaintext (E : MEnv) (k : Ss.Kind) (session : Session) (item : Bytes) :
    firstMsg E k session item =
      (match toMode session.mode with
       | .client =>
         (match session.address.map toAddr with | some ad => Socks5Addr.encode ad | none => []) ++
           (if k.is2022 then be16 (encRand E item).padding.length ++ (encRand E item).padding else []) ++ item
       | .server => item) := by
  unfold firstMsg
  cases toMode session.mode <;> cases k.is2022 <;> simp [List.append_assoc] <;> rfl

/-- **C06 (whose key seals)**: `init_payload_encoder` derives the session key from the session user's key on a 2022 cipher
when the session has a user (the response to an identity-header request), and from the context key otherwise -/
theorem c06_sstcp_encoder_key (ov : Bool) (E : MEnv) (k : Ss.Kind) (N : Usize) (context : Context MT) (session : Session)
    (dst : Bytes) (hk : toKind context.kind = some k) :
    ∃ dst', AEADCipherCodec.init_payload_encoder ov (XM E) N context session dst =
      PWGen.Res.ok (context, dst', RResult.ok ⟨UInt64.ofNat k.payloadLimit, Ss.newAuth E.C k
        (match k.is2022, session.identity.user with
         | true, some u => u.key
         | _, _ => context.key) session.identity.salt⟩) :=
  ⟨_, init_payload_encoder_eval ov E k N context session dst hk⟩

/-- **C03 (later writes)**: with the encoder in place `encode` is the model's `Ss.encode`: the item in chunks, nothing else -/
theorem c03_sstcp_encode_later_is_model (ov : Bool) (E : MEnv) (k : Ss.Kind) (N : Usize) (self : AEADCipherCodec MT)
    (context : Context MT) (session : Session) (item dst : Bytes) (e : ChunkEncoder MT) (r : Ss.EncRand)
    (he : self.encoder = some e) (hlim : e.payload_limit.toNat = k.payloadLimit) :
    AEADCipherCodec.encode ov (XM E) N self context session item dst =
      PWGen.Res.ok ({ self with encoder := ((Ss.encode E.C (toCtx k context) (toSess session) ⟨some e.auth⟩ item r).2.auth.map
          (fun a => (⟨e.payload_limit, a⟩ : ChunkEncoder MT))) }, context,
        dst ++ (Ss.encode E.C (toCtx k context) (toSess session) ⟨some e.auth⟩ item r).1, RResult.ok ()) :=
  encode_later_is_model ov E k N self context session item dst e r he hlim

/-- **C03 (whole stream)**: all writes of a connection through the generated `encode` put on the wire exactly the model's
`encodeAll` - so every theorem about `encodeAll` (C03 wire format, C04 round trips with the decoder, C12 nonces) is about the
bytes the code produces -/
theorem c03_sstcp_encode_stream_is_model (ov : Bool) (E : MEnv) (k : Ss.Kind) (N : Usize) (self : AEADCipherCodec MT)
    (context : Context MT) (session : Session) (w : Bytes) (ws : List Bytes) (rs : List Ss.EncRand) (dst : Bytes)
    (H : FirstWrite E k self context session w) (hlen : rs.length = ws.length) :
    ∃ c', genEncodeAll ov E N context session self dst (w :: ws) = some (c', dst ++
      (Ss.encodeAll E.C (toCtx k context) (toSess session) {} ((w, encRand E w) :: ws.zip rs)).1) :=
  genEncodeAll_is_model ov E k N self context session w ws rs dst H.hk H.hself H.haddr H.hitem H.hpl H.hpd hlen

example : ∃ c', genEncodeAll true demoEncE 16 demoCtx demoEncSess demoSelf [] ([1, 2, 3] :: [[4, 5], [], [6]]) = some (c',
    [] ++ (Ss.encodeAll Crypto.toy (toCtx .b3aes128 demoCtx) (toSess demoEncSess) {}
      (([1, 2, 3], encRand demoEncE [1, 2, 3]) :: [[4, 5], [], [6]].zip [{}, {}, {}])).1) :=
  c03_sstcp_encode_stream_is_model true demoEncE .b3aes128 16 demoSelf demoCtx demoEncSess [1, 2, 3] [[4, 5], [], [6]] [{}, {}, {}] []
    (demo_first_write _ (by decide)) rfl


/-! ## every other `decode` call: later calls, the legacy first call; the whole stream after the handshake -/

/-- **C04/C07 (later calls = model, every mode and cipher)**: with a decoder installed one `decode` call is one
`decode_payload` of the chunk layer and agrees with the model's `cipherDecode` (state, buffer, outcome; the session is untouched) -/
theorem c04_sstcp_later_call_is_model (ov : Bool) (E : MEnv) (k : Ss.Kind) (N : Usize) (self : AEADCipherCodec MT)
    (context : Context MT) (session : Session) (src : List UInt8) (g : ChunkDecoder MT) (hg : self.decoder = some g)
    (hne : src ≠ []) (hopen : ∀ a key n ad c p, E.C.openB a key n ad c = some p → c.length = p.length + 16) :
    ∃ out, AEADCipherCodec.decode ov (XM E) N self context session src = PWGen.Res.ok out ∧
      AgreeAny E k self context session src out :=
  decode_later_is_model ov E k N self context session src g hg hne hopen

example : ∃ out, AEADCipherCodec.decode true (XM demoE) 16 ⟨none, some ⟨Ss.Auth.new .aes128gcm [], .Length⟩⟩ demoCtx demoSess [1, 2] =
    PWGen.Res.ok out ∧ AgreeAny demoE .b3aes128 ⟨none, some ⟨Ss.Auth.new .aes128gcm [], .Length⟩⟩ demoCtx demoSess [1, 2] out :=
  c04_sstcp_later_call_is_model true demoE .b3aes128 16 _ demoCtx demoSess [1, 2] _ rfl (by decide)
    (fun a key n ad c p hp => Crypto.toy_lawful.open_len a key n ad c p hp)

/-- **C04/C07 (legacy first call = model, either mode)**: empty buffer or salt not yet complete → `Ok(None)`, nothing changes;
else the salt is split off, the decoder is derived from it and `decode` runs once more on the rest - as the model's salt step
followed by the chunk run; never panics, terminates -/
theorem c04_sstcp_legacy_first_is_model (ov : Bool) (E : MEnv) (k : Ss.Kind) (N : Usize) (self : AEADCipherCodec MT)
    (context : Context MT) (session : Session) (src : List UInt8)
    (hk : toKind context.kind = some k) (hleg : k.is2022 = false) (hN : N.toNat = k.n)
    (hsalt : session.identity.salt.length = N.toNat) (hself : self.decoder = none) (hb : src.length < 2 ^ 64)
    (hC : E.C.Lawful) :
    ∃ out, AEADCipherCodec.decode ov (XM E) N self context session src = PWGen.Res.ok out ∧
      AgreeAny E k self context session src out :=
  decode_legacy_first ov E k N self context session src hk hleg hN hsalt hself hb hC

def demoCtxLegacy : Context MT := ⟨List.replicate 16 1, [], .Aes128Gcm, none, []⟩
example : ∃ out, AEADCipherCodec.decode true (XM demoE) 16 demoSelf demoCtxLegacy demoSess (List.replicate 40 9) = PWGen.Res.ok out ∧
    AgreeAny demoE .aes128 demoSelf demoCtxLegacy demoSess (List.replicate 40 9) out :=
  c04_sstcp_legacy_first_is_model true demoE .aes128 16 demoSelf demoCtxLegacy demoSess _ rfl rfl rfl rfl rfl (by decide)
    Crypto.toy_lawful

/-- **C04 (whole stream after the handshake, lock step)**: once the generated codec has its decoder, for every sequence of
reads (any segmentation) the generated `decode` under the `FramedRead` loop model (`genCall` under `frFeed`/`feedAll`) and the
model's `clientCall` produce the same events, keep the same buffer and the same ended flag, and stay related - so the C04
segmentation theorems and the C05 prefix theorems about `clientCall` are about the generated code from there on -/
theorem c04_sstcp_stream_lockstep (ov : Bool) (E : MEnv) (k : Ss.Kind) (N : Usize) (ctx : Ss.Ctx) (env : Ss.DecEnv)
    (hopen : ∀ a key n ad c p, E.C.openB a key n ad c = some p → c.length = p.length + 16)
    (pieces : List Bytes) (F : FrSt GenSt) (G : FrSt Ss.Dec) (hR : RLater F.st G.st) (hb : F.buf = G.buf) (he : F.ended = G.ended) :
    (Ss.feedAll (genCall ov E N) F pieces).2 = (Ss.feedAll (Ss.clientCall E.C ctx env) G pieces).2 ∧
      (Ss.feedAll (genCall ov E N) F pieces).1.buf = (Ss.feedAll (Ss.clientCall E.C ctx env) G pieces).1.buf ∧
      (Ss.feedAll (genCall ov E N) F pieces).1.ended = (Ss.feedAll (Ss.clientCall E.C ctx env) G pieces).1.ended ∧
      RLater (Ss.feedAll (genCall ov E N) F pieces).1.st (Ss.feedAll (Ss.clientCall E.C ctx env) G pieces).1.st :=
  feedAll_later_lockstep ov E k N ctx env hopen pieces F G hR hb he

example : RLater (⟨none, some ⟨Ss.Auth.new .aes128gcm [], .Length⟩⟩, demoCtx, demoSess)
    ⟨some (toCD ⟨Ss.Auth.new .aes128gcm [], .Length⟩), toSess demoSess⟩ := ⟨_, rfl, rfl⟩

end Octo.SsTcpGen
