import Octo.Props.C08LoopsGen
/-!
# C09 for the loops as they are in the source: what the accept / relay loop does for the next flow does not depend on what
the flows before it did

For an isolated loop the outcome of an iteration is the same for every path and every behaviour of the flows
(`Octo.Loops.iteration_independent_of_isolated`); everything flow-dependent happens in the flow's own spawned task.
-/
namespace Octo.LoopsGen
open Octo.Loops

/-- the accept loops: the iteration that accepts one connection ends the same way whatever that connection does -/
theorem c09_generated_startup_tcp_1_independent (p₁ p₂ : Nat → Bool) (o₁ o₂ : Nat → Choice) :
    iteration startup_tcp_1 p₁ o₁ = iteration startup_tcp_1 p₂ o₂ :=
  iteration_independent_of_isolated _ c08_generated_startup_tcp_1_isolated p₁ p₂ o₁ o₂
theorem c09_generated_startup_tcp_2_independent (p₁ p₂ : Nat → Bool) (o₁ o₂ : Nat → Choice) :
    iteration startup_tcp_2 p₁ o₁ = iteration startup_tcp_2 p₂ o₂ :=
  iteration_independent_of_isolated _ c08_generated_startup_tcp_2_isolated p₁ p₂ o₁ o₂
theorem c09_generated_startup_quic_independent (p₁ p₂ : Nat → Bool) (o₁ o₂ : Nat → Choice) :
    iteration startup_quic p₁ o₁ = iteration startup_quic p₂ o₂ :=
  iteration_independent_of_isolated _ c08_generated_startup_quic_isolated p₁ p₂ o₁ o₂
theorem c09_generated_transfer_tcp_independent (p₁ p₂ : Nat → Bool) (o₁ o₂ : Nat → Choice) :
    iteration transfer_tcp p₁ o₁ = iteration transfer_tcp p₂ o₂ :=
  iteration_independent_of_isolated _ c08_generated_transfer_tcp_isolated p₁ p₂ o₁ o₂

theorem c09_generated_transfer_udp_independent (p₁ p₂ : Nat → Bool) (o₁ o₂ : Nat → Choice) :
    iteration transfer_udp p₁ o₁ = iteration transfer_udp p₂ o₂ :=
  iteration_independent_of_isolated _ c08_generated_transfer_udp_isolated p₁ p₂ o₁ o₂

/-- in the accept loops every operation on the accepted connection (an await that mentions it) is in the connection's own
    task; the loop itself only accepts, builds the codec from the configuration and spawns -/
theorem c09_generated_accept_loops_flow_work_in_task :
    [startup_tcp_1, startup_tcp_2, startup_quic, transfer_tcp].all
      (fun l => (l.sites.filter (fun s => s.kind == .await_ && !s.service)).all (·.inSpawn)
        && (l.level.filter (fun s => s.kind == .spawn)).length ≥ 1) = true := by decide

end Octo.LoopsGen
