import Octo.Proofs.SsPayloadGen
import Octo.Props.C04SsTcpGen
/-!
  C04 / C07 for the code GENERATED from the module `tcp` of `octo-squirrel-server/src/server/shadowsocks.rs` by
  `bin/translate_sspayload.py` (`Octo/Gen/SsPayloadGen.lean`): the server's `PayloadCodec` — `Decoder::decode` with its
  `State::{Header, Body}` machine that collects the target address, `Encoder::encode` — against the hand model
  `Ss.serverCall` / `Ss.SrvDec` (`Octo/Model/Ss.lean`), about which `Octo/Props/C04SsCall.lean` states the segmentation theorems.

  The generated wrapper CALLS the generated inner codec `Octo.SsTcpGen.AEADCipherCodec.{decode, encode}`.  The one-call
  equality with `serverCall` is therefore stated relative to the inner call (`InnerAgrees`: the inner call returned and agrees
  with the model's `cipherDecode`), which is PROVED for Shadowsocks 2022 / server / pre-shared key / first call
  (`Octo/Proofs/SsTcpGen.lean`) and is an ASSUMPTION about the inner codec elsewhere (legacy ciphers, later calls): there the
  model function `cipherDecode` stands in for it, as a hypothesis of the theorem, never silently.
-/
namespace Octo.SsPayloadGen
open Octo Octo.PWGen Octo.AddrGen Octo.SsTcpGen

/-! demo instance (toy crypto; `demoE`, `demoCtx`, `demoSess`, `demoSelf` of `Octo/Props/C04SsTcpGen.lean`) -/
def demoP : PayloadCodec MT := ⟨demoCtx, demoSess, demoSelf, .Header, []⟩

/-- externals whose chunk layer hands out the one byte `9` (everything else: the model instantiation) -/
def demoX : Ext MT := { XM demoE with ChunkDecoder_decode_payload := fun d src dst => .ok (d, [], dst ++ [9], .ok ()) }
/-- a codec after the salt: a chunk decoder exists, `State::Header`, one address byte (`3` = domain name) kept in `pending` -/
def demoQ : PayloadCodec MT := ⟨demoCtx, demoSess, ⟨none, some ⟨Ss.Auth.new .aes128gcm [], .Length⟩⟩, .Header, [3]⟩
theorem demoQ_inner : AEADCipherCodec.decode true demoX 16 demoQ.cipher demoQ.context demoQ.session [1] =
    PWGen.Res.ok (demoQ.cipher, demoCtx, demoSess, [], RResult.ok (some [9])) :=
  c07_sstcp_later_call true demoX 16 _ demoCtx demoSess [1] ⟨Ss.Auth.new .aes128gcm [], .Length⟩ ⟨Ss.Auth.new .aes128gcm [], .Length⟩
    [] [9] (.ok ()) rfl (by decide) rfl

/-- **C04 (one `decode` call = `serverCall`, generated code)**: if the inner `AEADCipherCodec::decode` call returned and
agrees with the model's `cipherDecode` (decoder state, remaining buffer, plaintext / `Ok(None)` / `Err`, session on
plaintext), then the generated `PayloadCodec::decode` returns — it has no panic of its own, in either overflow profile — and
agrees with the model's `serverCall`: same item (`ConnectTcp(rest, addr)` / `RelayTcp` / `Ok(None)` / `Err`), same remaining
buffer, same chunk decoder, same `State`, same `pending`, and on an item the same session.  Side condition: the accumulated
plaintext `pending ++ dst` fits a `usize`. -/
theorem c04_sspayload_decode_is_serverCall (ov : Bool) (C : Crypto) (ctx : Ss.Ctx) (env : Ss.DecEnv) (X : Ext MT) (N : Usize)
    (p : PayloadCodec MT) (src : Bytes)
    (out : AEADCipherCodec MT × Context MT × Session × Cursor × RResult (Option Cursor))
    (hin : AEADCipherCodec.decode ov X N p.cipher p.context p.session src = PWGen.Res.ok out)
    (ha : InnerAgrees C ctx env p src out)
    (hl : ∀ via, out.2.2.2.2 = .ok (some via) → (p.pending ++ via).length < 2 ^ 64) :
    ∃ o, PayloadCodec.decode ov X N p src = PWGen.Res.ok o ∧ AgreeSrv C ctx env p src o :=
  decode_agrees ov C ctx env X N p src out hin ha hl

/-- **C04 (Shadowsocks 2022, server, pre-shared key: the first `decode` call = `serverCall`)** with the inner agreement
PROVED (`c04_sstcp_decode_is_model`), externals instantiated by the model's functions: generated wrapper + generated inner
codec together equal the hand model, never panic.  `hvia`: the plaintext handed out is not longer than what was read. -/
theorem c04_sspayload_2022_first_call (ov : Bool) (E : MEnv) (k : Ss.Kind) (N : Usize) (p : PayloadCodec MT) (src : List UInt8)
    (H : FirstCall E k N p.cipher p.context p.session src)
    (hl : ∀ via : Bytes, via.length ≤ src.length → (p.pending ++ via).length < 2 ^ 64)
    (hvia : ∀ out via, AEADCipherCodec.decode ov (XM E) N p.cipher p.context p.session src = PWGen.Res.ok out →
      out.2.2.2.2 = .ok (some via) → via.length ≤ src.length) :
    ∃ o, PayloadCodec.decode ov (XM E) N p src = PWGen.Res.ok o ∧
      AgreeSrv E.C (toCtx k p.context) (envOf E p.context.nonce_cache) p src o :=
  decode_2022_first ov E k N p src H.hk H.h22 H.hN H.hsalt H.hm H.hreq H.hself H.hb H.hnow H.hopen hl hvia

example : ∃ o, PayloadCodec.decode true (XM demoE) 16 demoP (List.replicate 20 7) = PWGen.Res.ok o ∧
    AgreeSrv demoE.C (toCtx .b3aes128 demoP.context) (envOf demoE demoP.context.nonce_cache) demoP (List.replicate 20 7) o := by
  refine c04_sspayload_2022_first_call true demoE .b3aes128 16 demoP _ (demo_first _ (by decide))
    (fun via hv => by simp [demoP] at hv ⊢; omega) ?_
  intro out via h hv
  obtain ⟨out', h', he, _, _⟩ := c04_sstcp_first_read_exemption true demoE .b3aes128 16 demoSelf demoCtx demoSess
    (List.replicate 20 7) (demo_first _ (by decide)) (by decide) (by decide) (by decide)
  have : out = out' := by
    have := h.symm.trans h'
    cases this; rfl
  subst this
  rw [hv] at he; cases he

/-- **C07 (generated code)**: the wrapper panics only if the inner call panics (with `c04_sspayload_decode_is_serverCall`:
exactly then), any externals, both overflow profiles -/
theorem c07_sspayload_decode_panics_only_with_inner (ov : Bool) {T : ExtTypes} (X : Ext T) (N : Usize) (p : PayloadCodec T)
    (src : Bytes) (h : AEADCipherCodec.decode ov X N p.cipher p.context p.session src = PWGen.Res.panic) :
    PayloadCodec.decode ov X N p src = PWGen.Res.panic :=
  decode_inner_panic ov X N p src h

/-- **C04 (Shadowsocks 2022: `ConnectTcp` as soon as the header is complete — also with an EMPTY first payload)**: in
`State::Header`, when the inner call returns `Ok(Some(dst))` and the session knows the address (it came out of the header),
the generated code hands out `ConnectTcp(dst, addr)` at once for EVERY `dst` — `[]` included —, enters `State::Body` and does
not touch `pending`.  Any externals. -/
theorem c04_sspayload_connect_on_header_even_empty (ov : Bool) {T : ExtTypes} (X : Ext T) (N : Usize) (p : PayloadCodec T)
    (src : Bytes) (c' : AEADCipherCodec T) (ctx' : Context T) (s' : Session) (src' via : Cursor) (a : Address)
    (hs : p.state = .Header)
    (h : AEADCipherCodec.decode ov X N p.cipher p.context p.session src = PWGen.Res.ok (c', ctx', s', src', RResult.ok (some via)))
    (ha : s'.address = some a) :
    PayloadCodec.decode ov X N p src =
      PWGen.Res.ok ({ p with cipher := c', context := ctx', session := s', state := .Body }, src',
        RResult.ok (some (InboundIn.ConnectTcp via a))) :=
  decode_header_known ov X N p src c' ctx' s' src' via a hs h ha

example : PayloadCodec.decode true demoX 16 { demoQ with session := { demoSess with address := some (.Domain ⟨[97]⟩ 80) } } [1] =
    PWGen.Res.ok ({ demoQ with session := { demoSess with address := some (.Domain ⟨[97]⟩ 80) }, state := .Body }, [],
      RResult.ok (some (InboundIn.ConnectTcp [9] (.Domain ⟨[97]⟩ 80)))) :=
  c04_sspayload_connect_on_header_even_empty true demoX 16 _ [1] _ _ _ [] [9] _ rfl
    (c07_sstcp_later_call true demoX 16 _ demoCtx _ [1] ⟨Ss.Auth.new .aes128gcm [], .Length⟩ ⟨Ss.Auth.new .aes128gcm [], .Length⟩
      [] [9] (.ok ()) rfl (by decide) rfl) rfl

/-- **C04 (legacy ciphers: the address spread over chunks and reads)**: in `State::Header` without an address the plaintext of
this call is APPENDED to `pending` (never overwrites it) and everything that follows — the two-byte guard, `try_decode_at`,
`decode`, the rest handed out with `ConnectTcp` — is computed from the ACCUMULATED buffer `pending ++ dst` (`legacyStep`),
not from the latest piece.  Any externals. -/
theorem c04_sspayload_address_accumulates (ov : Bool) {T : ExtTypes} (X : Ext T) (N : Usize) (p : PayloadCodec T) (src : Bytes)
    (c' : AEADCipherCodec T) (ctx' : Context T) (s' : Session) (src' via : Cursor) (hs : p.state = .Header)
    (h : AEADCipherCodec.decode ov X N p.cipher p.context p.session src = PWGen.Res.ok (c', ctx', s', src', RResult.ok (some via)))
    (ha : s'.address = none) (hl : (p.pending ++ via).length < 2 ^ 64) :
    PayloadCodec.decode ov X N p src =
      legacyStep ov { p with cipher := c', context := ctx', session := s' } src' (p.pending ++ via) :=
  decode_header_legacy ov X N p src c' ctx' s' src' via hs h ha hl

example : PayloadCodec.decode true demoX 16 demoQ [1] =
    legacyStep true { demoQ with cipher := demoQ.cipher, context := demoCtx, session := demoSess } [] ([3] ++ [9]) :=
  c04_sspayload_address_accumulates true demoX 16 demoQ [1] _ _ _ [] [9] rfl demoQ_inner rfl (by decide)

/-- **C04 (the legacy step = the model's, no panic)**: on every accumulated buffer the generated step returns and agrees
with the tail of `serverCall` (`modelLegacy`): item, buffer, chunk decoder, `State`, `pending`, session. -/
theorem c04_sspayload_legacy_step_is_model (ov : Bool) (q : PayloadCodec MT) (s : Ss.SrvDec) (d' : Ss.Dec) (src' pend : Bytes)
    (hl : pend.length < 2 ^ 64) (hc : q.cipher.decoder.map toCD = d'.chunk) (hs : toSess q.session = d'.sess)
    (hst : q.state = .Header) (hh : s.header = true) :
    ∃ o, legacyStep ov q src' pend = PWGen.Res.ok o ∧
      embedRes o.2.2 = (modelLegacy s d' src' pend).res ∧ o.2.1 = (modelLegacy s d' src' pend).buf ∧
      o.1.cipher.decoder.map toCD = (modelLegacy s d' src' pend).st.dec.chunk ∧
      isHeader o.1.state = (modelLegacy s d' src' pend).st.header ∧
      o.1.pending = (modelLegacy s d' src' pend).st.pending ∧
      toSess o.1.session = (modelLegacy s d' src' pend).st.dec.sess :=
  legacyStep_agrees ov q s d' src' pend hl hc hs hst hh

example : ∃ o, legacyStep true demoQ [] [3, 9] = PWGen.Res.ok o ∧
    embedRes o.2.2 = (modelLegacy (toSrv demoQ) (toSrv demoQ).dec [] [3, 9]).res := by
  obtain ⟨o, h, h2, _⟩ := c04_sspayload_legacy_step_is_model true demoQ (toSrv demoQ) (toSrv demoQ).dec [] [3, 9] (by decide) rfl rfl rfl rfl
  exact ⟨o, h, h2⟩

/-- **C04 (never stalls with a complete address buffered)**: once the accumulated plaintext holds a complete address, the
step hands out `ConnectTcp` carrying exactly what follows the address, empties `pending`, enters `State::Body` — however the
bytes were cut into chunks and reads. -/
theorem c04_sspayload_never_stalls (ov : Bool) (q : PayloadCodec MT) (src' pend : Bytes) (need : Nat)
    (hl : pend.length < 2 ^ 64) (h2 : 2 ≤ pend.length) (hst : q.state = .Header)
    (ht : Socks5Addr.tryDecodeAt pend 0 = .ok need) (hn : need ≤ pend.length) :
    ∃ o a, legacyStep ov q src' pend = PWGen.Res.ok o ∧
      embedRes o.2.2 = .ok ⟨.connect, pend.drop need, some a⟩ ∧ o.1.pending = [] ∧ o.1.state = .Body ∧ o.2.1 = src' :=
  legacy_never_stalls ov q src' pend need hl h2 hst ht hn

example : ∃ o a, legacyStep true demoQ [] [1, 10, 0, 0, 1, 0, 80, 42] = PWGen.Res.ok o ∧
    embedRes o.2.2 = .ok ⟨.connect, [42], some a⟩ ∧ o.1.pending = [] ∧ o.1.state = .Body ∧ o.2.1 = [] :=
  c04_sspayload_never_stalls true demoQ [] [1, 10, 0, 0, 1, 0, 80, 42] 7 (by decide) (by decide) rfl (by decide) (by decide)

/-- **C04/C07 (inner `Ok(None)` / `Err`)**: nothing is handed out, `State` and `pending` stay, the wrapper adds no consumption
of its own (the buffer is the one the inner call left).  Any externals. -/
theorem c04_sspayload_inner_none (ov : Bool) {T : ExtTypes} (X : Ext T) (N : Usize) (p : PayloadCodec T) (src : Bytes)
    (c' : AEADCipherCodec T) (ctx' : Context T) (s' : Session) (src' : Cursor)
    (h : AEADCipherCodec.decode ov X N p.cipher p.context p.session src = PWGen.Res.ok (c', ctx', s', src', RResult.ok none)) :
    PayloadCodec.decode ov X N p src =
      PWGen.Res.ok ({ p with cipher := c', context := ctx', session := s' }, src', RResult.ok none) :=
  decode_inner_none ov X N p src c' ctx' s' src' h

example : PayloadCodec.decode true (XM demoE) 16 demoP [] = PWGen.Res.ok (demoP, [], RResult.ok none) :=
  c04_sspayload_inner_none true (XM demoE) 16 demoP [] _ _ _ [] (decode_empty true (XM demoE) 16 demoSelf demoCtx demoSess)

/-- `State::Body`: every plaintext the inner call hands out is a `RelayTcp` item.  Any externals. -/
theorem c04_sspayload_body_relays (ov : Bool) {T : ExtTypes} (X : Ext T) (N : Usize) (p : PayloadCodec T) (src : Bytes)
    (c' : AEADCipherCodec T) (ctx' : Context T) (s' : Session) (src' via : Cursor) (hs : p.state = .Body)
    (h : AEADCipherCodec.decode ov X N p.cipher p.context p.session src = PWGen.Res.ok (c', ctx', s', src', RResult.ok (some via))) :
    PayloadCodec.decode ov X N p src =
      PWGen.Res.ok ({ p with cipher := c', context := ctx', session := s' }, src', RResult.ok (some (InboundIn.RelayTcp via))) :=
  decode_body_some ov X N p src c' ctx' s' src' via hs h

example : PayloadCodec.decode true demoX 16 { demoQ with state := .Body } [1] =
    PWGen.Res.ok ({ demoQ with state := .Body }, [], RResult.ok (some (InboundIn.RelayTcp [9]))) :=
  c04_sspayload_body_relays true demoX 16 _ [1] _ _ _ [] [9] rfl demoQ_inner

/-- **`encode`**: the inner `AEADCipherCodec::encode` of the item's bytes under the codec's own context and session; the
wrapper adds nothing, drops nothing, and panics / fails exactly when the inner call does.  Any externals. -/
theorem c04_sspayload_encode (ov : Bool) {T : ExtTypes} (X : Ext T) (N : Usize) (p : PayloadCodec T) (item : OutboundIn)
    (dst : Cursor) :
    PayloadCodec.encode ov X N p item dst =
      match AEADCipherCodec.encode ov X N p.cipher p.context p.session
          (match item with | .Tcp b => b | .Udp x => x.1) dst with
      | .panic => .panic
      | .ok (c', ctx', dst', r) => .ok ({ p with cipher := c', context := ctx' }, dst', r) :=
  encode_eq ov X N p item dst

end Octo.SsPayloadGen
