import Octo.Proofs.PacketWindowGen
/-!
# C11 for the code itself: `packet_window.rs` translated statement by statement on every run
(`bin/translate_pw.py` → `Octo/Gen/PacketWindowGen.lean`, exact `u64` semantics incl. overflow and index panics)
refines the hand model and hence the set specification.  Property theorems only.
-/
namespace Octo.PWGen
open Octo

/-! ## C11 — final corollary for the generated code -/

/-- **C11 for the code as translated from the Rust source**: for every history of packet ids (all
below `2^64`, any order, any length) and every limit below `2^64`, in both build profiles, the
generated `PacketWindowFilter` never panics and answers exactly like the hand model `PW.runImpl`,
hence (by `c11_refines`) exactly like the set specification of the replay window. -/
theorem c11_generated_code_refines (ov : Bool) (limit : Nat) (ids : List Nat)
    (hlimit : limit < 2 ^ 64) (hids : ∀ x ∈ ids, x < 2 ^ 64) :
    runGenNew ov (UInt64.ofNat limit) (ids.map UInt64.ofNat) = Res.ok (PW.runImpl limit PW.Filter.new ids) ∧
    PW.runImpl limit PW.Filter.new ids = PW.runSpec limit [] ids := by
  refine ⟨?_, PW.c11_refines limit ids⟩
  rw [runGenNew_refines, UInt64.toNat_ofNat_of_lt' hlimit, map_toNat_ofNat ids hids]

/-- the `u64` form: no side conditions at all -/
theorem c11_generated_code_refines_u64 (ov : Bool) (limit : UInt64) (ids : List UInt64) :
    runGenNew ov limit ids = Res.ok (PW.runSpec limit.toNat [] (ids.map UInt64.toNat)) := by
  rw [runGenNew_refines, PW.c11_refines]

/-- non-vacuity: the generated code evaluated on a prefix of the WireGuard test vector, with
overflow checks on; the hypotheses of `c11_generated_code_refines` hold for this history -/
example : runGenNew true (UInt64.ofNat (2 ^ 64 - 1 - 2 ^ 13))
      ([0, 1, 1, 9, 8, 7, 7, 8129, 8128, 8128, 8127, 2, 2, 8145, 3].map UInt64.ofNat)
    = Res.ok [true, true, false, true, true, true, false, true, true, false, true, true, false, true, false] := by
  decide +kernel

example : (2 ^ 64 - 1 - 2 ^ 13 : Nat) < 2 ^ 64 ∧
    ∀ x ∈ [0, 1, 1, 9, 8, 7, 7, 8129, 8128, 8128, 8127, 2, 2, 8145, 3], x < 2 ^ 64 := by decide

end Octo.PWGen
