import Octo.Props.C03
import Octo.Props.C12
import Octo.Proofs.Toy
import Octo.Model.SsUdp
/-!
# Non-vacuity of C03 / C12
-/
namespace Octo.NonVacuity.C03C12
open Octo Octo.Ss

/-! ## C03 -/

/-- an authenticator that has done 5 operations -/
def auth5 : Auth := ⟨.aes128gcm, List.replicate 16 1, Nat.repeat Nonce.incStep 5 Nonce.incInit⟩
theorem auth5_at : auth5.At 5 := rfl

example : (auth5.sealB Crypto.toy [1, 2]).1 = Crypto.toy.sealB .aes128gcm (List.replicate 16 1) (Spec.leNonce 5) [] [1, 2] ∧
    (auth5.sealB Crypto.toy [1, 2]).2.At 6 ∧ (auth5.sealB Crypto.toy [1, 2]).2.alg = auth5.alg ∧
    (auth5.sealB Crypto.toy [1, 2]).2.key = auth5.key :=
  c03_ss_nonce_sequence Crypto.toy auth5 5 auth5_at [1, 2]

example : (Ss.encChunks Crypto.toy auth5 [[1, 2], [], [3]]).1 = Spec.chunkStream Crypto.toy auth5.alg auth5.key 5 [[1, 2], [], [3]] ∧
    (Ss.encChunks Crypto.toy auth5 [[1, 2], [], [3]]).2.At (5 + 2 * [[1, 2], [], [(3 : UInt8)]].length) ∧
    (Ss.encChunks Crypto.toy auth5 [[1, 2], [], [3]]).2.alg = auth5.alg ∧ (Ss.encChunks Crypto.toy auth5 [[1, 2], [], [3]]).2.key = auth5.key :=
  c03_ss_chunks_eq_spec Crypto.toy [[1, 2], [], [3]] auth5 5 auth5_at

-- c03_ss_chunk_limit: no hypotheses

def ctx22 : Ctx := ⟨.b3aes256, List.replicate 32 1, [List.replicate 32 2], []⟩
def ad : Addr := .domain [119, 51, 46, 111, 114, 103] 443
def cs : Sess := ⟨.client, List.replicate 32 7, none, none, some ad⟩

example := c03_ss2022_request Crypto.toy ctx22 rfl cs rfl rfl ad rfl rfl [1, 2, 3] ⟨[5, 6, 7], 990⟩

example : Ss.opensslBytesToKey Crypto.toy 32 [112, 119] = Spec.evpBytesToKey Crypto.toy 32 [112, 119] :=
  c03_ss_evp_key Crypto.toy Crypto.toy_lawful 32 (Or.inr rfl) [112, 119]

-- c03_vmess_kdf, c03_vmess_instruction, c03_trojan_request, c03_target_bytes: no hypotheses
example := c03_vmess_auth_id Crypto.toy Crypto.toy_lawful [1, 2, 3] 1700000000 [9, 8, 7, 6]
example := c03_vmess_sealed_header Crypto.toy Crypto.toy_lawful [1, 2, 3] [10, 11, 12] (List.replicate 16 4) (List.replicate 8 5)

def vmSession : Vmess.Session := ⟨List.replicate 16 1, List.replicate 16 2, 0x5a⟩
def vmReady : Vmess.ServerReady :=
  { cmd := .tcp, mask := 29, sec := .aes128gcm, addr := ad, session := vmSession,
    dec := Vmess.Body.new Crypto.toy 29 .aes128gcm vmSession.reqKey vmSession.reqIv vmSession }
def vmServer : Vmess.Server := { keys := [[1, 2, 3]], ready := some vmReady }

example : ∃ body, (Vmess.Server.encode Crypto.toy vmServer [1, 2, 3] [List.replicate 63 0]).1 =
    .ok (Spec.vmessResponseHeader Crypto.toy (vmSession.respKey Crypto.toy) (vmSession.respIv Crypto.toy) [0x5a, u8 29, 0, 0] ++ body) :=
  c03_vmess_response_header Crypto.toy Crypto.toy_lawful vmServer vmReady rfl rfl rfl [1, 2, 3] [List.replicate 63 0]

example : Trojan.packet ad [1, 2, 3] = Spec.trojanUdpFrame (Socks5Addr.encode ad) [1, 2, 3] :=
  c03_trojan_udp_frame ad [1, 2, 3] (by decide)

/-! ## C12 -/

example : Spec.leNonce 255 ≠ Spec.leNonce 256 := c12_ss_stream_nonces_distinct 255 256 (by decide) (by decide) (by decide)
example := c12_ss_generator_states_distinct 3 (2 ^ 95) (by decide) (by decide) (by decide)
example : Nonce.counting (List.replicate 16 7) 255 12 ≠ Nonce.counting (List.replicate 16 7) 256 12 :=
  c12_vmess_counting_distinct (List.replicate 16 7) (by decide) 255 256 (by decide) (by decide) (by decide)
-- c12_vmess_one_count_per_chunk, c12_udp_no_wrap: no hypotheses
example : 41 < 42 ∧ 42 < 2 ^ 64 := c12_udp_ids_strictly_increase 41 42 rfl
example := c12_udp_aes_nonce_distinct 77 (2 ^ 32) (2 ^ 32 + 1) (by decide) (by decide) (by decide)


/-- `c12_udp_ids_strictly_increase` / `c12_udp_no_wrap` speak about `nextPacketId`, a function defined in
`C12.lean` itself.  The same facts about the *model* of the client's datagram codec
(`SsUdp.ClientCodec.encode`), which is what the differential harness ties to the Rust: -/
theorem udp_client_ids_model (C : Crypto) (ctx : Ss.Ctx) (cc : SsUdp.ClientCodec) (addr : Addr) (item : Bytes) (r : SsUdp.Rand) :
    (cc.session.packetId + 1 < 2 ^ 64 →
      (SsUdp.ClientCodec.encode C ctx cc addr item r).2.session.packetId = cc.session.packetId + 1 ∧
      (SsUdp.ClientCodec.encode C ctx cc addr item r).1 =
        .ok (SsUdp.encode C ctx .client { cc.session with packetId := cc.session.packetId + 1 } addr item r)) ∧
    (2 ^ 64 ≤ cc.session.packetId + 1 → SsUdp.ClientCodec.encode C ctx cc addr item r = (.err, cc)) := by
  unfold SsUdp.ClientCodec.encode
  constructor
  · intro h; rw [if_neg (by omega)]; exact ⟨rfl, rfl⟩
  · intro h; rw [if_pos (by omega)]

end Octo.NonVacuity.C03C12
