import Octo.Proofs.TrojanClientGen
/-!
# C02 / C03 / C04 / C07 for the code itself: the Trojan client codecs `octo-squirrel-client/src/client/trojan.rs`,
translated statement by statement on every run (`translate_trojanclient.py` → `Octo/Gen/TrojanClientGen.lean`: `enum CodecState`,
and from each of `mod tcp`, `mod udp`: `struct ClientCodec` (→ `TcpClientCodec`, `UdpClientCodec`), `Encoder::encode`,
`Decoder::decode`; cursor reads and slice indexing panic as in `bytes`, exact `usize` arithmetic in both overflow profiles,
`?` / early `return`, `item.0.len() as u16` truncates, the callees `address::{try_decode_at, decode, encode}` are the generated
functions of `Octo/Gen/AddrGen.lean`, `DatagramPacket` is read from codec.rs).  Property theorems only; the equivalences with the
hand model `Octo.Trojan.clientEncode*` / `clientDecode*` are in `Octo/Proofs/TrojanClientGen.lean`.

`ov` is the overflow profile (`true`: overflow checks on; `false`: release).  `hlen : b.length < 2 ^ 64` is the one fact about a
`BytesMut` that a Lean list does not carry.  `ClientCodec::new` (SHA-224 + hex) is not translated: `key` and `command` are
fields; the theorems that compare with the model / the specification carry what `new_codec` / `new_*_outbound` establish as
hypotheses (`hkey : s.key = keyHex C pw`, `hcmd : s.command = 1` resp. `3`), everything else holds for every codec value.
-/
namespace Octo.TrojanClientGen
open Octo Octo.PWGen Octo.AddrGen Octo.Trojan

/-! ## (1) `encode` -/

/-- **`tcp::ClientCodec::encode`, every codec value**: never panics, never `Err`, no side condition; the header
`key CRLF command address CRLF` is written iff `status` is `Header`, then the item; `status` becomes `Body` -/
theorem c07_generated_trojan_client_tcp_encode (ov : Bool) (s : TcpClientCodec) (item dst : Bytes) :
    TcpClientCodec.encode ov s item dst
      = PWGen.Res.ok ({ s with status := .Body }, dst ++ (hdrIf s.status s.key s.command s.address ++ item), RResult.ok ()) :=
  tcp_encode_eval ov s item dst

/-- **`udp::ClientCodec::encode`, every codec value, every payload length**: never panics, never `Err`; header iff `Header`,
then the frame `address ‖ len mod 65536 ‖ CRLF ‖ payload` (= `Trojan.packet`) -/
theorem c07_generated_trojan_client_udp_encode (ov : Bool) (s : UdpClientCodec) (p : Bytes) (to : Address) (dst : Bytes) :
    UdpClientCodec.encode ov s (p, to) dst
      = PWGen.Res.ok ({ s with status := .Body },
          dst ++ (hdrIf s.status s.key s.command s.address ++ packet (toAddr to) p), RResult.ok ()) :=
  udp_encode_eval ov s p to dst

/-- **C03, `tcp::ClientCodec::encode` = the model's `clientEncodeTcp`** for the codec `new_codec` builds -/
theorem c03_generated_trojan_client_tcp_encode_eq (ov : Bool) (C : Crypto) (pw : Bytes) (s : TcpClientCodec) (item dst : Bytes)
    (hkey : s.key = keyHex C pw) (hcmd : s.command = 1) :
    TcpClientCodec.encode ov s item dst
      = PWGen.Res.ok ({ s with status := .Body }, dst ++ (clientEncodeTcp C pw (toAddr s.address) (toEnc s.status) item).1, RResult.ok ()) ∧
    (clientEncodeTcp C pw (toAddr s.address) (toEnc s.status) item).2 = toEnc .Body :=
  tcp_encode_eq ov C pw s item dst hkey hcmd

/-- the hypotheses hold for the codec value `ClientCodec::new(password, Connect as u8, addr)` describes -/
example (C : Crypto) (pw : Bytes) (a : Address) :
    (⟨keyHex C pw, 1, a, .Header⟩ : TcpClientCodec).key = keyHex C pw ∧ (⟨keyHex C pw, 1, a, .Header⟩ : TcpClientCodec).command = 1 :=
  ⟨rfl, rfl⟩

/-- **C03, `udp::ClientCodec::encode` = the model's `clientEncodeUdp`** for the codec `new_*_outbound` build -/
theorem c03_generated_trojan_client_udp_encode_eq (ov : Bool) (C : Crypto) (pw : Bytes) (s : UdpClientCodec) (p : Bytes)
    (to : Address) (dst : Bytes) (hkey : s.key = keyHex C pw) (hcmd : s.command = 3) :
    UdpClientCodec.encode ov s (p, to) dst
      = PWGen.Res.ok ({ s with status := .Body },
          dst ++ (clientEncodeUdp C pw (toAddr s.address) (toEnc s.status) p (toAddr to)).1, RResult.ok ()) ∧
    (clientEncodeUdp C pw (toAddr s.address) (toEnc s.status) p (toAddr to)).2 = toEnc .Body :=
  udp_encode_eq ov C pw s p to dst hkey hcmd

example (C : Crypto) (pw : Bytes) (a : Address) :
    (⟨keyHex C pw, 3, a, .Header⟩ : UdpClientCodec).key = keyHex C pw ∧ (⟨keyHex C pw, 3, a, .Header⟩ : UdpClientCodec).command = 3 :=
  ⟨rfl, rfl⟩

/-- **C03, the request on the wire**: the first bytes a fresh generated TCP codec writes are exactly the specification's
`hex(SHA224(password)) CRLF 01 ATYP ADDR PORT CRLF payload` (`c03_trojan_request`, transferred) -/
theorem c03_generated_trojan_client_request (ov : Bool) (C : Crypto) (pw : Bytes) (a : Address) (item : Bytes) :
    TcpClientCodec.encode ov ⟨keyHex C pw, 1, a, .Header⟩ item []
      = PWGen.Res.ok (⟨keyHex C pw, 1, a, .Body⟩, Spec.trojanRequest C pw 1 (Socks5Addr.encode (toAddr a)) item, RResult.ok ()) :=
  tcp_first_is_spec ov C pw a item

/-- **C03, the UDP request on the wire**: request with command 3 whose payload is the specification's frame of the first
datagram (`c03_trojan_udp_frame`), for a payload below 64 KiB -/
theorem c03_generated_trojan_client_udp_request (ov : Bool) (C : Crypto) (pw : Bytes) (a to : Address) (p : Bytes)
    (hp : p.length < 65536) :
    UdpClientCodec.encode ov ⟨keyHex C pw, 3, a, .Header⟩ (p, to) []
      = PWGen.Res.ok (⟨keyHex C pw, 3, a, .Body⟩,
          Spec.trojanRequest C pw 3 (Socks5Addr.encode (toAddr a)) (Spec.trojanUdpFrame (Socks5Addr.encode (toAddr to)) p), RResult.ok ()) :=
  udp_first_is_spec ov C pw a to p hp

example : ([9, 9, 9] : Bytes).length < 65536 := by decide

/-! ## (2) one `decode` call -/

/-- **C04, `tcp::ClientCodec::decode` = `clientDecodeTcp`**: no panic, codec untouched, buffer and outcome are the model's;
`Ok(None)` consumes nothing -/
theorem c04_generated_trojan_client_tcp_decode_eq (ov : Bool) (s : TcpClientCodec) (b : Bytes) (hlen : b.length < 2 ^ 64) :
    ∃ buf r, TcpClientCodec.decode ov s b = PWGen.Res.ok (s, buf, r) ∧ buf.length ≤ b.length ∧
      clientDecodeTcp b = ⟨(), buf, embedTcp r⟩ ∧ (r = RResult.ok none → buf = b) :=
  tcp_decode_spec ov s b hlen

/-- **C04, `udp::ClientCodec::decode` = `clientDecodeUdp`**: no panic, codec untouched; same item — the payload and the frame's
OWN address —, same bytes consumed; when no item comes out (`Ok(None)`, `Err`) nothing at all has been consumed (the
completeness test covers header and payload before the first read that advances) -/
theorem c04_generated_trojan_client_udp_decode_eq (ov : Bool) (s : UdpClientCodec) (b : Bytes) (hlen : b.length < 2 ^ 64) :
    ∃ buf r, UdpClientCodec.decode ov s b = PWGen.Res.ok (s, buf, r) ∧ buf.length ≤ b.length ∧
      clientDecodeUdp b = ⟨(), buf, embedUdp r⟩ ∧ ((∀ d, r ≠ RResult.ok (some d)) → buf = b) :=
  udp_decode_spec ov s b hlen

example : ([1, 8, 8, 8, 8, 0, 53, 0] : Bytes).length < 2 ^ 64 := by decide

/-- **the bound `hlen` is needed**: on a buffer of exactly `2^64` bytes (which no `BytesMut` can hold) `src.len()` wraps to 0 and
the generated TCP `decode` hands out an empty item, the model everything -/
theorem c04_generated_trojan_client_tcp_decode_needs_bound (ov : Bool) (s : TcpClientCodec) (b : Bytes) (hlen : b.length = 2 ^ 64) :
    TcpClientCodec.decode ov s b = PWGen.Res.ok (s, b, RResult.ok (some [])) ∧
    clientDecodeTcp b = ⟨(), [], .ok ⟨.data, b, none⟩⟩ :=
  tcp_decode_needs_bound ov s b hlen

example : (List.replicate (2 ^ 64) (0 : UInt8)).length = 2 ^ 64 := List.length_replicate

/-! ## (3) C07: no panic at any cut of the input -/

/-- **C07, generated `udp::ClientCodec::decode`: never panics** — every codec value, every buffer content (any prefix of any
stream), both overflow profiles: `src[header_len - 4]`, `src[header_len - 3]`, `get_u16`, `advance`, `split_to`, each `+`/`-`
on `usize` and the two callees' own panics are covered by the guards the Rust has -/
theorem c07_generated_trojan_client_udp_decode_never_panics (ov : Bool) (s : UdpClientCodec) (b : Bytes) (hlen : b.length < 2 ^ 64) :
    UdpClientCodec.decode ov s b ≠ PWGen.Res.panic :=
  udp_decode_no_panic ov s b hlen

/-- **C07, generated `tcp::ClientCodec::decode`: never panics** -/
theorem c07_generated_trojan_client_tcp_decode_never_panics (ov : Bool) (s : TcpClientCodec) (b : Bytes) (hlen : b.length < 2 ^ 64) :
    TcpClientCodec.decode ov s b ≠ PWGen.Res.panic :=
  tcp_decode_no_panic ov s b hlen

/-- the cut is arbitrary: every prefix of every stream -/
theorem c07_generated_trojan_client_udp_decode_any_cut (ov : Bool) (s : UdpClientCodec) (w : Bytes) (n : Nat) (hlen : w.length < 2 ^ 64) :
    UdpClientCodec.decode ov s (w.take n) ≠ PWGen.Res.panic :=
  udp_decode_no_panic ov s (w.take n) (Nat.lt_of_le_of_lt (List.length_take_le' n w) hlen)

/-! ## (4) C04: the generated decoders under `FramedRead`, every segmentation -/

/-- **TCP, server → client, generated decoder** (`c04_trojan_client_tcp_framed` transferred): any segmentation of any written
items gives only `.data` items whose concatenation is exactly what was written; buffer empty, not ended, codec unchanged,
quiescent (the next `decode` returns `Ok(None)`) -/
theorem c04_generated_trojan_client_tcp_framed (ov : Bool) (s : TcpClientCodec) (items pieces : List Bytes)
    (hcut : pieces.flatten = (items.map serverEncodeTcp).flatten) (hlen : pieces.flatten.length < 2 ^ 64) :
    let r := feedAll (genTcp ov) ⟨s, [], false⟩ pieces
    evClean r.2 ∧ r.2 = dataEvs pieces ∧
    (∀ i ∈ evItems r.2, i.kind = .data ∧ i.addr = none) ∧
    evData r.2 = items.flatten ∧
    r.1.buf = [] ∧ r.1.ended = false ∧ r.1.st = s ∧
    TcpClientCodec.decode ov r.1.st r.1.buf = PWGen.Res.ok (s, [], RResult.ok none) :=
  tcp_framed ov s items pieces hcut hlen

/-- **UDP over the stream, server → client, generated decoder** (`c04_trojan_client_udp_framed` transferred): for every
segmentation exactly one item per datagram, in order, each with its payload and its own address — no merging, no splitting,
no truncation, nothing else; buffer empty, not ended, codec unchanged, quiescent -/
theorem c04_generated_trojan_client_udp_framed (ov : Bool) (s : UdpClientCodec) (ds : List Dgram) (hv : ∀ x ∈ ds, x.Ok)
    (pieces : List Bytes) (hcut : pieces.flatten = (ds.map fun x => serverEncodeUdp x.1 x.2).flatten)
    (hlen : pieces.flatten.length < 2 ^ 64) :
    let r := feedAll (genUdp ov) ⟨s, [], false⟩ pieces
    r.2 = ds.map udpEv ∧ evClean r.2 ∧
    evItems r.2 = ds.map (fun x => ⟨.udp, x.1, some x.2⟩) ∧
    r.1.buf = [] ∧ r.1.ended = false ∧ r.1.st = s ∧
    UdpClientCodec.decode ov r.1.st r.1.buf = PWGen.Res.ok (s, [], RResult.ok none) :=
  udp_framed ov s ds hv pieces hcut hlen

/-- lock step with the model for *every* byte stream (honest or not) that fits a `usize` -/
theorem c04_generated_trojan_client_udp_framed_eq_model (ov : Bool) (s : UdpClientCodec) (pieces : List Bytes)
    (hlen : pieces.flatten.length < 2 ^ 64) :
    (feedAll (genUdp ov) ⟨s, [], false⟩ pieces).2 = (feedAll cUdp ⟨(), [], false⟩ pieces).2 ∧
    (feedAll (genUdp ov) ⟨s, [], false⟩ pieces).1.buf = (feedAll cUdp ⟨(), [], false⟩ pieces).1.buf ∧
    (feedAll (genUdp ov) ⟨s, [], false⟩ pieces).1.ended = (feedAll cUdp ⟨(), [], false⟩ pieces).1.ended ∧
    (feedAll (genUdp ov) ⟨s, [], false⟩ pieces).1.st = s :=
  udp_framed_eq_model ov s pieces hlen

/-! ## (5) C02: datagrams keep their boundaries and their address — below 64 KiB; above, the encoder truncates the length -/

/-- **C02, client → server, below 64 KiB**: what the generated `udp::ClientCodec::encode` writes for `(p, to)`, followed by
anything, is decoded by the generated server `decode_packet` to exactly `p`, for `to`, leaving exactly what followed -/
theorem c02_generated_trojan_client_to_server_roundtrip (ov : Bool) (k : Bytes) (cmd : UInt8) (ad to : Address)
    (s2 : Octo.TrojanGen.ServerCodec) (p tail : Bytes) (hacc : (toAddr to).Accepted) (hp : p.length < 65536)
    (hlen : (packet (toAddr to) p ++ tail).length < 2 ^ 64) :
    ∃ w, UdpClientCodec.encode ov ⟨k, cmd, ad, .Body⟩ (p, to) [] = PWGen.Res.ok (⟨k, cmd, ad, .Body⟩, w, RResult.ok ()) ∧
      ∃ a', Octo.TrojanGen.ServerCodec.decode_packet ov s2 (w ++ tail)
          = PWGen.Res.ok (s2, tail, RResult.ok (some (Octo.TrojanGen.InboundIn.RelayUdp p a'))) ∧ toAddr a' = toAddr to :=
  client_to_server_roundtrip ov k cmd ad to s2 p tail hacc hp hlen

/-- **C02, server → client, below 64 KiB**: generated server encoder → generated client decoder -/
theorem c02_generated_trojan_server_to_client_roundtrip (ov : Bool) (ss : Octo.TrojanGen.ServerCodec) (s : UdpClientCodec)
    (content tail : Bytes) (addr : SocketAddr) (hp : content.length < 65536)
    (hlen : (serverEncodeUdp content (toAddr (Address.Socket addr)) ++ tail).length < 2 ^ 64) :
    ∃ w, Octo.TrojanGen.ServerCodec.encode ov ss (Octo.TrojanGen.OutboundIn.Udp (content, addr)) [] = PWGen.Res.ok (ss, w, RResult.ok ()) ∧
      ∃ a', UdpClientCodec.decode ov s (w ++ tail) = PWGen.Res.ok (s, tail, RResult.ok (some (content, a'))) ∧
        toAddr a' = toAddr (Address.Socket addr) :=
  server_to_client_roundtrip ov ss s content tail addr hp hlen

/-- **C02, the over-long datagram (documented, not refused).**  For every payload length `udp::ClientCodec::encode` returns
`Ok(())` and writes `address ‖ (len mod 65536) ‖ CRLF ‖ all len bytes`; the generated server decoder delivers the first
`len mod 65536` bytes as the datagram and keeps the other payload bytes in the stream (to be parsed as further frames); for
`len ≥ 65536` what is delivered is not what was sent.  This is what the code does — `item.0.len() as u16` — stated about the
generated code; the model's `packet` has the same `% 65536` (`oversize_payload_injects`, `oversize_payload_kills_stream` are the
model-level consequences). -/
theorem c02_generated_trojan_client_oversize_truncates (ov : Bool) (k : Bytes) (cmd : UInt8) (ad to : Address)
    (s2 : Octo.TrojanGen.ServerCodec) (p tail : Bytes) (hacc : (toAddr to).Accepted)
    (hlen : (packet (toAddr to) p ++ tail).length < 2 ^ 64) :
    UdpClientCodec.encode ov ⟨k, cmd, ad, .Body⟩ (p, to) []
      = PWGen.Res.ok (⟨k, cmd, ad, .Body⟩, Socks5Addr.encode (toAddr to) ++ be16 (p.length % 65536) ++ crlf ++ p, RResult.ok ()) ∧
    (∃ a', Octo.TrojanGen.ServerCodec.decode_packet ov s2 (packet (toAddr to) p ++ tail)
        = PWGen.Res.ok (s2, p.drop (p.length % 65536) ++ tail,
            RResult.ok (some (Octo.TrojanGen.InboundIn.RelayUdp (p.take (p.length % 65536)) a'))) ∧ toAddr a' = toAddr to) ∧
    (65536 ≤ p.length → p.take (p.length % 65536) ≠ p) :=
  udp_oversize ov k cmd ad to s2 p tail hacc hlen

/-! ## non-vacuity: the hypotheses hold for concrete instances, and the generated code, evaluated, agrees -/

section examples

/-- 8.8.8.8:53 -/
def exSock : Address := Address.Socket (SocketAddr.V4 ⟨⟨0x08080808⟩, 53⟩)
/-- w3.org:443 -/
def exDom : Address := Address.Domain ⟨[119, 51, 46, 111, 114, 103]⟩ 443

example : (toAddr exSock).Accepted ∧ (toAddr exDom).Accepted := by decide
example : toAddr exDom = exAd ∧ toAddr exSock = exTo := by decide

/-- hypotheses of the over-long theorem hold for a payload of 65537 bytes: accepted address, stream below 2^64 — and its
premise `65536 ≤ len` too -/
example : (toAddr exSock).Accepted ∧ (packet (toAddr exSock) (List.replicate 65537 (0 : UInt8)) ++ []).length < 2 ^ 64 ∧
    65536 ≤ (List.replicate 65537 (0 : UInt8)).length := by
  refine ⟨by decide, ?_, ?_⟩
  · have h7 : (Socks5Addr.encode (toAddr exSock)).length = 7 := by decide
    rw [List.append_nil, packet_length, h7, List.length_replicate]; decide
  · rw [List.length_replicate]; decide

/-- the generated TCP encoder, evaluated (debug profile): key, CRLF, 1, domain address, CRLF, payload; then no header again -/
example : TcpClientCodec.encode true ⟨[97, 98], 1, exDom, .Header⟩ [1, 2, 3] []
    = PWGen.Res.ok (⟨[97, 98], 1, exDom, .Body⟩, [97, 98, 13, 10, 1, 3, 6, 119, 51, 46, 111, 114, 103, 1, 187, 13, 10, 1, 2, 3], RResult.ok ()) := by
  decide +kernel
example : TcpClientCodec.encode false ⟨[97, 98], 1, exDom, .Body⟩ [4] [0]
    = PWGen.Res.ok (⟨[97, 98], 1, exDom, .Body⟩, [0, 4], RResult.ok ()) := by decide +kernel

/-- the generated UDP encoder, evaluated: header with command 3, then the frame 8.8.8.8:53, length 3, CRLF, payload -/
example : UdpClientCodec.encode true ⟨[97], 3, exDom, .Header⟩ ([9, 9, 9], exSock) []
    = PWGen.Res.ok (⟨[97], 3, exDom, .Body⟩,
        [97, 13, 10, 3, 3, 6, 119, 51, 46, 111, 114, 103, 1, 187, 13, 10, 1, 8, 8, 8, 8, 0, 53, 0, 3, 13, 10, 9, 9, 9], RResult.ok ()) := by
  decide +kernel

/-- the generated UDP decoder, evaluated: a frame whose address is complete but whose length field is not — it waits
(`Ok(None)`, nothing consumed), it does not index past the end -/
example : UdpClientCodec.decode true ⟨[], 3, exDom, .Body⟩ [1, 8, 8, 8, 8, 0, 53, 0]
    = PWGen.Res.ok (⟨[], 3, exDom, .Body⟩, [1, 8, 8, 8, 8, 0, 53, 0], RResult.ok none) := by decide +kernel

/-- … header complete, payload one byte short: waits, nothing consumed -/
example : UdpClientCodec.decode false ⟨[], 3, exDom, .Body⟩ [1, 8, 8, 8, 8, 0, 53, 0, 3, 13, 10, 9, 9]
    = PWGen.Res.ok (⟨[], 3, exDom, .Body⟩, [1, 8, 8, 8, 8, 0, 53, 0, 3, 13, 10, 9, 9], RResult.ok none) := by decide +kernel

/-- … the whole frame and one byte of the next: the datagram with the frame's own address, the next byte stays -/
example : UdpClientCodec.decode true ⟨[], 3, exDom, .Body⟩ [1, 8, 8, 8, 8, 0, 53, 0, 3, 13, 10, 9, 9, 9, 4]
    = PWGen.Res.ok (⟨[], 3, exDom, .Body⟩, [4], RResult.ok (some ([9, 9, 9], exSock))) := by decide +kernel

/-- hypotheses of `c04_generated_trojan_client_udp_framed` hold for three datagrams and a three-way cut -/
example :
    let ds : List Dgram := [([9, 9, 9], exTo), ([], exTo6), ([7], exAd)]
    let wire := (ds.map fun x => serverEncodeUdp x.1 x.2).flatten
    (feedAll (genUdp false) ⟨⟨[], 3, exDom, .Body⟩, [], false⟩ [wire.take 5, (wire.drop 5).take 20, (wire.drop 5).drop 20]).2 = ds.map udpEv :=
  (c04_generated_trojan_client_udp_framed false ⟨[], 3, exDom, .Body⟩ [([9, 9, 9], exTo), ([], exTo6), ([7], exAd)] (by decide) _
    (cut3 _ _ _) (by rw [cut3]; decide)).1

example :
    let r := feedAll (genTcp true) ⟨⟨[], 1, exDom, .Body⟩, [], false⟩ [[1, 2], [], [3]]
    evData r.2 = [1, 2, 3] :=
  (c04_generated_trojan_client_tcp_framed true ⟨[], 1, exDom, .Body⟩ [[1], [2, 3]] [[1, 2], [], [3]] (by decide) (by decide)).2.2.2.1

end examples

end Octo.TrojanClientGen
