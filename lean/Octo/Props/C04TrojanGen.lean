import Octo.Proofs.TrojanGen
import Octo.Props.C04Trojan
import Octo.Props.C06
import Octo.Props.C07
/-!
# C04 / C07 / C06 for the code itself: the Trojan server codec `octo-squirrel-server/src/server/trojan.rs`,
translated statement by statement on every run (`translate_trojan.py` → `Octo/Gen/TrojanGen.lean`: `enum CodecState`,
`struct ServerCodec`, `decode_packet`, `Decoder::decode`, `Encoder::encode`; cursor reads and slice indexing panic as in
`bytes`, exact `usize` arithmetic in both overflow profiles, `?` / `bail!` / early `return`, the callees
`address::{try_decode_at, decode, encode}` are the generated functions of `Octo/Gen/AddrGen.lean`, `hex::encode` is the
table read from util.rs) equals the hand model `Octo.Trojan.serverDecode` / `serverEncode*`, hence has the properties proved
about the model.  Property theorems only; the equivalences are in `Octo/Proofs/TrojanGen.lean`
(`decode_spec`, `decode_eq`, `decode_packet_spec`, `encode_tcp_eq`, `encode_udp_eq`, `feedAll_sim`).

`ov` is the overflow profile (`true`: overflow checks on, debug; `false`: release).  `hlen : b.length < 2 ^ 64` is the one
fact about a `BytesMut` that a Lean list does not carry (`remaining()` is a `usize`).  The model is parameterised by a
`Crypto` and a password and uses them only through `keyHex C pw = hex (C.sha224 pw)`; the generated codec carries the 28
key bytes themselves.  The tie is `hkey : keyHex C pw = hexLower key` — satisfied by the codec `new_codec` builds
(`key = SHA-224(password)`: `keyHex_of_sha`), and for *every* key by `keyCrypto key`.
-/
namespace Octo.TrojanGen
open Octo Octo.PWGen Octo.AddrGen Octo.Trojan

/-! ## (a) one `decode` call -/

/-- **`decode_eq`**: for every key, codec state, buffer (of a length a `BytesMut` can have) and both overflow profiles the
generated `Decoder::decode` returns exactly what `Trojan.serverDecode` returns — item (kind, payload, address), new buffer,
new state, `Ok(None)`, `Err` — and never panics (`embedCall` maps a panic to the model's `.panic`, which the model never
returns: `c07_generated_trojan_decode_never_panics`), where the model's key is the lower-case hex of the codec's key. -/
theorem c04_generated_decode_eq (ov : Bool) (C : Crypto) (pw : Bytes) (s : ServerCodec) (b : Bytes) (hlen : b.length < 2 ^ 64)
    (hkey : keyHex C pw = hexLower s.key) :
    embedCall (toSt s.state) b (ServerCodec.decode ov s b) = serverDecode C pw (toSt s.state) b :=
  decode_eq ov C pw s b hlen hkey

/-- the same with the pieces named: the call returns `Ok`/`Err` (no panic) with the key unchanged and a buffer that did not
grow; state, buffer and outcome are the model's -/
theorem c04_generated_decode_call (ov : Bool) (C : Crypto) (pw : Bytes) (s : ServerCodec) (b : Bytes) (hlen : b.length < 2 ^ 64)
    (hkey : keyHex C pw = hexLower s.key) :
    ∃ s' buf r, ServerCodec.decode ov s b = PWGen.Res.ok (s', buf, r) ∧ s'.key = s.key ∧ buf.length ≤ b.length ∧
      serverDecode C pw (toSt s.state) b = ⟨toSt s'.state, buf, embedRes r⟩ :=
  decode_spec ov C pw s b hlen hkey

/-- for the codec `new_codec` builds from a password (`key = SHA-224(password)`) the hypothesis `hkey` holds by itself -/
theorem c04_generated_decode_eq_new_codec (ov : Bool) (C : Crypto) (pw : Bytes) (st : CodecState) (b : Bytes)
    (hlen : b.length < 2 ^ 64) :
    embedCall (toSt st) b (ServerCodec.decode ov ⟨C.sha224 pw, st⟩ b) = serverDecode C pw (toSt st) b :=
  decode_eq ov C pw ⟨C.sha224 pw, st⟩ b hlen (keyHex_of_sha C pw)

/-- `hkey` can be met for every key whatsoever -/
example (key : List UInt8) : keyHex (keyCrypto key) [] = hexLower key := keyCrypto_keyHex key []

/-- `util::hex::encode` as translated (table lookup in `HEX_BYTES`, read from util.rs) is the model's lower-case hex -/
theorem c04_generated_hex_is_lowercase_hex (k : List UInt8) : hexLower k = hexBytes k := hexLower_eq_hexBytes k

/-- **the bound `hlen` of `decode_eq` is needed**: on a buffer of exactly `2^64` bytes (which no `BytesMut` can hold) the generated
code and the model part — `remaining()` is a `usize` and wraps to 0, so the generated `decode` waits (`Ok(None)`), while the
model, which counts in `Nat`, goes on and rejects the byte at offset 59 -/
theorem c04_generated_decode_eq_needs_bound (ov : Bool) (C : Crypto) (pw key : Bytes) (b : Bytes)
    (hlen : b.length = 2 ^ 64) (h59 : b[59]? = some 0) :
    ServerCodec.decode ov ⟨key, .Header⟩ b = PWGen.Res.ok (⟨key, .Header⟩, b, RResult.ok none) ∧
    (serverDecode C pw .header b).res = .err := by
  have hne : b ≠ [] := by intro h; rw [h] at hlen; simp at hlen
  have hemp : b.isEmpty = false := by
    cases b with
    | nil => exact absurd rfl hne
    | cons x r => rfl
  constructor
  · have hr := not_has_remaining hne
    have g : decide (Cursor.remaining b < 61) = true := by
      apply decide_eq_true
      rw [UInt64.lt_iff_toNat_lt, Cursor.remaining, UInt64.toNat_ofNat', hlen]
      decide
    simp only [ServerCodec.decode, hr, g, bind_next, bind_ret, run_ret, Bool.false_eq_true, ↓reduceIte]
  · have h61 : ¬ b.length < 61 := by rw [hlen]; decide
    have ht : Socks5Addr.tryDecodeAt b 59 = .err := by simp [Socks5Addr.tryDecodeAt, h59]
    simp [serverDecode, hemp, h61, ht]

/-- such a buffer exists as a Lean list -/
example : (List.replicate (2 ^ 64) (0 : UInt8)).length = 2 ^ 64 ∧ (List.replicate (2 ^ 64) (0 : UInt8))[59]? = some 0 := by
  refine ⟨List.length_replicate, ?_⟩
  rw [List.getElem?_replicate]; simp

/-! ## (b) corollaries -/

/-- **C07, generated `decode`: never panics** — every key, every state, every buffer content (of a length a `BytesMut` can
have), both overflow profiles: each `src[i]`, `split_to`, `advance`, `get_u8`, `get_u16`, each `+` / `-` on `usize` and the
two callees' own panics are covered by the guards the Rust has. -/
theorem c07_generated_trojan_decode_never_panics (ov : Bool) (s : ServerCodec) (b : Bytes) (hlen : b.length < 2 ^ 64) :
    ServerCodec.decode ov s b ≠ PWGen.Res.panic :=
  decode_no_panic ov s b hlen

/-- the same fact obtained through the model: `decode_eq` carries `c07_trojan_server_total` over -/
theorem c07_generated_trojan_decode_never_panics_via_model (ov : Bool) (s : ServerCodec) (b : Bytes) (hlen : b.length < 2 ^ 64) :
    ServerCodec.decode ov s b ≠ PWGen.Res.panic := by
  intro hp
  have h := decode_eq ov (keyCrypto s.key) [] s b hlen (keyCrypto_keyHex _ _)
  rw [hp] at h
  exact c07_trojan_server_total (keyCrypto s.key) [] (toSt s.state) b (by rw [← h]; rfl)

/-- **C07, generated `decode_packet`: never panics** (the datagram-frame step, callable in every state) -/
theorem c07_generated_trojan_decode_packet_never_panics (ov : Bool) (s : ServerCodec) (b : Bytes) (hlen : b.length < 2 ^ 64) :
    ServerCodec.decode_packet ov s b ≠ PWGen.Res.panic :=
  decode_packet_no_panic ov s b hlen

/-- **C07, generated `encode`: never panics, never fails** — no bound on anything -/
theorem c07_generated_trojan_encode_never_panics (ov : Bool) (s : ServerCodec) (item : OutboundIn) (dst : Bytes) :
    ∃ dst', ServerCodec.encode ov s item dst = PWGen.Res.ok (s, dst', RResult.ok ()) := by
  cases item with
  | Tcp x => exact ⟨_, encode_tcp_eq ov s x dst⟩
  | Udp x => obtain ⟨c, a⟩ := x; exact ⟨_, encode_udp_eq ov s c dst a⟩

/-- `decode` never changes the key and never grows the buffer (so a `FramedRead` over it cannot spin on a growing buffer) -/
theorem c04_generated_decode_keeps_key (ov : Bool) (s s' : ServerCodec) (b buf : Bytes) (r : RResult (Option InboundIn))
    (hlen : b.length < 2 ^ 64) (h : ServerCodec.decode ov s b = PWGen.Res.ok (s', buf, r)) :
    s'.key = s.key ∧ buf.length ≤ b.length :=
  decode_key ov s s' b buf r hlen h

/-- **C06, generated `decode`**: a codec in state `Header` releases an item — a `ConnectTcp` with its target, a `RelayUdp`
with its destination, anything at all — only if the first 56 bytes of the buffer are exactly the lower-case hex of its key.
(No cryptographic hypothesis: this is the comparison itself; that the key is SHA-224 of the password is `new_codec`.) -/
theorem c06_generated_trojan (ov : Bool) (key : List UInt8) (b : Bytes) (s' : ServerCodec) (buf : Bytes) (item : InboundIn)
    (hlen : b.length < 2 ^ 64)
    (h : ServerCodec.decode ov ⟨key, .Header⟩ b = PWGen.Res.ok (s', buf, RResult.ok (some item))) :
    b.take 56 = hexLower key := by
  have he := decode_eq ov (keyCrypto key) [] ⟨key, .Header⟩ b hlen (keyCrypto_keyHex _ _)
  rw [h] at he
  rw [← keyCrypto_keyHex key []]
  cases item with
  | ConnectTcp d a => exact c06_trojan (keyCrypto key) [] b _ _ _ he.symm
  | RelayTcp d => exact c06_trojan (keyCrypto key) [] b _ _ _ he.symm
  | RelayUdp d a => exact c06_trojan (keyCrypto key) [] b _ _ _ he.symm

/-- … and what is released then carries the address that follows the command byte: the generated call and the model agree on
kind, payload and address (this is `decode_eq` read for an item) -/
theorem c06_generated_trojan_item (ov : Bool) (C : Crypto) (pw : Bytes) (b : Bytes) (s' : ServerCodec) (buf : Bytes)
    (item : InboundIn) (hlen : b.length < 2 ^ 64)
    (h : ServerCodec.decode ov ⟨C.sha224 pw, .Header⟩ b = PWGen.Res.ok (s', buf, RResult.ok (some item))) :
    b.take 56 = keyHex C pw ∧ serverDecode C pw .header b = ⟨toSt s'.state, buf, embedRes (RResult.ok (some item))⟩ := by
  have he := decode_eq ov C pw ⟨C.sha224 pw, .Header⟩ b hlen (keyHex_of_sha C pw)
  rw [h] at he
  refine ⟨?_, he.symm⟩
  cases item with
  | ConnectTcp d a => exact c06_trojan C pw b _ _ _ he.symm
  | RelayTcp d => exact c06_trojan C pw b _ _ _ he.symm
  | RelayUdp d a => exact c06_trojan C pw b _ _ _ he.symm

/-! ### C04: the generated decoder under `FramedRead`, for every segmentation

`genCall ov` is one generated `decode` call in the shape the `FramedRead` model (`frLoop` / `frFeed`, `feedAll` = one socket
read per piece) takes; its state is the generated `ServerCodec` value (key and `CodecState`).  Every statement below is the
corresponding theorem of `Octo/Props/C04Trojan.lean` rewritten with the equivalence (`feedAll_sim`); the extra hypothesis is
that the stream fits a `usize`. -/

/-- **lock step**: for every list of reads whose total length fits a `usize`, the `FramedRead` over the generated decoder and
the one over the model produce the same events, hold the same buffer, have ended or not alike, are in corresponding states —
and the key is still the key -/
theorem c04_generated_trojan_framed_eq_model (ov : Bool) (C : Crypto) (pw : Bytes) (s : ServerCodec)
    (hkey : keyHex C pw = hexLower s.key) (pieces : List Bytes) (hlen : pieces.flatten.length < 2 ^ 64) :
    let r := feedAll (genCall ov) ⟨s, [], false⟩ pieces
    let m := feedAll (serverDecode C pw) ⟨toSt s.state, [], false⟩ pieces
    r.2 = m.2 ∧ r.1.buf = m.1.buf ∧ r.1.ended = m.1.ended ∧ toSt r.1.st.state = m.1.st ∧ r.1.st.key = s.key := by
  intro r m
  obtain ⟨h1, h2, h3⟩ := feedAll_sim ov C pw s.key hkey pieces ⟨s, [], false⟩ rfl (by simpa using hlen)
  have hm : mapFr r.1 = m.1 := h1
  refine ⟨h2, ?_, ?_, ?_, h3⟩
  · exact congrArg FrSt.buf hm
  · exact congrArg FrSt.ended hm
  · exact congrArg FrSt.st hm

/-- **TCP, client → server, generated decoder.**  The wire is what `tcp::ClientCodec::encode` writes for a first item `w` and
later items `ws`.  For every segmentation, the generated server codec built for the same password, started in `Header`
with an empty buffer, produces only items: one `ConnectTcp` with the target `ad` — the first event — then one `RelayTcp` per
non-empty later read; their data concatenate to exactly what was written; final buffer empty, state `Tcp`, key unchanged, not
ended, and the decoder is quiescent (the next `decode` on what is buffered returns `Ok(None)`): it never stalls. -/
theorem c04_generated_trojan_server_tcp_framed (ov : Bool) (C : Crypto) (hC : C.Lawful) (pw : Bytes) (ad : Addr)
    (ha : ad.Accepted) (w : Bytes) (ws : List Bytes) (pieces : List Bytes)
    (hcut : pieces.flatten = encTcpAll C pw ad {} (w :: ws)) (hlen : (encTcpAll C pw ad {} (w :: ws)).length < 2 ^ 64) :
    let r := feedAll (genCall ov) ⟨⟨C.sha224 pw, .Header⟩, [], false⟩ pieces
    evClean r.2 ∧
    (∃ d0 later, r.2 = .item ⟨.connect, d0, some ad⟩ :: dataEvs later ∧ d0 ++ later.flatten = (w :: ws).flatten) ∧
    evData r.2 = (w :: ws).flatten ∧
    r.1.buf = [] ∧ r.1.st = ⟨C.sha224 pw, .Tcp⟩ ∧ r.1.ended = false ∧
    ServerCodec.decode ov r.1.st r.1.buf = PWGen.Res.ok (r.1.st, [], RResult.ok none) := by
  intro r
  obtain ⟨e1, e2, e3, e4, e5⟩ := c04_generated_trojan_framed_eq_model ov C pw ⟨C.sha224 pw, .Header⟩ (keyHex_of_sha C pw) pieces
    (by rw [hcut]; exact hlen)
  obtain ⟨m1, m2, -, m4, m5, m6, m7, -⟩ := c04_trojan_server_tcp_framed C hC pw ad ha w ws pieces hcut
  have hr2 : r.2 = _ := e1
  have hbuf : r.1.buf = [] := e2.trans m5
  have hst : r.1.st = ⟨C.sha224 pw, .Tcp⟩ := by
    have hs : r.1.st.state = .Tcp := toSt_inj (e4.trans m6)
    have hk : r.1.st.key = C.sha224 pw := e5
    cases hrs : r.1.st with
    | mk k st => rw [hrs] at hs hk; simp only at hs hk; rw [hs, hk]
  refine ⟨by rw [hr2]; exact m1, by rw [hr2]; exact m2, by rw [hr2]; exact m4, hbuf, hst, e3.trans m7, ?_⟩
  rw [hbuf]; exact decode_nil ov _

/-- **nothing before the header is complete, generated decoder**: any way of delivering any proper prefix of a request header
(built for any password) produces no event at all and keeps every byte -/
theorem c04_generated_trojan_server_header_silent (ov : Bool) (C : Crypto) (hC : C.Lawful) (pw pw' : Bytes) (cmd : Nat) (ad : Addr)
    (ha : ad.Accepted) (n : Nat) (hn : n < (header C pw' cmd ad).length) (pieces : List Bytes)
    (hcut : pieces.flatten = (header C pw' cmd ad).take n) (hlen : (header C pw' cmd ad).length < 2 ^ 64) :
    feedAll (genCall ov) ⟨⟨C.sha224 pw, .Header⟩, [], false⟩ pieces
      = (⟨⟨C.sha224 pw, .Header⟩, (header C pw' cmd ad).take n, false⟩, []) := by
  obtain ⟨e1, e2, e3, e4, e5⟩ := c04_generated_trojan_framed_eq_model ov C pw ⟨C.sha224 pw, .Header⟩ (keyHex_of_sha C pw) pieces
    (by rw [hcut, List.length_take]; omega)
  have hm : feedAll (serverDecode C pw) ⟨toSt CodecState.Header, [], false⟩ pieces
      = (⟨.header, (header C pw' cmd ad).take n, false⟩, []) :=
    c04_trojan_server_header_silent C hC pw pw' cmd ad ha n hn pieces hcut
  rw [hm] at e1 e2 e3 e4
  generalize feedAll (genCall ov) ⟨⟨C.sha224 pw, .Header⟩, [], false⟩ pieces = r at *
  obtain ⟨⟨⟨k, st⟩, buf, en⟩, evs⟩ := r
  simp only at e1 e2 e3 e4 e5
  have hs : st = .Header := toSt_inj e4
  rw [e1, e2, e3, hs, e5]

/-- **UDP over the stream, client → server, generated decoder.**  The wire is what `udp::ClientCodec::encode` writes for the
datagrams `d :: ds`.  For every segmentation the generated server codec produces *exactly* one `RelayUdp` per datagram, in
order, each with its payload and its destination — no merging, no splitting, no truncation, nothing else; final buffer empty,
state `Udp`, key unchanged, not ended, quiescent. -/
theorem c04_generated_trojan_server_udp_framed (ov : Bool) (C : Crypto) (hC : C.Lawful) (pw : Bytes) (ad : Addr) (ha : ad.Accepted)
    (d : Dgram) (ds : List Dgram) (hv : ∀ x ∈ d :: ds, x.Ok)
    (pieces : List Bytes) (hcut : pieces.flatten = encUdpAll C pw ad {} (d :: ds))
    (hlen : (encUdpAll C pw ad {} (d :: ds)).length < 2 ^ 64) :
    let r := feedAll (genCall ov) ⟨⟨C.sha224 pw, .Header⟩, [], false⟩ pieces
    r.2 = (d :: ds).map udpEv ∧ evClean r.2 ∧
    evItems r.2 = (d :: ds).map (fun x => ⟨.udp, x.1, some x.2⟩) ∧
    r.1.buf = [] ∧ r.1.st = ⟨C.sha224 pw, .Udp⟩ ∧ r.1.ended = false ∧
    ServerCodec.decode ov r.1.st r.1.buf = PWGen.Res.ok (r.1.st, [], RResult.ok none) := by
  intro r
  obtain ⟨e1, e2, e3, e4, e5⟩ := c04_generated_trojan_framed_eq_model ov C pw ⟨C.sha224 pw, .Header⟩ (keyHex_of_sha C pw) pieces
    (by rw [hcut]; exact hlen)
  obtain ⟨m1, m2, m3, m4, m5, m6, -⟩ := c04_trojan_server_udp_framed C hC pw ad ha d ds hv pieces hcut
  have hr2 : r.2 = _ := e1
  have hbuf : r.1.buf = [] := e2.trans m4
  have hst : r.1.st = ⟨C.sha224 pw, .Udp⟩ := by
    have hs : r.1.st.state = .Udp := toSt_inj (e4.trans m5)
    have hk : r.1.st.key = C.sha224 pw := e5
    cases hrs : r.1.st with
    | mk k st => rw [hrs] at hs hk; simp only at hs hk; rw [hs, hk]
  refine ⟨hr2.trans m1, by rw [hr2]; exact m2, by rw [hr2]; exact m3, hbuf, hst, e3.trans m6, ?_⟩
  rw [hbuf]; exact decode_nil ov _

/-! ## (c) `encode` -/

/-- **`encode_eq`, TCP**: the generated `Encoder::encode` appends a TCP item unchanged (= `serverEncodeTcp`) -/
theorem c04_generated_encode_tcp_eq (ov : Bool) (s : ServerCodec) (item dst : Bytes) :
    ServerCodec.encode ov s (OutboundIn.Tcp item) dst = PWGen.Res.ok (s, dst ++ serverEncodeTcp item, RResult.ok ()) :=
  encode_tcp_eq ov s item dst

/-- **`encode_eq`, UDP**: the generated `Encoder::encode` appends exactly the model's frame `serverEncodeUdp` — SOCKS5 address
of the socket address, 16-bit big-endian `len mod 65536`, CRLF, payload -/
theorem c04_generated_encode_udp_eq (ov : Bool) (s : ServerCodec) (content dst : Bytes) (addr : SocketAddr) :
    ServerCodec.encode ov s (OutboundIn.Udp (content, addr)) dst
      = PWGen.Res.ok (s, dst ++ serverEncodeUdp content (toAddr (Address.Socket addr)), RResult.ok ()) :=
  encode_udp_eq ov s content dst addr

/-- what the generated encoder writes for a datagram below 64 KiB, followed by anything, is decoded by the generated
`decode_packet` to exactly that datagram and that rest (generated encoder → generated decoder, through the model's frame
round trip `c02_trojan_frame_roundtrip`) -/
theorem c04_generated_udp_frame_roundtrip (ov : Bool) (s s2 : ServerCodec) (content tail : Bytes) (addr : SocketAddr)
    (hp : content.length < 65536)
    (hlen : (serverEncodeUdp content (toAddr (Address.Socket addr)) ++ tail).length < 2 ^ 64) :
    ∃ w, ServerCodec.encode ov s (OutboundIn.Udp (content, addr)) [] = PWGen.Res.ok (s, w, RResult.ok ()) ∧
      ∃ a, ServerCodec.decode_packet ov s2 (w ++ tail) = PWGen.Res.ok (s2, tail, RResult.ok (some (InboundIn.RelayUdp content a))) ∧
        toAddr a = toAddr (Address.Socket addr) := by
  refine ⟨_, by simpa using encode_udp_eq ov s content [] addr, ?_⟩
  have hacc : (toAddr (Address.Socket addr)).Accepted := by
    cases addr with
    | V4 x => exact toAddr_wf (Address.Socket (.V4 x))
    | V6 x => exact toAddr_wf (Address.Socket (.V6 x))
  obtain ⟨buf, r, hd, -, hm⟩ := decode_packet_spec ov s2 (serverEncodeUdp content (toAddr (Address.Socket addr)) ++ tail) hlen
  have hmod := hm ()
  rw [show serverEncodeUdp content (toAddr (Address.Socket addr)) = packet (toAddr (Address.Socket addr)) content from rfl,
    pktCall_frame () _ content tail hacc hp] at hmod
  rw [hd]
  injection hmod with _ hb hr
  subst hb
  cases r with
  | err => simp [embedRes] at hr
  | ok o =>
    cases o with
    | none => simp [embedRes] at hr
    | some it =>
      cases it with
      | ConnectTcp dd aa => simp [embedRes] at hr
      | RelayTcp dd => simp [embedRes] at hr
      | RelayUdp dd aa =>
        simp only [embedRes, Octo.Res.ok.injEq, Item.mk.injEq, Option.some.injEq, true_and] at hr
        exact ⟨aa, by rw [hr.1], hr.2.symm⟩

/-! ## non-vacuity: the hypotheses hold for concrete instances, and the generated code, evaluated, agrees -/

section examples

/-- the key `new_codec` would hold for the toy hash and the password of `C04Trojan`'s examples -/
def exKey : List UInt8 := Crypto.toy.sha224 exPw

example : Crypto.toy.Lawful := Crypto.toy_lawful
example : exAd.Accepted ∧ exTo.Accepted := by decide
example : keyHex Crypto.toy exPw = hexLower exKey := keyHex_of_sha Crypto.toy exPw
example : (encTcpAll Crypto.toy exPw exAd {} [[1, 2, 3], [4], [5, 6]]).length < 2 ^ 64 := by decide
example : (keyCrypto (List.replicate 28 7)).Lawful := keyCrypto_lawful _ (by decide)

/-- the generated decoder, evaluated (debug profile): 30 bytes of the 71-byte header give nothing, the rest of the header
with the first payload byte gives `ConnectTcp`, the third read a `RelayTcp` -/
example :
    let wire := encTcpAll Crypto.toy exPw exAd {} [[1, 2, 3], [4], [5, 6]]
    (feedAll (genCall true) ⟨⟨exKey, .Header⟩, [], false⟩ [wire.take 30, (wire.drop 30).take 42, (wire.drop 30).drop 42]).2 =
      [.item ⟨.connect, [1], some exAd⟩, .item ⟨.data, [2, 3, 4, 5, 6], none⟩] := by decide +kernel

/-- hypotheses of `c04_generated_trojan_server_tcp_framed` hold for a three-way cut -/
example :
    let wire := encTcpAll Crypto.toy exPw exAd {} [[1, 2, 3], [4], [5, 6]]
    let r := feedAll (genCall false) ⟨⟨exKey, .Header⟩, [], false⟩ [wire.take 30, (wire.drop 30).take 43, (wire.drop 30).drop 43]
    evData r.2 = [1, 2, 3, 4, 5, 6] ∧ r.1.buf = [] :=
  let h := c04_generated_trojan_server_tcp_framed false Crypto.toy Crypto.toy_lawful exPw exAd (by decide) [1, 2, 3] [[4], [5, 6]]
    [(encTcpAll Crypto.toy exPw exAd {} [[1, 2, 3], [4], [5, 6]]).take 30,
     ((encTcpAll Crypto.toy exPw exAd {} [[1, 2, 3], [4], [5, 6]]).drop 30).take 43,
     ((encTcpAll Crypto.toy exPw exAd {} [[1, 2, 3], [4], [5, 6]]).drop 30).drop 43] (cut3 _ _ _) (by decide)
  ⟨h.2.2.1, h.2.2.2.1⟩

/-- a wrong key (one hex digit off), evaluated: `Err` after the 56 bytes, nothing released -/
example :
    let wire := encTcpAll Crypto.toy exPw exAd {} [[1, 2, 3]]
    ServerCodec.decode true ⟨(exKey.drop 1) ++ [0], .Header⟩ wire
      = PWGen.Res.ok (⟨(exKey.drop 1) ++ [0], .Header⟩, wire.drop 56, RResult.err) := by decide +kernel

/-- UDP: header and three frames cut inside the header and inside a frame, generated decoder evaluated (release profile) -/
example :
    let ds : List Dgram := [([9, 9, 9], exTo), ([], exTo6), ([7], exAd)]
    let wire := encUdpAll Crypto.toy exPw exAd {} ds
    (feedAll (genCall false) ⟨⟨exKey, .Header⟩, [], false⟩ [wire.take 80, (wire.drop 80).take 7, (wire.drop 80).drop 7]).2 =
      ds.map udpEv := by decide +kernel

/-- the generated encoder, evaluated: address 8.8.8.8:53, length 3, CRLF, payload -/
example : ServerCodec.encode true ⟨exKey, .Udp⟩ (OutboundIn.Udp ([9, 9, 9], SocketAddr.V4 ⟨⟨0x08080808⟩, 53⟩)) []
    = PWGen.Res.ok (⟨exKey, .Udp⟩, [1, 8, 8, 8, 8, 0, 53, 0, 3, 13, 10, 9, 9, 9], RResult.ok ()) := by decide +kernel

/-- a panic *outside* the guards would be visible: `decode_packet` evaluated on a frame whose address is complete but whose
length field is not — it waits (`Ok(None)`), it does not index past the end -/
example : ServerCodec.decode_packet true ⟨exKey, .Udp⟩ [1, 8, 8, 8, 8, 0, 53, 0]
    = PWGen.Res.ok (⟨exKey, .Udp⟩, [1, 8, 8, 8, 8, 0, 53, 0], RResult.ok none) := by decide +kernel

end examples

end Octo.TrojanGen
