import Octo.Proofs.AddrOrd
/-!
# C09 / C02 / C07 — the table of udp bindings is keyed by addresses: the order it sorts them by

The client keeps its udp bindings in `lru_time_cache::LruCache`, an *ordered* map; for VMess the key is
`(sender, target)` and `target : Address` is ordered by the hand-written `impl Ord for Address`
(`protocol/address.rs`).  An ordered map finds what it holds only if that order is a total order.  `Addr.cmp` models
the order after the repair (`1fcb424`), `Addr.cmpOld` the one before it; the model is compared with the real `Ord`
on generated pairs and triples by the run (`addr.cmp`), and the real table is exercised end to end with targets named
in all three ways (`e2e.udpm … mix=1`).
-/
namespace Octo.Addr

/-- **the order of addresses is a total order**: `cmp a b = eq` exactly for equal addresses, swapping the arguments
swaps the answer, and `<` is transitive — for all addresses (also ones the Rust types cannot hold) -/
theorem c09_address_order_total : TotalCmp cmp := cmp_total

theorem c09_address_order_eq_iff (a b : Addr) : cmp a b = .eq ↔ a = b := cmp_total.eq_iff a b
theorem c09_address_order_antisymmetric (a b : Addr) : cmp b a = (cmp a b).swap := cmp_total.swap a b
theorem c09_address_order_transitive (a b d : Addr) (h1 : cmp a b = .lt) (h2 : cmp b d = .lt) : cmp a d = .lt :=
  cmp_total.trans a b d h1 h2

/-- **a sorted table under this order finds every key it was given**, after any history of insertions (no binding is
lost, none is created twice for one key: the flow's datagrams keep going to its own binding) -/
theorem c09_table_finds_what_it_holds (ks : List Addr) (k : Addr) (h : k ∈ ks) :
    findSorted cmp k (build cmp ks) = true :=
  let ⟨hs, hm⟩ := build_spec cmp cmp_total ks
  findSorted_of_mem cmp cmp_total k _ hs (hm k h)

/-- the same for any comparison that is a total order: what the proof uses of `cmp` is exactly `TotalCmp` -/
theorem c09_table_finds_what_it_holds_any (c : Addr → Addr → Ordering) (hc : TotalCmp c) (ks : List Addr) (k : Addr)
    (h : k ∈ ks) : findSorted c k (build c ks) = true :=
  let ⟨hs, hm⟩ := build_spec c hc ks
  findSorted_of_mem c hc k _ hs (hm k h)

/-! the statements are **false** of the order before the repair -/

/-- three targets one application may name: 127.0.0.1:9000, 127.0.0.2:8000, "x":8500 -/
def oldA : Addr := .v4 [127, 0, 0, 1] 9000
def oldB : Addr := .v4 [127, 0, 0, 2] 8000
def oldD : Addr := .domain [120] 8500

/-- each is smaller than the next, in a cycle -/
theorem c09_old_address_order_cycle :
    cmpOld oldA oldB = .lt ∧ cmpOld oldB oldD = .lt ∧ cmpOld oldD oldA = .lt := by decide

/-- and a sorted table loses a key it holds: after A, B, D have been inserted, B is not found -/
theorem c09_old_table_loses_key :
    oldB ∈ build cmpOld [oldA, oldB, oldD] ∧ findSorted cmpOld oldB (build cmpOld [oldA, oldB, oldD]) = false := by decide

/-- with the repaired order the same history is fine (an instance of `c09_table_finds_what_it_holds`) -/
example : findSorted cmp oldB (build cmp [oldA, oldB, oldD]) = true := by decide

/-- the old order also called a name and an address equal when the name's bytes are the address's octets (two different
keys, one table entry: the second flow's datagrams went to the first flow's target) -/
theorem c09_old_order_conflates : cmpOld (.domain [1, 2, 3, 4] 53) (.v4 [1, 2, 3, 4] 53) = .eq := by decide

example : cmp (.domain [1, 2, 3, 4] 53) (.v4 [1, 2, 3, 4] 53) = .lt := by decide

end Octo.Addr
