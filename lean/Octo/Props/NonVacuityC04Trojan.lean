import Octo.Props.C04Trojan
/-!
# Non-vacuity of `C04Trojan.lean`
Four of the six theorems are instantiated in the file; here the other two.
-/
namespace Octo.Trojan

/-- 30 of the 71 header bytes, in two reads, to a server with another password: silent, all bytes kept -/
example :
    feedAll (serverDecode Crypto.toy [1]) ⟨.header, [], false⟩
        [(header Crypto.toy exPw 1 exAd).take 10, ((header Crypto.toy exPw 1 exAd).take 30).drop 10] =
      (⟨.header, (header Crypto.toy exPw 1 exAd).take 30, false⟩, []) :=
  c04_trojan_server_header_silent Crypto.toy Crypto.toy_lawful [1] exPw 1 exAd (by decide) 30 (by decide +kernel) _
    (by decide +kernel)

def nvDs : List Dgram := [([9, 9, 9], exTo), ([], exTo6)]
def nvWire : Bytes := encUdpAll Crypto.toy exPw exAd {} nvDs

example :
    (feedAll (serverDecode Crypto.toy exPw) ⟨.header, [], false⟩
        ([nvWire.take 80, (nvWire.drop 80).take 7, (nvWire.drop 80).drop 7] ++ [packet exAd [7]])).2 =
      nvDs.map udpEv ++ (feedAll (serverDecode Crypto.toy exPw) ⟨.udp, [], false⟩ [packet exAd [7]]).2 :=
  c04_trojan_server_udp_no_stall Crypto.toy Crypto.toy_lawful exPw exAd (by decide) ([9, 9, 9], exTo) [([], exTo6)] (by decide)
    _ [packet exAd [7]] (cut3 nvWire 80 7)

end Octo.Trojan
