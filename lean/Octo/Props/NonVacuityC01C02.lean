import Octo.Props.C01
import Octo.Props.C02
import Octo.Proofs.Toy
/-!
# Non-vacuity of C01 / C02: every theorem with hypotheses, instantiated on concrete values
(toy crypto, `Crypto.toy_lawful`), all hypotheses discharged.
-/
namespace Octo.NonVacuity.C01C02
open Octo Octo.Ss

def adDom : Addr := .domain [119, 51, 46, 111, 114, 103] 443   -- "w3.org"
def adV4 : Addr := .v4 [10, 0, 0, 1] 443
def adV6 : Addr := .v6 (List.replicate 16 (1 : UInt8)) 53

/-! ## C01 -/

-- c01_pumps, c01_target_close_delivers_all, c01_chain_answer_complete: no hypotheses (the last has an example in C01.lean)

example : Trojan.serverDecode Crypto.toy [112, 119] .header (Trojan.clientEncodeTcp Crypto.toy [112, 119] adDom {} [1, 2, 3]).1 =
    ⟨.tcp, [], .ok ⟨.connect, [1, 2, 3], some adDom⟩⟩ :=
  c01_trojan_first_read Crypto.toy Crypto.toy_lawful [112, 119] adDom (by decide) [1, 2, 3]

/-! ## C02 -/

example : Socks5.udpDecode (Socks5.udpEncode [9, 8, 7] adDom) = ⟨(), [], .ok ⟨.udp, [9, 8, 7], some adDom⟩⟩ :=
  c02_socks5_udp_roundtrip [9, 8, 7] adDom (by decide)

example : Trojan.decodePacket (Trojan.packet adV6 [1, 2, 3] ++ [4, 5]) = .ok (adV6, [1, 2, 3], [4, 5]) :=
  c02_trojan_frame_roundtrip adV6 [1, 2, 3] [4, 5] (by decide) (by decide)

example : Trojan.decodePacket (Trojan.packet adV4 [1] ++ (([(adDom, [2, 3]), (adV6, [])].map fun x => Trojan.packet x.1 x.2).flatten ++ [7])) =
    .ok (adV4, [1], ([(adDom, [2, 3]), (adV6, [])].map fun x => Trojan.packet x.1 x.2).flatten ++ [7]) :=
  c02_trojan_frames_sequence adV4 [1] [(adDom, [2, 3]), (adV6, [])] [7] (by decide) (by decide)

/-- a VMess body encoder with global padding and masked sizes -/
def vmBody : Vmess.Body :=
  { sec := .chacha20, key := [1, 2, 3], iv := [9, 9, 9, 9, 4, 5, 6, 7, 8, 9, 10, 11, 12, 13, 14, 15], size := .shake,
    sizeKey := [7, 7], sizeIv := List.replicate 16 (3 : UInt8), globalPadding := true, shakeSeed := [0, 5, 1, 2, 0, 3] }

example : (vmBody.encodeChunk Crypto.toy [7, 8, 9] (List.replicate 63 (0xAA : UInt8))).2.1 = [] :=
  c02_vmess_no_truncation Crypto.toy vmBody [7, 8, 9] (List.replicate 63 (0xAA : UInt8))
    (vmBody.encodeChunk Crypto.toy [7, 8, 9] (List.replicate 63 (0xAA : UInt8))).1
    (vmBody.encodeChunk Crypto.toy [7, 8, 9] (List.replicate 63 (0xAA : UInt8))).2.2
    (by decide +kernel)

/-! ### Shadowsocks 2022 UDP, client side: a server packet as the client receives it -/

def uctx : Ctx := ⟨.b3aes128, List.replicate 16 1, [], []⟩
/-- the server's view of the association: client session 77, server session 5, packet id 3 -/
def srvSess : SsUdp.Session := ⟨77, 5, 3, none⟩
def srvRand : SsUdp.Rand := { padding := [0, 0], now := 1000 }
/-- the reply datagram on the wire -/
def reply : Bytes := SsUdp.encode Crypto.toy uctx .server srvSess adV4 [42, 43] srvRand

/-- what the client's `decode` makes of it -/
theorem reply_decodes : SsUdp.decode Crypto.toy uctx .client 1001 reply = .ok ([42, 43], adV4, ⟨77, 5, 3, none⟩) := by
  decide +kernel

/-- the client's binding: session 77, has already accepted packet 3 of the server (window after one validate) -/
def ccSeen : SsUdp.ClientCodec := { session := ⟨77, 0, 9, none⟩, filter := (PW.Filter.new.validate 3 (2 ^ 64 - 1)).1 }
def ccFresh : SsUdp.ClientCodec := { session := ⟨77, 0, 9, none⟩ }
def ccOther : SsUdp.ClientCodec := { session := ⟨78, 0, 9, none⟩ }

example : (SsUdp.ClientCodec.decode Crypto.toy uctx ccSeen 1001 reply).1 = .ok none ∧
    (SsUdp.ClientCodec.decode Crypto.toy uctx ccSeen 1001 reply).2.session = ccSeen.session :=
  c02_refused_reply_is_dropped Crypto.toy uctx rfl ccSeen 1001 reply (by decide +kernel) [42, 43] adV4 ⟨77, 5, 3, none⟩
    reply_decodes rfl (by decide +kernel)

example : SsUdp.ClientCodec.decode Crypto.toy uctx ccOther 1001 reply = (.ok none, ccOther) :=
  c02_foreign_session_dropped Crypto.toy uctx rfl ccOther 1001 reply (by decide +kernel) [42, 43] adV4 ⟨77, 5, 3, none⟩
    reply_decodes (by decide)

example : ∃ p a s, SsUdp.decode Crypto.toy uctx .client 1001 reply = .ok (p, a, s) ∧ (([42, 43], adV4) : Bytes × Addr) = (p, a) ∧
    s.clientSessionId = ccFresh.session.clientSessionId ∧ (ccFresh.filter.validate s.packetId (2 ^ 64 - 1)).2 = true :=
  c02_delivered_was_fresh Crypto.toy uctx rfl ccFresh 1001 reply ([42, 43], adV4) (by decide +kernel)

/-! ### Shadowsocks UDP round trips -/

def lctx : Ctx := ⟨.chacha20, List.replicate 32 1, [], []⟩

example : SsUdp.decode Crypto.toy lctx .server 5 (SsUdp.encode Crypto.toy lctx .client {} adDom [1, 2, 3] { salt := List.replicate 32 7 }) =
    .ok ([1, 2, 3], adDom, {}) :=
  c02_ss_udp_legacy_roundtrip Crypto.toy Crypto.toy_lawful lctx rfl .client .server {} adDom (by decide) [1, 2, 3]
    { salt := List.replicate 32 7 } (by decide) 5

example : SsUdp.decode Crypto.toy uctx .server 1010
      (SsUdp.encode Crypto.toy uctx .client ⟨77, 0, 4, none⟩ adDom [1, 2, 3] { padding := [0, 0, 0], now := 1000 }) =
    .ok ([1, 2, 3], adDom, ⟨77, 0, 4, none⟩) :=
  c02_ss_udp_2022_aes_roundtrip Crypto.toy Crypto.toy_lawful uctx (Or.inl rfl) rfl rfl ⟨77, 0, 4, none⟩ (by decide) (by decide)
    adDom (by decide) [1, 2, 3] { padding := [0, 0, 0], now := 1000 } (by decide) 1010 (by decide) (by decide)

end Octo.NonVacuity.C01C02
