import Octo.Model.SsConfig
import Octo.Model.Vmess
import Octo.Model.Trojan
import Octo.Spec.Wire
import Octo.Proofs.Nonce
import Octo.Proofs.SsChunk
/-!
# C03 — the wire format is the published one

`Octo.Spec` is an independent transcription of SIP004 / SIP022 / VMess AEAD / Trojan as message
builders; `Octo.Ss`, `Octo.Vmess`, `Octo.Trojan` are the models of the code (tied to the Rust
byte-for-byte by the correspondence run).  The theorems state that the code's encoders produce
exactly the specification's bytes — for every key, address, payload, salt, timestamp, padding.
The receiving direction ("what the specification emits is accepted here with the same result")
then follows from the round-trip theorems of C04 applied to these equalities, and is exercised on
the real decoders with Spec-built messages by `bin/check C03`.
-/
namespace Octo

/-! ### nonce sequence -/

theorem spec_leNonce (i : Nat) : Spec.leNonce i = Nonce.le 12 i := by
  have gen : ∀ n i, (List.range n).map (fun k => u8 (i / 256 ^ k)) = Nonce.le n i := by
    intro n
    induction n with
    | zero => intro i; rfl
    | succ n ih =>
      intro i
      rw [List.range_succ_eq_map, List.map_cons, List.map_map, Nonce.le]
      congr 1
      · simp
      · rw [← ih (i / 256)]
        apply List.map_congr_left
        intro k _
        simp only [Function.comp, Nat.pow_succ]
        rw [Nat.mul_comm, Nat.div_div_eq_div_mul]
  exact gen 12 i

/-- an authenticator that has performed `c` seal/open operations -/
def Ss.Auth.At (a : Ss.Auth) (c : Nat) : Prop := a.nonce = Nat.repeat Nonce.incStep c Nonce.incInit

/-- **nonce sequence**: the c-th AEAD operation of a Shadowsocks session (c = 0, 1, …) uses the
specification's c-th nonce — the little-endian counter value c — and nothing else of the state -/
theorem c03_ss_nonce_sequence (C : Crypto) (a : Ss.Auth) (c : Nat) (h : a.At c) (pt : Bytes) :
    (a.sealB C pt).1 = C.sealB a.alg a.key (Spec.leNonce c) [] pt ∧ (a.sealB C pt).2.At (c + 1) ∧
      (a.sealB C pt).2.alg = a.alg ∧ (a.sealB C pt).2.key = a.key := by
  have hn : Nonce.incStep a.nonce = Nonce.le 12 c := by rw [h, ← Nonce.nth_nonce c]; rfl
  refine ⟨?_, ?_, rfl, rfl⟩
  · simp [Ss.Auth.sealB, hn, spec_leNonce]
  · simp only [Ss.Auth.At, Ss.Auth.sealB]; rw [h]; rfl

/-- **chunk framing**: the chunk encoder emits exactly the specification's chunk stream
`AEAD(len) ‖ AEAD(payload)` with two counter steps per chunk -/
theorem c03_ss_chunks_eq_spec (C : Crypto) (ps : List Bytes) : ∀ (a : Ss.Auth) (c : Nat), a.At c →
    (Ss.encChunks C a ps).1 = Spec.chunkStream C a.alg a.key c ps ∧ (Ss.encChunks C a ps).2.At (c + 2 * ps.length) ∧
      (Ss.encChunks C a ps).2.alg = a.alg ∧ (Ss.encChunks C a ps).2.key = a.key := by
  induction ps with
  | nil => intro a c h; exact ⟨rfl, h, rfl, rfl⟩
  | cons p ps ih =>
    intro a c h
    obtain ⟨s1, h1, k1, k2⟩ := c03_ss_nonce_sequence C a c h (be16 p.length)
    obtain ⟨s2, h2, k3, k4⟩ := c03_ss_nonce_sequence C (a.sealB C (be16 p.length)).2 (c + 1) h1 p
    obtain ⟨s3, h3, k5, k6⟩ := ih ((a.sealB C (be16 p.length)).2.sealB C p).2 (c + 2) h2
    simp only [Ss.encChunks, Ss.encChunk, Spec.chunkStream]
    refine ⟨?_, ?_, ?_, ?_⟩
    · rw [s1, s2, s3, k1, k2, k3, k4, k1, k2]
    · have : c + 2 * (p :: ps).length = c + 2 + 2 * ps.length := by simp [List.length_cons]; omega
      rw [this]; exact h3
    · rw [k5, k3, k1]
    · rw [k6, k4, k2]

/-- **sender limits**: chunk payloads never exceed 0x3FFF (SIP004) / 0xFFFF (SIP022) -/
theorem c03_ss_chunk_limit (k : Ss.Kind) (p : Bytes) :
    ∀ q ∈ Ss.splitChunks (Ss.chunkLimit k.payloadLimit) p, q.length ≤ (if k.is2022 then 0xffff else 0x3fff) :=
  Ss.chunk_limit_respected k p

/-! ### Shadowsocks 2022 request -/

def specCipher (k : Ss.Kind) : Spec.Cipher := ⟨k.alg, k.alg.keyLen, k.is2022, k.supportEih⟩

theorem ss_withEih_eq_spec (C : Crypto) (k : Ss.Kind) (key salt : Bytes) : ∀ (iks : List Bytes),
    Ss.withEih C k key salt iks = Spec.identityHeaders C (specCipher k) salt (iks ++ [key]) := by
  intro iks
  induction iks with
  | nil => rfl
  | cons a rest ih =>
    cases rest with
    | nil => simp [Ss.withEih, Spec.identityHeaders, Ss.makeEih, specCipher, Ss.identitySubkeyCtx, Spec.ascii]
    | cons b rest =>
      simp only [Ss.withEih, List.cons_append, Spec.identityHeaders]
      rw [ih]
      simp [Ss.makeEih, specCipher, Ss.identitySubkeyCtx, Spec.ascii]

theorem newAuth_at_zero (C : Crypto) (k : Ss.Kind) (key salt : Bytes) : (Ss.newAuth C k key salt).At 0 := by
  unfold Ss.newAuth Ss.Auth.At; split <;> rfl

/-- **Shadowsocks 2022 request**: the first bytes a client puts on the wire are exactly SIP022's
`salt ‖ identity headers ‖ AEAD(type 0 ‖ time ‖ length) ‖ AEAD(target ‖ padding length ‖ padding ‖
initial payload) ‖ chunks`, under the BLAKE3-derived session subkey, nonces 0, 1, 2, … -/
theorem c03_ss2022_request (C : Crypto) (ctx : Ss.Ctx) (hk : ctx.kind.is2022 = true) (cs : Ss.Sess)
    (hm : cs.mode = .client) (hu : cs.user = none) (ad : Addr) (ha : cs.address = some ad) (hr : cs.requestSalt = none)
    (item : Bytes) (r : Ss.EncRand) :
    (Ss.encode C ctx cs {} item r).1 =
      Spec.stream2022 C (specCipher ctx.kind) (ctx.identityKeys ++ [ctx.key]) ctx.kind.supportEih cs.salt
        (Spec.requestFixed 0 r.now (min (Spec.requestVar (Socks5Addr.encode ad) r.padding item).length 0xffff))
        ((Spec.requestVar (Socks5Addr.encode ad) r.padding item).take (min (Spec.requestVar (Socks5Addr.encode ad) r.padding item).length 0xffff))
        (Ss.splitChunks (Ss.chunkLimit ctx.kind.payloadLimit)
          ((Spec.requestVar (Socks5Addr.encode ad) r.padding item).drop (min (Spec.requestVar (Socks5Addr.encode ad) r.padding item).length 0xffff))) := by
  have h0 := newAuth_at_zero C ctx.kind ctx.key cs.salt
  -- abbreviations
  generalize hvar : Socks5Addr.encode ad ++ be16 r.padding.length ++ r.padding ++ item = var
  -- the three groups of AEAD operations: fixed header (0), variable header (1), chunks (2…)
  obtain ⟨s1, a1, k1, k2⟩ := c03_ss_nonce_sequence C (Ss.newAuth C ctx.kind ctx.key cs.salt) 0 h0
    ([(0 : UInt8)] ++ be64 r.now ++ be16 (min var.length 0xffff))
  obtain ⟨s2, a2, k3, k4⟩ := c03_ss_nonce_sequence C _ 1 a1 (var.take (min var.length 0xffff))
  obtain ⟨s3, _, k5, k6⟩ := c03_ss_chunks_eq_spec C (Ss.splitChunks (Ss.chunkLimit ctx.kind.payloadLimit)
      (var.drop (min var.length 0xffff))) _ 2 a2
  have hkey : (Ss.newAuth C ctx.kind ctx.key cs.salt).key = Spec.sessionSubkey C (specCipher ctx.kind) ctx.key cs.salt := by
    simp [Ss.newAuth, hk, Ss.Auth.new, Spec.sessionSubkey, specCipher, Ss.sessionSubkeyCtx, Spec.ascii]
  have halg : (Ss.newAuth C ctx.kind ctx.key cs.salt).alg = ctx.kind.alg := by simp [Ss.newAuth, hk, Ss.Auth.new]
  simp only [Ss.encode, hk, hm, hu, ha, hr, Ss.newHeader, Ss.encPayload, Spec.stream2022, Spec.requestVar, Spec.requestFixed,
    Ss.Mode.toU8, Option.getD, List.append_nil, if_true, true_and, hvar]
  rw [s1, s2, s3, k1, k2, k3, k4, k1, k2, hkey, halg]
  simp [ss_withEih_eq_spec, specCipher, List.append_assoc, u8]

/-! ### password → key -/

/-- legacy key derivation is OpenSSL's `EVP_BytesToKey` (MD5) for both key sizes in use -/
theorem c03_ss_evp_key (C : Crypto) (hC : C.Lawful) (n : Nat) (hn : n = 16 ∨ n = 32) (pw : Bytes) :
    Ss.opensslBytesToKey C n pw = Spec.evpBytesToKey C n pw := by
  have l1 := hC.md5_len pw
  rcases hn with rfl | rfl
  · simp [Ss.opensslBytesToKey, Spec.evpBytesToKey, Spec.evpBytesToKey.go, l1]
  · have l2 := hC.md5_len (C.md5 pw ++ pw)
    simp [Ss.opensslBytesToKey, Spec.evpBytesToKey, Spec.evpBytesToKey.go, l1, l2]

/-! ### VMess -/

theorem vmess_hmac_eq (h : Bytes → Bytes) (k m : Bytes) : Vmess.hmacOver h k m = Spec.hmacH h k m := rfl

theorem vmess_kdfHash_fold (C : Crypto) (ps : List Bytes) : ∀ q : List Bytes,
    ps.foldl (fun h p => Spec.hmacH h p) (Vmess.kdfHash C q) = Vmess.kdfHash C (ps.reverse ++ q) := by
  induction ps with
  | nil => intro q; rfl
  | cons p ps ih =>
    intro q
    simp only [List.foldl_cons, List.reverse_cons, List.append_assoc, List.singleton_append]
    exact ih (p :: q)

theorem vmess_kdfHash_eq (C : Crypto) (path : List Bytes) :
    Vmess.kdfHash C path.reverse = path.foldl (fun h p => Spec.hmacH h p) (Spec.hmacH C.sha256 (Spec.ascii "VMess AEAD KDF")) := by
  have := vmess_kdfHash_fold C path []
  simp only [List.append_nil] at this
  rw [← this]; rfl

/-- **VMess KDF**: the nested-HMAC key derivation is V2Ray's `KDF(key, path…)` -/
theorem c03_vmess_kdf (C : Crypto) (key : Bytes) (path : List Bytes) : Vmess.kdf C key path = Spec.vmessKdf C key path := by
  simp [Vmess.kdf, Spec.vmessKdf, vmess_kdfHash_eq]

theorem vmess_kdfn_take (C : Crypto) (n : Nat) (hn : n ≤ 32) (key : Bytes) (path : List Bytes)
    (hlen : (Vmess.kdf C key path).length = 32) :
    Vmess.kdfn C n key path = (Spec.vmessKdf C key path).take n := by
  simp only [Vmess.kdfn, c03_vmess_kdf] at *
  have : ((Spec.vmessKdf C key path).take n).length = n := by simp [List.length_take, hlen]; omega
  simp [this, zeros]

theorem vmess_hmac_len (h : Bytes → Bytes) (hl : ∀ m, (h m).length = 32) (k m : Bytes) : (Vmess.hmacOver h k m).length = 32 := by
  simp [Vmess.hmacOver, hl]

theorem vmess_kdfHash_len (C : Crypto) (hC : C.Lawful) (q : List Bytes) : ∀ m, (Vmess.kdfHash C q m).length = 32 := by
  induction q with
  | nil => intro m; exact vmess_hmac_len _ hC.sha256_len _ _
  | cons p ps ih => intro m; exact vmess_hmac_len _ ih _ _

theorem vmess_kdf_len (C : Crypto) (hC : C.Lawful) (key : Bytes) (path : List Bytes) : (Vmess.kdf C key path).length = 32 :=
  vmess_kdfHash_len C hC _ _

theorem vmess_kdf16 (C : Crypto) (hC : C.Lawful) (key : Bytes) (path : List Bytes) :
    Vmess.kdf16 C key path = (Spec.vmessKdf C key path).take 16 :=
  vmess_kdfn_take C 16 (by omega) key path (vmess_kdf_len C hC key path)

theorem vmess_kdf12 (C : Crypto) (hC : C.Lawful) (key : Bytes) (path : List Bytes) :
    Vmess.kdfn C 12 key path = (Spec.vmessKdf C key path).take 12 :=
  vmess_kdfn_take C 12 (by omega) key path (vmess_kdf_len C hC key path)

/-- **VMess auth id** (EAuID) is the specification's: AES-128 under KDF16(cmdKey,"AES Auth ID
Encryption") of time ‖ rand ‖ crc32 -/
theorem c03_vmess_auth_id (C : Crypto) (hC : C.Lawful) (key : Bytes) (time : Nat) (rand : Bytes) :
    Vmess.authIdCreate C key time rand = Spec.vmessAuthId C key time rand := by
  simp [Vmess.authIdCreate, Spec.vmessAuthId, vmess_kdf16 C hC, Vmess.saltAuthId, Vmess.str, Spec.ascii]

/-- **VMess sealed request header** is the specification's EAuID ‖ AEAD(len) ‖ nonce ‖ AEAD(header)
with the four keys/IVs derived over (label, EAuID, nonce) -/
theorem c03_vmess_sealed_header (C : Crypto) (hC : C.Lawful) (key hdr authId nonce : Bytes) :
    Vmess.sealHeader C key hdr authId nonce = Spec.vmessSealedHeader C key authId nonce hdr := by
  simp [Vmess.sealHeader, Spec.vmessSealedHeader, vmess_kdf16 C hC, vmess_kdf12 C hC, Vmess.saltLengthKey,
    Vmess.saltLengthIv, Vmess.saltPayloadKey, Vmess.saltPayloadIv, Vmess.str, Spec.ascii]

/-- **VMess instruction** plaintext: field order, option byte, padding nibble, FNV1a trailer -/
theorem c03_vmess_instruction (C : Crypto) (s : Vmess.Session) (mask : Nat) (sec : Vmess.Security) (cmd : Vmess.Cmd)
    (ab pad : Bytes) :
    Vmess.requestHeader C s mask sec cmd ab pad =
      Spec.vmessInstruction C s.reqIv s.reqKey s.respHeader.toNat mask (pad.length * 16 + sec.toByte) cmd.toByte ab pad := by
  have : u8 s.respHeader.toNat = s.respHeader := by
    apply UInt8.toNat_inj.mp; simp [u8]
  simp [Vmess.requestHeader, Spec.vmessInstruction, this, List.append_assoc]

/-- **VMess response header** -/
theorem c03_vmess_response_header (C : Crypto) (hC : C.Lawful) (sv : Vmess.Server) (r : Vmess.ServerReady)
    (hr : sv.ready = some r) (he : r.enc = none) (hc : r.cmd = .tcp) (item : Bytes) (pads : List Bytes) :
    ∃ body, (Vmess.Server.encode C sv item pads).1 =
      .ok (Spec.vmessResponseHeader C (r.session.respKey C) (r.session.respIv C) [r.session.respHeader, u8 r.mask, 0, 0] ++ body) := by
  refine ⟨(Vmess.Body.encodePayloadP C (item.length + 1)
      (Vmess.Body.new C r.mask r.sec (r.session.respKey C) (r.session.respIv C) r.session) item pads).1, ?_⟩
  simp only [Vmess.Server.encode, hr, he, hc, Spec.vmessResponseHeader, vmess_kdf16 C hC, vmess_kdf12 C hC,
    Vmess.saltRespLenKey, Vmess.saltRespLenIv, Vmess.saltRespKey, Vmess.saltRespIv, Vmess.str, Spec.ascii]
  rfl

/-- **Trojan request**: `hex(SHA224(password)) CRLF CMD ATYP ADDR PORT CRLF payload` -/
theorem c03_trojan_request (C : Crypto) (pw : Bytes) (addr : Addr) (payload : Bytes) :
    (Trojan.clientEncodeTcp C pw addr {} payload).1 = Spec.trojanRequest C pw 1 (Socks5Addr.encode addr) payload := by
  simp [Trojan.clientEncodeTcp, Trojan.header, Trojan.keyHex, Trojan.crlf, Spec.trojanRequest, Spec.ascii, u8]

theorem c03_trojan_udp_frame (addr : Addr) (payload : Bytes) (h : payload.length < 65536) :
    Trojan.packet addr payload = Spec.trojanUdpFrame (Socks5Addr.encode addr) payload := by
  simp [Trojan.packet, Trojan.crlf, Spec.trojanUdpFrame, Nat.mod_eq_of_lt h]

/-- the model's address encoding is the specification's ATYP ‖ address ‖ port -/
theorem c03_target_bytes (a : Addr) :
    Socks5Addr.encode a = (match a with
      | .domain h p => Spec.Target.bytes (.name h p)
      | .v4 ip p => Spec.Target.bytes (.ip4 ip p)
      | .v6 ip p => Spec.Target.bytes (.ip6 ip p)) := by
  cases a <;> rfl

end Octo
