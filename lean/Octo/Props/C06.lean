import Octo.Model.Ss
import Octo.Model.Vmess
import Octo.Model.Trojan
import Octo.Proofs.Bytes
/-!
# C06 — no relaying without the configured credential; users stay separated

Decision logic stated outright: whenever a server-side decoder hands out a target (the only thing
that makes the relay dial or forward), the bytes it was given carry a proof of the credential — the
exact hex digest (Trojan), an auth id that decrypts under a *registered* user key with a valid
checksum and a sealed header that opens under that same key (VMess), AEAD blocks that open under
the session key derived from the PSK — or, with identity headers, from the key of the *registered
user the identity header names* (Shadowsocks).  Together with integrity of ciphertexts (C05's
`NoForgery`) nobody without the credential can produce such bytes.
-/
namespace Octo

/-- **Trojan**: a target is released only for the exact 56-character hex SHA-224 of the password -/
theorem c06_trojan (C : Crypto) (pw : Bytes) (b : Bytes) (st' : Trojan.SrvSt) (buf' : Bytes) (i : Item)
    (h : Trojan.serverDecode C pw .header b = ⟨st', buf', .ok i⟩) :
    b.take 56 = Trojan.keyHex C pw := by
  unfold Trojan.serverDecode at h
  split at h
  · cases h
  · simp only [] at h
    split at h
    · cases h
    · split at h
      · split at h
        · cases h
        · split at h
          · cases h
          · split at h
            · cases h
            · rename_i hk
              exact Classical.not_not.mp hk
      · cases h
      · cases h

/-- **VMess**: the first item is released only if the auth id matched a *registered* key (valid
checksum, inside the time window) and the sealed header opened under that very key -/
theorem c06_vmess (C : Crypto) (u : Bytes → Bool) (now : Nat) (sv : Vmess.Server) (hr : sv.ready = none)
    (b : Bytes) (sv' : Vmess.Server) (buf' : Bytes) (i : Item)
    (h : Vmess.Server.decode C u now sv b = ⟨sv', buf', .ok i⟩) :
    ∃ key ∈ sv.keys, Vmess.authIdMatch C (b.take 16) sv.keys now = some key ∧
      ∃ hdr n, Vmess.openHeader C key b = .ok (hdr, n) := by
  unfold Vmess.Server.decode at h
  simp only [hr] at h
  split at h
  · cases h
  · split at h
    · cases h
    · rename_i key hkey
      refine ⟨key, List.mem_of_find?_eq_some (by unfold Vmess.authIdMatch at hkey; exact hkey), hkey, ?_⟩
      split at h
      · cases h
      · rename_i hdr n ho
        exact ⟨hdr, n, ho⟩
      · cases h
      · cases h

/-- the key that opens a request is the PSK, or the key of a registered user named by the identity header -/
theorem c06_init2022Key (C : Crypto) (ctx : Ss.Ctx) (s : Ss.Sess) (req : Bool) (salt header key : Bytes) (user : Option Ss.User)
    (h : Ss.init2022Key C ctx s req salt header = some (key, user)) :
    if req then
      ∃ usr ∈ ctx.users, usr.key = key ∧ user = some usr ∧
        usr.hash = C.aesDec ((C.blake3Derive Ss.identitySubkeyCtx (ctx.key ++ salt)).take ctx.kind.alg.keyLen) (header.take 16)
    else key = ctx.key := by
  unfold Ss.init2022Key at h
  cases req with
  | false => simp at h ⊢; exact h.1.symm
  | true =>
    simp only [if_true] at h ⊢
    split at h
    · rename_i usr hfind
      simp only [Option.some.injEq, Prod.mk.injEq] at h
      refine ⟨usr, List.mem_of_find?_eq_some hfind, h.1, h.2.symm, ?_⟩
      have := List.find?_some hfind
      simpa using this
    · cases h

/-- **Shadowsocks 2022**: a request is accepted only if its fixed header opened (first nonce) under
the session key derived, with the request's salt, from the key `init2022Key` selected: the server
PSK, or — when identity headers are required — the key of the *registered* user named by the
identity header (`c06_init2022Key`) -/
theorem c06_ss2022 (C : Crypto) (ctx : Ss.Ctx) (env : Ss.DecEnv) (d : Ss.Dec) (b : Bytes)
    (d' : Ss.Dec) (k : Nat) (o : List Ss.Ev) (h : Ss.init2022 C ctx env d b = .take d' k o) :
    let n := ctx.kind.n
    let eihLen := if Ss.requireEih ctx d.sess then 16 else 0
    let headerLen := eihLen + 1 + 8 + (if d.sess.mode = .server then 0 else n) + 2 + 16
    let salt := b.take n
    let header := (b.drop n).take headerLen
    ∃ key user pt, Ss.init2022Key C ctx { d.sess with requestSalt := some salt } (Ss.requireEih ctx d.sess) salt header = some (key, user) ∧
      C.openB ctx.kind.alg (Ss.newAuth C ctx.kind key salt).key (Nonce.incStep Nonce.incInit) [] (header.drop eihLen) = some pt := by
  unfold Ss.init2022 at h
  simp only [] at h
  by_cases h1 : b.length < ctx.kind.n
  · rw [if_pos h1] at h; cases h
  rw [if_neg h1] at h
  by_cases h2 : b.length < ctx.kind.n + ((if Ss.requireEih ctx d.sess then 16 else 0) + 1 + 8 + (if d.sess.mode = .server then 0 else ctx.kind.n) + 2 + 16)
  · rw [if_pos h2] at h; cases h
  rw [if_neg h2] at h
  by_cases h3 : env.saltSeen (b.take ctx.kind.n) = true
  · rw [if_pos h3] at h; cases h
  rw [if_neg h3] at h
  cases hku : Ss.init2022Key C ctx { d.sess with requestSalt := some (b.take ctx.kind.n) } (Ss.requireEih ctx d.sess) (b.take ctx.kind.n)
      ((b.drop ctx.kind.n).take ((if Ss.requireEih ctx d.sess then 16 else 0) + 1 + 8 + (if d.sess.mode = .server then 0 else ctx.kind.n) + 2 + 16)) with
  | none => rw [hku] at h; cases h
  | some ku =>
    obtain ⟨key, user⟩ := ku
    rw [hku] at h
    simp only [] at h
    have halg : (Ss.newAuth C ctx.kind key (b.take ctx.kind.n)).alg = ctx.kind.alg := by unfold Ss.newAuth; split <;> rfl
    have hnonce : (Ss.newAuth C ctx.kind key (b.take ctx.kind.n)).nonce = Nonce.incInit := by unfold Ss.newAuth; split <;> rfl
    split at h
    · cases h
    · rename_i pt a' hopen
      refine ⟨key, user, pt, hku, ?_⟩
      have := congrArg Prod.fst hopen
      simpa [Ss.Auth.openB, halg, hnonce] using this

/-- **user separation**: with identity headers the user recorded for the connection is the one the
identity header named, and the response encoder of that connection uses *that user's* key -/
theorem c06_response_uses_request_user (C : Crypto) (ctx : Ss.Ctx) (hk : ctx.kind.is2022 = true) (s : Ss.Sess) (u : Ss.User)
    (hu : s.user = some u) (hm : s.mode = .server) (item : Bytes) (r : Ss.EncRand) :
    (Ss.encode C ctx s {} item r).1 = s.salt ++
      ((Ss.newHeader C (Ss.newAuth C ctx.kind u.key s.salt) item s.mode s.requestSalt r.now).1 ++
       (Ss.encPayload C (Ss.newHeader C (Ss.newAuth C ctx.kind u.key s.salt) item s.mode s.requestSalt r.now).2.2 ctx.kind.payloadLimit
          (Ss.newHeader C (Ss.newAuth C ctx.kind u.key s.salt) item s.mode s.requestSalt r.now).2.1).1) := by
  simp [Ss.encode, hk, hu, hm, List.append_assoc]

end Octo
