import Octo.Proofs.SsUdpOpened
import Octo.Props.C12
import Octo.Props.C02Udp
/-!
# C12 — UDP packet ids, stated over the model of the client's datagram codec

`c12_udp_ids_strictly_increase` / `c12_udp_no_wrap` in `C12.lean` speak about a function defined in that
file.  Here the same facts (and what follows from them over a whole history of encodes) about
`SsUdp.ClientCodec.encode`, the model of `DatagramPacketCodec::encode` that the differential harness ties
to the Rust.

* one encode: `c12_udp_client_ids_strictly_increase`, `c12_udp_client_ends_rather_than_wrap`,
  `c12_udp_client_id_on_the_wire` (the server reads the new id out of the datagram);
* a history: `history` collects, for a list of (address, payload, randomness) items fed one after the other
  to the codec, the (packet id, datagram) of every successful encode:
  `c12_udp_client_history_ids_increase`, `c12_udp_client_history_ids_distinct`,
  `c12_udp_client_history_wire`, `c12_udp_client_stays_ended`;
* nonces: `c12_udp_client_history_aes_nonces_distinct` — for the AES kinds the AEAD nonce of a datagram is
  bytes 4..16 of (session id ‖ packet id) (`c12_udp_client_aes_nonce_on_the_wire` shows that this is the nonce
  the model seals under); any two datagrams of one history are sealed under different nonces.
  (XChaCha kinds draw the 24-byte nonce at random: `Rand.nonce` is an input of the model, so "fresh" is
  a property of the generator — C12's `NonceGen` theorems — not of this codec.)
-/
namespace Octo.SsUdp
open Octo.Ss

/-! ### one encode -/

/-- **a successful encode steps the packet id by exactly one**, leaves everything else of the codec
alone, the new id fits its 8 bytes, and the datagram is the encoding under the *new* id -/
theorem c12_udp_client_ids_strictly_increase (C : Crypto) (ctx : Ctx) (cc cc' : ClientCodec) (addr : Addr) (item : Bytes)
    (r : Rand) (w : Bytes) (h : ClientCodec.encode C ctx cc addr item r = (.ok w, cc')) :
    cc'.session.packetId = cc.session.packetId + 1 ∧ cc'.session.packetId < 2 ^ 64 ∧
    cc'.session.clientSessionId = cc.session.clientSessionId ∧
    cc'.session.serverSessionId = cc.session.serverSessionId ∧ cc'.session.user = cc.session.user ∧
    cc'.filter = cc.filter ∧
    w = encode C ctx .client cc'.session addr item r := by
  unfold ClientCodec.encode at h
  split at h
  · simp only [Prod.mk.injEq, reduceCtorEq, false_and] at h
  · rename_i hlt
    simp only [Prod.mk.injEq, Res.ok.injEq] at h
    obtain ⟨hw, hc⟩ := h
    subst hc
    exact ⟨rfl, by simp only; omega, rfl, rfl, rfl, rfl, hw.symm⟩

/-- an encode succeeds exactly when there is a next id -/
theorem c12_udp_client_encode_ok_iff (C : Crypto) (ctx : Ctx) (cc : ClientCodec) (addr : Addr) (item : Bytes) (r : Rand) :
    (∃ w cc', ClientCodec.encode C ctx cc addr item r = (.ok w, cc')) ↔ cc.session.packetId + 1 < 2 ^ 64 := by
  unfold ClientCodec.encode
  constructor
  · rintro ⟨w, cc', h⟩
    split at h
    · simp only [Prod.mk.injEq, reduceCtorEq, false_and] at h
    · omega
  · intro h
    rw [if_neg (by omega)]
    exact ⟨_, _, rfl⟩

/-- **the session ends rather than wrap**: with the last id used the codec answers an error, for every
item, and its state is unchanged (so every later encode is refused as well) -/
theorem c12_udp_client_ends_rather_than_wrap (C : Crypto) (ctx : Ctx) (cc : ClientCodec) (addr : Addr) (item : Bytes)
    (r : Rand) (h : cc.session.packetId = 2 ^ 64 - 1) : ClientCodec.encode C ctx cc addr item r = (.err, cc) := by
  unfold ClientCodec.encode
  rw [if_pos (by omega)]

/-- the same for any id at or beyond the last one (ids beyond it do not arise: `history_bound`) -/
theorem c12_udp_client_ends_rather_than_wrap' (C : Crypto) (ctx : Ctx) (cc : ClientCodec) (addr : Addr) (item : Bytes)
    (r : Rand) (h : 2 ^ 64 ≤ cc.session.packetId + 1) : ClientCodec.encode C ctx cc addr item r = (.err, cc) := by
  unfold ClientCodec.encode
  rw [if_pos (by omega)]

/-- the only outcomes: a datagram, or that error -/
theorem c12_udp_client_encode_cases (C : Crypto) (ctx : Ctx) (cc : ClientCodec) (addr : Addr) (item : Bytes) (r : Rand) :
    (∃ w cc', ClientCodec.encode C ctx cc addr item r = (.ok w, cc')) ∨
      ClientCodec.encode C ctx cc addr item r = (.err, cc) := by
  unfold ClientCodec.encode
  split
  · exact Or.inr rfl
  · exact Or.inl ⟨_, _, rfl⟩

/-- **the datagram carries the new id**: a server configured for this client (`Paired`, every arm)
opens it to exactly the client's session id and the stepped packet id -/
theorem c12_udp_client_id_on_the_wire (C : Crypto) (hC : C.Lawful) (ctx sc : Ctx) (owner : Option User)
    (hp : Paired C ctx sc owner) (cc cc' : ClientCodec) (hsid : cc.session.clientSessionId < 2 ^ 64)
    (addr : Addr) (item : Bytes) (r : Rand) (hn : NonceOk sc.kind r) (w : Bytes)
    (h : ClientCodec.encode C ctx cc addr item r = (.ok w, cc')) :
    opened C sc .server w =
      some (cc.session.clientSessionId, cc.session.packetId + 1, requestBody addr item r, owner) := by
  obtain ⟨h1, h2, h3, _, _, _, hw⟩ := c12_udp_client_ids_strictly_increase C ctx cc cc' addr item r w h
  rw [hw, opened_request_paired C hC ctx sc owner hp cc'.session (by rw [h3]; exact hsid) h2 addr item r hn, h3, h1]

/-- and, the item being deliverable, the server's decoder reports that id for the datagram -/
theorem c12_udp_client_id_decoded (C : Crypto) (hC : C.Lawful) (ctx sc : Ctx) (owner : Option User)
    (hp : Paired C ctx sc owner) (cc cc' : ClientCodec) (hsid : cc.session.clientSessionId < 2 ^ 64)
    (addr : Addr) (ha : addr.Accepted) (item : Bytes) (r : Rand) (now : Nat) (hr : RandOk r now)
    (hn : NonceOk sc.kind r) (w : Bytes)
    (h : ClientCodec.encode C ctx cc addr item r = (.ok w, cc')) :
    decode C sc .server now w = .ok (item, addr, ⟨cc.session.clientSessionId, 0, cc.session.packetId + 1, owner⟩) := by
  obtain ⟨h1, h2, h3, _, _, _, hw⟩ := c12_udp_client_ids_strictly_increase C ctx cc cc' addr item r w h
  rw [hw, request_paired C hC ctx sc owner hp cc'.session (by rw [h3]; exact hsid) h2 addr ha item r now hr hn, h3, h1]

/-! ### a whole history of encodes -/

/-- one thing to send: target, payload, and what the implementation draws for it -/
abbrev Item := Addr × Bytes × Rand

/-- feed the items one after the other to the codec; for every successful encode the packet id it used and
the datagram, in order; and the codec at the end -/
def history (C : Crypto) (ctx : Ctx) : ClientCodec → List Item → List (Nat × Bytes) × ClientCodec
  | cc, [] => ([], cc)
  | cc, (addr, item, r) :: rest =>
    match ClientCodec.encode C ctx cc addr item r with
    | (.ok w, cc') => ((cc'.session.packetId, w) :: (history C ctx cc' rest).1, (history C ctx cc' rest).2)
    | (_, cc') => history C ctx cc' rest

/-- the outcomes of the same run, one per item (`none` = refused) -/
def outcomes (C : Crypto) (ctx : Ctx) : ClientCodec → List Item → List (Option Bytes)
  | _, [] => []
  | cc, (addr, item, r) :: rest =>
    match ClientCodec.encode C ctx cc addr item r with
    | (.ok w, cc') => some w :: outcomes C ctx cc' rest
    | (_, cc') => none :: outcomes C ctx cc' rest

theorem history_cons_ok (C : Crypto) (ctx : Ctx) (cc cc' : ClientCodec) (addr : Addr) (item : Bytes) (r : Rand)
    (rest : List Item) (w : Bytes) (h : ClientCodec.encode C ctx cc addr item r = (.ok w, cc')) :
    history C ctx cc ((addr, item, r) :: rest) =
      ((cc'.session.packetId, w) :: (history C ctx cc' rest).1, (history C ctx cc' rest).2) := by
  rw [history, h]

theorem history_cons_err (C : Crypto) (ctx : Ctx) (cc : ClientCodec) (addr : Addr) (item : Bytes) (r : Rand)
    (rest : List Item) (h : ClientCodec.encode C ctx cc addr item r = (.err, cc)) :
    history C ctx cc ((addr, item, r) :: rest) = history C ctx cc rest := by
  rw [history, h]

/-- every id of a history lies strictly above the id the codec started with, and fits 8 bytes; every
datagram is the encoding of one of the items under the codec's session with that id -/
theorem history_bound (C : Crypto) (ctx : Ctx) (items : List Item) : ∀ (cc : ClientCodec),
    ∀ e ∈ (history C ctx cc items).1, cc.session.packetId < e.1 ∧ e.1 < 2 ^ 64 ∧
      ∃ it ∈ items, e.2 = encode C ctx .client { cc.session with packetId := e.1 } it.1 it.2.1 it.2.2 := by
  induction items with
  | nil => intro cc e he; simp [history] at he
  | cons it rest ih =>
    intro cc e he
    obtain ⟨addr, item, r⟩ := it
    rcases c12_udp_client_encode_cases C ctx cc addr item r with ⟨w, cc', hok⟩ | herr
    · obtain ⟨h1, h2, h3, h4, h5, _, hw⟩ := c12_udp_client_ids_strictly_increase C ctx cc cc' addr item r w hok
      rw [history_cons_ok C ctx cc cc' addr item r rest w hok] at he
      rcases List.mem_cons.mp he with rfl | he'
      · refine ⟨by simp only; omega, h2, (addr, item, r), List.mem_cons_self, ?_⟩
        simp only [hw]
        congr 1
        cases hs : cc'.session
        simp only [hs] at h3 h4 h5
        simp [h3, h4, h5]
      · obtain ⟨a, b, it, hit, e2⟩ := ih cc' e he'
        refine ⟨by omega, b, it, List.mem_cons_of_mem _ hit, ?_⟩
        rw [e2]
        congr 1
        cases hs : cc'.session
        simp only [hs] at h3 h4 h5
        simp [h3, h4, h5]
    · rw [history_cons_err C ctx cc addr item r rest herr] at he
      obtain ⟨a, b, it, hit, e2⟩ := ih cc e he
      exact ⟨a, b, it, List.mem_cons_of_mem _ hit, e2⟩

/-- **over a whole history the ids of the datagrams sent are strictly increasing** -/
theorem c12_udp_client_history_ids_increase (C : Crypto) (ctx : Ctx) (items : List Item) : ∀ (cc : ClientCodec),
    ((history C ctx cc items).1.map Prod.fst).Pairwise (· < ·) := by
  induction items with
  | nil => intro cc; simp [history]
  | cons it rest ih =>
    intro cc
    obtain ⟨addr, item, r⟩ := it
    rcases c12_udp_client_encode_cases C ctx cc addr item r with ⟨w, cc', hok⟩ | herr
    · rw [history_cons_ok C ctx cc cc' addr item r rest w hok]
      simp only [List.map_cons, List.pairwise_cons]
      refine ⟨?_, ih cc'⟩
      intro x hx
      obtain ⟨e, he, rfl⟩ := List.mem_map.mp hx
      exact (history_bound C ctx rest cc' e he).1
    · rw [history_cons_err C ctx cc addr item r rest herr]
      exact ih cc

/-- **hence pairwise distinct**: no packet id is used for two datagrams of one session -/
theorem c12_udp_client_history_ids_distinct (C : Crypto) (ctx : Ctx) (items : List Item) (cc : ClientCodec) :
    ((history C ctx cc items).1.map Prod.fst).Nodup :=
  (c12_udp_client_history_ids_increase C ctx items cc).imp (fun h => Nat.ne_of_lt h)

/-- positions: an earlier datagram has the smaller id -/
theorem c12_udp_client_history_ids_increase_at (C : Crypto) (ctx : Ctx) (items : List Item) (cc : ClientCodec)
    (i j : Nat) (hij : i < j) (hj : j < (history C ctx cc items).1.length) :
    ((history C ctx cc items).1[i]'(by omega)).1 < ((history C ctx cc items).1[j]'hj).1 := by
  have h := c12_udp_client_history_ids_increase C ctx items cc
  rw [List.pairwise_iff_getElem] at h
  have := h i j (by simp only [List.length_map]; omega) (by simpa using hj) hij
  simpa using this

/-- what the entries of a history are: all above the starting id, below 2^64, and each datagram is the
encoding of one of the items under the session with that id -/
theorem c12_udp_client_history_wire (C : Crypto) (ctx : Ctx) (items : List Item) (cc : ClientCodec) :
    ∀ e ∈ (history C ctx cc items).1, cc.session.packetId < e.1 ∧ e.1 < 2 ^ 64 ∧
      ∃ it ∈ items, e.2 = encode C ctx .client { cc.session with packetId := e.1 } it.1 it.2.1 it.2.2 :=
  history_bound C ctx items cc

/-- the first datagram of a history uses the id right after the starting one, and each next one the id
right after its predecessor's: ids are consecutive, none is skipped -/
theorem c12_udp_client_history_ids_consecutive (C : Crypto) (ctx : Ctx) (items : List Item) : ∀ (cc : ClientCodec),
    (history C ctx cc items).1.map Prod.fst =
      (List.range (history C ctx cc items).1.length).map (fun i => cc.session.packetId + 1 + i) := by
  induction items with
  | nil => intro cc; simp [history]
  | cons it rest ih =>
    intro cc
    obtain ⟨addr, item, r⟩ := it
    rcases c12_udp_client_encode_cases C ctx cc addr item r with ⟨w, cc', hok⟩ | herr
    · obtain ⟨h1, _⟩ := c12_udp_client_ids_strictly_increase C ctx cc cc' addr item r w hok
      rw [history_cons_ok C ctx cc cc' addr item r rest w hok]
      simp only [List.map_cons, List.length_cons, List.range_succ_eq_map, List.map_map, Nat.add_zero]
      rw [ih cc', h1]
      congr 1
      apply List.map_congr_left
      intro i _
      simp only [Function.comp]
      omega
    · rw [history_cons_err C ctx cc addr item r rest herr]
      exact ih cc

/-- **an ended session stays ended**: once the last id is used, every later item is refused and no
datagram is produced, whatever is asked -/
theorem c12_udp_client_stays_ended (C : Crypto) (ctx : Ctx) (items : List Item) (cc : ClientCodec)
    (h : cc.session.packetId = 2 ^ 64 - 1) :
    history C ctx cc items = ([], cc) ∧ outcomes C ctx cc items = items.map (fun _ => none) := by
  induction items with
  | nil => exact ⟨rfl, rfl⟩
  | cons it rest ih =>
    obtain ⟨addr, item, r⟩ := it
    have herr := c12_udp_client_ends_rather_than_wrap C ctx cc addr item r h
    refine ⟨by rw [history_cons_err C ctx cc addr item r rest herr]; exact ih.1, ?_⟩
    rw [outcomes, herr]
    simp only [List.map_cons, ih.2]

/-- a history of `n` items from id `p` succeeds throughout when `p + n < 2^64`, and its ids are
`p+1 … p+n`; from the last id on it produces nothing: together, a session sends at most `2^64 - 1 - p`
datagrams -/
theorem c12_udp_client_history_length (C : Crypto) (ctx : Ctx) (items : List Item) : ∀ (cc : ClientCodec),
    (history C ctx cc items).1.length = min items.length (2 ^ 64 - 1 - cc.session.packetId) := by
  induction items with
  | nil => intro cc; simp [history]
  | cons it rest ih =>
    intro cc
    obtain ⟨addr, item, r⟩ := it
    rcases c12_udp_client_encode_cases C ctx cc addr item r with ⟨w, cc', hok⟩ | herr
    · obtain ⟨h1, h2, _⟩ := c12_udp_client_ids_strictly_increase C ctx cc cc' addr item r w hok
      rw [history_cons_ok C ctx cc cc' addr item r rest w hok]
      simp only [List.length_cons, ih cc', h1]
      omega
    · have hlt : ¬ cc.session.packetId + 1 < 2 ^ 64 := by
        intro hlt
        obtain ⟨w, cc', hok⟩ := (c12_udp_client_encode_ok_iff C ctx cc addr item r).mpr hlt
        rw [hok] at herr
        simp only [Prod.mk.injEq, reduceCtorEq, false_and] at herr
      rw [history_cons_err C ctx cc addr item r rest herr, ih cc]
      simp only [List.length_cons]
      omega

/-! ### nonces of the AES kinds -/

/-- the AEAD nonce of a datagram of the AES kinds: bytes 4..16 of (session id ‖ packet id) -/
def aesNonce (sid pid : Nat) : Bytes := (be64 sid ++ be64 pid).drop 4

/-- the key of the separate header block of a request: the first identity key if there is one -/
def headerKey (ctx : Ctx) : Bytes :=
  match ctx.identityKeys with
  | [] => ctx.key
  | ik :: _ => ik

/-- **this is the nonce the model seals under** (AES kinds, any identity keys): header block ‖ identity
headers ‖ AEAD(session sub-key, `aesNonce sid pid`, body) -/
theorem c12_udp_client_aes_nonce_on_the_wire (C : Crypto) (ctx : Ctx) (hk : ctx.kind.is2022 = true)
    (hx : xAlg ctx.kind = none) (s : Session) (addr : Addr) (item : Bytes) (r : Rand) :
    encode C ctx .client s addr item r =
      C.aesEnc (headerKey ctx) (be64 s.clientSessionId ++ be64 s.packetId) ++
        (if ctx.kind.supportEih ∧ ctx.identityKeys ≠ [] then
          withEih C ctx.key (be64 s.clientSessionId ++ be64 s.packetId) ctx.identityKeys else []) ++
        C.sealB ctx.kind.alg (aesSessionKey C ctx.kind ctx.key s.clientSessionId)
          (aesNonce s.clientSessionId s.packetId) [] (requestBody addr item r) := by
  unfold encode
  simp only [hk, not_true_eq_false, if_false, hx]
  rfl

/-- **distinct datagrams of one session never share the AES nonce**: any two entries of a history (at
different positions) were sealed under different nonces — `c12_udp_aes_nonce_distinct` applied to the
model's own ids.  (`sid` is the codec's session id; it does not change over the history.) -/
theorem c12_udp_client_history_aes_nonces_distinct (C : Crypto) (ctx : Ctx) (items : List Item) (cc : ClientCodec)
    (i j : Nat) (hij : i ≠ j) (hi : i < (history C ctx cc items).1.length) (hj : j < (history C ctx cc items).1.length) :
    aesNonce cc.session.clientSessionId ((history C ctx cc items).1[i]).1 ≠
      aesNonce cc.session.clientSessionId ((history C ctx cc items).1[j]).1 := by
  have hb := history_bound C ctx items cc
  have hpi := (hb _ (List.getElem_mem hi)).2.1
  have hpj := (hb _ (List.getElem_mem hj)).2.1
  refine c12_udp_aes_nonce_distinct _ _ _ hpi hpj ?_
  rcases Nat.lt_or_gt_of_ne hij with h | h
  · exact Nat.ne_of_lt (c12_udp_client_history_ids_increase_at C ctx items cc i j h hj)
  · exact Nat.ne_of_gt (c12_udp_client_history_ids_increase_at C ctx items cc j i h hi)

/-- all in one, for the AES kinds: every datagram of a history is
`header ‖ [identity headers] ‖ AEAD(key(session), aesNonce sid pid, body)` for its own `pid`, and the
`aesNonce`s are pairwise different -/
theorem c12_udp_client_history_aes (C : Crypto) (ctx : Ctx) (hk : ctx.kind.is2022 = true) (hx : xAlg ctx.kind = none)
    (items : List Item) (cc : ClientCodec) :
    (∀ e ∈ (history C ctx cc items).1, ∃ it ∈ items, ∃ pre,
      e.2 = pre ++ C.sealB ctx.kind.alg (aesSessionKey C ctx.kind ctx.key cc.session.clientSessionId)
        (aesNonce cc.session.clientSessionId e.1) [] (requestBody it.1 it.2.1 it.2.2)) ∧
    ((history C ctx cc items).1.map (fun e => aesNonce cc.session.clientSessionId e.1)).Nodup := by
  constructor
  · intro e he
    obtain ⟨_, _, it, hit, e2⟩ := history_bound C ctx items cc e he
    rw [e2, c12_udp_client_aes_nonce_on_the_wire C ctx hk hx]
    exact ⟨it, hit, _, rfl⟩
  · rw [List.nodup_iff_pairwise_ne, List.pairwise_iff_getElem]
    intro i j hi hj hij
    simp only [List.length_map] at hi hj
    simp only [List.getElem_map]
    exact c12_udp_client_history_aes_nonces_distinct C ctx items cc i j (Nat.ne_of_lt hij) hi hj

/-! ### non-vacuity (toy crypto; the contexts of `C02Udp.Demo`) -/

namespace Demo

def cc0 : ClientCodec := { session := ⟨7, 0, 41, none⟩ }
def ccLast : ClientCodec := { session := ⟨7, 0, 2 ^ 64 - 2, none⟩ }
def ccEnd : ClientCodec := { session := ⟨7, 0, 2 ^ 64 - 1, none⟩ }
def items3 : List Item := [(target, payload, rnd), (target, [1], rnd), (.v4 [10, 0, 0, 1] 53, [], rnd)]

/-- the hypothesis of `c12_udp_client_ids_strictly_increase` is satisfied … -/
example : ClientCodec.encode Crypto.toy cliB cc0 target payload rnd =
    (.ok (encode Crypto.toy cliB .client ⟨7, 0, 42, none⟩ target payload rnd), { session := ⟨7, 0, 42, none⟩ }) := rfl
example : ({ session := ⟨7, 0, 42, none⟩ } : ClientCodec).session.packetId = cc0.session.packetId + 1 :=
  (c12_udp_client_ids_strictly_increase Crypto.toy cliB cc0 _ target payload rnd _ rfl).1
/-- … also for the very last id, after which the session is over -/
example : ClientCodec.encode Crypto.toy cliB ccLast target payload rnd =
    (.ok (encode Crypto.toy cliB .client ⟨7, 0, 2 ^ 64 - 1, none⟩ target payload rnd), ccEnd) := rfl
example : ClientCodec.encode Crypto.toy cliB ccEnd target payload rnd = (.err, ccEnd) :=
  c12_udp_client_ends_rather_than_wrap Crypto.toy cliB ccEnd target payload rnd rfl

/-- the two-user server reads id 42 out of bob's datagram -/
example : opened Crypto.toy srvM .server (encode Crypto.toy cliB .client ⟨7, 0, 42, none⟩ target payload rnd) =
    some (7, 42, requestBody target payload rnd, some bob) :=
  c12_udp_client_id_on_the_wire Crypto.toy Crypto.toy_lawful cliB srvM (some bob) (by decide) cc0 _ (by decide) target
    payload rnd (by decide) _ rfl

/-- a history: three items from id 41 use ids 42, 43, 44 -/
example : (history Crypto.toy cliB cc0 items3).1.map Prod.fst = [42, 43, 44] := by
  rw [c12_udp_client_history_ids_consecutive, c12_udp_client_history_length]; rfl
/-- a history that meets the end: one datagram (the last id), the other two items refused -/
example : (history Crypto.toy cliB ccLast items3).1.map Prod.fst = [2 ^ 64 - 1] := by
  rw [c12_udp_client_history_ids_consecutive, c12_udp_client_history_length]; rfl
example : (history Crypto.toy cliB ccLast items3).1.length = 1 := by
  rw [c12_udp_client_history_length]; rfl
example : history Crypto.toy cliB ccEnd items3 = ([], ccEnd) :=
  (c12_udp_client_stays_ended Crypto.toy cliB items3 ccEnd rfl).1

/-- the nonces of the first two datagrams of that history differ (hypotheses: positions 0 ≠ 1, both inside) -/
example : aesNonce 7 42 ≠ aesNonce 7 43 := by
  have hl : (history Crypto.toy cliB cc0 items3).1.length = 3 := by rw [c12_udp_client_history_length]; rfl
  have hm : (history Crypto.toy cliB cc0 items3).1.map Prod.fst = [42, 43, 44] := by
    rw [c12_udp_client_history_ids_consecutive, c12_udp_client_history_length]; rfl
  have h := c12_udp_client_history_aes_nonces_distinct Crypto.toy cliB items3 cc0 0 1 (by decide) (by omega) (by omega)
  have e0 : ((history Crypto.toy cliB cc0 items3).1[0]'(by omega)).1 = 42 := by
    have := congrArg (fun l => l[0]?) hm
    simpa [List.getElem?_map, List.getElem?_eq_getElem (show 0 < (history Crypto.toy cliB cc0 items3).1.length by omega)]
      using this
  have e1 : ((history Crypto.toy cliB cc0 items3).1[1]'(by omega)).1 = 43 := by
    have := congrArg (fun l => l[1]?) hm
    simpa [List.getElem?_map, List.getElem?_eq_getElem (show 1 < (history Crypto.toy cliB cc0 items3).1.length by omega)]
      using this
  rw [e0, e1] at h
  exact h

/-- an AES context (hypotheses of `c12_udp_client_history_aes`) -/
example : cliB.kind.is2022 = true ∧ xAlg cliB.kind = none := by decide

end Demo

end Octo.SsUdp
