import Octo.Props.C15Live
import Octo.Proofs.Chain
/-!
# C15 / C01 on the two-hop chain: the application closes first after the whole upload

`Octo.System` chains the client's and the server's flow through the link; the source scripts of the
inner directions *grow* while the chain runs (`link` appends what the other hop delivered), so the
single-flow liveness theorems of `Octo/Props/C15Live.lean` (fixed scripts) do not apply as they
stand.  This file proves the one two-hop progress statement asked for directly, by following the
round-robin schedule `round` of the model round by round:

`c15_chain_app_close_delivers_all` — the application writes `us` and closes its sending side right
after (`appEarly`); the target is reachable, answers `ans` once everything has arrived and keeps
its side open.  After every number of rounds `k ≥ us.length + 1` the target has received the
**whole** upload, in order, and then end-of-stream (the server's up sink is closed), and both hops
are torn down (everything released).  `c15_chain_app_close_observed` is the same in terms of the
harness's observation `simulate`.

What is lost here is the *answer*: the client's `try_join!` returns when the application's `eof`
has been pumped, and drops the down direction — see `c15_fair_schedule_drains`.
-/
namespace Octo.System
open Octo.Pump

/-- the application writes `us` and closes its sending side at once; the (reachable) target answers
`ans` when everything has arrived and keeps its side open -/
def appCloseScenario (us ans : List Bytes) : Scenario :=
  { up := us, down := ans, targetClosesFirst := false, appEarly := true }

/-! ### one poll of a flow, by cases on the head of the polled script -/

theorem Flow.step_up_item (f : Flow) (b : Bytes) (r : List Src) (ht : f.tornDown = false)
    (hr : f.up.returned = false) (hd : f.down.returned = false) (hs : f.up.script = .item b :: r) :
    f.step .up = { f with up := { f.up with script := r, delivered := f.up.delivered ++ [b] } } := by
  have : f.up.step = { f.up with script := r, delivered := f.up.delivered ++ [b] } := by
    unfold Dir.step; simp [hr, hs]
  unfold Flow.step
  simp [ht, this, hr, hd]

theorem Flow.step_up_eof (f : Flow) (r : List Src) (ht : f.tornDown = false)
    (hr : f.up.returned = false) (hs : f.up.script = .eof :: r) :
    f.step .up = { up := { f.up with script := r, sinkClosed := true, returned := true }, down := f.down, tornDown := true } := by
  have : f.up.step = { f.up with script := r, sinkClosed := true, returned := true } := by
    unfold Dir.step; simp [hr, hs]
  unfold Flow.step
  simp [ht, this]

theorem Flow.step_torn (f : Flow) (p : Pick) (ht : f.tornDown = true) : f.step p = f := by
  unfold Flow.step; simp [ht]

theorem Dir.step_pure2 (d : Dir) (hr : d.returned = false) (hp : pureItems d.script = true) :
    d.step.returned = false ∧ d.step.sinkClosed = d.sinkClosed ∧ pureItems d.step.script = true := by
  unfold Dir.step
  rw [if_neg (by simp [hr])]
  split
  · exact ⟨hr, rfl, hp⟩
  · rename_i b r hs; rw [hs] at hp; exact ⟨hr, rfl, by simpa [pureItems, isItem] using hp⟩
  · rename_i r hs; rw [hs] at hp; simp [pureItems, isItem] at hp
  · rename_i r hs; rw [hs] at hp; simp [pureItems, isItem] at hp

/-- polling the down direction of a live flow whose down source only yields items -/
theorem Flow.step_down_pure (f : Flow) (ht : f.tornDown = false) (hu : f.up.returned = false)
    (hr : f.down.returned = false) (hp : pureItems f.down.script = true) :
    (f.step .down).up = f.up ∧ (f.step .down).tornDown = false ∧ (f.step .down).down.returned = false ∧
      (f.step .down).down.sinkClosed = f.down.sinkClosed ∧ pureItems (f.step .down).down.script = true := by
  have hs := Dir.step_pure2 f.down hr hp
  refine ⟨Flow.step_down_up f, ?_, ?_, ?_, ?_⟩
  · rw [Flow.step_down_torn, ht, hu, hs.1]; rfl
  · rw [Flow.step_down_down]; simp [ht, hs.1]
  · rw [Flow.step_down_down]; simp [ht, hs.2.1]
  · rw [Flow.step_down_down]; simp [ht, hs.2.2]

/-! ### the upload in flight -/

/-- the upload in flight: the client's up pump has delivered the first `i` items, `s` of them have
crossed the link, the server's up pump has delivered the first `j` and has `q` waiting; nothing has
ended, the down directions only carry items -/
structure Stage (us : List Bytes) (i j s : Nat) (q : List Src) (c : Chain) : Prop where
  cu_script : c.client.up.script = (us.drop i).map Src.item ++ [Src.eof]
  cu_del : c.client.up.delivered = us.take i
  cu_ret : c.client.up.returned = false
  cu_cl : c.client.up.sinkClosed = false
  ctd : c.client.tornDown = false
  su_script : c.server.up.script = q
  su_del : c.server.up.delivered = us.take j
  su_ret : c.server.up.returned = false
  su_cl : c.server.up.sinkClosed = false
  std : c.server.tornDown = false
  sent : c.upSent = s
  upEnd : c.upEnd = false
  sd_ret : c.server.down.returned = false
  sd_cl : c.server.down.sinkClosed = false
  sd_pure : pureItems c.server.down.script = true
  cd_ret : c.client.down.returned = false
  cd_pure : pureItems c.client.down.script = true

theorem link_stage {us : List Bytes} {i j s : Nat} {q : List Src} {c : Chain} (h : Stage us i j s q c)
    (hi : i ≤ us.length) : Stage us i j i (q ++ ((us.take i).drop s).map Src.item) (link c) := by
  have hup : (!c.upEnd && (c.client.up.sinkClosed || c.client.tornDown)) = false := by simp [h.cu_cl, h.ctd]
  have hdn : (!c.downEnd && (c.server.down.sinkClosed || c.server.tornDown)) = false := by simp [h.sd_cl, h.std]
  refine ⟨h.cu_script, h.cu_del, h.cu_ret, h.cu_cl, h.ctd, ?_, h.su_del, h.su_ret, h.su_cl, h.std, ?_, ?_,
    h.sd_ret, h.sd_cl, h.sd_pure, h.cd_ret, ?_⟩
  · show c.server.up.script ++ _ ++ _ = _
    rw [hup, h.su_script, h.cu_del, h.sent]; simp
  · show c.client.up.delivered.length = i
    rw [h.cu_del, List.length_take]; omega
  · show (c.upEnd || _) = false
    rw [hup, h.upEnd]; rfl
  · show pureItems (c.client.down.script ++ _ ++ _) = true
    rw [hdn, pureItems_append, pureItems_append, h.cd_pure, pureItems_map]; rfl

theorem link_stage_same {us : List Bytes} {i j : Nat} {q : List Src} {c : Chain} (h : Stage us i j i q c)
    (hi : i ≤ us.length) : Stage us i j i q (link c) := by
  have := link_stage h hi
  simpa using this

theorem cUp_stage {us : List Bytes} {i j s : Nat} {q : List Src} {c : Chain} (h : Stage us i j s q c)
    (hi : i < us.length) : Stage us (i + 1) j s q (c.act .cUp) := by
  have hs : c.client.up.script = .item us[i] :: ((us.drop (i + 1)).map Src.item ++ [Src.eof]) := by
    rw [h.cu_script, List.drop_eq_getElem_cons hi]; rfl
  have hstep := Flow.step_up_item c.client us[i] _ h.ctd h.cu_ret h.cd_ret hs
  have hc : (c.act .cUp).client = _ := hstep
  have hsrv : (c.act .cUp).server = c.server := rfl
  refine ⟨by rw [hc], ?_, by rw [hc]; exact h.cu_ret, by rw [hc]; exact h.cu_cl, by rw [hc]; exact h.ctd,
    h.su_script, h.su_del, h.su_ret, h.su_cl, h.std, h.sent, h.upEnd, h.sd_ret, h.sd_cl, h.sd_pure,
    by rw [hc]; exact h.cd_ret, by rw [hc]; exact h.cd_pure⟩
  rw [hc]
  show c.client.up.delivered ++ [us[i]] = _
  rw [h.cu_del, List.take_succ_eq_append_getElem hi]

theorem sUp_stage {us : List Bytes} {i j s : Nat} {b : Bytes} {r : List Src} {c : Chain}
    (h : Stage us i j s (.item b :: r) c) (hb : us.take j ++ [b] = us.take (j + 1)) :
    Stage us i (j + 1) s r (c.act .sUp) := by
  have hstep := Flow.step_up_item c.server b r h.std h.su_ret h.sd_ret h.su_script
  have hc : (c.act .sUp).server = _ := hstep
  refine ⟨h.cu_script, h.cu_del, h.cu_ret, h.cu_cl, h.ctd, by rw [hc], ?_, by rw [hc]; exact h.su_ret,
    by rw [hc]; exact h.su_cl, by rw [hc]; exact h.std, h.sent, h.upEnd, by rw [hc]; exact h.sd_ret,
    by rw [hc]; exact h.sd_cl, by rw [hc]; exact h.sd_pure, h.cd_ret, h.cd_pure⟩
  rw [hc]
  show c.server.up.delivered ++ [b] = _
  rw [h.su_del, hb]

theorem sDown_stage {us : List Bytes} {i j s : Nat} {q : List Src} {c : Chain} (h : Stage us i j s q c) :
    Stage us i j s q (c.act .sDown) := by
  have hp := Flow.step_down_pure c.server h.std h.su_ret h.sd_ret h.sd_pure
  have hu : (c.act .sDown).server.up = c.server.up := hp.1
  exact ⟨h.cu_script, h.cu_del, h.cu_ret, h.cu_cl, h.ctd, by rw [hu]; exact h.su_script, by rw [hu]; exact h.su_del,
    by rw [hu]; exact h.su_ret, by rw [hu]; exact h.su_cl, hp.2.1, h.sent, h.upEnd, hp.2.2.1,
    by rw [show (c.act .sDown).server.down.sinkClosed = c.server.down.sinkClosed from hp.2.2.2.1]; exact h.sd_cl,
    hp.2.2.2.2, h.cd_ret, h.cd_pure⟩

theorem cDown_stage {us : List Bytes} {i j s : Nat} {q : List Src} {c : Chain} (h : Stage us i j s q c) :
    Stage us i j s q (c.act .cDown) := by
  have hp := Flow.step_down_pure c.client h.ctd h.cu_ret h.cd_ret h.cd_pure
  have hu : (c.act .cDown).client.up = c.client.up := hp.1
  exact ⟨by rw [hu]; exact h.cu_script, by rw [hu]; exact h.cu_del, by rw [hu]; exact h.cu_ret,
    by rw [hu]; exact h.cu_cl, hp.2.1, h.su_script, h.su_del, h.su_ret, h.su_cl, h.std, h.sent, h.upEnd,
    h.sd_ret, h.sd_cl, h.sd_pure, hp.2.2.1, hp.2.2.2.2⟩

/-- what the scripted ends do in this scenario: at most, the target's answer is appended to the
server's down source -/
theorem react_proj (us ans : List Bytes) (c : Chain) :
    (react (appCloseScenario us ans) c).client = c.client ∧
    (react (appCloseScenario us ans) c).server.up = c.server.up ∧
    (react (appCloseScenario us ans) c).server.tornDown = c.server.tornDown ∧
    (react (appCloseScenario us ans) c).upSent = c.upSent ∧
    (react (appCloseScenario us ans) c).upEnd = c.upEnd ∧
    (react (appCloseScenario us ans) c).server.down.returned = c.server.down.returned ∧
    (react (appCloseScenario us ans) c).server.down.sinkClosed = c.server.down.sinkClosed ∧
    (pureItems c.server.down.script = true → pureItems (react (appCloseScenario us ans) c).server.down.script = true) := by
  unfold react
  simp only [appCloseScenario, Option.isNone_none, Bool.and_true, Bool.false_eq_true, if_false, Bool.not_true,
    Bool.and_false, Bool.false_and, List.append_nil]
  split
  · refine ⟨rfl, rfl, rfl, rfl, rfl, rfl, rfl, ?_⟩
    intro hp
    simp [pureItems_append, pureItems_map, hp]
  · exact ⟨rfl, rfl, rfl, rfl, rfl, rfl, rfl, id⟩

theorem react_stage {us ans : List Bytes} {i j s : Nat} {q : List Src} {c : Chain} (h : Stage us i j s q c) :
    Stage us i j s q (react (appCloseScenario us ans) c) := by
  obtain ⟨e1, e2, e3, e4, e5, e6, e7, e8⟩ := react_proj us ans c
  exact ⟨by rw [e1]; exact h.cu_script, by rw [e1]; exact h.cu_del, by rw [e1]; exact h.cu_ret, by rw [e1]; exact h.cu_cl,
    by rw [e1]; exact h.ctd, by rw [e2]; exact h.su_script, by rw [e2]; exact h.su_del, by rw [e2]; exact h.su_ret,
    by rw [e2]; exact h.su_cl, by rw [e3]; exact h.std, by rw [e4]; exact h.sent, by rw [e5]; exact h.upEnd,
    by rw [e6]; exact h.sd_ret, by rw [e7]; exact h.sd_cl, e8 h.sd_pure, by rw [e1]; exact h.cd_ret, by rw [e1]; exact h.cd_pure⟩

theorem round_eq (sc : Scenario) (c : Chain) :
    round sc c = react sc (Chain.act (Chain.act (Chain.act (Chain.act (react sc
      (Chain.act (Chain.act (Chain.act (Chain.act c .cUp) .link) .sUp) .link)) .sDown) .link) .cDown) .link) := rfl

/-- **one round carries one item across both hops** -/
theorem round_stage {us ans : List Bytes} {i : Nat} {c : Chain} (h : Stage us i i i [] c) (hi : i < us.length) :
    Stage us (i + 1) (i + 1) (i + 1) [] (round (appCloseScenario us ans) c) := by
  rw [round_eq]
  have h1 := cUp_stage h hi
  have h2 := link_stage h1 (by omega)
  have hq : ([] : List Src) ++ ((us.take (i + 1)).drop i).map Src.item = .item us[i] :: [] := by
    rw [List.take_succ_eq_append_getElem hi, List.drop_left' (by rw [List.length_take]; omega)]; rfl
  rw [hq] at h2
  have h3 := sUp_stage h2 (List.take_succ_eq_append_getElem hi).symm
  have h4 := link_stage_same h3 (by omega)
  have h5 := react_stage (ans := ans) h4
  have h6 := sDown_stage h5
  have h7 := link_stage_same h6 (by omega)
  have h8 := cDown_stage h7
  have h9 := link_stage_same h8 (by omega)
  exact react_stage h9

/-! ### the end of the upload -/

/-- the upload has arrived completely, followed by end-of-stream; both hops are torn down -/
structure Done (us : List Bytes) (c : Chain) : Prop where
  su_del : c.server.up.delivered = us
  su_cl : c.server.up.sinkClosed = true
  su_ret : c.server.up.returned = true
  std : c.server.tornDown = true
  ctd : c.client.tornDown = true
  cu_del : c.client.up.delivered = us
  cu_cl : c.client.up.sinkClosed = true

theorem link_done {us : List Bytes} {c : Chain} (h : Done us c) : Done us (link c) :=
  ⟨h.su_del, h.su_cl, h.su_ret, h.std, h.ctd, h.cu_del, h.cu_cl⟩

theorem act_done {us : List Bytes} {c : Chain} (h : Done us c) (a : Act) : Done us (c.act a) := by
  cases a with
  | link => exact link_done h
  | cUp => have : (c.act .cUp) = c := by show { c with client := c.client.step .up } = c; rw [Flow.step_torn _ _ h.ctd]
           rw [this]; exact h
  | cDown => have : (c.act .cDown) = c := by show { c with client := c.client.step .down } = c; rw [Flow.step_torn _ _ h.ctd]
             rw [this]; exact h
  | sUp => have : (c.act .sUp) = c := by show { c with server := c.server.step .up } = c; rw [Flow.step_torn _ _ h.std]
           rw [this]; exact h
  | sDown => have : (c.act .sDown) = c := by show { c with server := c.server.step .down } = c; rw [Flow.step_torn _ _ h.std]
             rw [this]; exact h

theorem react_done {us ans : List Bytes} {c : Chain} (h : Done us c) : Done us (react (appCloseScenario us ans) c) := by
  obtain ⟨e1, e2, e3, _⟩ := react_proj us ans c
  exact ⟨by rw [e2]; exact h.su_del, by rw [e2]; exact h.su_cl, by rw [e2]; exact h.su_ret, by rw [e3]; exact h.std,
    by rw [e1]; exact h.ctd, by rw [e1]; exact h.cu_del, by rw [e1]; exact h.cu_cl⟩

theorem round_done {us ans : List Bytes} {c : Chain} (h : Done us c) : Done us (round (appCloseScenario us ans) c) := by
  rw [round_eq]
  exact react_done (act_done (act_done (act_done (act_done (react_done
    (act_done (act_done (act_done (act_done h .cUp) .link) .sUp) .link)) .sDown) .link) .cDown) .link)

/-- **the closing round**: the application's end crosses both hops in one round, behind the last item -/
theorem round_close {us ans : List Bytes} {c : Chain} (h : Stage us us.length us.length us.length [] c) :
    Done us (round (appCloseScenario us ans) c) := by
  rw [round_eq]
  -- the client's up pump reads the end
  have hs : c.client.up.script = .eof :: [] := by rw [h.cu_script]; simp
  have hstep := Flow.step_up_eof c.client [] h.ctd h.cu_ret hs
  have hc1 : (c.act .cUp).client = _ := hstep
  have hs1 : (c.act .cUp).server = c.server := rfl
  -- the link passes it on
  have hnew : ((c.act .cUp).client.up.delivered.drop (c.act .cUp).upSent) = [] := by
    rw [hc1]
    show c.client.up.delivered.drop c.upSent = []
    rw [h.cu_del, h.sent]; simp
  have hupEnd : (!(c.act .cUp).upEnd && ((c.act .cUp).client.up.sinkClosed || (c.act .cUp).client.tornDown)) = true := by
    rw [hc1]; show (!c.upEnd && _) = true; rw [h.upEnd]; rfl
  have hs2 : ((c.act .cUp).act .link).server.up.script = [.eof] := by
    show (c.act .cUp).server.up.script ++ _ ++ _ = _
    rw [hnew, hupEnd, hs1, h.su_script]; rfl
  have hs2' : ((c.act .cUp).act .link).server.up.delivered = us ∧ ((c.act .cUp).act .link).server.up.returned = false ∧
      ((c.act .cUp).act .link).server.tornDown = false := by
    refine ⟨?_, h.su_ret, h.std⟩
    show c.server.up.delivered = us
    rw [h.su_del]; simp
  have hc2 : ((c.act .cUp).act .link).client.up = (c.act .cUp).client.up ∧
      ((c.act .cUp).act .link).client.tornDown = (c.act .cUp).client.tornDown := ⟨rfl, rfl⟩
  -- the server's up pump reads it: the target sees end-of-stream
  have hstep3 := Flow.step_up_eof ((c.act .cUp).act .link).server [] hs2'.2.2 hs2'.2.1 hs2
  have hc3 : (((c.act .cUp).act .link).act .sUp).server = _ := hstep3
  have hd : Done us (((c.act .cUp).act .link).act .sUp) := by
    refine ⟨by rw [hc3]; exact hs2'.1, by rw [hc3], by rw [hc3], by rw [hc3], ?_, ?_, ?_⟩
    · show ((c.act .cUp).act .link).client.tornDown = true
      rw [hc2.2, hc1]
    · show ((c.act .cUp).act .link).client.up.delivered = us
      rw [hc2.1, hc1]; show c.client.up.delivered = us; rw [h.cu_del]; simp
    · show ((c.act .cUp).act .link).client.up.sinkClosed = true
      rw [hc2.1, hc1]
  exact react_done (act_done (act_done (act_done (act_done (react_done (act_done hd .link)) .sDown) .link) .cDown) .link)

/-! ### every sufficient number of rounds -/

theorem rounds_add (sc : Scenario) (a b : Nat) : ∀ c : Chain, rounds sc (a + b) c = rounds sc b (rounds sc a c) := by
  induction a with
  | zero => intro c; simp [rounds]
  | succ a ih => intro c; rw [Nat.add_right_comm]; exact ih (round sc c)

theorem rounds_stage {us ans : List Bytes} (m : Nat) : ∀ (i : Nat) (c : Chain), Stage us i i i [] c → i + m ≤ us.length →
    Stage us (i + m) (i + m) (i + m) [] (rounds (appCloseScenario us ans) m c) := by
  induction m with
  | zero => intro i c h _; exact h
  | succ m ih =>
    intro i c h hi
    have := ih (i + 1) _ (round_stage (ans := ans) h (by omega)) (by omega)
    rw [show i + (m + 1) = i + 1 + m by omega]
    exact this

theorem rounds_done {us ans : List Bytes} (m : Nat) : ∀ (c : Chain), Done us c → Done us (rounds (appCloseScenario us ans) m c) := by
  induction m with
  | zero => intro c h; exact h
  | succ m ih => intro c h; exact ih _ (round_done h)

theorem start_stage (us ans : List Bytes) : Stage us 0 0 0 [] (link (start (appCloseScenario us ans))) := by
  refine ⟨?_, rfl, rfl, rfl, rfl, rfl, rfl, rfl, rfl, rfl, rfl, rfl, rfl, rfl, rfl, rfl, rfl⟩
  show (([] ++ us).map Src.item ++ [Src.eof]) = _
  simp

/-- **C15 / C01 on both hops, application closes first after the whole upload.**  The application
writes the chunks `us` and closes its sending side; the target is reachable and answers `ans` (any)
once everything has arrived, keeping its side open.  Under the model's round-robin schedule, for
*every* number of rounds `k ≥ us.length + 1`: the target has received the whole upload, exactly
once and in order, and then end-of-stream; both hops have been torn down — every socket and task
of the flow is released. -/
theorem c15_chain_app_close_delivers_all (us ans : List Bytes) (k : Nat) (hk : us.length + 1 ≤ k) :
    let c := rounds (appCloseScenario us ans) k (link (start (appCloseScenario us ans)))
    c.server.up.delivered = us ∧ c.server.up.sinkClosed = true ∧ c.server.up.returned = true ∧
      c.server.tornDown = true ∧ c.client.tornDown = true ∧
      c.client.up.delivered = us ∧ c.client.up.sinkClosed = true := by
  intro c
  have hk' : k = us.length + (1 + (k - (us.length + 1))) := by omega
  have h0 := rounds_stage (ans := ans) us.length 0 _ (start_stage us ans) (by omega)
  simp only [Nat.zero_add] at h0
  have h1 : Done us c := by
    show Done us (rounds (appCloseScenario us ans) k _)
    rw [hk', rounds_add, rounds_add]
    apply rounds_done
    exact round_close h0
  exact ⟨h1.su_del, h1.su_cl, h1.su_ret, h1.std, h1.ctd, h1.cu_del, h1.cu_cl⟩

/-- the same as the harness observes it: the target was dialled, got the whole upload and then
end-of-stream, and the flow is released -/
theorem c15_chain_app_close_observed (us ans : List Bytes) :
    (simulate (appCloseScenario us ans)).dialed = true ∧ (simulate (appCloseScenario us ans)).upOk = true ∧
      (simulate (appCloseScenario us ans)).targetEof = true ∧ (simulate (appCloseScenario us ans)).released = true := by
  have h := c15_chain_app_close_delivers_all us ans (2 * (us.length + ans.length) + 16) (by omega)
  simp only [] at h
  obtain ⟨h1, h2, h3, h4, h5, _, _⟩ := h
  have hu : (appCloseScenario us ans).up = us := rfl
  have hd : (appCloseScenario us ans).down = ans := rfl
  simp only [simulate, hu, hd, h1, h2, h3, h4, h5]
  simp [appCloseScenario]

/-- not vacuous: a concrete upload and answer, the bound is met exactly, and one round fewer is not enough -/
example :
    let sc := appCloseScenario [[1, 2], [3]] [[7], [8, 9]]
    (rounds sc 3 (link (start sc))).server.up.delivered = [[1, 2], [3]] ∧
      (rounds sc 3 (link (start sc))).server.up.sinkClosed = true ∧
      (rounds sc 3 (link (start sc))).client.tornDown = true ∧
      (rounds sc 2 (link (start sc))).server.up.sinkClosed = false := by decide

end Octo.System
