import Octo.Proofs.SsCall
/-!
# C04 (Shadowsocks, legacy ciphers): the real `Decoder::decode` calls under `FramedRead`
Property theorems only; the lemmas are in `Octo/Proofs/SsCall.lean`.
-/
namespace Octo.Ss
open Octo.Fr

/-! # The property theorems (C04 at the level of the `decode` calls under `FramedRead`) -/

/-- **Server → client, legacy ciphers, any segmentation.**  Everything the server's session writes
(`ws`, any number of writes, empty ones included), cut into any consecutive `pieces` and read one piece
per socket read by `FramedRead<clientCall>`: only `data` items come out, no error / end / spin event,
the items concatenate to exactly the bytes written, the read buffer ends empty, the stream has not
ended, and the next `decode` returns `Ok(None)` without touching anything. -/
theorem c04_ss_legacy_client_framed (C : Crypto) (hC : C.Lawful) (ctx : Ctx) (hk : ctx.kind.is2022 = false)
    (ss ds : Sess) (env : DecEnv) (hm : ss.mode = .server) (hs : ss.salt.length = ctx.kind.n)
    (ws : List (Bytes × EncRand))
    (pieces : List Bytes) (hcut : pieces.flatten = (encodeAll C ctx ss {} ws).1) :
    let F := feedAll (clientCall C ctx env) (cliInit ds) pieces
    evClean F.2 = true ∧ (∀ i ∈ evItems F.2, i.kind = .data ∧ i.addr = none) ∧
      evData F.2 = (ws.map Prod.fst).flatten ∧
      F.1.buf = [] ∧ F.1.ended = false ∧
      clientCall C ctx env F.1.st F.1.buf = ⟨F.1.st, [], .more⟩ := by
  intro F
  obtain ⟨r1, r2, r3⟩ := legacyResp_encodeAll C hC ctx hk ss ds env hm hs ws
  rw [← hcut] at r1 r2 r3
  obtain ⟨h1, h2, h3, h4, h5⟩ := client_framed_core C hC ctx env hk ds pieces r1
  have hb : F.1.buf = [] := by show (feedAll _ _ _).1.buf = []; rw [h1]; exact r2
  refine ⟨h2, h3, by rw [← r3]; exact h4, hb, by show (feedAll _ _ _).1.ended = false; rw [h1], ?_⟩
  have := h5
  rw [show (feedAll (clientCall C ctx env) ⟨⟨none, ds⟩, [], false⟩ pieces).1.buf = [] from hb] at this
  rw [hb]; exact this

/-- **Client side never stalls, at every intermediate point.**  After any prefix `pre` of the reads the
items handed out are exactly the payload of every complete chunk contained in `pre.flatten` (the
unit-level run over it), the read buffer holds exactly the incomplete rest, and `decode` on it returns
`Ok(None)` leaving it unchanged. -/
theorem c04_ss_legacy_client_never_stalls (C : Crypto) (hC : C.Lawful) (ctx : Ctx) (hk : ctx.kind.is2022 = false)
    (ss ds : Sess) (env : DecEnv) (hm : ss.mode = .server) (hs : ss.salt.length = ctx.kind.n)
    (ws : List (Bytes × EncRand))
    (pre post : List Bytes) (hcut : (pre ++ post).flatten = (encodeAll C ctx ss {} ws).1) :
    let F := feedAll (clientCall C ctx env) (cliInit ds) pre
    let R := run (unit C ctx env) ⟨none, ds⟩ pre.flatten
    R.failed = false ∧ evClean F.2 = true ∧ F.1 = ⟨R.st, R.buf, false⟩ ∧
      evData F.2 = Ev.bytes R.out ∧
      clientCall C ctx env F.1.st F.1.buf = ⟨F.1.st, F.1.buf, .more⟩ := by
  intro F R
  have G := unit_good_legacy C hC ctx env hk
  obtain ⟨r1, _, _⟩ := legacyResp_encodeAll C hC ctx hk ss ds env hm hs ws
  rw [← hcut] at r1
  obtain ⟨hnf, _⟩ := run_prefix_ok _ G _ pre post r1
  obtain ⟨h1, h2, _, h4, h5⟩ := client_framed_core C hC ctx env hk ds pre hnf
  exact ⟨hnf, h2, h1, h4, h5⟩

/-- **Client side, segmentation independence** for *any* byte stream (honest or not) on which the
unit-level decoder does not fail: feeding the pieces or feeding their concatenation in one read ends
in the same stream state and hands out the same bytes. -/
theorem c04_ss_legacy_client_single (C : Crypto) (hC : C.Lawful) (ctx : Ctx) (hk : ctx.kind.is2022 = false)
    (ds : Sess) (env : DecEnv) (pieces : List Bytes)
    (hnf : (run (unit C ctx env) ⟨none, ds⟩ pieces.flatten).failed = false) :
    (feedAll (clientCall C ctx env) (cliInit ds) pieces).1 =
        (feedAll (clientCall C ctx env) (cliInit ds) [pieces.flatten]).1 ∧
      evData (feedAll (clientCall C ctx env) (cliInit ds) pieces).2 =
        evData (feedAll (clientCall C ctx env) (cliInit ds) [pieces.flatten]).2 := by
  have hf : [pieces.flatten].flatten = pieces.flatten := by simp
  obtain ⟨h1, _, _, h4, _⟩ := client_framed_core C hC ctx env hk ds pieces hnf
  obtain ⟨g1, _, _, g4, _⟩ := client_framed_core C hC ctx env hk ds [pieces.flatten] (by rw [hf]; exact hnf)
  rw [hf] at g1 g4
  exact ⟨by rw [h1, g1], by rw [h4, g4]⟩

/-- **Client → server, legacy ciphers, any segmentation.**  Everything the client's session writes
(first write `w`, later writes `ws`; target `ad`), cut into any consecutive `pieces` and read one piece
per socket read by `FramedRead<serverCall>` from `State::Header`: no error / end / spin event; exactly
one `ConnectTcp` item, it is the first item and carries `ad`; every other item is `data`; the items
concatenate to exactly the bytes written (the address bytes are *not* part of the data); the read
buffer ends empty, the stream has not ended, the codec is in `State::Body` with nothing pending and
knows the address, and the next `decode` returns `Ok(None)` without touching anything. -/
theorem c04_ss_legacy_server_framed (C : Crypto) (hC : C.Lawful) (ctx : Ctx) (hk : ctx.kind.is2022 = false)
    (cs ds : Sess) (env : DecEnv) (ad : Addr)
    (hm : cs.mode = .client) (ha : cs.address = some ad) (had : ad.Accepted)
    (hs : cs.salt.length = ctx.kind.n) (hds : ds.address = none)
    (w : Bytes × EncRand) (ws : List (Bytes × EncRand))
    (pieces : List Bytes) (hcut : pieces.flatten = (encodeAll C ctx cs {} (w :: ws)).1) :
    let F := feedAll (serverCall C ctx env) (srvInit ds) pieces
    evClean F.2 = true ∧
      (∃ d0 rest, evItems F.2 = ⟨.connect, d0, some ad⟩ :: rest ∧ ∀ i ∈ rest, i.kind = .data ∧ i.addr = none) ∧
      evData F.2 = ((w :: ws).map Prod.fst).flatten ∧
      F.1.buf = [] ∧ F.1.ended = false ∧
      F.1.st.header = false ∧ F.1.st.pending = [] ∧ F.1.st.dec.sess = { ds with address := some ad } ∧
      serverCall C ctx env F.1.st F.1.buf = ⟨F.1.st, [], .more⟩ :=
  server_framed_of_req C hC ctx env hk ds hds ad had _ _
    (legacyReq_encodeAll C hC ctx hk cs ds env ad hm ha hs w ws) pieces hcut

/-- the same for **any sender's chunking** of `encode ad ‖ payload` (chunks of any sizes below 2¹⁶,
empty chunks allowed, the address split over several chunks at any byte) — this is what exercises the
server's `pending` buffer -/
theorem c04_ss_legacy_server_framed_chunks (C : Crypto) (hC : C.Lawful) (ctx : Ctx) (hk : ctx.kind.is2022 = false)
    (ds : Sess) (env : DecEnv) (ad : Addr) (had : ad.Accepted) (hds : ds.address = none)
    (salt payload : Bytes) (hs : salt.length = ctx.kind.n)
    (ps : List Bytes) (hps : ∀ p ∈ ps, p.length < 65536) (hflat : ps.flatten = Socks5Addr.encode ad ++ payload)
    (pieces : List Bytes)
    (hcut : pieces.flatten = salt ++ (encChunks C (newAuth C ctx.kind ctx.key salt) ps).1) :
    let F := feedAll (serverCall C ctx env) (srvInit ds) pieces
    evClean F.2 = true ∧
      (∃ d0 rest, evItems F.2 = ⟨.connect, d0, some ad⟩ :: rest ∧ ∀ i ∈ rest, i.kind = .data ∧ i.addr = none) ∧
      evData F.2 = payload ∧
      F.1.buf = [] ∧ F.1.ended = false ∧
      F.1.st.header = false ∧ F.1.st.pending = [] ∧ F.1.st.dec.sess = { ds with address := some ad } ∧
      serverCall C ctx env F.1.st F.1.buf = ⟨F.1.st, [], .more⟩ :=
  server_framed_of_req C hC ctx env hk ds hds ad had _ _
    (legacyReq_chunks C hC ctx hk ds env ad salt payload hs ps hps hflat) pieces hcut

/-- **Server side never stalls, at every intermediate point** (for any complete request `wire`, see
`legacyReq_encodeAll` / `legacyReq_chunks`).  After any prefix `pre` of the reads, with `R` the
unit-level run over `pre.flatten`:
* every decrypted byte is accounted for: `plaintext(R) = pending ‖ (address, once consumed) ‖ data handed out`;
* the codec is still in `State::Header` exactly while the plaintext does not cover the address, and
  then nothing at all has been emitted; `pending` never holds a complete address;
* the read buffer is exactly what the unit-level run leaves (the incomplete chunk), and `decode` on it
  returns `Ok(None)` leaving state and buffer unchanged. -/
theorem c04_ss_legacy_server_never_stalls (C : Crypto) (hC : C.Lawful) (ctx : Ctx) (hk : ctx.kind.is2022 = false)
    (ds : Sess) (env : DecEnv) (ad : Addr) (had : ad.Accepted) (hds : ds.address = none)
    (payload wire : Bytes) (hreq : LegacyReq C ctx env ds ad payload wire)
    (pre post : List Bytes) (hcut : (pre ++ post).flatten = wire) :
    let F := feedAll (serverCall C ctx env) (srvInit ds) pre
    let R := run (unit C ctx env) ⟨none, ds⟩ pre.flatten
    R.failed = false ∧ evClean F.2 = true ∧ F.1.ended = false ∧ F.1.buf = R.buf ∧
      Ev.bytes R.out = F.1.st.pending ++ (if F.1.st.header then [] else Socks5Addr.encode ad) ++ evData F.2 ∧
      (F.1.st.header = true ↔ (Ev.bytes R.out).length < (Socks5Addr.encode ad).length) ∧
      (F.1.st.header = true → F.2 = []) ∧
      F.1.st.pending.length < (Socks5Addr.encode ad).length ∧
      serverCall C ctx env F.1.st F.1.buf = ⟨F.1.st, F.1.buf, .more⟩ := by
  intro F R
  obtain ⟨r1, _, r3⟩ := hreq
  subst hcut
  obtain ⟨hnf, hA, hidle⟩ := server_framed_core C hC ctx env hk ds hds ad had payload pre post r1 r3
  have hL := encode_length_ge ad
  refine ⟨hnf, hA.2.2.1, hA.2.1, hA.1, hA.accounts, ?_, ?_, ?_, hidle⟩
  · rcases hA.2.2.2 with ⟨hlt, hs, _⟩ | ⟨hge, hs, _⟩
    · have hs' : F.1.st = _ := hs
      rw [hs']; exact ⟨fun _ => hlt, fun _ => rfl⟩
    · have hs' : F.1.st = _ := hs
      rw [hs']; have hge' : (Socks5Addr.encode ad).length ≤ (Ev.bytes R.out).length := hge
      exact ⟨fun h => (by cases h), fun h => (by omega)⟩
  · rcases hA.2.2.2 with ⟨_, _, he⟩ | ⟨_, hs, _⟩
    · exact fun _ => he
    · have hs' : F.1.st = _ := hs
      rw [hs']; intro h; cases h
  · rcases hA.2.2.2 with ⟨hlt, hs, _⟩ | ⟨_, hs, _⟩
    · have hs' : F.1.st = _ := hs
      rw [hs']; exact hlt
    · have hs' : F.1.st = _ := hs
      rw [hs']; simp only [List.length_nil]; omega

/-- **Server side, segmentation independence**: feeding the pieces or feeding the whole request in
one read ends in the same stream state, with the same items' data and the same first item address. -/
theorem c04_ss_legacy_server_single (C : Crypto) (hC : C.Lawful) (ctx : Ctx) (hk : ctx.kind.is2022 = false)
    (ds : Sess) (env : DecEnv) (ad : Addr) (had : ad.Accepted) (hds : ds.address = none)
    (payload wire : Bytes) (hreq : LegacyReq C ctx env ds ad payload wire)
    (pieces : List Bytes) (hcut : pieces.flatten = wire) :
    let F := feedAll (serverCall C ctx env) (srvInit ds) pieces
    let F1 := feedAll (serverCall C ctx env) (srvInit ds) [wire]
    F.1.st.dec.sess = F1.1.st.dec.sess ∧ F.1.st.header = F1.1.st.header ∧ F.1.st.pending = F1.1.st.pending ∧
      F.1.buf = F1.1.buf ∧ F.1.ended = F1.1.ended ∧
      evData F.2 = evData F1.2 ∧
      (evItems F.2).head?.map Item.addr = some (some ad) ∧ (evItems F1.2).head?.map Item.addr = some (some ad) := by
  intro F F1
  obtain ⟨_, ⟨d0, rest, hi, _⟩, h3, h4, h5, h6, h7, h8, _⟩ :=
    server_framed_of_req C hC ctx env hk ds hds ad had payload wire hreq pieces hcut
  obtain ⟨_, ⟨d0', rest', hi', _⟩, g3, g4, g5, g6, g7, g8, _⟩ :=
    server_framed_of_req C hC ctx env hk ds hds ad had payload wire hreq [wire] (by simp)
  refine ⟨h8.trans g8.symm, h6.trans g6.symm, h7.trans g7.symm, h4.trans g4.symm, h5.trans g5.symm,
    h3.trans g3.symm, ?_, ?_⟩
  · show (evItems (feedAll _ _ _).2).head?.map Item.addr = _
    rw [hi]; rfl
  · show (evItems (feedAll _ _ _).2).head?.map Item.addr = _
    rw [hi']; rfl

/-- **WebSocket messages instead of socket reads.**  The model of `WebSocketFramed::poll_next` after one binary
message (`wsMsg`: append the payload to what was kept, decode every complete frame, not only the first) is
literally the model of `FramedRead` after one read (`frFeed`).  Hence every `…_framed` theorem of C04 (this
file, `C04Trojan`, and the unit-level ones through the bridging lemmas) holds verbatim with "one WebSocket
message per piece".  That `wsMsg` is what the hand-written `WebSocketFramed` does is decided by the
correspondence run (real `WebSocketFramed` over an in-process WebSocket connection), not by this theorem. -/
theorem c04_ws_message_is_a_read {σ : Type} (decode : σ → Bytes → Call σ) (f : FrSt σ) (msg : Bytes) :
    wsMsg decode f msg = frFeed decode f msg := rfl

/-! ## non-vacuity: concrete sessions with the toy crypto, evaluated by the kernel -/

namespace Demo

def ctx : Ctx := ⟨.aes128, List.replicate 16 1, [], []⟩
def ad : Addr := .v4 [10, 0, 0, 1] 443
def env : DecEnv := ⟨0, fun _ => false⟩
/-- the client's sessions (encoder side / decoder side of the same connection) -/
def cs : Sess := { mode := .client, salt := List.replicate 16 2, address := some ad }
/-- the server's sessions -/
def ss : Sess := { mode := .server, salt := List.replicate 16 3 }

/-- client → server: three writes, the middle one empty; 95 bytes on the wire:
salt 0..16, `address ‖ [7,8,9]` in one chunk 16..60, `[10]` in one chunk 60..95 -/
def reqWrites : List (Bytes × EncRand) := [([7, 8, 9], {}), ([], {}), ([10], {})]
def req : Bytes := (encodeAll Crypto.toy ctx cs {} reqWrites).1
/-- a 3-piece segmentation cutting inside the first payload chunk and inside the second length chunk -/
def reqPieces : List Bytes := [req.take 40, (req.drop 40).take 30, req.drop 70]

/-- another sender: the address `01 0a 00 00 01 01 bb` spread over five chunks (one of them empty),
231 bytes on the wire -/
def salt : Bytes := List.replicate 16 2
def chunks : List Bytes := [[1], [10, 0], [], [0, 1, 1], [187, 7, 8], [9, 10]]
def req2 : Bytes := salt ++ (encChunks Crypto.toy (newAuth Crypto.toy ctx.kind ctx.key salt) chunks).1
def req2Pieces : List Bytes := [req2.take 60, (req2.drop 60).take 100, (req2.drop 160).take 40, req2.drop 200]

/-- server → client: four writes, the first and third empty (the first puts only the salt on the wire) -/
def respWrites : List (Bytes × EncRand) := [([], {}), ([7, 8, 9], {}), ([], {}), ([10], {})]
def resp : Bytes := (encodeAll Crypto.toy ctx ss {} respWrites).1
def respPieces : List Bytes := [resp.take 10, (resp.drop 10).take 45, resp.drop 55]

end Demo

/-- the hypotheses of `c04_ss_legacy_server_framed` hold for the demo request in three pieces … -/
example :
    let F := feedAll (serverCall Crypto.toy Demo.ctx Demo.env) (srvInit Demo.ss) Demo.reqPieces
    evClean F.2 = true ∧
      (∃ d0 rest, evItems F.2 = ⟨.connect, d0, some Demo.ad⟩ :: rest ∧ ∀ i ∈ rest, i.kind = .data ∧ i.addr = none) ∧
      evData F.2 = [7, 8, 9, 10] ∧ F.1.buf = [] ∧ F.1.ended = false ∧
      F.1.st.header = false ∧ F.1.st.pending = [] ∧ F.1.st.dec.sess = { Demo.ss with address := some Demo.ad } ∧
      serverCall Crypto.toy Demo.ctx Demo.env F.1.st F.1.buf = ⟨F.1.st, [], .more⟩ :=
  c04_ss_legacy_server_framed Crypto.toy Crypto.toy_lawful Demo.ctx rfl Demo.cs Demo.ss Demo.env Demo.ad
    rfl rfl (by decide) (by decide) rfl ([7, 8, 9], {}) [([], {}), ([10], {})] Demo.reqPieces (by decide +kernel)

/-- … and this is what the model computes on it: nothing on the first read (the chunk with the
address is incomplete), `ConnectTcp([7,8,9], ad)` on the second, `RelayTcp([10])` on the third -/
example :
    (Demo.reqPieces.length, Demo.req.length,
      (feedAll (serverCall Crypto.toy Demo.ctx Demo.env) (srvInit Demo.ss) (Demo.reqPieces.take 1)).2,
      (feedAll (serverCall Crypto.toy Demo.ctx Demo.env) (srvInit Demo.ss) (Demo.reqPieces.take 2)).2,
      (feedAll (serverCall Crypto.toy Demo.ctx Demo.env) (srvInit Demo.ss) Demo.reqPieces).2) =
    (3, 95, [], [.item ⟨.connect, [7, 8, 9], some Demo.ad⟩],
      [.item ⟨.connect, [7, 8, 9], some Demo.ad⟩, .item ⟨.data, [10], none⟩]) := by decide +kernel

/-- `c04_ss_legacy_server_framed_chunks` instantiated: the address split over five chunks, four reads -/
example :
    let F := feedAll (serverCall Crypto.toy Demo.ctx Demo.env) (srvInit Demo.ss) Demo.req2Pieces
    evClean F.2 = true ∧
      (∃ d0 rest, evItems F.2 = ⟨.connect, d0, some Demo.ad⟩ :: rest ∧ ∀ i ∈ rest, i.kind = .data ∧ i.addr = none) ∧
      evData F.2 = [7, 8, 9, 10] ∧ F.1.buf = [] ∧ F.1.ended = false ∧
      F.1.st.header = false ∧ F.1.st.pending = [] ∧ F.1.st.dec.sess = { Demo.ss with address := some Demo.ad } ∧
      serverCall Crypto.toy Demo.ctx Demo.env F.1.st F.1.buf = ⟨F.1.st, [], .more⟩ :=
  c04_ss_legacy_server_framed_chunks Crypto.toy Crypto.toy_lawful Demo.ctx rfl Demo.ss Demo.env Demo.ad
    (by decide) rfl Demo.salt [7, 8, 9, 10] (by decide) Demo.chunks (by decide) (by decide) Demo.req2Pieces
    (by decide +kernel)

/-- what the model computes on it, read by read: `pending` grows (`[1]`, then six of the seven address
bytes) while nothing is emitted; the third read completes the address: `ConnectTcp([7,8], ad)`; the
fourth gives `RelayTcp([9,10])` -/
example :
    Demo.req2.length = 231 ∧
      (feedAll (serverCall Crypto.toy Demo.ctx Demo.env) (srvInit Demo.ss) (Demo.req2Pieces.take 1)).1.st.pending = [1] ∧
      (feedAll (serverCall Crypto.toy Demo.ctx Demo.env) (srvInit Demo.ss) (Demo.req2Pieces.take 1)).2 = [] ∧
      (feedAll (serverCall Crypto.toy Demo.ctx Demo.env) (srvInit Demo.ss) (Demo.req2Pieces.take 2)).1.st.pending =
        [1, 10, 0, 0, 1, 1] ∧
      (feedAll (serverCall Crypto.toy Demo.ctx Demo.env) (srvInit Demo.ss) (Demo.req2Pieces.take 2)).2 = [] ∧
      (feedAll (serverCall Crypto.toy Demo.ctx Demo.env) (srvInit Demo.ss) (Demo.req2Pieces.take 3)).2 =
        [.item ⟨.connect, [7, 8], some Demo.ad⟩] ∧
      (feedAll (serverCall Crypto.toy Demo.ctx Demo.env) (srvInit Demo.ss) Demo.req2Pieces).2 =
        [.item ⟨.connect, [7, 8], some Demo.ad⟩, .item ⟨.data, [9, 10], none⟩] := by decide +kernel

/-- byte-by-byte delivery of the same request (231 reads): the same two items -/
example :
    (feedAll (serverCall Crypto.toy Demo.ctx Demo.env) (srvInit Demo.ss) (Demo.req2.map fun x => [x])).2 =
      [.item ⟨.connect, [7, 8], some Demo.ad⟩, .item ⟨.data, [9, 10], none⟩] := by
  decide +kernel

/-- `c04_ss_legacy_client_framed` instantiated: four writes (two of them empty), three reads -/
example :
    let F := feedAll (clientCall Crypto.toy Demo.ctx Demo.env) (cliInit Demo.cs) Demo.respPieces
    evClean F.2 = true ∧ (∀ i ∈ evItems F.2, i.kind = .data ∧ i.addr = none) ∧
      evData F.2 = [7, 8, 9, 10] ∧ F.1.buf = [] ∧ F.1.ended = false ∧
      clientCall Crypto.toy Demo.ctx Demo.env F.1.st F.1.buf = ⟨F.1.st, [], .more⟩ :=
  c04_ss_legacy_client_framed Crypto.toy Crypto.toy_lawful Demo.ctx rfl Demo.ss Demo.cs Demo.env rfl (by decide)
    Demo.respWrites Demo.respPieces (by decide +kernel)

/-- what the model computes on it: nothing on the first read (salt incomplete), `[7,8,9]` on the
second, `[10]` on the third; the empty writes are invisible -/
example :
    (Demo.resp.length,
      (feedAll (clientCall Crypto.toy Demo.ctx Demo.env) (cliInit Demo.cs) (Demo.respPieces.take 1)).2,
      (feedAll (clientCall Crypto.toy Demo.ctx Demo.env) (cliInit Demo.cs) (Demo.respPieces.take 2)).2,
      (feedAll (clientCall Crypto.toy Demo.ctx Demo.env) (cliInit Demo.cs) Demo.respPieces).2) =
    (88, [], [.item ⟨.data, [7, 8, 9], none⟩],
      [.item ⟨.data, [7, 8, 9], none⟩, .item ⟨.data, [10], none⟩]) := by decide +kernel

/-- the wire of a session whose only write is empty is just the salt; with no write it is empty -/
example : (encodeAll Crypto.toy Demo.ctx Demo.ss {} [([], {})]).1 = Demo.ss.salt ∧
    (encodeAll Crypto.toy Demo.ctx Demo.ss {} []).1 = [] := by decide +kernel

/-- the address ending exactly at a chunk boundary: the `ConnectTcp` item is emitted at once, with
empty data (byte-by-byte delivery of chunks `01 0a 00 00 | 01 01 bb | 07`) -/
example :
    (feedAll (serverCall Crypto.toy Demo.ctx Demo.env) (srvInit Demo.ss)
      ((Demo.salt ++ (encChunks Crypto.toy (newAuth Crypto.toy Demo.ctx.kind Demo.ctx.key Demo.salt)
        [[1, 10, 0, 0], [1, 1, 187], [7]]).1).map fun x => [x])).2 =
      [.item ⟨.connect, [], some Demo.ad⟩, .item ⟨.data, [7], none⟩] := by
  decide +kernel

end Octo.Ss

