import Octo.Proofs.VmessAddrGen
/-!
# C14 / C07 for the code itself: the VMess address codec and the request-header length guard

`protocol/vmess.rs` (`mod address`: `write_address_port`, `read_address_port`), with what they need from
`protocol/address.rs` (`enum Address`, `From<SocketAddr>`) and `protocol/vmess/header.rs` (`enum AddressType`, its
discriminants, `AddressType::new`), and `check_header_length` of the server's `server/vmess.rs` are translated statement by
statement on every run (`translate_vmaddr.py` → `Octo/Gen/VmessAddrGen.lean`; cursor reads, slice indexing and `panic!` are
explicit panic outcomes, exact `usize`/`u8` arithmetic with both overflow profiles, `as` casts truncate) and proved equal
to the hand models `Octo.VmessAddr` and the guard of `Octo.Vmess.parseRequest`; hence they have the C14 / C07 properties.
Property theorems only; the equivalences are in `Octo/Proofs/VmessAddrGen.lean`
(`write_eq`, `read_eq`, `check_eval`, `check_eq`, `requestFields_guarded`).
-/
namespace Octo.VmessAddrGen
open Octo Octo.PWGen

/-! ## (a) generated = model -/

/-- **writer = model**, every address, every buffer content, both profiles: the generated `write_address_port` appends exactly
the model's bytes and returns `Ok(())` — or panics, exactly when the model does (an empty domain name); it never returns
`Err` -/
theorem c14_generated_vmess_write_eq (ov : Bool) (x : Address) (buf : Bytes) :
    write_address_port ov x buf = liftWrite buf (VmessAddr.write (toAddr x)) :=
  write_eq ov x buf

/-- the same, from the model's side: for every well-formed model address -/
theorem c14_generated_vmess_write (ov : Bool) (a : Addr) (buf : Bytes) (h : a.WF) :
    write_address_port ov (ofAddr a) buf = liftWrite buf (VmessAddr.write a) := by
  rw [write_eq, toAddr_ofAddr a h]

/-- **reader = model**, every buffer content whatsoever (no bound on the length is needed: the reader never asks for
`remaining()`), both profiles: same outcome class — the same panics included — same address, same unread rest -/
theorem c14_generated_vmess_read_eq (ov : Bool) (u : Bytes → Bool) (b : Bytes) :
    embedRead (read_address_port ov u b) = VmessAddr.read u b :=
  read_eq ov u b

/-- the writer cannot panic on an address the local handshake admits (nor on any non-empty name, nor on any socket address) -/
theorem c14_generated_vmess_write_no_panic (ov : Bool) (x : Address) (buf : Bytes) (h : (toAddr x).Accepted) :
    write_address_port ov x buf ≠ PWGen.Res.panic := by
  intro hp
  obtain ⟨p, hx⟩ := (write_panic_iff ov x buf).mp hp
  subst hx
  exact absurd h.1 (by simp)

/-- the reader panics exactly on a buffer shorter than its own fields say, or on a type byte other than 1, 2, 3 -/
theorem c07_generated_vmess_read_panic_iff (ov : Bool) (u : Bytes → Bool) (b : Bytes) :
    read_address_port ov u b = PWGen.Res.panic ↔
      (b.length < 3 ∨ (b.getD 2 0 ≠ 1 ∧ b.getD 2 0 ≠ 2 ∧ b.getD 2 0 ≠ 3) ∨ (b.getD 2 0 = 1 ∧ b.length < 3 + 4) ∨
        (b.getD 2 0 = 2 ∧ (b.length < 4 ∨ b.length < 4 + (b.getD 3 0).toNat)) ∨ (b.getD 2 0 = 3 ∧ b.length < 3 + 16)) :=
  read_panic_iff ov u b

/-! ## (b) round trip; refusals -/

/-- **C14 for the generated code, round trip**: for every accepted address (domain names of 1..=255 bytes that are valid
UTF-8, every socket address), every buffer content and every trailing payload, in both build profiles, the generated
`write_address_port` never panics, returns `Ok(())` having appended some `w`, and the generated `read_address_port` of `w`
followed by the tail returns exactly that address and leaves exactly the tail.  Lifted from `c14_vmess_roundtrip`. -/
theorem c14_generated_vmess_roundtrip (ov : Bool) (u : Bytes → Bool) (a : Addr) (buf tail : Bytes) (h : a.Accepted)
    (hu : ∀ host p, a = .domain host p → u host = true) :
    ∃ w, write_address_port ov (ofAddr a) buf = PWGen.Res.ok (buf ++ w, RResult.ok ()) ∧
      read_address_port ov u (w ++ tail) = PWGen.Res.ok (tail, RResult.ok (ofAddr a)) := by
  have hwf : a.WF := by
    cases a with
    | domain host p => exact h.2.2
    | v4 ip p => exact h
    | v6 ip p => exact h
  obtain ⟨w, hw, hr⟩ := c14_vmess_roundtrip u a tail h hu
  refine ⟨w, by rw [c14_generated_vmess_write ov a buf hwf, hw]; rfl, ?_⟩
  rw [← read_eq ov u] at hr
  cases hd : read_address_port ov u (w ++ tail) with
  | panic => rw [hd] at hr; simp [embedRead] at hr
  | ok r =>
    obtain ⟨rest, res⟩ := r
    cases res with
    | err => rw [hd] at hr; simp [embedRead] at hr
    | ok x =>
      rw [hd] at hr
      simp only [embedRead, Octo.Res.ok.injEq, Prod.mk.injEq] at hr
      have hn := read_normal ov u _ _ _ hd
      rw [← hr.1, ofAddr_toAddr, hn, hr.2]

/-- the same for a value of the Rust type: what comes back is the address itself, except that an IPv6 socket address comes
back with `flowinfo = scope_id = 0` (`normalize`) — the wire format has no room for them and the reader builds the address
with `SocketAddrV6::new(.., 0, 0)` -/
theorem c14_generated_vmess_roundtrip_rust (ov : Bool) (u : Bytes → Bool) (x : Address) (buf tail : Bytes)
    (h : (toAddr x).Accepted) (hu : ∀ host p, toAddr x = .domain host p → u host = true) :
    ∃ w, write_address_port ov x buf = PWGen.Res.ok (buf ++ w, RResult.ok ()) ∧
      read_address_port ov u (w ++ tail) = PWGen.Res.ok (tail, RResult.ok (normalize x)) := by
  obtain ⟨w, hw, hd⟩ := c14_generated_vmess_roundtrip ov u (toAddr x) buf tail h hu
  rw [ofAddr_toAddr] at hd
  rw [write_eq, toAddr_ofAddr _ (toAddr_wf x)] at hw
  exact ⟨w, by rw [write_eq]; exact hw, hd⟩

/-- **an empty name is refused, and the refusal is a panic** (`panic!("Empty destination address")`), not an `Err`: both
profiles, every port, every buffer content.  The check is the first statement of the arm, in front of every `put_*`; the
panic outcome of the calculus carries no buffer state, so "nothing has been written" is visible in the generated text
(`Octo/Gen/VmessAddrGen.lean`, the `if (RString.is_empty host)` is bound before the first `Cursor.put_u16`) but is not part
of this statement. -/
theorem c14_generated_vmess_empty_name_panics (ov : Bool) (p : UInt16) (buf : Bytes) :
    write_address_port ov (Address.Domain ⟨[]⟩ p) buf = PWGen.Res.panic :=
  (write_panic_iff ov _ buf).mpr ⟨p, rfl⟩

/-- **an over-long name is *not* refused** by `write_address_port` (no `Err`, no panic): every non-empty name, of whatever
length, is written with the length byte `len as u8`, i.e. truncated modulo 256.  Only the admission guard of the local
handshake (`Addr.Accepted`: at most 255 bytes) keeps such a name away from the writer. -/
theorem c14_generated_vmess_overlong_name_written (ov : Bool) (host : Bytes) (p : UInt16) (buf : Bytes) (hne : host ≠ []) :
    write_address_port ov (Address.Domain ⟨host⟩ p) buf
      = PWGen.Res.ok (buf ++ (be16 p.toNat ++ [2, u8 host.length] ++ host), RResult.ok ()) := by
  rw [write_eq]
  simp [toAddr, VmessAddr.write, liftWrite, hne]

/-- … and does not round-trip: a 256-byte name is written with length byte 0 and read back as the *empty* name, the 256
name bytes being left unread in front of whatever follows (evaluated on the generated code) -/
theorem c14_generated_vmess_unguarded_writer_truncates :
    write_address_port true (Address.Domain ⟨List.replicate 256 (97 : UInt8)⟩ 80) []
      = PWGen.Res.ok ([0, 80, 2, 0] ++ List.replicate 256 (97 : UInt8), RResult.ok ()) ∧
    read_address_port true (fun _ => true) ([0, 80, 2, 0] ++ List.replicate 256 (97 : UInt8))
      = PWGen.Res.ok (List.replicate 256 (97 : UInt8), RResult.ok (Address.Domain ⟨[]⟩ 80)) := by
  decide +kernel

/-- an IPv6 socket address with a scope id (`[fe80::1%3]:443`) does not come back equal: the wire form drops `scope_id` and
the reader builds the address with `0` -/
theorem c14_generated_vmess_scope_id_lost :
    let x := Address.Socket (SocketAddr.V6 ⟨⟨0xfe800000000000000000000000000001#128⟩, 443, 0, 3⟩)
    ∃ w, write_address_port true x [] = PWGen.Res.ok (w, RResult.ok ()) ∧
      read_address_port true (fun _ => true) w = PWGen.Res.ok ([], RResult.ok (normalize x)) ∧ normalize x ≠ x := by
  refine ⟨[1, 187, 3, 0xfe, 0x80, 0, 0, 0, 0, 0, 0, 0, 0, 0, 0, 0, 0, 0, 1], by decide +kernel, by decide +kernel, by decide +kernel⟩

/-! ## (c) `check_header_length` -/

/-- **the generated `check_header_length` never panics**: every byte string whatsoever (no bound on its length), both build
profiles — `header[35]`, `header[FIXED - 1]` and `header[FIXED]` are reached only behind the length tests that cover them,
and none of the `usize` additions overflows -/
theorem c07_generated_vmess_check_never_panics (ov : Bool) (h : Bytes) : check_header_length ov h ≠ PWGen.Res.panic :=
  check_no_panic ov h

/-- **what `Ok(())` means** (no bound on the length): the header has its 41 fixed bytes, and
`header.len() ≥ 41 + address_len + padding_len + 4` where `address_len` is determined by the type byte exactly as the parser
will read it — 4 for type 1, `1 + header[41]` for type 2 (and `header[41]` exists), 16 for type 3, nothing else is accepted —
and `padding_len` is the high nibble of byte 35 -/
theorem c07_generated_vmess_check_ok_length (ov : Bool) (h : Bytes)
    (hok : check_header_length ov h = PWGen.Res.ok (RResult.ok ())) :
    41 ≤ h.length ∧ ∃ al, 41 + al + (h.getD 35 0).toNat / 16 + 4 ≤ h.length ∧
      ((h.getD 40 0 = 1 ∧ al = 4) ∨ (h.getD 40 0 = 2 ∧ 41 < h.length ∧ al = 1 + (h.getD 41 0).toNat) ∨
        (h.getD 40 0 = 3 ∧ al = 16)) := by
  obtain ⟨h41, al, hal, hlen⟩ := check_ok_imp ov h hok
  refine ⟨h41, al, hlen, ?_⟩
  rw [addrFieldLen_eq] at hal
  by_cases t1 : h.getD 40 0 = 1
  · rw [if_pos t1] at hal; exact Or.inl ⟨t1, (Option.some.inj hal).symm⟩
  · rw [if_neg t1] at hal
    by_cases t2 : h.getD 40 0 = 2
    · rw [if_pos t2] at hal
      by_cases hl : h.length > 41
      · rw [if_pos hl] at hal; exact Or.inr (Or.inl ⟨t2, hl, (Option.some.inj hal).symm⟩)
      · rw [if_neg hl] at hal; cases hal
    · rw [if_neg t2] at hal
      by_cases t3 : h.getD 40 0 = 3
      · rw [if_pos t3] at hal; exact Or.inr (Or.inr ⟨t3, (Option.some.inj hal).symm⟩)
      · rw [if_neg t3] at hal; cases hal

/-- **generated check = the guard of the model's request parser** (`headerGuard` = the two length tests at the head of
`Vmess.parseRequest`, which the model does not have as a function of its own), both profiles, every header of a length a Rust
slice can have -/
theorem c07_generated_vmess_check_eq (ov : Bool) (h : Bytes) (hlen : h.length < 2 ^ 64) :
    embedCheck (check_header_length ov h) = headerGuard h :=
  check_eq ov h hlen

/-- a header the generated check refuses is refused by the model's parser -/
theorem c07_generated_vmess_check_err_parse_err (ov : Bool) (C : Crypto) (u : Bytes → Bool) (h : Bytes)
    (hlen : h.length < 2 ^ 64) (herr : check_header_length ov h = PWGen.Res.ok RResult.err) :
    Vmess.parseRequest C u h = .err := by
  apply parseRequest_guard_err
  rw [← check_eq ov h hlen, herr]; rfl

/-- **hence every read of the request parser stays in bounds**: when the generated check returns `Ok(())`, the field parse
written with the panicking cursor reads of the Rust and *no* guard (`requestFields`) is the model's `parseRequest` and does
not panic; and the generated `read_address_port`, called where the Rust calls it (behind the 38 bytes in front of the port),
does not panic and leaves the cursor exactly behind the address field, with `padding_len + 4` bytes or more still to read -/
theorem c07_generated_vmess_reads_in_bounds (ov : Bool) (C : Crypto) (u : Bytes → Bool) (h : Bytes)
    (hok : check_header_length ov h = PWGen.Res.ok (RResult.ok ())) :
    requestFields C u h = Vmess.parseRequest C u h ∧ requestFields C u h ≠ .panic ∧
    ∃ al res, read_address_port ov u (h.drop 38) = PWGen.Res.ok (h.drop (41 + al), res) ∧
      (h.getD 35 0).toNat / 16 + 4 ≤ (h.drop (41 + al)).length := by
  obtain ⟨h41, al, hal, hlen⟩ := check_ok_imp ov h hok
  have hg : headerGuard h = .ok () := (headerGuard_ok_iff h).mpr ⟨h41, al, hal, hlen⟩
  obtain ⟨k1, k2⟩ := requestFields_guarded C u h hg
  refine ⟨k1, k2, al, ?_⟩
  obtain ⟨_, _, _, _, hr, _, _⟩ := Vmess.c07_vmess_parseRequest_reads_in_bounds u h al (by omega) hal (by omega)
  have hlen' : (h.getD 35 0).toNat / 16 + 4 ≤ (h.drop (41 + al)).length := by
    rw [List.length_drop]
    have : Vmess.padLenOf h = (h.getD 35 0).toNat / 16 := rfl
    omega
  have hm := read_eq ov u (h.drop 38)
  cases hd : read_address_port ov u (h.drop 38) with
  | panic =>
    rw [hd] at hm
    rcases hr with hr | ⟨addr, hr⟩ <;> rw [hr] at hm <;> simp [embedRead] at hm
  | ok r =>
    obtain ⟨rest, res⟩ := r
    cases res with
    | ok x =>
      rw [hd] at hm
      rcases hr with hr | ⟨addr, hr⟩
      · rw [hr] at hm; simp [embedRead] at hm
      · rw [hr] at hm
        simp only [embedRead, Octo.Res.ok.injEq, Prod.mk.injEq] at hm
        exact ⟨RResult.ok x, by rw [hm.2], hlen'⟩
    | err =>
      -- a name that is not UTF-8: the cursor is behind the name (`read_err_rest`), which is behind the address field
      obtain ⟨l, hl, hrest, ht, _⟩ := read_err_rest ov u _ _ hd
      have hd0 : ∀ i, (h.drop 38).getD i 0 = h.getD (38 + i) 0 := by
        intro i; simp [List.getD_eq_getElem?_getD, List.getElem?_drop]
      have hd2 : (h.drop 38).getD 2 0 = h.getD 40 0 := hd0 2
      have hd3 : (h.drop 38).getD 3 0 = h.getD 41 0 := hd0 3
      rw [hd2] at ht
      rw [hd3] at hl
      have hal2 : al = 1 + (h.getD 41 0).toNat := by
        rw [addrFieldLen_eq, ht] at hal
        simp only [show ¬ ((2 : UInt8) = 1) by decide, if_false, if_true] at hal
        split at hal
        · exact (Option.some.inj hal).symm
        · cases hal
      refine ⟨RResult.err, ?_, hlen'⟩
      have e : ∀ n m, n = m → (PWGen.Res.ok (h.drop n, (RResult.err : RResult Address)) : PWGen.Res _) =
          PWGen.Res.ok (h.drop m, RResult.err) := by intro n m hnm; rw [hnm]
      rw [hrest, List.drop_drop, ← hl, hal2]
      exact e _ _ (by omega)

/-- without the guard the field parse does panic: a 41-byte header (TCP command, port 80) that announces an IPv4 address has no
address bytes -/
theorem c07_generated_vmess_unguarded_fields_panic :
    requestFields Crypto.toy (fun _ => true) (List.replicate 37 (0 : UInt8) ++ [1, 0, 80, 1]) = .panic ∧
    check_header_length true (List.replicate 37 (0 : UInt8) ++ [1, 0, 80, 1]) = PWGen.Res.ok RResult.err := by
  decide +kernel

/-! ### non-vacuity: the hypotheses hold for concrete inputs, and the generated code, evaluated, agrees -/

/-- www.w3.org:4095 as a model address -/
def w3 : Addr := .domain [119, 119, 119, 46, 119, 51, 46, 111, 114, 103] 4095

example : w3.Accepted ∧ (∀ host p, w3 = .domain host p → (fun _ => true) host = true) := by
  refine ⟨by decide, fun _ _ _ => rfl⟩
example : (Addr.v4 [192, 168, 1, 1] 443).Accepted ∧ (Addr.v6 (List.replicate 16 (1 : UInt8)) 443).Accepted := by decide
example : (toAddr (Address.Domain ⟨[119, 51]⟩ 80)).Accepted := by decide
example : write_address_port true (ofAddr w3) [9] =
    PWGen.Res.ok ([9, 15, 255, 2, 10, 119, 119, 119, 46, 119, 51, 46, 111, 114, 103], RResult.ok ()) := by decide
example : read_address_port true (fun _ => true) ([15, 255, 2, 10, 119, 119, 119, 46, 119, 51, 46, 111, 114, 103] ++ [1, 2, 3])
    = PWGen.Res.ok ([1, 2, 3], RResult.ok (ofAddr w3)) := by decide
example : read_address_port false (fun _ => true) ([1, 187, 1, 192, 168, 1, 1] ++ [7])
    = PWGen.Res.ok ([7], RResult.ok (ofAddr (Addr.v4 [192, 168, 1, 1] 443))) := by decide
example : read_address_port true (fun _ => false) [1, 187, 2, 2, 119, 51, 5] = PWGen.Res.ok ([5], RResult.err) := by decide
example : read_address_port true (fun _ => true) [1, 187, 2, 3, 119, 51] = PWGen.Res.panic := by decide
example : read_address_port true (fun _ => true) [1, 187, 4, 0, 0, 0, 0] = PWGen.Res.panic := by decide
example : read_address_port true (fun _ => true) [1, 187] = PWGen.Res.panic := by decide
example : write_address_port false (Address.Domain ⟨[]⟩ 80) [1, 2] = PWGen.Res.panic := by decide

/-- a 52-byte request header: version, iv, key, response byte, options, P = 3 | security, reserved, TCP, port 443,
type 1, 4 address bytes, 3 padding bytes, 4 checksum bytes -/
def hdr4 : Bytes := List.replicate 35 (0 : UInt8) ++ [0x33, 0, 1, 1, 187, 1] ++ [10, 0, 0, 1] ++ [0, 0, 0] ++ [1, 2, 3, 4]

example : check_header_length true hdr4 = PWGen.Res.ok (RResult.ok ()) := by decide +kernel
example : check_header_length false hdr4 = PWGen.Res.ok (RResult.ok ()) := by decide +kernel
example : hdr4.length = 41 + 4 + 3 + 4 ∧ hdr4.length < 2 ^ 64 := by decide +kernel
example : check_header_length true (hdr4.take 51) = PWGen.Res.ok RResult.err := by decide +kernel
/-- a name header: type 2, length byte 3, "abc", no padding, checksum -/
def hdrName : Bytes := List.replicate 35 (0 : UInt8) ++ [0x03, 0, 1, 1, 187, 2] ++ [3, 97, 98, 99] ++ [1, 2, 3, 4]
example : check_header_length true hdrName = PWGen.Res.ok (RResult.ok ()) := by decide +kernel
example : check_header_length true (hdrName.take 41) = PWGen.Res.ok RResult.err := by decide +kernel
example : check_header_length true (hdrName.take 48) = PWGen.Res.ok RResult.err := by decide +kernel
example : check_header_length true (List.replicate 35 (0 : UInt8) ++ [0, 0, 1, 1, 187, 9] ++ List.replicate 30 0)
    = PWGen.Res.ok RResult.err := by decide +kernel
example : check_header_length true [] = PWGen.Res.ok RResult.err := by decide

end Octo.VmessAddrGen
