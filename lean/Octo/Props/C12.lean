import Octo.Props.C03
import Octo.Model.Vmess
/-!
# C12 — no key ever encrypts two messages with the same nonce
-/
namespace Octo

/-- **Shadowsocks streams**: the i-th and j-th AEAD operation of one direction of one session use
different nonces whenever i ≠ j, up to the 2^96 operations the 12-byte counter allows; together with
`c03_ss_nonce_sequence` (operation c uses exactly nonce c, one generator step per seal/open) no two
chunks of a session are sealed under the same (key, nonce). -/
theorem c12_ss_stream_nonces_distinct (i j : Nat) (hi : i < 2 ^ 96) (hj : j < 2 ^ 96) (hne : i ≠ j) :
    Spec.leNonce i ≠ Spec.leNonce j := by
  rw [spec_leNonce, spec_leNonce]
  intro h
  exact hne (Nonce.le_injective 12 i j (by simpa using hi) (by simpa using hj) h)

/-- the generator state after c operations determines c (mod 2^96): states never repeat before the
counter wraps, so a session cannot fall back to an earlier nonce -/
theorem c12_ss_generator_states_distinct (i j : Nat) (hi : i < 2 ^ 96) (hj : j < 2 ^ 96) (hne : i ≠ j) :
    Nat.repeat Nonce.incStep (i + 1) Nonce.incInit ≠ Nat.repeat Nonce.incStep (j + 1) Nonce.incInit := by
  rw [Nonce.nth_nonce, Nonce.nth_nonce]
  intro h
  exact hne (Nonce.le_injective 12 i j (by simpa using hi) (by simpa using hj) h)

/-- **VMess bodies**: chunk `c` is sealed with nonce `count(2, big-endian) ‖ IV[2..12]`; distinct
counts below 2^16 (the width the protocol defines) give distinct nonces -/
theorem c12_vmess_counting_distinct (iv : Bytes) (hiv : 12 ≤ iv.length) (i j : Nat) (hi : i < 65536) (hj : j < 65536) (hne : i ≠ j) :
    Nonce.counting iv i 12 ≠ Nonce.counting iv j 12 := by
  unfold Nonce.counting
  intro h
  have h2 : ((be16 (i % 65536) ++ iv.drop 2).take 12).take 2 = ((be16 (j % 65536) ++ iv.drop 2).take 12).take 2 := by rw [h]
  simp only [List.take_take, be16, List.cons_append, List.nil_append, List.take_succ_cons, List.take_zero] at h2
  simp only [Nat.min_def] at h2
  simp only [List.cons.injEq, and_true] at h2
  have a1 := congrArg UInt8.toNat h2.1
  have a2 := congrArg UInt8.toNat h2.2
  simp only [u8_toNat] at a1 a2
  omega

/-- each VMess chunk takes exactly one count: the body codec's counter after encoding a chunk -/
theorem c12_vmess_one_count_per_chunk (C : Crypto) (b : Vmess.Body) (src pad : Bytes) :
    (b.encodeChunk C src pad).2.2.count = b.count + 1 := by
  unfold Vmess.Body.encodeChunk
  simp only []
  have h1 : ∀ (b : Vmess.Body), (b.nextPadding C).2.count = b.count := by
    intro b; unfold Vmess.Body.nextPadding; split <;> rfl
  have h2 : ∀ (b : Vmess.Body) (n : Nat), (b.encodeSize C n).2.count = b.count := by
    intro b n; unfold Vmess.Body.encodeSize; split <;> rfl
  simp [h1, h2]

/-- **UDP packet ids**: a session's next id is the successor, and a session that has used the last
id stops instead of wrapping -/
def nextPacketId (id : Nat) : Option Nat := if id + 1 < 2 ^ 64 then some (id + 1) else none

theorem c12_udp_ids_strictly_increase (id id' : Nat) (h : nextPacketId id = some id') : id < id' ∧ id' < 2 ^ 64 := by
  unfold nextPacketId at h
  split at h
  · cases h; omega
  · cases h

theorem c12_udp_no_wrap : nextPacketId (2 ^ 64 - 1) = none := by decide

/-- the AES variants of Shadowsocks-2022 UDP use bytes 4..16 of (session id ‖ packet id) as the
nonce: distinct packet ids of one session give distinct nonces -/
theorem c12_udp_aes_nonce_distinct (sid p q : Nat) (hp : p < 2 ^ 64) (hq : q < 2 ^ 64) (hne : p ≠ q) :
    (be64 sid ++ be64 p).drop 4 ≠ (be64 sid ++ be64 q).drop 4 := by
  intro h
  have h2 : ((be64 sid ++ be64 p).drop 4).drop 4 = ((be64 sid ++ be64 q).drop 4).drop 4 := by rw [h]
  simp only [List.drop_drop] at h2
  have e : ∀ x, (be64 sid ++ be64 x).drop 8 = be64 x := by
    intro x; exact List.drop_left' (be64_length sid)
  rw [e, e] at h2
  have := congrArg rdBE h2
  rw [rdBE_be64 p (by simpa using hp), rdBE_be64 q (by simpa using hq)] at this
  exact hne this

end Octo
