import Octo.Model.Vmess
/-!
# C12 — VMess: the length cipher of the AuthenticatedLength option is shared by both directions (a finding)

"No two ciphertexts under one key share a nonce … both directions".  The payload ciphers of the two directions of a
VMess session have their own keys and IVs (request key / IV, and their SHA-256 images for the response).  The *length*
cipher does not: `AEADBodyCodec::new` takes `session.chunk_key()` and the codec takes `session.chunk_nonce()` for it,
and `protocol/vmess/session.rs` returns the **request** body key and IV from both — for the client's session and for the
server's (as the reference implementation does; the Spec transcription `Spec.vmessChunkAuthLen` says the same).  So the
i-th size field a client writes and the i-th size field the server writes back are sealed under the same key and the
same nonce.  This is a property of the code as it is (recorded in `KNOWN_FINDINGS.txt`, observed on the real wires by
`bin/check C12`: both size fields open under one key and nonce), not repaired: the wire format is the protocol's.
-/
namespace Octo.Vmess

/-- the request encoder (client) and the response encoder (server) of one session, any option mask and cipher: the
length cipher has the same key and the same nonce base in both -/
theorem c12_vmess_length_cipher_shared_by_directions (C : Crypto) (mask : Nat) (sec : Security) (s : Session) :
    (Body.new C mask sec s.reqKey s.reqIv s).sizeKey = (Body.new C mask sec (s.respKey C) (s.respIv C) s).sizeKey ∧
    (Body.new C mask sec s.reqKey s.reqIv s).sizeIv = (Body.new C mask sec (s.respKey C) (s.respIv C) s).sizeIv ∧
    (Body.new C mask sec s.reqKey s.reqIv s).sizeCount = (Body.new C mask sec (s.respKey C) (s.respIv C) s).sizeCount :=
  ⟨rfl, rfl, rfl⟩

/-- hence, with authenticated length, the first size fields of the two directions are seals under one (key, nonce) of
two plaintexts that differ whenever the chunk sizes differ -/
theorem c12_vmess_first_size_fields_share_key_and_nonce (C : Crypto) (mask : Nat) (sec : Security) (s : Session) (n m : Nat)
    (h : hasOpt mask optAuthLen = true) :
    ∃ key nonce,
      ((Body.new C mask sec s.reqKey s.reqIv s).encodeSize C n).1 = C.sealB sec.alg key nonce [] (be16 (n - 16)) ∧
      ((Body.new C mask sec (s.respKey C) (s.respIv C) s).encodeSize C m).1 = C.sealB sec.alg key nonce [] (be16 (m - 16)) := by
  refine ⟨cipherKey C sec (kdf16 C s.reqKey [saltAuthLen]), Nonce.counting s.reqIv 0 12, ?_, ?_⟩ <;>
    simp [Body.new, Body.encodeSize, h]

/-- the payload ciphers, by contrast, are keyed per direction: their keys are what `new` is given -/
theorem c12_vmess_payload_cipher_per_direction (C : Crypto) (mask : Nat) (sec : Security) (key iv : Bytes) (s : Session) :
    (Body.new C mask sec key iv s).key = cipherKey C sec key ∧ (Body.new C mask sec key iv s).iv = iv := ⟨rfl, rfl⟩

end Octo.Vmess
