import Octo.Proofs.AddrGen
/-!
# C14 for the code itself: `protocol/socks5/address.rs` translated statement by statement on every run
(`translate_addr.py` → `Octo/Gen/AddrGen.lean`; cursor reads and slice indexing panic as in `bytes`, exact
`usize`/`u8` arithmetic, `as` casts truncate) equals the hand model `Octo.Socks5Addr`, hence has the C14 properties.
Property theorems only; the equivalences are in `Octo/Proofs/AddrGen.lean`
(`encode_eq`, `decode_eq`, `length_eq`, `try_decode_at_eq`).
-/
namespace Octo.AddrGen
open Octo Octo.PWGen

/-- the bytes the generated `encode` appends for an address are the model's -/
theorem c14_generated_encode (ov : Bool) (a : Addr) (dst : Bytes) (h : a.WF) :
    encode ov (ofAddr a) dst = PWGen.Res.ok (dst ++ Socks5Addr.encode a, ()) := by
  rw [encode_eq, toAddr_ofAddr a h]

/-- **C14 for the generated code, round trip**: for every accepted address (domain names of 1..=255 bytes, every socket
address) and every trailing payload, in both build profiles, the generated `encode` into an empty buffer never panics, and
the generated `decode` of what it wrote followed by the tail returns exactly that address and leaves exactly the tail.
`hlen` is the one fact about Rust buffers that a Lean list does not carry: their length fits a `usize` (it is at most
`isize::MAX`); `Buf::remaining()` is a `usize`. -/
theorem c14_generated_roundtrip (ov : Bool) (a : Addr) (tail : Bytes) (h : a.Accepted)
    (hlen : (Socks5Addr.encode a ++ tail).length < 2 ^ 64) :
    ∃ w, encode ov (ofAddr a) [] = PWGen.Res.ok (w, ()) ∧
      decode ov (w ++ tail) = PWGen.Res.ok (tail, RResult.ok (ofAddr a)) := by
  have hwf : a.WF := by
    cases a with
    | domain host p => exact h.2.2
    | v4 ip p => exact h
    | v6 ip p => exact h
  refine ⟨Socks5Addr.encode a, by simpa using c14_generated_encode ov a [] hwf, ?_⟩
  have hm := c14_socks5_roundtrip a tail h
  rw [← decode_eq ov _ hlen] at hm
  -- read the model-level result back through `embedDecode`
  cases hd : decode ov (Socks5Addr.encode a ++ tail) with
  | panic => rw [hd] at hm; simp [embedDecode] at hm
  | ok r =>
    obtain ⟨rest, res⟩ := r
    cases res with
    | err => rw [hd] at hm; simp [embedDecode] at hm
    | ok x =>
      rw [hd] at hm
      simp only [embedDecode, Octo.Res.ok.injEq, Prod.mk.injEq] at hm
      have hn := decode_normal ov _ _ _ hd
      rw [← hm.1, ofAddr_toAddr, hn, hm.2]


/-- the same for a value of the Rust type: what comes back is the address itself, except that an IPv6 socket address comes
back with `flowinfo = scope_id = 0` (`normalize`) — the wire format has no room for them -/
theorem c14_generated_roundtrip_rust (ov : Bool) (x : Address) (tail : Bytes) (h : (toAddr x).Accepted)
    (hlen : (Socks5Addr.encode (toAddr x) ++ tail).length < 2 ^ 64) :
    ∃ w, encode ov x [] = PWGen.Res.ok (w, ()) ∧
      decode ov (w ++ tail) = PWGen.Res.ok (tail, RResult.ok (normalize x)) := by
  obtain ⟨w, hw, hd⟩ := c14_generated_roundtrip ov (toAddr x) tail h hlen
  rw [ofAddr_toAddr] at hd
  rw [encode_eq, toAddr_ofAddr _ (toAddr_wf x)] at hw
  exact ⟨w, by rw [encode_eq]; exact hw, hd⟩

/-- **C14/C07 for the generated code, totality**: the generated `decode` never panics — for every byte string whatsoever
(no bound on its length) and in both build profiles: every cursor read and the `src[0]` it performs is covered by the
guards the Rust has. -/
theorem c14_generated_decode_never_panics (ov : Bool) (b : Bytes) : decode ov b ≠ PWGen.Res.panic :=
  decode_no_panic ov b

/-- the same fact obtained through the model: the equivalence `decode_eq` carries `c14_socks5_decode_total` over -/
theorem c14_generated_decode_never_panics_via_model (ov : Bool) (b : Bytes) (h : b.length < 2 ^ 64) :
    decode ov b ≠ PWGen.Res.panic := by
  intro hp
  have := decode_eq ov b h
  rw [hp] at this
  exact c14_socks5_decode_total b this.symm

/-- `length` of an accepted address is the number of bytes `encode` writes (both profiles, no panic) -/
theorem c14_generated_length (ov : Bool) (a : Addr) (h : a.Accepted) :
    length ov (ofAddr a) = PWGen.Res.ok (UInt64.ofNat (Socks5Addr.encode a).length) := by
  have hwf : a.WF := by
    cases a with
    | domain host p => exact h.2.2
    | v4 ip p => exact h
    | v6 ip p => exact h
  have hl := c14_socks5_length a hwf
  have hb : Socks5Addr.length a < 2 ^ 64 := by
    cases a with
    | domain host p => have := h.2.1; simp only [Socks5Addr.length]; omega
    | v4 ip p => simp [Socks5Addr.length]
    | v6 ip p => simp [Socks5Addr.length]
  rw [length_eq ov _ (by rw [toAddr_ofAddr a hwf]; exact hb), toAddr_ofAddr a hwf, hl]

/-- `try_decode_at` finds an accepted address at any offset of a buffer and reports its encoded length (both profiles,
no panic) -/
theorem c14_generated_try_decode_at (ov : Bool) (a : Addr) (pre tail : Bytes) (h : a.Accepted)
    (hlen : (pre ++ Socks5Addr.encode a ++ tail).length < 2 ^ 64) :
    ∃ n : Usize, try_decode_at ov (pre ++ Socks5Addr.encode a ++ tail) (UInt64.ofNat pre.length) = PWGen.Res.ok (RResult.ok n) ∧
      n.toNat = (Socks5Addr.encode a).length := by
  have hm := c14_socks5_try_decode_at a pre tail h
  have hp : (UInt64.ofNat pre.length).toNat = pre.length := by
    apply UInt64.toNat_ofNat_of_lt'
    show _ < 18446744073709551616
    simp only [List.length_append] at hlen
    omega
  have he := try_decode_at_eq ov _ (UInt64.ofNat pre.length) hlen
  rw [hp, hm] at he
  cases hr : try_decode_at ov (pre ++ Socks5Addr.encode a ++ tail) (UInt64.ofNat pre.length) with
  | panic => rw [hr] at he; simp [embedTry] at he
  | ok r =>
    cases r with
    | err => rw [hr] at he; simp [embedTry] at he
    | ok n =>
      rw [hr] at he
      simp only [embedTry, Octo.Res.ok.injEq] at he
      exact ⟨n, rfl, he⟩

/-! ### what the code does *not* guarantee (both facts are about the generated code, evaluated) -/

/-- the encoder alone does not round-trip an over-long name: `host.len() as u8` truncates, a 256-byte name is written with
length byte 0 (the hand model's `c14_unguarded_encoder_truncates`, now for the translated code) -/
theorem c14_generated_unguarded_encoder_truncates :
    encode true (Address.Domain ⟨List.replicate 256 (97 : UInt8)⟩ 80) []
      = PWGen.Res.ok ([3, 0] ++ List.replicate 256 (97 : UInt8) ++ [0, 80], ()) ∧
    decode true ([3, 0] ++ List.replicate 256 (97 : UInt8) ++ [0, 80])
      = PWGen.Res.ok (List.replicate 254 (97 : UInt8) ++ [0, 80], RResult.ok (Address.Domain ⟨[]⟩ 24929)) := by
  decide +kernel

/-- an IPv6 socket address with a scope id (`[fe80::1%3]:443`) does not come back equal: the wire form drops `scope_id` and
`decode` builds the address with `0` -/
theorem c14_generated_scope_id_lost :
    let x := Address.Socket (SocketAddr.V6 ⟨⟨0xfe800000000000000000000000000001#128⟩, 443, 0, 3⟩)
    ∃ w, encode true x [] = PWGen.Res.ok (w, ()) ∧ decode true w = PWGen.Res.ok ([], RResult.ok (normalize x)) ∧ normalize x ≠ x := by
  refine ⟨[4, 0xfe, 0x80, 0, 0, 0, 0, 0, 0, 0, 0, 0, 0, 0, 0, 0, 1, 1, 187], by decide +kernel, by decide +kernel, by decide +kernel⟩

/-! ### non-vacuity: the hypotheses hold for concrete addresses of every kind, and the generated code, evaluated, agrees -/
example : (Addr.domain [119, 51, 46, 111, 114, 103] 443).Accepted ∧
    (Socks5Addr.encode (Addr.domain [119, 51, 46, 111, 114, 103] 443) ++ [1, 2, 3]).length < 2 ^ 64 := by decide
example : (Addr.v4 [192, 168, 1, 1] 8080).Accepted ∧ (Addr.v6 (List.replicate 16 (1 : UInt8)) 443).Accepted := by decide
example : encode true (ofAddr (Addr.domain [119, 51, 46, 111, 114, 103] 443)) []
    = PWGen.Res.ok ([3, 6, 119, 51, 46, 111, 114, 103, 1, 187], ()) := by decide
example : decode true ([3, 6, 119, 51, 46, 111, 114, 103, 1, 187] ++ [1, 2, 3])
    = PWGen.Res.ok ([1, 2, 3], RResult.ok (ofAddr (Addr.domain [119, 51, 46, 111, 114, 103] 443))) := by decide
example : decode false ([1, 192, 168, 1, 1, 31, 144] ++ [9])
    = PWGen.Res.ok ([9], RResult.ok (ofAddr (Addr.v4 [192, 168, 1, 1] 8080))) := by decide
example : decode true [3, 6, 119, 51] = PWGen.Res.ok ([6, 119, 51], RResult.err) := by decide
example : decode true [9, 1, 2] = PWGen.Res.ok ([1, 2], RResult.err) := by decide
example : try_decode_at true [0, 0, 3, 6, 119, 51, 46, 111, 114, 103, 1, 187, 7] 2 = PWGen.Res.ok (RResult.ok 10) := by decide
example : try_decode_at true [0, 0, 3] 2 = PWGen.Res.panic := by decide
example : try_decode_at true [0, 0, 3] 3 = PWGen.Res.panic := by decide
example : length true (ofAddr (Addr.domain [119, 51, 46, 111, 114, 103] 443)) = PWGen.Res.ok 10 := by decide

end Octo.AddrGen
