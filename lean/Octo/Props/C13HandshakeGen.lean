import Octo.Proofs.HandshakeGen
/-!
  C13 (and the C14 / C07 parts that live in `client/handshake.rs`) for the code itself: `Octo.HandshakeGen` is written by
  `bin/translate_handshake.py` from `octo-squirrel-client/src/client/handshake.rs` on every check; the theorems below are
  the statements of `Props/C13.lean` about `recognize_http` / `check_address` restated for the generated functions
  (proofs in `Octo/Proofs/HandshakeGen.lean`).

  Representation: a `&str` is its UTF-8 bytes (`List UInt8`).  Hypotheses: `len < 2^64` (`str::len` is a `usize`; a Lean
  list does not carry that) and the invariant of the Rust type, `Str.valid` (well-formed UTF-8) - or only what is needed of
  it, `OkAfterAscii` (no continuation byte directly after an ASCII byte).  `ov` = the overflow-checks profile.
-/
namespace Octo.HandshakeGen
open Octo Octo.PWGen Octo.AddrGen

/-- **refinement**: on every method and every target (ASCII or not, of any length below 2^64, with or without scheme,
port, brackets, query) the translated `recognize_http` does not panic - every `&path[..]` index is in range and on a char
boundary, no `+ 1` / `+ 3` / `- 1` overflows, in both profiles - and returns exactly what the hand model
`Hs.recognizeHttp` returns -/
theorem c13_gen_recognize_http_refines (ov : Bool) (method path : List UInt8) (hl : path.length < 2 ^ 64)
    (hok : OkAfterAscii path) :
    recognize_http ov method path = .ok (ofModel (Hs.recognizeHttp method path)) :=
  recognize_http_eq_model ov method path hl hok
example : ([104, 116, 116, 112, 58, 47, 47, 195, 169, 58, 56, 48] : List UInt8).length < 2 ^ 64
    ∧ OkAfterAscii [104, 116, 116, 112, 58, 47, 47, 195, 169, 58, 56, 48] :=
  ⟨by decide, valid_ok _ (by decide +kernel)⟩

/-- the same under the invariant of `&str` itself (what `httparse` guarantees of the target: it checks `from_utf8`) -/
theorem c13_gen_recognize_http_refines_utf8 (ov : Bool) (method path : List UInt8) (hl : path.length < 2 ^ 64)
    (hv : Str.valid path = true) :
    recognize_http ov method path = .ok (ofModel (Hs.recognizeHttp method path)) :=
  recognize_http_eq_model_utf8 ov method path hl hv
example : (Hs.str "http://é.example:8080/x?y").length < 2 ^ 64 ∧ Str.valid (Hs.str "http://é.example:8080/x?y") = true :=
  ⟨by decide +kernel, by decide +kernel⟩
example (ov : Bool) : recognize_http ov (Hs.str "GET") (Hs.str "http://é.example:8080/x?y")
    = .ok (.ok (.Http (.Domain ⟨Hs.str "é.example"⟩ 8080))) := by
  rw [c13_gen_recognize_http_refines_utf8 ov _ _ (by decide +kernel) (by decide +kernel)]; decide +kernel

/-- every valid UTF-8 string satisfies the guard of the refinement -/
theorem c13_gen_utf8_is_ok (s : List UInt8) (h : Str.valid s = true) : OkAfterAscii s := valid_ok s h
example : Str.valid (Hs.str "日本語/?") = true := by decide +kernel

/-- **C07 for the recognition**: no input makes `recognize_http` panic -/
theorem c07_gen_recognize_http_total (ov : Bool) (method path : List UInt8) (hl : path.length < 2 ^ 64)
    (hok : OkAfterAscii path) : recognize_http ov method path ≠ .panic :=
  recognize_http_no_panic ov method path hl hok
example : OkAfterAscii [] := valid_ok [] rfl

/-- debug and release builds decide alike -/
theorem c13_gen_profile_independent (method path : List UInt8) (hl : path.length < 2 ^ 64) (hok : OkAfterAscii path) :
    recognize_http true method path = recognize_http false method path :=
  recognize_http_profile_independent method path hl hok
example : OkAfterAscii (Hs.str "/") := valid_ok _ (by decide +kernel)

/-- the guard is about the representation, not about the code: on a byte string that is not UTF-8 (a lone continuation
byte after "a://") the byte-level function reaches a slice off a char boundary - a panic the Rust cannot reach, a `&str`
being valid by construction - while the model, defined on all bytes, names the host `[0x80]` -/
theorem c13_gen_off_utf8 (ov : Bool) :
    recognize_http ov [71, 69, 84] [97, 58, 47, 47, 128] = .panic
    ∧ Hs.recognizeHttp [71, 69, 84] [97, 58, 47, 47, 128] = some (.http [128] 80)
    ∧ Str.valid [97, 58, 47, 47, 128] = false :=
  recognize_http_off_utf8 ov

/-- **absolute-form targets** (c13_http_authority): the host and port of the tunnel are exactly the URI's authority
(port 80 when absent), whatever ':' '/' "://" '?' the path and the query contain -/
theorem c13_gen_http_authority (ov : Bool) (t : Hs.Target) (h : t.WF) (method : List UInt8) (hm : method ≠ Hs.str "CONNECT")
    (hl : t.render.length < 2 ^ 64) (hv : Str.valid t.render = true) :
    recognize_http ov method t.render =
      .ok (.ok (.Http (.Domain ⟨t.authHost⟩
        (UInt16.ofNat (match t.port with | some p => (Hs.parseU16 p).getD 0 | none => 80))))) :=
  gen_http_authority ov t h method hm hl hv
example : Hs.ex4.WF ∧ Hs.str "GET" ≠ Hs.str "CONNECT" ∧ Hs.ex4.render.length < 2 ^ 64 ∧ Str.valid Hs.ex4.render = true :=
  ⟨Hs.ex4_wf, by decide +kernel, by decide +kernel, by decide +kernel⟩
example (ov : Bool) : recognize_http ov (Hs.str "GET") Hs.ex4.render
    = .ok (.ok (.Http (.Domain ⟨Hs.str "[fe80::1]"⟩ 8443))) :=
  (c13_gen_http_authority ov Hs.ex4 Hs.ex4_wf (Hs.str "GET") (by decide +kernel) (by decide +kernel) (by decide +kernel)).trans
    (by decide +kernel)

/-- **CONNECT** (c13_connect_authority): `host:port` gives exactly that host and port -/
theorem c13_gen_connect_authority (ov : Bool) (host p : List UInt8) (v : Nat)
    (hhost : ∀ b ∈ host, b ≠ Hs.ch '/' ∧ b ≠ Hs.ch '?') (hp : Hs.parseU16 p = some v) (hd : ∀ b ∈ p, Hs.isDigit b = true)
    (hl : (host ++ Hs.ch ':' :: p).length < 2 ^ 64) (hv : Str.valid (host ++ Hs.ch ':' :: p) = true) :
    recognize_http ov (Hs.str "CONNECT") (host ++ Hs.ch ':' :: p) = .ok (.ok (.Https (.Domain ⟨host⟩ (UInt16.ofNat v)))) :=
  gen_connect_authority ov host p v hhost hp hd hl hv
example (ov : Bool) : recognize_http ov (Hs.str "CONNECT") (Hs.str "[::1]" ++ Hs.ch ':' :: Hs.str "443")
    = .ok (.ok (.Https (.Domain ⟨Hs.str "[::1]"⟩ 443))) :=
  c13_gen_connect_authority ov _ _ 443 (by decide +kernel) (by decide +kernel) (by decide +kernel) (by decide +kernel)
    (by decide +kernel)

/-- **origin-form refused** (c13_origin_form_refused): a target whose part before the query starts with '/' opens no
tunnel for any method but CONNECT, even when "://" occurs further on -/
theorem c13_gen_origin_form_refused (ov : Bool) (method path : List UInt8) (hm : method ≠ Hs.str "CONNECT")
    (h : (Hs.beforeQuery path).head? = some (Hs.ch '/')) (hl : path.length < 2 ^ 64) (hv : Str.valid path = true) :
    recognize_http ov method path = .ok .err :=
  gen_origin_form_refused ov method path hm h hl hv
example (ov : Bool) : recognize_http ov (Hs.str "GET") (Hs.str "/x://evil.example/") = .ok .err :=
  c13_gen_origin_form_refused ov _ _ (by decide +kernel) (by decide +kernel) (by decide +kernel) (by decide +kernel)

/-- **bad port refused** (c13_bad_port_refused): a port that is present but not a decimal `u16` (empty, non-numeric,
above 65535) refuses the request -/
theorem c13_gen_bad_port_refused (ov : Bool) (t : Hs.Target) (h : t.Shape) (p : List UInt8) (hp : t.port = some p)
    (hbad : Hs.parseU16 p = none) (method : List UInt8) (hm : method ≠ Hs.str "CONNECT")
    (hl : t.render.length < 2 ^ 64) (hv : Str.valid t.render = true) :
    recognize_http ov method t.render = .ok .err :=
  gen_bad_port_refused ov t h p hp hbad method hm hl hv
example (ov : Bool) : recognize_http ov (Hs.str "GET") (Hs.str "http://h:65536/") = .ok .err := by
  rw [c13_gen_recognize_http_refines_utf8 ov _ _ (by decide +kernel) (by decide +kernel)]; decide +kernel
example : ({ Hs.ex1 with port := some (Hs.str "65536") } : Hs.Target).Shape ∧ Hs.parseU16 (Hs.str "65536") = none :=
  ⟨⟨by decide +kernel, by decide +kernel, by decide +kernel, by intro p hp; cases hp; decide +kernel, by decide +kernel⟩,
   by decide +kernel⟩

/-- CONNECT with a bad port is refused -/
theorem c13_gen_connect_bad_port_refused (ov : Bool) (host p : List UInt8)
    (hhost : ∀ b ∈ host, b ≠ Hs.ch '/' ∧ b ≠ Hs.ch '?')
    (hp : ∀ b ∈ p, b ≠ Hs.ch ':' ∧ b ≠ Hs.ch '/' ∧ b ≠ Hs.ch '?') (hbad : Hs.parseU16 p = none)
    (hl : (host ++ Hs.ch ':' :: p).length < 2 ^ 64) (hv : Str.valid (host ++ Hs.ch ':' :: p) = true) :
    recognize_http ov (Hs.str "CONNECT") (host ++ Hs.ch ':' :: p) = .ok .err :=
  gen_connect_bad_port_refused ov host p hhost hp hbad hl hv
example (ov : Bool) : recognize_http ov (Hs.str "CONNECT") (Hs.str "h" ++ Hs.ch ':' :: Hs.str "99999") = .ok .err :=
  c13_gen_connect_bad_port_refused ov _ _ (by decide +kernel) (by decide +kernel) (by decide +kernel) (by decide +kernel)
    (by decide +kernel)

/-- **CONNECT without a port refused** (c13_connect_without_port_refused) -/
theorem c13_gen_connect_without_port_refused (ov : Bool) (a : List UInt8)
    (ha : ∀ b ∈ a, b ≠ Hs.ch ':' ∧ b ≠ Hs.ch '/' ∧ b ≠ Hs.ch '?') (hl : a.length < 2 ^ 64) (hv : Str.valid a = true) :
    recognize_http ov (Hs.str "CONNECT") a = .ok .err :=
  gen_connect_without_port_refused ov a ha hl hv
example (ov : Bool) : recognize_http ov (Hs.str "CONNECT") (Hs.str "example.com") = .ok .err :=
  c13_gen_connect_without_port_refused ov _ (by decide +kernel) (by decide +kernel) (by decide +kernel)

/-- **`check_address` = the model's admission** (C14): on a domain name the translated function never panics and lets
through exactly what `Hs.admitHost` lets through, unchanged -/
theorem c14_gen_check_address_refines (ov : Bool) (h : RString) (p : UInt16) (hl : h.bytes.length < 2 ^ 64) :
    check_address ov (.Domain h p) =
      .ok (match Hs.admitHost h.bytes p.toNat with
        | some _ => .ok (.Domain h p)
        | none => .err) :=
  check_address_domain ov h p hl
example : (⟨Hs.str "example.com"⟩ : RString).bytes.length < 2 ^ 64 := by decide +kernel

/-- a socket address passes unchanged -/
theorem c14_gen_check_address_socket (ov : Bool) (a : SocketAddr) : check_address ov (.Socket a) = .ok (.ok (.Socket a)) :=
  check_address_socket ov a

/-- **a domain name longer than 255 bytes is refused** (it would not fit the one-byte length prefix of any outbound
protocol) -/
theorem c14_gen_long_domain_refused (ov : Bool) (h : RString) (p : UInt16) (hl : h.bytes.length < 2 ^ 64)
    (hlong : 255 < h.bytes.length) : check_address ov (.Domain h p) = .ok .err :=
  check_address_long_refused ov h p hl hlong
example (ov : Bool) : check_address ov (.Domain ⟨List.replicate 256 120⟩ 80) = .ok .err :=
  c14_gen_long_domain_refused ov _ _ (by decide +kernel) (by decide +kernel)

/-- the empty domain name is refused -/
theorem c14_gen_empty_domain_refused (ov : Bool) (p : UInt16) : check_address ov (.Domain ⟨[]⟩ p) = .ok .err :=
  check_address_empty_refused ov p

/-- **what is admitted is representable**: an admitted domain address is returned unchanged and is `Addr.Accepted`
(1..=255 bytes, the hypothesis of the C14 round-trip theorems) -/
theorem c14_gen_admitted_is_accepted (ov : Bool) (h : RString) (p : UInt16) (hl : h.bytes.length < 2 ^ 64) (a' : Address)
    (hok : check_address ov (.Domain h p) = .ok (.ok a')) : a' = .Domain h p ∧ (toAddr a').Accepted :=
  check_address_ok_inv ov h p hl a' hok
example (ov : Bool) : check_address ov (.Domain ⟨List.replicate 255 120⟩ 80) = .ok (.ok (.Domain ⟨List.replicate 255 120⟩ 80)) := by
  rw [c14_gen_check_address_refines ov _ _ (by decide +kernel)]; decide +kernel

/-- the generated function *is* the sequence of its five statements (checked by unfolding): the stage lemmas of
`Octo/Proofs/HandshakeGen.lean` are about the code as generated now -/
theorem c13_gen_stages (ov : Bool) (method path : Str) :
    recognize_http ov method path =
      Flow.run ((st1 path).bind fun path => (st2 ov path).bind fun path => (st3 path).bind fun scheme_end =>
        (st4 ov method path scheme_end).bind fun path => st5 ov method path) :=
  recognize_http_stages ov method path

/-- **the CONNECT request is consumed exactly** (c13_connect_consumed_exactly, code side): the scan translated from
`get_request_addr` tells `read_exact` to consume exactly up to and including the first blank line of the peeked bytes -
the model's `Hs.findBlankLine` - and never panics for a `len` that `peek` can report -/
theorem c13_gen_connect_scan_refines (ov : Bool) (buf : List UInt8) (len : Usize) (hl : buf.length < 2 ^ 64)
    (hlen : len.toNat ≤ buf.length) :
    connect_scan ov buf len = .ok ((Hs.findBlankLine (buf.take len.toNat)).map UInt64.ofNat) :=
  connect_scan_eq ov buf len hl hlen
example (ov : Bool) : connect_scan ov (Hs.str "CONNECT h:1 HTTP/1.1\r\n\r\nxyz" ++ List.replicate 10 0) 27 = .ok (some 24) := by
  rw [c13_gen_connect_scan_refines ov _ _ (by decide +kernel) (by decide +kernel)]; decide +kernel

/-- a `len` beyond the buffer would panic at `buf[..len]` (not reachable: `peek` reports at most `buf.len()`) -/
theorem c13_gen_connect_scan_needs_len (ov : Bool) (buf : List UInt8) (len : Usize) (h : buf.length < len.toNat) :
    connect_scan ov buf len = .panic :=
  connect_scan_len_out_of_range ov buf len h
example : ([] : List UInt8).length < (1 : Usize).toNat := by decide

end Octo.HandshakeGen
