import Octo.Proofs.Ss2022AuxGen
import Octo.Proofs.Ss2022AuxUdpEih
import Octo.Proofs.Toy
import Octo.Props.C03
/-!
  Property theorems for the code generated from `aead_2022.rs`, `aead_2022/tcp.rs`, `aead_2022/udp.rs`, `aead.rs`
  (`bin/translate_ss2022aux.py`, re-run on every check).  Two groups:
  * `ext_*`: each translated function EQUALS the field of `SsTcpGen.XM E` / `SsUdpGen.XM E` by which the proofs about
    `tcp.rs` / `udp.rs` instantiate the corresponding assumed external — so those assumptions are theorems about the source;
  * `c03_* / c06_* / c10_* / c12_*`: the properties themselves, restated for the generated code.
  `XA E` instantiates only cryptographic primitives, clock and RNG (from the model's `Crypto`).
-/
namespace Octo.Ss2022AuxGen
open Octo Octo.PWGen Octo.AddrGen

/-- non-vacuity witness: the toy crypto, some clock, padding length 3 -/
def demoE : SsTcpGen.MEnv := ⟨Crypto.toy, 1000, 1000000, 61000, 102400, false, 3, [5, 6, 7]⟩
theorem demoE_lawful : demoE.C.Lawful := Crypto.toy_lawful

/-! ### the assumed externals of `SsTcpGen` / `SsUdpGen`, discharged -/

/-- `aead_2022::new_decoder` is `XM.aead_2022_new_decoder` (all kinds, keys, salts; `Unknown` panics on both sides) -/
theorem ext_aead_2022_new_decoder (ov : Bool) (E : SsTcpGen.MEnv) (hC : E.C.Lawful) (kind : SsTcpGen.CipherKind) (key salt : Bytes) :
    new_decoder ov (XA E) kind key salt = (SsTcpGen.XM E).aead_2022_new_decoder kind key salt := new_decoder_eq ov E hC kind key salt
example := ext_aead_2022_new_decoder true demoE demoE_lawful .Aead2022Blake3Aes128Gcm [] []

/-- `aead_2022::new_encoder` is `XM.aead_2022_new_encoder` (payload limit 0xffff = `Consts.ss2022PayloadLimit`) -/
theorem ext_aead_2022_new_encoder (ov : Bool) (E : SsTcpGen.MEnv) (hC : E.C.Lawful) (kind : SsTcpGen.CipherKind) (key salt : Bytes) :
    new_encoder ov (XA E) kind key salt = (SsTcpGen.XM E).aead_2022_new_encoder kind key salt := new_encoder_eq ov E hC kind key salt
example := ext_aead_2022_new_encoder true demoE demoE_lawful .Aead2022Blake3Aes128Gcm [] []

/-- `aead_2022::next_padding_length` is `XM.aead_2022_next_padding_length` -/
theorem ext_aead_2022_next_padding_length (ov : Bool) (E : SsTcpGen.MEnv) (msg : Bytes) :
    next_padding_length ov (XA E) msg = (SsTcpGen.XM E).aead_2022_next_padding_length msg := next_padding_length_eq ov E msg

/-- `aead_2022::now` is `XM.aead_2022_now` -/
theorem ext_aead_2022_now (ov : Bool) (E : SsTcpGen.MEnv) : now ov (XA E) = (SsTcpGen.XM E).aead_2022_now := now_eq ov E

/-- `aead_2022::tcp::new_header` is `XM.aead_2022_tcp_new_header` (lengths fit a `usize`, the clock a `u64`) -/
theorem ext_aead_2022_tcp_new_header (ov : Bool) (E : SsTcpGen.MEnv) (hC : E.C.Lawful) (a : Ss.Auth) (msg : Bytes) (mode : SsTcpGen.Mode)
    (rs : Option Bytes) (hm : msg.length < 2 ^ 64) (hs : (rs.getD []).length + 11 < 2 ^ 64) (hn : E.now < 2 ^ 64) :
    tcp_new_header ov (XA E) a msg mode rs = (SsTcpGen.XM E).aead_2022_tcp_new_header a msg mode rs :=
  new_header_eq ov E hC a msg mode rs hm hs hn
example := ext_aead_2022_tcp_new_header true demoE demoE_lawful ⟨.aes128gcm, [], []⟩ [1, 2] .Client (some [9]) (by decide) (by decide) (by decide)

/-- `aead_2022::tcp::with_eih` is `XM.aead_2022_tcp_with_eih` for the ciphers with identity headers, every chain length -/
theorem ext_aead_2022_tcp_with_eih (ov : Bool) (E : SsTcpGen.MEnv) (hC : E.C.Lawful) (kind : SsTcpGen.CipherKind) (k : Ss.Kind)
    (hk : SsTcpGen.toKind kind = some k) (he : k.supportEih = true) (key salt dst : Bytes) (iks : List Bytes) :
    tcp_with_eih ov (XA E) kind key iks salt dst = (SsTcpGen.XM E).aead_2022_tcp_with_eih kind key iks salt dst :=
  with_eih_eq ov E hC kind k hk he key salt dst iks
example := ext_aead_2022_tcp_with_eih true demoE demoE_lawful .Aead2022Blake3Aes128Gcm .b3aes128 rfl rfl [1] [2] [] [[3], [4]]

/-- `aead_2022::tcp::new_decoder_with_eih` is `XM.aead_2022_tcp_new_decoder_with_eih` (header of ≥ 16 bytes, cipher not `Unknown`) -/
theorem ext_aead_2022_tcp_new_decoder_with_eih (ov : Bool) (E : SsTcpGen.MEnv) (hC : E.C.Lawful) (kind : SsTcpGen.CipherKind) (k : Ss.Kind)
    (hk : SsTcpGen.toKind kind = some k) (key salt eih : Bytes) (identity : SsTcpGen.Identity) (users : List SsTcpGen.ServerUser)
    (hl : 16 ≤ eih.length) :
    tcp_new_decoder_with_eih ov (XA E) kind key salt eih identity users =
      (SsTcpGen.XM E).aead_2022_tcp_new_decoder_with_eih kind key salt eih identity users :=
  new_decoder_with_eih_eq ov E hC kind k hk key salt eih identity users hl
example := ext_aead_2022_tcp_new_decoder_with_eih true demoE demoE_lawful .Aead2022Blake3Aes128Gcm .b3aes128 rfl [] [] (List.replicate 16 0)
  ⟨[], none, none⟩ [] (by decide)

/-- `aead::new_decoder` (legacy) is `XM.aead_new_decoder`, for key size ≤ salt length ≤ 5100 -/
theorem ext_aead_new_decoder (ov : Bool) (E : SsTcpGen.MEnv) (hC : E.C.Lawful) (kind : SsTcpGen.CipherKind) (k : Ss.Kind)
    (hk : SsTcpGen.toKind kind = some k) (key salt : Bytes) (h1 : k.alg.keyLen ≤ salt.length) (h2 : salt.length ≤ 5100) :
    aead_new_decoder ov (XA E) kind key salt = (SsTcpGen.XM E).aead_new_decoder kind key salt :=
  aead_new_decoder_eq ov E hC kind k hk key salt h1 h2
example := ext_aead_new_decoder true demoE demoE_lawful .Aes128Gcm .aes128 rfl [] (List.replicate 16 0) (by decide) (by decide)

/-- `aead::new_encoder` (legacy, payload limit 0x3fff + 34 = `Consts.ssLegacyPayloadLimit`) is `XM.aead_new_encoder`, same guards -/
theorem ext_aead_new_encoder (ov : Bool) (E : SsTcpGen.MEnv) (hC : E.C.Lawful) (kind : SsTcpGen.CipherKind) (k : Ss.Kind)
    (hk : SsTcpGen.toKind kind = some k) (key salt : Bytes) (h1 : k.alg.keyLen ≤ salt.length) (h2 : salt.length ≤ 5100) :
    aead_new_encoder ov (XA E) kind key salt = (SsTcpGen.XM E).aead_new_encoder kind key salt :=
  aead_new_encoder_eq ov E hC kind k hk key salt h1 h2
example := ext_aead_new_encoder true demoE demoE_lawful .Aes128Gcm .aes128 rfl [] (List.replicate 16 0) (by decide) (by decide)

/-- `aead_2022::udp::nonce_length` is `SsUdpGen.XM.udp_nonce_length` -/
theorem ext_udp_nonce_length (ov : Bool) (E : SsTcpGen.MEnv) (kind : SsUdpGen.CipherKind) :
    udp_nonce_length ov (XA E) (ofUdpKind kind) = (SsUdpGen.XM (udpEnv E)).udp_nonce_length kind := udp_nonce_length_eq ov E kind

/-- `aead_2022::udp::aes_decrypt_in_place` is `SsUdpGen.XM.udp_aes_decrypt_in_place` (key of the cipher's size, one block) -/
theorem ext_udp_aes_decrypt_in_place (ov : Bool) (E : SsTcpGen.MEnv) (kind : SsUdpGen.CipherKind) (key buf : Bytes)
    (hk : ∀ k, SsUdpGen.toKind kind = some k → k.supportEih = true → key.length = k.alg.keyLen) (hb : buf.length = 16) :
    udp_aes_decrypt_in_place ov (XA E) (ofUdpKind kind) key buf = (SsUdpGen.XM (udpEnv E)).udp_aes_decrypt_in_place kind key buf :=
  udp_aes_decrypt_in_place_eq ov E kind key buf hk hb
example := ext_udp_aes_decrypt_in_place true demoE .Aead2022Blake3Aes128Gcm (List.replicate 16 1) (List.replicate 16 2)
  (by intro k h _; cases h; rfl) rfl

/-- `aead_2022::udp::new_cipher` is what `SsUdpGen.XM.get_cipher` (the cache in front of it) returns (32 ≤ key length) -/
theorem ext_udp_get_cipher (ov : Bool) (E : SsTcpGen.MEnv) (hC : E.C.Lawful) (kind : SsUdpGen.CipherKind) (key : Bytes) (sid : UInt64)
    (hk : 32 ≤ key.length) :
    udp_new_cipher ov (XA E) (ofUdpKind kind) key sid = (SsUdpGen.XM (udpEnv E)).get_cipher kind key sid :=
  udp_new_cipher_eq ov E hC kind key sid hk
example := ext_udp_get_cipher true demoE demoE_lawful .Aead2022Blake3ChaCha20Poly1305 (List.replicate 32 1) 5 (by decide)

/-- `validate_timestamp` with the translated `now` is the function `translate_sstcp.py` generates from the same file -/
theorem ext_validate_timestamp (ov : Bool) (E : SsTcpGen.MEnv) (ts : UInt64) :
    validate_timestamp ov (XA E) ts = SsTcpGen.validate_timestamp ov (SsTcpGen.XM E) ts := validate_timestamp_eq ov E ts

/-! ### C03: the wire format of the published specification -/

/-- **identity headers** (SIP022 EIH): what the translated `with_eih` appends is the Spec's `identityHeaders` over iPSKs ‖ [user key] —
header i under the sub-key of ITS OWN hop's key, naming the next key — for every chain length -/
theorem c03_with_eih_is_spec (ov : Bool) (E : SsTcpGen.MEnv) (hC : E.C.Lawful) (kind : SsTcpGen.CipherKind) (k : Ss.Kind)
    (hk : SsTcpGen.toKind kind = some k) (he : k.supportEih = true) (key salt dst : Bytes) (iks : List Bytes) :
    tcp_with_eih ov (XA E) kind key iks salt dst = .ok (dst ++ Spec.identityHeaders E.C (specCipher k) salt (iks ++ [key]), ()) := by
  rw [with_eih_eval ov E hC kind k hk he, ss_withEih_eq_spec]
example := c03_with_eih_is_spec true demoE demoE_lawful .Aead2022Blake3Aes256Gcm .b3aes256 rfl rfl [1] [2] [] [[3], [4], [5]]

/-- **context strings**, byte for byte those of the specification -/
theorem c03_context_strings (ov : Bool) (E : SsTcpGen.MEnv) (key salt : Bytes) :
    session_sub_key ov (XA E) key salt = .ok (E.C.blake3Derive (Spec.ascii "shadowsocks 2022 session subkey") (key ++ salt)) ∧
    Ss.identitySubkeyCtx = Spec.ascii "shadowsocks 2022 identity subkey" ∧ Ss.ssSubkeyInfo = Spec.ascii "ss-subkey" :=
  ⟨session_sub_key_eval ov E key salt, rfl, rfl⟩

/-- **fixed header layout** of `new_header`: type ‖ u64 timestamp ‖ [request salt] ‖ u16 length, sealed under the next nonce; then the
variable header (first `min(len, 0xffff)` bytes) under the one after; the rest of the message stays -/
theorem c03_new_header_layout (ov : Bool) (E : SsTcpGen.MEnv) (hC : E.C.Lawful) (a : Ss.Auth) (msg : Bytes) (mode : SsTcpGen.Mode)
    (rs : Option Bytes) (hm : msg.length < 2 ^ 64) (hs : (rs.getD []).length + 11 < 2 ^ 64) (hn : E.now < 2 ^ 64) :
    ∃ a' f v, tcp_new_header ov (XA E) a msg mode rs = .ok (a', msg.drop (min msg.length 0xffff), .ok (f, v)) ∧
      f ++ v = (Ss.newHeader E.C a msg (SsTcpGen.toMode mode) rs E.now).1 ∧
      f.length = 1 + 8 + (rs.getD []).length + 2 + 16 := by
  rw [new_header_eq ov E hC a msg mode rs hm hs hn]
  refine ⟨_, _, _, rfl, List.take_append_drop _ _, ?_⟩
  simp [Ss.newHeader, Ss.Auth.sealB, hC.seal_len, List.length_take]
  omega
example := c03_new_header_layout true demoE demoE_lawful ⟨.aes128gcm, [], []⟩ [1, 2] .Server none (by decide) (by decide) (by decide)

/-! ### C06: the identity header selects the user -/

/-- whatever the size of the user table (≥ 1 included: there is no shortcut for a single entry), a decoder is returned only for the
registered user whose identity hash the header decrypts to, keyed with THAT user's key, and `identity.user` is that user -/
theorem c06_new_decoder_with_eih_user (ov : Bool) (E : SsTcpGen.MEnv) (hC : E.C.Lawful) (kind : SsTcpGen.CipherKind) (k : Ss.Kind)
    (hk : SsTcpGen.toKind kind = some k) (he : k.supportEih = true) (key salt eih : Bytes) (identity identity' : SsTcpGen.Identity)
    (users : List SsTcpGen.ServerUser) (hl : 16 ≤ eih.length) (d : SsTcpGen.ChunkDecoder SsTcpGen.MT)
    (h : tcp_new_decoder_with_eih ov (XA E) kind key salt eih identity users = .ok (identity', .ok d)) :
    ∃ u, u ∈ users ∧
      u.identity_hash = E.C.aesDec ((E.C.blake3Derive Ss.identitySubkeyCtx (key ++ salt)).take k.alg.keyLen) (eih.take 16) ∧
      identity'.user = some u ∧ d = ⟨SsTcpGen.auth2022 E.C k u.key salt, .Length⟩ := by
  rw [new_decoder_with_eih_eq ov E hC kind k hk key salt eih identity users hl] at h
  simp only [SsTcpGen.XM, hk, he, if_true] at h
  split at h
  · rename_i u hf
    simp only [PWGen.Res.ok.injEq, Prod.mk.injEq, RResult.ok.injEq] at h
    exact ⟨u, List.mem_of_find?_eq_some hf, by simpa using List.find?_some hf, by rw [← h.1], h.2.symm⟩
  · simp at h

/-- an unknown identity hash is refused: `Err`, `identity` untouched -/
theorem c06_unknown_user_refused (ov : Bool) (E : SsTcpGen.MEnv) (hC : E.C.Lawful) (kind : SsTcpGen.CipherKind) (k : Ss.Kind)
    (hk : SsTcpGen.toKind kind = some k) (he : k.supportEih = true) (key salt eih : Bytes) (identity : SsTcpGen.Identity)
    (users : List SsTcpGen.ServerUser) (hl : 16 ≤ eih.length)
    (hu : ∀ u ∈ users, u.identity_hash ≠ E.C.aesDec ((E.C.blake3Derive Ss.identitySubkeyCtx (key ++ salt)).take k.alg.keyLen) (eih.take 16)) :
    tcp_new_decoder_with_eih ov (XA E) kind key salt eih identity users = .ok (identity, .err) := by
  rw [new_decoder_with_eih_eq ov E hC kind k hk key salt eih identity users hl]
  have : users.find? (fun u => decide (u.identity_hash = E.C.aesDec ((E.C.blake3Derive Ss.identitySubkeyCtx (key ++ salt)).take k.alg.keyLen) (eih.take 16))) = none := by
    rw [List.find?_eq_none]; intro u hm; simpa using hu u hm
  simp only [SsTcpGen.XM, hk, he, if_true, this]
example := c06_unknown_user_refused true demoE demoE_lawful .Aead2022Blake3Aes128Gcm .b3aes128 rfl rfl [] [] (List.replicate 16 0)
  ⟨[], none, none⟩ [] (by decide) (by intro u hu; cases hu)

/-! ### C10: the timestamp window -/

/-- the window constant read from `aead_2022.rs` is the model's (30 s) -/
theorem c10_window_constant : SERVER_STREAM_TIMESTAMP_MAX_DIFF.toNat = Consts.ssMaxTimeDiff := window_eq

/-- `validate_timestamp` (translated clock path included) accepts exactly the timestamps within the window of the clock -/
theorem c10_validate_timestamp (ov : Bool) (E : SsTcpGen.MEnv) (ts : UInt64) (hn : E.now < 2 ^ 64) :
    validate_timestamp ov (XA E) ts =
      .ok (if Ss.absDiff E.now ts.toNat > Consts.ssMaxTimeDiff then RResult.err else RResult.ok ()) := by
  rw [validate_timestamp_eq, SsTcpGen.validate_timestamp_eval ov E ts hn]
example := c10_validate_timestamp true demoE 1031 (by decide)

/-! ### C12: sub-keys and padding -/

/-- the session sub-key is a function of key ‖ SALT: two sessions get the same sub-key input only when key ‖ salt coincide -/
theorem c12_subkey_depends_on_salt (ov : Bool) (E : SsTcpGen.MEnv) (key salt : Bytes) :
    session_sub_key ov (XA E) key salt = .ok (E.C.blake3Derive Ss.sessionSubkeyCtx (key ++ salt)) := session_sub_key_eval ov E key salt

/-- with a collision-free derive (as far as these two inputs go) different salts give different session sub-keys -/
theorem c12_distinct_salts_distinct_subkeys (ov : Bool) (E : SsTcpGen.MEnv) (key s1 s2 : Bytes) (hne : s1 ≠ s2)
    (hinj : E.C.blake3Derive Ss.sessionSubkeyCtx (key ++ s1) = E.C.blake3Derive Ss.sessionSubkeyCtx (key ++ s2) → key ++ s1 = key ++ s2) :
    session_sub_key ov (XA E) key s1 ≠ session_sub_key ov (XA E) key s2 := by
  rw [session_sub_key_eval, session_sub_key_eval]
  intro h
  exact hne (List.append_cancel_left (hinj (by simpa using h)))
example := c12_distinct_salts_distinct_subkeys true demoE [] [1] [2] (by decide) (by intro h; exact absurd h (by decide))

/-- padding is drawn ONLY for an empty payload: for a non-empty one the result is 0 and no external (RNG) is consulted -/
theorem c12_padding_only_when_empty (ov : Bool) {T : ExtTypes} (X : Ext T) (msg : Bytes) (h : msg ≠ []) :
    next_padding_length ov X msg = .ok 0 := next_padding_nonempty ov X msg h
example := c12_padding_only_when_empty true (XA demoE) [1] (by decide)

/-- for an empty payload it is one draw from `0 ..= 900` (`MIN_PADDING_LENGTH ..= MAX_PADDING_LENGTH`).  NOTE the lower bound 0: SIP022
asks for a NON-ZERO padding here — see `c12_padding_can_be_zero` -/
theorem c12_padding_draw (ov : Bool) {T : ExtTypes} (X : Ext T) :
    next_padding_length ov X [] = X.rng_random_range_inclusive_u16 0 900 := next_padding_empty ov X

/-- DIFFERENCE from the task's description ("random in 1..=900") and from SIP022: the range starts at `MIN_PADDING_LENGTH = 0`, so an RNG
that respects its range may return 0 for an empty payload -/
theorem c12_padding_can_be_zero (ov : Bool) :
    ∃ E : SsTcpGen.MEnv, next_padding_length ov (XA E) [] = .ok 0 ∧ MIN_PADDING_LENGTH = 0 :=
  ⟨⟨Crypto.toy, 0, 0, 0, 0, false, 0, []⟩, by rw [next_padding_empty]; rfl, rfl⟩

/-! ## the datagram identity-header chain (`aead_2022/udp.rs`: `make_eih`, `with_eih`) -/

/-- C02 / C06: one identity header of a datagram = AES block, under the identity key, of BLAKE3(next key)[..16] XOR (session id ‖ packet id) -/
theorem ext_udp_make_eih (ov : Bool) (E : SsTcpGen.MEnv) (hC : E.C.Lawful) (kind : SsTcpGen.CipherKind) (k : Ss.Kind)
    (hk : SsTcpGen.toKind kind = some k) (he : k.supportEih = true) (ipsk ipskn sp : Bytes) (hkl : ipsk.length = k.alg.keyLen)
    (hsp : 16 ≤ sp.length) :
    udp_make_eih ov (XA E) kind ipsk ipskn sp (List.replicate (16 : Usize).toNat (0 : UInt8)) =
      .ok (E.C.aesEnc ipsk (xorBytes ((E.C.blake3Hash ipskn).take 16) sp), .ok ()) :=
  udp_make_eih_eval ov E hC kind k hk he ipsk ipskn sp hkl hsp

/-- DISCHARGES `SsUdpGen.Ext.udp_with_eih` (C02 / C03 / C06): for every chain of identity keys of the cipher's key size the translated
`with_eih` — its loop over indices, the `len - 1` / `i + 1` arithmetic and the bounds-checked `identity_keys[i]` — never panics, never
fails, and appends exactly the model's chain `SsUdp.withEih` (header i under key i, naming key i+1, the last one naming the user key) -/
theorem ext_udp_with_eih (ov : Bool) (E : SsTcpGen.MEnv) (hC : E.C.Lawful) (kind : SsUdpGen.CipherKind) (k : Ss.Kind)
    (hk : SsUdpGen.toKind kind = some k) (he : k.supportEih = true) (key sp dst : Bytes) (iks : List Bytes)
    (hlen : iks.length < 2 ^ 64) (hkl : ∀ ik ∈ iks, ik.length = k.alg.keyLen) (hsp : 16 ≤ sp.length) :
    udp_with_eih ov (XA E) (ofUdpKind kind) key iks sp dst = (SsUdpGen.XM (udpEnv E)).udp_with_eih kind key iks sp dst := by
  rw [udp_with_eih_eval ov E hC (ofUdpKind kind) k (by rw [toKind_ofUdp]; exact hk) he key sp dst iks hlen hkl hsp]
  simp [SsUdpGen.XM, hk, he, udpEnv]
example := ext_udp_with_eih true demoE demoE_lawful .Aead2022Blake3Aes128Gcm .b3aes128 rfl rfl [9] (List.replicate 16 1) [7]
  [List.replicate 16 2, List.replicate 16 3] (by decide) (by decide) (by decide)

/-- no identity keys: nothing is appended -/
theorem c02_udp_eih_chain_empty (C : Crypto) (key sp : Bytes) : SsUdp.withEih C key sp [] = [] := rfl

/-- C02: the chain is one 16-byte block per identity key -/
theorem c02_udp_eih_chain_length (C : Crypto) (hC : C.Lawful) (key sp : Bytes) : ∀ iks : List Bytes,
    (SsUdp.withEih C key sp iks).length = 16 * iks.length
  | [] => rfl
  | [ipsk] => by simp [SsUdp.withEih, hC.aes_enc_len]
  | ipsk :: next :: rest => by
    have := c02_udp_eih_chain_length C hC key sp (next :: rest)
    simp only [SsUdp.withEih, List.length_append, hC.aes_enc_len, this, List.length_cons]; omega

/-- C06: the holder of the first identity key recovers, from the first block alone, the masked hash naming the next key in the chain -/
theorem c06_udp_eih_first_hop (C : Crypto) (hC : C.Lawful) (key sp ipsk next : Bytes) (rest : List Bytes)
    (hx : (xorBytes ((C.blake3Hash next).take 16) sp).length = 16) :
    C.aesDec ipsk ((SsUdp.withEih C key sp (ipsk :: next :: rest)).take 16) = xorBytes ((C.blake3Hash next).take 16) sp := by
  simp only [SsUdp.withEih]
  generalize hb : xorBytes ((C.blake3Hash next).take 16) sp = b at hx ⊢
  have hl := hC.aes_enc_len ipsk b
  rw [List.take_append_of_le_length (by omega), List.take_of_length_le (by omega)]
  exact hC.aes_dec_enc _ _ hx
example := c06_udp_eih_first_hop Crypto.toy Crypto.toy_lawful [1] (List.replicate 16 3) [2] [4] [] (by simp [xorBytes, Crypto.toy_lawful.blake3h_len])

end Octo.Ss2022AuxGen
