import Octo.Props.C07
import Octo.Proofs.SsUdpRound
import Octo.Props.C02Udp
/-!
# C07 — the guards in front of the panicking reads

The `Fr.Step`-based decoders of the model cannot produce `.panic` by construction, and `SsUdp.decode` reads its
decrypted plaintext with total list operations (`take`, `drop`, `headD`, `rdBE`), so their totality theorems in
`C07.lean` say nothing about the reads themselves.  The Rust reads the same plaintexts with *panicking* cursor reads
(`get_u8`, `get_u64`, `advance`, `split_to`, slice indexing) behind earlier length checks.  The content of "cannot
panic" for these parsers is therefore: **at every read site, the bytes read exist whenever the site is reached**.
That is what this file proves, for

* `SsUdp.decode` (2022 kinds) — `c07_ss_udp_*_reads_in_bounds`: the header-length check in front of the AEAD open,
  together with `open_len` (a plaintext is 16 bytes shorter than its ciphertext), makes the opened body long enough
  for the type, timestamp, client-session-id and padding-length reads; padding and address are behind the explicit
  check.  Also as an equation: a parser written with the panicking `Buf` reads (`bodyParseChecked`) never panics on
  such a body and computes what the model computes;
* `Ss.init2022` / `Ss.init2022Tail` — `c07_ss_init2022_*_reads_in_bounds`;
* `Vmess.parseRequest` — `c07_vmess_parseRequest_reads_in_bounds`.

`C.Lawful` is used only through `open_len`.  It is needed: a "cipher" whose `openB` returns a plaintext longer or
shorter than ciphertext − 16 would defeat a guard that measures the ciphertext.
-/
namespace Octo.SsUdp
open Octo.Ss

/-! ### `SsUdp.decode`, 2022 kinds -/

/-- the fixed part of an opened body: type(1) ‖ timestamp(8) ‖ [client session id(8)] ‖ padding length(2) -/
def fixedLen (mode : Mode) : Nat := if mode = .client then 19 else 11

/-- where the padding-length field starts -/
def tailOff (mode : Mode) : Nat := if mode = .client then 17 else 9

/-- the part of the body from the padding-length field on -/
def bodyTail (mode : Mode) (p : Bytes) : Bytes := p.drop (tailOff mode)

def padLen (mode : Mode) (p : Bytes) : Nat := rdBE ((bodyTail mode p).take 2)

/-- `bodyParse` with its intermediates named (`rfl`-level restatement of the model) -/
theorem bodyParse_eq (mode : Mode) (now sid pid : Nat) (p : Bytes) (user : Option User) :
    bodyParse mode now sid pid p user =
      if p.headD 0 ≠ mode.expectU8 then .err else
      if absDiff now (rdBE ((p.drop 1).take 8)) > Consts.ssMaxTimeDiff then .err else
      if (bodyTail mode p).length < 2 + padLen mode p then .err else
      match Socks5Addr.decode ((bodyTail mode p).drop (2 + padLen mode p)) with
      | .ok (addr, rest) =>
        .ok (rest, addr, if mode = .client then ⟨rdBE ((p.drop 9).take 8), sid, pid, none⟩ else ⟨sid, 0, pid, user⟩)
      | .panic => .panic
      | _ => .err := by
  cases mode <;> rfl

/-- **the header-length check protects the plaintext reads** (needs `open_len`): when `decode` gets past the
length check and the AEAD open, the opened body has at least its fixed part -/
theorem c07_ss_udp_opened_reads_in_bounds (C : Crypto) (hC : C.Lawful) (ctx : Ctx) (hk : ctx.kind.is2022 = true)
    (mode : Mode) (b : Bytes) (hlen : ¬ b.length < headerLen ctx mode)
    (sid pid : Nat) (p : Bytes) (user : Option User) (ho : opened C ctx mode b = some (sid, pid, p, user)) :
    fixedLen mode ≤ p.length := by
  unfold opened at ho
  cases hx : xAlg ctx.kind with
  | none =>
    obtain ⟨hs, hnl⟩ := kind_aes _ hx hk
    simp only [hx] at ho
    by_cases hreq : requireEih ctx mode
    · have hm : mode = .server := hreq.1
      subst hm
      simp only [hreq, if_true] at ho
      split at ho
      · cases ho
      · simp only [Option.map_eq_some_iff] at ho
        obtain ⟨q, hq, he⟩ := ho
        have := hC.open_len _ _ _ _ _ _ hq
        simp only [Prod.mk.injEq] at he
        obtain ⟨_, _, rfl, _⟩ := he
        simp only [List.length_drop] at this
        simp only [headerLen, hnl, hreq, if_true] at hlen
        simp only [fixedLen]
        simp
        omega
    · simp only [hreq, if_false, Option.map_eq_some_iff] at ho
      obtain ⟨q, hq, he⟩ := ho
      have := hC.open_len _ _ _ _ _ _ hq
      simp only [Prod.mk.injEq] at he
      obtain ⟨_, _, rfl, _⟩ := he
      simp only [List.length_drop] at this
      simp only [headerLen, hnl, hreq, if_false] at hlen
      unfold fixedLen
      cases mode <;> simp at hlen ⊢ <;> omega
  | some xa =>
    obtain ⟨_, hse, hnl⟩ := kind_chacha _ _ hx
    simp only [hx, Option.map_eq_some_iff] at ho
    obtain ⟨q, hq, he⟩ := ho
    have := hC.open_len _ _ _ _ _ _ hq
    simp only [Prod.mk.injEq] at he
    obtain ⟨_, _, rfl, _⟩ := he
    simp only [List.length_drop] at this ⊢
    have hreq : ¬ requireEih ctx mode := by simp [requireEih, hse]
    simp only [headerLen, hnl, hreq, if_false] at hlen
    unfold fixedLen
    cases mode <;> simp at hlen ⊢ <;> omega

/-- the reads in front of the AEAD open are in bounds as well: the 16-byte header block and the 16-byte identity
header (AES kinds), the 24-byte nonce (XChaCha kinds) -/
theorem c07_ss_udp_header_reads_in_bounds (ctx : Ctx) (hk : ctx.kind.is2022 = true) (mode : Mode) (b : Bytes)
    (hlen : ¬ b.length < headerLen ctx mode) :
    (xAlg ctx.kind = none → 16 ≤ b.length ∧ (requireEih ctx mode → 32 ≤ b.length)) ∧
    ((xAlg ctx.kind).isSome = true → 24 ≤ b.length) := by
  constructor
  · intro hx
    obtain ⟨_, hnl⟩ := kind_aes _ hx hk
    simp only [headerLen, hnl] at hlen
    refine ⟨by omega, fun hreq => ?_⟩
    have hm : mode = .server := hreq.1
    subst hm
    simp only [hreq, if_true] at hlen
    omega
  · intro hx
    obtain ⟨xa, hxa⟩ := Option.isSome_iff_exists.mp hx
    obtain ⟨_, _, hnl⟩ := kind_chacha _ _ hxa
    simp only [headerLen, hnl] at hlen
    omega

/-- XChaCha kinds: session id and packet id are read from the opened plaintext itself; they are there -/
theorem c07_ss_udp_ids_reads_in_bounds (C : Crypto) (hC : C.Lawful) (ctx : Ctx) (mode : Mode) (b : Bytes) (xa : Alg)
    (hx : xAlg ctx.kind = some xa) (hlen : ¬ b.length < headerLen ctx mode) (plain : Bytes)
    (ho : C.openB xa (ctx.key.take 32) (b.take 24) [] (b.drop 24) = some plain) :
    16 + fixedLen mode ≤ plain.length := by
  obtain ⟨_, hse, hnl⟩ := kind_chacha _ _ hx
  have := hC.open_len _ _ _ _ _ _ ho
  simp only [List.length_drop] at this
  have hreq : ¬ requireEih ctx mode := by simp [requireEih, hse]
  simp only [headerLen, hnl, hreq, if_false] at hlen
  unfold fixedLen
  cases mode <;> simp at hlen ⊢ <;> omega

/-- **every read of `decode`'s body parse is in bounds** (2022 kinds): if `decode` reaches the body parse — the
datagram passed the length check and opened to `p` — then
* the type byte read (`p.headD 0`) reads a byte of `p`;
* the timestamp read gets its 8 bytes, the client-session-id read (client side) its 8, the padding-length read its 2;
* if the explicit check `tail.length < 2 + padLen` passes, the padding skip and the address decode start inside `p`;
and `decode` is `bodyParse` of that `p`. -/
theorem c07_ss_udp_decode_reads_in_bounds (C : Crypto) (hC : C.Lawful) (ctx : Ctx) (hk : ctx.kind.is2022 = true)
    (mode : Mode) (now : Nat) (b : Bytes) (hlen : ¬ b.length < headerLen ctx mode)
    (sid pid : Nat) (p : Bytes) (user : Option User) (ho : opened C ctx mode b = some (sid, pid, p, user)) :
    decode C ctx mode now b = bodyParse mode now sid pid p user ∧
    0 < p.length ∧ ((p.drop 1).take 8).length = 8 ∧ (mode = .client → ((p.drop 9).take 8).length = 8) ∧
    ((bodyTail mode p).take 2).length = 2 ∧
    (¬ (bodyTail mode p).length < 2 + padLen mode p → tailOff mode + 2 + padLen mode p ≤ p.length) := by
  have hp := c07_ss_udp_opened_reads_in_bounds C hC ctx hk mode b hlen sid pid p user ho
  refine ⟨by rw [decode_2022 C ctx hk, if_neg hlen, ho], ?_⟩
  unfold bodyTail
  cases mode <;> simp only [fixedLen, tailOff, List.length_take, List.length_drop] at hp ⊢ <;> simp at hp ⊢ <;> omega

/-! #### the same as an equation: a parser that reads with the panicking cursor operations -/

/-- the body parse written with the `Buf` cursor reads of the Rust (`get_u8`, `get_u64`, `get_u16`, `advance`), each
of which panics when the buffer is too short -/
def bodyParseChecked (mode : Mode) (now sid pid : Nat) (p : Bytes) (user : Option User) : Res (Bytes × Addr × Session) :=
  match Buf.getU8 p with
  | .ok (ty, q) =>
    if ty ≠ mode.expectU8 then .err else
    match Buf.getU64 q with
    | .ok (ts, q) =>
      if absDiff now ts > Consts.ssMaxTimeDiff then .err else
      match (if mode = .client then Buf.getU64 q else .ok (sid, q)) with
      | .ok (csid, q) =>
        match Buf.getU16 q with
        | .ok (pl, q') =>
          if q.length < 2 + pl then .err else
          match Buf.advance pl q' with
          | .ok q'' =>
            match Socks5Addr.decode q'' with
            | .ok (addr, rest) =>
              .ok (rest, addr, if mode = .client then ⟨csid, sid, pid, none⟩ else ⟨sid, 0, pid, user⟩)
            | .panic => .panic
            | _ => .err
          | _ => .panic
        | _ => .panic
      | _ => .panic
    | _ => .panic
  | _ => .panic

/-- on a body that has its fixed part the panicking parser computes exactly what the model computes — in
particular it does not panic (`c07_ss_udp_decode_total`) -/
theorem bodyParseChecked_eq (mode : Mode) (now sid pid : Nat) (p : Bytes) (user : Option User)
    (hp : fixedLen mode ≤ p.length) :
    bodyParseChecked mode now sid pid p user = bodyParse mode now sid pid p user := by
  rw [bodyParse_eq]
  cases p with
  | nil => cases mode <;> simp [fixedLen] at hp
  | cons t p' =>
    unfold bodyParseChecked
    cases mode with
    | client =>
      have hl : 18 ≤ p'.length := by simp [fixedLen] at hp; omega
      have e1 : ¬ p'.length < 8 := by omega
      have e2 : ¬ p'.length - 8 < 8 := by omega
      have e3 : ¬ p'.length - 16 < 2 := by omega
      simp only [Buf.getU8, Buf.getU64, Buf.getU16, Buf.getBE, Buf.advance, List.headD_cons, List.drop_succ_cons,
        List.drop_zero, e1, e2, if_false, if_true, List.length_drop, bodyTail, padLen, tailOff, List.drop_drop,
        Nat.reduceAdd, e3]
      split
      · rfl
      · split
        · rfl
        · split
          · rfl
          · rename_i hchk
            rw [if_neg (by omega)]
            simp only []
            rw [show ∀ x, 18 + x = 16 + (2 + x) from fun x => by omega]
    | server =>
      have hl : 10 ≤ p'.length := by simp [fixedLen] at hp; omega
      have e1 : ¬ p'.length < 8 := by omega
      have e3 : ¬ p'.length - 8 < 2 := by omega
      have hm : ¬ (Mode.server = Mode.client) := by decide
      simp only [Buf.getU8, Buf.getU64, Buf.getU16, Buf.getBE, Buf.advance, List.headD_cons, List.drop_succ_cons,
        List.drop_zero, e1, e3, hm, if_false, List.length_drop, bodyTail, padLen, tailOff, List.drop_drop, Nat.reduceAdd]
      split
      · rfl
      · split
        · rfl
        · split
          · rfl
          · rename_i hchk
            rw [if_neg (by omega)]
            simp only []
            rw [show ∀ x, 10 + x = 8 + (2 + x) from fun x => by omega]

/-- **`decode` with panicking reads**: past the length check and the open, the body parse done with panicking reads
is the model's `decode` — no read panics -/
theorem c07_ss_udp_decode_checked (C : Crypto) (hC : C.Lawful) (ctx : Ctx) (hk : ctx.kind.is2022 = true)
    (mode : Mode) (now : Nat) (b : Bytes) (hlen : ¬ b.length < headerLen ctx mode)
    (sid pid : Nat) (p : Bytes) (user : Option User) (ho : opened C ctx mode b = some (sid, pid, p, user)) :
    bodyParseChecked mode now sid pid p user = decode C ctx mode now b ∧
    bodyParseChecked mode now sid pid p user ≠ .panic := by
  have hp := c07_ss_udp_opened_reads_in_bounds C hC ctx hk mode b hlen sid pid p user ho
  have e : decode C ctx mode now b = bodyParse mode now sid pid p user := by rw [decode_2022 C ctx hk, if_neg hlen, ho]
  rw [bodyParseChecked_eq mode now sid pid p user hp, ← e]
  exact ⟨rfl, c07_ss_udp_decode_total C ctx mode now b⟩

end Octo.SsUdp

namespace Octo.Ss

/-! ### `Ss.init2022` / `Ss.init2022Tail` (Shadowsocks 2022 stream header) -/

/-- the lengths `init2022` works with -/
def saltLen (ctx : Ctx) : Nat := ctx.kind.n
def reqSaltLen (ctx : Ctx) (d : Dec) : Nat := if d.sess.mode = .server then 0 else ctx.kind.n
def eihLen (ctx : Ctx) (d : Dec) : Nat := if requireEih ctx d.sess then 16 else 0
def fixedHeaderLen (ctx : Ctx) (d : Dec) : Nat := eihLen ctx d + 1 + 8 + reqSaltLen ctx d + 2 + 16

/-- `init2022` with its lengths named (`rfl`-level restatement of the model) -/
theorem guards_init2022_eq (C : Crypto) (ctx : Ctx) (env : DecEnv) (d : Dec) (b : Bytes) :
    init2022 C ctx env d b =
      if b.length < saltLen ctx then .need else
      if b.length < saltLen ctx + fixedHeaderLen ctx d then .fail d 0 else
      if env.saltSeen (b.take (saltLen ctx)) then .fail d 0 else
      match init2022Key C ctx { d.sess with requestSalt := some (b.take (saltLen ctx)) } (requireEih ctx d.sess)
          (b.take (saltLen ctx)) ((b.drop (saltLen ctx)).take (fixedHeaderLen ctx d)) with
      | none => .fail { d with sess := { d.sess with requestSalt := some (b.take (saltLen ctx)) } } 0
      | some (key, user) =>
        match (newAuth C ctx.kind key (b.take (saltLen ctx))).openB C
            (((b.drop (saltLen ctx)).take (fixedHeaderLen ctx d)).drop (eihLen ctx d)) with
        | (none, _) =>
          .fail { d with sess := { d.sess with requestSalt := some (b.take (saltLen ctx)), user := user } } 0
        | (some h, a) =>
          init2022Tail C env { d with sess := { d.sess with requestSalt := some (b.take (saltLen ctx)), user := user } }
            { d.sess with requestSalt := some (b.take (saltLen ctx)), user := user } b (saltLen ctx)
            (fixedHeaderLen ctx d) (reqSaltLen ctx d) (b.take (saltLen ctx)) a h := rfl

/-- **the fixed header is read only when it is there**: `init2022` either leaves before it touches the opened
header (waiting for the salt, or failing without consuming), or runs `init2022Tail` on an opened fixed header `h` of
exactly `1 + 8 + request-salt length + 2` bytes, with the whole sealed header inside the buffer.
(`open_len` is what turns the check on the *ciphertext* into a fact about the *plaintext*.) -/
theorem c07_ss_init2022_reads_in_bounds (C : Crypto) (hC : C.Lawful) (ctx : Ctx) (env : DecEnv) (d : Dec) (b : Bytes) :
    init2022 C ctx env d b = .need ∨ (∃ d', init2022 C ctx env d b = .fail d' 0) ∨
    ∃ d' s' salt a h, h.length = 1 + 8 + reqSaltLen ctx d + 2 ∧ saltLen ctx + fixedHeaderLen ctx d ≤ b.length ∧
      init2022 C ctx env d b =
        init2022Tail C env d' s' b (saltLen ctx) (fixedHeaderLen ctx d) (reqSaltLen ctx d) salt a h := by
  rw [guards_init2022_eq]
  by_cases h1 : b.length < saltLen ctx
  · rw [if_pos h1]; exact Or.inl rfl
  · rw [if_neg h1]
    by_cases h2 : b.length < saltLen ctx + fixedHeaderLen ctx d
    · rw [if_pos h2]; exact Or.inr (Or.inl ⟨_, rfl⟩)
    · rw [if_neg h2]
      by_cases h3 : env.saltSeen (b.take (saltLen ctx)) = true
      · rw [if_pos h3]; exact Or.inr (Or.inl ⟨_, rfl⟩)
      · rw [if_neg h3]
        cases hkey : init2022Key C ctx { d.sess with requestSalt := some (b.take (saltLen ctx)) } (requireEih ctx d.sess)
            (b.take (saltLen ctx)) ((b.drop (saltLen ctx)).take (fixedHeaderLen ctx d)) with
        | none => exact Or.inr (Or.inl ⟨_, rfl⟩)
        | some ku =>
          obtain ⟨key, user⟩ := ku
          simp only []
          cases hopen : (newAuth C ctx.kind key (b.take (saltLen ctx))).openB C
              (((b.drop (saltLen ctx)).take (fixedHeaderLen ctx d)).drop (eihLen ctx d)) with
          | mk oh a =>
            cases oh with
            | none => exact Or.inr (Or.inl ⟨_, rfl⟩)
            | some h =>
              refine Or.inr (Or.inr ⟨_, _, _, a, h, ?_, by omega, rfl⟩)
              have hop : C.openB _ _ _ [] _ = some h := congrArg Prod.fst hopen
              have := hC.open_len _ _ _ _ _ _ hop
              simp only [List.length_drop, List.length_take] at this
              unfold fixedHeaderLen at this h2
              omega

/-- each read of the opened fixed header is inside it: the type byte, the 8 timestamp bytes, the echoed request salt,
the 2 length bytes -/
theorem c07_ss_init2022_tail_header_reads_in_bounds (h : Bytes) (requestSaltLen : Nat)
    (hh : h.length = 1 + 8 + requestSaltLen + 2) :
    0 < h.length ∧ ((h.drop 1).take 8).length = 8 ∧ ((h.drop 9).take requestSaltLen).length = requestSaltLen ∧
      ((h.drop (9 + requestSaltLen)).take 2).length = 2 := by
  simp only [List.length_take, List.length_drop]
  omega

/-- **what the tail consumes is in the buffer**: whatever `init2022Tail` answers, the number of bytes it tells the
framing layer to drop (`split_to` / `advance` in the Rust) does not exceed the buffer -/
theorem c07_ss_init2022_tail_consumes_in_bounds (C : Crypto) (env : DecEnv) (d : Dec) (s : Sess) (b : Bytes)
    (n headerLen requestSaltLen : Nat) (salt : Bytes) (a : Auth) (h : Bytes) (hb : n + headerLen ≤ b.length) :
    (∀ d' k, init2022Tail C env d s b n headerLen requestSaltLen salt a h = .fail d' k → k ≤ b.length) ∧
    (∀ d' k o, init2022Tail C env d s b n headerLen requestSaltLen salt a h = .take d' k o → k ≤ b.length) := by
  constructor
  · intro d' k ht
    unfold init2022Tail at ht
    simp only [] at ht
    repeat' (split at ht)
    all_goals first
      | (cases ht; first | exact Nat.zero_le _ | (simp only [List.length_drop] at *; omega))
      | cases ht
  · intro d' k o ht
    unfold init2022Tail at ht
    simp only [] at ht
    repeat' (split at ht)
    all_goals first
      | (cases ht; first | exact Nat.zero_le _ | (simp only [List.length_drop] at *; omega))
      | cases ht

/-- **the variable header's reads are behind their checks**: if the tail hands out payload on the server side
(no address yet), then the opened variable part `via` decoded to an address leaving `via'`, the padding-length read had
its 2 bytes, and the padding skip stayed inside `via'` -/
theorem c07_ss_init2022_tail_payload_reads_in_bounds (C : Crypto) (env : DecEnv) (d : Dec) (s : Sess) (b : Bytes)
    (n headerLen requestSaltLen : Nat) (salt : Bytes) (a : Auth) (h : Bytes)
    (hsrv : s.mode = .server ∧ s.address.isNone = true) (d' : Dec) (k : Nat) (out : List Ev)
    (ht : init2022Tail C env d s b n headerLen requestSaltLen salt a h = .take d' k out) :
    ∃ via a' addr via',
      a.openB C ((b.drop (n + headerLen)).take (rdBE ((h.drop (9 + requestSaltLen)).take 2) + 16)) = (some via, a') ∧
      Socks5Addr.decode via = .ok (addr, via') ∧ 2 ≤ via'.length ∧ 2 + rdBE (via'.take 2) ≤ via'.length ∧
      out = .accepted salt :: (via'.drop (2 + rdBE (via'.take 2))).map .byte := by
  unfold init2022Tail at ht
  simp only [] at ht
  have hm : ¬ (s.mode = .client) := by rw [hsrv.1]; decide
  simp only [hm, false_and, if_false] at ht
  split at ht
  · cases ht
  · split at ht
    · cases ht
    · split at ht
      · cases ht
      · split at ht
        · cases ht
        · rename_i via a' hopen
          simp only [hsrv] at ht
          split at ht
          · rename_i addr via' hdec
            split at ht
            · cases ht
            · split at ht
              · cases ht
              · rename_i h2 hpl
                simp only [Fr.Step.take.injEq] at ht
                exact ⟨via, a', addr, via', hopen, hdec, by omega, by omega, ht.2.2.symm⟩
          · cases ht

end Octo.Ss

namespace Octo.Vmess

/-! ### `Vmess.parseRequest` (the opened VMess request header) -/

/-- the P nibble: number of padding bytes behind the address -/
def padLenOf (h : Bytes) : Nat := (h.getD 35 0).toNat / 16

/-- `check_header_length`'s idea of the address field: 4, 1 + name length, 16 -/
def addrFieldLen (h : Bytes) : Option Nat :=
  if (h.getD 40 0).toNat = 1 then some 4
  else if (h.getD 40 0).toNat = 2 then (if h.length > 41 then some (1 + (h.getD 41 0).toNat) else none)
  else if (h.getD 40 0).toNat = 3 then some 16 else none

/-- `parseRequest` with its guards named (`rfl`-level restatement of the model) -/
theorem parseRequest_eq (C : Crypto) (u : Bytes → Bool) (h : Bytes) :
    parseRequest C u h =
      if h.length < 41 then .err else
      match addrFieldLen h with
      | none => .err
      | some al =>
        if h.length < 41 + al + padLenOf h + 4 then .err else
        if (h.getD 37 0).toNat ≠ 1 ∧ (h.getD 37 0).toNat ≠ 2 then .err else
        match VmessAddr.read u (h.drop 38) with
        | .ok (addr, rest) =>
          if rdBE ((rest.drop (padLenOf h)).take 4) ≠ C.fnv1a32 (h.take (h.length - 4)) then .err
          else .ok (⟨(h.drop 1).take 16, (h.drop 17).take 16, h.getD 33 0⟩, (h.getD 34 0).toNat,
            Security.ofByte ((h.getD 35 0).toNat % 16), if (h.getD 37 0).toNat = 1 then .tcp else .udp, addr)
        | .panic => .panic
        | _ => .err := rfl

/-- under the length the guard establishes, the address reader consumes exactly port(2) ‖ type(1) ‖ address field —
or refuses a name that is not UTF-8; it does not run past the field -/
theorem read_consumes (u : Bytes → Bool) (b : Bytes) (al : Nat) (hlen : 3 + al ≤ b.length)
    (hal : ((b.getD 2 0).toNat = 1 ∧ al = 4) ∨ ((b.getD 2 0).toNat = 2 ∧ 3 < b.length ∧ al = 1 + (b.getD 3 0).toNat) ∨
      ((b.getD 2 0).toNat = 3 ∧ al = 16)) :
    VmessAddr.read u b = .err ∨ ∃ addr, VmessAddr.read u b = .ok (addr, b.drop (3 + al)) := by
  match b, hlen, hal with
  | p0 :: p1 :: t :: rest, hlen, hal =>
    simp only [List.getD_cons_succ, List.getD_cons_zero, List.length_cons] at hal hlen
    have e1 : t.toNat = 1 → t = 1 := fun h => UInt8.toNat_inj.mp (by simpa using h)
    have e2 : t.toNat = 2 → t = 2 := fun h => UInt8.toNat_inj.mp (by simpa using h)
    have e3 : t.toNat = 3 → t = 3 := fun h => UInt8.toNat_inj.mp (by simpa using h)
    unfold VmessAddr.read
    simp only [Buf.getU16, Buf.getBE, Buf.getU8, Buf.take, bind, Res.bind, pure, List.length_cons]
    rw [if_neg (by omega)]
    simp only [List.drop_succ_cons, List.drop_zero]
    rcases hal with ⟨ht, ha⟩ | ⟨ht, hl, ha⟩ | ⟨ht, ha⟩
    · have := e1 ht; subst this; subst ha
      simp only [if_true]
      rw [if_neg (by omega)]
      exact Or.inr ⟨_, rfl⟩
    · have := e2 ht; subst this
      cases rest with
      | nil => simp at hl
      | cons l rest' =>
        simp only [List.getD_cons_zero] at ha
        subst ha
        simp only [List.length_cons] at hlen
        simp [show ¬ ((2 : UInt8) = 1) by decide]
        rw [if_neg (by omega)]
        by_cases hu : u (List.take l.toNat rest') = true
        · simp only [hu, if_true]
          refine Or.inr ⟨.domain (List.take l.toNat rest') (rdBE [p0, p1]), ?_⟩
          rw [show 3 + (1 + l.toNat) = (l.toNat + 1) + 1 + 1 + 1 by omega]
          rfl
        · simp only [hu]
          exact Or.inl rfl
    · have := e3 ht; subst this; subst ha
      simp [show ¬ ((3 : UInt8) = 1) by decide, show ¬ ((3 : UInt8) = 2) by decide]
      rw [if_neg (by omega)]
      exact Or.inr ⟨_, rfl⟩

/-- **every read of `parseRequest` is in bounds**: past the two length guards (`h.length ≥ 41`, then
`h.length ≥ 41 + address field + padding + 4`)
* the indexed reads (33, 34, 35, 37, 40 — and 41, read only when `h.length > 41`) hit bytes of `h`; the IV and key
  slices get their 16 bytes;
* the address reader is called on `h.drop 38` and consumes exactly `3 + al` bytes of it (or refuses a non-UTF-8 name): it
  returns `h.drop (41 + al)`;
* the padding skip and the 4-byte checksum read behind it stay inside `h`. -/
theorem c07_vmess_parseRequest_reads_in_bounds (u : Bytes → Bool) (h : Bytes) (al : Nat)
    (h1 : ¬ h.length < 41) (h2 : addrFieldLen h = some al) (h3 : ¬ h.length < 41 + al + padLenOf h + 4) :
    40 < h.length ∧ ((h.getD 40 0).toNat = 2 → 41 < h.length) ∧
    ((h.drop 1).take 16).length = 16 ∧ ((h.drop 17).take 16).length = 16 ∧
    (VmessAddr.read u (h.drop 38) = .err ∨ ∃ addr, VmessAddr.read u (h.drop 38) = .ok (addr, h.drop (41 + al))) ∧
    (((h.drop (41 + al)).drop (padLenOf h)).take 4).length = 4 ∧ 4 ≤ h.length := by
  have hd0 : ∀ i, (h.drop 38).getD i 0 = h.getD (38 + i) 0 := by
    intro i; simp [List.getD_eq_getElem?_getD, List.getElem?_drop]
  have hfacts : ((h.getD 40 0).toNat = 1 ∧ al = 4) ∨
      ((h.getD 40 0).toNat = 2 ∧ h.length > 41 ∧ al = 1 + (h.getD 41 0).toNat) ∨
      ((h.getD 40 0).toNat = 3 ∧ al = 16) := by
    unfold addrFieldLen at h2
    by_cases t1 : (h.getD 40 0).toNat = 1
    · left; rw [if_pos t1] at h2; exact ⟨t1, (Option.some.inj h2).symm⟩
    · rw [if_neg t1] at h2
      by_cases t2 : (h.getD 40 0).toNat = 2
      · rw [if_pos t2] at h2
        by_cases hl : h.length > 41
        · rw [if_pos hl] at h2; right; left; exact ⟨t2, hl, (Option.some.inj h2).symm⟩
        · rw [if_neg hl] at h2; cases h2
      · rw [if_neg t2] at h2
        by_cases t3 : (h.getD 40 0).toNat = 3
        · rw [if_pos t3] at h2; right; right; exact ⟨t3, (Option.some.inj h2).symm⟩
        · rw [if_neg t3] at h2; cases h2
  refine ⟨by omega, ?_, by simp only [List.length_take, List.length_drop]; omega,
    by simp only [List.length_take, List.length_drop]; omega, ?_,
    by simp only [List.length_take, List.length_drop]; omega, by omega⟩
  · intro t2
    rcases hfacts with ⟨t, _⟩ | ⟨_, hl, _⟩ | ⟨t, _⟩
    · omega
    · exact hl
    · omega
  · have := read_consumes u (h.drop 38) al (by simp only [List.length_drop]; omega)
      (by
        rw [hd0 2, hd0 3]
        simp only [List.length_drop]
        rcases hfacts with ⟨t, a⟩ | ⟨t, hl, a⟩ | ⟨t, a⟩
        · exact Or.inl ⟨t, a⟩
        · exact Or.inr (Or.inl ⟨t, by omega, a⟩)
        · exact Or.inr (Or.inr ⟨t, a⟩))
    rw [List.drop_drop] at this
    rw [show 41 + al = 38 + (3 + al) by omega]
    exact this

/-- consequently, on a header that passes the guards `parseRequest` depends on the address reader only through an
`ok` that returns `h.drop (41 + al)`, or an `err` -/
theorem c07_vmess_parseRequest_guarded (C : Crypto) (u : Bytes → Bool) (h : Bytes) :
    parseRequest C u h = .err ∨
    ∃ al addr, addrFieldLen h = some al ∧ 41 + al + padLenOf h + 4 ≤ h.length ∧
      VmessAddr.read u (h.drop 38) = .ok (addr, h.drop (41 + al)) ∧
      parseRequest C u h = .ok (⟨(h.drop 1).take 16, (h.drop 17).take 16, h.getD 33 0⟩, (h.getD 34 0).toNat,
        Security.ofByte ((h.getD 35 0).toNat % 16), if (h.getD 37 0).toNat = 1 then .tcp else .udp, addr) := by
  rw [parseRequest_eq]
  by_cases h1 : h.length < 41
  · rw [if_pos h1]; exact Or.inl rfl
  · rw [if_neg h1]
    cases h2 : addrFieldLen h with
    | none => exact Or.inl rfl
    | some al =>
      simp only []
      by_cases h3 : h.length < 41 + al + padLenOf h + 4
      · rw [if_pos h3]; exact Or.inl rfl
      · rw [if_neg h3]
        by_cases h4 : (h.getD 37 0).toNat ≠ 1 ∧ (h.getD 37 0).toNat ≠ 2
        · rw [if_pos h4]; exact Or.inl rfl
        · rw [if_neg h4]
          obtain ⟨_, _, _, _, hr, _, _⟩ := c07_vmess_parseRequest_reads_in_bounds u h al h1 h2 h3
          rcases hr with hr | ⟨addr, hr⟩
          · rw [hr]; exact Or.inl rfl
          · rw [hr]
            simp only []
            split
            · exact Or.inl rfl
            · exact Or.inr ⟨al, addr, rfl, by omega, rfl, rfl⟩

end Octo.Vmess

/-! ### non-vacuity (toy crypto) -/

namespace Octo.C07GuardsDemo
open Octo.Ss

/-! datagrams: the contexts of `C02Udp.Demo`; bob's request at the two-user server, a reply at bob's client -/
section udp
open Octo.SsUdp Octo.SsUdp.Demo

def reqWire : Bytes := encode Crypto.toy cliB .client sess target payload rnd

theorem req_long : ¬ reqWire.length < headerLen srvM .server := by
  set_option maxRecDepth 100000 in decide

theorem req_opened : opened Crypto.toy srvM .server reqWire = some (7, 3, requestBody target payload rnd, some bob) := by
  unfold reqWire
  rw [encode_request_eih Crypto.toy cliB rfl kS rfl]
  exact opened_eih Crypto.toy Crypto.toy_lawful srvM rfl (by decide) kB bob (by decide) rfl 7 3 (by decide) (by decide) _

example : fixedLen .server ≤ (requestBody target payload rnd).length :=
  c07_ss_udp_opened_reads_in_bounds Crypto.toy Crypto.toy_lawful srvM rfl .server reqWire req_long 7 3 _ _ req_opened
example := c07_ss_udp_decode_reads_in_bounds Crypto.toy Crypto.toy_lawful srvM rfl .server 1010 reqWire req_long 7 3 _ _ req_opened
example : bodyParseChecked .server 1010 7 3 (requestBody target payload rnd) (some bob) =
    .ok (payload, target, ⟨7, 0, 3, some bob⟩) := by
  rw [(c07_ss_udp_decode_checked Crypto.toy Crypto.toy_lawful srvM rfl .server 1010 reqWire req_long 7 3 _ _ req_opened).1]
  exact request_paired Crypto.toy Crypto.toy_lawful cliB srvM (some bob) (by decide) sess (by decide) (by decide) target
    (by decide) payload rnd 1010 (by decide) (by decide)
/-- the guard is what protects the reads: on a body shorter than its fixed part the panicking parser does panic -/
example : bodyParseChecked .server 1010 7 3 [0, 0, 0] none = .panic := by decide
example : bodyParseChecked .client 1010 7 3 ([1] ++ be64 1000 ++ [0, 0, 0]) none = .panic := by decide

end udp

/-! stream header: a client's first write, read by the server -/
section stream

def stepIsTake {σ ο : Type} : Fr.Step σ ο → Bool
  | .take _ _ _ => true
  | _ => false

def ctx : Ctx := ⟨.b3aes128, List.replicate 16 1, [], []⟩
def ad : Addr := .v4 [10, 0, 0, 1] 443
def env : DecEnv := ⟨1000, fun _ => false⟩
def ds : Sess := ⟨.server, [], none, none, none⟩
def cs : Sess := ⟨.client, List.replicate 16 7, none, none, some ad⟩
def wire : Bytes := (Ss.encode Crypto.toy ctx cs {} [1, 2, 3] ⟨[0, 0], 990⟩).1

theorem wire_taken : stepIsTake (init2022 Crypto.toy ctx env ⟨none, ds⟩ wire) = true := by decide +kernel

/-- the third branch of `c07_ss_init2022_reads_in_bounds` is inhabited: this first read reaches the tail, on an opened
header of 1 + 8 + 0 + 2 bytes -/
example : ∃ d' s' salt a h, h.length = 11 ∧
    init2022 Crypto.toy ctx env ⟨none, ds⟩ wire = init2022Tail Crypto.toy env d' s' wire 16 27 0 salt a h := by
  rcases c07_ss_init2022_reads_in_bounds Crypto.toy Crypto.toy_lawful ctx env ⟨none, ds⟩ wire with h | ⟨d', h⟩ | h
  · have := wire_taken; rw [h] at this; cases this
  · have := wire_taken; rw [h] at this; cases this
  · obtain ⟨d', s', salt, a, hh, hl, _, e⟩ := h
    exact ⟨d', s', salt, a, hh, hl, e⟩

example : 16 + 27 ≤ wire.length := by decide +kernel

end stream

/-! VMess: a request header as the client writes it -/
section vmess
open Octo.Vmess

def hdr : Bytes :=
  requestHeader Crypto.toy ⟨List.replicate 16 1, List.replicate 16 2, 0x5a⟩ 29 .aes128gcm .tcp
    (be16 443 ++ [2, 6] ++ [119, 51, 46, 111, 114, 103]) [0, 0, 0]

example : ¬ hdr.length < 41 ∧ addrFieldLen hdr = some 7 ∧ ¬ hdr.length < 41 + 7 + padLenOf hdr + 4 := by decide +kernel
example := c07_vmess_parseRequest_reads_in_bounds (fun _ => true) hdr 7 (by decide +kernel) (by decide +kernel) (by decide +kernel)
/-- and the parse succeeds on it (second branch of `c07_vmess_parseRequest_guarded`) -/
example : parseRequest Crypto.toy (fun _ => true) hdr =
    .ok (⟨List.replicate 16 1, List.replicate 16 2, 0x5a⟩, 29, .aes128gcm, .tcp, .domain [119, 51, 46, 111, 114, 103] 443) := by
  decide +kernel

end vmess

end Octo.C07GuardsDemo
