import Octo.Props.C13
import Octo.Props.C14
import Octo.Props.C15
import Octo.Props.C16
import Octo.Proofs.Toy
/-!
# Non-vacuity of C13 – C16
-/
namespace Octo.NonVacuity.C13C16
open Octo

/-! ## C13 -/
section C13
open Octo.Hs

def plainReq : Bytes := str "GET http://example.com:8080/x?y=1 HTTP/1.1\r\nHost: example.com\r\n\r\n"
def connectReq : Bytes := str "CONNECT example.com:443 HTTP/1.1\r\nHost: example.com:443\r\n\r\nEARLY"

example : (0 : Nat) = 0 ∧ ([] : Bytes) = [] ∧ Addr.domain (str "example.com") 8080 = .domain (str "example.com") 8080 :=
  c13_plain_http_untouched plainReq (.domain (str "example.com") 8080) 0 [] (str "GET") (str "http://example.com:8080/x?y=1")
    (str "example.com") 8080 (by decide +kernel) (by decide +kernel) (by decide +kernel)

example := c13_http_tunnel_is_admitted plainReq (.domain (str "example.com") 8080) 0 [] (by decide +kernel)
example := c13_http_tunnel_is_admitted connectReq (.domain (str "example.com") 443) 59 connectReply (by decide +kernel)

example : findBlankLine (connectReq.take 8192) = some 59 ∧ connectReply = connectReply :=
  c13_connect_consumed_exactly connectReq (.domain (str "example.com") 443) 59 connectReply (str "CONNECT") (str "example.com:443")
    (str "example.com") 443 (by decide +kernel) (by decide +kernel) (by decide +kernel)

def adDom : Addr := .domain (str "example.com") 443
def adV6 : Addr := .v6 (List.replicate 16 (1 : UInt8)) 53
def bound : Addr := .v4 [0, 0, 0, 0] 0

example := c13_socks5_connect [0, 2] (by decide) (by decide) adDom (by decide +kernel) bound
example := c13_socks5_connect [0] (by decide) (by decide) adV6 (by decide) bound

example : ∃ a' rest, Socks5.decodeCommandRequest (Socks5.encodeCommandRequest 1 adDom) = .ok (1, a', rest) :=
  c13_socks5_only_connect _ _ bound _ _ _ (c13_socks5_connect [0, 2] (by decide) (by decide) adDom (by decide +kernel) bound)

-- `http://[fe80::1]:8443/a:b/c://d/?x=http://y/`
example : recognizeHttp (str "GET") ex4.render = some (.http ex4.authHost ((parseU16 (str "8443")).getD 0)) :=
  c13_http_authority ex4 ex4_wf (str "GET") (by decide +kernel)
example := c13_http_authority ex2 ex2_wf (str "POST") (by decide +kernel)

example : recognizeHttp (str "CONNECT") (str "[::1]" ++ ch ':' :: str "8443") = some (.https (str "[::1]") 8443) :=
  c13_connect_authority (str "[::1]") (str "8443") 8443 (by decide +kernel) (by decide +kernel) (by decide +kernel)

example : recognizeHttp (str "GET") (str "/x://evil.example/?q") = none :=
  c13_origin_form_refused _ _ (by decide +kernel) (by decide +kernel)

/-- `http://h:65536/p` -/
def badPort : Target := ⟨str "http", str "h", false, some (str "65536"), str "/p", none⟩
theorem badPort_shape : badPort.Shape :=
  ⟨by decide +kernel, by decide +kernel, by decide +kernel, fun p hp => by cases hp; decide +kernel, by decide +kernel⟩

example : recognizeHttp (str "GET") badPort.render = none :=
  c13_bad_port_refused badPort badPort_shape (str "65536") rfl (by decide +kernel) (str "GET") (by decide +kernel)

example : recognizeHttp (str "CONNECT") (str "example.com") = none :=
  c13_connect_without_port_refused (str "example.com") (by decide +kernel)

end C13

/-! ## C14 (the file's own examples show `Accepted` addresses exist; here the theorems are applied) -/

example : Socks5Addr.decode (Socks5Addr.encode adDom ++ [1, 2, 3]) = .ok (adDom, [1, 2, 3]) :=
  c14_socks5_roundtrip adDom [1, 2, 3] (by decide +kernel)
example := c14_socks5_roundtrip adV6 [] (by decide)
example := c14_socks5_length adDom (by decide +kernel)
example := c14_socks5_length (.v4 [1, 2, 3, 4] 80) (by decide)
example := c14_socks5_try_decode_at adDom [5, 1, 0] [9, 9] (by decide +kernel)
example : ∃ w, VmessAddr.write adDom = .ok w ∧ VmessAddr.read (fun h => h.all (· < 128)) (w ++ [7, 7]) = .ok (adDom, [7, 7]) :=
  c14_vmess_roundtrip (fun h => h.all (· < 128)) adDom [7, 7] (by decide +kernel)
    (by intro host p h; cases h; decide +kernel)
example := c14_vmess_roundtrip (fun _ => false) adV6 [7] (by decide) (by intro host p h; cases h)

/-! ## C15 -/
section C15
open Octo.Pump

def fEnd : Flow := ⟨⟨[.eof], [[5]], false, false⟩, ⟨[.item [1]], [], false, false⟩, false⟩
example : (fEnd.step .up).tornDown = true :=
  c15_teardown_on_return fEnd .up (Or.inl (by decide)) (fun _ => ⟨rfl, rfl⟩)

def fDone : Flow := ⟨⟨[.item [9]], [[5]], true, true⟩, ⟨[.item [1]], [], false, false⟩, true⟩
example := c15_torn_down_is_final fDone rfl [.up, .down, .down, .up]

example := c15_ending_flow_is_released [[1], [2, 3]] .fail (Or.inr rfl) [.item [4]] [.item [7], .eof]
example := c15_ending_flow_is_released [[1]] .eof (Or.inl rfl) [] []

example : ([fDone, fEnd.step .up].map Flow.resources).sum = 0 := c15_baseline _ (by decide)

end C15

/-! ## C16 -/
section C16
open Octo.Config

example : "chacha20-ietf-poly1305" ∈ readmeCiphers.map (·.1) :=
  c16_unknown_cipher_rejected "chacha20-ietf-poly1305" .chacha20 (by decide +kernel)

theorem legacy_ctx : Ss.ctxOfConfig Crypto.toy "aes-256-gcm" "pw" [] =
    some ⟨.aes256, Ss.opensslBytesToKey Crypto.toy 32 "pw".toUTF8.toList, [], []⟩ := by
  simp [Ss.ctxOfConfig, Ss.Kind.ofName, Ss.Kind.is2022, Ss.Kind.n]

example := c16_legacy_key Crypto.toy Crypto.toy_lawful "aes-256-gcm" "pw" _ legacy_ctx rfl

-- 16 zero bytes
example : (List.replicate 16 (0 : UInt8)).length = 16 :=
  c16_bad_key 16 "AAAAAAAAAAAAAAAAAAAAAA==" (List.replicate 16 0) (by decide +kernel)

-- `c16_bad_key_rejected`: see `NonVacuityC16Split.lean` (`String.splitOn` does not reduce in the kernel)

end C16

end Octo.NonVacuity.C13C16
