import Octo.Props.C13
/-!
# C13 — the HTTP local handshake: independence of segmentation at handshake level

`Hs.httpHandshake b` is the decision of `get_request_addr` for an HTTP-proxy client as a function of
*all* bytes received so far; "need more bytes" is the outcome `.wait` (the Rust peeks again after the
next read; the model has no clock — a connection that stays at `.wait` for ever is what the code's
handshake time-out ends, outside the model).  "How the bytes were split" = "which prefixes of the
stream the decision function was asked about".  The two size limits of the code are part of the
model: the request line (method SP target SP) must lie within the first 1024 bytes (else `414`),
a CONNECT request's blank line within the first 8192 bytes (else refused).

* `c13_http_decided_is_final` — for *all* bytes: once the handshake has decided (tunnel / forward /
  refuse) on the bytes received so far, any further bytes change nothing: same decision, same
  target, same reply, same number of bytes consumed (`Outcome` equality covers all four).
* `c13_http_wait_is_prefix_closed` — the same read the other way.
* `c13_http_undecided_before_end` — for *all* bytes: (i) whatever request line `(m, t)` the first
  1024 bytes hold, every prefix that ends before the space after the target is undecided;
  (ii) if the handshake tunnels having consumed `n` bytes (CONNECT: through the blank line), every
  prefix shorter than `n` is undecided — it never refuses, forwards or tunnels early.
* `c13_http_segmented` — a well-formed request (`m SP t SP tail`, no space in `m`, `t`, request line
  within 1024 bytes) followed by any payload, cut anywhere: a request decided at the request line
  (plain absolute-URI request: forwarded untouched; every refusal) waits strictly before the space
  after the target and gives the whole-request outcome from there on; an admitted CONNECT whose
  blank line ends at byte `n ≤ 8192` waits before byte `max (line end) n` and from there on tunnels
  to that address having consumed exactly `n` bytes, replying `200`.
-/
namespace Octo.Hs

/-! ### the blank-line search -/

theorem findBlankLine_bounds : ∀ (y : Bytes) (n : Nat), findBlankLine y = some n → 4 ≤ n ∧ n ≤ y.length := by
  intro y
  induction y with
  | nil => intro n h; simp [findBlankLine] at h
  | cons x r ih =>
    intro n h
    simp only [findBlankLine] at h
    split at h
    · rename_i hp
      cases h
      have : ((x :: r).take 4).length = 4 := by rw [hp]; rfl
      rw [List.length_take] at this
      exact ⟨Nat.le_refl _, by omega⟩
    · cases hr : findBlankLine r with
      | none => simp [hr] at h
      | some i =>
        simp only [hr, Option.map_some, Option.some.injEq] at h
        have := ih i hr
        simp only [List.length_cons]; omega

theorem findBlankLine_append_of_some : ∀ (a t : Bytes) (n : Nat), findBlankLine a = some n →
    findBlankLine (a ++ t) = some n := by
  intro a
  induction a with
  | nil => intro t n h; simp [findBlankLine] at h
  | cons x r ih =>
    intro t n h
    simp only [List.cons_append, findBlankLine] at h ⊢
    by_cases hp : (x :: r).take 4 = [13, 10, 13, 10]
    · have hl : 4 ≤ (x :: r).length := by
        have : ((x :: r).take 4).length = 4 := by rw [hp]; rfl
        rw [List.length_take] at this; omega
      have : (x :: (r ++ t)).take 4 = (x :: r).take 4 := by
        rw [← List.cons_append, List.take_append_of_le_length hl]
      rw [this]
      simp only [hp, if_true] at h ⊢; exact h
    · simp only [hp, if_false] at h
      cases hr : findBlankLine r with
      | none => simp [hr] at h
      | some i =>
        simp only [hr, Option.map_some, Option.some.injEq] at h
        have hb := findBlankLine_bounds r i hr
        have : (x :: (r ++ t)).take 4 = (x :: r).take 4 := by
          rw [← List.cons_append, List.take_append_of_le_length (by simp only [List.length_cons]; omega)]
        rw [this]
        simp only [hp, if_false, ih t i hr, Option.map_some, h]

/-- before the last byte of the blank line has arrived, it is not found -/
theorem findBlankLine_take_lt (y : Bytes) (n j : Nat) (h : findBlankLine y = some n) (hj : j < n) :
    findBlankLine (y.take j) = none := by
  cases hq : findBlankLine (y.take j) with
  | none => rfl
  | some n' =>
    have h2 := findBlankLine_append_of_some _ (y.drop j) n' hq
    rw [List.take_append_drop, h] at h2
    have hb := (findBlankLine_bounds _ _ hq).2
    rw [List.length_take] at hb
    cases h2; omega

/-- from the last byte of the blank line on, it is found at the same place -/
theorem findBlankLine_take_ge : ∀ (y : Bytes) (n j : Nat), findBlankLine y = some n → n ≤ j →
    findBlankLine (y.take j) = some n := by
  intro y
  induction y with
  | nil => intro n j h; simp [findBlankLine] at h
  | cons x r ih =>
    intro n j h hj
    have hn := (findBlankLine_bounds _ _ h).1
    cases j with
    | zero => omega
    | succ j' =>
      have htt : ((x :: r).take (j' + 1)).take 4 = (x :: r).take 4 := by
        rw [List.take_take, Nat.min_eq_left (by omega)]
      rw [List.take_succ_cons] at htt ⊢
      simp only [findBlankLine] at h ⊢
      rw [htt]
      by_cases hp : (x :: r).take 4 = [13, 10, 13, 10]
      · simp only [hp, if_true] at h ⊢; exact h
      · simp only [hp, if_false] at h ⊢
        cases hr : findBlankLine r with
        | none => simp [hr] at h
        | some i =>
          simp only [hr, Option.map_some, Option.some.injEq] at h
          rw [ih i j' hr (by omega)]
          simp [h]

/-! ### the request line -/

theorem requestLine_len (y m t : Bytes) (h : requestLine y = some (m, t)) : m.length + t.length + 2 ≤ y.length := by
  unfold requestLine at h
  cases h1 : findByte (ch ' ') y with
  | none => simp [h1] at h
  | some i =>
    have hi := findByte_lt _ _ _ h1
    simp only [h1] at h
    cases h2 : findByte (ch ' ') (y.drop (i + 1)) with
    | none => simp [h2] at h
    | some j =>
      have hj := findByte_lt _ _ _ h2
      simp only [h2, Option.some.injEq, Prod.mk.injEq] at h
      simp only [List.length_drop] at hj
      rw [← h.1, ← h.2]
      simp only [List.length_take, List.length_drop]
      omega

/-- before the space after the target has arrived, there is no request line -/
theorem requestLine_take_lt (y m t : Bytes) (k : Nat) (h : requestLine y = some (m, t))
    (hk : k < m.length + t.length + 2) : requestLine (y.take k) = none := by
  cases hq : requestLine (y.take k) with
  | none => rfl
  | some mt =>
    obtain ⟨m', t'⟩ := mt
    have h2 := requestLine_stable _ (y.drop k) m' t' hq
    rw [List.take_append_drop, h] at h2
    have hb := requestLine_len _ _ _ hq
    rw [List.length_take] at hb
    cases h2; omega

/-- the request line of a well-formed request -/
theorem requestLine_line (m t z : Bytes) (hm : ch ' ' ∉ m) (ht : ch ' ' ∉ t) :
    requestLine (m ++ ch ' ' :: t ++ ch ' ' :: z) = some (m, t) := by
  unfold requestLine
  have h1 : findByte (ch ' ') (m ++ ch ' ' :: t ++ ch ' ' :: z) = some m.length := by
    rw [List.append_assoc]; exact findByte_append_cons _ hm
  rw [h1]
  simp only
  have hd : (m ++ ch ' ' :: t ++ ch ' ' :: z).drop (m.length + 1) = t ++ ch ' ' :: z := by
    rw [List.append_assoc, show m ++ (ch ' ' :: t ++ ch ' ' :: z) = (m ++ [ch ' ']) ++ (t ++ ch ' ' :: z) by simp]
    exact List.drop_left' (by simp)
  rw [hd, findByte_append_cons _ ht]
  simp only [Option.some.injEq, Prod.mk.injEq]
  refine ⟨?_, by simp⟩
  rw [List.append_assoc]; exact List.take_left' rfl

theorem requestLine_take_ge (m t z : Bytes) (hm : ch ' ' ∉ m) (ht : ch ' ' ∉ t) (j : Nat)
    (hj : m.length + t.length + 2 ≤ j) :
    requestLine ((m ++ ch ' ' :: t ++ ch ' ' :: z).take j) = some (m, t) := by
  have hs : m ++ ch ' ' :: t ++ ch ' ' :: z = (m ++ ch ' ' :: t ++ [ch ' ']) ++ z := by simp
  have hl : (m ++ ch ' ' :: t ++ [ch ' ']).length = m.length + t.length + 2 := by
    simp only [List.length_append, List.length_cons, List.length_nil]; omega
  rw [hs, List.take_append, List.take_of_length_le (by omega)]
  apply requestLine_stable
  have := requestLine_line m t [] hm ht
  exact this

/-! ### a decision is final -/

/-- **a decision is final**: for all bytes, once the handshake has decided on the bytes received so
far — tunnel (CONNECT), forward (plain request: `tunnel a 0 []`) or refuse (with or without a
reply) — further bytes change neither the decision nor the target, the reply or the number of
bytes consumed -/
theorem c13_http_decided_is_final (b more : Bytes) (h : httpHandshake b ≠ .wait) :
    httpHandshake (b ++ more) = httpHandshake b := by
  unfold httpHandshake at h ⊢
  simp only [] at h ⊢
  have hw : (b ++ more).take 1024 = b.take 1024 ++ more.take (1024 - b.length) := List.take_append
  cases hl : requestLine (b.take 1024) with
  | none =>
    simp only [hl] at h ⊢
    by_cases hlen : (b.take 1024).length ≥ 1024
    · have hb : 1024 ≤ b.length := by rw [List.length_take] at hlen; omega
      rw [List.take_append_of_le_length hb, hl]
    · rw [if_neg hlen] at h; exact absurd rfl h
  | some mt =>
    obtain ⟨m, t⟩ := mt
    have hl' : requestLine ((b ++ more).take 1024) = some (m, t) := by
      rw [hw]; exact requestLine_stable _ _ m t hl
    simp only [hl, hl'] at h ⊢
    cases hr : recognizeHttp m t with
    | none => rfl
    | some px =>
      cases px with
      | http hst port => rfl
      | https hst port =>
        simp only [hr] at h ⊢
        cases ha : admitHost hst port with
        | none => rfl
        | some a =>
          simp only [ha] at h ⊢
          have hw8 : (b ++ more).take 8192 = b.take 8192 ++ more.take (8192 - b.length) := List.take_append
          cases hb : findBlankLine (b.take 8192) with
          | some n =>
            rw [hw8, findBlankLine_append_of_some _ _ n hb]
          | none =>
            simp only [hb] at h ⊢
            by_cases hlen : b.length ≥ 8192
            · rw [List.take_append_of_le_length hlen, hb]
              simp only [hlen, if_true, List.length_append]
              rw [if_pos (by omega)]
            · rw [if_neg hlen] at h; exact absurd rfl h

/-- the same, read the other way: while a longer stream is still undecided, so was every prefix -/
theorem c13_http_wait_is_prefix_closed (b more : Bytes) (h : httpHandshake (b ++ more) = .wait) :
    httpHandshake b = .wait := by
  apply Classical.byContradiction
  intro hne
  rw [c13_http_decided_is_final b more hne] at h
  exact hne h

/-- a decision taken on a prefix is the decision on every longer prefix -/
theorem c13_http_decided_from_there_on (b : Bytes) (d k : Nat) (hd : httpHandshake (b.take d) ≠ .wait) (hk : d ≤ k) :
    httpHandshake (b.take k) = httpHandshake (b.take d) := by
  have : b.take k = b.take d ++ (b.drop d).take (k - d) := by
    have h1 : b.take k = (b.take d ++ b.drop d).take k := by rw [List.take_append_drop]
    rw [h1, List.take_append, List.length_take]
    by_cases hdl : d ≤ b.length
    · rw [Nat.min_eq_left hdl, List.take_of_length_le (by rw [List.length_take]; omega)]
    · have hdn : b.drop d = [] := List.drop_eq_nil_iff.mpr (by omega)
      rw [hdn, List.take_of_length_le (by rw [List.length_take]; omega)]; simp
  rw [this]
  exact c13_http_decided_is_final _ _ hd

/-! ### never early -/

/-- what a tunnel outcome tells about the bytes: nothing consumed (a forwarded plain request), or
consumed through the first blank line -/
theorem httpHandshake_tunnel_inv (b : Bytes) (a : Addr) (n : Nat) (r : Bytes) (h : httpHandshake b = .tunnel a n r) :
    (n = 0 ∧ r = []) ∨ (findBlankLine (b.take 8192) = some n ∧ r = connectReply) := by
  unfold httpHandshake at h
  simp only [] at h
  cases hl : requestLine (b.take 1024) with
  | none => simp only [hl] at h; split at h <;> cases h
  | some mt =>
    obtain ⟨m, t⟩ := mt
    simp only [hl] at h
    cases hr : recognizeHttp m t with
    | none => simp [hr] at h
    | some px =>
      cases px with
      | http hst port =>
        simp only [hr] at h
        cases ha : admitHost hst port with
        | none => simp [ha] at h
        | some a' =>
          simp only [ha, Outcome.tunnel.injEq] at h
          exact Or.inl ⟨h.2.1.symm, h.2.2.symm⟩
      | https hst port =>
        simp only [hr] at h
        cases ha : admitHost hst port with
        | none => simp [ha] at h
        | some a' =>
          simp only [ha] at h
          cases hb : findBlankLine (b.take 8192) with
          | none => simp only [hb] at h; split at h <;> cases h
          | some k =>
            simp only [hb, Outcome.tunnel.injEq] at h
            exact Or.inr ⟨by rw [h.2.1], h.2.2.symm⟩

/-- **never early**, for all bytes `b` and every cut `k`:

(i) if the first 1024 bytes of `b` hold the request line `m SP t SP`, the handshake is undecided on
every prefix that ends before the space after the target (this covers the plain absolute-URI
request — decided exactly at that space — and every refusal taken at the request line);

(ii) if on `b` the handshake opens a tunnel having consumed `n` bytes (CONNECT: `n` = the end of the
first blank line), it is undecided on every prefix shorter than `n`: it neither refuses nor
tunnels before the blank line is complete. -/
theorem c13_http_undecided_before_end (b : Bytes) (k : Nat) :
    (∀ m t, requestLine (b.take 1024) = some (m, t) → k < m.length + t.length + 2 →
      httpHandshake (b.take k) = .wait) ∧
    (∀ a n r, httpHandshake b = .tunnel a n r → k < n → httpHandshake (b.take k) = .wait) := by
  refine ⟨?_, ?_⟩
  · intro m t hl hk
    have hlen := requestLine_len _ _ _ hl
    rw [List.length_take] at hlen
    have hnone : requestLine ((b.take k).take 1024) = none := by
      rw [List.take_take, Nat.min_comm, ← List.take_take]
      exact requestLine_take_lt _ m t k hl hk
    unfold httpHandshake
    simp only [hnone]
    rw [if_neg (by simp only [List.length_take]; omega)]
  · intro a n r ht hk
    apply Classical.byContradiction
    intro hne
    have hfin := c13_http_decided_is_final (b.take k) (b.drop k) hne
    rw [List.take_append_drop, ht] at hfin
    rcases httpHandshake_tunnel_inv _ _ _ _ hfin.symm with ⟨h0, _⟩ | ⟨hb, _⟩
    · omega
    · have := (findBlankLine_bounds _ _ hb).2
      simp only [List.length_take] at this
      omega

/-! ### a well-formed request, cut anywhere -/

/-- the outcome decided at the request line `m SP t SP`, if it is decided there: a plain request is
forwarded untouched, an unrecognised or inadmissible target is refused; `none` for an admitted
CONNECT, which is decided at its blank line -/
def lineOutcome (m t : Bytes) : Option Outcome :=
  match recognizeHttp m t with
  | none => some (.refused [])
  | some (.http h p) =>
    (match admitHost h p with
     | some a => some (.tunnel a 0 [])
     | none => some (.refused []))
  | some (.https h p) =>
    (match admitHost h p with
     | none => some (.refused [])
     | some _ => none)

/-- once the request line is within the 1024-byte window, a line-decided request has its outcome -/
theorem httpHandshake_of_line (b m t : Bytes) (o : Outcome) (hl : requestLine (b.take 1024) = some (m, t))
    (ho : lineOutcome m t = some o) : httpHandshake b = o := by
  unfold httpHandshake
  simp only [hl]
  unfold lineOutcome at ho
  cases hr : recognizeHttp m t with
  | none => simp only [hr, Option.some.injEq] at ho; exact ho
  | some px =>
    cases px with
    | http hst port =>
      simp only [hr] at ho ⊢
      cases ha : admitHost hst port with
      | none => simp only [ha, Option.some.injEq] at ho; exact ho
      | some a => simp only [ha, Option.some.injEq] at ho; exact ho
    | https hst port =>
      simp only [hr] at ho ⊢
      cases ha : admitHost hst port with
      | none => simp only [ha, Option.some.injEq] at ho; exact ho
      | some a => simp [ha] at ho

/-- an admitted CONNECT whose request line and blank line are both within their windows -/
theorem httpHandshake_of_connect (b m t hst : Bytes) (port : Nat) (a : Addr) (n : Nat)
    (hl : requestLine (b.take 1024) = some (m, t)) (hr : recognizeHttp m t = some (.https hst port))
    (ha : admitHost hst port = some a) (hb : findBlankLine (b.take 8192) = some n) :
    httpHandshake b = .tunnel a n connectReply := by
  unfold httpHandshake
  simp only [hl, hr, ha, hb]

/-- **a well-formed request, however it is split.**  `req = m SP t SP tail` with no space in the
method and the target and the request line within the first 1024 bytes, followed by any bytes
`payload` of the application; cut the stream after `k` bytes.

(1) If the request is decided at its request line (`lineOutcome m t = some o`: a plain absolute-URI
request, `o = tunnel a 0 []` = forwarded untouched; or any refusal): the handshake waits strictly
before the space after the target, and gives `o` — the whole-request outcome — from that byte on.

(2) If it is an admitted CONNECT (`recognizeHttp m t = some (.https h p)`, `admitHost h p = some a`)
whose first blank line ends at byte `n ≤ 8192` of `req`: the handshake waits strictly before byte
`max (m.length + t.length + 2) n` (both the request line and the blank line must have arrived), and
from that byte on tunnels to `a`, having consumed exactly `n` bytes and replying `200`; the payload
stays in the stream. -/
theorem c13_http_segmented (m t tail payload : Bytes) (hm : ch ' ' ∉ m) (ht : ch ' ' ∉ t)
    (hlen : m.length + t.length + 2 ≤ 1024) (k : Nat) :
    (∀ o, lineOutcome m t = some o →
      httpHandshake (m ++ ch ' ' :: t ++ ch ' ' :: tail) = o ∧
      httpHandshake ((m ++ ch ' ' :: t ++ ch ' ' :: tail ++ payload).take k) =
        if k < m.length + t.length + 2 then .wait else o) ∧
    (∀ h p a n, recognizeHttp m t = some (.https h p) → admitHost h p = some a →
      findBlankLine (m ++ ch ' ' :: t ++ ch ' ' :: tail) = some n → n ≤ 8192 →
      httpHandshake (m ++ ch ' ' :: t ++ ch ' ' :: tail) = .tunnel a n connectReply ∧
      httpHandshake ((m ++ ch ' ' :: t ++ ch ' ' :: tail ++ payload).take k) =
        if k < max (m.length + t.length + 2) n then .wait else .tunnel a n connectReply) := by
  have hshape : ∀ z : Bytes, m ++ ch ' ' :: t ++ ch ' ' :: tail ++ z = m ++ ch ' ' :: t ++ ch ' ' :: (tail ++ z) := by
    intro z; simp
  -- the request line is read from every prefix of at least its length
  have hline : ∀ (z : Bytes) (j : Nat), m.length + t.length + 2 ≤ j →
      requestLine (((m ++ ch ' ' :: t ++ ch ' ' :: z).take j).take 1024) = some (m, t) := by
    intro z j hj
    rw [List.take_take]
    exact requestLine_take_ge m t z hm ht _ (by omega)
  have hline0 : ∀ z : Bytes, requestLine ((m ++ ch ' ' :: t ++ ch ' ' :: z).take 1024) = some (m, t) :=
    fun z => requestLine_take_ge m t z hm ht _ hlen
  refine ⟨?_, ?_⟩
  · intro o ho
    refine ⟨httpHandshake_of_line _ m t o (hline0 tail) ho, ?_⟩
    split
    · rename_i hk
      exact (c13_http_undecided_before_end _ k).1 m t (by rw [hshape]; exact hline0 _) hk
    · rename_i hk
      rw [hshape]
      exact httpHandshake_of_line _ m t o (hline _ k (by omega)) ho
  · intro h p a n hr ha hb hn
    have hfull : httpHandshake (m ++ ch ' ' :: t ++ ch ' ' :: tail) = .tunnel a n connectReply :=
      httpHandshake_of_connect _ m t h p a n (hline0 tail) hr ha (findBlankLine_take_ge _ n 8192 hb hn)
    refine ⟨hfull, ?_⟩
    have hb' : findBlankLine (m ++ ch ' ' :: t ++ ch ' ' :: tail ++ payload) = some n :=
      findBlankLine_append_of_some _ payload n hb
    split
    · rename_i hk
      by_cases hk1 : k < m.length + t.length + 2
      · exact (c13_http_undecided_before_end _ k).1 m t (by rw [hshape]; exact hline0 _) hk1
      · have hall : httpHandshake (m ++ ch ' ' :: t ++ ch ' ' :: tail ++ payload) = .tunnel a n connectReply := by
          rw [c13_http_decided_is_final _ payload (by rw [hfull]; intro e; cases e), hfull]
        exact (c13_http_undecided_before_end _ k).2 a n connectReply hall (by omega)
    · rename_i hk
      apply httpHandshake_of_connect _ m t h p a n _ hr ha
      · rw [List.take_take]
        exact findBlankLine_take_ge _ n _ hb' (by omega)
      · rw [hshape]; exact hline _ k (by omega)

/-! ### non-vacuity -/

section Examples

def exConnect : Bytes := str "CONNECT example.com:443 HTTP/1.1\r\nHost: example.com:443\r\n\r\n"
def exPlain : Bytes := str "GET http://example.com:8080/x?y=1 HTTP/1.1\r\nHost: example.com\r\n\r\n"
def exPayload : Bytes := str "EARLY DATA"

-- the well-formed requests have the shape the theorem asks for, and satisfy its hypotheses
example : exConnect = str "CONNECT" ++ ch ' ' :: str "example.com:443" ++ ch ' ' :: str "HTTP/1.1\r\nHost: example.com:443\r\n\r\n" := by
  decide +kernel
example : ch ' ' ∉ str "CONNECT" ∧ ch ' ' ∉ str "example.com:443" ∧
    (str "CONNECT").length + (str "example.com:443").length + 2 ≤ 1024 := by decide +kernel
example : recognizeHttp (str "CONNECT") (str "example.com:443") = some (.https (str "example.com") 443) ∧
    admitHost (str "example.com") 443 = some (.domain (str "example.com") 443) ∧
    findBlankLine exConnect = some 59 ∧ exConnect.length = 59 := by decide +kernel

/-- CONNECT, cut anywhere: wait before the last byte of the blank line, the tunnel from there on -/
example (k : Nat) :
    httpHandshake ((exConnect ++ exPayload).take k) =
      if k < 59 then .wait else .tunnel (.domain (str "example.com") 443) 59 connectReply := by
  have h := (c13_http_segmented (str "CONNECT") (str "example.com:443") (str "HTTP/1.1\r\nHost: example.com:443\r\n\r\n")
    exPayload (by decide +kernel) (by decide +kernel) (by decide +kernel) k).2
    (str "example.com") 443 (.domain (str "example.com") 443) 59 (by decide +kernel) (by decide +kernel)
    (by decide +kernel) (by decide)
  have he : exConnect = str "CONNECT" ++ ch ' ' :: str "example.com:443" ++ ch ' ' :: str "HTTP/1.1\r\nHost: example.com:443\r\n\r\n" := by
    decide +kernel
  have hmax : max ((str "CONNECT").length + (str "example.com:443").length + 2) 59 = 59 := by decide +kernel
  have h2 := h.2
  rw [hmax] at h2
  rw [he]; exact h2

example : httpHandshake (exConnect.take 58) = .wait ∧ httpHandshake (exConnect.take 30) = .wait ∧
    httpHandshake (exConnect.take 5) = .wait ∧
    httpHandshake exConnect = .tunnel (.domain (str "example.com") 443) 59 connectReply ∧
    httpHandshake (exConnect ++ exPayload) = .tunnel (.domain (str "example.com") 443) 59 connectReply := by
  decide +kernel

-- plain request: decided at the space after the target (byte 34), forwarded untouched
example : exPlain = str "GET" ++ ch ' ' :: str "http://example.com:8080/x?y=1" ++ ch ' ' :: str "HTTP/1.1\r\nHost: example.com\r\n\r\n" := by
  decide +kernel
example : lineOutcome (str "GET") (str "http://example.com:8080/x?y=1") =
    some (.tunnel (.domain (str "example.com") 8080) 0 []) := by decide +kernel

example (k : Nat) :
    httpHandshake ((exPlain ++ exPayload).take k) =
      if k < 34 then .wait else .tunnel (.domain (str "example.com") 8080) 0 [] := by
  have h := ((c13_http_segmented (str "GET") (str "http://example.com:8080/x?y=1") (str "HTTP/1.1\r\nHost: example.com\r\n\r\n")
    exPayload (by decide +kernel) (by decide +kernel) (by decide +kernel) k).1 _
    (show lineOutcome (str "GET") (str "http://example.com:8080/x?y=1") =
      some (.tunnel (.domain (str "example.com") 8080) 0 []) by decide +kernel)).2
  have he : exPlain = str "GET" ++ ch ' ' :: str "http://example.com:8080/x?y=1" ++ ch ' ' :: str "HTTP/1.1\r\nHost: example.com\r\n\r\n" := by
    decide +kernel
  have hl : (str "GET").length + (str "http://example.com:8080/x?y=1").length + 2 = 34 := by decide +kernel
  rw [hl] at h
  rw [he]; exact h

example : httpHandshake (exPlain.take 33) = .wait ∧
    httpHandshake (exPlain.take 34) = .tunnel (.domain (str "example.com") 8080) 0 [] := by decide +kernel

-- a refusal is final too, and is taken at the request line: origin-form target
example : lineOutcome (str "GET") (str "/index.html") = some (.refused []) := by decide +kernel
example : httpHandshake (str "GET /index.html ") ≠ .wait := by decide +kernel
example : httpHandshake (str "GET /index.html " ++ exPayload) = httpHandshake (str "GET /index.html ") :=
  c13_http_decided_is_final _ _ (by decide +kernel)

-- decided-is-final and never-early on the CONNECT example
example : httpHandshake (exConnect ++ exPayload) = httpHandshake exConnect :=
  c13_http_decided_is_final _ _ (by decide +kernel)
example : httpHandshake (exConnect.take 40) = .wait :=
  (c13_http_undecided_before_end exConnect 40).2 (.domain (str "example.com") 443) 59 connectReply (by decide +kernel) (by decide)

/-- why `c13_http_segmented` (2) says `max`: the model reads the request line by spaces only, so a
target may contain a blank line (httparse itself would reject the control bytes — the model is wider
than the code here).  Then the first blank line ends *inside* the request line: the handshake still
waits for the space after the target (byte 17), and then reports only 13 bytes consumed. -/
example :
    let b := str "CONNECT a\r\n\r\nb:1 HTTP/1.1\r\n\r\n"
    findBlankLine b = some 13 ∧ httpHandshake (b.take 16) = .wait ∧
      httpHandshake (b.take 17) = .tunnel (.domain (str "a\r\n\r\nb") 1) 13 connectReply := by decide +kernel

-- the two size limits: a request line that does not fit 1024 bytes is answered 414 — and that is final
example : httpHandshake (List.replicate 1024 (ch 'A')) = .refused tooLongReply ∧
    httpHandshake (List.replicate 1023 (ch 'A')) = .wait := by decide +kernel
example : httpHandshake (List.replicate 1024 (ch 'A') ++ str " x ") = .refused tooLongReply := by
  rw [c13_http_decided_is_final _ _ (by decide +kernel)]; decide +kernel

end Examples

end Octo.Hs
