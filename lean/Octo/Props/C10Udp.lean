import Octo.Proofs.SsUdpRound
import Octo.Proofs.SsUdpOpened
import Octo.Props.C02Udp
/-!
# C10 — Shadowsocks-2022 datagrams obey the same 30-second and type rules

`SsUdp.decode` for a 2022 kind factors (`decode_2022`) into a header-length check, `opened` (which key
opens the body; yields session id, packet id, the plaintext after them, the user) and `bodyParse`
(what the opened plaintext says).  The plaintext begins `type ‖ timestamp(8) ‖ …`.  Whatever the
datagram bytes are, an accepted datagram has an opened plaintext whose type byte is the one the
decoder expects from its peer (`mode.expectU8`: a server accepts only client-typed, a client only
server-typed datagrams) and whose timestamp is within `Consts.ssMaxTimeDiff` (30 s) of the decoder's
clock.  No hypothesis on the crypto, the bytes, or the context other than "a 2022 kind".
-/
namespace Octo.SsUdp
open Octo.Ss

/-- what `bodyParse` has checked when it answers `ok` -/
theorem bodyParse_ok_conditions (mode : Mode) (now sid pid : Nat) (body : Bytes) (user : Option User)
    (x : Bytes × Addr × Session) (h : bodyParse mode now sid pid body user = .ok x) :
    body.headD 0 = mode.expectU8 ∧ absDiff now (rdBE ((body.drop 1).take 8)) ≤ Consts.ssMaxTimeDiff := by
  unfold bodyParse at h
  split at h
  · cases h
  · rename_i h1
    split at h
    · cases h
    · rename_i h2
      exact ⟨Decidable.of_not_not h1, Nat.le_of_not_gt h2⟩

/-- a wrong type byte is refused by `bodyParse` -/
theorem bodyParse_wrong_type (mode : Mode) (now sid pid : Nat) (body : Bytes) (user : Option User)
    (h : body.headD 0 ≠ mode.expectU8) : bodyParse mode now sid pid body user = .err := by
  unfold bodyParse
  rw [if_pos h]

/-- a stale (or future) timestamp is refused by `bodyParse` -/
theorem bodyParse_stale (mode : Mode) (now sid pid : Nat) (body : Bytes) (user : Option User)
    (h : absDiff now (rdBE ((body.drop 1).take 8)) > Consts.ssMaxTimeDiff) :
    bodyParse mode now sid pid body user = .err := by
  unfold bodyParse
  split
  · rfl
  · first | rfl | rw [if_pos h]

/-- **C10, datagrams: the accept conditions.**  A 2022 datagram that `decode` accepts was opened to a
plaintext typed as coming from the peer (`mode.expectU8`) and stamped within 30 s of `now`; and it was
at least as long as the fixed header. -/
theorem c10_ss_udp_accept_conditions (C : Crypto) (ctx : Ctx) (hk : ctx.kind.is2022 = true) (mode : Mode) (now : Nat)
    (b p : Bytes) (a : Addr) (s : Session) (h : decode C ctx mode now b = .ok (p, a, s)) :
    ∃ sid pid body user, opened C ctx mode b = some (sid, pid, body, user) ∧
      body.headD 0 = mode.expectU8 ∧
      absDiff now (rdBE ((body.drop 1).take 8)) ≤ Consts.ssMaxTimeDiff := by
  rw [decode_2022 C ctx hk] at h
  split at h
  · cases h
  · split at h
    · cases h
    · rename_i sid pid body user ho
      exact ⟨sid, pid, body, user, ho, bodyParse_ok_conditions mode now sid pid body user _ h⟩

/-- the same, with everything else `decode` tells: the datagram reaches the header length and the
result is `bodyParse` of the opened plaintext -/
theorem c10_ss_udp_accept_conditions' (C : Crypto) (ctx : Ctx) (hk : ctx.kind.is2022 = true) (mode : Mode) (now : Nat)
    (b p : Bytes) (a : Addr) (s : Session) (h : decode C ctx mode now b = .ok (p, a, s)) :
    headerLen ctx mode ≤ b.length ∧
    ∃ sid pid body user, opened C ctx mode b = some (sid, pid, body, user) ∧
      bodyParse mode now sid pid body user = .ok (p, a, s) ∧
      body.headD 0 = mode.expectU8 ∧
      absDiff now (rdBE ((body.drop 1).take 8)) ≤ Consts.ssMaxTimeDiff := by
  rw [decode_2022 C ctx hk] at h
  split at h
  · cases h
  · rename_i hl
    refine ⟨Nat.le_of_not_gt hl, ?_⟩
    split at h
    · cases h
    · rename_i sid pid body user ho
      exact ⟨sid, pid, body, user, ho, h, bodyParse_ok_conditions mode now sid pid body user _ h⟩

/-- **a stale datagram is refused**: the opened plaintext carries a timestamp more than 30 s from the
decoder's clock (either side of it) -/
theorem c10_ss_udp_stale_refused (C : Crypto) (ctx : Ctx) (hk : ctx.kind.is2022 = true) (mode : Mode) (now : Nat)
    (b : Bytes) (sid pid : Nat) (body : Bytes) (user : Option User)
    (ho : opened C ctx mode b = some (sid, pid, body, user))
    (hstale : absDiff now (rdBE ((body.drop 1).take 8)) > Consts.ssMaxTimeDiff) :
    decode C ctx mode now b = .err := by
  rw [decode_2022 C ctx hk]
  split
  · rfl
  · rw [ho]
    exact bodyParse_stale mode now sid pid body user hstale

/-- **a datagram of the wrong type is refused**: e.g. a server's own reply reflected to it, or a
client's request reflected to the client -/
theorem c10_ss_udp_wrong_type_refused (C : Crypto) (ctx : Ctx) (hk : ctx.kind.is2022 = true) (mode : Mode) (now : Nat)
    (b : Bytes) (sid pid : Nat) (body : Bytes) (user : Option User)
    (ho : opened C ctx mode b = some (sid, pid, body, user))
    (htype : body.headD 0 ≠ mode.expectU8) :
    decode C ctx mode now b = .err := by
  rw [decode_2022 C ctx hk]
  split
  · rfl
  · rw [ho]
    exact bodyParse_wrong_type mode now sid pid body user htype

/-- the refusals never turn into anything else: a 2022 datagram that does not open is refused, too -/
theorem c10_ss_udp_unopened_refused (C : Crypto) (ctx : Ctx) (hk : ctx.kind.is2022 = true) (mode : Mode) (now : Nat)
    (b : Bytes) (ho : opened C ctx mode b = none) : decode C ctx mode now b = .err := by
  rw [decode_2022 C ctx hk]
  split
  · rfl
  · rw [ho]

/-- **iff form of the 30-second rule on what the peer really sent** (every supported pairing of a client
with a server, request direction): with everything else in order, the server accepts the client's
datagram exactly when its timestamp is within 30 s of the server clock. -/
theorem c10_ss_udp_request_accepted_iff_fresh (C : Crypto) (hC : C.Lawful) (cc sc : Ctx) (owner : Option User)
    (hp : Paired C cc sc owner) (s : Session) (hsid : s.clientSessionId < 2 ^ 64) (hpid : s.packetId < 2 ^ 64)
    (addr : Addr) (ha : addr.Accepted) (item : Bytes) (r : Rand) (now : Nat) (hts : r.now < 2 ^ 64)
    (hpad : r.padding.length < 65536) (hn : NonceOk sc.kind r) :
    (∃ x, decode C sc .server now (encode C cc .client s addr item r) = .ok x) ↔
      absDiff now r.now ≤ Consts.ssMaxTimeDiff := by
  constructor
  · rintro ⟨⟨p, a, s'⟩, hx⟩
    obtain ⟨sid, pid, body, user, ho, _, hfr⟩ := c10_ss_udp_accept_conditions C sc hp.2.1 .server now _ p a s' hx
    rw [opened_request_paired C hC cc sc owner hp s hsid hpid addr item r hn] at ho
    simp only [Option.some.injEq, Prod.mk.injEq] at ho
    rw [← ho.2.2.1, requestBody_ts addr item r hts] at hfr
    exact hfr
  · intro hfr
    exact ⟨_, request_paired C hC cc sc owner hp s hsid hpid addr ha item r now ⟨hts, hfr, hpad⟩ hn⟩

/-! ### non-vacuity (toy crypto, the contexts of `C02Udp.Demo`) -/

namespace Demo

/-- the hypothesis of `c10_ss_udp_accept_conditions` holds for a real datagram (XChaCha; AES with identity header) -/
example : decode Crypto.toy xch .server 1010 (encode Crypto.toy xch .client sess target payload rnd) =
    .ok (payload, target, ⟨7, 0, 3, none⟩) :=
  request_paired Crypto.toy Crypto.toy_lawful xch xch none (by decide) sess (by decide) (by decide) target (by decide)
    payload rnd 1010 (by decide) (by decide)

/-- and its conclusion names the body that was sealed: type 0 (client), timestamp 1000, |1010 - 1000| ≤ 30 -/
example : ∃ sid pid body user,
    opened Crypto.toy srvM .server (encode Crypto.toy cliB .client sess target payload rnd) = some (sid, pid, body, user) ∧
      body.headD 0 = Mode.server.expectU8 ∧ absDiff 1010 (rdBE ((body.drop 1).take 8)) ≤ Consts.ssMaxTimeDiff :=
  c10_ss_udp_accept_conditions Crypto.toy srvM rfl .server 1010 _ payload target ⟨7, 0, 3, some bob⟩
    (request_paired Crypto.toy Crypto.toy_lawful cliB srvM (some bob) (by decide) sess (by decide) (by decide) target
      (by decide) payload rnd 1010 (by decide) (by decide))

/-- what the server opens from bob's datagram -/
theorem demo_opened :
    opened Crypto.toy srvM .server (encode Crypto.toy cliB .client sess target payload rnd) =
      some (7, 3, requestBody target payload rnd, some bob) := by
  rw [encode_request_eih Crypto.toy cliB rfl kS rfl]
  exact opened_eih Crypto.toy Crypto.toy_lawful srvM rfl (by decide) kB bob (by decide) rfl 7 3 (by decide) (by decide) _

/-- stale: the same datagram 31 s later, and 31 s "before" (a sender clock ahead of the server) -/
example : decode Crypto.toy srvM .server 1031 (encode Crypto.toy cliB .client sess target payload rnd) = .err :=
  c10_ss_udp_stale_refused Crypto.toy srvM rfl .server 1031 _ _ _ _ _ demo_opened (by decide)
example : decode Crypto.toy srvM .server 969 (encode Crypto.toy cliB .client sess target payload rnd) = .err :=
  c10_ss_udp_stale_refused Crypto.toy srvM rfl .server 969 _ _ _ _ _ demo_opened (by decide)
/-- exactly 30 s is still accepted -/
example : decode Crypto.toy srvM .server 1030 (encode Crypto.toy cliB .client sess target payload rnd) =
    .ok (payload, target, ⟨7, 0, 3, some bob⟩) :=
  request_paired Crypto.toy Crypto.toy_lawful cliB srvM (some bob) (by decide) sess (by decide) (by decide) target
    (by decide) payload rnd 1030 (by decide) (by decide)

/-- wrong type: a single-key server's own reply reflected back to it opens (same key, session id in the
same place) and is refused for its type byte -/
theorem demo_reflected_opened :
    opened Crypto.toy aes1 .server (encode Crypto.toy aes1 .server sess target payload rnd) =
      some (11, 3, replyBody sess target payload rnd, none) := by
  rw [encode_reply_aes Crypto.toy aes1 rfl]
  exact opened_aes Crypto.toy Crypto.toy_lawful aes1 .server rfl (by decide) 11 3 (by decide) (by decide) _

example : decode Crypto.toy aes1 .server 1010 (encode Crypto.toy aes1 .server sess target payload rnd) = .err :=
  c10_ss_udp_wrong_type_refused Crypto.toy aes1 rfl .server 1010 _ _ _ _ _ demo_reflected_opened (by decide)

/-- and a client refuses its own request reflected to it (XChaCha) -/
example : decode Crypto.toy xch .client 1010 (encode Crypto.toy xch .client sess target payload rnd) = .err := by
  have ho : opened Crypto.toy xch .client (encode Crypto.toy xch .client sess target payload rnd) =
      some (7, 3, requestBody target payload rnd, none) := by
    rw [encode_request_chacha Crypto.toy xch .xchacha20 rfl]
    exact opened_chacha Crypto.toy Crypto.toy_lawful xch .client .xchacha20 rfl _ _ rfl (by decide) 7 3 (by decide)
      (by decide) _
  exact c10_ss_udp_wrong_type_refused Crypto.toy xch rfl .client 1010 _ _ _ _ _ ho (by decide)

/-- the iff, instantiated: accepted at clock 1010, not at 1031 -/
example : (∃ x, decode Crypto.toy srvM .server 1031 (encode Crypto.toy cliB .client sess target payload rnd) = .ok x) ↔
    absDiff 1031 rnd.now ≤ Consts.ssMaxTimeDiff :=
  c10_ss_udp_request_accepted_iff_fresh Crypto.toy Crypto.toy_lawful cliB srvM (some bob) (by decide) sess (by decide)
    (by decide) target (by decide) payload rnd 1031 (by decide) (by decide) (by decide)

end Demo

end Octo.SsUdp
