import Octo.Props.C06
import Octo.Props.C01
import Octo.Proofs.Ss2022Stream
import Octo.Proofs.Toy2
/-!
# Non-vacuity of C06
-/
namespace Octo.NonVacuity.C06
open Octo Octo.Ss

/-- a `Call` is determined by its fields: lets `decide` establish `decode … = ⟨_, _, .ok i⟩` through the decidable `.res` -/
theorem call_eq_of_res {σ : Type} (c : Call σ) (r : Res Item) (h : c.res = r) : c = ⟨c.st, c.buf, r⟩ := by
  cases c; cases h; rfl

def stepIsTake {σ ο : Type} : Fr.Step σ ο → Bool
  | .take _ _ _ => true
  | _ => false

theorem take_of_isTake {σ ο : Type} (s : Fr.Step σ ο) (h : stepIsTake s = true) : ∃ d k o, s = .take d k o := by
  cases s <;> simp [stepIsTake] at h
  exact ⟨_, _, _, rfl⟩

/-! ### Trojan -/

def ad : Addr := .domain [119, 51, 46, 111, 114, 103] 443
def trojanWire : Bytes := (Trojan.clientEncodeTcp Crypto.toy [112, 119] ad {} [1, 2, 3]).1

example : trojanWire.take 56 = Trojan.keyHex Crypto.toy [112, 119] :=
  c06_trojan Crypto.toy [112, 119] trojanWire .tcp [] ⟨.connect, [1, 2, 3], some ad⟩
    (c01_trojan_first_read Crypto.toy Crypto.toy_lawful [112, 119] ad (by decide) [1, 2, 3])

/-! ### VMess: a request as the client writes it, two registered users at the server -/

def vmKey : Bytes := Vmess.cmdKey Crypto.toy2 (List.replicate 16 0x11)
def vmOther : Bytes := Vmess.cmdKey Crypto.toy2 (List.replicate 16 0x22)
def vmClient : Vmess.Client := { key := vmKey, sec := .aes128gcm, cmd := .tcp, addr := ad }
def vmRand : Vmess.ClientRand :=
  { session := ⟨List.replicate 16 1, List.replicate 16 2, 0x5a⟩, headerPadding := [0, 0, 0], authTime := 1700000000,
    authRand := [9, 8, 7, 6], connNonce := List.replicate 8 5 }
def vmWire : Bytes :=
  match Vmess.Client.encodeFirst Crypto.toy2 vmClient [1, 2, 3] vmRand [List.replicate 63 0] with
  | .ok (w, _) => w
  | _ => []
def vmServer : Vmess.Server := { keys := [vmOther, vmKey] }

theorem vm_accepts : (Vmess.Server.decode Crypto.toy2 (fun _ => true) 1700000030 vmServer vmWire).res =
    .ok ⟨.connect, [1, 2, 3], some ad⟩ := by decide +kernel

example : ∃ key ∈ vmServer.keys, Vmess.authIdMatch Crypto.toy2 (vmWire.take 16) vmServer.keys 1700000030 = some key ∧
    ∃ hdr n, Vmess.openHeader Crypto.toy2 key vmWire = .ok (hdr, n) :=
  c06_vmess Crypto.toy2 (fun _ => true) 1700000030 vmServer rfl vmWire _ _ _ (call_eq_of_res _ _ vm_accepts)

-- the users are told apart (`Crypto.toy2`; under `Crypto.toy` the KDF ignores the key and the first registered key always matches)
example : Vmess.authIdMatch Crypto.toy2 (vmWire.take 16) vmServer.keys 1700000030 = some vmKey := by decide +kernel
example : Vmess.authIdMatch Crypto.toy (Vmess.authIdCreate Crypto.toy vmKey 1700000000 [9, 8, 7, 6]) [vmOther] 1700000030 = some vmOther := by
  decide +kernel

/-! ### Shadowsocks 2022 (the `Demo` data of `Proofs/Ss2022Stream.lean`: PSK mode and two registered users) -/

-- identity headers required: the key is that of the registered user the header names
example := c06_init2022Key Crypto.toy Demo22.sctx Demo22.ds true Demo22.cs.salt ((Demo22.ewire.drop 16).take 43) Demo22.user.key (some Demo22.user)
  (by decide +kernel)
-- PSK mode
example := c06_init2022Key Crypto.toy Demo22.ctx Demo22.ds false Demo22.cs.salt ((Demo22.wire.drop 16).take 27) Demo22.ctx.key none
  (by decide +kernel)

example : True := by
  obtain ⟨d', k, o, h⟩ := take_of_isTake (init2022 Crypto.toy Demo22.ctx Demo22.env ⟨none, Demo22.ds⟩ Demo22.wire) (by decide +kernel)
  have := c06_ss2022 Crypto.toy Demo22.ctx Demo22.env ⟨none, Demo22.ds⟩ Demo22.wire d' k o h
  trivial

example : True := by
  obtain ⟨d', k, o, h⟩ := take_of_isTake (init2022 Crypto.toy Demo22.sctx Demo22.env ⟨none, Demo22.ds⟩ Demo22.ewire) (by decide +kernel)
  have := c06_ss2022 Crypto.toy Demo22.sctx Demo22.env ⟨none, Demo22.ds⟩ Demo22.ewire d' k o h
  trivial

example := c06_response_uses_request_user Crypto.toy Demo22.sctx rfl Demo22.uss Demo22.user rfl rfl [8, 9] Demo22.r

end Octo.NonVacuity.C06
