import Octo.Props.C01
/-!
# C15 — closing or failing one side tears the whole flow down and frees it (logic core)

Over the pump model (`Octo.Pump`, the `forward` ×2 + `try_join!` state machine of both relay
templates).  Descriptor release itself is a consequence of Rust ownership (a returned future holds
nothing), which the model *assumes* (`Flow.resources`); the in-process end-to-end runs count
`/proc/self/fd` before and after batches of flows ending in every way.
-/
namespace Octo.Pump

/-- **flush, then end-of-stream**: a direction closes its sink only after delivering everything its
source handed over before closing -/
theorem c15_flush_then_eof (up down : List Src) (sched : List Pick) :
    let f := (Flow.mk ⟨up, [], false, false⟩ ⟨down, [], false, false⟩ false).run sched
    (f.down.sinkClosed = true → f.down.delivered = itemsBeforeEnd down) ∧
    (f.up.sinkClosed = true → f.up.delivered = itemsBeforeEnd up) := by
  intro f
  have h := c01_pumps up down sched
  exact ⟨h.2.2.1, h.2.2.2⟩

/-- **teardown is immediate**: the step in which either direction returns (its source ended or
failed) is the step in which the whole flow is torn down -/
theorem c15_teardown_on_return (f : Flow) (p : Pick) (h : (f.step p).up.returned = true ∨ (f.step p).down.returned = true)
    (hinv : f.tornDown = false → f.up.returned = false ∧ f.down.returned = false) :
    (f.step p).tornDown = true := by
  unfold Flow.step at h ⊢
  by_cases ht : f.tornDown = true
  · simp [ht]
  · simp only [ht, Bool.false_eq_true, if_false] at h ⊢
    cases p <;> simp only [] at h ⊢ <;> split <;> simp_all

/-- a torn-down flow stays torn down and holds nothing, whatever is scheduled afterwards -/
theorem c15_torn_down_is_final (f : Flow) (h : f.tornDown = true) (sched : List Pick) :
    (f.run sched) = f ∧ (f.run sched).resources = 0 := by
  have : ∀ s : List Pick, f.run s = f := by
    intro s
    induction s with
    | nil => rfl
    | cons p s ih =>
      show (Flow.step f p).run s = f
      have : Flow.step f p = f := by unfold Flow.step; simp [h]
      rw [this]; exact ih
  rw [this]
  exact ⟨rfl, by simp [Flow.resources, h]⟩

theorem Dir.step_returned_of_end (d : Dir) (r : List Src) (hr : d.returned = false)
    (hs : d.script = .eof :: r ∨ d.script = .fail :: r) : d.step.returned = true := by
  unfold Dir.step
  rcases hs with hs | hs <;> simp [hr, hs]

/-- polling a direction whose source has `n` items and then ends (`eof` or `fail`): after `n + 1`
polls of that direction it has returned -/
theorem Dir.returns_after (n : Nat) : ∀ (d : Dir), d.returned = false →
    (∃ (its : List Bytes) (r : List Src) (e : Src), its.length = n ∧ (e = Src.eof ∨ e = Src.fail) ∧ d.script = its.map Src.item ++ e :: r) →
    (Nat.repeat Dir.step (n + 1) d).returned = true := by
  induction n with
  | zero =>
    intro d hr ⟨its, r, e, hl, he, hs⟩
    have : its = [] := List.length_eq_zero_iff.mp hl
    subst this
    simp only [List.map_nil, List.nil_append] at hs
    simp only [Nat.repeat]
    exact Dir.step_returned_of_end d r hr (by rcases he with rfl | rfl <;> simp [hs])
  | succ n ih =>
    intro d hr ⟨its, r, e, hl, he, hs⟩
    cases its with
    | nil => simp at hl
    | cons x its =>
      have hstep : ∀ (m : Nat) (d : Dir), Nat.repeat Dir.step (m + 1) d = Nat.repeat Dir.step m d.step := by
        intro m; induction m with
        | zero => intro d; rfl
        | succ m ihm => intro d; simp only [Nat.repeat] at ihm ⊢; rw [ihm]
      rw [hstep]
      have hd : d.step = { d with script := its.map Src.item ++ e :: r, delivered := d.delivered ++ [x] } := by
        unfold Dir.step; simp [hr, hs]
      rw [hd]
      exact ih _ (by simp [hr]) ⟨its, r, e, by simpa using hl, he, rfl⟩

/-- **every flow that ends is torn down**: if the application's side (or the target's side) ends or
fails after finitely many items, then any schedule that keeps polling that direction tears the flow
down — sockets and tasks are released (resources = 0).  (`Nat.repeat (·.step .up) k` = k polls of
the `up` future; the other direction may be polled any number of times in between, see
`c15_torn_down_is_final` and `c15_teardown_on_return`.) -/
theorem c15_ending_flow_is_released (its : List Bytes) (e : Src) (he : e = .eof ∨ e = .fail) (rest : List Src) (down : List Src) :
    let f0 : Flow := ⟨⟨its.map Src.item ++ e :: rest, [], false, false⟩, ⟨down, [], false, false⟩, false⟩
    let f := Nat.repeat (fun f => f.step .up) (its.length + 1) f0
    f.tornDown = true ∧ f.resources = 0 := by
  intro f0 f
  -- the `up` component evolves as `Dir.step` until the flow is torn down
  have hfix : ∀ (g : Flow), g.tornDown = true → ∀ m, Nat.repeat (fun f => f.step .up) m g = g := by
    intro g hg m
    induction m with
    | zero => rfl
    | succ m ihm => simp only [Nat.repeat]; rw [ihm]; unfold Flow.step; simp [hg]
  have hstepR : ∀ (m : Nat) (d : Dir), Nat.repeat Dir.step (m + 1) d = Nat.repeat Dir.step m d.step := by
    intro m; induction m with
    | zero => intro d; rfl
    | succ m ihm => intro d; simp only [Nat.repeat] at ihm ⊢; rw [ihm]
  have hstepF : ∀ (m : Nat) (g : Flow), Nat.repeat (fun f => f.step .up) (m + 1) g = Nat.repeat (fun f => f.step .up) m (g.step .up) := by
    intro m; induction m with
    | zero => intro g; rfl
    | succ m ihm => intro g; simp only [Nat.repeat] at ihm ⊢; rw [ihm]
  have key : ∀ (k : Nat) (g : Flow), g.tornDown = false → g.down.returned = false → g.up.returned = false →
      (Nat.repeat Dir.step k g.up).returned = true → (Nat.repeat (fun f => f.step .up) k g).tornDown = true := by
    intro k
    induction k with
    | zero => intro g _ _ hu h; simp only [Nat.repeat] at h; rw [hu] at h; cases h
    | succ k ih =>
      intro g ht hd hu h
      rw [hstepR] at h
      rw [hstepF]
      by_cases hret : g.up.step.returned = true
      · have htd : (g.step .up).tornDown = true := by unfold Flow.step; simp [ht, hret]
        rw [hfix _ htd]; exact htd
      · have hg' : (g.step .up) = { g with up := g.up.step } := by
          unfold Flow.step; simp [ht, hret, hd]
        rw [hg']
        exact ih _ (by simp [ht]) (by simp [hd]) (by simpa using hret) h
  have hret := Dir.returns_after its.length ⟨its.map Src.item ++ e :: rest, [], false, false⟩ rfl ⟨its, rest, e, rfl, he, rfl⟩
  have ht : f.tornDown = true := key (its.length + 1) f0 rfl rfl rfl hret
  exact ⟨ht, by simp [Flow.resources, ht]⟩

/-- **baseline**: after any batch of flows that have all ended, nothing is held -/
theorem c15_baseline (flows : List Flow) (h : ∀ f ∈ flows, f.tornDown = true) :
    (flows.map Flow.resources).sum = 0 := by
  induction flows with
  | nil => rfl
  | cons f fs ih =>
    have hf := h f List.mem_cons_self
    simp only [List.map_cons, List.sum_cons, Flow.resources, hf, if_true, Nat.zero_add]
    exact ih (fun g hg => h g (List.mem_cons_of_mem _ hg))

end Octo.Pump
