import Octo.Props.C07
import Octo.Props.C08
import Octo.Props.C09
import Octo.Props.C10
import Octo.Props.C11
import Octo.Proofs.Toy2
/-!
# Non-vacuity of C07 – C11 (theorems that carry hypotheses)
C08: no theorem has a hypothesis.  C11Gen: `c11_generated_code_refines` has its example in the file.
-/
namespace Octo.NonVacuity.C07C11
open Octo

/-! ## C07 -/

example : Socks5Addr.tryDecodeAt [5, 1, 0, 3, 200, 1] 3 ≠ .panic := c07_tryDecodeAt_total _ 3 (by decide)

/-- port 443, type 2 (domain), length 3, "abc", then more bytes -/
example : VmessAddr.read (fun _ => true) [1, 187, 2, 3, 97, 98, 99, 0, 0] ≠ .panic :=
  c07_vmess_read_total _ _ (by decide) (by decide) (by decide) (by decide) (by decide)
example : VmessAddr.read (fun _ => false) ([0, 80, 3] ++ List.replicate 16 1) ≠ .panic :=
  c07_vmess_read_total _ _ (by decide) (by decide) (by decide) (by decide) (by decide)

/-- the hypothesis of the adapter theorem is met by a real decoder (here Trojan's server codec, any password) -/
example (pw piece : Bytes) (f : FrSt Trojan.SrvSt) :=
  c07_adapters_total (Trojan.serverDecode Crypto.toy pw) (c07_trojan_server_total Crypto.toy pw) f piece

/-! ## C09 -/
open Octo.Interleave Octo.SaltCache in
example := c09_cipher_cache_pure (fun k : Nat => k * k) [(3, 9), (5, 25)] 5 (by decide)
open Octo.Interleave Octo.SaltCache in
example := c09_cipher_cache_pure (fun k : Nat => k * k) [(3, 9), (5, 25)] 7 (by decide)

open Octo.Interleave Octo.SaltCache in
/-- two live salts and one expired entry in the cache, capacity 4 -/
example : Holds 60000 100000 (SaltCache.insert 60000 4 100000 [⟨[9], 1000⟩, ⟨[1, 1], 90000⟩, ⟨[3], 95000⟩] [2, 2]).2 [1, 1] ↔
    Holds 60000 100000 [⟨[9], 1000⟩, ⟨[1, 1], 90000⟩, ⟨[3], 95000⟩] [1, 1] :=
  c09_distinct_salts_independent 60000 4 100000 _ [1, 1] [2, 2] (by decide) (by decide)

/-! ## C10 -/
section C10
open Octo.SaltCache

/-- history: another salt, the request (accepted), other traffic, the same request 50 s later, more traffic;
lifetime 61 s, capacity 8 -/
def hist : List (Nat × Bytes × Nat) :=
  [(1000000, [9], 1000)] ++ (1001000, [1, 2, 3], 1030) :: ([(1002000, [7], 1002), (1040000, [8], 1040)] ++ (1051000, [1, 2, 3], 1030) :: [(1052000, [6], 1052)])

theorem hist_calm : Calm 30 61000 8 [] hist := by
  repeat (first | exact Calm.nil _ | (refine Calm.cons _ _ _ _ _ (by decide) ?_))

example :
    let r := SaltCache.run 30 61000 8 [] hist
    ¬ (r[1]? = some true ∧ r[4]? = some true) :=
  c10_no_replay 30 61000 8 (by decide) [1, 2, 3] 1030 [(1000000, [9], 1000)] 1001000 [(1002000, [7], 1002), (1040000, [8], 1040)] 1051000
    [(1052000, [6], 1052)] [] hist_calm (by decide) (by decide)

/-- and the first presentation *is* accepted in that history (the negated conjunction is not true for the trivial reason) -/
example : SaltCache.run 30 61000 8 [] hist = [true, true, true, true, false, true] := by decide

/-- what `Calm` (no capacity pressure) keeps out: with a full cache the same request is accepted twice -/
example : SaltCache.run 30 61000 1 [] [(1000000, [1], 1000), (1000000, [2], 1000), (1000000, [1], 1000)] = [true, true, true] := by
  decide

end C10

def stepIsTake {σ ο : Type} : Fr.Step σ ο → Bool
  | .take _ _ _ => true
  | _ => false

theorem take_of_isTake {σ ο : Type} (s : Fr.Step σ ο) (h : stepIsTake s = true) : ∃ d k o, s = .take d k o := by
  cases s <;> simp [stepIsTake] at h
  exact ⟨_, _, _, rfl⟩

section C10ss
open Octo.Ss

def ctx : Ctx := ⟨.b3aes128, List.replicate 16 1, [], []⟩
def ad : Addr := .v4 [10, 0, 0, 1] 443
def env : DecEnv := ⟨1000, fun _ => false⟩
def ds : Sess := ⟨.server, [], none, none, none⟩
def salt : Bytes := List.replicate 16 7
/-- the authenticator after the fixed-length header, and the variable-length header it seals next -/
def a1 : Auth := ((newAuth Crypto.toy ctx.kind ctx.key salt).sealB Crypto.toy []).2
def var : Bytes := Socks5Addr.encode ad ++ be16 2 ++ [0, 0] ++ [1, 2, 3]
/-- the bytes as received: salt ‖ 27 bytes of (already opened) fixed header ‖ sealed variable header -/
def wire : Bytes := salt ++ List.replicate 27 0 ++ (a1.sealB Crypto.toy var).1
/-- the opened fixed-length header: type 0, timestamp 990, length of `var` -/
def fixed : Bytes := [0] ++ be64 990 ++ be16 var.length

example : True := by
  obtain ⟨d', k, o, h⟩ := take_of_isTake (init2022Tail Crypto.toy env ⟨none, ds⟩ ds wire 16 27 0 salt a1 fixed) (by decide +kernel)
  have : fixed.headD 0 = ds.mode.expectU8 ∧ absDiff env.now (rdBE ((fixed.drop 1).take 8)) ≤ Consts.ssMaxTimeDiff ∧ _ :=
    c10_ss2022_accept_conditions Crypto.toy env ⟨none, ds⟩ ds wire 16 27 0 salt a1 fixed d' k o h
  trivial

end C10ss

section C10vm
open Octo.Vmess
-- `Crypto.toy2`: with `Crypto.toy` the VMess KDF does not depend on the key (see `Proofs/Toy2.lean`)

def vmKey : Bytes := cmdKey Crypto.toy2 (List.replicate 16 0x11)
def vmOther : Bytes := cmdKey Crypto.toy2 (List.replicate 16 0x22)
def token : Bytes := authIdCreate Crypto.toy2 vmKey 1700000000 [9, 8, 7, 6]

example := c10_vmess_window Crypto.toy2 token [vmOther, vmKey] 1700000100 vmKey (by decide +kernel)
-- outside the window the same token matches nothing
example : authIdMatch Crypto.toy2 token [vmOther, vmKey] 1700000121 = none := by decide +kernel

/-- a client that has sent its request, and the server's response header + first chunk -/
def sess : Session := ⟨List.replicate 16 1, List.replicate 16 2, 0x5a⟩
def client : Client := { key := vmKey, sec := .aes128gcm, cmd := .tcp, addr := .v4 [10, 0, 0, 1] 443, session := some sess }
def server : Server :=
  { keys := [vmKey],
    ready := some { cmd := .tcp, mask := 29, sec := .aes128gcm, addr := .v4 [10, 0, 0, 1] 443, session := sess,
                    dec := Body.new Crypto.toy2 29 .aes128gcm sess.reqKey sess.reqIv sess } }
def respWire : Bytes :=
  match (Server.encode Crypto.toy2 server [4, 5, 6] [List.replicate 63 0]).1 with
  | .ok w => w
  | _ => []

example := c10_vmess_client_binding Crypto.toy2 client sess respWire rfl rfl (by decide +kernel) (by decide +kernel)
-- and the client does deliver the payload
example : (Client.decode Crypto.toy2 client respWire).res = .ok ⟨.data, [4, 5, 6], none⟩ := by decide +kernel

end C10vm

/-! ## C11 -/
open Octo.PW in
example := c11_limit (Filter.new.validate 5 100).1 100 100 (by decide)
open Octo.PW in
/-- the premise of `c11_at_most_once` holds here: id 7 is accepted at position 2, refused at position 5 -/
example : (runImpl 1000 Filter.new ([0, 9] ++ 7 :: ([8, 3] ++ 7 :: [4])))[2]? = some true ∧
    (runImpl 1000 Filter.new ([0, 9] ++ 7 :: ([8, 3] ++ 7 :: [4])))[2 + 1 + 2]? = some false := by
  have h : (runImpl 1000 Filter.new ([0, 9] ++ 7 :: ([8, 3] ++ 7 :: [4])))[2]? = some true := by
    rw [c11_refines]; decide
  exact ⟨h, c11_at_most_once 1000 7 [0, 9] [8, 3] [4] h⟩

end Octo.NonVacuity.C07C11
