import Octo.Proofs.SsStream
import Octo.Proofs.Toy
/-!
# C04 — decoding is independent of how the byte stream is segmented, and never stalls

`Ss.unit` is the unit step of the Shadowsocks TCP stream decoder (`AEADCipherCodec::decode` =
"run unit steps while the buffer allows"), `Fr.feed` is what `FramedRead` does with each new read,
`Ss.encodeAll` is the honest sender.  All statements are for every lawful `Crypto`.
-/
namespace Octo.Ss
open Octo.Fr

/-- **Legacy ciphers, client → server, whole stream**: the decoder, given everything the client
wrote for any sequence of writes, yields exactly `address ‖ payload…`, no failure, empty buffer. -/
theorem c04_ss_legacy_stream (C : Crypto) (hC : C.Lawful) (ctx : Ctx) (hk : ctx.kind.is2022 = false)
    (cs ds : Sess) (env : DecEnv) (ad : Addr)
    (hm : cs.mode = .client) (ha : cs.address = some ad) (hs : cs.salt.length = ctx.kind.n)
    (w : Bytes × EncRand) (ws : List (Bytes × EncRand)) :
    let r := run (unit C ctx env) ⟨none, ds⟩ (encodeAll C ctx cs {} (w :: ws)).1
    Ev.bytes r.out = Socks5Addr.encode ad ++ ((w :: ws).map Prod.fst).flatten ∧
      r.failed = false ∧ r.buf = [] ∧ r.st.sess = ds := by
  have G := unit_good_legacy C hC ctx env hk
  have hne := kind_legacy_noEih _ hk
  obtain ⟨wb, wr⟩ := w
  -- the first write: salt ‖ chunks(address ‖ payload)
  let a0 := newAuth C ctx.kind ctx.key cs.salt
  have henc : encode C ctx cs {} wb wr =
      (cs.salt ++ (encPayload C a0 ctx.kind.payloadLimit (Socks5Addr.encode ad ++ wb)).1, ⟨some (encPayload C a0 ctx.kind.payloadLimit (Socks5Addr.encode ad ++ wb)).2⟩) := by
    simp [encode, hk, hne, hm, ha, a0]
  obtain ⟨a', h2, h3⟩ := encodeAll_some_roundtrip C hC ctx cs ws (encPayload C a0 ctx.kind.payloadLimit (Socks5Addr.encode ad ++ wb)).2
  have hall : (encodeAll C ctx cs {} ((wb, wr) :: ws)).1 =
      cs.salt ++ ((encPayload C a0 ctx.kind.payloadLimit (Socks5Addr.encode ad ++ wb)).1 ++
        (encodeAll C ctx cs ⟨some (encPayload C a0 ctx.kind.payloadLimit (Socks5Addr.encode ad ++ wb)).2⟩ ws).1) := by
    simp [encodeAll, henc]
  -- salt step
  have hn := kind_n_pos ctx.kind
  have u0 : ∀ t, unit C ctx env ⟨none, ds⟩ (cs.salt ++ t) = .take ⟨some ⟨a0, .length⟩, ds⟩ ctx.kind.n [] := by
    intro t
    simp only [unit, hk, Bool.false_eq_true, if_false]
    rw [if_neg (by simp only [List.length_append]; omega)]
    rw [← hs, List.take_left]
  have hd : ∀ t, (cs.salt ++ t).drop ctx.kind.n = t := by intro t; rw [← hs, List.drop_left]
  have hrun : run (unit C ctx env) ⟨none, ds⟩ (encodeAll C ctx cs {} ((wb, wr) :: ws)).1 =
      ⟨⟨some ⟨a', .length⟩, ds⟩, [], (Socks5Addr.encode ad ++ wb ++ (ws.map Prod.fst).flatten).map .byte, false⟩ := by
    rw [hall, run_take _ G _ _ _ _ _ (u0 _), hd, run_lift,
      run_concat _ (chunkUnit_good C hC) _ _ _ _ _ (payload_roundtrip C hC a0 _ (payloadLimit_good ctx.kind) _), h3]
    simp [liftOut]
  simp only [hrun, Ev.bytes_map_byte]
  simp [List.append_assoc]

/-- **Legacy ciphers, any segmentation**: cutting that stream into any consecutive pieces
(`pieces.flatten = wire`) and feeding them one read at a time gives the same address and
payload, no error, and — *never stalls* — leaves nothing decodable in the buffer. -/
theorem c04_ss_legacy_segmented (C : Crypto) (hC : C.Lawful) (ctx : Ctx) (hk : ctx.kind.is2022 = false)
    (cs ds : Sess) (env : DecEnv) (ad : Addr)
    (hm : cs.mode = .client) (ha : cs.address = some ad) (hs : cs.salt.length = ctx.kind.n)
    (w : Bytes × EncRand) (ws : List (Bytes × EncRand))
    (pieces : List Bytes) (hcut : pieces.flatten = (encodeAll C ctx cs {} (w :: ws)).1) :
    let r := pieces.foldl (feed (unit C ctx env)) (run (unit C ctx env) ⟨none, ds⟩ [])
    Ev.bytes r.out = Socks5Addr.encode ad ++ ((w :: ws).map Prod.fst).flatten ∧
      r.failed = false ∧ r.buf = [] ∧ unit C ctx env r.st r.buf = .need := by
  have G := unit_good_legacy C hC ctx env hk
  have h := c04_ss_legacy_stream C hC ctx hk cs ds env ad hm ha hs w ws
  intro r
  have hr : r = run (unit C ctx env) ⟨none, ds⟩ (encodeAll C ctx cs {} (w :: ws)).1 := by
    have := feed_pieces (unit C ctx env) G pieces ⟨none, ds⟩ []
    simp only [List.nil_append, hcut] at this
    exact this
  rw [hr]
  refine ⟨h.1, h.2.1, h.2.2.1, ?_⟩
  exact run_quiescent _ G _ _ _ (Nat.lt_succ_self _) h.2.1

/-- the chunk layer alone (both directions, every cipher incl. Shadowsocks 2022 after its header):
any chunk list, any segmentation, ends quiescent -/
theorem c04_ss_chunks_segmented (C : Crypto) (hC : C.Lawful) (a : Auth) (k : Kind) (p : Bytes)
    (pieces : List Bytes) (hcut : pieces.flatten = (encPayload C a k.payloadLimit p).1) :
    let r := pieces.foldl (feed (chunkUnit C)) (run (chunkUnit C) ⟨a, .length⟩ [])
    r.out = p ∧ r.failed = false ∧ r.buf = [] ∧ chunkUnit C r.st r.buf = .need := by
  have G := chunkUnit_good C hC
  intro r
  have hr : r = run (chunkUnit C) ⟨a, .length⟩ (encPayload C a k.payloadLimit p).1 := by
    have := feed_pieces (chunkUnit C) G pieces ⟨a, .length⟩ []
    simp only [List.nil_append, hcut] at this
    exact this
  rw [hr, payload_roundtrip C hC a _ (payloadLimit_good k) p]
  simp [chunkUnit]

/-! non-vacuity: the hypotheses are satisfiable (toy crypto is lawful; a concrete legacy session) -/
example : ∃ C : Crypto, C.Lawful := ⟨Crypto.toy, Crypto.toy_lawful⟩
example : (⟨.aes128, List.replicate 16 1, [], []⟩ : Ctx).kind.is2022 = false := rfl

end Octo.Ss
