import Octo.Proofs.SsChunk
import Octo.Proofs.SsStream
import Octo.Proofs.Toy
/-!
# C05 — tampered or reflected ciphertext is never delivered as plaintext

Symbolic statement.  `NoForgery` is the cryptographic assumption (integrity of ciphertexts,
idealised to exactness), stated as a *hypothesis about the key and the honest sender's output*:
under the session key and the i-th nonce only the block the honest sender sealed with that nonce
opens.  What is **proved** is what the codec is responsible for: the counter advances once per
block, a length is never used before it has been authenticated, and nothing is released after the
first block that fails to open — for *every* attacker-chosen byte stream, in every segmentation.
-/
namespace Octo.Ss
open Octo.Fr

/-- the nonce of the i-th AEAD operation of a session -/
def nonceAt (i : Nat) : Bytes := Nat.repeat Nonce.incStep (i + 1) Nonce.incInit

/-- the blocks an honest sender seals for the chunk list, in order, with their plaintexts;
`c` = number of AEAD operations already done -/
def honestBlocks (C : Crypto) (alg : Alg) (key : Bytes) : Nat → List Bytes → List (Bytes × Bytes)
  | _, [] => []
  | c, p :: ps =>
    (C.sealB alg key (nonceAt c) [] (be16 p.length), be16 p.length) ::
    (C.sealB alg key (nonceAt (c + 1)) [] p, p) :: honestBlocks C alg key (c + 2) ps

/-- integrity of ciphertexts: under nonce `c0 + i` nothing opens except the i-th honest block -/
def NoForgery (C : Crypto) (alg : Alg) (key : Bytes) (c0 : Nat) (blocks : List (Bytes × Bytes)) : Prop :=
  ∀ i x pt, C.openB alg key (nonceAt (c0 + i)) [] x = some pt → blocks[i]? = some (x, pt)

def AuthAt (a : Auth) (c : Nat) : Prop := a.nonce = Nat.repeat Nonce.incStep c Nonce.incInit

theorem openB_at (C : Crypto) (a : Auth) (c : Nat) (h : AuthAt a c) (x : Bytes) :
    a.openB C x = (C.openB a.alg a.key (nonceAt c) [] x, { a with nonce := nonceAt c }) := by
  simp only [Auth.openB, nonceAt, Nat.repeat]; rw [h]

theorem sealB_at (C : Crypto) (a : Auth) (c : Nat) (h : AuthAt a c) (x : Bytes) :
    a.sealB C x = (C.sealB a.alg a.key (nonceAt c) [] x, { a with nonce := nonceAt c }) := by
  simp only [Auth.sealB, nonceAt, Nat.repeat]; rw [h]

theorem noForgery_shift (C : Crypto) (alg : Alg) (key : Bytes) (c : Nat) (b1 b2 : Bytes × Bytes) (rest : List (Bytes × Bytes))
    (h : NoForgery C alg key c (b1 :: b2 :: rest)) : NoForgery C alg key (c + 2) rest := by
  intro i x pt ho
  have := h (i + 2) x pt (by rw [show c + (i + 2) = c + 2 + i by omega]; exact ho)
  simpa using this

/-- what the honest encoder emits for the first `k` chunks -/
theorem encChunks_at (C : Crypto) (ps : List Bytes) : ∀ (a : Auth) (c : Nat), AuthAt a c →
    (encChunks C a ps).1 = ((honestBlocks C a.alg a.key c ps).map Prod.fst).flatten := by
  induction ps with
  | nil => intro a c _; rfl
  | cons p ps ih =>
    intro a c h
    have h1 : AuthAt { a with nonce := nonceAt c } (c + 1) := rfl
    have h2 : AuthAt { a with nonce := nonceAt (c + 1) } (c + 2) := rfl
    simp only [encChunks, encChunk, honestBlocks, List.map_cons, List.flatten_cons]
    rw [sealB_at C a c h]
    simp only
    rw [sealB_at C _ (c + 1) h1]
    simp only
    rw [ih _ (c + 2) h2]
    simp [List.append_assoc]

/-- **C05, stream**: for *any* received byte string `s`, the chunk decoder releases exactly the
payloads of the first `k` honest chunks for some `k` — a prefix of what the sender wrote — and the
bytes it consumed for them are exactly the sender's bytes for those `k` chunks, which `s` starts
with: everything released lies before the first tampered byte. -/
theorem c05_chunks_prefix (C : Crypto) (hC : C.Lawful) (ps : List Bytes) (hps : ∀ p ∈ ps, p.length < 65536) :
    ∀ (a : Auth) (c : Nat), AuthAt a c → NoForgery C a.alg a.key c (honestBlocks C a.alg a.key c ps) →
    ∀ s : Bytes, ∃ k, k ≤ ps.length ∧
      (run (chunkUnit C) ⟨a, .length⟩ s).out = (ps.take k).flatten ∧
      (encChunks C a (ps.take k)).1 <+: s := by
  have G := chunkUnit_good C hC
  induction ps with
  | nil =>
    intro a c ha hnf s
    refine ⟨0, Nat.le_refl _, ?_, by simp [encChunks]⟩
    by_cases hl : s.length < 18
    · rw [run_need _ _ _ (by simp [chunkUnit, hl])]; rfl
    · cases ho : C.openB a.alg a.key (nonceAt c) [] (s.take 18) with
      | some l => have := hnf 0 _ _ ho; simp [honestBlocks] at this
      | none =>
        rw [run_fail _ _ _ ⟨{ a with nonce := nonceAt c }, .length⟩ 18
          (by simp only [chunkUnit, hl, if_false]; rw [openB_at C a c ha, ho])]
        rfl
  | cons p ps ih =>
    intro a c ha hnf s
    have hp := hps p List.mem_cons_self
    by_cases hl : s.length < 18
    · exact ⟨0, Nat.zero_le _, by rw [run_need _ _ _ (by simp [chunkUnit, hl])]; rfl, by simp [encChunks]⟩
    · cases ho : C.openB a.alg a.key (nonceAt c) [] (s.take 18) with
      | none =>
        refine ⟨0, Nat.zero_le _, ?_, by simp [encChunks]⟩
        rw [run_fail _ _ _ ⟨{ a with nonce := nonceAt c }, .length⟩ 18
          (by simp only [chunkUnit, hl, if_false]; rw [openB_at C a c ha, ho])]
        rfl
      | some l =>
        -- the length block is the honest one
        have h0 := hnf 0 _ _ ho
        simp only [honestBlocks, List.getElem?_cons_zero, Option.some.injEq, Prod.mk.injEq] at h0
        obtain ⟨hx, hlv⟩ := h0
        have ha1 : AuthAt { a with nonce := nonceAt c } (c + 1) := rfl
        have u1 : chunkUnit C ⟨a, .length⟩ s = .take ⟨{ a with nonce := nonceAt c }, .payload (p.length + 16)⟩ 18 [] := by
          simp only [chunkUnit, hl, if_false]; rw [openB_at C a c ha, ho]
          simp only [← hlv, rdBE_be16 _ hp]
        rw [run_take _ G _ _ _ _ _ u1]
        simp only [List.nil_append]
        -- payload block
        by_cases hl2 : (s.drop 18).length < p.length + 16
        · refine ⟨0, Nat.zero_le _, ?_, by simp [encChunks]⟩
          rw [run_need _ _ _ (by simp only [chunkUnit, hl2, if_true])]; rfl
        · cases ho2 : C.openB a.alg a.key (nonceAt (c + 1)) [] ((s.drop 18).take (p.length + 16)) with
          | none =>
            refine ⟨0, Nat.zero_le _, ?_, by simp [encChunks]⟩
            rw [run_fail _ _ _ ⟨{ a with nonce := nonceAt (c + 1) }, .payload (p.length + 16)⟩ (p.length + 16)
              (by simp only [chunkUnit, hl2, if_false]; rw [openB_at C _ (c + 1) ha1]; simp only [ho2])]
            rfl
          | some q =>
            have h1 := hnf 1 _ _ ho2
            simp only [honestBlocks, List.getElem?_cons_succ, List.getElem?_cons_zero, Option.some.injEq, Prod.mk.injEq] at h1
            obtain ⟨hx2, hq⟩ := h1
            have ha2 : AuthAt { a with nonce := nonceAt (c + 1) } (c + 2) := rfl
            have u2 : chunkUnit C ⟨{ a with nonce := nonceAt c }, .payload (p.length + 16)⟩ (s.drop 18) =
                .take ⟨{ a with nonce := nonceAt (c + 1) }, .length⟩ (p.length + 16) p := by
              simp only [chunkUnit, hl2, if_false]; rw [openB_at C _ (c + 1) ha1]
              simp only [ho2, ← hq]
            obtain ⟨k, hk, hout, hpre⟩ := ih (fun q hq => hps q (List.mem_cons_of_mem _ hq)) { a with nonce := nonceAt (c + 1) } (c + 2) ha2
              (noForgery_shift C a.alg a.key c _ _ _ hnf) ((s.drop 18).drop (p.length + 16))
            refine ⟨k + 1, by simp only [List.length_cons]; omega, ?_, ?_⟩
            · rw [run_take _ G _ _ _ _ _ u2]
              simp only [List.take_succ_cons, List.flatten_cons]
              rw [hout]
            · have hs1 : s = s.take 18 ++ ((s.drop 18).take (p.length + 16) ++ (s.drop 18).drop (p.length + 16)) := by
                rw [List.take_append_drop, List.take_append_drop]
              have henc : (encChunks C a (p :: ps.take k)).1 =
                  s.take 18 ++ ((s.drop 18).take (p.length + 16) ++ (encChunks C { a with nonce := nonceAt (c + 1) } (ps.take k)).1) := by
                simp only [encChunks, encChunk]
                rw [sealB_at C a c ha]; simp only
                rw [sealB_at C _ (c + 1) ha1]; simp only
                rw [hx, hx2, List.append_assoc]
              rw [List.take_succ_cons, henc]
              obtain ⟨t, ht⟩ := hpre
              refine ⟨t, ?_⟩
              conv => rhs; rw [hs1]
              rw [← ht]; simp [List.append_assoc]

/-- non-vacuity of the hypotheses: for the (lawful) toy cipher and the empty chunk list,
`NoForgery` asks that nothing opens — false for the toy cipher, which is exactly why it offers no
security; the hypothesis is meaningful, not vacuous: it holds for an ideal AEAD and fails for a
forgeable one.  The statement itself is exercised on the real ciphers by the mutation runs. -/
example : AuthAt (Auth.new .aes128gcm (zeros 16)) 0 := rfl

end Octo.Ss

namespace Octo.Ss
open Octo.Fr

/-- **C05, any segmentation**: the same prefix statement when the attacker's bytes arrive in any
pieces (what `FramedRead` / `WebSocketFramed` do across reads) -/
theorem c05_chunks_prefix_segmented (C : Crypto) (hC : C.Lawful) (ps : List Bytes) (hps : ∀ p ∈ ps, p.length < 65536)
    (a : Auth) (c : Nat) (ha : AuthAt a c) (hnf : NoForgery C a.alg a.key c (honestBlocks C a.alg a.key c ps))
    (pieces : List Bytes) :
    ∃ k, k ≤ ps.length ∧
      (pieces.foldl (feed (chunkUnit C)) (run (chunkUnit C) ⟨a, .length⟩ [])).out = (ps.take k).flatten := by
  have := feed_pieces (chunkUnit C) (chunkUnit_good C hC) pieces ⟨a, .length⟩ []
  rw [this, List.nil_append]
  obtain ⟨k, hk, ho, _⟩ := c05_chunks_prefix C hC ps hps a c ha hnf pieces.flatten
  exact ⟨k, hk, ho⟩

/-- **C05, reflection (Shadowsocks 2022)**: a client that is handed a *request* — its own,
reflected, or anybody's — releases nothing.  The response header it tries to open is 27 + N bytes
long (type, time, request salt, length, tag) while every block ever sealed with nonce 0 under a
request's session key is a 27-byte request header; under integrity of ciphertexts such a block
does not open. -/
theorem c05_ss2022_client_rejects_requests (C : Crypto) (ctx : Ctx) (env : DecEnv) (d : Dec)
    (hm : d.sess.mode = .client) (hd : d.chunk = none) (b : Bytes)
    (hnf : ∀ x pt, C.openB ctx.kind.alg (newAuth C ctx.kind ctx.key (b.take ctx.kind.n)).key (nonceAt 0) [] x = some pt →
      x.length = 27) :
    ∀ d' n o, init2022 C ctx env d b ≠ .take d' n o := by
  intro d' n o h
  have hn : 0 < ctx.kind.n := kind_n_pos ctx.kind
  have hat : AuthAt (newAuth C ctx.kind ctx.key (b.take ctx.kind.n)) 0 := by unfold AuthAt newAuth; split <;> rfl
  have halg : (newAuth C ctx.kind ctx.key (b.take ctx.kind.n)).alg = ctx.kind.alg := by unfold newAuth; split <;> rfl
  have hreq : requireEih ctx d.sess = false := by simp [requireEih, hm]
  unfold init2022 at h
  have hns : ¬ d.sess.mode = Mode.server := by rw [hm]; decide
  simp only [hns, hreq, if_false, Bool.false_eq_true] at h
  by_cases h1 : b.length < ctx.kind.n
  · rw [if_pos h1] at h; cases h
  rw [if_neg h1] at h
  by_cases h2 : b.length < ctx.kind.n + (0 + 1 + 8 + ctx.kind.n + 2 + 16)
  · rw [if_pos h2] at h; cases h
  rw [if_neg h2] at h
  by_cases h3 : env.saltSeen (b.take ctx.kind.n) = true
  · rw [if_pos h3] at h; cases h
  rw [if_neg h3] at h
  simp only [init2022Key, hreq, Bool.false_eq_true, if_false, List.drop_zero] at h
  rw [openB_at C _ 0 hat, halg] at h
  split at h
  · cases h
  · rename_i hh a' heq
    have hx := congrArg Prod.fst heq
    simp only at hx
    have := hnf _ _ hx
    simp only [List.length_take, List.length_drop] at this
    omega

end Octo.Ss
