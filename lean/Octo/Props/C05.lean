import Octo.Proofs.SsChunk
import Octo.Proofs.SsStream
import Octo.Proofs.Toy
import Octo.Proofs.Slices
import Octo.Proofs.ToyStrong
/-!
# C05 — tampered or reflected ciphertext is never delivered as plaintext

Symbolic statement.  `NoForgery` is the cryptographic assumption (integrity of ciphertexts,
idealised to exactness), stated as a *hypothesis about the key, the honest sender's output and the
received bytes*: no contiguous block of the received byte string `s` opens under the session key and
the i-th nonce unless it is the block the honest sender sealed with that nonce ("the received bytes
contain no forgery").  What is **proved** is what the codec is responsible for: the counter advances
once per block, a length is never used before it has been authenticated, and nothing is released
after the first block that fails to open — for *every* such byte stream, in every segmentation.

The hypothesis is relative to `s` on purpose.  The form "for **all** `x`, if `x` opens under nonce i
then `x` is the honest block i" is unsatisfiable for a lawful cipher (`noForgery_global_inconsistent`
below: `sealB` is a function, so the seal of any *other* plaintext under the same key and nonce
exists and opens); a theorem assuming it would be vacuous.  Relative to the received bytes the
hypothesis says what integrity of ciphertexts means operationally — the attacker, who does not know
the key, did not put such a block on the wire — it is decidable for concrete data
(`noForgeryCheck`), and it is discharged below for the toy cipher on tampered streams.
-/
namespace Octo.Ss
open Octo.Fr

/-- the nonce of the i-th AEAD operation of a session -/
def nonceAt (i : Nat) : Bytes := Nat.repeat Nonce.incStep (i + 1) Nonce.incInit

/-- the blocks an honest sender seals for the chunk list, in order, with their plaintexts;
`c` = number of AEAD operations already done -/
def honestBlocks (C : Crypto) (alg : Alg) (key : Bytes) : Nat → List Bytes → List (Bytes × Bytes)
  | _, [] => []
  | c, p :: ps =>
    (C.sealB alg key (nonceAt c) [] (be16 p.length), be16 p.length) ::
    (C.sealB alg key (nonceAt (c + 1)) [] p, p) :: honestBlocks C alg key (c + 2) ps

/-- integrity of ciphertexts, for the strings in `A` (what the attacker can present): under nonce
`c0 + i` no string of `A` opens except the i-th honest block.  Only the nonces the receiver can
reach are constrained (`i ≤ blocks.length`: one per honest block and the one after the last). -/
def NoForgeryOn (A : Bytes → Prop) (C : Crypto) (alg : Alg) (key : Bytes) (c0 : Nat) (blocks : List (Bytes × Bytes)) : Prop :=
  ∀ i x pt, i ≤ blocks.length → A x → C.openB alg key (nonceAt (c0 + i)) [] x = some pt → blocks[i]? = some (x, pt)

/-- integrity of ciphertexts relative to the received byte string `s`: no contiguous block of `s`
opens under nonce `c0 + i` except the i-th honest block -/
def NoForgery (C : Crypto) (alg : Alg) (key : Bytes) (c0 : Nat) (blocks : List (Bytes × Bytes)) (s : Bytes) : Prop :=
  NoForgeryOn (· <:+: s) C alg key c0 blocks

/-- why the hypothesis is relative to the received bytes: asked of *all* byte strings it contradicts
`Lawful` — the seals of two different plaintexts under the first nonce both open -/
theorem noForgery_global_inconsistent (C : Crypto) (hC : C.Lawful) (alg : Alg) (key : Bytes) (c0 : Nat)
    (blocks : List (Bytes × Bytes)) : ¬ NoForgeryOn (fun _ => True) C alg key c0 blocks := by
  intro h
  have h1 := h 0 _ _ (Nat.zero_le _) trivial (hC.open_seal alg key (nonceAt (c0 + 0)) [] [])
  have h2 := h 0 _ _ (Nat.zero_le _) trivial (hC.open_seal alg key (nonceAt (c0 + 0)) [] [0])
  rw [h1] at h2
  simp at h2

/-- the hypothesis as a computation, for concrete data -/
def noForgeryCheck (C : Crypto) (alg : Alg) (key : Bytes) (c0 : Nat) (blocks : List (Bytes × Bytes)) (s : Bytes) : Bool :=
  (List.range (blocks.length + 1)).all fun i => (slices s).all fun x =>
    match C.openB alg key (nonceAt (c0 + i)) [] x with
    | none => true
    | some pt => blocks[i]? == some (x, pt)

theorem noForgery_of_check (C : Crypto) (alg : Alg) (key : Bytes) (c0 : Nat) (blocks : List (Bytes × Bytes)) (s : Bytes)
    (h : noForgeryCheck C alg key c0 blocks s = true) : NoForgery C alg key c0 blocks s := by
  intro i x pt hi hx ho
  simp only [noForgeryCheck, List.all_eq_true, List.mem_range] at h
  have := h i (by omega) x (mem_slices_of_infix hx)
  rw [ho] at this
  simpa using this

theorem NoForgery.mono {C : Crypto} {alg : Alg} {key : Bytes} {c0 : Nat} {blocks : List (Bytes × Bytes)} {s t : Bytes}
    (h : NoForgery C alg key c0 blocks s) (ht : t <:+: s) : NoForgery C alg key c0 blocks t :=
  fun i x pt hi hx ho => h i x pt hi (hx.trans ht) ho

def AuthAt (a : Auth) (c : Nat) : Prop := a.nonce = Nat.repeat Nonce.incStep c Nonce.incInit

theorem openB_at (C : Crypto) (a : Auth) (c : Nat) (h : AuthAt a c) (x : Bytes) :
    a.openB C x = (C.openB a.alg a.key (nonceAt c) [] x, { a with nonce := nonceAt c }) := by
  simp only [Auth.openB, nonceAt, Nat.repeat]; rw [h]

theorem sealB_at (C : Crypto) (a : Auth) (c : Nat) (h : AuthAt a c) (x : Bytes) :
    a.sealB C x = (C.sealB a.alg a.key (nonceAt c) [] x, { a with nonce := nonceAt c }) := by
  simp only [Auth.sealB, nonceAt, Nat.repeat]; rw [h]

theorem noForgery_shift (C : Crypto) (alg : Alg) (key : Bytes) (c : Nat) (b1 b2 : Bytes × Bytes) (rest : List (Bytes × Bytes))
    (s t : Bytes) (ht : t <:+: s)
    (h : NoForgery C alg key c (b1 :: b2 :: rest) s) : NoForgery C alg key (c + 2) rest t := by
  intro i x pt hi hx ho
  have := h (i + 2) x pt (by simp only [List.length_cons]; omega) (hx.trans ht)
    (by rw [show c + (i + 2) = c + 2 + i by omega]; exact ho)
  simpa using this

/-- what the honest encoder emits for the first `k` chunks -/
theorem encChunks_at (C : Crypto) (ps : List Bytes) : ∀ (a : Auth) (c : Nat), AuthAt a c →
    (encChunks C a ps).1 = ((honestBlocks C a.alg a.key c ps).map Prod.fst).flatten := by
  induction ps with
  | nil => intro a c _; rfl
  | cons p ps ih =>
    intro a c h
    have h1 : AuthAt { a with nonce := nonceAt c } (c + 1) := rfl
    have h2 : AuthAt { a with nonce := nonceAt (c + 1) } (c + 2) := rfl
    simp only [encChunks, encChunk, honestBlocks, List.map_cons, List.flatten_cons]
    rw [sealB_at C a c h]
    simp only
    rw [sealB_at C _ (c + 1) h1]
    simp only
    rw [ih _ (c + 2) h2]
    simp [List.append_assoc]

/-- **C05, stream**: for *any* received byte string `s`, the chunk decoder releases exactly the
payloads of the first `k` honest chunks for some `k` — a prefix of what the sender wrote — and the
bytes it consumed for them are exactly the sender's bytes for those `k` chunks, which `s` starts
with: everything released lies before the first tampered byte. -/
theorem c05_chunks_prefix (C : Crypto) (hC : C.Lawful) (ps : List Bytes) (hps : ∀ p ∈ ps, p.length < 65536) :
    ∀ (a : Auth) (c : Nat) (s : Bytes), AuthAt a c → NoForgery C a.alg a.key c (honestBlocks C a.alg a.key c ps) s →
    ∃ k, k ≤ ps.length ∧
      (run (chunkUnit C) ⟨a, .length⟩ s).out = (ps.take k).flatten ∧
      (encChunks C a (ps.take k)).1 <+: s := by
  have G := chunkUnit_good C hC
  induction ps with
  | nil =>
    intro a c s ha hnf
    refine ⟨0, Nat.le_refl _, ?_, by simp [encChunks]⟩
    by_cases hl : s.length < 18
    · rw [run_need _ _ _ (by simp [chunkUnit, hl])]; rfl
    · cases ho : C.openB a.alg a.key (nonceAt c) [] (s.take 18) with
      | some l => have := hnf 0 _ _ (Nat.zero_le _) (List.take_prefix 18 s).isInfix ho; simp [honestBlocks] at this
      | none =>
        rw [run_fail _ _ _ ⟨{ a with nonce := nonceAt c }, .length⟩ 18
          (by simp only [chunkUnit, hl, if_false]; rw [openB_at C a c ha, ho])]
        rfl
  | cons p ps ih =>
    intro a c s ha hnf
    have hp := hps p List.mem_cons_self
    by_cases hl : s.length < 18
    · exact ⟨0, Nat.zero_le _, by rw [run_need _ _ _ (by simp [chunkUnit, hl])]; rfl, by simp [encChunks]⟩
    · cases ho : C.openB a.alg a.key (nonceAt c) [] (s.take 18) with
      | none =>
        refine ⟨0, Nat.zero_le _, ?_, by simp [encChunks]⟩
        rw [run_fail _ _ _ ⟨{ a with nonce := nonceAt c }, .length⟩ 18
          (by simp only [chunkUnit, hl, if_false]; rw [openB_at C a c ha, ho])]
        rfl
      | some l =>
        -- the length block is the honest one
        have h0 := hnf 0 _ _ (Nat.zero_le _) (List.take_prefix 18 s).isInfix ho
        simp only [honestBlocks, List.getElem?_cons_zero, Option.some.injEq, Prod.mk.injEq] at h0
        obtain ⟨hx, hlv⟩ := h0
        have ha1 : AuthAt { a with nonce := nonceAt c } (c + 1) := rfl
        have u1 : chunkUnit C ⟨a, .length⟩ s = .take ⟨{ a with nonce := nonceAt c }, .payload (p.length + 16)⟩ 18 [] := by
          simp only [chunkUnit, hl, if_false]; rw [openB_at C a c ha, ho]
          simp only [← hlv, rdBE_be16 _ hp]
        rw [run_take _ G _ _ _ _ _ u1]
        simp only [List.nil_append]
        -- payload block
        by_cases hl2 : (s.drop 18).length < p.length + 16
        · refine ⟨0, Nat.zero_le _, ?_, by simp [encChunks]⟩
          rw [run_need _ _ _ (by simp only [chunkUnit, hl2, if_true])]; rfl
        · cases ho2 : C.openB a.alg a.key (nonceAt (c + 1)) [] ((s.drop 18).take (p.length + 16)) with
          | none =>
            refine ⟨0, Nat.zero_le _, ?_, by simp [encChunks]⟩
            rw [run_fail _ _ _ ⟨{ a with nonce := nonceAt (c + 1) }, .payload (p.length + 16)⟩ (p.length + 16)
              (by simp only [chunkUnit, hl2, if_false]; rw [openB_at C _ (c + 1) ha1]; simp only [ho2])]
            rfl
          | some q =>
            have h1 := hnf 1 _ _ (by simp [honestBlocks]) (infix_take_drop s 18 _) ho2
            simp only [honestBlocks, List.getElem?_cons_succ, List.getElem?_cons_zero, Option.some.injEq, Prod.mk.injEq] at h1
            obtain ⟨hx2, hq⟩ := h1
            have ha2 : AuthAt { a with nonce := nonceAt (c + 1) } (c + 2) := rfl
            have u2 : chunkUnit C ⟨{ a with nonce := nonceAt c }, .payload (p.length + 16)⟩ (s.drop 18) =
                .take ⟨{ a with nonce := nonceAt (c + 1) }, .length⟩ (p.length + 16) p := by
              simp only [chunkUnit, hl2, if_false]; rw [openB_at C _ (c + 1) ha1]
              simp only [ho2, ← hq]
            obtain ⟨k, hk, hout, hpre⟩ := ih (fun q hq => hps q (List.mem_cons_of_mem _ hq)) { a with nonce := nonceAt (c + 1) } (c + 2)
              ((s.drop 18).drop (p.length + 16)) ha2
              (noForgery_shift C a.alg a.key c _ _ _ s _
                ((List.drop_suffix _ _).isInfix.trans (List.drop_suffix 18 s).isInfix) hnf)
            refine ⟨k + 1, by simp only [List.length_cons]; omega, ?_, ?_⟩
            · rw [run_take _ G _ _ _ _ _ u2]
              simp only [List.take_succ_cons, List.flatten_cons]
              rw [hout]
            · have hs1 : s = s.take 18 ++ ((s.drop 18).take (p.length + 16) ++ (s.drop 18).drop (p.length + 16)) := by
                rw [List.take_append_drop, List.take_append_drop]
              have henc : (encChunks C a (p :: ps.take k)).1 =
                  s.take 18 ++ ((s.drop 18).take (p.length + 16) ++ (encChunks C { a with nonce := nonceAt (c + 1) } (ps.take k)).1) := by
                simp only [encChunks, encChunk]
                rw [sealB_at C a c ha]; simp only
                rw [sealB_at C _ (c + 1) ha1]; simp only
                rw [hx, hx2, List.append_assoc]
              rw [List.take_succ_cons, henc]
              obtain ⟨t, ht⟩ := hpre
              refine ⟨t, ?_⟩
              conv => rhs; rw [hs1]
              rw [← ht]; simp [List.append_assoc]

/-! ### non-vacuity: the hypotheses are jointly satisfiable with `Lawful`, on tampered streams

`Crypto.toy` (one-byte checksum tag) on a one-chunk stream, and `Crypto.toyS` (128-bit tag, see
`Octo/Proofs/ToyStrong.lean`) on a two-chunk stream; the relative `NoForgery` is evaluated
(`noForgeryCheck`, every contiguous block of the received bytes against every reachable nonce). -/
namespace C05Ex

def exAuth : Auth := Auth.new .aes128gcm [1, 2, 3, 4]

example : AuthAt exAuth 0 := rfl

/-- flip the lowest bit of byte `i` -/
def flipBit (i : Nat) (s : Bytes) : Bytes := s.set i (s.getD i 0 ^^^ 1)

/-- toy cipher, the honest one-chunk stream (36 bytes) -/
def exWire1 : Bytes := (encChunks Crypto.toy exAuth [[10, 11]]).1

-- the honest stream itself contains no forgery, and is released whole (k = 1)
theorem exWire1_noForgery :
    NoForgery Crypto.toy exAuth.alg exAuth.key 0 (honestBlocks Crypto.toy exAuth.alg exAuth.key 0 [[10, 11]]) exWire1 :=
  noForgery_of_check _ _ _ _ _ _ (by decide +kernel)
example : (run (chunkUnit Crypto.toy) ⟨exAuth, .length⟩ exWire1).out = [10, 11] := by decide +kernel

-- one bit of the payload block flipped: the hypothesis holds, the theorem applies, nothing is released (k = 0)
theorem exWire1_flipped_noForgery :
    NoForgery Crypto.toy exAuth.alg exAuth.key 0 (honestBlocks Crypto.toy exAuth.alg exAuth.key 0 [[10, 11]]) (flipBit 20 exWire1) :=
  noForgery_of_check _ _ _ _ _ _ (by decide +kernel)
example : ∃ k, k ≤ 1 ∧ (run (chunkUnit Crypto.toy) ⟨exAuth, .length⟩ (flipBit 20 exWire1)).out = ([[10, 11]].take k).flatten ∧
    (encChunks Crypto.toy exAuth ([[10, 11]].take k)).1 <+: flipBit 20 exWire1 :=
  c05_chunks_prefix Crypto.toy Crypto.toy_lawful [[10, 11]] (by decide) exAuth 0 _ rfl exWire1_flipped_noForgery
example : (run (chunkUnit Crypto.toy) ⟨exAuth, .length⟩ (flipBit 20 exWire1)).out = [] ∧
    (run (chunkUnit Crypto.toy) ⟨exAuth, .length⟩ (flipBit 20 exWire1)).failed = true := by decide +kernel

-- the toy cipher *is* forgeable, and the relative hypothesis notices: flipping bit 0 of byte 6 produces
-- a block that opens although the sender never sealed it
example : noForgeryCheck Crypto.toy exAuth.alg exAuth.key 0 (honestBlocks Crypto.toy exAuth.alg exAuth.key 0 [[10, 11]])
    (flipBit 6 exWire1) = false := by decide +kernel

/-- `toyS`, two chunks; the attacker delivers the first chunk intact, then the length block of the
second chunk with one bit flipped, and cuts the rest off (54 of 71 bytes) -/
def exChunks : List Bytes := [[10, 11], [20]]
def exWire2 : Bytes := (encChunks Crypto.toyS exAuth exChunks).1
def exTampered2 : Bytes := (flipBit 37 exWire2).take 54

theorem exTampered2_noForgery :
    NoForgery Crypto.toyS exAuth.alg exAuth.key 0 (honestBlocks Crypto.toyS exAuth.alg exAuth.key 0 exChunks) exTampered2 :=
  noForgery_of_check _ _ _ _ _ _ (by decide +kernel)

-- the theorem instantiated, every hypothesis discharged
example : ∃ k, k ≤ 2 ∧ (run (chunkUnit Crypto.toyS) ⟨exAuth, .length⟩ exTampered2).out = (exChunks.take k).flatten ∧
    (encChunks Crypto.toyS exAuth (exChunks.take k)).1 <+: exTampered2 :=
  c05_chunks_prefix Crypto.toyS Crypto.toyS_lawful exChunks (by decide) exAuth 0 _ rfl exTampered2_noForgery
-- and what it says here: exactly the first chunk is released, then the stream fails
example : (run (chunkUnit Crypto.toyS) ⟨exAuth, .length⟩ exTampered2).out = [10, 11] ∧
    (run (chunkUnit Crypto.toyS) ⟨exAuth, .length⟩ exTampered2).failed = true := by decide +kernel

end C05Ex

end Octo.Ss

namespace Octo.Ss
open Octo.Fr

/-- **C05, any segmentation**: the same prefix statement when the attacker's bytes arrive in any
pieces (what `FramedRead` / `WebSocketFramed` do across reads) -/
theorem c05_chunks_prefix_segmented (C : Crypto) (hC : C.Lawful) (ps : List Bytes) (hps : ∀ p ∈ ps, p.length < 65536)
    (a : Auth) (c : Nat) (ha : AuthAt a c) (pieces : List Bytes)
    (hnf : NoForgery C a.alg a.key c (honestBlocks C a.alg a.key c ps) pieces.flatten) :
    ∃ k, k ≤ ps.length ∧
      (pieces.foldl (feed (chunkUnit C)) (run (chunkUnit C) ⟨a, .length⟩ [])).out = (ps.take k).flatten := by
  have := feed_pieces (chunkUnit C) (chunkUnit_good C hC) pieces ⟨a, .length⟩ []
  rw [this, List.nil_append]
  obtain ⟨k, hk, ho, _⟩ := c05_chunks_prefix C hC ps hps a c pieces.flatten ha hnf
  exact ⟨k, hk, ho⟩

/-- **C05, reflection (Shadowsocks 2022)**: a client that is handed a *request* — its own,
reflected, or anybody's — releases nothing.  The response header it tries to open is 27 + N bytes
long (type, time, request salt, length, tag) while every block ever sealed with nonce 0 under a
request's session key is a 27-byte request header; under integrity of ciphertexts (`hnf`: no
contiguous block of the received bytes `b` opens under nonce 0 of the session key of `b`'s salt
unless it is such a 27-byte header) such a block does not open. -/
theorem c05_ss2022_client_rejects_requests (C : Crypto) (ctx : Ctx) (env : DecEnv) (d : Dec)
    (hm : d.sess.mode = .client) (hd : d.chunk = none) (b : Bytes)
    (hnf : ∀ x pt, x <:+: b → C.openB ctx.kind.alg (newAuth C ctx.kind ctx.key (b.take ctx.kind.n)).key (nonceAt 0) [] x = some pt →
      x.length = 27) :
    ∀ d' n o, init2022 C ctx env d b ≠ .take d' n o := by
  intro d' n o h
  have hn : 0 < ctx.kind.n := kind_n_pos ctx.kind
  have hat : AuthAt (newAuth C ctx.kind ctx.key (b.take ctx.kind.n)) 0 := by unfold AuthAt newAuth; split <;> rfl
  have halg : (newAuth C ctx.kind ctx.key (b.take ctx.kind.n)).alg = ctx.kind.alg := by unfold newAuth; split <;> rfl
  have hreq : requireEih ctx d.sess = false := by simp [requireEih, hm]
  unfold init2022 at h
  have hns : ¬ d.sess.mode = Mode.server := by rw [hm]; decide
  simp only [hns, hreq, if_false, Bool.false_eq_true] at h
  by_cases h1 : b.length < ctx.kind.n
  · rw [if_pos h1] at h; cases h
  rw [if_neg h1] at h
  by_cases h2 : b.length < ctx.kind.n + (0 + 1 + 8 + ctx.kind.n + 2 + 16)
  · rw [if_pos h2] at h; cases h
  rw [if_neg h2] at h
  by_cases h3 : env.saltSeen (b.take ctx.kind.n) = true
  · rw [if_pos h3] at h; cases h
  rw [if_neg h3] at h
  simp only [init2022Key, hreq, Bool.false_eq_true, if_false, List.drop_zero] at h
  rw [openB_at C _ 0 hat, halg] at h
  split at h
  · cases h
  · rename_i hh a' heq
    have hx := congrArg Prod.fst heq
    simp only at hx
    have := hnf _ _ (infix_take_drop b _ _) hx
    simp only [List.length_take, List.length_drop] at this
    omega

/-! non-vacuity: a client's own request (`toyS`, 62 bytes: salt ‖ fixed header ‖ variable header)
satisfies `hnf` — the only block of it that opens under nonce 0 is its 27-byte fixed header — and,
reflected to a client, it is refused -/
namespace C05ExR

def exCtx : Ctx := { kind := .b3aes128, key := [9, 8, 7, 6, 5, 4, 3, 2, 1, 0, 1, 2, 3, 4, 5, 6] }
def exClient : Sess := { mode := .client, salt := [1, 2, 3, 4, 5, 6, 7, 8, 9, 10, 11, 12, 13, 14, 15, 16] }
def exRequest : Bytes := (encode Crypto.toyS exCtx exClient {} [7] { now := 1000 }).1

example (env : DecEnv) (d : Dec) (hm : d.sess.mode = .client) (hd : d.chunk = none) :
    ∀ d' n o, init2022 Crypto.toyS exCtx env d exRequest ≠ .take d' n o := by
  apply c05_ss2022_client_rejects_requests Crypto.toyS exCtx env d hm hd exRequest
  have hc : ((slices exRequest).all fun x =>
      match Crypto.toyS.openB exCtx.kind.alg (newAuth Crypto.toyS exCtx.kind exCtx.key (exRequest.take exCtx.kind.n)).key
          (nonceAt 0) [] x with
      | none => true
      | some _ => x.length == 27) = true := by decide +kernel
  intro x pt hx ho
  have := List.all_eq_true.mp hc x (mem_slices_of_infix hx)
  rw [ho] at this
  simpa using this

end C05ExR

end Octo.Ss
