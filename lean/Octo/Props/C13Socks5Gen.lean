import Octo.Proofs.Socks5Gen
import Octo.Props.C13Socks5
import Octo.Props.C14Gen
import Octo.Props.C07
import Octo.Props.C02
/-!
# C13 / C07 / C02 for the code itself: the SOCKS5 message layer translated statement by statement on every run

`translate_socks5.py` → `Octo/Gen/Socks5Gen.lean`, from `protocol/socks5.rs` (the four field-less enums and their
`new` / `TryFrom<u8>`), `protocol/socks5/message.rs` (message structs, constructors, `encode`) and
`protocol/socks5/codec.rs` (the four message decoders and `Socks5UdpCodec`); the address functions they call are the ones
generated from `address.rs` (`Octo.AddrGen`).  Property theorems only; the equivalences are in `Octo/Proofs/Socks5Gen.lean`.

* (a) `c13_generated_*_decode_eq`, `c02_generated_udp_decode_eq`: every generated decoder = the model's decode function on every
  buffer (length below `2^64`), both overflow profiles: item + rest / `Ok(None)` / `Err`, never a panic.
* (b) `c13_generated_*_encode`, `c02_generated_udp_encode`: the encoders append exactly the model's bytes.
* (c) `c07_generated_*_never_panics`; `c13_generated_command_request_iff`; `socks5HandshakeGen` (the handshake rebuilt from the
  generated decoders and encoders) `= Hs.socks5Handshake`, hence `c13_generated_socks5_tunnel_is_admitted`,
  `c13_generated_socks5_decided_is_final` (and `…_tunnel_inv`, `…_wait_is_prefix_closed`, `…_undecided_before_end`); `c02_generated_socks5_udp_roundtrip`.
-/
namespace Octo.Socks5Gen
open Octo Octo.PWGen Octo.AddrGen

/-! ### (a) the decoders -/

/-- **`Socks5InitialRequestDecoder::decode`, as translated, is the model's `decodeInitialRequest`**: for every buffer content
(of a length a Rust buffer can have) and both overflow profiles — the same outcome (methods + unread rest / `Ok(None)` / `Err`),
and no panic on either side -/
theorem c13_generated_initial_request_decode_eq (ov : Bool) (b : Bytes) (h : b.length < 2 ^ 64) :
    embedInitialRequest (Socks5InitialRequestDecoder.decode ov b) = Socks5.decodeInitialRequest b :=
  initial_request_decode_eq ov b h

/-- **`Socks5CommandRequestDecoder::decode`, as translated, is the model's `decodeCommandRequest`** (command byte, address,
unread rest / `Ok(None)` / `Err`; no panic) -/
theorem c13_generated_command_request_decode_eq (ov : Bool) (b : Bytes) (h : b.length < 2 ^ 64) :
    embedCommandRequest (Socks5CommandRequestDecoder.decode ov b) = Socks5.decodeCommandRequest b :=
  command_request_decode_eq ov b h

/-- **`Socks5InitialResponseDecoder::decode`, as translated, is the model's `decodeInitialResponse`** -/
theorem c13_generated_initial_response_decode_eq (ov : Bool) (b : Bytes) (h : b.length < 2 ^ 64) :
    embedInitialResponse (Socks5InitialResponseDecoder.decode ov b) = Socks5.decodeInitialResponse b :=
  initial_response_decode_eq ov b h

/-- **`Socks5CommandResponseDecoder::decode`, as translated, is the model's `decodeCommandResponse`** -/
theorem c13_generated_command_response_decode_eq (ov : Bool) (b : Bytes) (h : b.length < 2 ^ 64) :
    embedCommandResponse (Socks5CommandResponseDecoder.decode ov b) = Socks5.decodeCommandResponse b :=
  command_response_decode_eq ov b h

/-- **`Socks5UdpCodec::decode`, as translated, is the model's `udpDecode`**: same outcome, payload, address, and the same
(empty) buffer left behind -/
theorem c02_generated_udp_decode_eq (ov : Bool) (b : Bytes) (h : b.length < 2 ^ 64) :
    embedUdp (Socks5UdpCodec.decode ov b) = Socks5.udpDecode b :=
  udp_decode_eq ov b h

/-- `Ok(None)` means "call me again with more bytes": the generated decoders leave the buffer exactly as it was -/
theorem c13_generated_more_leaves_buffer (ov : Bool) (b b' : Bytes) (h : b.length < 2 ^ 64) :
    (Socks5InitialRequestDecoder.decode ov b = PWGen.Res.ok (b', RResult.ok none) → b' = b) ∧
    (Socks5CommandRequestDecoder.decode ov b = PWGen.Res.ok (b', RResult.ok none) → b' = b) ∧
    (Socks5InitialResponseDecoder.decode ov b = PWGen.Res.ok (b', RResult.ok none) → b' = b) ∧
    (Socks5CommandResponseDecoder.decode ov b = PWGen.Res.ok (b', RResult.ok none) → b' = b) :=
  ⟨initial_request_more_untouched ov b b' h, command_request_more_untouched ov b b' h,
   initial_response_more_untouched ov b b' h, command_response_more_untouched ov b b' h⟩

/-! ### (b) the encoders -/

/-- `Socks5InitialRequest::encode` appends the model's greeting (no panic, both profiles, any buffer content) -/
theorem c13_generated_initial_request_encode (ov : Bool) (r : Socks5InitialRequest) (dst : Bytes) :
    Socks5InitialRequest.encode ov r dst =
      PWGen.Res.ok (dst ++ Socks5.encodeInitialRequest (r.auth_methods.map Socks5AuthMethod.as_u8), ()) :=
  initial_request_encode_eq ov r dst

/-- `Socks5InitialResponse::encode` appends the model's method selection -/
theorem c13_generated_initial_response_encode (ov : Bool) (r : Socks5InitialResponse) (dst : Bytes) :
    Socks5InitialResponse.encode ov r dst = PWGen.Res.ok (dst ++ Socks5.encodeInitialResponse r.auth_method.as_u8, ()) :=
  initial_response_encode_eq ov r dst

/-- `Socks5CommandRequest::encode` appends the model's request -/
theorem c13_generated_command_request_encode (ov : Bool) (r : Socks5CommandRequest) (dst : Bytes) :
    Socks5CommandRequest.encode ov r dst =
      PWGen.Res.ok (dst ++ Socks5.encodeCommandRequest r.command_type.as_u8.toNat (toAddr r.dst_addr), ()) :=
  command_request_encode_eq ov r dst

/-- `Socks5CommandResponse::encode` appends the model's reply -/
theorem c13_generated_command_response_encode (ov : Bool) (r : Socks5CommandResponse) (dst : Bytes) :
    Socks5CommandResponse.encode ov r dst =
      PWGen.Res.ok (dst ++ Socks5.encodeCommandResponse r.command_status.as_u8.toNat (toAddr r.bnd_addr), ()) :=
  command_response_encode_eq ov r dst

/-- `Socks5UdpCodec::encode` appends the model's datagram header, address and payload -/
theorem c02_generated_udp_encode (ov : Bool) (payload : Bytes) (a : Address) (dst : Bytes) :
    Socks5UdpCodec.encode ov (payload, a) dst = PWGen.Res.ok (dst ++ Socks5.udpEncode payload (toAddr a), RResult.ok ()) :=
  udp_encode_eq ov payload a dst

/-- the conversions translated from `socks5.rs` accept exactly the bytes of the model, and the enum's discriminant is the byte -/
theorem c13_generated_conversions (ov : Bool) (v : UInt8) :
    (Socks5AuthMethod.new ov v ≠ PWGen.Res.ok RResult.err ↔ Socks5.authMethodOk v = true) ∧
    (∀ m, Socks5AuthMethod.new ov v = PWGen.Res.ok (RResult.ok m) → m.as_u8 = v) ∧
    (∀ c, Socks5CommandType.new ov v = PWGen.Res.ok (RResult.ok c) → c.as_u8 = v ∧ (v = 1 ∨ v = 2 ∨ v = 3)) ∧
    (∀ s, Socks5CommandStatus.try_from ov v = PWGen.Res.ok (RResult.ok s) → s.as_u8 = v ∧ (v = 0 ∨ v = 1)) := by
  refine ⟨?_, ?_, ?_, ?_⟩
  · rw [auth_new_eval]
    constructor
    · intro hne
      cases hv : authOfByte v with
      | ok m => exact (authOfByte_ok v m hv).2
      | err => rw [hv] at hne; exact absurd rfl hne
    · intro hok hn
      have : authOfByte v = .err := by simpa using hn
      rw [authOfByte_err v this] at hok; cases hok
  · intro m hm
    rw [auth_new_eval] at hm
    exact (authOfByte_ok v m (by simpa using hm)).1
  · intro c hc
    rw [cmd_new_eval] at hc
    exact cmdOfByte_ok v c (by simpa using hc)
  · intro s hs
    rw [status_try_from_eval] at hs
    exact statusOfByte_ok v s (by simpa using hs)

/-- the address-type enum and `TryFrom<u8>` translated from `socks5.rs` agree with the fixed definition that
`translate_addr.py` builds into `Octo.AddrGen` (which the address codec proofs are about) -/
theorem c14_generated_address_type_agrees (ov : Bool) (v : UInt8) :
    Socks5AddressType.try_from ov v = PWGen.Res.ok (match AddrGen.Socks5AddressType.try_from v with
      | .ok t => (match t with | .Ipv4 => .ok .Ipv4 | .Domain => .ok .Domain | .Ipv6 => .ok .Ipv6)
      | .err => .err) ∧
    ∀ t : Socks5AddressType, (atypToAddrGen t).as_u8 = t.as_u8 :=
  ⟨atyp_try_from_agrees ov v, atyp_as_u8_agrees⟩

/-! ### (c) corollaries: totality -/

theorem embedInitialRequest_panic (r) : embedInitialRequest r = .panic ↔ r = PWGen.Res.panic := by
  match r with
  | .ok (_, .ok (some _)) => simp [embedInitialRequest]
  | .ok (_, .ok none) => simp [embedInitialRequest]
  | .ok (_, .err) => simp [embedInitialRequest]
  | .panic => simp [embedInitialRequest]

theorem embedInitialResponse_panic (r) : embedInitialResponse r = .panic ↔ r = PWGen.Res.panic := by
  match r with
  | .ok (_, .ok (some _)) => simp [embedInitialResponse]
  | .ok (_, .ok none) => simp [embedInitialResponse]
  | .ok (_, .err) => simp [embedInitialResponse]
  | .panic => simp [embedInitialResponse]

theorem embedCommandRequest_panic (r) : embedCommandRequest r = .panic ↔ r = PWGen.Res.panic := by
  match r with
  | .ok (_, .ok (some _)) => simp [embedCommandRequest]
  | .ok (_, .ok none) => simp [embedCommandRequest]
  | .ok (_, .err) => simp [embedCommandRequest]
  | .panic => simp [embedCommandRequest]

theorem embedCommandResponse_panic (r) : embedCommandResponse r = .panic ↔ r = PWGen.Res.panic := by
  match r with
  | .ok (_, .ok (some _)) => simp [embedCommandResponse]
  | .ok (_, .ok none) => simp [embedCommandResponse]
  | .ok (_, .err) => simp [embedCommandResponse]
  | .panic => simp [embedCommandResponse]

theorem embedUdp_panic (r) : (embedUdp r).res = .panic ↔ r = PWGen.Res.panic := by
  match r with
  | .ok (_, .ok (some (_, _))) => simp [embedUdp]
  | .ok (_, .ok none) => simp [embedUdp]
  | .ok (_, .err) => simp [embedUdp]
  | .panic => simp [embedUdp]

/-- **C07 for the generated code**: `Socks5InitialRequestDecoder::decode` never panics — every `get_u8`, the `src[1]` and the
`2 + src[1] as usize` (debug profile) are covered by the guards the Rust has — `c07_socks5_initial_request_total` carried over -/
theorem c07_generated_initial_request_never_panics (ov : Bool) (b : Bytes) (h : b.length < 2 ^ 64) :
    Socks5InitialRequestDecoder.decode ov b ≠ PWGen.Res.panic := by
  intro hp
  exact c07_socks5_initial_request_total b (by rw [← initial_request_decode_eq ov b h, hp]; rfl)

theorem c07_generated_initial_response_never_panics (ov : Bool) (b : Bytes) (h : b.length < 2 ^ 64) :
    Socks5InitialResponseDecoder.decode ov b ≠ PWGen.Res.panic := by
  intro hp
  exact c07_socks5_initial_response_total b (by rw [← initial_response_decode_eq ov b h, hp]; rfl)

/-- `Socks5CommandRequestDecoder::decode` never panics: `try_decode_at(src, 3)` is called inside its precondition, `3 + len`
cannot overflow, `advance(1)` and the address reads are covered -/
theorem c07_generated_command_request_never_panics (ov : Bool) (b : Bytes) (h : b.length < 2 ^ 64) :
    Socks5CommandRequestDecoder.decode ov b ≠ PWGen.Res.panic := by
  intro hp
  exact c07_socks5_command_request_total b (by rw [← command_request_decode_eq ov b h, hp]; rfl)

theorem c07_generated_command_response_never_panics (ov : Bool) (b : Bytes) (h : b.length < 2 ^ 64) :
    Socks5CommandResponseDecoder.decode ov b ≠ PWGen.Res.panic := by
  intro hp
  exact c07_socks5_command_response_total b (by rw [← command_response_decode_eq ov b h, hp]; rfl)

/-- `Socks5UdpCodec::decode` never panics, and whenever it returns, nothing of the datagram stays in the reader's buffer -/
theorem c07_generated_udp_never_panics (ov : Bool) (b : Bytes) (h : b.length < 2 ^ 64) :
    Socks5UdpCodec.decode ov b ≠ PWGen.Res.panic ∧
    ∀ buf r, Socks5UdpCodec.decode ov b = PWGen.Res.ok (buf, r) → buf = [] := by
  refine ⟨?_, fun buf r hd => udp_decode_leaves_empty ov b buf r h hd⟩
  intro hp
  exact c07_socks5_udp_total b (by rw [← udp_decode_eq ov b h, hp]; rfl)

/-- no generated encoder panics (they only append): stated once for all five -/
theorem c07_generated_encoders_never_panic (ov : Bool) (dst : Bytes) :
    (∀ r, Socks5InitialRequest.encode ov r dst ≠ PWGen.Res.panic) ∧ (∀ r, Socks5InitialResponse.encode ov r dst ≠ PWGen.Res.panic) ∧
    (∀ r, Socks5CommandRequest.encode ov r dst ≠ PWGen.Res.panic) ∧ (∀ r, Socks5CommandResponse.encode ov r dst ≠ PWGen.Res.panic) ∧
    (∀ p a, Socks5UdpCodec.encode ov (p, a) dst ≠ PWGen.Res.panic) := by
  refine ⟨fun r => ?_, fun r => ?_, fun r => ?_, fun r => ?_, fun p a => ?_⟩
  · rw [initial_request_encode_eq]; simp
  · rw [initial_response_encode_eq]; simp
  · rw [command_request_encode_eq]; simp
  · rw [command_response_encode_eq]; simp
  · rw [udp_encode_eq]; simp

/-! ### (c) corollaries: the command request -/

theorem cmd_as_u8_inj (c c' : Socks5CommandType) (h : c.as_u8.toNat = c'.as_u8.toNat) : c = c' := by
  cases c <;> cases c' <;> first | rfl | (exact absurd h (by decide))

/-- **a command request is decoded exactly when the model says so** (read from the model's side): the model returns
`(cmd, a, rest)` iff `a` is a value the Rust type can hold and the generated decoder returns the item made of the command whose
byte is `cmd` and *the* Rust address `ofAddr a` (`flowinfo = scope_id = 0`), with the same unread rest -/
theorem c13_generated_command_request_of_model (ov : Bool) (b : Bytes) (h : b.length < 2 ^ 64) (cmd : Nat) (a : Addr) (rest : Bytes) :
    Socks5.decodeCommandRequest b = .ok (cmd, a, rest) ↔
    a.WF ∧ ∃ ct, ct.as_u8.toNat = cmd ∧
      Socks5CommandRequestDecoder.decode ov b = PWGen.Res.ok (rest, RResult.ok (some ⟨ct, ofAddr a⟩)) := by
  rw [← command_request_decode_eq ov b h]
  constructor
  · intro hm
    cases hd : Socks5CommandRequestDecoder.decode ov b with
    | panic => rw [hd] at hm; cases hm
    | ok y =>
      obtain ⟨rest', res⟩ := y
      cases res with
      | err => rw [hd] at hm; cases hm
      | ok o =>
        cases o with
        | none => rw [hd] at hm; cases hm
        | some req =>
          rw [hd] at hm
          simp only [embedCommandRequest, Octo.Res.ok.injEq, Prod.mk.injEq] at hm
          obtain ⟨e1, e2, e3⟩ := hm
          subst e3
          have hn := decode_normal ov _ _ _ (command_request_decode_ok_inv ov b rest' req h hd).1
          refine ⟨by rw [← e2]; exact toAddr_wf _, req.command_type, e1, ?_⟩
          rw [← e2, ofAddr_toAddr, hn]
  · rintro ⟨hwf, ct, e1, hd⟩
    rw [hd]
    simp only [embedCommandRequest, e1, toAddr_ofAddr a hwf]

/-- **a command request is decoded exactly when the model says so** (read from the code's side): the generated decoder
returns the item `(ct, x)` and the unread rest `rest` iff `x` is in the form `decode` builds (`flowinfo = scope_id = 0`) and the
model returns the byte of `ct`, the model's view of `x`, and the same rest -/
theorem c13_generated_command_request_iff (ov : Bool) (b : Bytes) (h : b.length < 2 ^ 64) (ct : Socks5CommandType) (x : Address)
    (rest : Bytes) :
    Socks5CommandRequestDecoder.decode ov b = PWGen.Res.ok (rest, RResult.ok (some ⟨ct, x⟩)) ↔
    normalize x = x ∧ Socks5.decodeCommandRequest b = .ok (ct.as_u8.toNat, toAddr x, rest) := by
  constructor
  · intro hd
    have hn := decode_normal ov _ _ _ (command_request_decode_ok_inv ov b rest _ h hd).1
    refine ⟨hn, ?_⟩
    rw [← command_request_decode_eq ov b h, hd]; rfl
  · rintro ⟨hn, hm⟩
    obtain ⟨hwf, ct', e1, hd⟩ := (c13_generated_command_request_of_model ov b h _ _ _).mp hm
    rw [cmd_as_u8_inj ct' ct e1, ofAddr_toAddr, hn] at hd
    exact hd

/-! ### (c) corollaries: the handshake -/

/-- **the handshake rebuilt from the generated decoders and encoders is the model's handshake** -/
theorem c13_generated_handshake_eq (ov : Bool) (greeting request : Bytes) (bound : Address)
    (hg : greeting.length < 2 ^ 64) (hr : request.length < 2 ^ 64) :
    socks5HandshakeGen ov greeting request bound = Hs.socks5Handshake greeting request (toAddr bound) :=
  socks5HandshakeGen_eq ov greeting request bound hg hr

/-- **everything about a tunnel the handshake over the generated code opens** (`c13_socks5_tunnel_inv` carried over): the target
passed the admission check; the request was `05 01 rsv address rest`; exactly the greeting and the request up to the end of the
address were consumed; the replies are `05 00` and `05 00 00 bound` -/
theorem c13_generated_socks5_tunnel_inv (ov : Bool) (greeting request : Bytes) (bound : Address) (a : Addr) (n : Nat) (r : Bytes)
    (hg : greeting.length < 2 ^ 64) (hr : request.length < 2 ^ 64)
    (h : socks5HandshakeGen ov greeting request bound = .tunnel a n r) :
    a.Accepted ∧
    (∃ rsv rest, request = 5 :: 1 :: rsv :: (Socks5Addr.encode a ++ rest) ∧
      n = greeting.length + 3 + (Socks5Addr.encode a).length) ∧
    r = Socks5.encodeInitialResponse 0 ++ Socks5.encodeCommandResponse 0 (toAddr bound) := by
  rw [socks5HandshakeGen_eq ov greeting request bound hg hr] at h
  exact Hs.c13_socks5_tunnel_inv greeting request (toAddr bound) a n r h

/-- **C13 for the generated code, admission**: whatever the greeting and request bytes, the handshake built from the translated
decoders opens a tunnel only towards an address the outbound protocols can carry (a name of 1..=255 bytes, or a socket address) -/
theorem c13_generated_socks5_tunnel_is_admitted (ov : Bool) (greeting request : Bytes) (bound : Address) (a : Addr) (n : Nat)
    (r : Bytes) (hg : greeting.length < 2 ^ 64) (hr : request.length < 2 ^ 64)
    (h : socks5HandshakeGen ov greeting request bound = .tunnel a n r) : a.Accepted :=
  (c13_generated_socks5_tunnel_inv ov greeting request bound a n r hg hr h).1

/-- **C13 for the generated code, a decision is final**: once the handshake built from the translated decoders has tunnelled or
refused on the request bytes received so far, further bytes change neither target, reply nor the number of bytes consumed -/
theorem c13_generated_socks5_decided_is_final (ov : Bool) (greeting request more : Bytes) (bound : Address)
    (hg : greeting.length < 2 ^ 64) (hr : (request ++ more).length < 2 ^ 64)
    (h : socks5HandshakeGen ov greeting request bound ≠ .wait) :
    socks5HandshakeGen ov greeting (request ++ more) bound = socks5HandshakeGen ov greeting request bound := by
  have hr' : request.length < 2 ^ 64 := by rw [List.length_append] at hr; omega
  rw [socks5HandshakeGen_eq ov greeting request bound hg hr'] at h ⊢
  rw [socks5HandshakeGen_eq ov greeting (request ++ more) bound hg hr]
  exact Hs.c13_socks5_decided_is_final greeting request more (toAddr bound) h

/-- the same, read the other way: while a longer request is still undecided, so was every prefix
(`c13_socks5_wait_is_prefix_closed` carried over) -/
theorem c13_generated_socks5_wait_is_prefix_closed (ov : Bool) (greeting request more : Bytes) (bound : Address)
    (hg : greeting.length < 2 ^ 64) (hr : (request ++ more).length < 2 ^ 64)
    (h : socks5HandshakeGen ov greeting (request ++ more) bound = .wait) :
    socks5HandshakeGen ov greeting request bound = .wait := by
  have hr' : request.length < 2 ^ 64 := by rw [List.length_append] at hr; omega
  rw [socks5HandshakeGen_eq ov greeting (request ++ more) bound hg hr] at h
  rw [socks5HandshakeGen_eq ov greeting request bound hg hr']
  exact Hs.c13_socks5_wait_is_prefix_closed greeting request more (toAddr bound) h

/-- **never early**: if the handshake over the generated code opens a tunnel having consumed `n` bytes in all, then on every
prefix of the request that ends before the `n`-th byte it asked for more (`c13_socks5_undecided_before_end` carried over) -/
theorem c13_generated_socks5_undecided_before_end (ov : Bool) (greeting request more : Bytes) (bound : Address) (a : Addr) (n : Nat)
    (r : Bytes) (hg : greeting.length < 2 ^ 64) (hr : (request ++ more).length < 2 ^ 64)
    (h : socks5HandshakeGen ov greeting (request ++ more) bound = .tunnel a n r)
    (hshort : greeting.length + request.length < n) :
    socks5HandshakeGen ov greeting request bound = .wait := by
  have hr' : request.length < 2 ^ 64 := by rw [List.length_append] at hr; omega
  rw [socks5HandshakeGen_eq ov greeting (request ++ more) bound hg hr] at h
  rw [socks5HandshakeGen_eq ov greeting request bound hg hr']
  exact Hs.c13_socks5_undecided_before_end greeting request more (toAddr bound) a n r h hshort

/-! ### (c) corollaries: the UDP header round trip -/

/-- **C02 for the generated code**: for every payload and every accepted address, in both profiles, the generated
`Socks5UdpCodec::encode` into an empty buffer never panics, and the generated `Socks5UdpCodec::decode` of what it wrote returns
exactly that payload and that address, leaving the reader's buffer empty -/
theorem c02_generated_socks5_udp_roundtrip (ov : Bool) (p : Bytes) (a : Addr) (h : a.Accepted)
    (hlen : (Socks5.udpEncode p a).length < 2 ^ 64) :
    ∃ w, Socks5UdpCodec.encode ov (p, ofAddr a) [] = PWGen.Res.ok (w, RResult.ok ()) ∧
      Socks5UdpCodec.decode ov w = PWGen.Res.ok ([], RResult.ok (some (p, ofAddr a))) := by
  have hwf : a.WF := by
    cases a with
    | domain host port => exact h.2.2
    | v4 ip port => exact h
    | v6 ip port => exact h
  refine ⟨Socks5.udpEncode p a, by rw [udp_encode_eq, toAddr_ofAddr a hwf]; rfl, ?_⟩
  have hl2 : (Socks5Addr.encode a ++ p).length < 2 ^ 64 := by
    simp only [Socks5.udpEncode, List.length_append, List.length_cons, List.length_nil] at hlen ⊢; omega
  obtain ⟨w, hw, hd⟩ := c14_generated_roundtrip ov a p h hl2
  have hw' : w = Socks5Addr.encode a := by
    have := c14_generated_encode ov a [] hwf
    rw [hw] at this
    simpa using this
  subst hw'
  have hne : (Socks5.udpEncode p a).isEmpty = false := by simp [Socks5.udpEncode]
  have h5 : ¬ (Socks5.udpEncode p a).length < 5 := by
    cases a <;> simp [Socks5.udpEncode, Socks5Addr.encode] <;> omega
  have h2 : ¬ (Socks5.udpEncode p a).getD 2 0 ≠ 0 := by simp [Socks5.udpEncode]
  have hdrop : (Socks5.udpEncode p a).drop 3 = Socks5Addr.encode a ++ p := by simp [Socks5.udpEncode]
  rw [udp_decode_eval ov _ hlen]
  simp only [hne, Bool.false_eq_true, if_false, if_neg h5, if_neg h2, hdrop, hd]

/-! ### non-vacuity: the hypotheses hold for concrete inputs, and the generated code, evaluated, agrees -/
def exBound : Address := .Socket (.V4 ⟨⟨0x7f000001⟩, 1080⟩)
def exGreeting : Bytes := [5, 2, 0, 2]
def exRequest : Bytes := [5, 1, 0, 3, 6, 101, 120, 46, 111, 114, 103, 1, 187]

example : exGreeting.length < 2 ^ 64 ∧ exRequest.length < 2 ^ 64 ∧ (exRequest ++ [71, 69, 84]).length < 2 ^ 64 := by decide
example : (Addr.domain [101, 120, 46, 111, 114, 103] 443).Accepted ∧
    (Socks5.udpEncode [1, 2, 3] (Addr.domain [101, 120, 46, 111, 114, 103] 443)).length < 2 ^ 64 := by decide
-- decoders
example : Socks5InitialRequestDecoder.decode true exGreeting =
    PWGen.Res.ok ([], RResult.ok (some ⟨[.NoAuth, .Password]⟩)) := by decide
example : Socks5InitialRequestDecoder.decode true [5, 2, 0] = PWGen.Res.ok ([5, 2, 0], RResult.ok none) := by decide
example : Socks5InitialRequestDecoder.decode true [5, 2, 0, 7, 9] = PWGen.Res.ok ([9], RResult.err) := by decide
example : Socks5InitialRequestDecoder.decode false [4, 0] = PWGen.Res.ok ([0], RResult.err) := by decide
example : Socks5CommandRequestDecoder.decode true (exRequest ++ [71, 69, 84]) =
    PWGen.Res.ok ([71, 69, 84], RResult.ok (some ⟨.Connect, ofAddr (.domain [101, 120, 46, 111, 114, 103] 443)⟩)) := by decide
example : Socks5CommandRequestDecoder.decode true (exRequest.take 12) = PWGen.Res.ok (exRequest.take 12, RResult.ok none) := by decide
example : Socks5CommandRequestDecoder.decode true [5, 1, 0, 9, 0, 0] = PWGen.Res.ok ([5, 1, 0, 9, 0, 0], RResult.err) := by decide
example : Socks5CommandRequestDecoder.decode true [5, 7, 0, 1, 10, 0, 0, 1, 0, 80] =
    PWGen.Res.ok ([0, 1, 10, 0, 0, 1, 0, 80], RResult.err) := by decide
example : Socks5InitialResponseDecoder.decode true [5, 0, 9] = PWGen.Res.ok ([9], RResult.ok (some ⟨.NoAuth⟩)) := by decide
example : Socks5CommandResponseDecoder.decode true [5, 0, 0, 1, 127, 0, 0, 1, 4, 56] =
    PWGen.Res.ok ([], RResult.ok (some ⟨.Success, exBound⟩)) := by decide
example : Socks5UdpCodec.decode true [0, 0, 0, 1, 127, 0, 0, 1, 4, 56, 1, 2, 3] =
    PWGen.Res.ok ([], RResult.ok (some ([1, 2, 3], exBound))) := by decide
example : Socks5UdpCodec.decode true [0, 0, 1, 1, 127, 0, 0, 1, 4, 56, 1, 2, 3] = PWGen.Res.ok ([], RResult.err) := by decide
-- encoders
example : Socks5InitialRequest.encode true ⟨[.NoAuth, .Password]⟩ [] = PWGen.Res.ok (exGreeting, ()) := by decide
example : Socks5CommandRequest.encode true ⟨.Connect, ofAddr (.domain [101, 120, 46, 111, 114, 103] 443)⟩ [] =
    PWGen.Res.ok (exRequest, ()) := by decide
example : Socks5UdpCodec.encode true ([1, 2, 3], exBound) [] =
    PWGen.Res.ok ([0, 0, 0, 1, 127, 0, 0, 1, 4, 56, 1, 2, 3], RResult.ok ()) := by decide
-- the handshake over the generated code: tunnel, refusal (BIND), wait, finality
example : socks5HandshakeGen true exGreeting exRequest exBound =
    .tunnel (.domain [101, 120, 46, 111, 114, 103] 443) 17 [5, 0, 5, 0, 0, 1, 127, 0, 0, 1, 4, 56] := by decide
example : socks5HandshakeGen true exGreeting exRequest exBound ≠ .wait := by decide
example : socks5HandshakeGen true exGreeting (exRequest ++ [71, 69, 84]) exBound = socks5HandshakeGen true exGreeting exRequest exBound := by
  decide
example : socks5HandshakeGen true exGreeting [5, 2, 0, 1, 10, 0, 0, 1, 0, 80] exBound =
    .refused [5, 0, 5, 0, 0, 1, 127, 0, 0, 1, 4, 56] := by decide
example : socks5HandshakeGen true exGreeting (exRequest.take 7) exBound = .wait := by decide
example : socks5HandshakeGen true [5, 2, 0] exRequest exBound = .wait := by decide
-- the hypotheses of `c13_generated_socks5_undecided_before_end`: a tunnel after 17 bytes, a prefix that ends before them
example : socks5HandshakeGen true exGreeting (exRequest.take 7 ++ exRequest.drop 7) exBound =
      .tunnel (.domain [101, 120, 46, 111, 114, 103] 443) 17 [5, 0, 5, 0, 0, 1, 127, 0, 0, 1, 4, 56] ∧
    exGreeting.length + (exRequest.take 7).length < 17 := by decide
example : socks5HandshakeGen false exGreeting [5, 1, 0, 3, 0, 1, 187] exBound = .refused [5, 0, 5, 0, 0, 1, 127, 0, 0, 1, 4, 56] := by decide

end Octo.Socks5Gen
