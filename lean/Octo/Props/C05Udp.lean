import Octo.Model.SsUdp
import Octo.Props.C14
import Octo.Props.C05
import Octo.Proofs.ToyStrong
/-!
# C05 (Shadowsocks datagrams): a tampered datagram is dropped entirely

A datagram is one AEAD block (behind a salt, or behind an AES header block / a nonce).  The
cryptographic assumption is again a **hypothesis about the received datagram** `w'`: under the key and
nonce the decoder derives from the *received* header (legacy: the sub-key of the received salt, nonce
0; 2022/AES: the session sub-key of the received session id, nonce = the last 12 bytes of the
decrypted header block; 2022/XChaCha: the PSK, the received 24-byte nonce) the received block opens
only if (key, nonce, block) are those of one of the datagrams honest parties sent (`sent`) — to that
datagram's plaintext.  When the attacker changes the salt / session id / nonce, the key or nonce is
one no honest party used and the hypothesis says: nothing opens under it.  The hypothesis speaks of
the one block the decoder looks at, so it is satisfiable together with `Lawful` (the examples
discharge it for `Crypto.toyS`, by evaluation); asked of all byte strings it would contradict `Lawful`
(`Ss.noForgery_global_inconsistent`).

What is proved is the codec's part: the decoder releases nothing unless that one block opens, and
then exactly the address and payload of that honest datagram (and, 2022, its packet id) — never part
of it, never bytes that were not authenticated; for the 2022 kinds only a datagram sent in the
*opposite* direction is accepted (a datagram reflected to its sender, or spliced from the other
direction, is dropped).  Legacy and XChaCha: a released datagram *is* byte for byte an honest one.
AES kinds: the first 16 bytes (an AES-ECB block with session id ‖ packet id, plus identity headers)
are outside the AEAD; the packet id and the low half of the session id are bound through the nonce,
the high half of the session id only through the key derivation — the theorem claims payload, address
and packet id, not the session id.
Legacy datagrams carry no replay protection: a *replayed* honest datagram is released again (replay
is C10/C11's subject, and only the 2022 kinds have a window); C05 is about modification.
-/
namespace Octo.SsUdp
open Octo.Ss

/-! ### legacy kinds -/

/-- what an honest party sealed into one legacy datagram -/
structure LegacySent where
  salt : Bytes
  addr : Addr
  item : Bytes

def LegacySent.plain (d : LegacySent) : Bytes := Socks5Addr.encode d.addr ++ d.item

/-- the AEAD block of the datagram: sub-key of the salt, first nonce -/
def LegacySent.sealed (C : Crypto) (ctx : Ctx) (d : LegacySent) : Bytes :=
  C.sealB ctx.kind.alg (newAuth C ctx.kind ctx.key d.salt).key (nonceAt 0) [] d.plain

def LegacySent.wire (C : Crypto) (ctx : Ctx) (d : LegacySent) : Bytes := d.salt ++ d.sealed C ctx

theorem newAuth_alg (C : Crypto) (k : Kind) (key salt : Bytes) : (newAuth C k key salt).alg = k.alg := by
  unfold newAuth; split <;> rfl

theorem newAuth_at0 (C : Crypto) (k : Kind) (key salt : Bytes) : AuthAt (newAuth C k key salt) 0 := by
  unfold AuthAt newAuth; split <;> rfl

/-- `wire` is the model's encoder (any mode, any session) -/
theorem legacy_encode_eq (C : Crypto) (ctx : Ctx) (hk : ctx.kind.is2022 = false) (m : Mode) (s : Session) (addr : Addr)
    (item : Bytes) (r : Rand) :
    encode C ctx m s addr item r = LegacySent.wire C ctx ⟨r.salt, addr, item⟩ := by
  unfold encode LegacySent.wire LegacySent.sealed LegacySent.plain
  simp only [hk, Bool.false_eq_true, not_false_eq_true, if_true]
  rw [sealB_at C _ 0 (newAuth_at0 C _ _ _), newAuth_alg]

/-- integrity of ciphertexts for the received datagram `w'`: under the sub-key of the *received* salt
and nonce 0 the received body opens only if (salt, body) is one of the honestly sealed datagrams -/
def LegacyNoForgery (C : Crypto) (ctx : Ctx) (sent : List LegacySent) (w' : Bytes) : Prop :=
  ∀ pt, C.openB ctx.kind.alg (newAuth C ctx.kind ctx.key (w'.take ctx.kind.n)).key (nonceAt 0) [] (w'.drop ctx.kind.n) = some pt →
    ∃ d ∈ sent, w'.take ctx.kind.n = d.salt ∧ w'.drop ctx.kind.n = d.sealed C ctx ∧ pt = d.plain

/-- **C05, legacy datagrams**: whatever datagram `w'` arrives, if the decoder releases anything then
`w'` *is* one of the honestly sealed datagrams and what is released is exactly its payload and
address.  A datagram that differs from every honest one — in the salt, the body, the tag, by
truncation or extension — is dropped. -/
theorem c05_ss_udp_legacy_tampered_dropped (C : Crypto) (ctx : Ctx) (hk : ctx.kind.is2022 = false) (mode : Mode) (now : Nat)
    (sent : List LegacySent) (hacc : ∀ d ∈ sent, d.addr.Accepted) (w' : Bytes) (hnf : LegacyNoForgery C ctx sent w')
    (p : Bytes) (a : Addr) (s : Session) (h : decode C ctx mode now w' = .ok (p, a, s)) :
    ∃ d ∈ sent, w' = d.wire C ctx ∧ p = d.item ∧ a = d.addr := by
  unfold decode at h
  simp only [hk, Bool.false_eq_true, not_false_eq_true, if_true] at h
  by_cases hl : w'.length < ctx.kind.n
  · rw [if_pos hl] at h; cases h
  rw [if_neg hl] at h
  rw [openB_at C _ 0 (newAuth_at0 C _ _ _), newAuth_alg] at h
  simp only at h
  cases ho : C.openB ctx.kind.alg (newAuth C ctx.kind ctx.key (w'.take ctx.kind.n)).key (nonceAt 0) [] (w'.drop ctx.kind.n) with
  | none => rw [ho] at h; cases h
  | some pt =>
    rw [ho] at h
    simp only at h
    obtain ⟨d, hd, hsalt, hbody, hpt⟩ := hnf pt ho
    refine ⟨d, hd, ?_, ?_⟩
    · unfold LegacySent.wire; rw [← hsalt, ← hbody, List.take_append_drop]
    · rw [hpt, LegacySent.plain, c14_socks5_roundtrip d.addr d.item (hacc d hd)] at h
      simp only [Res.ok.injEq, Prod.mk.injEq] at h
      exact ⟨h.1.symm, h.2.1.symm⟩

/-- the contrapositive, as the property is worded: a datagram that is not one of the honest ones
releases nothing -/
theorem c05_ss_udp_legacy_foreign_released_nothing (C : Crypto) (ctx : Ctx) (hk : ctx.kind.is2022 = false) (mode : Mode) (now : Nat)
    (sent : List LegacySent) (hacc : ∀ d ∈ sent, d.addr.Accepted) (w' : Bytes) (hnf : LegacyNoForgery C ctx sent w')
    (hne : ∀ d ∈ sent, w' ≠ d.wire C ctx) : ∀ x, decode C ctx mode now w' ≠ .ok x := by
  intro ⟨p, a, s⟩ h
  obtain ⟨d, hd, hw, _⟩ := c05_ss_udp_legacy_tampered_dropped C ctx hk mode now sent hacc w' hnf p a s h
  exact hne d hd hw

/-! ### 2022 kinds (AES path and XChaCha path, both directions) -/

/-- what an honest party (`mode` = who sent it) sealed into one 2022 datagram -/
structure Sent22 where
  mode : Mode
  s : Session
  addr : Addr
  item : Bytes
  r : Rand

/-- session id ‖ packet id of the sender -/
def Sent22.sidPid (d : Sent22) : Bytes :=
  match d.mode with
  | .client => be64 d.s.clientSessionId ++ be64 d.s.packetId
  | .server => be64 d.s.serverSessionId ++ be64 d.s.packetId

/-- type ‖ timestamp ‖ [client session id] ‖ padding length ‖ padding ‖ address ‖ payload -/
def Sent22.body (d : Sent22) : Bytes :=
  match d.mode with
  | .client => [Mode.client.toU8] ++ be64 d.r.now ++ be16 d.r.padding.length ++ d.r.padding ++ Socks5Addr.encode d.addr ++ d.item
  | .server => [Mode.server.toU8] ++ be64 d.r.now ++ be64 d.s.clientSessionId ++ be16 d.r.padding.length ++ d.r.padding ++
      Socks5Addr.encode d.addr ++ d.item

/-- the AEAD plaintext: the body (AES kinds), or ids ‖ body (XChaCha kinds) -/
def Sent22.plain (ctx : Ctx) (d : Sent22) : Bytes :=
  match xAlg ctx.kind with
  | none => d.body
  | some _ => d.sidPid ++ d.body

/-- the AEAD block of the datagram, as `encode` seals it -/
def Sent22.sealed (C : Crypto) (ctx : Ctx) (d : Sent22) : Bytes :=
  match xAlg ctx.kind with
  | none =>
    match d.mode with
    | .client => C.sealB ctx.kind.alg (aesSessionKey C ctx.kind ctx.key d.s.clientSessionId) (d.sidPid.drop 4) [] d.body
    | .server =>
      C.sealB ctx.kind.alg
        (aesSessionKey C ctx.kind (match d.s.user with | some u => u.key | none => ctx.key) d.s.serverSessionId)
        (d.sidPid.drop 4) [] d.body
  | some xa => C.sealB xa (ctx.key.take 32) d.r.nonce [] (d.sidPid ++ d.body)

/-- algorithm, key and nonce under which `encode` seals that block -/
def Sent22.sealArgs (C : Crypto) (ctx : Ctx) (d : Sent22) : Alg × Bytes × Bytes :=
  match xAlg ctx.kind with
  | none =>
    match d.mode with
    | .client => (ctx.kind.alg, aesSessionKey C ctx.kind ctx.key d.s.clientSessionId, d.sidPid.drop 4)
    | .server =>
      (ctx.kind.alg, aesSessionKey C ctx.kind (match d.s.user with | some u => u.key | none => ctx.key) d.s.serverSessionId,
        d.sidPid.drop 4)
  | some xa => (xa, ctx.key.take 32, d.r.nonce)

theorem Sent22.sealed_eq (C : Crypto) (ctx : Ctx) (d : Sent22) :
    d.sealed C ctx = C.sealB (d.sealArgs C ctx).1 (d.sealArgs C ctx).2.1 (d.sealArgs C ctx).2.2 [] (d.plain ctx) := by
  unfold Sent22.sealed Sent22.sealArgs Sent22.plain
  cases xAlg ctx.kind <;> cases d.mode <;> rfl

/-- `sealed` is the tail of what the model's encoder puts on the wire -/
theorem sent22_sealed_suffix (C : Crypto) (ctx : Ctx) (hk : ctx.kind.is2022 = true) (d : Sent22) :
    d.sealed C ctx <:+ encode C ctx d.mode d.s d.addr d.item d.r := by
  unfold encode Sent22.sealed
  simp only [hk, not_true_eq_false, if_false]
  cases hm : d.mode <;> cases hx : xAlg ctx.kind <;>
    simp only [Sent22.sidPid, Sent22.body, hm] <;> exact List.suffix_append _ _

/-- what the 2022 decoder tries to open for the received datagram `b`: algorithm, key, nonce, block —
all derived from the *received* header -/
def openArgs (C : Crypto) (ctx : Ctx) (mode : Mode) (b : Bytes) : Option (Alg × Bytes × Bytes × Bytes) :=
  match xAlg ctx.kind with
  | none =>
    let hdr := C.aesDec ctx.key (b.take 16)
    let sid := rdBE (hdr.take 8)
    let rest := b.drop 16
    if mode = .server ∧ ctx.kind.supportEih ∧ ctx.users.length > 0 then
      match findUser ctx.users (xorBytes (C.aesDec ctx.key (rest.take 16)) hdr) with
      | none => none
      | some u => some (ctx.kind.alg, aesSessionKey C ctx.kind u.key sid, hdr.drop 4, rest.drop 16)
    else some (ctx.kind.alg, aesSessionKey C ctx.kind ctx.key sid, hdr.drop 4, rest)
  | some xa => some (xa, ctx.key.take 32, b.take 24, b.drop 24)

/-- integrity of ciphertexts for the received datagram `w'`: under the key and nonce the decoder
derives from the received header, the received block opens only if key, nonce and block are those of
one of the honestly sent datagrams (of either direction) — to that datagram's plaintext -/
def NoForgery22 (C : Crypto) (ctx : Ctx) (mode : Mode) (sent : List Sent22) (w' : Bytes) : Prop :=
  ∀ alg key nonce x pt, openArgs C ctx mode w' = some (alg, key, nonce, x) → C.openB alg key nonce [] x = some pt →
    ∃ d ∈ sent, (alg, key, nonce) = d.sealArgs C ctx ∧ x = d.sealed C ctx ∧ pt = d.plain ctx

/-- the last part of `decode`: padding, address, payload -/
def finishTail (mode : Mode) (csid sid pid : Nat) (user : Option User) (p : Bytes) : Res (Bytes × Addr × Session) :=
  let pl := rdBE (p.take 2)
  if p.length < 2 + pl then .err else
  match Socks5Addr.decode (p.drop (2 + pl)) with
  | .ok (addr, rest) =>
    .ok (rest, addr, if mode = .client then ⟨csid, sid, pid, none⟩ else ⟨sid, 0, pid, user⟩)
  | .panic => .panic
  | _ => .err

/-- the part of `decode` after the block has been opened: type, timestamp, [client session id], tail -/
def finish (mode : Mode) (now sid pid : Nat) (p : Bytes) (user : Option User) : Res (Bytes × Addr × Session) :=
  if p.headD 0 ≠ mode.expectU8 then .err else
  if absDiff now (rdBE ((p.drop 1).take 8)) > Consts.ssMaxTimeDiff then .err else
  if mode = .client then finishTail mode (rdBE ((p.drop 9).take 8)) sid pid user (p.drop 17)
  else finishTail mode sid sid pid user (p.drop 9)

/-- the shortest datagram the decoder looks at -/
def hdrLen22 (ctx : Ctx) (mode : Mode) : Nat :=
  nonceLen ctx.kind + 16 + 8 + 8 +
    (if mode = .server then (if mode = .server ∧ ctx.kind.supportEih ∧ ctx.users.length > 0 then 16 else 0) else 8) + 1 + 8 + 2

/-- the `opened` value of `decode`: (session id, packet id, plaintext after them, user) -/
def opened22 (C : Crypto) (ctx : Ctx) (mode : Mode) (b : Bytes) : Option (Nat × Nat × Bytes × Option User) :=
  match xAlg ctx.kind with
  | none =>
    let hdr := C.aesDec ctx.key (b.take 16)
    let sid := rdBE (hdr.take 8)
    let pid := rdBE (hdr.drop 8)
    let rest := b.drop 16
    if mode = .server ∧ ctx.kind.supportEih ∧ ctx.users.length > 0 then
      let h := xorBytes (C.aesDec ctx.key (rest.take 16)) hdr
      match findUser ctx.users h with
      | none => none
      | some u =>
        (C.openB ctx.kind.alg (aesSessionKey C ctx.kind u.key sid) (hdr.drop 4) [] (rest.drop 16)).map fun p => (sid, pid, p, some u)
    else
      (C.openB ctx.kind.alg (aesSessionKey C ctx.kind ctx.key sid) (hdr.drop 4) [] rest).map fun p => (sid, pid, p, none)
  | some xa =>
    (C.openB xa (ctx.key.take 32) (b.take 24) [] (b.drop 24)).map fun p =>
      (rdBE (p.take 8), rdBE ((p.drop 8).take 8), p.drop 16, none)

/-- `decode` of a 2022 kind, in pieces -/
theorem decode_2022_eq (C : Crypto) (ctx : Ctx) (hk : ctx.kind.is2022 = true) (mode : Mode) (now : Nat) (b : Bytes) :
    decode C ctx mode now b =
      if b.length < hdrLen22 ctx mode then .err else
      match opened22 C ctx mode b with
      | none => .err
      | some (sid, pid, p, user) => finish mode now sid pid p user := by
  unfold decode
  simp only [hk, not_true_eq_false, if_false]
  cases mode <;> rfl

/-- `opened22`, inverted: it is `some` only if the block of `openArgs` opened; the packet id comes from
the nonce (AES kinds) or from the opened plaintext (XChaCha kinds) -/
theorem opened22_inv (C : Crypto) (ctx : Ctx) (mode : Mode) (b : Bytes) (sid pid : Nat) (p : Bytes) (user : Option User)
    (h : opened22 C ctx mode b = some (sid, pid, p, user)) :
    ∃ alg key nonce x pt, openArgs C ctx mode b = some (alg, key, nonce, x) ∧
      C.openB alg key nonce [] x = some pt ∧ x <:+ b ∧
      p = (match xAlg ctx.kind with | none => pt | some _ => pt.drop 16) ∧
      pid = (match xAlg ctx.kind with | none => rdBE (nonce.drop 4) | some _ => rdBE ((pt.drop 8).take 8)) ∧
      ((xAlg ctx.kind).isSome → nonce = b.take 24 ∧ x = b.drop 24) := by
  unfold opened22 at h
  unfold openArgs
  cases hx : xAlg ctx.kind with
  | none =>
    simp only [hx] at h ⊢
    by_cases hreq : mode = .server ∧ ctx.kind.supportEih = true ∧ ctx.users.length > 0
    · rw [if_pos hreq] at h ⊢
      cases hu : findUser ctx.users (xorBytes (C.aesDec ctx.key ((b.drop 16).take 16)) (C.aesDec ctx.key (b.take 16))) with
      | none => simp only [hu] at h; cases h
      | some u =>
        simp only [hu] at h ⊢
        cases ho : C.openB ctx.kind.alg (aesSessionKey C ctx.kind u.key (rdBE ((C.aesDec ctx.key (b.take 16)).take 8)))
            ((C.aesDec ctx.key (b.take 16)).drop 4) [] ((b.drop 16).drop 16) with
        | none => simp only [ho, Option.map_none] at h; cases h
        | some pt =>
          simp only [ho, Option.map_some, Option.some.injEq, Prod.mk.injEq] at h
          exact ⟨_, _, _, _, pt, rfl, ho, (List.drop_suffix _ _).trans (List.drop_suffix _ _), h.2.2.1.symm,
            by rw [← h.2.1, List.drop_drop], by simp⟩
    · rw [if_neg hreq] at h ⊢
      cases ho : C.openB ctx.kind.alg (aesSessionKey C ctx.kind ctx.key (rdBE ((C.aesDec ctx.key (b.take 16)).take 8)))
          ((C.aesDec ctx.key (b.take 16)).drop 4) [] (b.drop 16) with
      | none => simp only [ho, Option.map_none] at h; cases h
      | some pt =>
        simp only [ho, Option.map_some, Option.some.injEq, Prod.mk.injEq] at h
        exact ⟨_, _, _, _, pt, rfl, ho, List.drop_suffix _ _, h.2.2.1.symm, by rw [← h.2.1, List.drop_drop], by simp⟩
  | some xa =>
    simp only [hx] at h ⊢
    cases ho : C.openB xa (ctx.key.take 32) (b.take 24) [] (b.drop 24) with
    | none => simp only [ho, Option.map_none] at h; cases h
    | some pt =>
      simp only [ho, Option.map_some, Option.some.injEq, Prod.mk.injEq] at h
      exact ⟨_, _, _, _, pt, rfl, ho, List.drop_suffix _ _, h.2.2.1.symm, h.2.1.symm, fun _ => ⟨rfl, rfl⟩⟩

/-- the tail of an honest body parses to exactly its address and payload -/
theorem finishTail_honest (mode : Mode) (csid sid pid : Nat) (user : Option User) (pad : Bytes) (addr : Addr) (item : Bytes)
    (hacc : addr.Accepted) (hpad : pad.length < 65536) :
    finishTail mode csid sid pid user (be16 pad.length ++ (pad ++ (Socks5Addr.encode addr ++ item))) =
      .ok (item, addr, if mode = .client then ⟨csid, sid, pid, none⟩ else ⟨sid, 0, pid, user⟩) := by
  unfold finishTail
  simp only []
  have hpl : rdBE ((be16 pad.length ++ (pad ++ (Socks5Addr.encode addr ++ item))).take 2) = pad.length := by
    rw [List.take_left' (be16_length _)]; exact rdBE_be16 _ hpad
  rw [hpl, if_neg (by simp only [List.length_append, be16_length]; omega)]
  have hdp : (be16 pad.length ++ (pad ++ (Socks5Addr.encode addr ++ item))).drop (2 + pad.length) = Socks5Addr.encode addr ++ item := by
    rw [← List.drop_drop, List.drop_left' (be16_length _), List.drop_left]
  rw [hdp, c14_socks5_roundtrip addr item hacc]

theorem finish_honest (mode : Mode) (now sid pid : Nat) (d : Sent22) (user : Option User) (hacc : d.addr.Accepted)
    (hpad : d.r.padding.length < 65536) (r : Bytes × Addr × Session)
    (h : finish mode now sid pid d.body user = .ok r) :
    d.mode ≠ mode ∧ r.1 = d.item ∧ r.2.1 = d.addr ∧ r.2.2.packetId = pid := by
  unfold finish Sent22.body at h
  cases hdm : d.mode <;> cases mode <;> simp only [hdm] at h
  · -- a client's packet at a client: wrong type
    simp [Mode.toU8, Mode.expectU8] at h
  · -- a client's packet at the server
    simp only [Mode.toU8, Mode.expectU8, List.cons_append, List.nil_append, List.headD_cons, ne_eq, not_true_eq_false,
      if_false, List.drop_succ_cons, List.drop_zero, reduceCtorEq, List.append_assoc] at h
    split at h
    · cases h
    · have hd8 : (be64 d.r.now ++ (be16 d.r.padding.length ++ (d.r.padding ++ (Socks5Addr.encode d.addr ++ d.item)))).drop 8 =
          be16 d.r.padding.length ++ (d.r.padding ++ (Socks5Addr.encode d.addr ++ d.item)) := List.drop_left' (be64_length _)
      rw [hd8, finishTail_honest _ _ _ _ _ _ _ _ hacc hpad] at h
      cases h
      exact ⟨by simp, rfl, rfl, rfl⟩
  · -- a server's packet at a client
    simp only [Mode.toU8, Mode.expectU8, List.cons_append, List.nil_append, List.headD_cons, ne_eq, not_true_eq_false,
      if_false, if_true, List.drop_succ_cons, List.drop_zero, List.append_assoc] at h
    split at h
    · cases h
    · have hd16 : (be64 d.r.now ++ (be64 d.s.clientSessionId ++ (be16 d.r.padding.length ++ (d.r.padding ++ (Socks5Addr.encode d.addr ++ d.item))))).drop 16 =
          be16 d.r.padding.length ++ (d.r.padding ++ (Socks5Addr.encode d.addr ++ d.item)) := by
        rw [show (16 : Nat) = 8 + 8 from rfl, ← List.drop_drop, List.drop_left' (be64_length _), List.drop_left' (be64_length _)]
      rw [hd16, finishTail_honest _ _ _ _ _ _ _ _ hacc hpad] at h
      cases h
      exact ⟨by simp, rfl, rfl, rfl⟩
  · -- a server's packet at the server: wrong type
    simp [Mode.toU8, Mode.expectU8] at h

theorem Sent22.sidPid_length (d : Sent22) : d.sidPid.length = 16 := by
  unfold Sent22.sidPid; cases d.mode <;> simp

theorem Sent22.sidPid_drop8 (d : Sent22) : d.sidPid.drop 8 = be64 d.s.packetId := by
  unfold Sent22.sidPid; cases d.mode <;> exact List.drop_left' (be64_length _)

/-- on the XChaCha path the whole datagram is nonce ‖ sealed block -/
theorem encode_x (C : Crypto) (ctx : Ctx) (hk : ctx.kind.is2022 = true) (hx : (xAlg ctx.kind).isSome) (d : Sent22) :
    encode C ctx d.mode d.s d.addr d.item d.r = d.r.nonce ++ d.sealed C ctx := by
  unfold encode Sent22.sealed
  simp only [hk, not_true_eq_false, if_false]
  cases hxa : xAlg ctx.kind with
  | none => rw [hxa] at hx; cases hx
  | some xa => cases hm : d.mode <;> simp only [Sent22.sidPid, Sent22.body, hm]

/-- **C05, 2022 datagrams** (AES and XChaCha kinds, either receiver): whatever datagram `w'` arrives,
if the decoder releases anything then `w'` ends with the sealed block of one of the honestly sent
datagrams, that datagram was sent in the *opposite* direction (a datagram reflected to its sender or
spliced from the other direction is dropped), what is released is exactly its payload and address,
attributed to its packet id; on the XChaCha path `w'` *is* that datagram.  (On the AES path the first
16 bytes are an AES-ECB block outside the AEAD: the packet id and the low half of the session id are
bound through the nonce, the rest of the session id only through the key derivation.) -/
theorem c05_ss_udp_2022_tampered_dropped (C : Crypto) (ctx : Ctx) (hk : ctx.kind.is2022 = true) (mode : Mode) (now : Nat)
    (sent : List Sent22)
    (hacc : ∀ d ∈ sent, d.addr.Accepted ∧ d.r.padding.length < 65536 ∧ d.s.packetId < 2 ^ 64) (w' : Bytes)
    (hnf : NoForgery22 C ctx mode sent w')
    (p : Bytes) (a : Addr) (s : Session) (h : decode C ctx mode now w' = .ok (p, a, s)) :
    ∃ d ∈ sent, d.mode ≠ mode ∧ d.sealed C ctx <:+ w' ∧ p = d.item ∧ a = d.addr ∧ s.packetId = d.s.packetId ∧
      ((xAlg ctx.kind).isSome → w' = encode C ctx d.mode d.s d.addr d.item d.r) := by
  rw [decode_2022_eq C ctx hk] at h
  split at h
  · cases h
  cases hop : opened22 C ctx mode w' with
  | none => rw [hop] at h; cases h
  | some o =>
    obtain ⟨sid, pid, q, user⟩ := o
    rw [hop] at h
    simp only at h
    obtain ⟨alg, key, nonce, x, pt, hargs, hopen, hsuf, hq, hpid, hxw⟩ := opened22_inv C ctx mode w' sid pid q user hop
    obtain ⟨d, hd, hsa, hx, hpt⟩ := hnf alg key nonce x pt hargs hopen
    obtain ⟨hacc1, hacc2, hacc3⟩ := hacc d hd
    have hbody : q = d.body := by
      rw [hq, hpt]
      unfold Sent22.plain
      cases hxa : xAlg ctx.kind with
      | none => rfl
      | some xa => simp only; exact List.drop_left' d.sidPid_length
    have hpid' : pid = d.s.packetId := by
      rw [hpid]
      cases hxa : xAlg ctx.kind with
      | none =>
        have hn : nonce = d.sidPid.drop 4 := by
          have := congrArg (fun t => t.2.2) hsa
          simp only [Sent22.sealArgs, hxa] at this
          cases hm : d.mode <;> simp only [hm] at this <;> exact this
        simp only
        rw [hn, List.drop_drop, d.sidPid_drop8]
        exact rdBE_be64 _ (by simpa using hacc3)
      | some xa =>
        simp only
        rw [hpt]
        unfold Sent22.plain
        simp only [hxa]
        have : (d.sidPid ++ d.body).drop 8 = be64 d.s.packetId ++ d.body := by
          rw [List.drop_append_of_le_length (by rw [d.sidPid_length]; omega), d.sidPid_drop8]
        rw [this, List.take_left' (be64_length _)]
        exact rdBE_be64 _ (by simpa using hacc3)
    rw [hbody] at h
    obtain ⟨h1, h2, h3, h4⟩ := finish_honest mode now sid pid d user hacc1 hacc2 _ h
    refine ⟨d, hd, h1, hx ▸ hsuf, h2, h3, h4.trans hpid', ?_⟩
    intro hxs
    obtain ⟨hn, hxd⟩ := hxw hxs
    have hnonce : nonce = d.r.nonce := by
      have := congrArg (fun t => t.2.2) hsa
      simp only [Sent22.sealArgs] at this
      cases hxa : xAlg ctx.kind with
      | none => rw [hxa] at hxs; cases hxs
      | some xa => simp only [hxa] at this; exact this
    rw [encode_x C ctx hk hxs, ← hnonce, ← hx, hn, hxd, List.take_append_drop]

/-- a datagram releases something only if its AEAD block opens under the key and nonce derived from
its own header; with the integrity hypothesis: a datagram whose (key, nonce, block) is not that of an
honest datagram of the opposite direction releases nothing -/
theorem c05_ss_udp_2022_foreign_released_nothing (C : Crypto) (ctx : Ctx) (hk : ctx.kind.is2022 = true) (mode : Mode) (now : Nat)
    (sent : List Sent22)
    (hacc : ∀ d ∈ sent, d.addr.Accepted ∧ d.r.padding.length < 65536 ∧ d.s.packetId < 2 ^ 64) (w' : Bytes)
    (hnf : NoForgery22 C ctx mode sent w')
    (hne : ∀ d ∈ sent, d.mode ≠ mode → ¬ d.sealed C ctx <:+ w') : ∀ x, decode C ctx mode now w' ≠ .ok x := by
  intro ⟨p, a, s⟩ h
  obtain ⟨d, hd, hm, hw, _⟩ := c05_ss_udp_2022_tampered_dropped C ctx hk mode now sent hacc w' hnf p a s h
  exact hne d hd hm hw

/-- nothing is released unless the one block opens -/
theorem decode_2022_ok_opens (C : Crypto) (ctx : Ctx) (hk : ctx.kind.is2022 = true) (mode : Mode) (now : Nat) (w' : Bytes)
    (r : Bytes × Addr × Session) (h : decode C ctx mode now w' = .ok r) :
    ∃ alg key nonce x pt, openArgs C ctx mode w' = some (alg, key, nonce, x) ∧ C.openB alg key nonce [] x = some pt := by
  rw [decode_2022_eq C ctx hk] at h
  split at h
  · cases h
  cases hop : opened22 C ctx mode w' with
  | none => rw [hop] at h; cases h
  | some o =>
    obtain ⟨sid, pid, q, user⟩ := o
    obtain ⟨alg, key, nonce, x, pt, hargs, hopen, _⟩ := opened22_inv C ctx mode w' sid pid q user hop
    exact ⟨alg, key, nonce, x, pt, hargs, hopen⟩

/-! ### the codecs around `decode` release only what `decode` released -/

/-- `SessionCodec::decode` (server side) -/
theorem sessionDecode_some (C : Crypto) (ctx : Ctx) (mode : Mode) (now : Nat) (b : Bytes) (x : Bytes × Addr × Session)
    (h : sessionDecode C ctx mode now b = .ok (some x)) : decode C ctx mode now b = .ok x := by
  unfold sessionDecode at h
  split at h
  · cases h
  · split at h <;> simp_all

/-- `DatagramPacketCodec::decode` (client side), every kind -/
theorem clientCodec_some (C : Crypto) (ctx : Ctx) (cc : ClientCodec) (now : Nat) (b : Bytes) (out : Bytes × Addr)
    (h : (ClientCodec.decode C ctx cc now b).1 = .ok (some out)) :
    ∃ s, decode C ctx .client now b = .ok (out.1, out.2, s) := by
  unfold ClientCodec.decode at h
  split at h
  · simp at h
  · split at h
    · rename_i p a s hd
      refine ⟨s, ?_⟩
      split at h
      · simp only [Res.ok.injEq, Option.some.injEq] at h; rw [← h]; exact hd
      · split at h
        · simp at h
        · split at h
          split at h
          · simp at h
          · simp only [Res.ok.injEq, Option.some.injEq] at h; rw [← h]; exact hd
    · simp at h
    · simp at h

/-- **C05 at the server's session codec, 2022**: a datagram handed up is an honest client's -/
theorem c05_ss_udp_session_2022 (C : Crypto) (ctx : Ctx) (hk : ctx.kind.is2022 = true) (now : Nat)
    (sent : List Sent22) (hacc : ∀ d ∈ sent, d.addr.Accepted ∧ d.r.padding.length < 65536 ∧ d.s.packetId < 2 ^ 64) (w' : Bytes)
    (hnf : NoForgery22 C ctx .server sent w') (p : Bytes) (a : Addr) (s : Session)
    (h : sessionDecode C ctx .server now w' = .ok (some (p, a, s))) :
    ∃ d ∈ sent, d.mode = .client ∧ d.sealed C ctx <:+ w' ∧ p = d.item ∧ a = d.addr ∧ s.packetId = d.s.packetId := by
  obtain ⟨d, hd, hm, h1, h2, h3, h4, _⟩ :=
    c05_ss_udp_2022_tampered_dropped C ctx hk .server now sent hacc w' hnf p a s (sessionDecode_some C ctx _ now w' _ h)
  refine ⟨d, hd, ?_, h1, h2, h3, h4⟩
  cases hdm : d.mode
  · rfl
  · exact absurd hdm hm

/-- **C05 at the client's datagram codec, 2022**: a datagram delivered to the application is an
honest server's -/
theorem c05_ss_udp_client_2022 (C : Crypto) (ctx : Ctx) (hk : ctx.kind.is2022 = true) (cc : ClientCodec) (now : Nat)
    (sent : List Sent22) (hacc : ∀ d ∈ sent, d.addr.Accepted ∧ d.r.padding.length < 65536 ∧ d.s.packetId < 2 ^ 64) (w' : Bytes)
    (hnf : NoForgery22 C ctx .client sent w') (out : Bytes × Addr)
    (h : (ClientCodec.decode C ctx cc now w').1 = .ok (some out)) :
    ∃ d ∈ sent, d.mode = .server ∧ d.sealed C ctx <:+ w' ∧ out = (d.item, d.addr) := by
  obtain ⟨s, hdec⟩ := clientCodec_some C ctx cc now w' out h
  obtain ⟨d, hd, hm, hsuf, hp, ha, _⟩ := c05_ss_udp_2022_tampered_dropped C ctx hk .client now sent hacc w' hnf _ _ s hdec
  refine ⟨d, hd, ?_, hsuf, by rw [← hp, ← ha]⟩
  cases hdm : d.mode
  · exact absurd hdm hm
  · rfl

/-- **C05 at the client's datagram codec, legacy** -/
theorem c05_ss_udp_client_legacy (C : Crypto) (ctx : Ctx) (hk : ctx.kind.is2022 = false) (cc : ClientCodec) (now : Nat)
    (sent : List LegacySent) (hacc : ∀ d ∈ sent, d.addr.Accepted) (w' : Bytes) (hnf : LegacyNoForgery C ctx sent w')
    (out : Bytes × Addr) (h : (ClientCodec.decode C ctx cc now w').1 = .ok (some out)) :
    ∃ d ∈ sent, w' = d.wire C ctx ∧ out = (d.item, d.addr) := by
  obtain ⟨s, hdec⟩ := clientCodec_some C ctx cc now w' out h
  obtain ⟨d, hd, hw, hp, ha⟩ := c05_ss_udp_legacy_tampered_dropped C ctx hk .client now sent hacc w' hnf _ _ s hdec
  exact ⟨d, hd, hw, by rw [← hp, ← ha]⟩

/-! ### the hypotheses as computations, and non-vacuity (`Crypto.toyS`, lawful) -/

def legacyCheck (C : Crypto) (ctx : Ctx) (sent : List LegacySent) (w' : Bytes) : Bool :=
  match C.openB ctx.kind.alg (newAuth C ctx.kind ctx.key (w'.take ctx.kind.n)).key (nonceAt 0) [] (w'.drop ctx.kind.n) with
  | none => true
  | some pt => sent.any fun d => w'.take ctx.kind.n == d.salt && w'.drop ctx.kind.n == d.sealed C ctx && pt == d.plain

theorem legacyNoForgery_of_check (C : Crypto) (ctx : Ctx) (sent : List LegacySent) (w' : Bytes)
    (h : legacyCheck C ctx sent w' = true) : LegacyNoForgery C ctx sent w' := by
  intro pt ho
  unfold legacyCheck at h
  rw [ho] at h
  simp only [List.any_eq_true, Bool.and_eq_true, beq_iff_eq] at h
  obtain ⟨d, hd, ⟨h1, h2⟩, h3⟩ := h
  exact ⟨d, hd, h1, h2, h3⟩

def check22 (C : Crypto) (ctx : Ctx) (mode : Mode) (sent : List Sent22) (w' : Bytes) : Bool :=
  match openArgs C ctx mode w' with
  | none => true
  | some (alg, key, nonce, x) =>
    match C.openB alg key nonce [] x with
    | none => true
    | some pt => sent.any fun d => (alg, key, nonce) == d.sealArgs C ctx && x == d.sealed C ctx && pt == d.plain ctx

theorem noForgery22_of_check (C : Crypto) (ctx : Ctx) (mode : Mode) (sent : List Sent22) (w' : Bytes)
    (h : check22 C ctx mode sent w' = true) : NoForgery22 C ctx mode sent w' := by
  intro alg key nonce x pt ha ho
  unfold check22 at h
  rw [ha] at h
  simp only [ho, List.any_eq_true, Bool.and_eq_true, beq_iff_eq] at h
  obtain ⟨d, hd, ⟨h0, h1⟩, h2⟩ := h
  exact ⟨d, hd, h0, h1, h2⟩

namespace C05Ex

/-- flip the lowest bit of byte `i` -/
def flipBit (i : Nat) (s : Bytes) : Bytes := s.set i (s.getD i 0 ^^^ 1)

def exKey : Bytes := [9, 8, 7, 6, 5, 4, 3, 2, 1, 0, 1, 2, 3, 4, 5, 6]

/-! legacy kind: one honest datagram (16-byte salt ‖ 25-byte block) -/
def exCtxL : Ctx := { kind := .aes128, key := exKey }
def exSentL : LegacySent := ⟨[1, 2, 3, 4, 5, 6, 7, 8, 9, 10, 11, 12, 13, 14, 15, 16], .v4 [10, 0, 0, 1] 53, [42, 43]⟩
def exWireL : Bytes := exSentL.wire Crypto.toyS exCtxL

example : encode Crypto.toyS exCtxL .client {} exSentL.addr exSentL.item { salt := exSentL.salt } = exWireL :=
  legacy_encode_eq Crypto.toyS exCtxL rfl .client {} exSentL.addr exSentL.item { salt := exSentL.salt }
example : ∀ d ∈ [exSentL], d.addr.Accepted := by decide

-- the honest datagram: the hypothesis holds (the block opens, to the honest plaintext) and it is released
example : LegacyNoForgery Crypto.toyS exCtxL [exSentL] exWireL := legacyNoForgery_of_check _ _ _ _ (by decide +kernel)
example : decode Crypto.toyS exCtxL .server 0 exWireL = .ok ([42, 43], .v4 [10, 0, 0, 1] 53, {}) := by decide +kernel
-- one bit of the salt flipped (another sub-key), one bit of the tag flipped, the last byte cut off, a
-- byte appended: the hypothesis holds, the theorem applies, nothing is released
example : LegacyNoForgery Crypto.toyS exCtxL [exSentL] (flipBit 3 exWireL) := legacyNoForgery_of_check _ _ _ _ (by decide +kernel)
example : LegacyNoForgery Crypto.toyS exCtxL [exSentL] (flipBit 40 exWireL) := legacyNoForgery_of_check _ _ _ _ (by decide +kernel)
example : LegacyNoForgery Crypto.toyS exCtxL [exSentL] (exWireL.take 40) := legacyNoForgery_of_check _ _ _ _ (by decide +kernel)
example : LegacyNoForgery Crypto.toyS exCtxL [exSentL] (exWireL ++ [0]) := legacyNoForgery_of_check _ _ _ _ (by decide +kernel)
example : ∀ x, decode Crypto.toyS exCtxL .server 0 (flipBit 3 exWireL) ≠ .ok x :=
  c05_ss_udp_legacy_foreign_released_nothing Crypto.toyS exCtxL rfl .server 0 [exSentL] (by decide) _
    (legacyNoForgery_of_check _ _ _ _ (by decide +kernel)) (by decide +kernel)

/-! 2022 kinds: an honest client datagram and an honest server datagram of one association -/
def exCtxA : Ctx := { kind := .b3aes128, key := exKey }
def exCtxX : Ctx := { kind := .b3chacha20, key := exKey ++ exKey }
def exFromClient : Sent22 :=
  ⟨.client, { clientSessionId := 77, packetId := 1 }, .v4 [10, 0, 0, 1] 53, [42, 43],
    { padding := [0, 0, 0], now := 1000, nonce := List.replicate 24 (5 : UInt8) }⟩
def exFromServer : Sent22 :=
  ⟨.server, { clientSessionId := 77, serverSessionId := 99, packetId := 1 }, .v4 [10, 0, 0, 1] 53, [44],
    { now := 1001, nonce := List.replicate 24 (6 : UInt8) }⟩
def exSent : List Sent22 := [exFromClient, exFromServer]
def wireOf (ctx : Ctx) (d : Sent22) : Bytes := encode Crypto.toyS ctx d.mode d.s d.addr d.item d.r

example : ∀ d ∈ exSent, d.addr.Accepted ∧ d.r.padding.length < 65536 ∧ d.s.packetId < 2 ^ 64 := by decide

-- AES kind, at the server: the honest client datagram is released …
example : NoForgery22 Crypto.toyS exCtxA .server exSent (wireOf exCtxA exFromClient) := noForgery22_of_check _ _ _ _ _ (by decide +kernel)
example : decode Crypto.toyS exCtxA .server 1000 (wireOf exCtxA exFromClient) =
    .ok ([42, 43], .v4 [10, 0, 0, 1] 53, { clientSessionId := 77, packetId := 1 }) := by decide +kernel
-- … with one bit of the sealed block flipped it is dropped …
example : ∀ x, decode Crypto.toyS exCtxA .server 1000 (flipBit 20 (wireOf exCtxA exFromClient)) ≠ .ok x :=
  c05_ss_udp_2022_foreign_released_nothing Crypto.toyS exCtxA rfl .server 1000 exSent (by decide) _
    (noForgery22_of_check _ _ _ _ _ (by decide +kernel)) (by decide +kernel)
-- … and reflected to the client that sent it, the block *opens* (the hypothesis holds with the honest
-- datagram as witness) and the theorem says it is dropped all the same: it is of the same direction
example : NoForgery22 Crypto.toyS exCtxA .client exSent (wireOf exCtxA exFromClient) := noForgery22_of_check _ _ _ _ _ (by decide +kernel)
example : ∀ x, decode Crypto.toyS exCtxA .client 1000 (wireOf exCtxA exFromClient) ≠ .ok x := by
  intro ⟨p, a, s⟩ h
  obtain ⟨d, hd, hm, hsuf, _⟩ := c05_ss_udp_2022_tampered_dropped Crypto.toyS exCtxA rfl .client 1000 exSent (by decide) _
    (noForgery22_of_check _ _ _ _ _ (by decide +kernel)) p a s h
  have : ∀ d ∈ exSent, d.mode ≠ .client → ¬ d.sealed Crypto.toyS exCtxA <:+ wireOf exCtxA exFromClient := by decide +kernel
  exact this d hd hm hsuf
-- the honest server datagram is delivered at the client
example : decode Crypto.toyS exCtxA .client 1001 (wireOf exCtxA exFromServer) =
    .ok ([44], .v4 [10, 0, 0, 1] 53, { clientSessionId := 77, serverSessionId := 99, packetId := 1 }) := by decide +kernel

-- XChaCha kind: released at the server; dropped with a bit of the 24-byte nonce flipped; dropped when reflected
example : NoForgery22 Crypto.toyS exCtxX .server exSent (wireOf exCtxX exFromClient) := noForgery22_of_check _ _ _ _ _ (by decide +kernel)
example : decode Crypto.toyS exCtxX .server 1000 (wireOf exCtxX exFromClient) =
    .ok ([42, 43], .v4 [10, 0, 0, 1] 53, { clientSessionId := 77, packetId := 1 }) := by decide +kernel
-- (the flipped nonce byte is outside the sealed block; the theorem's last clause — on this path a
-- released datagram *is* an honest one — is what excludes it)
example : NoForgery22 Crypto.toyS exCtxX .server exSent (flipBit 5 (wireOf exCtxX exFromClient)) :=
  noForgery22_of_check _ _ _ _ _ (by decide +kernel)
example : ∀ x, decode Crypto.toyS exCtxX .server 1000 (flipBit 5 (wireOf exCtxX exFromClient)) ≠ .ok x := by
  intro ⟨p, a, s⟩ h
  obtain ⟨d, hd, _, _, _, _, _, hw⟩ := c05_ss_udp_2022_tampered_dropped Crypto.toyS exCtxX rfl .server 1000 exSent (by decide) _
    (noForgery22_of_check _ _ _ _ _ (by decide +kernel)) p a s h
  have : ∀ d ∈ exSent, flipBit 5 (wireOf exCtxX exFromClient) ≠ wireOf exCtxX d := by decide +kernel
  exact this d hd (hw rfl)
example : NoForgery22 Crypto.toyS exCtxX .client exSent (wireOf exCtxX exFromClient) := noForgery22_of_check _ _ _ _ _ (by decide +kernel)
example : decode Crypto.toyS exCtxX .client 1000 (wireOf exCtxX exFromClient) = .err := by decide +kernel

end C05Ex

end Octo.SsUdp
