import Octo.Model.SaltCache
import Octo.Model.Ss
import Octo.Model.Vmess
/-!
# C10 — stale, replayed, mis-typed or unbound handshakes are rejected
-/
namespace Octo.SaltCache

variable (maxDiff ttl cap : Nat)

/-- the cache holds `k`, last touched at `t0` or later -/
def Has (c : Cache) (k : Bytes) (t0 : Nat) : Prop := ∃ e ∈ c, e.key = k ∧ t0 ≤ e.touch

theorem has_any (c : Cache) (k : Bytes) (t0 : Nat) (h : Has c k t0) : c.any (fun e => e.key = k) = true := by
  obtain ⟨e, he, hk, _⟩ := h
  exact List.any_eq_true.mpr ⟨e, he, by simp [hk]⟩

theorem has_expire (c : Cache) (k : Bytes) (t0 now : Nat) (h : Has c k t0) (hn : now ≤ t0 + ttl) :
    Has (expire ttl now c) k t0 := by
  obtain ⟨e, he, hk, ht⟩ := h
  exact ⟨e, List.mem_filter.mpr ⟨he, by simp [live]; omega⟩, hk, ht⟩

/-- no capacity eviction happens while the history is processed (fewer than `cap` live salts) -/
inductive Calm : Cache → List (Nat × Bytes × Nat) → Prop
  | nil (c) : Calm c []
  | cons (c t s ts rest) : (expire ttl t c).length < cap → Calm (present maxDiff ttl cap c t s ts).2 rest →
      Calm c ((t, s, ts) :: rest)

theorem has_get (c : Cache) (k k' : Bytes) (t0 now : Nat) (h : Has c k t0) (hn : now ≤ t0 + ttl) (hm : t0 ≤ now) :
    Has (get ttl now c k').2 k t0 := by
  have h1 := has_expire ttl c k t0 now h hn
  unfold get
  simp only []
  split
  · by_cases hk : k' = k
    · subst hk; exact ⟨⟨k', now⟩, by simp, rfl, hm⟩
    · obtain ⟨e, he, hek, ht⟩ := h1
      exact ⟨e, List.mem_append_left _ (List.mem_filter.mpr ⟨he, by simp [hek]; exact fun a => hk a.symm⟩), hek, ht⟩
  · exact h1

theorem has_insert (c : Cache) (k k' : Bytes) (t0 now : Nat) (h : Has c k t0) (hn : now ≤ t0 + ttl) (hm : t0 ≤ now)
    (hcalm : (expire ttl now c).length < cap) :
    Has (insert ttl cap now c k').2 k t0 := by
  have h1 := has_expire ttl c k t0 now h hn
  unfold insert
  simp only []
  split
  · by_cases hk : k' = k
    · subst hk; exact ⟨⟨k', now⟩, by simp, rfl, hm⟩
    · obtain ⟨e, he, hek, ht⟩ := h1
      exact ⟨e, List.mem_append_left _ (List.mem_filter.mpr ⟨he, by simp [hek]; exact fun a => hk a.symm⟩), hek, ht⟩
  · rw [if_neg (by omega)]
    obtain ⟨e, he, hek, ht⟩ := h1
    exact ⟨e, List.mem_append_left _ he, hek, ht⟩

theorem expire_expire (c : Cache) (now : Nat) : expire ttl now (expire ttl now c) = expire ttl now c := by
  simp [expire, List.filter_filter]

theorem get_length_le (c : Cache) (now : Nat) (k : Bytes) : (expire ttl now (get ttl now c k).2).length ≤ (expire ttl now c).length := by
  unfold get
  simp only []
  split
  · rename_i hany
    -- one entry with key k is replaced by a fresh one
    simp only [expire, List.filter_append, List.length_append, List.filter_filter]
    have hmem : ∃ e ∈ c.filter (live ttl now), e.key = k := by
      obtain ⟨e, he, hk⟩ := List.any_eq_true.mp hany; exact ⟨e, he, by simpa using hk⟩
    obtain ⟨e, he, hk⟩ := hmem
    have h1 : (List.filter (fun a => live ttl now a && (decide (a.key ≠ k) && live ttl now a)) c).length + 1 ≤
        (List.filter (live ttl now) c).length := by
      have hsub : List.filter (fun a => live ttl now a && (decide (a.key ≠ k) && live ttl now a)) c =
          (List.filter (live ttl now) c).filter (fun a => decide (a.key ≠ k)) := by
        rw [List.filter_filter]; congr 1; funext a; cases live ttl now a <;> simp
      rw [hsub]
      have : ((List.filter (live ttl now) c).filter (fun a => decide (a.key ≠ k))).length <
          (List.filter (live ttl now) c).length := by
        apply List.length_filter_lt_length_iff_exists.mpr
        exact ⟨e, he, by simp [hk]⟩
      omega
    have h2 : (List.filter (live ttl now) [⟨k, now⟩]).length ≤ 1 := by
      simp only [List.filter_cons, List.filter_nil]; split <;> simp
    omega
  · rw [expire_expire]; exact Nat.le_refl _

/-- **replay, core**: once a salt is in the cache (accepted at or touched since `t0`), every later
presentation of that salt up to `t0 + ttl` is refused, whatever other requests arrive in between —
as long as the cache is not under capacity pressure -/
theorem replay_refused (k : Bytes) : ∀ (h : List (Nat × Bytes × Nat)) (c : Cache) (t0 : Nat),
    Has c k t0 → Calm maxDiff ttl cap c h →
    (∀ x ∈ h, t0 ≤ x.1 ∧ x.1 ≤ t0 + ttl) →
    ∀ (i t ts : Nat), h[i]? = some (t, k, ts) → (run maxDiff ttl cap c h)[i]? = some false := by
  intro h
  induction h with
  | nil => intro c t0 _ _ _ i t ts hi; simp at hi
  | cons x rest ih =>
    intro c t0 hHas hCalm hT i t ts hi
    obtain ⟨t', s', ts'⟩ := x
    have hT0 := hT (t', s', ts') List.mem_cons_self
    simp only at hT0
    cases hCalm with
    | cons _ _ _ _ _ hlen hrest =>
      -- the cache after this presentation still has k
      have hHas' : Has (present maxDiff ttl cap c t' s' ts').2 k t0 := by
        have hg := has_get ttl c k s' t0 t' hHas hT0.2 hT0.1
        unfold present
        split
        · exact hg
        · split
          · exact hg
          · exact has_insert ttl cap _ k s' t0 t' hg hT0.2 hT0.1
              (Nat.lt_of_le_of_lt (get_length_le ttl c t' s') hlen)
      cases i with
      | zero =>
        simp only [List.getElem?_cons_zero, Option.some.injEq, Prod.mk.injEq] at hi
        obtain ⟨rfl, rfl, rfl⟩ := hi
        simp only [run, List.getElem?_cons_zero, Option.some.injEq]
        unfold present
        have : (get ttl t' c s').1 = true := by
          unfold get; simp only []
          rw [if_pos (has_any _ _ _ (has_expire ttl c s' t0 t' hHas hT0.2))]
        simp [this]
      | succ j =>
        simp only [List.getElem?_cons_succ] at hi
        simp only [run, List.getElem?_cons_succ]
        exact ih _ t0 hHas' hrest (fun x hx => hT x (List.mem_cons_of_mem _ hx)) j t ts hi

/-- after a presentation was accepted, the salt is in the cache, touched at that instant -/
theorem accepted_has (c : Cache) (t : Nat) (s : Bytes) (ts : Nat)
    (h : (present maxDiff ttl cap c t s ts).1 = true) : Has (present maxDiff ttl cap c t s ts).2 s t := by
  unfold present at h ⊢
  split
  · rename_i h1; simp [h1] at h
  · split
    · rename_i h1 h2; simp [h1, h2] at h
    · simp only []
      unfold insert
      simp only []
      split <;> exact ⟨⟨s, t⟩, by simp, rfl, Nat.le_refl _⟩

/-- accepted ⇒ the timestamp is inside the window -/
theorem accepted_window (c : Cache) (t : Nat) (s : Bytes) (ts : Nat)
    (h : (present maxDiff ttl cap c t s ts).1 = true) : absDiff (t / 1000) ts ≤ maxDiff := by
  unfold present at h
  split at h
  · simp at h
  · split at h
    · simp at h
    · omega

theorem calm_prefix (c : Cache) (a b : List (Nat × Bytes × Nat)) (h : Calm maxDiff ttl cap c (a ++ b)) :
    Calm maxDiff ttl cap c a := by
  induction a generalizing c with
  | nil => exact Calm.nil c
  | cons x a ih =>
    obtain ⟨t, s, ts⟩ := x
    cases h with
    | cons _ _ _ _ _ hl hr => exact Calm.cons c t s ts a hl (ih _ hr)

theorem run_prefix (c : Cache) (a b : List (Nat × Bytes × Nat)) (i : Nat) (hi : i < a.length) :
    (run maxDiff ttl cap c a)[i]? = (run maxDiff ttl cap c (a ++ b))[i]? := by
  induction a generalizing c i with
  | nil => simp at hi
  | cons x a ih =>
    obtain ⟨t, s, ts⟩ := x
    cases i with
    | zero => simp [run]
    | succ j =>
      simp only [List.cons_append, run, List.getElem?_cons_succ]
      exact ih _ j (by simpa using hi)

theorem run_at (c : Cache) (mid : List (Nat × Bytes × Nat)) (x : Nat × Bytes × Nat) (post : List (Nat × Bytes × Nat)) :
    ∃ c2, (run maxDiff ttl cap c (mid ++ x :: post))[mid.length]? = some (present maxDiff ttl cap c2 x.1 x.2.1 x.2.2).1 := by
  induction mid generalizing c with
  | nil => obtain ⟨t, s, ts⟩ := x; exact ⟨c, by simp [run]⟩
  | cons y mid ih =>
    obtain ⟨t, s, ts⟩ := y
    obtain ⟨c2, h⟩ := ih (present maxDiff ttl cap c t s ts).2
    exact ⟨c2, by simpa [run] using h⟩

/-- **C10 (no replay)**: with a cache lifetime that covers the whole span in which a timestamp stays
acceptable (`ttl ≥ (2·maxDiff+1) s`), a request (salt `s`, timestamp `ts`) is accepted **at most
once** in any history of presentations at non-decreasing instants — after any delay, with any other
traffic in between (no capacity pressure). -/
theorem c10_no_replay (hT : (2 * maxDiff + 1) * 1000 ≤ ttl) (s : Bytes) (ts : Nat)
    (pre : List (Nat × Bytes × Nat)) (t1 : Nat) (mid : List (Nat × Bytes × Nat)) (t2 : Nat) (post : List (Nat × Bytes × Nat))
    (c : Cache)
    (hcalm : Calm maxDiff ttl cap c (pre ++ (t1, s, ts) :: (mid ++ (t2, s, ts) :: post)))
    (hmono : ∀ x ∈ mid, t1 ≤ x.1 ∧ x.1 ≤ t2) (h12 : t1 ≤ t2) :
    let r := run maxDiff ttl cap c (pre ++ (t1, s, ts) :: (mid ++ (t2, s, ts) :: post))
    ¬ (r[pre.length]? = some true ∧ r[pre.length + 1 + mid.length]? = some true) := by
  intro r
  -- peel the prefix
  suffices ∀ (pre : List (Nat × Bytes × Nat)) (c : Cache),
      Calm maxDiff ttl cap c (pre ++ (t1, s, ts) :: (mid ++ (t2, s, ts) :: post)) →
      ¬ ((run maxDiff ttl cap c (pre ++ (t1, s, ts) :: (mid ++ (t2, s, ts) :: post)))[pre.length]? = some true ∧
         (run maxDiff ttl cap c (pre ++ (t1, s, ts) :: (mid ++ (t2, s, ts) :: post)))[pre.length + 1 + mid.length]? = some true) from
    this pre c hcalm
  intro pre
  induction pre with
  | cons x pre ih =>
    intro c hc
    obtain ⟨t, s', ts'⟩ := x
    cases hc with
    | cons _ _ _ _ _ _ hrest =>
      simp only [List.cons_append, run, List.length_cons, List.getElem?_cons_succ]
      have := ih _ hrest
      rw [show pre.length + 1 + 1 + mid.length = (pre.length + 1 + mid.length) + 1 by omega]
      simpa using this
  | nil =>
    intro c hc
    simp only [List.nil_append, List.length_nil, Nat.zero_add, run, List.getElem?_cons_zero, Option.some.injEq]
    rintro ⟨hacc1, hacc2⟩
    rw [Nat.add_comm 1 mid.length, List.getElem?_cons_succ] at hacc2
    cases hc with
    | cons _ _ _ _ _ _ hrest =>
      have hHas := accepted_has maxDiff ttl cap c t1 s ts hacc1
      have hw1 := accepted_window maxDiff ttl cap c t1 s ts hacc1
      -- the second presentation is within ttl of the first
      have hidx : (mid ++ (t2, s, ts) :: post)[mid.length]? = some (t2, s, ts) := by simp
      -- window of the second: it was accepted, so inside the window too
      have hsecond_in : ∀ (c2 : Cache), (present maxDiff ttl cap c2 t2 s ts).1 = true →
          absDiff (t2 / 1000) ts ≤ maxDiff :=
        fun c2 h => accepted_window maxDiff ttl cap c2 t2 s ts h
      -- bound t2 ≤ t1 + ttl follows from both being in the window; prove by contradiction on the refusal
      by_cases hle : t2 ≤ t1 + ttl
      · -- split the list: elements of `mid` and the second presentation satisfy the time bound
        have key := replay_refused maxDiff ttl cap s (mid ++ [(t2, s, ts)]) (present maxDiff ttl cap c t1 s ts).2 t1 hHas
          (calm_prefix maxDiff ttl cap _ _ post (by simpa [List.append_assoc] using hrest))
          (by
            intro x hx
            rcases List.mem_append.mp hx with hx | hx
            · have := hmono x hx; omega
            · simp at hx; subst hx; simp only; omega)
          mid.length t2 ts (by simp)
        rw [run_prefix maxDiff ttl cap _ (mid ++ [(t2, s, ts)]) post mid.length (by simp)] at key
        have hrw : mid ++ [(t2, s, ts)] ++ post = mid ++ (t2, s, ts) :: post := by simp
        rw [hrw] at key
        rw [key] at hacc2
        cases hacc2
      · -- t2 > t1 + ttl contradicts both timestamps being in the window
        exfalso
        have hw2 : absDiff (t2 / 1000) ts ≤ maxDiff := by
          -- extract the cache in front of the second presentation
          obtain ⟨c2, hc2⟩ := run_at maxDiff ttl cap (present maxDiff ttl cap c t1 s ts).2 mid (t2, s, ts) post
          rw [hc2] at hacc2
          simp only [Option.some.injEq] at hacc2
          exact hsecond_in c2 hacc2
        have : t2 / 1000 ≤ t1 / 1000 + 2 * maxDiff := by
          unfold absDiff at hw1 hw2
          split at hw1 <;> split at hw2 <;> omega
        have : t2 < (t1 / 1000 + 2 * maxDiff + 1) * 1000 := by omega
        omega

end Octo.SaltCache

namespace Octo

/-- the lifetime extracted from the source covers the acceptance span extracted from the source -/
theorem c10_ttl_covers_window : (2 * Consts.ssMaxTimeDiff + 1) * 1000 ≤ Consts.ssSaltTtl * 1000 := by decide

/-- why it must: with the former 30 s lifetime the same request (timestamp 1030) presented at
second 1000 and again at second 1031 is accepted twice -/
example : SaltCache.run 30 30000 102400 [] [(1000000, [1, 2, 3], 1030), (1031000, [1, 2, 3], 1030)] = [true, true] := by decide
/-- … and with the lifetime in the source today it is refused, as `c10_no_replay` proves in general -/
example : SaltCache.run Consts.ssMaxTimeDiff (Consts.ssSaltTtl * 1000) Consts.ssSaltCapacity []
    [(1000000, [1, 2, 3], 1030), (1031000, [1, 2, 3], 1030)] = [true, false] := by decide

/-- **C10 (time and type, Shadowsocks 2022)**: whatever the bytes, a request/response is accepted
(`take`) only if its type byte is the expected one (0 = client request at a server, 1 = server
response at a client) and its timestamp is within `ssMaxTimeDiff` (30) seconds of the clock; and
a client accepts only a response that echoes its own request salt. -/
theorem c10_ss2022_accept_conditions (C : Crypto) (env : Ss.DecEnv) (d : Ss.Dec) (s : Ss.Sess) (b : Bytes)
    (n headerLen rsl : Nat) (salt : Bytes) (a : Ss.Auth) (h : Bytes) (d' : Ss.Dec) (k : Nat) (o : List Ss.Ev)
    (hacc : Ss.init2022Tail C env d s b n headerLen rsl salt a h = .take d' k o) :
    h.headD 0 = s.mode.expectU8 ∧ Ss.absDiff env.now (rdBE ((h.drop 1).take 8)) ≤ Consts.ssMaxTimeDiff ∧
      (s.mode = .client → (h.drop 9).take rsl = s.salt) := by
  unfold Ss.init2022Tail at hacc
  by_cases h1 : h.headD 0 ≠ s.mode.expectU8
  · rw [if_pos h1] at hacc; cases hacc
  rw [if_neg h1] at hacc
  simp only [] at hacc
  by_cases h2 : Ss.absDiff env.now (rdBE ((h.drop 1).take 8)) > Consts.ssMaxTimeDiff
  · rw [if_pos h2] at hacc; cases hacc
  rw [if_neg h2] at hacc
  by_cases h3 : s.mode = .client ∧ (h.drop 9).take rsl ≠ s.salt
  · rw [if_pos h3] at hacc; cases hacc
  refine ⟨by simpa using h1, by omega, ?_⟩
  intro hm
  by_cases hne : (h.drop 9).take rsl = s.salt
  · exact hne
  · exact absurd ⟨hm, hne⟩ h3

/-- **C10 (VMess token window)**: an authentication token is honoured only under a registered key,
with a valid checksum, and a timestamp within `vmessAuthWindow` (120) seconds of the clock -/
theorem c10_vmess_window (C : Crypto) (authId : Bytes) (keys : List Bytes) (now : Nat) (key : Bytes)
    (h : Vmess.authIdMatch C authId keys now = some key) :
    key ∈ keys ∧
      (let cur := C.aesDec (Vmess.kdf16 C key [Vmess.saltAuthId]) authId
       rdBE (cur.drop 12) = C.crc32 (cur.take 12) ∧
       (Vmess.i64 (cur.take 8) - (now : Int)).natAbs ≤ Consts.vmessAuthWindow) := by
  unfold Vmess.authIdMatch at h
  have hm := List.mem_of_find?_eq_some h
  have hp := List.find?_some h
  simp only [Bool.and_eq_true, decide_eq_true_eq] at hp
  exact ⟨hm, hp.1, hp.2⟩

/-- **C10 (VMess response binding)**: a client moves on to the response body only if the response
header opened under keys derived from *its own* request key/IV and carries its own response byte -/
theorem c10_vmess_client_binding (C : Crypto) (c : Vmess.Client) (s : Vmess.Session) (buf : Bytes)
    (hd : c.dec = none) (hs : c.session = some s) (hne : buf.isEmpty = false)
    (hprog : (Vmess.Client.decode C c buf).st.dec.isSome) :
    ∃ hl hdr, C.openB .aes128gcm (Vmess.kdf16 C (s.respKey C) [Vmess.saltRespLenKey]) (Vmess.kdfn C 12 (s.respIv C) [Vmess.saltRespLenIv]) []
        (buf.take 18) = some hl ∧
      C.openB .aes128gcm (Vmess.kdf16 C (s.respKey C) [Vmess.saltRespKey]) (Vmess.kdfn C 12 (s.respIv C) [Vmess.saltRespIv]) []
        ((buf.drop 18).take (rdBE hl + 16)) = some hdr ∧ hdr.head? = some s.respHeader := by
  unfold Vmess.Client.decode at hprog
  rw [hne] at hprog
  simp only [Bool.false_eq_true, if_false, hd, hs] at hprog
  by_cases h1 : buf.length < 18
  · rw [if_pos h1] at hprog; simp [hd] at hprog
  rw [if_neg h1] at hprog
  cases hlb : C.openB .aes128gcm (Vmess.kdf16 C (s.respKey C) [Vmess.saltRespLenKey]) (Vmess.kdfn C 12 (s.respIv C) [Vmess.saltRespLenIv]) [] (buf.take 18) with
  | none => rw [hlb] at hprog; simp [hd] at hprog
  | some lb =>
    rw [hlb] at hprog
    simp only [] at hprog
    by_cases h2 : buf.length - 18 < rdBE lb + 16
    · rw [if_pos h2] at hprog; simp [hd] at hprog
    rw [if_neg h2] at hprog
    cases hh : C.openB .aes128gcm (Vmess.kdf16 C (s.respKey C) [Vmess.saltRespKey]) (Vmess.kdfn C 12 (s.respIv C) [Vmess.saltRespIv]) [] ((buf.drop 18).take (rdBE lb + 16)) with
    | none => rw [hh] at hprog; simp [hd] at hprog
    | some hdr =>
      rw [hh] at hprog
      simp only [] at hprog
      by_cases h3 : hdr.head? ≠ some s.respHeader
      · rw [if_pos h3] at hprog; simp [hd] at hprog
      exact ⟨lb, hdr, rfl, hh, by simpa using h3⟩

end Octo
