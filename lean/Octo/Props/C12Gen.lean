import Octo.Proofs.NonceGen
import Octo.Props.C12
/-!
# C12 for the code itself: the two nonce generators of `codec/aead.rs`, translated statement by statement
on every run (`translate_nonce.py` → `Octo/Gen/NonceGen.lean`; exact `u8`/`u16`/`usize` semantics, slice and
index panics, the carry loop with its `break`), are the counters of the hand model.  Property theorems only.
-/
namespace Octo.NonceGen
open Octo Octo.PWGen

/-- **C12, Shadowsocks streams, for the code as translated from the Rust source**: in both build
profiles, for every `n`, call number `n` (0-based; i.e. the (n+1)-th call) of the generated
`IncreasingNonceGenerator` after `init()` does not panic and returns the 12-byte little-endian encoding of
`n` — the wire specification's `Spec.leNonce n` — which is also the state it leaves behind. -/
theorem c12_generated_increasing_is_counter (ov : Bool) (n : Nat) :
    ∃ g r, increasingNth ov n = PWGen.Res.ok (g, r) ∧
      r.toList = Spec.leNonce n ∧ g.nonce.toList = Spec.leNonce n ∧ g.WF := by
  refine ⟨_, _, increasingNth_eq ov n, ?_, ?_, ?_⟩
  · rw [spec_leNonce]
  · rw [spec_leNonce]
  · show (Nonce.le 12 n).toArray.size = 12
    simp [Nonce.le_length]

/-- hence any two different calls below `2^96` of one generated generator return different nonces
(`c12_ss_stream_nonces_distinct` transported to the generated code) -/
theorem c12_generated_increasing_distinct (ov : Bool) (i j : Nat) (hi : i < 2 ^ 96) (hj : j < 2 ^ 96) (hne : i ≠ j) :
    ∃ gi ri gj rj, increasingNth ov i = PWGen.Res.ok (gi, ri) ∧ increasingNth ov j = PWGen.Res.ok (gj, rj) ∧ ri ≠ rj := by
  obtain ⟨gi, ri, h1, h2, _⟩ := c12_generated_increasing_is_counter ov i
  obtain ⟨gj, rj, h3, h4, _⟩ := c12_generated_increasing_is_counter ov j
  refine ⟨gi, ri, gj, rj, h1, h3, fun h => ?_⟩
  apply c12_ss_stream_nonces_distinct i j hi hj hne
  rw [← h2, ← h4, h]

/-- **C12, VMess bodies, for the code as translated from the Rust source**: in both build profiles, for
every caller buffer `iv` with `2 ≤ iv.len()` and every `size ≤ iv.len()`, call number `n` (0-based) of the
generated `CountingNonceGenerator` after `new(size)` — all calls made on the same buffer, as the VMess
codec does — does not panic and returns the hand model's `Nonce.counting iv n size`
(= big-endian `n mod 65536` over the first two bytes of `iv`, cut to `size` bytes). -/
theorem c12_generated_counting_is_counter (ov : Bool) (size : Usize) (iv : Array UInt8) (n : Nat)
    (h2 : 2 ≤ iv.size) (hn : size.toNat ≤ iv.size) :
    ∃ g buf r, countingNth ov size iv n = PWGen.Res.ok (g, buf, r) ∧
      r.toList = Nonce.counting iv.toList n size.toNat ∧ g.count.toNat = (n + 1) % 65536 := by
  obtain ⟨g, buf, r, h, hr, _, hc, _⟩ := countingNth_eq ov size iv n h2 hn
  exact ⟨g, buf, r, h, hr, hc⟩

/-- hence (with `c12_vmess_counting_distinct`) two different calls below `2^16` on a VMess IV (at least 12
bytes, nonce size 12) return different nonces -/
theorem c12_generated_counting_distinct (ov : Bool) (iv : Array UInt8) (i j : Nat) (hiv : 12 ≤ iv.size)
    (hi : i < 65536) (hj : j < 65536) (hne : i ≠ j) :
    ∃ gi bi ri gj bj rj, countingNth ov 12 iv i = PWGen.Res.ok (gi, bi, ri) ∧
      countingNth ov 12 iv j = PWGen.Res.ok (gj, bj, rj) ∧ ri ≠ rj := by
  have h12 : (12 : Usize).toNat = 12 := rfl
  obtain ⟨gi, bi, ri, h1, h2, _⟩ := c12_generated_counting_is_counter ov 12 iv i (by omega) (by omega)
  obtain ⟨gj, bj, rj, h3, h4, _⟩ := c12_generated_counting_is_counter ov 12 iv j (by omega) (by omega)
  refine ⟨gi, bi, ri, gj, bj, rj, h1, h3, fun h => ?_⟩
  apply c12_vmess_counting_distinct iv.toList (by simpa using hiv) i j hi hj hne
  rw [h12] at h2 h4
  rw [← h2, ← h4, h]

/-! ## non-vacuity: the generated code evaluated -/

/-- third call (n = 2) after `init()`, overflow checks on: returns 02 00 … 00 -/
example : increasingNth true 2
    = PWGen.Res.ok (⟨#[2, 0, 0, 0, 0, 0, 0, 0, 0, 0, 0, 0]⟩, #[2, 0, 0, 0, 0, 0, 0, 0, 0, 0, 0, 0]) := by
  decide +kernel

/-- the Rust unit test `test_generate_increasing_nonce`: ff ff 00 … → 00 00 01 00 … (the carry loop and its `break`) -/
example : (⟨#[0xff, 0xff, 0, 0, 0, 0, 0, 0, 0, 0, 0, 0]⟩ : IncreasingNonceGenerator).generate false
    = PWGen.Res.ok (⟨#[0, 0, 1, 0, 0, 0, 0, 0, 0, 0, 0, 0]⟩, #[0, 0, 1, 0, 0, 0, 0, 0, 0, 0, 0, 0]) := by
  decide +kernel

/-- counting generator on a 16-byte IV, nonce size 12, call number 3; the hypotheses of
`c12_generated_counting_is_counter` hold for this instance -/
example : let iv : Array UInt8 := #[10, 11, 12, 13, 14, 15, 16, 17, 18, 19, 20, 21, 22, 23, 24, 25]
    (2 ≤ iv.size ∧ (12 : Usize).toNat ≤ iv.size) ∧
    countingNth true 12 iv 3 = PWGen.Res.ok (⟨4, 12⟩,
      #[0, 3, 12, 13, 14, 15, 16, 17, 18, 19, 20, 21, 22, 23, 24, 25],
      #[0, 3, 12, 13, 14, 15, 16, 17, 18, 19, 20, 21]) := by
  decide +kernel

/-- the `u16` wrap (`overflowing_add(1).0`), overflow checks on: from count 0xfffe the third call hands out
count 0 and leaves count 1, without a panic -/
example : countingCall true 2 ⟨0xfffe, 12⟩ #[10, 11, 12, 13, 14, 15, 16, 17, 18, 19, 20, 21, 22, 23, 24, 25]
    = PWGen.Res.ok (⟨1, 12⟩,
      #[0, 0, 12, 13, 14, 15, 16, 17, 18, 19, 20, 21, 22, 23, 24, 25],
      #[0, 0, 12, 13, 14, 15, 16, 17, 18, 19, 20, 21]) := by
  decide +kernel

/-- the two panics of `CountingNonceGenerator::generate`: a 1-byte buffer; nonce size 12 on an 8-byte buffer -/
example : (⟨0, 12⟩ : CountingNonceGenerator).generate false #[7] = PWGen.Res.panic ∧
    (⟨0, 12⟩ : CountingNonceGenerator).generate false #[1, 2, 3, 4, 5, 6, 7, 8] = PWGen.Res.panic := by
  decide +kernel

end Octo.NonceGen
