import Octo.Model.Listener
import Octo.Props.C07
/-!
# C08 — one failing or hostile flow never takes the service down for others

Two ingredients.  (1) Decoders never panic (C07) and a decode error is an `Err` value that ends that
flow only.  (2) The loops: every fault of the catalogue is confined to the flow's own task or is
logged in an arm that returns to the top of the loop (`Octo.Listener.step`).  The theorem is then
immediate *for this abstraction*; its content lies in the abstraction being faithful, which the
fault-injection runs check on the real loops (each fault, pairs, random sequences, each followed by
canary flows).  The old dispositions (`stepOld`) are kept with their counterexamples.
-/
namespace Octo.Listener

/-- **C08**: after any finite sequence of faults the service still serves -/
theorem c08_alive (faults : List Fault) : (run step {} faults).serves = true := by
  induction faults with
  | nil => rfl
  | cons f fs ih => simpa [run, step] using ih

/-- the fault-handling of a datagram reader: a refused datagram leaves nothing behind (so the next
poll reads the next datagram) — proved of the codec itself, see C07 -/
theorem c08_refused_datagram_leaves_nothing (b : Bytes) : (Socks5.udpDecode b).buf = [] :=
  c07_socks5_udp_drops_whole b

/-! the same statement is **false** of the code before the repairs: minimal histories -/

theorem c08_old_accept_error_ends_listener : (run stepOld {} [.acceptError]).serves = false := by decide
theorem c08_old_tls_stall_blocks_listener : (run stepOld {} [.tlsStall]).serves = false := by decide
theorem c08_old_replay_then_any_datagram_ends_udp : (run stepOld {} [.udpReplay, .udpGarbage]).serves = false := by decide
theorem c08_old_local_datagram_wedges_client : (run stepOld {} [.localUdpGarbage]).serves = false := by decide
theorem c08_old_unreachable_server_ends_client_udp : (run stepOld {} [.outboundFail]).serves = false := by decide
theorem c08_old_stalled_binding_blocks_client_udp : (run stepOld {} [.bindingStall]).serves = false := by decide
theorem c08_old_flood_deadlocks_udp_loop : (run stepOld {} [.udpFlood]).serves = false := by decide
theorem c08_old_silent_resolver_blocks_workers : (run stepOld {} [.resolverStall]).serves = false := by decide

end Octo.Listener
