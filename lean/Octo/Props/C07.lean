import Octo.Model.Ss
import Octo.Model.Vmess
import Octo.Model.Trojan
import Octo.Model.Socks5
import Octo.Props.C14
import Octo.Model.SsUdp
/-!
# C07 — no input from the network can crash a task or the process

In the models a Rust panic is the outcome `Res.panic` (produced by the `Buf` cursor reads, slice
indexing, explicit `panic!`).  Each theorem: for **every** decoder state and **every** input bytes
the outcome is `ok` / `more` / `err`, never `panic` — including states reached after arbitrary
earlier input and including decrypted ("authenticated but malformed") content, because the
statements quantify over the crypto `C` and over all states.
-/
namespace Octo

/-! ### address parsers -/

theorem c07_tryDecodeAt_total (b : Bytes) (at_ : Nat) (h : at_ + 1 < b.length) :
    Socks5Addr.tryDecodeAt b at_ ≠ .panic := by
  unfold Socks5Addr.tryDecodeAt
  have h1 : b[at_]? = some b[at_] := List.getElem?_eq_getElem (by omega)
  have h2 : b[at_ + 1]? = some b[at_ + 1] := List.getElem?_eq_getElem (by omega)
  rw [h1]; simp only []
  split
  · simp
  · split
    · rw [h2]; simp
    · split <;> simp

/-- under the length guard of `check_header_length` the VMess address reader cannot panic -/
theorem c07_vmess_read_total (u : Bytes → Bool) (b : Bytes)
    (hlen : 3 ≤ b.length)
    (hty : (b.getD 2 0).toNat = 1 ∨ (b.getD 2 0).toNat = 2 ∨ (b.getD 2 0).toNat = 3)
    (h1 : (b.getD 2 0).toNat = 1 → 3 + 4 ≤ b.length)
    (h2 : (b.getD 2 0).toNat = 2 → 4 ≤ b.length ∧ 4 + (b.getD 3 0).toNat ≤ b.length)
    (h3 : (b.getD 2 0).toNat = 3 → 3 + 16 ≤ b.length) :
    VmessAddr.read u b ≠ .panic := by
  match b, hlen with
  | p0 :: p1 :: t :: rest, _ =>
    simp only [List.getD_cons_succ, List.getD_cons_zero] at hty h1 h2 h3
    unfold VmessAddr.read
    simp only [Buf.getU16, Buf.getBE, Buf.getU8, Buf.take, bind, Res.bind, pure]
    simp only [List.length_cons] at h1 h2 h3 ⊢
    have e1 : (t = 1) ↔ t.toNat = 1 := by
      constructor
      · intro h; subst h; rfl
      · intro h; exact UInt8.toNat_inj.mp (by simpa using h)
    have e2 : (t = 2) ↔ t.toNat = 2 := by
      constructor
      · intro h; subst h; rfl
      · intro h; exact UInt8.toNat_inj.mp (by simpa using h)
    have e3 : (t = 3) ↔ t.toNat = 3 := by
      constructor
      · intro h; subst h; rfl
      · intro h; exact UInt8.toNat_inj.mp (by simpa using h)
    cases rest with
    | nil => grind
    | cons l rest =>
      simp only [List.getD_cons_succ, List.getD_cons_zero, List.length_cons] at h2
      grind

/-! ### SOCKS5 message decoders and the datagram codec -/

theorem c07_socks5_initial_request_total (b : Bytes) : Socks5.decodeInitialRequest b ≠ .panic := by
  unfold Socks5.decodeInitialRequest; repeat (first | split | simp)

theorem c07_socks5_initial_response_total (b : Bytes) : Socks5.decodeInitialResponse b ≠ .panic := by
  unfold Socks5.decodeInitialResponse; repeat (first | split | simp)

theorem c07_socks5_command_request_total (b : Bytes) : Socks5.decodeCommandRequest b ≠ .panic := by
  unfold Socks5.decodeCommandRequest
  split
  · simp
  · rename_i hl
    have ht := c07_tryDecodeAt_total b 3 (by omega)
    have hd := c14_socks5_decode_total (b.drop 3)
    split
    · repeat (first | split | simp_all)
    · simp_all
    · simp

theorem c07_socks5_command_response_total (b : Bytes) : Socks5.decodeCommandResponse b ≠ .panic := by
  unfold Socks5.decodeCommandResponse
  split
  · simp
  · rename_i hl
    have ht := c07_tryDecodeAt_total b 3 (by omega)
    have hd := c14_socks5_decode_total (b.drop 3)
    split
    · repeat (first | split | simp_all)
    · simp_all
    · simp

theorem c07_socks5_udp_total (b : Bytes) : (Socks5.udpDecode b).res ≠ .panic := by
  unfold Socks5.udpDecode
  have hd := c14_socks5_decode_total (b.drop 3)
  repeat (first | split | simp_all)

/-- and a refused datagram leaves nothing behind that could wedge the datagram reader (C08) -/
theorem c07_socks5_udp_drops_whole (b : Bytes) : (Socks5.udpDecode b).buf = [] := by
  unfold Socks5.udpDecode
  repeat (first | split | simp_all)

/-! ### Trojan -/

theorem c07_trojan_packet_total (b : Bytes) : Trojan.decodePacket b ≠ .panic := by
  unfold Trojan.decodePacket
  split
  · simp
  · rename_i hl
    have ht := c07_tryDecodeAt_total b 0 (by omega)
    have hd := c14_socks5_decode_total b
    split
    · repeat (first | split | simp_all)
    · simp_all
    · simp

theorem c07_trojan_client_total (b : Bytes) :
    (Trojan.clientDecodeTcp b).res ≠ .panic ∧ (Trojan.clientDecodeUdp b).res ≠ .panic := by
  have hp := c07_trojan_packet_total b
  constructor
  · unfold Trojan.clientDecodeTcp; split <;> simp
  · unfold Trojan.clientDecodeUdp; repeat (first | split | simp_all)

theorem c07_trojan_server_total (C : Crypto) (pw : Bytes) (st : Trojan.SrvSt) (b : Bytes) :
    (Trojan.serverDecode C pw st b).res ≠ .panic := by
  unfold Trojan.serverDecode
  split
  · simp
  · have hp := c07_trojan_packet_total
    cases st with
    | tcp => simp
    | udp =>
      simp only
      have := hp b
      repeat (first | split | simp_all)
    | header =>
      simp only
      split
      · simp
      · rename_i hl
        have ht := c07_tryDecodeAt_total b 59 (by omega)
        have hd := c14_socks5_decode_total (b.drop 59)
        split
        · split
          · simp
          · split
            · simp
            · split
              · simp
              · split
                · simp
                · split
                  · rename_i a rest heq
                    split
                    · simp
                    · split
                      · split
                        · simp
                        · have := hp (rest.drop 2)
                          repeat (first | split | simp_all)
                      · simp
                  · simp_all
                  · simp
        · simp_all
        · simp

end Octo

namespace Octo

/-! ### Shadowsocks TCP -/

/-- `AEADCipherCodec::decode` (any cipher, any mode, any state, any bytes) never panics: every
cursor read of the 2022 header path is behind a length guard, the address and padding of the
decrypted first chunk are validated before they are skipped -/
theorem c07_ss_cipher_total (C : Crypto) (ctx : Ss.Ctx) (env : Ss.DecEnv) (d : Ss.Dec) (b : Bytes) :
    (Ss.cipherDecode C ctx env d b).2.2 ≠ .panic := by
  unfold Ss.cipherDecode
  split
  · simp
  · split
    · split <;> simp
    · simp only []
      split
      · simp
      · split <;> simp

theorem c07_ss_client_total (C : Crypto) (ctx : Ss.Ctx) (env : Ss.DecEnv) (d : Ss.Dec) (b : Bytes) :
    (Ss.clientCall C ctx env d b).res ≠ .panic := by
  have h := c07_ss_cipher_total C ctx env d b
  unfold Ss.clientCall
  split <;> simp_all

theorem c07_ss_server_total (C : Crypto) (ctx : Ss.Ctx) (env : Ss.DecEnv) (s : Ss.SrvDec) (b : Bytes) :
    (Ss.serverCall C ctx env s b).res ≠ .panic := by
  have h := c07_ss_cipher_total C ctx env s.dec b
  unfold Ss.serverCall
  split
  · simp
  · simp
  · simp_all
  · rename_i d' b' o heq
    simp only []
    split
    · simp
    · split
      · simp
      · split
        · simp
        · rename_i hlen
          have ht := c07_tryDecodeAt_total (s.pending ++ Ss.Ev.bytes o) 0 (by omega)
          have hd := c14_socks5_decode_total (s.pending ++ Ss.Ev.bytes o)
          split
          · split
            · simp
            · split
              · simp
              · simp_all
              · simp
          · simp_all
          · simp

/-! ### VMess -/

theorem c07_vmess_openHeader_total (C : Crypto) (key src : Bytes) : Vmess.openHeader C key src ≠ .panic := by
  unfold Vmess.openHeader
  repeat (first | split | simp)

theorem c07_vmess_bodyDecode_total (C : Crypto) (cmd : Vmess.Cmd) (b : Vmess.Body) (buf : Bytes) :
    (Vmess.bodyDecode C cmd b buf).2.2 ≠ .panic := by
  unfold Vmess.bodyDecode
  cases cmd with
  | tcp => simp only []; repeat (first | split | simp)
  | udp =>
    simp only []
    -- fuel 3, unfolded
    simp only [Vmess.bodyDrainPacket]
    repeat (first | split | simp)

theorem c07_vmess_client_finish_total (C : Crypto) (c : Vmess.Client) (body : Vmess.Body) (b : Bytes) :
    (Vmess.Client.finish C c body b).res ≠ .panic := by
  have := c07_vmess_bodyDecode_total C c.cmd body b
  unfold Vmess.Client.finish
  simp only []
  split
  · simp
  · split <;> simp_all

theorem c07_vmess_client_total (C : Crypto) (c : Vmess.Client) (b : Bytes) :
    (Vmess.Client.decode C c b).res ≠ .panic := by
  have hf := c07_vmess_client_finish_total C
  unfold Vmess.Client.decode
  repeat (first | split | simp_all)

/-- the authenticated request header is validated before it is parsed: no content can panic the
parser (`check_header_length`) -/
theorem c07_vmess_parseRequest_total (C : Crypto) (u : Bytes → Bool) (h : Bytes) :
    Vmess.parseRequest C u h ≠ .panic := by
  unfold Vmess.parseRequest
  split
  · simp
  · rename_i hlen
    simp only []
    split
    · simp
    · rename_i al hal
      split
      · simp
      · rename_i hlen2
        split
        · simp
        · have hd0 : ∀ i, (h.drop 38).getD i 0 = h.getD (38 + i) 0 := by
            intro i; simp [List.getD_eq_getElem?_getD, List.getElem?_drop]
          have hd : ∀ i, i = 2 → (h.drop 38).getD i 0 = h.getD 40 0 := by intro i hi; subst hi; exact hd0 2
          have hd3 : (h.drop 38).getD 3 0 = h.getD 41 0 := hd0 3
          have hfacts : ((h.getD 40 0).toNat = 1 ∧ al = 4) ∨
              ((h.getD 40 0).toNat = 2 ∧ h.length > 41 ∧ al = 1 + (h.getD 41 0).toNat) ∨
              ((h.getD 40 0).toNat = 3 ∧ al = 16) := by
            by_cases t1 : (h.getD 40 0).toNat = 1
            · left; rw [if_pos t1] at hal; exact ⟨t1, (Option.some.inj hal).symm⟩
            · rw [if_neg t1] at hal
              by_cases t2 : (h.getD 40 0).toNat = 2
              · rw [if_pos t2] at hal
                by_cases hl : h.length > 41
                · rw [if_pos hl] at hal; right; left; exact ⟨t2, hl, (Option.some.inj hal).symm⟩
                · rw [if_neg hl] at hal; cases hal
              · rw [if_neg t2] at hal
                by_cases t3 : (h.getD 40 0).toNat = 3
                · rw [if_pos t3] at hal; right; right; exact ⟨t3, (Option.some.inj hal).symm⟩
                · rw [if_neg t3] at hal; cases hal
          have key : VmessAddr.read u (h.drop 38) ≠ .panic := by
            apply c07_vmess_read_total
            · simp only [List.length_drop]; omega
            · rw [hd 2 rfl]; show (h.getD 40 0).toNat = 1 ∨ _; omega
            · intro h1; simp only [List.length_drop]; rw [hd 2 rfl] at h1
              have : (h.getD 40 0).toNat = 1 := h1
              omega
            · intro h2; simp only [List.length_drop]; rw [hd 2 rfl] at h2; rw [hd3]
              have : (h.getD 40 0).toNat = 2 := h2
              show 4 ≤ _ ∧ 4 + (h.getD 41 0).toNat ≤ _
              omega
            · intro h3; simp only [List.length_drop]; rw [hd 2 rfl] at h3
              have : (h.getD 40 0).toNat = 3 := h3
              omega
          split
          · split <;> simp
          · simp_all
          · simp

theorem c07_vmess_server_total (C : Crypto) (u : Bytes → Bool) (now : Nat) (sv : Vmess.Server) (b : Bytes) :
    (Vmess.Server.decode C u now sv b).res ≠ .panic := by
  have hb := c07_vmess_bodyDecode_total C
  have ho := c07_vmess_openHeader_total C
  have hp := c07_vmess_parseRequest_total C u
  unfold Vmess.Server.decode
  split
  · rename_i r _
    split
    · simp
    · have := hb r.cmd r.dec b
      split <;> simp_all
  · split
    · simp
    · split
      · simp
      · rename_i key _
        have h1 := ho key b
        split
        · simp
        · rename_i h n _
          have h2 := hp h
          split
          · rename_i s mask sec cmd addr _
            simp only []
            cases cmd with
            | tcp => simp only []; split <;> simp
            | udp =>
              simp only []
              have := hb .udp (Vmess.Body.new C (Vmess.knownMask mask) sec s.reqKey s.reqIv s) (b.drop n)
              split <;> simp_all
          · simp_all
          · simp
        · simp_all
        · simp

/-! ### Shadowsocks datagram decoders (whole datagrams, server and client side) -/

/-- `AEADCipherCodec::decode` on a datagram: whatever arrives and whatever it decrypts to -/
theorem c07_ss_udp_decode_total (C : Crypto) (ctx : Ss.Ctx) (mode : Ss.Mode) (now : Nat) (b : Bytes) :
    SsUdp.decode C ctx mode now b ≠ .panic := by
  have hd := c14_socks5_decode_total
  unfold SsUdp.decode
  simp only []
  repeat' split
  all_goals first
    | (intro h; cases h; done)
    | (exfalso; exact hd _ ‹_›)
    | simp

/-- server side `SessionCodec::decode` -/
theorem c07_ss_udp_session_total (C : Crypto) (ctx : Ss.Ctx) (mode : Ss.Mode) (now : Nat) (b : Bytes) :
    SsUdp.sessionDecode C ctx mode now b ≠ .panic := by
  have h := c07_ss_udp_decode_total C ctx mode now b
  unfold SsUdp.sessionDecode
  split
  · simp
  · split <;> simp_all

/-- the client's `DatagramPacketCodec::decode`, in every codec state -/
theorem c07_ss_udp_client_total (C : Crypto) (ctx : Ss.Ctx) (cc : SsUdp.ClientCodec) (now : Nat) (b : Bytes) :
    (SsUdp.ClientCodec.decode C ctx cc now b).1 ≠ .panic := by
  have h := c07_ss_udp_decode_total C ctx .client now b
  unfold SsUdp.ClientCodec.decode
  split
  · simp
  · split
    · split
      · simp
      · split
        · simp
        · simp only []
          split <;> simp
    · simp_all
    · simp

end Octo

namespace Octo

/-! ### through the adapters: a decoder that never panics gives a stream that never panics -/

theorem frLoop_no_panic {σ : Type} (decode : σ → Bytes → Call σ) (h : ∀ s b, (decode s b).res ≠ .panic) :
    ∀ (fuel : Nat) (f : FrSt σ), FrEv.panic ∉ (frLoop decode fuel f).2 := by
  intro fuel
  induction fuel with
  | zero => intro f; simp [frLoop]
  | succ n ih =>
    intro f
    have := h f.st f.buf
    simp only [frLoop]
    split
    · simp only [List.mem_cons, not_or]; exact ⟨by simp, ih _⟩
    · simp
    · simp
    · simp_all

theorem frEofLoop_no_panic {σ : Type} (decode : σ → Bytes → Call σ) (h : ∀ s b, (decode s b).res ≠ .panic) :
    ∀ (fuel : Nat) (f : FrSt σ), FrEv.panic ∉ (frEofLoop decode fuel f).2 := by
  intro fuel
  induction fuel with
  | zero => intro f; simp [frEofLoop]
  | succ n ih =>
    intro f
    have := h f.st f.buf
    simp only [frEofLoop]
    split
    · simp only [List.mem_cons, not_or]; exact ⟨by simp, ih _⟩
    · split <;> simp
    · simp
    · simp_all

/-- **C07 at the adapter level**: whatever is read from the transport, in whatever pieces, with
end-of-stream at any point, and whatever WebSocket messages arrive — no `panic` event, for every
decoder whose `decode` is panic-free (all of the above) -/
theorem c07_adapters_total {σ : Type} (decode : σ → Bytes → Call σ) (h : ∀ s b, (decode s b).res ≠ .panic)
    (f : FrSt σ) (piece : Bytes) :
    FrEv.panic ∉ (frFeed decode f piece).2 ∧ FrEv.panic ∉ (frEof decode f).2 ∧ FrEv.panic ∉ (wsMsg decode f piece).2 := by
  refine ⟨?_, ?_, ?_⟩
  · unfold frFeed; split
    · simp
    · exact frLoop_no_panic decode h _ _
  · unfold frEof; split
    · simp
    · exact frEofLoop_no_panic decode h _ _
  · unfold wsMsg; split
    · simp
    · exact frLoop_no_panic decode h _ _

end Octo
