import Octo.Proofs.VmessStream
/-!
# C04 (VMess AEAD, the header layer): whole-connection round trip and segmentation independence
Property theorems only; the lemmas are in `Octo/Proofs/VmessStream.lean` (header layer) and
`Octo/Proofs/VmessBody.lean` (body codec).

`feedAll decode f pieces` = one socket read per piece, each followed by polling the `FramedRead`
(`frFeed`) until it is pending.  All statements are for every lawful `Crypto`, every option mask,
both ciphers, every payload and every segmentation.
-/
namespace Octo.Vmess
open Octo.Fr
open Octo.Trojan (evItems evData evClean feedAll)

/-! ## 1. the sealed request header -/

/-- **header round trip**: `open_header` on what `seal_header` produced (16-byte auth id, 8-byte
connection nonce, header shorter than 2¹⁶ — the exact bound, the length travels as a `u16`),
followed by anything, returns the header and consumes exactly the sealed header, which is
`16 + 18 + 8 + (len + 16)` bytes long -/
theorem c04_vmess_header_roundtrip (C : Crypto) (hC : C.Lawful) (key header authId connNonce tail : Bytes)
    (ha : authId.length = 16) (hn : connNonce.length = 8) (hl : header.length < 65536) :
    openHeader C key (sealHeader C key header authId connNonce ++ tail) =
        .ok (header, (sealHeader C key header authId connNonce).length) ∧
      (sealHeader C key header authId connNonce).length = 58 + header.length := by
  refine ⟨openHeader_sealHeader C hC key header authId connNonce tail ha hn hl, ?_⟩
  rw [sealHeader_length C hC, ha, hn]; omega

/-- **stability**: on every proper prefix of the sealed header the answer is `Ok(None)` -/
theorem c04_vmess_header_prefix_waits (C : Crypto) (hC : C.Lawful) (key header authId connNonce : Bytes)
    (ha : authId.length = 16) (hn : connNonce.length = 8) (hl : header.length < 65536)
    (n : Nat) (hlt : n < (sealHeader C key header authId connNonce).length) :
    openHeader C key ((sealHeader C key header authId connNonce).take n) = .more :=
  openHeader_prefix C hC key header authId connNonce ha hn hl n hlt

/-! ## 2. the auth id -/

/-- **auth id**: the token made from `key` at time `t` with (at least) 4 random bytes is matched to
`key` by a server whose clock is within 120 s of `t`, provided `t` fits an `i64`, the CRC-32 value
fits its 4 bytes, `key` is registered, and no key registered *before* it also accepts the token
(`FirstMatch`: AES-decrypting the token under that other key would have to give a valid CRC-32 and
an in-window timestamp).  `Lawful.aes_dec_enc` is what is used of AES. -/
theorem c04_vmess_auth_id (C : Crypto) (hC : C.Lawful) (key : Bytes) (t now : Nat) (rand : Bytes) (keys : List Bytes)
    (hr : 4 ≤ rand.length) (ht : t < 2 ^ 63) (hw1 : t ≤ now + 120) (hw2 : now ≤ t + 120)
    (hcrc : C.crc32 (be64 t ++ rand.take 4) < 4294967296)
    (hreg : FirstMatch C (authIdCreate C key t rand) now key keys) :
    authIdMatch C (authIdCreate C key t rand) keys now = some key := by
  obtain ⟨pre, post, hk, hpre⟩ := hreg.split
  rw [hk]
  exact authIdMatch_create C hC key t now rand pre post hr ht hw1 hw2 hcrc hpre

/-- for a single registered user the collision condition is vacuous -/
theorem c04_vmess_auth_id_single (C : Crypto) (hC : C.Lawful) (key : Bytes) (t now : Nat) (rand : Bytes)
    (hr : 4 ≤ rand.length) (ht : t < 2 ^ 63) (hw1 : t ≤ now + 120) (hw2 : now ≤ t + 120)
    (hcrc : C.crc32 (be64 t ++ rand.take 4) < 4294967296) :
    authIdMatch C (authIdCreate C key t rand) [key] now = some key :=
  c04_vmess_auth_id C hC key t now rand [key] hr ht hw1 hw2 hcrc (firstMatch_single C _ now key)

/-- outside the window the key that made the token does not accept it (so a single-user server
answers `Err`) -/
theorem c04_vmess_auth_id_expired (C : Crypto) (hC : C.Lawful) (key : Bytes) (t now : Nat) (rand : Bytes)
    (hr : 4 ≤ rand.length) (ht : t < 2 ^ 63) (hw : t + 120 < now ∨ now + 120 < t) :
    authIdMatch C (authIdCreate C key t rand) [key] now = none := by
  have hbuf : (be64 t ++ rand.take 4).length = 12 := by
    simp only [List.length_append, be64_length, List.length_take]; omega
  have h16 : (be64 t ++ rand.take 4 ++ be32 (C.crc32 (be64 t ++ rand.take 4))).length = 16 := by
    simp only [List.length_append, be32_length, hbuf]
  have h8 : (be64 t ++ rand.take 4 ++ be32 (C.crc32 (be64 t ++ rand.take 4))).take 8 = be64 t := by
    rw [List.append_assoc]; exact List.take_left' (be64_length t)
  have hi : i64 (be64 t) = (t : Int) := by
    unfold i64
    simp only [rdBE_be64 t (by omega)]
    rw [if_pos ht]
  rw [authIdMatch_eq, List.find?_cons]
  have : authIdAccepts C (authIdCreate C key t rand) now key = false := by
    unfold authIdAccepts authIdCreate
    simp only []
    rw [hC.aes_dec_enc _ _ h16, h8, hi]
    simp only [Bool.and_eq_false_imp, decide_eq_true_eq]
    intro _
    simp only [decide_eq_false_iff_not]
    have hW : Consts.vmessAuthWindow = 120 := rfl
    omega
  rw [this]; rfl

/-! ## 3. request direction: `Client.encodeFirst` / `encodeNext` → `FramedRead<Server.decode>` -/

/-- **Client → server (TCP), any segmentation.**  `c` is the client configuration (user key,
option mask, cipher, command `tcp`, target), `r` its randomness, `w :: ws` the items it writes
(each with its per-chunk padding lists); `ReqOk` collects the hypotheses on them and on the server
(`keys`, clock `now`, UTF-8 validator), `PadsOkAll` the one on the padding lists (vacuous without
global padding).  Then the client's encoder succeeds, and for **every** way of cutting its bytes
into reads the server, started with no state and an empty buffer, produces

* only items (no error, no panic, no end, no spin);
* exactly one `ConnectTcp`, the first item, carrying the target `c.addr` (its data may be empty:
  the server connects as soon as the header is decoded); every other item is `RelayTcp`;
* data that concatenate to exactly the items written;
* final buffer empty, not ended; the server is ready with the client's session, cipher and the five
  known option bits, no response encoder yet, and a body decoder synchronised with the client's
  body encoder; the next `decode` returns `Ok(None)` (*never stalls*). -/
theorem c04_vmess_request_framed (C : Crypto) (hC : C.Lawful) (utf8Ok : Bytes → Bool) (now : Nat) (keys : List Bytes)
    (c : Client) (r : ClientRand) (ok : ReqOk C utf8Ok now keys c r) (hcmd : c.cmd = .tcp)
    (w : Bytes × List Bytes) (ws : List (Bytes × List Bytes))
    (hp : Body.PadsOkAll C (Body.new C c.mask c.sec r.session.reqKey r.session.reqIv r.session) (w :: ws)) :
    ∃ wire c' e', Client.encodeAll C c r w ws = .ok (wire, c') ∧
      c' = { c with session := some r.session, enc := some e' } ∧
      ∀ pieces : List Bytes, pieces.flatten = wire →
        let F := feedAll (Server.decode C utf8Ok now) ⟨⟨keys, none⟩, [], false⟩ pieces
        evClean F.2 ∧
        (∃ d0 rest, evItems F.2 = ⟨.connect, d0, some c.addr⟩ :: rest ∧ ∀ i ∈ rest, i.kind = .data ∧ i.addr = none) ∧
        evData F.2 = ((w :: ws).map Prod.fst).flatten ∧
        F.1.buf = [] ∧ F.1.ended = false ∧
        (∃ d', Body.Sync e' d' ∧ F.1.st = srvReady keys .tcp (c.mask % 32) c.sec c.addr r.session d') ∧
        Server.decode C utf8Ok now F.1.st F.1.buf = ⟨F.1.st, [], .more⟩ := by
  refine ⟨_, _, _, Client.encodeAll_tcp C c r w ws ok.addr_ok hcmd, rfl, ?_⟩
  intro pieces hcut F
  obtain ⟨d', hs', hF, hcl, hit, hdat⟩ := srv_request_complete hC ok hcmd (w :: ws) hp pieces hcut
  have hF' : F.1 = ⟨srvReady keys .tcp (c.mask % 32) c.sec c.addr r.session d', [], false⟩ := hF
  have hst : d'.st = .padding := ((Body.sync_iff _ d').mp hs').2.2.2.2.2.2.2.2.2.2.2
  refine ⟨hcl, hit, hdat, by rw [hF'], by rw [hF'], ⟨d', hs', by rw [hF']⟩, ?_⟩
  rw [hF']
  exact (srv_twoPhase hC ok hcmd).idle d' [] (Body.unit_nil C d' hst)

/-- **Request direction never stalls, at every intermediate point.**  After any prefix `pre` of the
reads the stream is described by `After` (see its definition): while the sealed header is
incomplete the server has kept every byte and emitted **nothing**; afterwards its state and buffer
are those of the unit-level run of the body decoder over what followed the header, and the data of
the items (the `ConnectTcp` first) is exactly that run's output.  In both cases `decode` on what is
buffered returns `Ok(None)` and changes nothing: everything decodable has been handed out. -/
theorem c04_vmess_request_never_stalls (C : Crypto) (hC : C.Lawful) (utf8Ok : Bytes → Bool) (now : Nat) (keys : List Bytes)
    (c : Client) (r : ClientRand) (ok : ReqOk C utf8Ok now keys c r) (hcmd : c.cmd = .tcp)
    (w : Bytes × List Bytes) (ws : List (Bytes × List Bytes))
    (hp : Body.PadsOkAll C (Body.new C c.mask c.sec r.session.reqKey r.session.reqIv r.session) (w :: ws))
    (wire : Bytes) (c' : Client) (henc : Client.encodeAll C c r w ws = .ok (wire, c'))
    (pre post : List Bytes) (hcut : (pre ++ post).flatten = wire) :
    let F := feedAll (Server.decode C utf8Ok now) ⟨⟨keys, none⟩, [], false⟩ pre
    After C (⟨keys, none⟩ : Server) (srvReady keys .tcp (c.mask % 32) c.sec c.addr r.session) (reqSealed C c r)
        (Body.new C c.mask c.sec r.session.reqKey r.session.reqIv r.session) true .connect (some c.addr) pre.flatten F ∧
      Server.decode C utf8Ok now F.1.st F.1.buf = ⟨F.1.st, F.1.buf, .more⟩ := by
  intro F
  rw [Client.encodeAll_tcp C c r w ws ok.addr_ok hcmd] at henc
  simp only [Res.ok.injEq, Prod.mk.injEq] at henc
  rw [← henc.1] at hcut
  have h := srv_request_stream hC ok hcmd (w :: ws) hp pre post hcut
  refine ⟨h, (srv_twoPhase hC ok hcmd).after_idle pre.flatten post.flatten
    (Body.encodeAllP C (Body.new C c.mask c.sec r.session.reqKey r.session.reqIv r.session) (w :: ws)).1 ?_ _ h⟩
  rw [← hcut, List.flatten_append]

/-- **single piece = any pieces** (request direction): the final stream state and the data handed
out do not depend on the segmentation; in both runs the first item is the `ConnectTcp` for the target -/
theorem c04_vmess_request_single (C : Crypto) (hC : C.Lawful) (utf8Ok : Bytes → Bool) (now : Nat) (keys : List Bytes)
    (c : Client) (r : ClientRand) (ok : ReqOk C utf8Ok now keys c r) (hcmd : c.cmd = .tcp)
    (w : Bytes × List Bytes) (ws : List (Bytes × List Bytes))
    (hp : Body.PadsOkAll C (Body.new C c.mask c.sec r.session.reqKey r.session.reqIv r.session) (w :: ws))
    (wire : Bytes) (c' : Client) (henc : Client.encodeAll C c r w ws = .ok (wire, c'))
    (pieces : List Bytes) (hcut : pieces.flatten = wire) :
    let F := feedAll (Server.decode C utf8Ok now) ⟨⟨keys, none⟩, [], false⟩ pieces
    let F1 := feedAll (Server.decode C utf8Ok now) ⟨⟨keys, none⟩, [], false⟩ [wire]
    F.1 = F1.1 ∧ evData F.2 = evData F1.2 ∧
      (evItems F.2).head?.map (fun i => (i.kind, i.addr)) = some (.connect, some c.addr) ∧
      (evItems F1.2).head?.map (fun i => (i.kind, i.addr)) = some (.connect, some c.addr) := by
  intro F F1
  rw [Client.encodeAll_tcp C c r w ws ok.addr_ok hcmd] at henc
  simp only [Res.ok.injEq, Prod.mk.injEq] at henc
  rw [← henc.1] at hcut
  obtain ⟨d', hs', hF, _, ⟨d0, rest, hit, _⟩, hdat⟩ := srv_request_complete hC ok hcmd (w :: ws) hp pieces hcut
  obtain ⟨d1, hs1, hF1, _, ⟨d01, rest1, hit1, _⟩, hdat1⟩ := srv_request_complete hC ok hcmd (w :: ws) hp [wire]
    (by rw [← henc.1]; simp)
  have hd : d' = d1 := by
    rw [show d' = _ from hs', show d1 = _ from hs1]
  subst hd
  refine ⟨hF.trans hF1.symm, hdat.trans hdat1.symm, ?_, ?_⟩
  · show (evItems (feedAll _ _ _).2).head?.map _ = _
    rw [hit]; rfl
  · show (evItems (feedAll _ _ _).2).head?.map _ = _
    rw [hit1]; rfl

/-! ## 4. response direction: `Server.encode` → `FramedRead<Client.decode>` -/

/-- **Server → client (TCP), any segmentation.**  The server is ready for the session `s` (as the
request direction leaves it: no response encoder yet; `mask`, `sec` its view of the options), the
client has sent its request for the same session (`c.session = some s`, no response decoder yet),
and both agree on the cipher and on the five known option bits.  Then the server's encoder
succeeds, and for **every** segmentation of its bytes the client produces only `data` items whose
concatenation is exactly the items written; final buffer empty, not ended, the client's response
decoder synchronised with the server's response encoder, the next `decode` returns `Ok(None)`. -/
theorem c04_vmess_response_framed (C : Crypto) (hC : C.Lawful) (keys : List Bytes) (mask : Nat) (ad : Addr) (s : Session)
    (d : Body) (c : Client) (hc : c.cmd = .tcp) (hs : c.session = some s) (hd : c.dec = none)
    (hmask : mask % 32 = c.mask % 32)
    (w : Bytes × List Bytes) (ws : List (Bytes × List Bytes))
    (hp : Body.PadsOkAll C (Body.new C c.mask c.sec (s.respKey C) (s.respIv C) s) (w :: ws)) :
    ∃ wire e', Server.encodeAll C (srvReady keys .tcp mask c.sec ad s d) (w :: ws) =
        (.ok wire, srvReadyEnc keys .tcp mask c.sec ad s d e') ∧
      ∀ pieces : List Bytes, pieces.flatten = wire →
        let F := feedAll (Client.decode C) ⟨c, [], false⟩ pieces
        evClean F.2 ∧ (∀ i ∈ evItems F.2, i.kind = .data ∧ i.addr = none) ∧
        evData F.2 = ((w :: ws).map Prod.fst).flatten ∧
        F.1.buf = [] ∧ F.1.ended = false ∧
        (∃ d', Body.Sync e' d' ∧ F.1.st = cliReady c d') ∧
        Client.decode C F.1.st F.1.buf = ⟨F.1.st, [], .more⟩ := by
  refine ⟨_, _, Server.encodeAll_tcp C keys mask c.sec ad s d w ws, ?_⟩
  intro pieces hcut F
  obtain ⟨d', hs', hF, hcl, hit, hdat⟩ := cli_response_complete C hC c hc s hs hd mask hmask (w :: ws) hp pieces hcut
  have hF' : F.1 = ⟨cliReady c d', [], false⟩ := hF
  have hst : d'.st = .padding := ((Body.sync_iff _ d').mp hs').2.2.2.2.2.2.2.2.2.2.2
  refine ⟨hcl, hit, hdat, by rw [hF'], by rw [hF'], ⟨d', hs', by rw [hF']⟩, ?_⟩
  rw [hF']
  exact (cli_twoPhase C hC c hc s hs hd mask).idle d' [] (Body.unit_nil C d' hst)

/-- **Response direction never stalls, at every intermediate point** (see `After`): nothing at all
while the 38-byte response header is incomplete; afterwards exactly the output of the unit-level
run; `decode` on what is buffered returns `Ok(None)` and changes nothing. -/
theorem c04_vmess_response_never_stalls (C : Crypto) (hC : C.Lawful) (keys : List Bytes) (mask : Nat) (ad : Addr)
    (s : Session) (d : Body) (c : Client) (hc : c.cmd = .tcp) (hs : c.session = some s) (hd : c.dec = none)
    (hmask : mask % 32 = c.mask % 32)
    (w : Bytes × List Bytes) (ws : List (Bytes × List Bytes))
    (hp : Body.PadsOkAll C (Body.new C c.mask c.sec (s.respKey C) (s.respIv C) s) (w :: ws))
    (wire : Bytes) (sv' : Server)
    (henc : Server.encodeAll C (srvReady keys .tcp mask c.sec ad s d) (w :: ws) = (.ok wire, sv'))
    (pre post : List Bytes) (hcut : (pre ++ post).flatten = wire) :
    let F := feedAll (Client.decode C) ⟨c, [], false⟩ pre
    After C c (cliReady c) (respHeader C s mask) (Body.new C c.mask c.sec (s.respKey C) (s.respIv C) s) false .data none
        pre.flatten F ∧
      Client.decode C F.1.st F.1.buf = ⟨F.1.st, F.1.buf, .more⟩ := by
  intro F
  rw [Server.encodeAll_tcp C keys mask c.sec ad s d w ws] at henc
  simp only [Prod.mk.injEq, Res.ok.injEq] at henc
  rw [← henc.1] at hcut
  have h := cli_response_stream C hC c hc s hs hd mask hmask (w :: ws) hp pre post hcut
  refine ⟨h, (cli_twoPhase C hC c hc s hs hd mask).after_idle pre.flatten post.flatten
    (Body.encodeAllP C (Body.new C mask c.sec (s.respKey C) (s.respIv C) s) (w :: ws)).1 ?_ _ h⟩
  rw [← hcut, List.flatten_append]

/-- **single piece = any pieces** (response direction) -/
theorem c04_vmess_response_single (C : Crypto) (hC : C.Lawful) (keys : List Bytes) (mask : Nat) (ad : Addr)
    (s : Session) (d : Body) (c : Client) (hc : c.cmd = .tcp) (hs : c.session = some s) (hd : c.dec = none)
    (hmask : mask % 32 = c.mask % 32)
    (w : Bytes × List Bytes) (ws : List (Bytes × List Bytes))
    (hp : Body.PadsOkAll C (Body.new C c.mask c.sec (s.respKey C) (s.respIv C) s) (w :: ws))
    (wire : Bytes) (sv' : Server)
    (henc : Server.encodeAll C (srvReady keys .tcp mask c.sec ad s d) (w :: ws) = (.ok wire, sv'))
    (pieces : List Bytes) (hcut : pieces.flatten = wire) :
    let F := feedAll (Client.decode C) ⟨c, [], false⟩ pieces
    let F1 := feedAll (Client.decode C) ⟨c, [], false⟩ [wire]
    F.1 = F1.1 ∧ evData F.2 = evData F1.2 := by
  intro F F1
  rw [Server.encodeAll_tcp C keys mask c.sec ad s d w ws] at henc
  simp only [Prod.mk.injEq, Res.ok.injEq] at henc
  rw [← henc.1] at hcut
  obtain ⟨d', hs', hF, _, _, hdat⟩ := cli_response_complete C hC c hc s hs hd mask hmask (w :: ws) hp pieces hcut
  obtain ⟨d1, hs1, hF1, _, _, hdat1⟩ := cli_response_complete C hC c hc s hs hd mask hmask (w :: ws) hp [wire]
    (by rw [← henc.1]; simp)
  have hdd : d' = d1 := by
    rw [show d' = _ from hs', show d1 = _ from hs1]
  subst hdd
  exact ⟨hF.trans hF1.symm, hdat.trans hdat1.symm⟩

/-- **A response built for another session, different authentication byte** (unconditional).  The
client's session has the same request key / IV as the one the server answers — the response header
*opens* — but another `respHeader` byte.  Whatever the server wrote after the header (`W`) and
however the bytes are cut: the only events are one `Err` and the end of the stream; no item is
released, and the stream has ended. -/
theorem c04_vmess_response_wrong_byte (C : Crypto) (hC : C.Lawful) (c : Client) (s s' : Session)
    (hs : c.session = some s') (hd : c.dec = none)
    (hk : s'.reqKey = s.reqKey) (hi : s'.reqIv = s.reqIv) (hb : s'.respHeader ≠ s.respHeader)
    (mask : Nat) (W : Bytes) (pieces : List Bytes) (hcut : pieces.flatten = respHeader C s mask ++ W) :
    let F := feedAll (Client.decode C) ⟨c, [], false⟩ pieces
    F.2 = [.err, .ended] ∧ evItems F.2 = [] ∧ F.1.ended = true := by
  intro F
  have hH := respHeader_length C hC s mask
  have h := feedAll_hdr_err (Client.decode C) c (respHeader C s mask)
    (cli_hdr_more' C hC c s s' hs hd hk hi mask)
    (fun x => by rw [cli_hdr_wrong_byte C hC c s s' hs hd hk hi hb mask x])
    W pieces [] (by simp only [List.length_nil]; omega) (by simpa using hcut)
  have h1 : F.2 = [.err, .ended] := h.1
  exact ⟨h1, by rw [h1]; rfl, h.2⟩

/-- **A response built for another session, different request key / IV** — so the response keys
differ.  Under the integrity hypothesis that the length block the server sealed does not
authenticate under the client's response-length key / IV (`hrej`; for an AEAD this fails only with
negligible probability — it is the `NoForgery` assumption of C05 instantiated at this one block),
the same holds: one `Err`, end of stream, no item — already after the first 18 bytes. -/
theorem c04_vmess_response_wrong_keys (C : Crypto) (hC : C.Lawful) (c : Client) (s s' : Session)
    (hs : c.session = some s') (hd : c.dec = none)
    (hrej : C.openB .aes128gcm (kdf16 C (s'.respKey C) [saltRespLenKey]) (kdfn C 12 (s'.respIv C) [saltRespLenIv]) []
      (respLenBlock C s) = none)
    (mask : Nat) (W : Bytes) (pieces : List Bytes) (hcut : pieces.flatten = respHeader C s mask ++ W) :
    let F := feedAll (Client.decode C) ⟨c, [], false⟩ pieces
    F.2 = [.err, .ended] ∧ evItems F.2 = [] ∧ F.1.ended = true := by
  intro F
  have hL := respLenBlock_length C hC s
  have h := feedAll_hdr_err (Client.decode C) c (respLenBlock C s)
    (cli_len_more C hC c s s' hs hd)
    (fun x => by rw [cli_hdr_wrong_keys C hC c s s' hs hd hrej x])
    (respHdrBlock C s mask ++ W) pieces [] (by simp only [List.length_nil]; omega)
    (by rw [List.nil_append, hcut, respHeader, List.append_assoc])
  have h1 : F.2 = [.err, .ended] := h.1
  exact ⟨h1, by rw [h1]; rfl, h.2⟩

/-! ## the whole connection -/

/-- **Whole connection (TCP).**  The client writes `w :: ws`, the server decodes them (any
segmentation `p1`), answers `v :: vs` from the state it has reached, and the client — in the state
its own encoder left it — decodes the answer (any segmentation `p2`): the server receives exactly
what the client wrote behind one `ConnectTcp` for the target, the client receives exactly what the
server wrote, both buffers end empty and neither stream has ended. -/
theorem c04_vmess_connection (C : Crypto) (hC : C.Lawful) (utf8Ok : Bytes → Bool) (now : Nat) (keys : List Bytes)
    (c : Client) (r : ClientRand) (ok : ReqOk C utf8Ok now keys c r) (hcmd : c.cmd = .tcp) (hdec : c.dec = none)
    (w : Bytes × List Bytes) (ws : List (Bytes × List Bytes))
    (hp : Body.PadsOkAll C (Body.new C c.mask c.sec r.session.reqKey r.session.reqIv r.session) (w :: ws))
    (v : Bytes × List Bytes) (vs : List (Bytes × List Bytes))
    (hq : Body.PadsOkAll C (Body.new C c.mask c.sec (r.session.respKey C) (r.session.respIv C) r.session) (v :: vs)) :
    ∃ wire1 c', Client.encodeAll C c r w ws = .ok (wire1, c') ∧
      ∀ p1 : List Bytes, p1.flatten = wire1 →
        let F := feedAll (Server.decode C utf8Ok now) ⟨⟨keys, none⟩, [], false⟩ p1
        evClean F.2 ∧
        (∃ d0 rest, evItems F.2 = ⟨.connect, d0, some c.addr⟩ :: rest ∧ ∀ i ∈ rest, i.kind = .data ∧ i.addr = none) ∧
        evData F.2 = ((w :: ws).map Prod.fst).flatten ∧ F.1.buf = [] ∧ F.1.ended = false ∧
        ∃ wire2 sv', Server.encodeAll C F.1.st (v :: vs) = (.ok wire2, sv') ∧
          ∀ p2 : List Bytes, p2.flatten = wire2 →
            let G := feedAll (Client.decode C) ⟨c', [], false⟩ p2
            evClean G.2 ∧ (∀ i ∈ evItems G.2, i.kind = .data ∧ i.addr = none) ∧
            evData G.2 = ((v :: vs).map Prod.fst).flatten ∧ G.1.buf = [] ∧ G.1.ended = false := by
  obtain ⟨wire1, c', e', henc, hc', hall⟩ := c04_vmess_request_framed C hC utf8Ok now keys c r ok hcmd w ws hp
  refine ⟨wire1, c', henc, ?_⟩
  intro p1 hcut1 F
  obtain ⟨h1, h2, h3, h4, h5, ⟨d', _, hst⟩, _⟩ := hall p1 hcut1
  refine ⟨h1, h2, h3, h4, h5, ?_⟩
  have hst' : F.1.st = srvReady keys .tcp (c.mask % 32) c.sec c.addr r.session d' := hst
  have hc1 : c'.cmd = .tcp := by rw [hc']; exact hcmd
  have hs1 : c'.session = some r.session := by rw [hc']
  have hd1 : c'.dec = none := by rw [hc']; exact hdec
  have hm1 : c'.mask = c.mask := by rw [hc']
  have hsec1 : c'.sec = c.sec := by rw [hc']
  obtain ⟨wire2, e2, henc2, hall2⟩ := c04_vmess_response_framed C hC keys (c.mask % 32) c.addr r.session d' c' hc1 hs1 hd1
    (by rw [hm1]; omega) v vs (by rw [hm1, hsec1]; exact hq)
  rw [hsec1] at henc2
  refine ⟨wire2, _, by rw [hst']; exact henc2, ?_⟩
  intro p2 hcut2 G
  obtain ⟨g1, g2, g3, g4, g5, _, _⟩ := hall2 p2 hcut2
  exact ⟨g1, g2, g3, g4, g5⟩

/-! ## 6. UDP command: one datagram per chunk, boundaries preserved -/

/-- **Client → server (UDP), any segmentation.**  Command `udp`; every item is one datagram and goes
out as exactly one chunk (`PacketsOk`: it fits `packetLimit` and finds its padding; `toPackets` picks
the padding source `encode_packet` sees).  The client's encoder succeeds, and for **every**
segmentation the server's events are **exactly** one `RelayUdp` item per datagram, in order, with
`data` = the datagram (empty datagrams included) and `addr` = the target: nothing merged, nothing
split, nothing else.  Final buffer empty, not ended, body decoder synchronised with the client's
encoder, the next `decode` returns `Ok(None)`. -/
theorem c04_vmess_request_udp_framed (C : Crypto) (hC : C.Lawful) (utf8Ok : Bytes → Bool) (now : Nat) (keys : List Bytes)
    (c : Client) (r : ClientRand) (ok : ReqOk C utf8Ok now keys c r) (hcmd : c.cmd = .udp)
    (w : Bytes × List Bytes) (ws : List (Bytes × List Bytes))
    (hp : Body.PacketsOk C (Body.new C c.mask c.sec r.session.reqKey r.session.reqIv r.session) (toPackets (w :: ws))) :
    ∃ wire c' e', Client.encodeAll C c r w ws = .ok (wire, c') ∧
      c' = { c with session := some r.session, enc := some e' } ∧
      ∀ pieces : List Bytes, pieces.flatten = wire →
        let F := feedAll (Server.decode C utf8Ok now) ⟨⟨keys, none⟩, [], false⟩ pieces
        F.2 = (w :: ws).map (fun x => FrEv.item ⟨.udp, x.1, some c.addr⟩) ∧
        F.1.buf = [] ∧ F.1.ended = false ∧
        (∃ d', Body.Sync e' d' ∧ F.1.st = srvReady keys .udp (c.mask % 32) c.sec c.addr r.session d') ∧
        Server.decode C utf8Ok now F.1.st F.1.buf = ⟨F.1.st, [], .more⟩ := by
  obtain ⟨W, e', hW⟩ := Body.encodePackets_isSome C hC _ _ hp
  refine ⟨_, _, e', Client.encodeAll_udp C c r w ws ok.addr_ok hcmd W e' hW, rfl, ?_⟩
  intro pieces hcut F
  obtain ⟨d', hs', hF⟩ := srv_request_udp_complete hC ok hcmd _ hp W e' hW pieces hcut
  have hF' : F = _ := hF
  have hst : d'.st = .padding := ((Body.sync_iff _ d').mp hs').2.2.2.2.2.2.2.2.2.2.2
  rw [hF']
  refine ⟨?_, rfl, rfl, ⟨d', hs', rfl⟩, (srv_twoPhaseU hC ok hcmd).idle d' [] (Body.unit_nil C d' hst)⟩
  simp only [toPackets, List.map_map, Function.comp_def]

/-- **Server → client (UDP), any segmentation**: exactly one `udp` item per datagram, in order -/
theorem c04_vmess_response_udp_framed (C : Crypto) (hC : C.Lawful) (keys : List Bytes) (mask : Nat) (ad : Addr) (s : Session)
    (d : Body) (c : Client) (hc : c.cmd = .udp) (hs : c.session = some s) (hd : c.dec = none)
    (hmask : mask % 32 = c.mask % 32)
    (w : Bytes × List Bytes) (ws : List (Bytes × List Bytes))
    (hp : Body.PacketsOk C (Body.new C c.mask c.sec (s.respKey C) (s.respIv C) s) (toPackets (w :: ws))) :
    ∃ wire e', Server.encodeAll C (srvReady keys .udp mask c.sec ad s d) (w :: ws) =
        (.ok wire, srvReadyEnc keys .udp mask c.sec ad s d e') ∧
      ∀ pieces : List Bytes, pieces.flatten = wire →
        let F := feedAll (Client.decode C) ⟨c, [], false⟩ pieces
        F.2 = (w :: ws).map (fun x => FrEv.item ⟨.udp, x.1, none⟩) ∧
        F.1.buf = [] ∧ F.1.ended = false ∧
        (∃ d', Body.Sync e' d' ∧ F.1.st = cliReady c d') ∧
        Client.decode C F.1.st F.1.buf = ⟨F.1.st, [], .more⟩ := by
  have hp' := hp
  rw [← Body.new_mask_congr C mask c.mask hmask] at hp'
  obtain ⟨W, e', hW⟩ := Body.encodePackets_isSome C hC _ _ hp'
  refine ⟨_, e', Server.encodeAll_udp C keys mask c.sec ad s d w ws W e' hW, ?_⟩
  intro pieces hcut F
  obtain ⟨d', hs', hF⟩ := cli_response_udp_complete C hC c hc s hs hd mask hmask _ hp W e' hW pieces hcut
  have hF' : F = _ := hF
  have hst : d'.st = .padding := ((Body.sync_iff _ d').mp hs').2.2.2.2.2.2.2.2.2.2.2
  rw [hF']
  refine ⟨?_, rfl, rfl, ⟨d', hs', rfl⟩, (cli_twoPhaseU C hC c hc s hs hd mask).idle d' [] (Body.unit_nil C d' hst)⟩
  simp only [toPackets, List.map_map, Function.comp_def]

/-- **UDP never stalls, at every intermediate point** (request direction; see `AfterU`): after any
prefix of the reads, nothing while the sealed header is incomplete, afterwards exactly one item per
chunk completed so far; `decode` on what is buffered returns `Ok(None)` and changes nothing -/
theorem c04_vmess_request_udp_never_stalls (C : Crypto) (hC : C.Lawful) (utf8Ok : Bytes → Bool) (now : Nat)
    (keys : List Bytes) (c : Client) (r : ClientRand) (ok : ReqOk C utf8Ok now keys c r) (hcmd : c.cmd = .udp)
    (w : Bytes × List Bytes) (ws : List (Bytes × List Bytes))
    (hp : Body.PacketsOk C (Body.new C c.mask c.sec r.session.reqKey r.session.reqIv r.session) (toPackets (w :: ws)))
    (wire : Bytes) (c' : Client) (henc : Client.encodeAll C c r w ws = .ok (wire, c'))
    (pre post : List Bytes) (hcut : (pre ++ post).flatten = wire) :
    let F := feedAll (Server.decode C utf8Ok now) ⟨⟨keys, none⟩, [], false⟩ pre
    AfterU C (⟨keys, none⟩ : Server) (srvReady keys .udp (c.mask % 32) c.sec c.addr r.session) (reqSealed C c r)
        (Body.new C c.mask c.sec r.session.reqKey r.session.reqIv r.session) (fun o => ⟨.udp, o, some c.addr⟩)
        pre.flatten F ∧
      Server.decode C utf8Ok now F.1.st F.1.buf = ⟨F.1.st, F.1.buf, .more⟩ := by
  intro F
  obtain ⟨W, e', hW⟩ := Body.encodePackets_isSome C hC _ _ hp
  rw [Client.encodeAll_udp C c r w ws ok.addr_ok hcmd W e' hW] at henc
  simp only [Res.ok.injEq, Prod.mk.injEq] at henc
  rw [← henc.1] at hcut
  have h := srv_request_udp_stream hC ok hcmd _ hp W e' hW pre post hcut
  refine ⟨h, (srv_twoPhaseU hC ok hcmd).after_idle pre.flatten post.flatten W ?_ _ h⟩
  rw [← hcut, List.flatten_append]

/-! ## 7. non-vacuity: concrete instances (toy crypto), evaluated by the kernel -/

section Examples

theorem cut3 (w : Bytes) (i j : Nat) : [w.take i, (w.drop i).take j, (w.drop i).drop j].flatten = w := by
  simp only [List.flatten_cons, List.flatten_nil, List.append_nil, List.take_append_drop]

/-- With `Crypto.toy` the VMess KDF does not depend on the user key (its `sha256` keeps only the
first 32 bytes of the message, which are the outer HMAC pad of the *constant* innermost key), so
under it every registered user accepts every auth id.  For the two-user examples we therefore use a
second lawful toy instance whose `sha256` mixes every byte of the message. -/
def toyHash (m : Bytes) : Bytes :=
  let s : UInt8 := m.foldl (fun a x => a * 31 + x + 1) 5
  (List.range 32).map fun i => if i = 0 then s else 2 * s + UInt8.ofNat (i * 17)

def toyH : Crypto := { Crypto.toy with sha256 := toyHash }

theorem toyH_lawful : toyH.Lawful where
  open_seal := Crypto.toy_lawful.open_seal
  seal_len := Crypto.toy_lawful.seal_len
  open_len := Crypto.toy_lawful.open_len
  aes_dec_enc := Crypto.toy_lawful.aes_dec_enc
  aes_enc_len := Crypto.toy_lawful.aes_enc_len
  aes_dec_len := Crypto.toy_lawful.aes_dec_len
  blake3_len := Crypto.toy_lawful.blake3_len
  blake3h_len := Crypto.toy_lawful.blake3h_len
  md5_len := Crypto.toy_lawful.md5_len
  sha224_len := Crypto.toy_lawful.sha224_len
  sha256_len := fun m => by simp [toyH, toyHash]
  hkdf_len := Crypto.toy_lawful.hkdf_len
  shake_len := Crypto.toy_lawful.shake_len

def exUuid1 : Bytes := [0x11, 0x22, 0x33, 0x44, 0x55, 0x66, 0x77, 0x88, 0x99, 0xaa, 0xbb, 0xcc, 0xdd, 0xee, 0xff, 0x00]
def exUuid2 : Bytes := [0xde, 0xad, 0xbe, 0xef, 0x01, 0x02, 0x03, 0x04, 0x05, 0x06, 0x07, 0x08, 0x09, 0x0a, 0x0b, 0x0c]
/-- the command keys of two registered users, derived from their UUIDs as `id::from_uuid` does -/
def exKey1 : Bytes := cmdKey toyH exUuid1
def exKey2 : Bytes := cmdKey toyH exUuid2
def exKeys : List Bytes := [exKey1, exKey2]

def exAd : Addr := .domain [119, 51, 46, 111, 114, 103] 443
/-- the second user connects; all five option bits set (chunk stream, chunk masking, global padding,
authenticated length) plus three unknown ones -/
def exClient : Client := { key := exKey2, mask := 29 + 224, sec := .chacha20, cmd := .tcp, addr := exAd }
def exRand : ClientRand :=
  { session := ⟨[1, 2, 3, 4, 5, 6, 7, 8, 9, 10, 11, 12, 13, 14, 15, 16], List.replicate 16 (0x42 : UInt8), 0x5a⟩,
    headerPadding := [9, 9, 9], authTime := 1700000000, authRand := [4, 3, 2, 1], connNonce := [1, 1, 2, 3, 5, 8, 13, 21] }
def exNow : Nat := 1700000090
def exUtf8 : Bytes → Bool := fun _ => true
def exPads : List Bytes := [List.replicate 63 (0xAA : UInt8), List.replicate 63 (0xBB : UInt8)]


theorem exReqOk : ReqOk toyH exUtf8 exNow exKeys exClient exRand where
  addr_ok := by decide
  utf8 := fun _ _ _ => rfl
  iv_len := by decide
  key_len := by decide
  pad_len := by decide
  rand_len := by decide
  nonce_len := by decide
  time_lt := by decide
  win1 := by decide
  win2 := by decide
  crc_fits := by decide +kernel
  fnv_fits := by
    intro ab h
    have : ab = addrBytes exClient.addr := by
      have := write_addrBytes exClient.addr (by decide)
      rw [this] at h; cases h; rfl
    subst this
    decide +kernel
  registered := by decide +kernel

def exItems : List (Bytes × List Bytes) := [([10, 20, 30], exPads), ([], []), ([40], exPads)]

theorem exPadsOk : Body.PadsOkAll toyH
    (Body.new toyH exClient.mask exClient.sec exRand.session.reqKey exRand.session.reqIv exRand.session)
    exItems := by decide +kernel

/-- what the client writes: sealed header (58 + 57 bytes) and three items (the middle one empty) -/
def exWire : Bytes :=
  match Client.encodeAll toyH exClient exRand ([10, 20, 30], exPads) [([], []), ([40], exPads)] with
  | .ok (w, _) => w
  | _ => []

/-- `c04_vmess_request_framed` instantiated: two registered users, the second connects, all option
bits set, ChaCha20-Poly1305, a domain target, three items (one empty) — for every segmentation -/
example (pieces : List Bytes) (hcut : pieces.flatten = exWire) :
    let F := feedAll (Server.decode toyH exUtf8 exNow) ⟨⟨exKeys, none⟩, [], false⟩ pieces
    evClean F.2 ∧ evData F.2 = [10, 20, 30, 40] ∧ F.1.buf = [] ∧ F.1.ended = false ∧
      (∃ d0 rest, evItems F.2 = ⟨.connect, d0, some exAd⟩ :: rest ∧ ∀ i ∈ rest, i.kind = .data ∧ i.addr = none) := by
  obtain ⟨wire, c', e', henc, _, h⟩ := c04_vmess_request_framed toyH toyH_lawful exUtf8 exNow exKeys exClient exRand
    exReqOk rfl ([10, 20, 30], exPads) [([], []), ([40], exPads)] exPadsOk
  have hw : exWire = wire := by unfold exWire; rw [henc]
  obtain ⟨h1, h2, h3, h4, h5, _, _⟩ := h pieces (hcut.trans hw)
  exact ⟨h1, h3, h4, h5, h2⟩

/-- what the model computes on a three-way cut (inside the sealed header, inside the first chunk):
nothing from the first read, `ConnectTcp` with *empty* data from the second (the 113-byte header is
complete, the first chunk is not), everything else from the third -/
example :
    (exWire.length, (reqSealed toyH exClient exRand).length,
      (feedAll (Server.decode toyH exUtf8 exNow) ⟨⟨exKeys, none⟩, [], false⟩ [exWire.take 50]).2,
      (feedAll (Server.decode toyH exUtf8 exNow) ⟨⟨exKeys, none⟩, [], false⟩
        [exWire.take 50, (exWire.drop 50).take 80, (exWire.drop 50).drop 80]).2) =
    (191, 113, [], [.item ⟨.connect, [], some exAd⟩, .item ⟨.data, [10, 20, 30, 40], none⟩]) := by decide +kernel

/-- consecutive pieces of `n` bytes -/
def piecesOf (n : Nat) : Nat → Bytes → List Bytes
  | 0, _ => []
  | k+1, b => b.take n :: piecesOf n k (b.drop n)

/-- ten reads of 20 bytes: `ConnectTcp` (empty) at the read that completes the header, then one item
per read that completes a chunk -/
example :
    (feedAll (Server.decode toyH exUtf8 exNow) ⟨⟨exKeys, none⟩, [], false⟩ (piecesOf 20 10 exWire)).2 =
      [.item ⟨.connect, [], some exAd⟩, .item ⟨.data, [10, 20, 30], none⟩, .item ⟨.data, [40], none⟩] := by
  decide +kernel

/-- the whole wire in one read: one `ConnectTcp` carrying everything -/
example :
    (feedAll (Server.decode toyH exUtf8 exNow) ⟨⟨exKeys, none⟩, [], false⟩ [exWire]).2 =
      [.item ⟨.connect, [10, 20, 30, 40], some exAd⟩] := by decide +kernel

/-! auth id: the hypotheses are needed -/

/-- the first registered user's key does not accept the second user's token (under `toyH`) … -/
example : authIdAccepts toyH (authIdCreate toyH exKey2 exRand.authTime exRand.authRand) exNow exKey1 = false := by
  decide +kernel

/-- … but under `Crypto.toy`, whose KDF ignores the key, it does: the collision side condition of
`c04_vmess_auth_id` fails and the server attributes the second user's connection to the first -/
example :
    authIdMatch Crypto.toy (authIdCreate Crypto.toy (cmdKey Crypto.toy exUuid2) 1700000000 [4, 3, 2, 1])
      [cmdKey Crypto.toy exUuid1, cmdKey Crypto.toy exUuid2] 1700000090 = some (cmdKey Crypto.toy exUuid1) := by
  decide +kernel

/-- single user, `Crypto.toy`: the hypotheses of `c04_vmess_auth_id_single` hold and it applies -/
example : authIdMatch Crypto.toy (authIdCreate Crypto.toy (cmdKey Crypto.toy exUuid1) 1700000000 [4, 3, 2, 1])
    [cmdKey Crypto.toy exUuid1] 1700000120 = some (cmdKey Crypto.toy exUuid1) :=
  c04_vmess_auth_id_single Crypto.toy Crypto.toy_lawful _ 1700000000 1700000120 [4, 3, 2, 1] (by decide) (by decide)
    (by decide) (by decide) (by decide +kernel)

/-- 121 s after the timestamp the token is refused -/
example : authIdMatch Crypto.toy (authIdCreate Crypto.toy (cmdKey Crypto.toy exUuid1) 1700000000 [4, 3, 2, 1])
    [cmdKey Crypto.toy exUuid1] 1700000121 = none :=
  c04_vmess_auth_id_expired Crypto.toy Crypto.toy_lawful _ 1700000000 1700000121 [4, 3, 2, 1] (by decide) (by decide)
    (Or.inl (by decide))

/-- header round trip, concretely (a 300-byte header; 65536 bytes would not fit the `u16`) -/
example : openHeader Crypto.toy [7, 7] (sealHeader Crypto.toy [7, 7] (List.replicate 300 (1 : UInt8))
    (List.replicate 16 (2 : UInt8)) (List.replicate 8 (3 : UInt8)) ++ [9, 9]) = .ok (List.replicate 300 1, 358) := by
  decide +kernel

/-! response direction -/

/-- the client after its request (session set, no response decoder yet) -/
def exClient' : Client := { exClient with session := some exRand.session }
/-- the server as the request direction leaves it (the body decoder plays no role here) -/
def exServer : Server :=
  srvReady exKeys .tcp 29 .chacha20 exAd exRand.session
    (Body.new toyH 29 .chacha20 exRand.session.reqKey exRand.session.reqIv exRand.session)

def exRespItems : List (Bytes × List Bytes) := [([], []), ([7, 8], exPads), ([9], exPads)]

theorem exRespPadsOk : Body.PadsOkAll toyH
    (Body.new toyH exClient'.mask exClient'.sec (exRand.session.respKey toyH) (exRand.session.respIv toyH) exRand.session)
    exRespItems := by decide +kernel

def exRespWire : Bytes :=
  match (Server.encodeAll toyH exServer exRespItems).1 with
  | .ok w => w
  | _ => []

/-- `c04_vmess_response_framed` instantiated (first item empty: only the 38-byte header goes out with it) -/
example (pieces : List Bytes) (hcut : pieces.flatten = exRespWire) :
    let F := feedAll (Client.decode toyH) ⟨exClient', [], false⟩ pieces
    evClean F.2 ∧ (∀ i ∈ evItems F.2, i.kind = .data ∧ i.addr = none) ∧ evData F.2 = [7, 8, 9] ∧
      F.1.buf = [] ∧ F.1.ended = false := by
  obtain ⟨wire, e', henc, h⟩ := c04_vmess_response_framed toyH toyH_lawful exKeys 29 exAd exRand.session
    (Body.new toyH 29 .chacha20 exRand.session.reqKey exRand.session.reqIv exRand.session) exClient' rfl rfl rfl
    (by decide) ([], []) [([7, 8], exPads), ([9], exPads)] exRespPadsOk
  have hw : exRespWire = wire := by
    unfold exRespWire
    have : Server.encodeAll toyH exServer exRespItems = _ := henc
    rw [this]
  obtain ⟨h1, h2, h3, h4, h5, _, _⟩ := h pieces (hcut.trans hw)
  exact ⟨h1, h2, h3, h4, h5⟩

example :
    (exRespWire.length,
      (feedAll (Client.decode toyH) ⟨exClient', [], false⟩ [exRespWire.take 37]).2,
      (feedAll (Client.decode toyH) ⟨exClient', [], false⟩
        [exRespWire.take 37, (exRespWire.drop 37).take 50, (exRespWire.drop 37).drop 50]).2) =
    (165, [], [.item ⟨.data, [7, 8, 9], none⟩]) := by decide +kernel

/-- a client whose session differs only in the response authentication byte: one `Err`, the end of
the stream, nothing released (`c04_vmess_response_wrong_byte`, and the model run) -/
def exClientBad : Client := { exClient with session := some { exRand.session with respHeader := 0x5b } }

example (pieces : List Bytes) (hcut : pieces.flatten = exRespWire) :
    (feedAll (Client.decode toyH) ⟨exClientBad, [], false⟩ pieces).2 = [.err, .ended] := by
  have hw : exRespWire = respHeader toyH exRand.session 29 ++ exRespWire.drop 38 := by decide +kernel
  exact (c04_vmess_response_wrong_byte toyH toyH_lawful exClientBad exRand.session
    { exRand.session with respHeader := 0x5b } rfl rfl rfl rfl (by decide) 29 (exRespWire.drop 38) pieces
    (hcut.trans hw)).1

example :
    (feedAll (Client.decode toyH) ⟨exClientBad, [], false⟩
      [exRespWire.take 37, (exRespWire.drop 37).take 50, (exRespWire.drop 37).drop 50]).2 = [.err, .ended] := by
  decide +kernel

/-- a client with another request key: the length block does not authenticate (`hrej` holds for
the toy AEAD), `c04_vmess_response_wrong_keys` applies -/
example : Crypto.openB toyH .aes128gcm
    (kdf16 toyH (Session.respKey toyH { exRand.session with reqKey := (0x43 : UInt8) :: List.replicate 15 (0x42 : UInt8) }) [saltRespLenKey])
    (kdfn toyH 12 (Session.respIv toyH { exRand.session with reqKey := (0x43 : UInt8) :: List.replicate 15 (0x42 : UInt8) }) [saltRespLenIv]) []
    (respLenBlock toyH exRand.session) = none := by decide +kernel

/-! UDP -/

def exClientU : Client := { exClient with cmd := .udp, addr := .v4 [8, 8, 8, 8] 53 }
def exDgrams : List (Bytes × List Bytes) := [([1, 2, 3], exPads), ([], exPads), ([4, 5], exPads)]

theorem exReqOkU : ReqOk toyH exUtf8 exNow exKeys exClientU exRand where
  addr_ok := by decide
  utf8 := fun _ _ h => by cases h
  iv_len := by decide
  key_len := by decide
  pad_len := by decide
  rand_len := by decide
  nonce_len := by decide
  time_lt := by decide
  win1 := by decide
  win2 := by decide
  crc_fits := by decide +kernel
  fnv_fits := by
    intro ab h
    have : ab = addrBytes exClientU.addr := by
      have := write_addrBytes exClientU.addr (by decide)
      rw [this] at h; cases h; rfl
    subst this
    decide +kernel
  registered := by decide +kernel

theorem exPacketsOk : Body.PacketsOk toyH
    (Body.new toyH exClientU.mask exClientU.sec exRand.session.reqKey exRand.session.reqIv exRand.session)
    (toPackets exDgrams) := by decide +kernel

def exWireU : Bytes :=
  match Client.encodeAll toyH exClientU exRand ([1, 2, 3], exPads) [([], exPads), ([4, 5], exPads)] with
  | .ok (w, _) => w
  | _ => []

/-- `c04_vmess_request_udp_framed` instantiated: three datagrams, the middle one empty -/
example (pieces : List Bytes) (hcut : pieces.flatten = exWireU) :
    (feedAll (Server.decode toyH exUtf8 exNow) ⟨⟨exKeys, none⟩, [], false⟩ pieces).2 =
      [.item ⟨.udp, [1, 2, 3], some (.v4 [8, 8, 8, 8] 53)⟩, .item ⟨.udp, [], some (.v4 [8, 8, 8, 8] 53)⟩,
        .item ⟨.udp, [4, 5], some (.v4 [8, 8, 8, 8] 53)⟩] := by
  obtain ⟨wire, c', e', henc, _, h⟩ := c04_vmess_request_udp_framed toyH toyH_lawful exUtf8 exNow exKeys exClientU exRand
    exReqOkU rfl ([1, 2, 3], exPads) [([], exPads), ([4, 5], exPads)] exPacketsOk
  have hw : exWireU = wire := by unfold exWireU; rw [henc]
  exact (h pieces (hcut.trans hw)).1

/-- the model run on a cut inside the header and inside the second chunk -/
example :
    (exWireU.length, (reqSealed toyH exClientU exRand).length,
      (feedAll (Server.decode toyH exUtf8 exNow) ⟨⟨exKeys, none⟩, [], false⟩ [exWireU.take 100]).2,
      (feedAll (Server.decode toyH exUtf8 exNow) ⟨⟨exKeys, none⟩, [], false⟩
        [exWireU.take 100, (exWireU.drop 100).take 80]).2,
      (feedAll (Server.decode toyH exUtf8 exNow) ⟨⟨exKeys, none⟩, [], false⟩
        [exWireU.take 100, (exWireU.drop 100).take 80, (exWireU.drop 100).drop 80]).2) =
    (229, 110, [], [.item ⟨.udp, [1, 2, 3], some (.v4 [8, 8, 8, 8] 53)⟩],
      [.item ⟨.udp, [1, 2, 3], some (.v4 [8, 8, 8, 8] 53)⟩, .item ⟨.udp, [], some (.v4 [8, 8, 8, 8] 53)⟩,
        .item ⟨.udp, [4, 5], some (.v4 [8, 8, 8, 8] 53)⟩]) := by decide +kernel

/-- a datagram that does not fit one chunk is refused by the encoder (`Err`), nothing is written -/
example : (Client.encodeAll toyH exClientU exRand (List.replicate 1952 (0 : UInt8), exPads) []).isOk = false := by
  decide +kernel
example : (Client.encodeAll toyH exClientU exRand (List.replicate 1951 (0 : UInt8), exPads) []).isOk = true := by
  decide +kernel

end Examples
end Octo.Vmess
