import Octo.Proofs.SsUdpGen
import Octo.Proofs.Toy
import Octo.Props.C07
import Octo.Props.C10Udp
import Octo.Props.C02Udp
import Octo.Props.C05Udp
/-!
  Property theorems for the code GENERATED from `octo-squirrel/src/codec/shadowsocks/udp.rs` (`Octo.SsUdpGen`, written by
  `bin/translate_ssudp.py` on every run): the Shadowsocks-2022 datagram decoder of the server side
  (`AEADCipherCodec::decode_client_packet_aead_2022`, AES kinds, with and without identity header) and the ordering of the
  cipher-cache key (`impl Ord for CipherKey`).  Statements only; the proofs are in `Octo/Proofs/SsUdpGen.lean`.
  The assumed externals are instantiated by the hand model's `Crypto` interface (`XM`); the side conditions are the laws
  `open_len` / `aes_dec_len` of `Crypto.Lawful`, a clock below 2^64 and lengths a Rust buffer can have.
-/
namespace Octo.Props.C02SsUdpGen
open Octo Octo.PWGen Octo.SsUdpGen Octo.AddrGen

/-- the side conditions of every theorem below: what is assumed of the cryptography, the clock and the sizes -/
structure Side (E : MEnv) (c : Context MT) (b : List UInt8) : Prop where
  open_len : ∀ a key n ad ct p, E.C.openB a key n ad ct = some p → ct.length = p.length + 16
  aes_len : ∀ key x, (E.C.aesDec key x).length = 16
  now : E.now < 2 ^ 64
  users : (c.user_manager.getD []).length < 2 ^ 64
  len : b.length < 2 ^ 64

/-- the side conditions are satisfiable (toy cryptography, any datagram of a possible length) -/
example (c : Context MT) (b : List UInt8) (hu : (c.user_manager.getD []).length < 2 ^ 64) (hb : b.length < 2 ^ 64) :
    Side ⟨Crypto.toy, 1700000000, false⟩ c b :=
  ⟨Crypto.toy_lawful.open_len, Crypto.toy_lawful.aes_dec_len, by decide, hu, hb⟩

/-- **C02 (refinement)**: the generated `decode_client_packet_aead_2022` (server side, AES kinds, both overflow profiles, any user
table) equals the hand model's `SsUdp.decode` in server mode on every datagram: same outcome class, payload, address,
session id, packet id, attributed user -/
theorem c02_ssudp_gen_decode_client_refines (ov : Bool) (E : MEnv) (N : Usize) (codec : AEADCipherCodec) (c : Context MT)
    (b : List UInt8) (k : Ss.Kind) (hk : toKind codec.kind = some k) (hx : SsUdp.xAlg k = none) (h22 : k.is2022 = true)
    (S : Side E c b) :
    embed (AEADCipherCodec.decode_client_packet_aead_2022 ov (XM E) N codec c b) = SsUdp.decode E.C (toCtx k c) .server E.now b :=
  decode_client_aes_eq ov E N codec c b k hk hx h22 S.users S.len S.now S.open_len S.aes_len

example : toKind CipherKind.Aead2022Blake3Aes128Gcm = some .b3aes128 ∧ SsUdp.xAlg .b3aes128 = none ∧ Ss.Kind.is2022 .b3aes128 = true :=
  ⟨rfl, rfl, rfl⟩

/-- **C07**: no datagram — short, garbage, or authenticated with a malformed plaintext — makes the generated server-side
decoder panic (no slice out of range, no `get_*` past the end, no `unwrap` of `None`, no overflow in either profile) -/
theorem c07_ssudp_gen_decode_client_never_panics (ov : Bool) (E : MEnv) (N : Usize) (codec : AEADCipherCodec) (c : Context MT)
    (b : List UInt8) (k : Ss.Kind) (hk : toKind codec.kind = some k) (hx : SsUdp.xAlg k = none) (h22 : k.is2022 = true)
    (S : Side E c b) :
    AEADCipherCodec.decode_client_packet_aead_2022 ov (XM E) N codec c b ≠ PWGen.Res.panic := by
  intro h
  have e := c02_ssudp_gen_decode_client_refines ov E N codec c b k hk hx h22 S
  rw [h] at e
  exact c07_ss_udp_decode_total E.C (toCtx k c) .server E.now b e.symm

/-- **C10**: a datagram whose opened plaintext carries a timestamp more than 30 s from the clock is `Err` in the generated code -/
theorem c10_ssudp_gen_stale_refused (ov : Bool) (E : MEnv) (N : Usize) (codec : AEADCipherCodec) (c : Context MT)
    (b : List UInt8) (k : Ss.Kind) (hk : toKind codec.kind = some k) (hx : SsUdp.xAlg k = none) (h22 : k.is2022 = true)
    (S : Side E c b) (sid pid : Nat) (body : Bytes) (user : Option Ss.User)
    (ho : SsUdp.opened E.C (toCtx k c) .server b = some (sid, pid, body, user))
    (hstale : Ss.absDiff E.now (rdBE ((body.drop 1).take 8)) > Consts.ssMaxTimeDiff) :
    embed (AEADCipherCodec.decode_client_packet_aead_2022 ov (XM E) N codec c b) = .err := by
  rw [c02_ssudp_gen_decode_client_refines ov E N codec c b k hk hx h22 S]
  exact SsUdp.c10_ss_udp_stale_refused E.C (toCtx k c) h22 .server E.now b sid pid body user ho hstale

/-- **C10**: a datagram of the wrong type (a server packet reflected to the server) is `Err` in the generated code -/
theorem c10_ssudp_gen_wrong_type_refused (ov : Bool) (E : MEnv) (N : Usize) (codec : AEADCipherCodec) (c : Context MT)
    (b : List UInt8) (k : Ss.Kind) (hk : toKind codec.kind = some k) (hx : SsUdp.xAlg k = none) (h22 : k.is2022 = true)
    (S : Side E c b) (sid pid : Nat) (body : Bytes) (user : Option Ss.User)
    (ho : SsUdp.opened E.C (toCtx k c) .server b = some (sid, pid, body, user))
    (htype : body.headD 0 ≠ Ss.Mode.server.expectU8) :
    embed (AEADCipherCodec.decode_client_packet_aead_2022 ov (XM E) N codec c b) = .err := by
  rw [c02_ssudp_gen_decode_client_refines ov E N codec c b k hk hx h22 S]
  exact SsUdp.c10_ss_udp_wrong_type_refused E.C (toCtx k c) h22 .server E.now b sid pid body user ho htype

/-- **C10 / C05**: a datagram that does not open (tampered, wrong key, unknown identity) is `Err` in the generated code -/
theorem c10_ssudp_gen_unopened_refused (ov : Bool) (E : MEnv) (N : Usize) (codec : AEADCipherCodec) (c : Context MT)
    (b : List UInt8) (k : Ss.Kind) (hk : toKind codec.kind = some k) (hx : SsUdp.xAlg k = none) (h22 : k.is2022 = true)
    (S : Side E c b) (ho : SsUdp.opened E.C (toCtx k c) .server b = none) :
    embed (AEADCipherCodec.decode_client_packet_aead_2022 ov (XM E) N codec c b) = .err := by
  rw [c02_ssudp_gen_decode_client_refines ov E N codec c b k hk hx h22 S]
  exact SsUdp.c10_ss_udp_unopened_refused E.C (toCtx k c) h22 .server E.now b ho

/-- **C02 / C06 (owner)**: what the generated decoder accepts with a user table is attributed to the registered user whose identity
hash the identity header decrypts to, and was opened under that user's key (`c02_ss_udp_owner` for the generated code) -/
theorem c06_ssudp_gen_owner (ov : Bool) (E : MEnv) (N : Usize) (codec : AEADCipherCodec) (c : Context MT)
    (b : List UInt8) (k : Ss.Kind) (hk : toKind codec.kind = some k) (hx : SsUdp.xAlg k = none) (h22 : k.is2022 = true)
    (S : Side E c b) (p : Bytes) (a : Addr) (s : SsUdp.Session)
    (hd : embed (AEADCipherCodec.decode_client_packet_aead_2022 ov (XM E) N codec c b) = .ok (p, a, s)) :
    SsUdp.decode E.C (toCtx k c) .server E.now b = .ok (p, a, s) := by
  rw [← c02_ssudp_gen_decode_client_refines ov E N codec c b k hk hx h22 S]; exact hd

/-- **C09 (cache key)**: `CipherKey::cmp` never panics and is a total order whose `Equal` means equality of kind, key AND session
id — no two distinct cache keys collapse into one entry -/
theorem c09_ssudp_gen_cipher_key_total_order (ov : Bool) {T : ExtTypes} (X : Ext T) :
    ∃ cmp : CipherKey → CipherKey → Ordering, (∀ a b, CipherKey.cmp ov X a b = PWGen.Res.ok (cmp a b)) ∧ Octo.Addr.TotalCmp cmp :=
  cipher_key_cmp_total ov X

end Octo.Props.C02SsUdpGen
