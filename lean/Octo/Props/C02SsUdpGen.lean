import Octo.Proofs.SsUdpGen
import Octo.Proofs.Toy
import Octo.Props.C07
import Octo.Props.C10Udp
import Octo.Props.C02Udp
import Octo.Props.C05Udp
import Octo.Props.C03More
import Octo.Props.C12
/-!
  Property theorems for the code GENERATED from `octo-squirrel/src/codec/shadowsocks/udp.rs` (`Octo.SsUdpGen`, written by
  `bin/translate_ssudp.py` on every run): the Shadowsocks-2022 datagram decoder of the server side
  (`AEADCipherCodec::decode_client_packet_aead_2022`, AES kinds, with and without identity header) and the ordering of the
  cipher-cache key (`impl Ord for CipherKey`).  Statements only; the proofs are in `Octo/Proofs/SsUdpGen.lean`.
  The assumed externals are instantiated by the hand model's `Crypto` interface (`XM`); the side conditions are the laws
  `open_len` / `aes_dec_len` of `Crypto.Lawful`, a clock below 2^64 and lengths a Rust buffer can have.
-/
namespace Octo.Props.C02SsUdpGen
open Octo Octo.PWGen Octo.SsUdpGen Octo.AddrGen

/-- the side conditions of every theorem below: what is assumed of the cryptography, the clock and the sizes -/
structure Side (E : MEnv) (c : Context MT) (b : List UInt8) : Prop where
  open_len : ∀ a key n ad ct p, E.C.openB a key n ad ct = some p → ct.length = p.length + 16
  aes_len : ∀ key x, (E.C.aesDec key x).length = 16
  now : E.now < 2 ^ 64
  users : (c.user_manager.getD []).length < 2 ^ 64
  len : b.length < 2 ^ 64

/-- the side conditions are satisfiable (toy cryptography, any datagram of a possible length) -/
example (c : Context MT) (b : List UInt8) (hu : (c.user_manager.getD []).length < 2 ^ 64) (hb : b.length < 2 ^ 64) :
    Side { C := Crypto.toy, now := 1700000000, trace := false } c b :=
  ⟨Crypto.toy_lawful.open_len, Crypto.toy_lawful.aes_dec_len, by decide, hu, hb⟩

/-- **C02 (refinement)**: the generated `decode_client_packet_aead_2022` (server side, AES kinds, both overflow profiles, any user
table) equals the hand model's `SsUdp.decode` in server mode on every datagram: same outcome class, payload, address,
session id, packet id, attributed user -/
theorem c02_ssudp_gen_decode_client_refines (ov : Bool) (E : MEnv) (N : Usize) (codec : AEADCipherCodec) (c : Context MT)
    (b : List UInt8) (k : Ss.Kind) (hk : toKind codec.kind = some k) (hx : SsUdp.xAlg k = none) (h22 : k.is2022 = true)
    (S : Side E c b) :
    embed (AEADCipherCodec.decode_client_packet_aead_2022 ov (XM E) N codec c b) = SsUdp.decode E.C (toCtx k c) .server E.now b :=
  decode_client_aes_eq ov E N codec c b k hk hx h22 S.users S.len S.now S.open_len S.aes_len

example : toKind CipherKind.Aead2022Blake3Aes128Gcm = some .b3aes128 ∧ SsUdp.xAlg .b3aes128 = none ∧ Ss.Kind.is2022 .b3aes128 = true :=
  ⟨rfl, rfl, rfl⟩

/-- **C07**: no datagram — short, garbage, or authenticated with a malformed plaintext — makes the generated server-side
decoder panic (no slice out of range, no `get_*` past the end, no `unwrap` of `None`, no overflow in either profile) -/
theorem c07_ssudp_gen_decode_client_never_panics (ov : Bool) (E : MEnv) (N : Usize) (codec : AEADCipherCodec) (c : Context MT)
    (b : List UInt8) (k : Ss.Kind) (hk : toKind codec.kind = some k) (hx : SsUdp.xAlg k = none) (h22 : k.is2022 = true)
    (S : Side E c b) :
    AEADCipherCodec.decode_client_packet_aead_2022 ov (XM E) N codec c b ≠ PWGen.Res.panic := by
  intro h
  have e := c02_ssudp_gen_decode_client_refines ov E N codec c b k hk hx h22 S
  rw [h] at e
  exact c07_ss_udp_decode_total E.C (toCtx k c) .server E.now b e.symm

/-- **C10**: a datagram whose opened plaintext carries a timestamp more than 30 s from the clock is `Err` in the generated code -/
theorem c10_ssudp_gen_stale_refused (ov : Bool) (E : MEnv) (N : Usize) (codec : AEADCipherCodec) (c : Context MT)
    (b : List UInt8) (k : Ss.Kind) (hk : toKind codec.kind = some k) (hx : SsUdp.xAlg k = none) (h22 : k.is2022 = true)
    (S : Side E c b) (sid pid : Nat) (body : Bytes) (user : Option Ss.User)
    (ho : SsUdp.opened E.C (toCtx k c) .server b = some (sid, pid, body, user))
    (hstale : Ss.absDiff E.now (rdBE ((body.drop 1).take 8)) > Consts.ssMaxTimeDiff) :
    embed (AEADCipherCodec.decode_client_packet_aead_2022 ov (XM E) N codec c b) = .err := by
  rw [c02_ssudp_gen_decode_client_refines ov E N codec c b k hk hx h22 S]
  exact SsUdp.c10_ss_udp_stale_refused E.C (toCtx k c) h22 .server E.now b sid pid body user ho hstale

/-- **C10**: a datagram of the wrong type (a server packet reflected to the server) is `Err` in the generated code -/
theorem c10_ssudp_gen_wrong_type_refused (ov : Bool) (E : MEnv) (N : Usize) (codec : AEADCipherCodec) (c : Context MT)
    (b : List UInt8) (k : Ss.Kind) (hk : toKind codec.kind = some k) (hx : SsUdp.xAlg k = none) (h22 : k.is2022 = true)
    (S : Side E c b) (sid pid : Nat) (body : Bytes) (user : Option Ss.User)
    (ho : SsUdp.opened E.C (toCtx k c) .server b = some (sid, pid, body, user))
    (htype : body.headD 0 ≠ Ss.Mode.server.expectU8) :
    embed (AEADCipherCodec.decode_client_packet_aead_2022 ov (XM E) N codec c b) = .err := by
  rw [c02_ssudp_gen_decode_client_refines ov E N codec c b k hk hx h22 S]
  exact SsUdp.c10_ss_udp_wrong_type_refused E.C (toCtx k c) h22 .server E.now b sid pid body user ho htype

/-- **C10 / C05**: a datagram that does not open (tampered, wrong key, unknown identity) is `Err` in the generated code -/
theorem c10_ssudp_gen_unopened_refused (ov : Bool) (E : MEnv) (N : Usize) (codec : AEADCipherCodec) (c : Context MT)
    (b : List UInt8) (k : Ss.Kind) (hk : toKind codec.kind = some k) (hx : SsUdp.xAlg k = none) (h22 : k.is2022 = true)
    (S : Side E c b) (ho : SsUdp.opened E.C (toCtx k c) .server b = none) :
    embed (AEADCipherCodec.decode_client_packet_aead_2022 ov (XM E) N codec c b) = .err := by
  rw [c02_ssudp_gen_decode_client_refines ov E N codec c b k hk hx h22 S]
  exact SsUdp.c10_ss_udp_unopened_refused E.C (toCtx k c) h22 .server E.now b ho

/-- **C02 / C06 (owner)**: what the generated decoder accepts with a user table is attributed to the registered user whose identity
hash the identity header decrypts to, and was opened under that user's key (`c02_ss_udp_owner` for the generated code) -/
theorem c06_ssudp_gen_owner (ov : Bool) (E : MEnv) (N : Usize) (codec : AEADCipherCodec) (c : Context MT)
    (b : List UInt8) (k : Ss.Kind) (hk : toKind codec.kind = some k) (hx : SsUdp.xAlg k = none) (h22 : k.is2022 = true)
    (S : Side E c b) (p : Bytes) (a : Addr) (s : SsUdp.Session)
    (hd : embed (AEADCipherCodec.decode_client_packet_aead_2022 ov (XM E) N codec c b) = .ok (p, a, s)) :
    SsUdp.decode E.C (toCtx k c) .server E.now b = .ok (p, a, s) := by
  rw [← c02_ssudp_gen_decode_client_refines ov E N codec c b k hk hx h22 S]; exact hd

/-- **C09 (cache key)**: `CipherKey::cmp` never panics and is a total order whose `Equal` means equality of kind, key AND session
id — no two distinct cache keys collapse into one entry -/
theorem c09_ssudp_gen_cipher_key_total_order (ov : Bool) {T : ExtTypes} (X : Ext T) :
    ∃ cmp : CipherKey → CipherKey → Ordering, (∀ a b, CipherKey.cmp ov X a b = PWGen.Res.ok (cmp a b)) ∧ Octo.Addr.TotalCmp cmp :=
  cipher_key_cmp_total ov X

/-! ### added in the second round: every 2022 kind, the client side, the dispatch, `SessionCodec::decode` -/

/-- **C02 (refinement, all 2022 kinds)**: `decode_client_packet_aead_2022` = the model in server mode, AES and XChaCha -/
theorem c02_ssudp_gen_decode_client_refines_all (ov : Bool) (E : MEnv) (N : Usize) (codec : AEADCipherCodec) (c : Context MT)
    (b : List UInt8) (k : Ss.Kind) (hk : toKind codec.kind = some k) (h22 : k.is2022 = true) (S : Side E c b) :
    embed (AEADCipherCodec.decode_client_packet_aead_2022 ov (XM E) N codec c b) = SsUdp.decode E.C (toCtx k c) .server E.now b :=
  decode_client_eq ov E N codec c b k hk h22 S.users S.len S.now S.open_len S.aes_len

/-- **C02 / C10 (client side)**: `decode_server_packet_aead_2022` = the model in client mode (server type byte, echoed client
session id, timestamp, padding, address) for every 2022 kind -/
theorem c02_ssudp_gen_decode_server_refines (ov : Bool) (E : MEnv) (N : Usize) (codec : AEADCipherCodec) (c : Context MT)
    (b : List UInt8) (k : Ss.Kind) (hk : toKind codec.kind = some k) (h22 : k.is2022 = true) (hm : c.stream_type = .Client)
    (S : Side E c b) :
    embed (AEADCipherCodec.decode_server_packet_aead_2022 ov (XM E) N codec c b) = SsUdp.decode E.C (toCtx k c) .client E.now b :=
  decode_server_eq ov E N codec c b k hk h22 hm S.len S.now S.open_len S.aes_len

/-- **C02 (dispatch)**: `AEADCipherCodec::decode` = the model's `decode` for every cipher kind (legacy: salt ‖ seal(address ‖
payload)) and both directions; the legacy kinds need the key to have the length of the salt, as `Context::new` callers ensure -/
theorem c02_ssudp_gen_decode_refines (ov : Bool) (E : MEnv) (N : Usize) (codec : AEADCipherCodec) (c : Context MT)
    (b : List UInt8) (k : Ss.Kind) (hk : toKind codec.kind = some k) (hkey : k.is2022 = false → c.key.length = k.n) (S : Side E c b) :
    embed (AEADCipherCodec.decode ov (XM E) N codec c b) = SsUdp.decode E.C (toCtx k c) (toMode c.stream_type) E.now b :=
  decode_eq_model ov E N codec c b k hk hkey S.users S.len S.now S.open_len S.aes_len

example : ∃ (c : Context MT) (k : Ss.Kind), toKind CipherKind.Aes128Gcm = some k ∧ (k.is2022 = false → c.key.length = k.n) :=
  ⟨⟨.Server, none, List.replicate 16 0, []⟩, .aes128, rfl, fun _ => by decide⟩

/-- **C07 (whole datagram path)**: no datagram makes `AEADCipherCodec::decode` panic, any kind, either direction -/
theorem c07_ssudp_gen_decode_never_panics (ov : Bool) (E : MEnv) (N : Usize) (codec : AEADCipherCodec) (c : Context MT)
    (b : List UInt8) (k : Ss.Kind) (hk : toKind codec.kind = some k) (hkey : k.is2022 = false → c.key.length = k.n) (S : Side E c b) :
    AEADCipherCodec.decode ov (XM E) N codec c b ≠ PWGen.Res.panic := by
  intro h
  have e := c02_ssudp_gen_decode_refines ov E N codec c b k hk hkey S
  rw [h] at e
  exact c07_ss_udp_decode_total E.C (toCtx k c) _ E.now b e.symm

/-- **C02 / C07 (`SessionCodec::decode`)**: an empty datagram is `Ok(None)`, anything else is decoded whole = the model's
`sessionDecode`; hence never a panic (`c07_ss_udp_session_total`) -/
theorem c02_ssudp_gen_session_decode_refines (ov : Bool) (E : MEnv) (N : Usize) (sc : SessionCodec MT) (b : List UInt8) (k : Ss.Kind)
    (hk : toKind sc.cipher.kind = some k) (hkey : k.is2022 = false → sc.context.key.length = k.n) (S : Side E sc.context b) :
    embedS (SessionCodec.decode ov (XM E) N sc b) =
      SsUdp.sessionDecode E.C (toCtx k sc.context) (toMode sc.context.stream_type) E.now b :=
  session_decode_eq ov E N sc b k hk hkey S.users S.len S.now S.open_len S.aes_len

theorem c07_ssudp_gen_session_decode_never_panics (ov : Bool) (E : MEnv) (N : Usize) (sc : SessionCodec MT) (b : List UInt8) (k : Ss.Kind)
    (hk : toKind sc.cipher.kind = some k) (hkey : k.is2022 = false → sc.context.key.length = k.n) (S : Side E sc.context b) :
    SessionCodec.decode ov (XM E) N sc b ≠ PWGen.Res.panic := by
  intro h
  have e := c02_ssudp_gen_session_decode_refines ov E N sc b k hk hkey S
  rw [h] at e
  exact c07_ss_udp_session_total E.C (toCtx k sc.context) _ E.now b e.symm

/-- **C10 (client side)**: a client's own request reflected to it (wrong type) is `Err` in the generated client decoder -/
theorem c10_ssudp_gen_client_wrong_type_refused (ov : Bool) (E : MEnv) (N : Usize) (codec : AEADCipherCodec) (c : Context MT)
    (b : List UInt8) (k : Ss.Kind) (hk : toKind codec.kind = some k) (h22 : k.is2022 = true) (hm : c.stream_type = .Client)
    (S : Side E c b) (sid pid : Nat) (body : Bytes) (user : Option Ss.User)
    (ho : SsUdp.opened E.C (toCtx k c) .client b = some (sid, pid, body, user))
    (htype : body.headD 0 ≠ Ss.Mode.client.expectU8) :
    embed (AEADCipherCodec.decode_server_packet_aead_2022 ov (XM E) N codec c b) = .err := by
  rw [c02_ssudp_gen_decode_server_refines ov E N codec c b k hk h22 hm S]
  exact SsUdp.c10_ss_udp_wrong_type_refused E.C (toCtx k c) h22 .client E.now b sid pid body user ho htype

/-- **C10 (client side)**: a stale reply is `Err` in the generated client decoder -/
theorem c10_ssudp_gen_client_stale_refused (ov : Bool) (E : MEnv) (N : Usize) (codec : AEADCipherCodec) (c : Context MT)
    (b : List UInt8) (k : Ss.Kind) (hk : toKind codec.kind = some k) (h22 : k.is2022 = true) (hm : c.stream_type = .Client)
    (S : Side E c b) (sid pid : Nat) (body : Bytes) (user : Option Ss.User)
    (ho : SsUdp.opened E.C (toCtx k c) .client b = some (sid, pid, body, user))
    (hstale : Ss.absDiff E.now (rdBE ((body.drop 1).take 8)) > Consts.ssMaxTimeDiff) :
    embed (AEADCipherCodec.decode_server_packet_aead_2022 ov (XM E) N codec c b) = .err := by
  rw [c02_ssudp_gen_decode_server_refines ov E N codec c b k hk h22 hm S]
  exact SsUdp.c10_ss_udp_stale_refused E.C (toCtx k c) h22 .client E.now b sid pid body user ho hstale

/-! ### added in the third round: the ENCODE side -/

/-- the side conditions of the encoder theorems: sizes a Rust buffer can have, the clock, what the random-number externals
hand out (padding of the drawn length ≤ 65535; 24 random bytes for an XChaCha nonce, `N` for a legacy salt), AES block length -/
structure EncSide (E : MEnv) (N : Usize) (k : Ss.Kind) (addr : Address) (item : List UInt8) : Prop where
  size : Socks5Addr.length (toAddr addr) + item.length + 70000 < 2 ^ 63
  now : E.now < 2 ^ 64
  pad : E.padding.length = E.padLen
  padLen : E.padLen < 65536
  rnd : if k.is2022 then 24 ≤ E.rnd.length else E.rnd.length = N.toNat
  aes_len : ∀ key b, (E.C.aesEnc key b).length = 16

example (a : SocketAddrV4) :
    EncSide { C := Crypto.toy, now := 1700000000, trace := false, padLen := 3, padding := [1, 2, 3], rnd := List.replicate 24 7 }
      32 .b3chacha20 (.Socket (.V4 a)) [] :=
  ⟨by simp only [toAddr, Socks5Addr.length, List.length_nil]; omega, by show 1700000000 < 2 ^ 64; omega, rfl, by show 3 < 65536; omega,
    by simp only [Ss.Kind.is2022, if_true, List.length_replicate]; omega, Crypto.toy_lawful.aes_enc_len⟩

/-- **C03 (wire layout, refinement)**: `AEADCipherCodec::encode` (all three families, both directions; `dst` empty at entry, any
number of identity keys below 2^59) writes byte for byte the model's `SsUdp.encode` with the randomness the externals handed out — hence
every `c03_ss_udp_layout*` statement (Spec layouts: separate header = session id ‖ packet id under AES, identity header,
type ‖ time ‖ [client session id] ‖ padding length ‖ padding ‖ address ‖ payload, padding BEFORE the address) holds of the
generated code -/
theorem c03_ssudp_gen_encode_refines (ov : Bool) (E : MEnv) (N : Usize) (codec : AEADCipherCodec) (c : Context MT) (s : Session)
    (addr : Address) (item : List UInt8) (k : Ss.Kind) (hk : toKind codec.kind = some k) (hik : c.identity_keys.length < 2 ^ 59)
    (S : EncSide E N k addr item) :
    AEADCipherCodec.encode ov (XM E) N codec c s addr item [] =
      .ok (SsUdp.encode E.C (toCtx k c) (toMode c.stream_type) (toSession s) (toAddr addr) item (randOf E item), .ok ()) :=
  encode_eq_model ov E N codec c s addr item k hk hik S.size S.now S.pad S.padLen S.rnd S.aes_len

/-- **C03 (`SessionCodec::encode`)** -/
theorem c03_ssudp_gen_session_encode_refines (ov : Bool) (E : MEnv) (N : Usize) (sc : SessionCodec MT) (content : List UInt8)
    (addr : Address) (s : Session) (k : Ss.Kind) (hk : toKind sc.cipher.kind = some k) (hik : sc.context.identity_keys.length < 2 ^ 59)
    (S : EncSide E N k addr content) :
    SessionCodec.encode ov (XM E) N sc (content, addr, s) [] =
      .ok (SsUdp.encode E.C (toCtx k sc.context) (toMode sc.context.stream_type) (toSession s) (toAddr addr) content
        (randOf E content), .ok ()) :=
  session_encode_eq ov E N sc content addr s k hk hik S.size S.now S.pad S.padLen S.rnd S.aes_len

/-- **C03 (AES request layout of the generated encoder, spelled out)**: `AES(header key, sid ‖ pid) ‖ identity header ‖
AEAD(session subkey, nonce = (sid ‖ pid)[4..16], 0 ‖ time ‖ padding length ‖ padding ‖ address ‖ payload)`; the padding is
non-empty only for an empty payload (`padOf`) -/
theorem c03_ssudp_gen_aes_request_layout (ov : Bool) (E : MEnv) (N : Usize) (codec : AEADCipherCodec) (c : Context MT) (s : Session)
    (addr : Address) (item : List UInt8) (k : Ss.Kind) (hk : toKind codec.kind = some k)
    (hkind : k = .b3aes128 ∨ k = .b3aes256) (hik : c.identity_keys.length < 2 ^ 59) (S : EncSide E N k addr item) :
    AEADCipherCodec.encode_client_packet_aead_2022 ov (XM E) N codec c s addr item [] = .ok (
      E.C.aesEnc ((c.identity_keys ++ [c.key]).headD []) (be64 s.client_session_id.toNat ++ be64 s.packet_id.toNat) ++
      Spec.udpIdentityHeaders E.C (be64 s.client_session_id.toNat ++ be64 s.packet_id.toNat) (c.identity_keys ++ [c.key]) ++
      E.C.sealB k.alg (Spec.sessionSubkey E.C (specCipher k) c.key (be64 s.client_session_id.toNat))
        ((be64 s.client_session_id.toNat ++ be64 s.packet_id.toNat).drop 4) []
        ([(0 : UInt8)] ++ be64 E.now ++ be16 (padOf E item).length ++ padOf E item ++ Socks5Addr.encode (toAddr addr) ++ item),
      .ok ()) := by
  have h22 : k.is2022 = true := by rcases hkind with h | h <;> rw [h] <;> rfl
  have hr : 24 ≤ E.rnd.length ∨ True := Or.inr trivial
  have hx : SsUdp.xAlg k = none := by rcases hkind with h | h <;> rw [h] <;> rfl
  have e : AEADCipherCodec.encode_client_packet_aead_2022 ov (XM E) N codec c s addr item [] =
      .ok (SsUdp.encode E.C (toCtx k c) .client (toSession s) (toAddr addr) item (randOf E item), .ok ()) := by
    cases hi : c.identity_keys with
    | nil => exact enc_client_aes ov E N codec c s addr item k hk hx h22 hi (by have := S.size; omega) S.now S.pad S.padLen
    | cons ik iks =>
      exact enc_client_aes_eih ov E N codec c s addr item k ik iks hk hx h22 hi (by rw [← hi]; exact hik) S.size S.now S.pad S.padLen
        S.aes_len
  rw [e, c03_ss_udp_layout_aes_request E.C (toCtx k c) hkind]
  rfl

/-- **identity headers as coded (after the repair 743f501)**: with identity keys, EVERY identity header `with_eih` appended (16 bytes
per key) stays in clear between the AES-encrypted separate header and the sealed body, as the model and the specification
have it.  (The code before the repair skipped a constant 16 bytes, so with two or more identity keys the later headers were
sealed with the body; that layout was stated under this name in the previous round and is refuted by this theorem for the
current code.) -/
theorem c03_ssudp_gen_eih_layout_as_coded (ov : Bool) (E : MEnv) (N : Usize) (codec : AEADCipherCodec) (c : Context MT) (s : Session)
    (addr : Address) (item : List UInt8) (k : Ss.Kind) (ik : Bytes) (iks : List Bytes)
    (hk : toKind codec.kind = some k) (hx : SsUdp.xAlg k = none) (h22 : k.is2022 = true) (hik : c.identity_keys = ik :: iks)
    (hn : (ik :: iks).length < 2 ^ 59) (S : EncSide E N k addr item) :
    AEADCipherCodec.encode_client_packet_aead_2022 ov (XM E) N codec c s addr item [] =
      .ok (E.C.aesEnc ik (be64 s.client_session_id.toNat ++ be64 s.packet_id.toNat) ++
          SsUdp.withEih E.C c.key (be64 s.client_session_id.toNat ++ be64 s.packet_id.toNat) (ik :: iks) ++
          E.C.sealB k.alg (SsUdp.aesSessionKey E.C k c.key s.client_session_id.toNat)
            ((be64 s.client_session_id.toNat ++ be64 s.packet_id.toNat).drop 4) []
            ([0] ++ be64 E.now ++ be16 (padOf E item).length ++ padOf E item ++ Socks5Addr.encode (toAddr addr) ++ item),
        .ok ()) := by
  have he : k.supportEih = true := by cases k <;> simp_all [SsUdp.xAlg, Ss.Kind.is2022, Ss.Kind.supportEih]
  rw [enc_client_aes_eih ov E N codec c s addr item k ik iks hk hx h22 hik hn S.size S.now S.pad S.padLen S.aes_len]
  simp only [SsUdp.encode, toCtx, h22, not_true_eq_false, if_false, hx, hik, toSession, randOf, Ss.Mode.toU8, he, ne_eq,
    List.cons_ne_nil, not_false_eq_true, and_self, if_true, reduceCtorEq]

/-- **C12 (nonce of the AES kinds)**: the AEAD nonce of the generated encoders is bytes 4..16 of (session id ‖ packet id) — see
the layouts above — so two datagrams of one session with different packet ids never share a nonce (and the key, a function of
the session id alone, is the same): no (key, nonce) pair is used twice as long as packet ids differ -/
theorem c12_ssudp_gen_aes_nonce_distinct (s1 s2 : Session) (hsid : s1.client_session_id = s2.client_session_id)
    (hpid : s1.packet_id ≠ s2.packet_id) :
    (be64 s1.client_session_id.toNat ++ be64 s1.packet_id.toNat).drop 4 ≠
      (be64 s2.client_session_id.toNat ++ be64 s2.packet_id.toNat).drop 4 := by
  rw [hsid]
  exact c12_udp_aes_nonce_distinct _ _ _ s1.packet_id.toNat_lt s2.packet_id.toNat_lt (fun h => hpid (UInt64.toNat_inj.mp h))

/-- **C12 (XChaCha kinds)**: the 24-byte nonce on the wire and in the AEAD is exactly what the random-number external
`dice::fill_bytes` wrote (fresh per packet: the randomness is an external), never derived from ids -/
theorem c12_ssudp_gen_xchacha_nonce_is_random (ov : Bool) (E : MEnv) (N : Usize) (codec : AEADCipherCodec) (c : Context MT)
    (s : Session) (addr : Address) (item : List UInt8) (k : Ss.Kind) (xa : Alg) (hk : toKind codec.kind = some k)
    (hx : SsUdp.xAlg k = some xa) (S : EncSide E N k addr item) :
    ∃ body, AEADCipherCodec.encode_client_packet_aead_2022 ov (XM E) N codec c s addr item [] =
      .ok (E.rnd.take 24 ++ E.C.sealB xa (c.key.take 32) (E.rnd.take 24) [] body, .ok ()) := by
  have h22 : k.is2022 = true := by cases k <;> simp_all [SsUdp.xAlg, Ss.Kind.is2022]
  rw [enc_client_x ov E N codec c s addr item k xa hk hx (by have := S.size; omega) S.now S.pad S.padLen (by simpa [h22] using S.rnd)]
  simp only [SsUdp.encode, toCtx, h22, not_true_eq_false, if_false, hx, randOf]
  exact ⟨_, rfl⟩

/-- **C02 (round trip, request direction, generated encoder → generated decoder)**: what the generated client encoder writes for
a session is decoded by the generated server decoder of a paired server (`SsUdp.Paired`: same kind; XChaCha: same key; AES: same
key and no users, or the server key as the client's identity key and the client's key registered) to the same payload,
address, session id, packet id, and attributed to the paired user -/
theorem c02_ssudp_gen_request_roundtrip (ov : Bool) (E : MEnv) (hC : E.C.Lawful) (N : Usize) (cc sc : AEADCipherCodec)
    (c cs : Context MT) (s : Session) (addr : Address) (item : List UInt8) (k : Ss.Kind)
    (hkc : toKind cc.kind = some k) (hks : toKind sc.kind = some k) (h22 : k.is2022 = true)
    (hik : c.identity_keys.length < 2 ^ 59) (owner : Option Ss.User)
    (hp : SsUdp.Paired E.C (toCtx k c) (toCtx k cs) owner) (ha : (toAddr addr).Accepted)
    (S : EncSide E N k addr item) (hul : (cs.user_manager.getD []).length < 2 ^ 64)
    (hw : (SsUdp.encode E.C (toCtx k c) .client (toSession s) (toAddr addr) item (randOf E item)).length < 2 ^ 64) :
    ∃ w, AEADCipherCodec.encode_client_packet_aead_2022 ov (XM E) N cc c s addr item [] = .ok (w, .ok ()) ∧
      embed (AEADCipherCodec.decode_client_packet_aead_2022 ov (XM E) N sc cs w) =
        .ok (item, toAddr addr, ⟨s.client_session_id.toNat, 0, s.packet_id.toNat, owner⟩) := by
  have hr : 24 ≤ E.rnd.length := by simpa [h22] using S.rnd
  refine ⟨_, encode_client_eq ov E N cc c s addr item k hkc h22 hik S.size S.now S.pad S.padLen hr S.aes_len, ?_⟩
  rw [decode_client_eq ov E N sc cs _ k hks h22 hul hw S.now hC.open_len hC.aes_dec_len]
  have hpl : (padOf E item).length < 65536 := by
    unfold padOf; split
    · rw [S.pad]; exact S.padLen
    · simp
  exact SsUdp.request_paired E.C hC (toCtx k c) (toCtx k cs) owner hp (toSession s) s.client_session_id.toNat_lt s.packet_id.toNat_lt
    (toAddr addr) ha item (randOf E item) E.now ⟨S.now, by simp [randOf, Ss.absDiff], hpl⟩
    (fun _ => by simp only [randOf, List.length_take]; omega)

/-- **C12 (packet id step)**: `Session::increase_packet_id` steps the id by exactly one and never panics; below 2^64 − 1 the new id is
the model's `packetId + 1`, so ids of consecutive datagrams differ and `c12_ssudp_gen_aes_nonce_distinct` applies -/
theorem c12_ssudp_gen_packet_id_steps (ov : Bool) {T : ExtTypes} (X : Ext T) (N : Usize) (s : Session)
    (h : s.packet_id.toNat + 1 < 2 ^ 64) :
    ∃ s', Session.increase_packet_id ov X N s = PWGen.Res.ok (s', ()) ∧ (toSession s').packetId = (toSession s).packetId + 1 ∧
      s'.packet_id ≠ s.packet_id ∧ s'.client_session_id = s.client_session_id ∧ s'.server_session_id = s.server_session_id :=
  ⟨_, increase_packet_id_eval ov X N s, increase_packet_id_toNat s h, by
    intro e
    have := congrArg UInt64.toNat e
    simp only [UInt64.toNat_add, UInt64.reduceToNat] at this
    rw [Nat.mod_eq_of_lt h] at this
    omega, rfl, rfl⟩

example : ∃ s : Session, s.packet_id.toNat + 1 < 2 ^ 64 := ⟨⟨0, 0, 0, none⟩, by decide⟩

end Octo.Props.C02SsUdpGen
