#!/usr/bin/env python3
"""Rust-subset -> Lean 4 translator for the client's local inbound recognition
`octo-squirrel-client/src/client/handshake.rs`.

usage:  translate_handshake.py <path/to/octo-squirrel-client/src/client/handshake.rs> <out.lean>

Translated from the argument: every top-level `enum` (here `Proxy`) and every top-level free `fn` that is not `async`
and not cfg/test-gated (here `check_address`, `recognize_http`), including an `enum` declared inside a function body.
`async fn` items (`get_request_addr`, `read_closed`, `recognize`: socket I/O, timers, the external crate `httparse`) are
not translatable as a whole; they are skipped by balanced-bracket matching and listed in the generated header.  From
`get_request_addr` one separable pure fragment is translated when it is present token for token in the shape the
translator knows: the scan for the blank line `buf[..len].windows(4).position(|w| w == b"\\r\\n\\r\\n")` together with
the number of bytes then consumed (`end + 4`) -> `connect_scan` / `connect_consume`.

One more source file is read, found relative to the argument (`<root>` = three directories above the argument's
directory) or - for copies kept in one directory - under the flat name:

  address   <root>/octo-squirrel/src/protocol/address.rs | <dir>/address_type.rs     `enum Address`
            (declared in `Octo/Gen/AddrGen.lean`, written by translate_addr.py; the sha256 recorded there is compared)

Tokenizer of translate_nonce.py, `Node` / `Unsupported` / item skipping of translate_pw.py / translate_addr.py,
`use` parsing and literal decoding of translate_trojan.py.  New here (the constructs of this file): `&str` as UTF-8
bytes with the `std` string methods the file uses (exact definitions in the generated prelude), range indexing of a
`&str` (panics off a char boundary / out of range), closures in exactly the shapes `opt.map(|x| e)`,
`opt.filter(|&x| e)`, `opt.ok_or_else(|| anyhow!(..))`, `s.bytes().all(|b| e)`, `if let`, `else if`, `match` on a
tuple with nested `Some`/`None`/constructor patterns (emitted as a Lean `match`, first arm that matches), `matches!`
with literal alternatives, string literals, `mut` parameters, `.parse()` with the target type inferred from the
constructor field the value flows into.

Exit status:
  0  a Lean module was written
  2  usage / IO error (also: an `AddrGen.lean` next to the output that was generated from another `address.rs`)
  3  a construct outside the supported subset inside a target item (or a target item / source file is missing);
     one line on stderr; nothing is written (never a guess).
"""
import hashlib
import os
import re
import sys

sys.path.insert(0, os.path.dirname(os.path.abspath(__file__)))
import translate_pw as pw  # noqa: E402
import translate_nonce as tn  # noqa: E402
import translate_addr as ta  # noqa: E402
import translate_trojan as tt  # noqa: E402
from translate_pw import Unsupported, Node, RUST_KEYWORDS, LEAN_KEYWORDS  # noqa: E402

INTS = {"u8": ("UInt8", "U8", 8), "u16": ("UInt16", "U16", 16), "u32": ("UInt32", "U32", 32),
        "u64": ("UInt64", "U64", 64), "usize": ("Usize", "U64", 64)}
CAST_PREFIX = {"u8": "U8", "u16": "U16", "u32": "U32", "u64": "U64", "usize": "Usize"}
LIB_NAMES = ("String", "Result", "Option", "Ok", "Err", "Some", "None", "Address", "Str", "RString", "RResult", "Res", "Flow")
USE_SUFFIX = {
    "Address": ["protocol", "address", "Address"],
    "bail": ["anyhow", "bail"],
    "anyhow": ["anyhow", "anyhow"],
}
BINOPS = [["||"], ["&&"], ["==", "!=", "<", ">", "<=", ">="], ["|"], ["^"], ["&"], ["<<", ">>"], ["+", "-"], ["*", "/", "%"]]



# --------------------------------------------------------------------------------------------
# parser
# --------------------------------------------------------------------------------------------

class Parser(tt.Parser):
    def __init__(self, toks):
        tt.Parser.__init__(self, toks, "hs")
        self.fns = []
        self.async_fns = []      # (name, first token index, end token index, first line, end line)

    # -- items
    def parse_file(self):
        while self.tok.kind != "eof":
            if self.at(";"):
                self.advance()
                continue
            first = self.tok
            attrs = self.parse_attrs()
            self.parse_vis()
            t = self.tok
            nxt = self.peek()
            gated = any(re.sub(r"\s+", "", text).startswith(("cfg(", "test")) for text, _ in attrs)
            kw = t.text
            name = nxt.text if nxt.kind == "ident" else ""
            if gated:
                end = self.skip_item()
                self.note_skip("cfg/test-gated %s %s" % (kw, name), first.line, end)
                continue
            if self.at("use"):
                self.parse_use()
                continue
            if t.kind == "ident" and kw in ("struct", "enum", "union", "trait", "type", "mod", "fn", "const", "static") \
                    and name in LIB_NAMES:
                raise Unsupported("`%s %s`: a local definition of a name the translator reads as a library name" % (kw, name), t.line)
            if self.at("enum"):
                self.check_attrs(attrs)
                self.enums.append(self.parse_enum())
                continue
            if self.at("fn"):
                self.check_attrs(attrs)
                self.fns.append(self.parse_fn())
                continue
            if self.at("async") and nxt.text == "fn":
                name = self.peek(2).text
                start = self.pos
                end = self.skip_item()
                self.async_fns.append((name, start, self.pos, first.line, end))
                self.note_skip("async fn %s (socket I/O, timers%s)" % (name, ", crate `httparse`" if name == "recognize" else ""), first.line, end)
                continue
            if self.at("macro_rules") and nxt.text == "!":
                name = self.peek(2).text
            end = self.skip_item()
            what = "%s %s" % (kw, name) if name else "item starting with `%s`" % kw
            self.note_skip(what, first.line, end)

    # -- types
    def parse_type(self):
        t = self.tok
        if self.at("&") or self.at("&&"):
            n = 2 if self.at("&&") else 1
            self.advance()
            if self.tok.kind == "lifetime":
                self.advance()
            mut = bool(self.accept("mut"))
            inner = self.parse_type()
            node = Node("tref", t.line, mut=mut, inner=inner)
            if n == 2:
                node = Node("tref", t.line, mut=False, inner=node)
            return node
        if self.at("("):
            self.advance()
            if self.accept(")"):
                return Node("tunit", t.line)
            elems = [self.parse_type()]
            while self.accept(","):
                if self.at(")"):
                    break
                elems.append(self.parse_type())
            self.expect(")")
            return elems[0] if len(elems) == 1 else Node("ttuple", t.line, elems=elems)
        if self.at("[") or self.at("*") or self.at("dyn") or self.at("impl") or self.at("fn"):
            raise Unsupported("type starting with `%s`" % t.text, t.line)
        if t.kind != "ident" or t.text in RUST_KEYWORDS and t.text not in ("Self",):
            raise Unsupported("type starting with `%s`" % t.text, t.line)
        self.advance()
        segs = [t.text]
        while self.at("::"):
            self.advance()
            segs.append(self.ident().text)
        args = []
        if self.at("<"):
            self.advance()
            while not self.at(">"):
                args.append(self.parse_type())
                if not self.accept(","):
                    break
            self.expect(">")
        return Node("tname", t.line, name=segs[-1], segs=segs, args=args)

    def parse_fn(self):
        line = self.expect("fn").line
        name = self.ident().text
        if self.at("<"):
            raise Unsupported("generic fn", line)
        self.expect("(")
        params = []
        while not self.at(")"):
            if self.at("self") or self.at("&"):
                raise Unsupported("receiver / pattern parameter", self.tok.line)
            pl = self.tok.line
            mut = bool(self.accept("mut"))
            pname = self.ident().text
            self.expect(":")
            params.append(Node("param", pl, name=pname, ty=self.parse_type(), mut=mut))
            if not self.accept(","):
                break
        self.expect(")")
        ret = Node("tunit", line)
        if self.accept("->"):
            ret = self.parse_type()
        if self.at("where"):
            raise Unsupported("where clause", self.tok.line)
        body = self.parse_block()
        return Node("fn", line, name=name, params=params, ret=ret, body=body)

    # -- blocks and statements
    def parse_block(self):
        line = self.expect("{").line
        stmts, tail, enums = [], None, []
        while not self.at("}"):
            if self.tok.kind == "eof":
                raise Unsupported("unterminated block", line)
            if self.accept(";"):
                continue
            if self.at("#"):
                raise Unsupported("attribute inside a function body", self.tok.line)
            if self.at("enum"):
                enums.append(self.parse_enum())
                continue
            if self.tok.kind == "ident" and self.tok.text in ("struct", "fn", "const", "static", "use", "impl", "trait", "type", "mod", "macro_rules", "unsafe", "async", "loop", "while", "for"):
                raise Unsupported("`%s` inside a function body" % self.tok.text, self.tok.line)
            if self.at("let"):
                stmts.append(self.parse_let())
                continue
            e = self.parse_expr(stmt=True)
            if self.accept(";"):
                stmts.append(Node("exprstmt", e.line, expr=e))
            elif self.at("}"):
                tail = e
            elif e.kind in ("if", "iflet", "match", "block"):
                stmts.append(Node("exprstmt", e.line, expr=e))
            else:
                raise Unsupported("expected `;` or `}` after an expression, found `%s`" % self.tok.text, self.tok.line)
        self.expect("}")
        return Node("block", line, stmts=stmts, tail=tail, enums=enums)

    def parse_let(self):
        line = self.expect("let").line
        if self.at("mut"):
            raise Unsupported("`let mut`", line)
        if self.tok.kind != "ident" or self.tok.text in RUST_KEYWORDS:
            raise Unsupported("`let` with a pattern", line)
        name = self.advance().text
        ty = None
        if self.accept(":"):
            ty = self.parse_type()
        if not self.accept("="):
            raise Unsupported("`let` without initializer", line)
        e = self.parse_expr()
        if self.at("else"):
            raise Unsupported("`let .. else`", line)
        self.expect(";")
        return Node("let", line, name=name, ty=ty, expr=e)

    # -- patterns
    def parse_pattern(self):
        line = self.tok.line
        alts = [self.parse_pattern1()]
        while self.at("|"):
            self.advance()
            alts.append(self.parse_pattern1())
        return alts[0] if len(alts) == 1 else Node("por", line, alts=alts)

    def parse_pattern1(self):
        t = self.tok
        if self.at("&"):
            self.advance()
            if self.at("mut"):
                raise Unsupported("`&mut` pattern", t.line)
            return Node("pref", t.line, sub=self.parse_pattern1())
        if self.at("("):
            self.advance()
            subs = []
            while not self.at(")"):
                if self.at(".."):
                    raise Unsupported("rest pattern `..`", self.tok.line)
                subs.append(self.parse_pattern())
                if not self.accept(","):
                    break
            self.expect(")")
            if len(subs) == 1:
                return subs[0]
            if not subs:
                raise Unsupported("unit pattern", t.line)
            return Node("ptuple", t.line, subs=subs)
        if t.kind == "char":
            self.advance()
            if t.text.startswith("b'"):
                return Node("plit", t.line, value=tt.byte_literal(t), ty="u8", text=t.text)
            raise Unsupported("`char` literal pattern", t.line)
        if t.kind == "int":
            self.advance()
            lit = ta.parse_int(t)
            if self.at("..") or self.at("..="):
                raise Unsupported("range pattern", t.line)
            return Node("plit", t.line, value=lit["value"], ty=lit.get("suffix"), text=t.text)
        if t.kind == "ident" and t.text == "_":
            self.advance()
            return Node("pwild", t.line)
        if t.kind == "ident" and t.text in ("mut", "ref", "box"):
            raise Unsupported("`%s` in a pattern" % t.text, t.line)
        if t.kind == "ident" and t.text not in RUST_KEYWORDS:
            self.advance()
            segs = [t.text]
            while self.accept("::"):
                segs.append(self.ident().text)
            if self.at("{") and len(segs) > 1:
                raise Unsupported("struct pattern", t.line)
            if self.at("@"):
                raise Unsupported("`@` pattern", t.line)
            if self.at("("):
                self.advance()
                subs = []
                while not self.at(")"):
                    if self.at(".."):
                        raise Unsupported("rest pattern `..`", self.tok.line)
                    subs.append(self.parse_pattern())
                    if not self.accept(","):
                        break
                self.expect(")")
                return Node("pctor", t.line, segs=segs, subs=subs)
            if len(segs) == 1 and segs[0] != "None" and not segs[0][0].isupper():
                return Node("pbind", t.line, name=segs[0])
            return Node("pctor", t.line, segs=segs, subs=[])
        raise Unsupported("pattern starting with `%s`" % t.text, t.line)

    # -- expressions
    def parse_expr(self, stmt=False):
        return self.parse_bin(0)

    def parse_bin(self, level):
        if level == len(BINOPS):
            return self.parse_cast()
        l = self.parse_bin(level + 1)
        while self.tok.kind == "punct" and self.tok.text in BINOPS[level]:
            op = self.advance()
            r = self.parse_bin(level + 1)
            if level == 2 and self.tok.kind == "punct" and self.tok.text in BINOPS[2]:
                raise Unsupported("chained comparison (rustc would reject)", op.line)
            l = Node("bin", op.line, op=op.text, l=l, r=r)
        if level == 0 and self.tok.kind == "punct" and self.tok.text in ("=", "+=", "-=", "*=", "/=", "%=", "..", "..="):
            if self.at("="):
                line = self.advance().line
                r = self.parse_bin(0)
                return Node("assign", line, target=l, expr=r)
            raise Unsupported("operator `%s` here" % self.tok.text, self.tok.line)
        return l

    def parse_cast(self):
        e = self.parse_unary()
        while self.at("as"):
            line = self.advance().line
            e = Node("cast", line, expr=e, ty=self.parse_type())
        return e

    def parse_unary(self):
        t = self.tok
        if self.at("&") or self.at("&&"):
            n = 2 if self.at("&&") else 1
            self.advance()
            mut = bool(self.accept("mut"))
            e = Node("ref", t.line, mut=mut, expr=self.parse_unary())
            return Node("ref", t.line, mut=False, expr=e) if n == 2 else e
        if self.at("*"):
            self.advance()
            return Node("deref", t.line, expr=self.parse_unary())
        if self.at("!"):
            self.advance()
            return Node("not", t.line, expr=self.parse_unary())
        if self.at("-"):
            raise Unsupported("unary minus", t.line)
        return self.parse_postfix()

    def parse_args(self):
        self.expect("(")
        args = []
        while not self.at(")"):
            args.append(self.parse_expr())
            if not self.accept(","):
                break
        self.expect(")")
        return args

    def parse_index(self, base, line):
        """after `[`: an index or a range"""
        lo = hi = None
        if self.at("..="):
            raise Unsupported("inclusive range index", line)
        if self.accept(".."):
            if not self.at("]"):
                hi = self.parse_bin(1)
            self.expect("]")
            return Node("slice", line, base=base, lo=None, hi=hi)
        lo = self.parse_bin(1)
        if self.at("..="):
            raise Unsupported("inclusive range index", line)
        if self.accept(".."):
            if not self.at("]"):
                hi = self.parse_bin(1)
            self.expect("]")
            return Node("slice", line, base=base, lo=lo, hi=hi)
        self.expect("]")
        return Node("index", line, base=base, idx=lo)

    def parse_postfix(self):
        e = self.parse_primary()
        while True:
            if self.at("."):
                line = self.advance().line
                if self.tok.kind in ("int", "float"):
                    raise Unsupported("tuple field access", line)
                if self.at("await"):
                    raise Unsupported("`.await`", line)
                f = self.ident().text
                targs = None
                if self.at("::"):
                    self.advance()
                    self.expect("<")
                    targs = [self.parse_type()]
                    while self.accept(","):
                        targs.append(self.parse_type())
                    self.expect(">")
                if not self.at("("):
                    raise Unsupported("field access `.%s`" % f, line)
                e = Node("mcall", line, base=e, name=f, args=self.parse_args(), targs=targs)
            elif self.at("["):
                line = self.advance().line
                e = self.parse_index(e, line)
            elif self.at("("):
                raise Unsupported("call of a computed function value", self.tok.line)
            elif self.at("?"):
                line = self.advance().line
                e = Node("try", line, expr=e)
            else:
                return e

    def parse_closure(self):
        t = self.tok
        params = []
        if self.accept("||"):
            pass
        else:
            self.expect("|")
            while not self.at("|"):
                params.append(self.parse_pattern1())
                if self.at(":"):
                    raise Unsupported("closure parameter with a type", self.tok.line)
                if not self.accept(","):
                    break
            self.expect("|")
        if self.at("->") or self.at("{"):
            raise Unsupported("closure with a block body / return type", t.line)
        body = self.parse_expr()
        return Node("closure", t.line, params=params, body=body)

    def parse_macro(self, name, line):
        """`name!(` ... `)`: expression arguments; for `matches!` the second argument is a pattern"""
        self.expect("!")
        if not self.at("("):
            raise Unsupported("macro `%s!` without parentheses" % name, line)
        if name == "matches":
            self.advance()
            e = self.parse_expr()
            self.expect(",")
            p = self.parse_pattern()
            if self.at("if"):
                raise Unsupported("`matches!` with a guard", line)
            self.accept(",")
            self.expect(")")
            return Node("matches", line, expr=e, pat=p)
        if name not in ("bail", "anyhow"):
            raise Unsupported("macro `%s!`" % name, line)
        args = self.parse_args()
        return Node("macro", line, name=name, args=args)

    def parse_primary(self):
        t = self.tok
        if t.kind == "int":
            self.advance()
            lit = ta.parse_int(t)
            return Node("lit", t.line, value=lit["value"], suffix=lit.get("suffix"), text=t.text)
        if t.kind == "float":
            raise Unsupported("floating point literal", t.line)
        if t.kind == "char":
            self.advance()
            if t.text.startswith("b'"):
                return Node("lit", t.line, value=tt.byte_literal(t), suffix="u8", text=t.text)
            return Node("charlit", t.line, value=char_literal(t), text=t.text)
        if t.kind == "str":
            self.advance()
            if t.text.startswith('b"'):
                return Node("bstrlit", t.line, bytes=tt.rust_string(t.text[1:], t.line), text=t.text)
            if not t.text.startswith('"'):
                raise Unsupported("raw / C string literal", t.line)
            return Node("strlit", t.line, bytes=tt.rust_string(t.text, t.line), text=t.text)
        if self.at("("):
            self.advance()
            if self.at(")"):
                self.advance()
                return Node("unit", t.line)
            elems = [self.parse_expr()]
            trailing = False
            while self.accept(","):
                trailing = True
                if self.at(")"):
                    break
                elems.append(self.parse_expr())
            self.expect(")")
            if len(elems) == 1 and not trailing:
                return Node("paren", t.line, expr=elems[0])
            return Node("tuple", t.line, elems=elems)
        if self.at("|") or self.at("||"):
            return self.parse_closure()
        if self.at("{"):
            return self.parse_block()
        if self.at("if"):
            return self.parse_if()
        if self.at("match"):
            return self.parse_match()
        if self.at("return"):
            self.advance()
            e = None
            if not (self.at(";") or self.at("}") or self.at(",")):
                e = self.parse_expr()
            return Node("return", t.line, expr=e)
        if self.at("true") or self.at("false"):
            self.advance()
            return Node("boollit", t.line, value=t.text == "true")
        if t.kind == "ident" and t.text in ("loop", "while", "for", "break", "continue", "unsafe", "async", "move", "let", "self", "Self", "super", "crate"):
            raise Unsupported("`%s` expression" % t.text, t.line)
        if t.kind == "ident" and t.text not in RUST_KEYWORDS:
            self.advance()
            segs = [t.text]
            while self.at("::"):
                self.advance()
                if self.at("<"):
                    raise Unsupported("explicit type arguments in a path", t.line)
                segs.append(self.ident().text)
            if self.at("!"):
                if len(segs) != 1:
                    raise Unsupported("macro path", t.line)
                return self.parse_macro(segs[0], t.line)
            if self.at("("):
                return Node("call", t.line, segs=segs, args=self.parse_args())
            if len(segs) == 1:
                return Node("var", t.line, name=segs[0])
            return Node("path", t.line, segs=segs)
        raise Unsupported("expression starting with `%s`" % (t.text or "end of file"), t.line)

    def parse_cond(self):
        """condition of `if`: `let PAT = EXPR` or an expression (no struct literals in the subset)"""
        if self.at("let"):
            line = self.advance().line
            p = self.parse_pattern()
            self.expect("=")
            e = self.parse_bin(1)       # no `||` / `&&` chains after a `let` scrutinee without parentheses
            if self.at("&&") or self.at("||"):
                raise Unsupported("`if let` chain", line)
            return ("let", p, e)
        return ("expr", self.parse_expr(), None)

    def parse_if(self):
        line = self.expect("if").line
        kind, a, b = self.parse_cond()
        then = self.parse_block()
        els = None
        if self.accept("else"):
            els = self.parse_if() if self.at("if") else self.parse_block()
            if els.kind != "block":
                els = Node("block", els.line, stmts=[], tail=els, enums=[])
        if kind == "let":
            return Node("iflet", line, pat=a, expr=b, then=then, els=els)
        return Node("if", line, cond=a, then=then, els=els)

    def parse_match(self):
        line = self.expect("match").line
        scrut = self.parse_expr()
        self.expect("{")
        arms = []
        while not self.at("}"):
            al = self.tok.line
            p = self.parse_pattern()
            if self.at("if"):
                raise Unsupported("match guard", self.tok.line)
            self.expect("=>")
            body = self.parse_expr()
            if body.kind == "block":
                self.accept(",")
            elif not self.at("}"):
                self.expect(",")
            arms.append(Node("arm", al, pat=p, body=body))
        self.expect("}")
        return Node("match", line, expr=scrut, arms=arms)


def char_literal(t):
    body = t.text[1:-1]
    esc = {"\\n": 10, "\\r": 13, "\\t": 9, "\\\\": 92, "\\0": 0, "\\'": 39, "\\\"": 34}
    if body in esc:
        return esc[body]
    if len(body) == 1 and body not in "\\'":
        return ord(body)
    raise Unsupported("char literal `%s`" % t.text, t.line)


# --------------------------------------------------------------------------------------------
# pretty printer of the parsed Rust (only for the comments in the generated file)
# --------------------------------------------------------------------------------------------

def show_type(t):
    k = t.kind
    if k == "tunit":
        return "()"
    if k == "tref":
        return "&%s%s" % ("mut " if t.mut else "", show_type(t.inner))
    if k == "ttuple":
        return "(%s)" % ", ".join(show_type(x) for x in t.elems)
    s = "::".join(t.segs)
    if t.args:
        s += "<%s>" % ", ".join(show_type(a) for a in t.args)
    return s


def show_pat(p):
    k = p.kind
    if k == "pwild":
        return "_"
    if k == "pbind":
        return p.name
    if k == "pref":
        return "&" + show_pat(p.sub)
    if k == "plit":
        return p.text
    if k == "ptuple":
        return "(%s)" % ", ".join(show_pat(x) for x in p.subs)
    if k == "por":
        return " | ".join(show_pat(x) for x in p.alts)
    s = "::".join(p.segs)
    if p.subs:
        s += "(%s)" % ", ".join(show_pat(x) for x in p.subs)
    return s


def show(e):
    k = e.kind
    if k in ("lit", "charlit", "strlit", "bstrlit"):
        return e.text
    if k == "boollit":
        return "true" if e.value else "false"
    if k == "var":
        return e.name
    if k == "path":
        return "::".join(e.segs)
    if k == "unit":
        return "()"
    if k == "paren":
        return "(%s)" % show(e.expr)
    if k == "tuple":
        return "(%s)" % ", ".join(show(x) for x in e.elems)
    if k == "call":
        return "%s(%s)" % ("::".join(e.segs), ", ".join(show(a) for a in e.args))
    if k == "mcall":
        ta_ = ("::<%s>" % ", ".join(show_type(x) for x in e.targs)) if e.targs else ""
        return "%s.%s%s(%s)" % (show(e.base), e.name, ta_, ", ".join(show(a) for a in e.args))
    if k == "macro":
        return "%s!(%s)" % (e.name, ", ".join(["\"…\""] + [show(a) for a in e.args[1:]]) if e.args else "")
    if k == "matches":
        return "matches!(%s, %s)" % (show(e.expr), show_pat(e.pat))
    if k == "index":
        return "%s[%s]" % (show(e.base), show(e.idx))
    if k == "slice":
        return "%s[%s..%s]" % (show(e.base), show(e.lo) if e.lo else "", show(e.hi) if e.hi else "")
    if k == "ref":
        return "&%s%s" % ("mut " if e.mut else "", show(e.expr))
    if k == "deref":
        return "*" + show(e.expr)
    if k == "not":
        return "!" + show(e.expr)
    if k == "try":
        return show(e.expr) + "?"
    if k == "cast":
        return "%s as %s" % (show(e.expr), show_type(e.ty))
    if k == "bin":
        return "%s %s %s" % (show(e.l), e.op, show(e.r))
    if k == "assign":
        return "%s = %s" % (show(e.target), show(e.expr))
    if k == "closure":
        return "|%s| %s" % (", ".join(show_pat(p) for p in e.params), show(e.body))
    if k == "return":
        return "return" + ((" " + show(e.expr)) if e.expr else "")
    if k == "if":
        return "if %s { ... }" % show(e.cond)
    if k == "iflet":
        return "if let %s = %s { ... }" % (show_pat(e.pat), show(e.expr))
    if k == "match":
        return "match %s { ... }" % show(e.expr)
    if k == "block":
        return "{ ... }"
    return "<%s>" % k


# --------------------------------------------------------------------------------------------
# types
# --------------------------------------------------------------------------------------------

def type_str(t):
    if isinstance(t, tuple):
        if t[0] == "option":
            return "Option<%s>" % type_str(t[1])
        if t[0] == "result":
            return "Result<%s>" % type_str(t[1])
        if t[0] == "tuple":
            return "(%s)" % ", ".join(type_str(x) for x in t[1])
    if t == "str":
        return "&str"
    return str(t)


def lean_name(n):
    return pw.lean_name(n)


class Var:
    def __init__(self, name, ty, mut, lean):
        self.name, self.ty, self.mut, self.lean = name, ty, mut, lean


# --------------------------------------------------------------------------------------------
# type checker + emitter
# --------------------------------------------------------------------------------------------

class Gen:
    def __init__(self, idents, uses):
        self.idents = set(idents)
        self.uses = uses
        self.enums = {}          # Rust name -> (lean name, [(variant, [field types])])
        self.counter = 0
        self.ov = self.fresh_fixed("ov")
        self.used_names = set()
        self.scopes = []
        self.lines = []
        self.hoisted = []        # declarations of enums local to a function body
        self.ret_ty = None
        self.fn_name = None

    # -- names
    def fresh_fixed(self, base):
        n = base
        while n in self.idents:
            n += "_"
        self.idents.add(n)
        return n

    def fresh(self):
        while True:
            self.counter += 1
            n = "v%d" % self.counter
            if n not in self.idents:
                return n

    def require_use(self, name, line):
        self.used_names.add(name)
        want = USE_SUFFIX[name]
        got = self.uses.get(name)
        if got is None or got[-len(want):] != want:
            raise Unsupported("`%s` is not imported as `..::%s` (found: %s)" % (name, "::".join(want), "::".join(got) if got else "no `use`"), line)

    def lookup(self, name, line):
        for scope in reversed(self.scopes):
            if name in scope:
                return scope[name]
        raise Unsupported("unknown name `%s`" % name, line)

    def declare(self, name, ty, mut, line):
        if name in (self.ov,) or name in LEAN_KEYWORDS and False:
            raise Unsupported("local name `%s` clashes with a generated name" % name, line)
        self.scopes[-1][name] = Var(name, ty, mut, lean_name(name))

    # -- types
    def resolve_type(self, t):
        k = t.kind
        if k == "tunit":
            return "unit"
        if k == "tref":
            if t.mut:
                raise Unsupported("`&mut` type", t.line)
            if t.inner.kind == "tname" and t.inner.segs == ["str"]:
                return "str"
            inner = self.resolve_type(t.inner)
            if inner == "str":
                raise Unsupported("type `%s`" % show_type(t), t.line)
            return inner
        if k == "ttuple":
            return ("tuple", tuple(self.resolve_type(x) for x in t.elems))
        segs, name = t.segs, t.name
        if len(segs) == 1 and name in INTS and not t.args:
            return name
        if segs == ["bool"] and not t.args:
            return "bool"
        if segs == ["String"] and not t.args:
            return "String"
        if name == "Result":
            if segs == ["anyhow", "Result"] and len(t.args) == 1:
                return ("result", self.resolve_type(t.args[0]))
            if segs in (["Result"], ["std", "result", "Result"]) and len(t.args) == 2:
                a = t.args[1]
                if not (a.kind == "tname" and a.segs == ["anyhow", "Error"] and not a.args):
                    raise Unsupported("error type `%s` (only `anyhow::Error`)" % show_type(a), t.line)
                return ("result", self.resolve_type(t.args[0]))
        if name == "Option" and segs in (["Option"], ["std", "option", "Option"]) and len(t.args) == 1:
            return ("option", self.resolve_type(t.args[0]))
        if len(segs) == 1 and not t.args and name in self.enums:
            if name == "Address":
                self.require_use("Address", t.line)
            return name
        raise Unsupported("type `%s`" % show_type(t), t.line)

    def lean_type(self, t):
        if isinstance(t, tuple):
            if t[0] == "option":
                return "Option %s" % self.lean_atom(t[1])
            if t[0] == "result":
                return "RResult %s" % self.lean_atom(t[1])
            if t[0] == "tuple":
                return " × ".join(self.lean_atom(x) for x in t[1])
        if t in INTS:
            return INTS[t][0]
        if t in self.enums:
            return self.enums[t][0]
        return {"bool": "Bool", "str": "Str", "String": "RString", "unit": "Unit"}[t]

    def lean_atom(self, t):
        s = self.lean_type(t)
        return "(%s)" % s if " " in s else s

    # -- constructors
    def ctor_of(self, segs, line):
        """(enum name, variant, field types) of a constructor path, or None"""
        if len(segs) >= 2 and segs[-2] in self.enums:
            en = segs[-2]
            if len(segs) > 2:
                raise Unsupported("qualified constructor path `%s`" % "::".join(segs), line)
            if en == "Address":
                self.require_use("Address", line)
            for v, ftys in self.enums[en][1]:
                if v == segs[-1]:
                    return en, v, ftys
            raise Unsupported("`%s` has no variant `%s` (rustc would reject)" % (en, segs[-1]), line)
        return None

    def ctor_term(self, en, v):
        return "%s.%s" % (self.enums[en][0], lean_name(v))

    def strip(self, e):
        while e.kind in ("paren", "ref", "deref"):
            e = e.expr
        return e

    def lit(self, v, ty, line):
        if ty not in INTS:
            raise Unsupported("integer literal where a `%s` is expected" % type_str(ty), line)
        if v >= 2 ** INTS[ty][2]:
            raise Unsupported("literal %d out of range for `%s` (rustc would reject)" % (v, ty), line)
        return "(%d : %s)" % (v, INTS[ty][0])

    def is_bare_literal(self, e):
        e = self.strip(e)
        return e.kind == "lit" and e.suffix is None

    # ------------------------------------------------------------------------------------
    # expressions: (type, Lean term); bindings that must precede the term are appended to `pre`
    # ------------------------------------------------------------------------------------
    def ex(self, e, expected, pre):
        k = e.kind
        if k in ("paren", "ref", "deref"):
            if k == "ref" and e.mut:
                raise Unsupported("`&mut` expression", e.line)
            return self.ex(e.expr, expected, pre)
        if k == "lit":
            ty = e.suffix or expected
            if ty is None:
                raise Unsupported("cannot determine the type of the literal `%s`" % e.text, e.line)
            return ty, self.lit(e.value, ty, e.line)
        if k == "boollit":
            return "bool", "true" if e.value else "false"
        if k == "strlit":
            return "str", "([%s] : Str)" % ", ".join(str(b) for b in e.bytes)
        if k == "unit":
            return "unit", "()"
        if k == "var":
            if e.name == "None":
                if not (isinstance(expected, tuple) and expected[0] == "option"):
                    raise Unsupported("cannot determine the type of `None`", e.line)
                return expected, "(none : %s)" % self.lean_type(expected)
            v = self.lookup(e.name, e.line)
            return v.ty, v.lean
        if k == "path":
            if e.segs == ["u8", "MAX"]:
                return "u8", "(255 : UInt8)"
            if e.segs == ["u16", "MAX"]:
                return "u16", "(65535 : UInt16)"
            c = self.ctor_of(e.segs, e.line)
            if c:
                en, v, ftys = c
                if ftys:
                    raise Unsupported("constructor `%s` used as a function value" % "::".join(e.segs), e.line)
                return en, self.ctor_term(en, v)
            raise Unsupported("path `%s`" % "::".join(e.segs), e.line)
        if k == "call":
            return self.ex_call(e, expected, pre)
        if k == "mcall":
            return self.ex_mcall(e, expected, pre)
        if k == "slice":
            return self.ex_slice(e, pre)
        if k == "cast":
            target = self.resolve_type(e.ty)
            if target not in INTS:
                raise Unsupported("cast to `%s`" % show_type(e.ty), e.line)
            if self.is_bare_literal(e.expr):
                raise Unsupported("cast of an unsuffixed literal", e.line)
            sty, s = self.ex(e.expr, None, pre)
            if sty not in INTS:
                raise Unsupported("cast from `%s`" % type_str(sty), e.line)
            if sty == target or {sty, target} == {"u64", "usize"}:
                return target, s
            return target, "(%s.as_%s %s)" % (CAST_PREFIX[sty], target, s)
        if k == "not":
            ty, t = self.ex(e.expr, "bool", pre)
            if ty != "bool":
                raise Unsupported("`!` on a `%s`" % type_str(ty), e.line)
            return "bool", "(!%s)" % t
        if k == "try":
            inner = ("result", expected) if expected is not None else None
            ty, t = self.ex(e.expr, inner, pre)
            if not (isinstance(ty, tuple) and ty[0] == "result"):
                raise Unsupported("`?` on a `%s`" % type_str(ty), e.line)
            if not (isinstance(self.ret_ty, tuple) and self.ret_ty[0] == "result"):
                raise Unsupported("`?` in a function that does not return `Result`", e.line)
            v = self.fresh()
            pre.append("Flow.bind (Flow.question %s RResult.err) fun %s =>" % (t, v))
            return ty[1], v
        if k == "bin":
            return self.ex_bin(e, expected, pre)
        if k == "matches":
            return self.ex_matches(e, pre)
        if k in ("if", "iflet", "match", "block"):
            return self.ex_cf(e, expected, pre)
        raise Unsupported("expression `%s`" % show(e), e.line)

    def ex_call(self, e, expected, pre):
        segs = e.segs
        if segs == ["Some"]:
            want = expected[1] if isinstance(expected, tuple) and expected[0] == "option" else None
            if len(e.args) != 1:
                raise Unsupported("`Some` with %d arguments" % len(e.args), e.line)
            ty, t = self.ex(e.args[0], want, pre)
            return ("option", ty), "(some %s)" % t
        if segs == ["Ok"]:
            want = expected[1] if isinstance(expected, tuple) and expected[0] == "result" else None
            if len(e.args) != 1:
                raise Unsupported("`Ok` with %d arguments" % len(e.args), e.line)
            ty, t = self.ex(e.args[0], want, pre)
            return ("result", ty), "(RResult.ok %s)" % t
        c = self.ctor_of(segs, e.line)
        if c:
            en, v, ftys = c
            if len(ftys) != len(e.args):
                raise Unsupported("`%s` takes %d field(s), %d given (rustc would reject)" % ("::".join(segs), len(ftys), len(e.args)), e.line)
            terms = []
            for a, fty in zip(e.args, ftys):
                ty, t = self.ex(a, fty, pre)
                if ty != fty:
                    raise Unsupported("field of `%s` has type `%s`, found `%s` (rustc would reject)" % ("::".join(segs), type_str(fty), type_str(ty)), a.line)
                terms.append(t)
            return en, "(%s %s)" % (self.ctor_term(en, v), " ".join(terms))
        raise Unsupported("call of `%s`" % "::".join(segs), e.line)

    def closure(self, c, nparams, what):
        if c.kind != "closure" or len(c.params) != nparams:
            raise Unsupported("argument of %s is not a closure with %d parameter(s)" % (what, nparams), c.line)
        return c

    def closure_param(self, p, ty, by_ref, what):
        """bind the closure parameter; `by_ref`: the closure receives `&T` (references are transparent)"""
        if p.kind == "pref" and by_ref:
            p = p.sub
        if p.kind != "pbind":
            raise Unsupported("closure parameter `%s` of %s" % (show_pat(p), what), p.line)
        self.declare(p.name, ty, False, p.line)
        return lean_name(p.name)

    def ex_mcall(self, e, expected, pre):
        name, args = e.name, e.args
        if e.targs and name != "parse":
            raise Unsupported("method call with explicit type arguments `.%s::<..>`" % name, e.line)
        # `s.bytes().all(|b| P)`
        if name == "all" and e.base.kind == "mcall" and e.base.name == "bytes" and not e.base.args and len(args) == 1:
            sty, s = self.ex(e.base.base, None, pre)
            if sty != "str":
                raise Unsupported("`.bytes()` on a `%s`" % type_str(sty), e.line)
            c = self.closure(args[0], 1, "`.bytes().all(..)`")
            self.scopes.append({})
            b = self.closure_param(c.params[0], "u8", False, "`.bytes().all(..)`")
            cpre = []
            ty, t = self.ex(c.body, "bool", cpre)
            self.scopes.pop()
            if ty != "bool" or cpre:
                raise Unsupported("closure of `.bytes().all(..)` must be a `bool` expression free of panics / `?`", c.line)
            return "bool", "(Str.bytes_all %s fun %s => %s)" % (s, b, t)
        rty, r = self.ex(e.base, None, pre)
        what = "`.%s(..)` on a `%s`" % (name, type_str(rty))
        if rty == "str":
            if name in ("find", "rfind") and len(args) == 1:
                a = self.strip(args[0])
                if a.kind == "charlit":
                    if a.value >= 128:
                        raise Unsupported("non-ASCII `char` pattern %s" % a.text, a.line)
                    return ("option", "usize"), "(Str.%s_char %s %d)" % (name, r, a.value)
                if a.kind == "strlit" and name == "find":
                    if not a.bytes:
                        raise Unsupported("empty string pattern", a.line)
                    return ("option", "usize"), "(Str.find_str %s [%s])" % (r, ", ".join(str(b) for b in a.bytes))
                raise Unsupported("pattern `%s` of %s (only an ASCII `char` literal%s)" % (show(a), what, " or a string literal" if name == "find" else ""), e.line)
            if name == "ends_with" and len(args) == 1:
                a = self.strip(args[0])
                if a.kind == "charlit" and a.value < 128:
                    return "bool", "(Str.ends_with_char %s %d)" % (r, a.value)
                raise Unsupported("pattern `%s` of %s (only an ASCII `char` literal)" % (show(a), what), e.line)
            if name == "len" and not args:
                return "usize", "(Str.len %s)" % r
            if name == "is_empty" and not args:
                return "bool", "(Str.is_empty %s)" % r
            if name in ("to_owned", "to_string") and not args:
                return "String", "(Str.to_owned %s)" % r
            if name == "parse" and not args:
                if e.targs:
                    if len(e.targs) != 1:
                        raise Unsupported("`.parse::<..>` with %d type arguments" % len(e.targs), e.line)
                    target = self.resolve_type(e.targs[0])
                elif isinstance(expected, tuple) and expected[0] == "result" and expected[1] is not None:
                    target = expected[1]
                else:
                    raise Unsupported("cannot determine the target type of `.parse()`", e.line)
                if target != "u16":
                    raise Unsupported("`.parse::<%s>()` (only `u16`)" % type_str(target), e.line)
                return ("result", "u16"), "(Str.parse_u16 %s)" % r
        if rty == "String":
            if name == "len" and not args:
                return "usize", "(RString.len %s)" % r
            if name == "is_empty" and not args:
                return "bool", "(RString.is_empty %s)" % r
        if rty == "u8" and name == "is_ascii_alphanumeric" and not args:
            return "bool", "(U8.is_ascii_alphanumeric %s)" % r
        if rty == "u8" and name == "is_ascii_digit" and not args:
            return "bool", "(U8.is_ascii_digit %s)" % r
        if isinstance(rty, tuple) and rty[0] == "option":
            inner = rty[1]
            if name in ("map", "filter") and len(args) == 1:
                c = self.closure(args[0], 1, what)
                self.scopes.append({})
                x = self.closure_param(c.params[0], inner, name == "filter", what)
                cpre = []
                bty, b = self.ex(c.body, "bool" if name == "filter" else None, cpre)
                self.scopes.pop()
                if name == "filter":
                    if bty != "bool":
                        raise Unsupported("closure of `.filter(..)` yields a `%s` (rustc would reject)" % type_str(bty), c.line)
                    oty, res = rty, "(if %s then some %s else none)" % (b, x)
                else:
                    oty, res = ("option", bty), "(some %s)" % b
                v = self.fresh()
                pre.append("Flow.bind (")
                pre.append("  match %s with" % r)
                pre.append("  | none => Flow.next (none : %s)" % self.lean_type(oty))
                pre.append("  | some %s =>" % x)
                pre.extend("    " + l for l in cpre)
                pre.append("    Flow.next %s" % res)
                pre.append(") fun %s =>" % v)
                return oty, v
            if name == "ok_or_else" and len(args) == 1:
                c = self.closure(args[0], 0, what)
                b = self.strip(c.body)
                if not (b.kind == "macro" and b.name == "anyhow"):
                    raise Unsupported("closure of `.ok_or_else(..)` is not `|| anyhow!(..)`", c.line)
                self.require_use("anyhow", b.line)
                self.check_format_args(b)
                return ("result", inner), "(Option.ok_or_else %s)" % r
        raise Unsupported(what, e.line)

    def check_format_args(self, m):
        """format arguments of `bail!` / `anyhow!` are dropped: they must be free of panics and effects"""
        if not m.args:
            raise Unsupported("`%s!` without arguments" % m.name, m.line)
        first = self.strip(m.args[0])
        rest = m.args[1:]
        if first.kind != "strlit":
            if first.kind == "var" and not rest:
                self.lookup(first.name, first.line)
                return
            raise Unsupported("first argument of `%s!` is not a string literal" % m.name, m.line)
        for a in rest:
            pre = []
            self.ex(a, None, pre)
            if pre:
                raise Unsupported("format argument `%s` of `%s!` can panic or return" % (show(a), m.name), a.line)

    def ex_slice(self, e, pre):
        bty, b = self.ex(e.base, None, pre)
        if bty != "str":
            raise Unsupported("range index on a `%s` (only `&str`)" % type_str(bty), e.line)
        lo = hi = None
        if e.lo is not None:
            ty, lo = self.ex(e.lo, "usize", pre)
            if ty != "usize":
                raise Unsupported("range bound of type `%s` (rustc would reject)" % type_str(ty), e.line)
        if e.hi is not None:
            ty, hi = self.ex(e.hi, "usize", pre)
            if ty != "usize":
                raise Unsupported("range bound of type `%s` (rustc would reject)" % type_str(ty), e.line)
        if lo is None and hi is None:
            return "str", b
        v = self.fresh()
        if lo is None:
            pre.append("Flow.bind (Flow.strTo %s %s) fun %s =>" % (b, hi, v))
        elif hi is None:
            pre.append("Flow.bind (Flow.strFrom %s %s) fun %s =>" % (b, lo, v))
        else:
            pre.append("Flow.bind (Flow.strRange %s %s %s) fun %s =>" % (b, lo, hi, v))
        return "str", v

    def ex_matches(self, e, pre):
        ty, t = self.ex(e.expr, None, pre)
        alts = e.pat.alts if e.pat.kind == "por" else [e.pat]
        tests = []
        for p in alts:
            if p.kind == "plit" and ty in INTS:
                if p.ty not in (None, ty):
                    raise Unsupported("literal pattern `%s` for a `%s` (rustc would reject)" % (p.text, ty), p.line)
                tests.append("%s == %s" % (t, self.lit(p.value, ty, p.line)))
            else:
                raise Unsupported("pattern `%s` in `matches!` on a `%s` (only integer / byte literals)" % (show_pat(p), type_str(ty)), p.line)
        return "bool", "(%s)" % " || ".join(tests)

    def ex_bin(self, e, expected, pre):
        op = e.op
        if op in ("&&", "||"):
            lt, l = self.ex(e.l, "bool", pre)
            rpre = []
            rt, r = self.ex(e.r, "bool", rpre)
            if lt != "bool" or rt != "bool":
                raise Unsupported("`%s` on non-bool operands (rustc would reject)" % op, e.line)
            if not rpre:
                return "bool", "(%s %s %s)" % (l, op, r)
            v = self.fresh()
            pre.append("Flow.bind (")
            pre.append("  if %s then Flow.next %s else" % (l if op == "||" else "!" + l, "true" if op == "||" else "false"))
            pre.extend("  " + x for x in rpre)
            pre.append("  Flow.next %s" % r)
            pre.append(") fun %s =>" % v)
            return "bool", v
        want = expected if op in ("+", "-", "*") else None
        if self.is_bare_literal(e.l) and not self.is_bare_literal(e.r):
            rpre = []
            rt, _ = self.ex(e.r, want, rpre)     # type only; evaluated again below, in order
            lt, l = self.ex(e.l, rt, pre)
            rt, r = self.ex(e.r, lt, pre)
        else:
            lt, l = self.ex(e.l, want, pre)
            rt, r = self.ex(e.r, lt, pre)
        if lt != rt:
            raise Unsupported("`%s` on a `%s` and a `%s` (rustc would reject)" % (op, type_str(lt), type_str(rt)), e.line)
        if op in ("+", "-", "*"):
            if lt not in INTS:
                raise Unsupported("`%s` on a `%s`" % (op, type_str(lt)), e.line)
            okf = {"+": "addOk", "-": "subOk", "*": "mulOk"}[op]
            pre.append("Flow.bind (Flow.arith %s (%s.%s %s %s)) fun () =>" % (self.ov, INTS[lt][1], okf, l, r))
            return lt, "(%s %s %s)" % (l, op, r)
        if op in ("<", ">", "<=", ">="):
            if lt not in INTS:
                raise Unsupported("`%s` on a `%s`" % (op, type_str(lt)), e.line)
            return "bool", "(decide (%s %s %s))" % (l, {"<=": "≤", ">=": "≥"}.get(op, op), r)
        if op in ("==", "!="):
            if lt not in INTS and lt not in ("str", "bool"):
                raise Unsupported("`%s` on a `%s`" % (op, type_str(lt)), e.line)
            return "bool", "(%s %s %s)" % (l, op, r)
        raise Unsupported("operator `%s`" % op, e.line)

    # -- patterns -> Lean patterns (variables are declared in the current scope)
    def pattern(self, p, ty):
        k = p.kind
        if k == "pwild":
            return "_"
        if k == "pref":
            return self.pattern(p.sub, ty)
        if k == "pbind":
            self.declare(p.name, ty, False, p.line)
            return lean_name(p.name)
        if k == "ptuple":
            if not (isinstance(ty, tuple) and ty[0] == "tuple" and len(ty[1]) == len(p.subs)):
                raise Unsupported("tuple pattern `%s` for a `%s`" % (show_pat(p), type_str(ty)), p.line)
            return "(%s)" % ", ".join(self.pattern(sp, t) for sp, t in zip(p.subs, ty[1]))
        if k == "pctor":
            if p.segs == ["None"] and not p.subs:
                if not (isinstance(ty, tuple) and ty[0] == "option"):
                    raise Unsupported("pattern `None` for a `%s`" % type_str(ty), p.line)
                return "none"
            if p.segs == ["Some"] and len(p.subs) == 1:
                if not (isinstance(ty, tuple) and ty[0] == "option"):
                    raise Unsupported("pattern `Some(..)` for a `%s`" % type_str(ty), p.line)
                return "(some %s)" % self.pattern(p.subs[0], ty[1])
            c = self.ctor_of(p.segs, p.line)
            if c:
                en, v, ftys = c
                if en != ty:
                    raise Unsupported("pattern `%s` for a `%s` (rustc would reject)" % (show_pat(p), type_str(ty)), p.line)
                if len(ftys) != len(p.subs):
                    raise Unsupported("pattern `%s`: `%s` has %d field(s)" % (show_pat(p), v, len(ftys)), p.line)
                if not ftys:
                    return self.ctor_term(en, v)
                return "(%s %s)" % (self.ctor_term(en, v), " ".join(self.pattern(sp, t) for sp, t in zip(p.subs, ftys)))
        raise Unsupported("pattern `%s`" % show_pat(p), p.line)

    def scrutinee(self, e, pre):
        """(types, terms) of the scrutinee of a `match` / `if let`: a tuple expression is matched component-wise"""
        s = e
        while s.kind == "paren":
            s = s.expr
        if s.kind == "tuple":
            tys, terms = [], []
            for x in s.elems:
                ty, t = self.ex(x, None, pre)
                tys.append(ty)
                terms.append(t)
            return tys, terms
        ty, t = self.ex(e, None, pre)
        return [ty], [t]

    def arm_patterns(self, p, tys):
        if len(tys) == 1:
            return self.pattern(p, tys[0])
        q = p
        while q.kind == "pref":
            q = q.sub
        if q.kind == "pwild":
            return ", ".join("_" for _ in tys)
        if q.kind != "ptuple" or len(q.subs) != len(tys):
            raise Unsupported("pattern `%s` for a tuple of %d" % (show_pat(p), len(tys)), p.line)
        return ", ".join(self.pattern(sp, t) for sp, t in zip(q.subs, tys))

    # -- `if` / `if let` / `match` / block in expression position: every branch must be a value free of panics / `?`
    def ex_cf(self, e, expected, pre):
        k = e.kind
        if k == "block":
            if e.stmts or e.enums or e.tail is None:
                raise Unsupported("block with statements in expression position", e.line)
            bpre = []
            ty, t = self.ex(e.tail, expected, bpre)
            if bpre:
                raise Unsupported("branch `%s` in expression position can panic or return" % show(e.tail), e.tail.line)
            return ty, t
        if k == "if":
            if e.els is None:
                raise Unsupported("`if` without `else` in expression position", e.line)
            cty, c = self.ex(e.cond, "bool", pre)
            if cty != "bool":
                raise Unsupported("condition of type `%s` (rustc would reject)" % type_str(cty), e.line)
            branches = [("if %s then" % c, e.then, {}), ("else", e.els, {})]
            opening = ""
        else:
            tys, terms = self.scrutinee(e.expr, pre)
            opening = "match %s with " % ", ".join(terms)
            if k == "iflet":
                if e.els is None:
                    raise Unsupported("`if let` without `else` in expression position", e.line)
                arms = [(e.pat, e.then), (None, e.els)]
            else:
                arms = [(a.pat, a.body) for a in e.arms]
                if not arms:
                    raise Unsupported("`match` without arms", e.line)
            branches = []
            for p, body in arms:
                scope = {}
                self.scopes.append(scope)
                pat = self.arm_patterns(p, tys) if p is not None else ", ".join("_" for _ in tys)
                self.scopes.pop()
                branches.append(("| %s =>" % pat, body, scope))
        ty, parts = None, []
        for head, body, scope in branches:
            if body.kind != "block":
                body = Node("block", body.line, stmts=[], tail=body, enums=[])
            self.scopes.append(scope)
            bty, t = self.ex_cf(body, expected if ty is None else ty, None)
            self.scopes.pop()
            if ty is None:
                ty = bty
            elif bty != ty:
                raise Unsupported("branches of types `%s` and `%s` (rustc would reject)" % (type_str(ty), type_str(bty)), body.line)
            parts.append("%s %s" % (head, t))
        return ty, "(%s%s)" % (opening, " ".join(parts))

    # ------------------------------------------------------------------------------------
    # statements and control flow
    # ------------------------------------------------------------------------------------
    def emit(self, ind, text):
        self.lines.append("  " * ind + text)

    def emit_pre(self, ind, pre):
        for l in pre:
            self.emit(ind, l)

    def tuple_of(self, names):
        if not names:
            return "()"
        if len(names) == 1:
            return lean_name(names[0])
        return "(%s)" % ", ".join(lean_name(n) for n in names)

    def outer_mutated(self, node):
        found, declared = [], set()

        def walk(n):
            if isinstance(n, list):
                for x in n:
                    walk(x)
                return
            if not isinstance(n, Node):
                return
            if n.kind == "let":
                declared.add(n.name)
            if n.kind == "assign":
                b = self.strip(n.target)
                if b.kind == "var" and b.name not in found:
                    found.append(b.name)
            for key, val in n.__dict__.items():
                if key in ("kind", "line"):
                    continue
                if isinstance(val, (Node, list)):
                    walk(val)
        walk(node)
        for n in found:
            if n in declared:
                raise Unsupported("`%s` is both assigned and re-declared inside one statement" % n, node.line)
        return [n for n in found if any(n in s for s in self.scopes)]

    def ret(self, ind, term):
        self.emit(ind, "Flow.ret %s" % term)

    def leaf(self, e, ind):
        """`e` is the value of the function"""
        k = e.kind
        if k in ("if", "iflet", "match", "block"):
            self.emit(ind, "-- L%d: %s" % (e.line, show(e)))
            self.cf(e, ind, ("tail",))
            return
        if k == "macro" and e.name == "bail":
            self.bail(e, ind)
            return
        if k == "return":
            if e.expr is None:
                raise Unsupported("`return` without a value", e.line)
            self.leaf(e.expr, ind)
            return
        self.emit(ind, "-- L%d: %s   (value of the function body)" % (e.line, show(e)))
        pre = []
        ty, t = self.ex(e, self.ret_ty, pre)
        if ty != self.ret_ty:
            raise Unsupported("value of type `%s` where the function returns `%s` (rustc would reject)" % (type_str(ty), type_str(self.ret_ty)), e.line)
        self.emit_pre(ind, pre)
        self.ret(ind, t)

    def bail(self, e, ind):
        self.require_use("bail", e.line)
        if not (isinstance(self.ret_ty, tuple) and self.ret_ty[0] == "result"):
            raise Unsupported("`bail!` in a function that does not return `Result`", e.line)
        self.check_format_args(e)
        self.emit(ind, "-- L%d: %s;" % (e.line, show(e)))
        self.ret(ind, "RResult.err")

    def block(self, b, ind, mode, scope=None):
        self.scopes.append(scope if scope is not None else {})
        for en in b.enums:
            self.local_enum(en)
        diverged = False
        for i, s in enumerate(b.stmts):
            if diverged:
                raise Unsupported("statement after `return`/`bail!`", s.line)
            diverged = self.stmt(s, ind, b.stmts[i + 1:] + ([b.tail] if b.tail is not None else []))
        if diverged:
            if b.tail is not None:
                raise Unsupported("expression after `return`/`bail!`", b.tail.line)
        elif mode[0] == "tail":
            if b.tail is None:
                raise Unsupported("block without a value where the function's value is expected", b.line)
            self.leaf(b.tail, ind)
        else:
            if b.tail is not None:
                diverged = self.stmt(Node("exprstmt", b.tail.line, expr=b.tail), ind, [])
            if not diverged:
                self.emit(ind, "Flow.next %s" % self.tuple_of(mode[1]))
        self.scopes.pop()

    def stmt(self, s, ind, rest):
        """one statement; True when control never continues after it"""
        if s.kind == "let":
            self.emit(ind, "-- L%d: let %s = %s;" % (s.line, s.name, show(s.expr)))
            want = self.resolve_type(s.ty) if s.ty is not None else None
            x = s.expr
            if want is None and x.kind == "try" and self.strip(x.expr).kind == "mcall" and self.strip(x.expr).name == "parse" \
                    and not self.strip(x.expr).targs:
                want = self.infer_from_uses(s.name, rest, s.line)
            pre = []
            ty, t = self.ex(x, want, pre)
            if want is not None and ty != want:
                raise Unsupported("`let %s: %s` initialised with a `%s` (rustc would reject)" % (s.name, type_str(want), type_str(ty)), s.line)
            if ty == "unit":
                raise Unsupported("`let` of a unit value", s.line)
            self.emit_pre(ind, pre)
            self.declare(s.name, ty, False, s.line)
            self.emit(ind, "let %s : %s := %s" % (lean_name(s.name), self.lean_type(ty), t))
            return False
        e = s.expr
        k = e.kind
        if k == "assign":
            self.emit(ind, "-- L%d: %s;" % (e.line, show(e)))
            b = self.strip(e.target)
            if b.kind != "var":
                raise Unsupported("assignment target `%s`" % show(e.target), e.line)
            v = self.lookup(b.name, b.line)
            if not v.mut:
                raise Unsupported("assignment to immutable `%s` (rustc would reject)" % b.name, e.line)
            pre = []
            ty, t = self.ex(e.expr, v.ty, pre)
            if ty != v.ty:
                raise Unsupported("assignment of a `%s` to `%s: %s` (rustc would reject)" % (type_str(ty), b.name, type_str(v.ty)), e.line)
            self.emit_pre(ind, pre)
            self.emit(ind, "let %s : %s := %s" % (v.lean, self.lean_type(v.ty), t))
            return False
        if k == "macro" and e.name == "bail":
            self.bail(e, ind)
            return True
        if k == "return":
            if e.expr is None:
                raise Unsupported("`return` without a value", e.line)
            self.emit(ind, "-- L%d: %s;" % (e.line, show(e)))
            self.leaf(e.expr, ind)
            return True
        if k in ("if", "iflet", "match", "block"):
            names = self.outer_mutated(e)
            self.emit(ind, "-- L%d: %s   (assigns: %s)" % (e.line, show(e), ", ".join(names) if names else "nothing"))
            self.emit(ind, "Flow.bind (")
            self.cf(e, ind + 1, ("stmt", names))
            self.emit(ind, ") fun %s =>" % self.tuple_of(names))
            return False
        raise Unsupported("expression statement `%s`" % show(e), e.line)

    def infer_from_uses(self, name, nodes, line):
        """type of `let name = <..>.parse()?`: the type of the constructor field(s) the value is passed to"""
        found = set()

        def walk(n):
            if isinstance(n, list):
                for x in n:
                    walk(x)
                return
            if not isinstance(n, Node):
                return
            if n.kind == "let" and n.name == name:
                raise Unsupported("`%s` is re-declared before its type is determined" % name, n.line)
            if n.kind == "call":
                c = self.ctor_of(n.segs, n.line) if len(n.segs) >= 2 else None
                for i, a in enumerate(n.args):
                    b = self.strip(a)
                    if b.kind == "var" and b.name == name:
                        if c is None or i >= len(c[2]):
                            raise Unsupported("cannot determine the target type of `.parse()` from the use of `%s` in `%s`" % (name, show(n)), n.line)
                        found.add(c[2][i])
            elif n.kind == "var" and n.name == name and getattr(n, "_seen", False) is False:
                pass
            for key, val in n.__dict__.items():
                if key in ("kind", "line"):
                    continue
                if isinstance(val, (Node, list)):
                    walk(val)
        walk(nodes)
        if len(found) != 1:
            raise Unsupported("cannot determine the target type of `.parse()` for `%s`" % name, line)
        return found.pop()

    def cf(self, e, ind, mode):
        """`if` / `if let` / `match` / block in statement position (`mode` = ("stmt", assigned names)) or as the
        value of the function (("tail",)); every branch ends in `Flow.next ..` / `Flow.ret ..`"""
        k = e.kind
        if k == "block":
            self.block(e, ind, mode)
            return
        if k == "if":
            pre = []
            cty, c = self.ex(e.cond, "bool", pre)
            if cty != "bool":
                raise Unsupported("condition of type `%s` (rustc would reject)" % type_str(cty), e.line)
            self.emit_pre(ind, pre)
            self.emit(ind, "if %s then" % c)
            self.block(e.then, ind + 1, mode)
            self.emit(ind, "else")
            self.else_branch(e, ind + 1, mode)
            return
        pre = []
        tys, terms = self.scrutinee(e.expr, pre)
        self.emit_pre(ind, pre)
        self.emit(ind, "(match %s with" % ", ".join(terms))
        if k == "iflet":
            scope = {}
            self.scopes.append(scope)
            pat = self.arm_patterns(e.pat, tys)
            self.scopes.pop()
            self.emit(ind, "| %s =>" % pat)
            self.block(e.then, ind + 1, mode, scope)
            self.emit(ind, "| %s =>" % ", ".join("_" for _ in tys))
            self.else_branch(e, ind + 1, mode)
        else:
            if not e.arms:
                raise Unsupported("`match` without arms", e.line)
            for a in e.arms:
                scope = {}
                self.scopes.append(scope)
                pat = self.arm_patterns(a.pat, tys)
                self.scopes.pop()
                self.emit(ind, "| %s =>" % pat)
                self.emit(ind + 1, "-- L%d: %s => ..." % (a.line, show_pat(a.pat)))
                body = a.body
                if body.kind != "block":
                    body = Node("block", body.line, stmts=[], tail=body, enums=[])
                self.block(body, ind + 1, mode, scope)
        self.lines[-1] += ")"

    def else_branch(self, e, ind, mode):
        if e.els is not None:
            self.block(e.els, ind, mode)
        elif mode[0] == "stmt":
            self.emit(ind, "Flow.next %s" % self.tuple_of(mode[1]))
        else:
            raise Unsupported("`if` without `else` as the value of the function", e.line)

    # ------------------------------------------------------------------------------------
    # items
    # ------------------------------------------------------------------------------------
    def register_enum(self, en, lean, emit_to, origin):
        variants = []
        for v in en.variants:
            if v.disc is not None:
                raise Unsupported("explicit discriminant in `enum %s`" % en.name, v.line)
            ftys = [self.resolve_type(f) for f in v.fields]
            for f, ty in zip(v.fields, ftys):
                if ty in ("unit", "str"):
                    raise Unsupported("field of type `%s` in `enum %s`" % (show_type(f), en.name), f.line)
            if any(v.name == w[0] for w in variants):
                raise Unsupported("duplicate variant `%s`" % v.name, v.line)
            variants.append((v.name, ftys))
        if not variants:
            raise Unsupported("`enum %s` without variants" % en.name, en.line)
        if en.name in self.enums:
            raise Unsupported("two enums named `%s`" % en.name, en.line)
        self.enums[en.name] = (lean, variants)
        if emit_to is None:
            return
        emit_to.append("/-! ### enum %s (%s) -/" % (en.name, origin))
        emit_to.append("inductive %s where" % lean)
        for v, (vname, ftys) in zip(en.variants, variants):
            emit_to.append("  -- L%d: %s%s" % (v.line, vname, ("(%s)" % ", ".join(show_type(f) for f in v.fields)) if v.fields else ""))
            emit_to.append("  | %s%s" % (lean_name(vname), "".join(" (a%d : %s)" % (i, self.lean_type(t)) for i, t in enumerate(ftys))))
        emit_to.append("deriving DecidableEq, Repr")
        emit_to.append("")

    def local_enum(self, en):
        if en.name in LIB_NAMES:
            raise Unsupported("`enum %s`: a local definition of a name the translator reads as a library name" % en.name, en.line)
        self.register_enum(en, "%s.%s" % (lean_name(self.fn_name), en.name), self.hoisted, "declared inside `fn %s`" % self.fn_name)

    def gen_fn(self, fn, out):
        self.scopes = [{}]
        self.lines = []
        self.hoisted = []
        self.fn_name = fn.name
        params, sig = [], []
        for prm in fn.params:
            ty = self.resolve_type(prm.ty)
            if ty == "unit" or isinstance(ty, tuple) and ty[0] == "result":
                raise Unsupported("parameter of type `%s`" % show_type(prm.ty), prm.line)
            self.declare(prm.name, ty, prm.mut, prm.line)
            params.append("(%s : %s)" % (lean_name(prm.name), self.lean_type(ty)))
            sig.append("%s%s: %s" % ("mut " if prm.mut else "", prm.name, show_type(prm.ty)))
        self.ret_ty = self.resolve_type(fn.ret)
        if self.ret_ty in ("str",):
            raise Unsupported("return type `%s`" % show_type(fn.ret), fn.line)
        before = set(self.enums)
        self.block(fn.body, 1, ("tail",))
        for n in set(self.enums) - before:
            pass            # enums local to the body stay registered under their qualified Lean name only
        out.extend(self.hoisted)
        out.append("-- L%d: fn %s(%s) -> %s" % (fn.line, fn.name, ", ".join(sig), show_type(fn.ret)))
        out.append("/-- `%s` -/" % fn.name)
        out.append("def %s %s : Res (%s) :=" % (lean_name(fn.name), " ".join(["(%s : Bool)" % self.ov] + params), self.lean_type(self.ret_ty)))
        out.append("  Flow.run (")
        out.extend(self.lines)
        out.append("  )")
        out.append("")
        for n in set(self.enums) - before:
            del self.enums[n]


# --------------------------------------------------------------------------------------------
# fixed run-time support written into every generated file
# --------------------------------------------------------------------------------------------

PRELUDE = r'''
/-! ### fixed run-time support (not derived from the source): library semantics

`Res`, `Flow`, `Flow.bind/run/arith`, `Usize`, `U64.addOk/subOk` are those of `Octo.PWGen`; `RResult`, `Flow.question`,
`RString` (= `String`: its bytes), the integer casts and `enum Address` are those of `Octo.AddrGen`
(`Octo/Gen/AddrGen.lean`, generated from `protocol/socks5/address.rs` and `protocol/address.rs`).

`&str` is represented by its UTF-8 bytes.  That the bytes *are* valid UTF-8 (`Str.valid`) is the invariant of the Rust type
and is not re-checked by any operation below; the only operation of this file whose outcome depends on it is range
indexing, which panics when a bound is not on a char boundary - and whether an index is a boundary is decided by std from
the single byte at that index (`is_char_boundary`), exactly as here. -/

/-- `&str`: its UTF-8 bytes -/
abbrev Str := List UInt8

/-- a UTF-8 continuation byte `10xxxxxx` -/
def U8.is_cont (b : UInt8) : Bool := decide (128 ≤ b.toNat ∧ b.toNat < 192)

/-- well-formed UTF-8 (Unicode Table 3-7, what `std::str::from_utf8` accepts): the invariant of `&str` / `String` -/
def Str.validFuel : Nat → List UInt8 → Bool
  | _, [] => true
  | 0, _ :: _ => false
  | n + 1, b0 :: r =>
    if b0.toNat < 128 then Str.validFuel n r
    else if 194 ≤ b0.toNat ∧ b0.toNat ≤ 223 then
      match r with
      | b1 :: r1 => U8.is_cont b1 && Str.validFuel n r1
      | _ => false
    else if 224 ≤ b0.toNat ∧ b0.toNat ≤ 239 then
      match r with
      | b1 :: b2 :: r2 =>
        decide ((if b0.toNat = 224 then 160 else 128) ≤ b1.toNat ∧ b1.toNat ≤ (if b0.toNat = 237 then 159 else 191))
          && U8.is_cont b2 && Str.validFuel n r2
      | _ => false
    else if 240 ≤ b0.toNat ∧ b0.toNat ≤ 244 then
      match r with
      | b1 :: b2 :: b3 :: r3 =>
        decide ((if b0.toNat = 240 then 144 else 128) ≤ b1.toNat ∧ b1.toNat ≤ (if b0.toNat = 244 then 143 else 191))
          && U8.is_cont b2 && U8.is_cont b3 && Str.validFuel n r3
      | _ => false
    else false
def Str.valid (s : List UInt8) : Bool := Str.validFuel s.length s

/-- `str::len`: number of bytes (lengths fit a `usize`) -/
def Str.len (s : Str) : Usize := UInt64.ofNat s.length
def Str.is_empty (s : Str) : Bool := s.isEmpty
/-- `str::to_owned` / `to_string`: the `String` with the same bytes -/
def Str.to_owned (s : Str) : RString := ⟨s⟩

/-- index of the first byte equal to `c` -/
def Str.findByte (c : UInt8) : List UInt8 → Option Nat
  | [] => none
  | x :: r => if x = c then some 0 else (Str.findByte c r).map (· + 1)
/-- index of the last byte equal to `c` -/
def Str.rfindByte (c : UInt8) : List UInt8 → Option Nat
  | [] => none
  | x :: r =>
    match Str.rfindByte c r with
    | some i => some (i + 1)
    | none => if x = c then some 0 else none
/-- index of the first occurrence of the byte string `pat` -/
def Str.findSub (pat : List UInt8) : List UInt8 → Option Nat
  | [] => if pat = [] then some 0 else none
  | x :: r => if (x :: r).take pat.length = pat then some 0 else (Str.findSub pat r).map (· + 1)

/-- `str::find(c)` for an ASCII `char` `c`: byte index of the first occurrence (an ASCII byte never occurs inside the
encoding of another char, so this is the first byte equal to `c`) -/
def Str.find_char (s : Str) (c : UInt8) : Option Usize := (Str.findByte c s).map UInt64.ofNat
/-- `str::rfind(c)` for an ASCII `char` `c`: byte index of the last occurrence -/
def Str.rfind_char (s : Str) (c : UInt8) : Option Usize := (Str.rfindByte c s).map UInt64.ofNat
/-- `str::find(pat)` for a non-empty string literal `pat`: byte index of the first occurrence -/
def Str.find_str (s : Str) (pat : List UInt8) : Option Usize := (Str.findSub pat s).map UInt64.ofNat
/-- `str::ends_with(c)` for an ASCII `char` `c` -/
def Str.ends_with_char (s : Str) (c : UInt8) : Bool := s.getLast? == some c

/-- `str::is_char_boundary(i)`: `i == 0`, or `i == len`, or `i < len` and the byte at `i` is not a continuation byte
(`(b as i8) >= -0x40`) -/
def Str.is_char_boundary (s : Str) (i : Nat) : Bool :=
  if i = 0 then true else
  match s[i]? with
  | some b => !U8.is_cont b
  | none => i == s.length

/-- `&s[..j]`: panics unless `j` is a char boundary (in particular `j <= len`) -/
def Flow.strTo {ρ : Type} (s : Str) (j : Usize) : Flow Str ρ :=
  if Str.is_char_boundary s j.toNat then .next (s.take j.toNat) else .panic
/-- `&s[i..]`: panics unless `i` is a char boundary (in particular `i <= len`) -/
def Flow.strFrom {ρ : Type} (s : Str) (i : Usize) : Flow Str ρ :=
  if Str.is_char_boundary s i.toNat then .next (s.drop i.toNat) else .panic
/-- `&s[i..j]`: panics unless `i <= j` and both are char boundaries -/
def Flow.strRange {ρ : Type} (s : Str) (i j : Usize) : Flow Str ρ :=
  if i.toNat ≤ j.toNat ∧ Str.is_char_boundary s i.toNat ∧ Str.is_char_boundary s j.toNat
  then .next ((s.take j.toNat).drop i.toNat) else .panic

/-- `s.bytes().all(p)` -/
def Str.bytes_all (s : Str) (p : UInt8 → Bool) : Bool := s.all p
/-- `u8::is_ascii_digit` -/
def U8.is_ascii_digit (b : UInt8) : Bool := decide (48 ≤ b.toNat ∧ b.toNat ≤ 57)
/-- `u8::is_ascii_alphanumeric` -/
def U8.is_ascii_alphanumeric (b : UInt8) : Bool :=
  decide ((48 ≤ b.toNat ∧ b.toNat ≤ 57) ∨ (65 ≤ b.toNat ∧ b.toNat ≤ 90) ∨ (97 ≤ b.toNat ∧ b.toNat ≤ 122))

/-- the digit loop of `u16::from_str`: `result.checked_mul(10)?.checked_add(digit)?` per byte, `None` on a byte that is
not a decimal digit or when the value leaves `u16` -/
def Str.parseDigits : Nat → List UInt8 → Option Nat
  | acc, [] => some acc
  | acc, c :: r =>
    if U8.is_ascii_digit c then
      let v := acc * 10 + (c.toNat - 48)
      if v ≤ 65535 then Str.parseDigits v r else none
    else none
/-- `s.parse::<u16>()` (`u16::from_str`, radix 10): `Err` on the empty string, on a lone sign, on any byte that is not a
digit after one optional leading `+` (a `-` is not accepted for an unsigned type), and on overflow -/
def Str.parse_u16 (s : Str) : RResult UInt16 :=
  match s with
  | [] => .err
  | c :: r =>
    let digits := if c = 43 then r else s
    if digits.isEmpty then .err else
    match Str.parseDigits 0 digits with
    | some v => .ok (UInt16.ofNat v)
    | none => .err

/-- `opt.ok_or_else(|| anyhow!(..))`: the error value is not modelled -/
def Option.ok_or_else {α : Type} : Option α → RResult α
  | some a => .ok a
  | none => .err
'''

SCAN_SUPPORT = r'''
/-- `b.windows(n).position(|w| w == pat)` for `n = pat.len() > 0`: index of the first window equal to `pat` -/
def Bytes.windows_position (pat : List UInt8) : List UInt8 → Option Nat
  | [] => none
  | x :: r => if (x :: r).take pat.length = pat then some 0 else (Bytes.windows_position pat r).map (· + 1)
/-- `&b[..j]` on a byte slice: panics when `j > len` -/
def Flow.bytesTo {ρ : Type} (b : List UInt8) (j : Usize) : Flow (List UInt8) ρ :=
  if j.toNat ≤ b.length then .next (b.take j.toNat) else .panic
def Bytes.windows_position_usize (pat b : List UInt8) : Option Usize := (Bytes.windows_position pat b).map UInt64.ofNat
'''


# --------------------------------------------------------------------------------------------
# the separable pure fragment of `async fn get_request_addr`: the scan for the end of the CONNECT request
# --------------------------------------------------------------------------------------------

SCAN_TEMPLATE = ("if let Some ( $end ) = $buf [ .. $len ] . windows ( $N ) . position ( | $w | $w == $LIT ) { "
                 "$stream . read_exact ( & mut $buf [ .. $end + $K ] ) . await ? ; break ; }").split()
SCAN_FN = "get_request_addr"


def match_scan(toks):
    """first occurrence of SCAN_TEMPLATE in `toks`: ($name -> token) or None; `$x` matches one identifier / literal,
    the same one at every occurrence"""
    n = len(SCAN_TEMPLATE)
    for i in range(len(toks) - n + 1):
        env = {}
        ok = True
        for t, want in zip(toks[i:i + n], SCAN_TEMPLATE):
            if want.startswith("$"):
                kind = {"$N": "int", "$K": "int", "$LIT": "str"}.get(want, "ident")
                if t.kind != kind or (kind == "ident" and t.text in RUST_KEYWORDS):
                    ok = False
                    break
                if want in env and env[want].text != t.text:
                    ok = False
                    break
                env.setdefault(want, t)
            elif t.text != want or t.kind not in ("punct", "ident"):
                ok = False
                break
        if ok:
            return env
    return None


def gen_scan(p, toks, g, out):
    """emit `connect_scan` from the fragment of `get_request_addr`; returns a description for the header"""
    rng = [a for a in p.async_fns if a[0] == SCAN_FN]
    if not rng:
        return None
    _, start, end, l0, l1 = rng[0]
    env = match_scan(toks[start:end])
    if env is None:
        raise Unsupported("the scan for the end of the CONNECT request in `%s` is not in the shape the translator knows "
                          "(`if let Some(end) = buf[..len].windows(N).position(|w| w == b\"..\") { stream.read_exact(&mut buf[..end + K]).await?; break; }`)"
                          % SCAN_FN, l0)
    line = env["$LIT"].line
    lit = env["$LIT"].text
    if not lit.startswith('b"'):
        raise Unsupported("the pattern of the scan is not a byte string literal", line)
    pat = tt.rust_string(lit[1:], line)
    n = ta.parse_int(env["$N"])
    k = ta.parse_int(env["$K"])
    if n["suffix"] not in (None, "usize") or k["suffix"] not in (None, "usize"):
        raise Unsupported("suffixed literal in the scan", line)
    if n["value"] != len(pat) or not pat:
        raise Unsupported("`windows(%d)` compared with a literal of %d bytes" % (n["value"], len(pat)), line)
    if k["value"] >= 2 ** 64:
        raise Unsupported("literal out of range", line)
    names = {v.text for v in env.values() if v.kind == "ident"}
    buf, ln, en = (lean_name(env[x].text) for x in ("$buf", "$len", "$end"))
    if len({buf, ln, en, g.ov}) != 4:
        raise Unsupported("names of the scan clash", line)
    v1, v2 = g.fresh(), g.fresh()
    patl = ", ".join(str(b) for b in pat)
    out.append("/-! ### the separable pure part of `async fn %s` (lines %d-%d): the scan for the end of the CONNECT request -/" % (SCAN_FN, l0, l1))
    out.append("-- L%d: if let Some(%s) = %s[..%s].windows(%d).position(|%s| %s == %s) { %s.read_exact(&mut %s[..%s + %d]).await?; break; }"
               % (line, env["$end"].text, env["$buf"].text, env["$len"].text, n["value"], env["$w"].text, env["$w"].text, lit,
                  env["$stream"].text, env["$buf"].text, env["$end"].text, k["value"]))
    out.append("/-- one look at the %d-byte window of `%s`: `%s` = the peeked buffer, `%s` = the number of bytes `peek` reported;" % (len(pat), SCAN_FN, env["$buf"].text, env["$len"].text))
    out.append("`some n` = `read_exact` consumes the first `n` bytes and the loop ends, `none` = the pattern has not arrived -/")
    out.append("def connect_scan (%s : Bool) (%s : List UInt8) (%s : Usize) : Res (Option Usize) :=" % (g.ov, buf, ln))
    out.append("  Flow.run (")
    out.append("  Flow.bind (Flow.bytesTo %s %s) fun %s =>" % (buf, ln, v1))
    out.append("  (match (Bytes.windows_position_usize [%s] %s) with" % (patl, v1))
    out.append("  | (some %s) =>" % en)
    out.append("    Flow.bind (Flow.arith %s (U64.addOk %s (%d : Usize))) fun () =>" % (g.ov, en, k["value"]))
    out.append("    Flow.bind (Flow.bytesTo %s (%s + (%d : Usize))) fun %s =>" % (buf, en, k["value"], v2))
    out.append("    Flow.ret (some (Cursor.len %s))" % v2)
    out.append("  | _ =>")
    out.append("    Flow.ret (none : Option Usize))")
    out.append("  )")
    out.append("")
    return "line %d of `async fn %s`: the scan `%s[..%s].windows(%d).position(|%s| %s == %s)` and the `%s + %d` bytes then consumed -> `connect_scan`" % (
        line, SCAN_FN, env["$buf"].text, env["$len"].text, n["value"], env["$w"].text, env["$w"].text, lit, env["$end"].text, k["value"])


# --------------------------------------------------------------------------------------------
# driver
# --------------------------------------------------------------------------------------------

def find_address(main_path):
    here = os.path.dirname(os.path.abspath(main_path))
    root = os.path.normpath(os.path.join(here, "..", "..", ".."))
    cands = [os.path.join(root, "octo-squirrel", "src", "protocol", "address.rs"), os.path.join(here, "address_type.rs")]
    for c in cands:
        if os.path.exists(c):
            return c
    raise Unsupported("source file for `enum Address` not found (looked for %s)" % ", ".join(cands), 1)


def read_source(path):
    data = open(path, "rb").read()
    try:
        src = data.decode("utf-8")
    except UnicodeDecodeError:
        raise Unsupported("non-UTF-8 source %s" % path, 1)
    return data, tn.tokenize(src)


def header(path, digest, p, apath, adigest, g, fns, scan):
    L = []
    L.append("/- GENERATED by translate_handshake.py — do not edit.")
    L.append("   source: %s" % path)
    L.append("   sha256: %s" % digest)
    L.append("   further sources (found relative to the first):")
    L.append("     - address: %s (sha256 %s): `enum Address` (declared in Octo.AddrGen)" % (os.path.basename(apath), adigest))
    L.append("")
    L.append("   Statement-by-statement translation of the top-level enums of the source and of every free `fn` that is not")
    L.append("   `async` and not cfg-gated: %s." % ", ".join("`%s`" % f for f in fns))
    if scan:
        L.append("   A fragment located token for token (identifiers and the three literals are read from the source):")
        L.append("     - %s;" % scan)
        L.append("       `&b[..j]` on a byte slice = Flow.bytesTo (PANIC when `j > len`), `windows(n).position(..)` = Bytes.windows_position.")
    L.append("   Conventions of translate_addr.py (see Octo/Gen/AddrGen.lean): u8/u16/usize = UIntN (usize = 64 bit), `as` =")
    L.append("   zero-extension / truncation, `+ - *` wrap and are preceded by `Flow.arith ov (..)` (panic when overflow-checks")
    L.append("   are on), `Result<T>` = RResult T (error texts are not modelled; format arguments of `bail!` / `anyhow!` must be")
    L.append("   free of panics/effects and are dropped), `e?` = Flow.question, `String` = RString (its bytes).  In addition here:")
    L.append("   * `&str` = Str = its UTF-8 bytes; `s[..j]` / `s[i..]` / `s[i..j]` = Flow.strTo / strFrom / strRange: PANIC unless")
    L.append("     the bounds are ordered, in range and on char boundaries (std's `is_char_boundary`, decided from the byte at the")
    L.append("     index); `find` / `rfind` / `ends_with` with an ASCII `char`, `find` with a string literal, `len`, `to_owned`,")
    L.append("     `parse::<u16>` (target type inferred from the constructor field the value flows into), `bytes().all(|b| ..)`,")
    L.append("     `is_ascii_alphanumeric`: exact definitions in the support section below;")
    L.append("   * `opt.map(|x| e)` / `opt.filter(|&x| e)`: the closure body is evaluated (with its overflow checks and panics)")
    L.append("     only on `Some`; `opt.ok_or_else(|| anyhow!(..))` = Option.ok_or_else; `a && b` / `a || b` whose right operand")
    L.append("     can panic evaluate it only when the left one does not decide;")
    L.append("   * `if let` / `match` = a Lean `match` with the same patterns in the same order (first arm that matches), a tuple")
    L.append("     scrutinee is matched component-wise; in expression position every branch must be free of panics;")
    L.append("   * a `mut` parameter is a local variable; an `if` / `if let` statement yields the variables it assigns;")
    L.append("   * an `enum` declared inside a function body is declared before the function as `<fn>.<Enum>`.")
    L.append("   names are bound through the `use` items of the source (checked for: %s)." % ", ".join(sorted(g.used_names)))
    L.append("   assumed externals: none (the translated functions call nothing outside `std`; `httparse`, `tokio`, the SOCKS5")
    L.append("   handshake are only used by the skipped `async fn`s).")
    L.append("   skipped (not parsed, bracket matching only):")
    if p.nuse:
        L.append("     - %d `use` items (read for name binding only)" % p.nuse)
    for s in p.skipped:
        L.append("     - %s" % s)
    L.append("-/")
    return L


def translate(path, out_path):
    data, toks = read_source(path)
    digest = hashlib.sha256(data).hexdigest()
    p = Parser(toks)
    p.parse_file()
    idents = [t.text for t in toks if t.kind == "ident"]

    apath = find_address(path)
    adata, atoks = read_source(apath)
    adigest = hashlib.sha256(adata).hexdigest()
    ap = tt.Parser(atoks, "address")
    try:
        ap.parse_file()
    except Unsupported as u:
        raise Unsupported("%s (in %s)" % (u.what, os.path.basename(apath)), u.line)
    if len(ap.enums) != 1:
        raise Unsupported("`enum Address` not found exactly once in %s" % os.path.basename(apath), 1)
    idents += [t.text for t in atoks if t.kind == "ident"]

    addr_gen = os.path.join(os.path.dirname(os.path.abspath(out_path)), "AddrGen.lean")
    if os.path.exists(addr_gen):
        m = re.search(r"parsed from address\.rs \(sha256 (\w+)\)", open(addr_gen, encoding="utf-8").read())
        if m and m.group(1) != adigest:
            raise OSError("%s was generated with another protocol/address.rs (sha256 %s, this one is %s): run translate_addr.py first"
                          % (addr_gen, m.group(1)[:16], adigest[:16]))

    if not p.fns:
        raise Unsupported("no translatable `fn` found", 1)
    names = [f.name for f in p.fns]
    for n in names:
        if names.count(n) > 1:
            raise Unsupported("two functions named `%s`" % n, 1)

    g = Gen(idents, p.uses)
    # `enum Address`: Domain(String, u16) | Socket(SocketAddr) as declared by Octo.AddrGen
    aen = ap.enums[0]
    variants = []
    for v in aen.variants:
        ftys = []
        for f in v.fields:
            if f.kind == "tname" and f.segs == ["String"]:
                ftys.append("String")
            elif f.kind == "tname" and f.segs == ["u16"]:
                ftys.append("u16")
            elif f.kind == "tname" and f.segs == ["SocketAddr"]:
                ftys.append("SocketAddr")
            else:
                raise Unsupported("field type of `Address::%s` in %s" % (v.name, os.path.basename(apath)), v.line)
        variants.append((v.name, ftys))
    g.enums["Address"] = ("Address", variants)

    out = []
    for en in p.enums:
        if en.name == "Address":
            raise Unsupported("a local `enum Address`", en.line)
        g.register_enum(en, en.name, out, "parsed from this file")
    out.append("/-! ### functions -/")
    for fn in p.fns:
        g.gen_fn(fn, out)
    scan = gen_scan(p, toks, g, out)

    text = []
    text.extend(header(path, digest, p, apath, adigest, g, names, scan))
    text.append("import Octo.Gen.AddrGen")
    text.append("set_option linter.unusedVariables false")
    text.append("namespace Octo.HandshakeGen")
    text.append("open Octo.PWGen Octo.AddrGen")
    text.append(PRELUDE)
    if scan:
        text.append(SCAN_SUPPORT)
    text.extend(out)
    text.append("end Octo.HandshakeGen")
    return "\n".join(text) + "\n"


def main(argv):
    if len(argv) != 3:
        sys.stderr.write("usage: translate_handshake.py <path/to/octo-squirrel-client/src/client/handshake.rs> <out.lean>\n")
        return 2
    try:
        text = translate(argv[1], argv[2])
    except Unsupported as u:
        sys.stderr.write("translate_handshake: unsupported: %s at line %d\n" % (u.what, u.line))
        return 3
    except OSError as e:
        sys.stderr.write("translate_handshake: %s\n" % e)
        return 2
    try:
        with open(argv[2], "w", encoding="utf-8") as f:
            f.write(text)
    except OSError as e:
        sys.stderr.write("translate_handshake: %s\n" % e)
        return 2
    return 0


if __name__ == "__main__":
    sys.exit(main(sys.argv))
